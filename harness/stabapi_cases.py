"""API stage of C13: the parts of simulaqron/toolbox/stabilizer_states.py around
the gate algebra — every input form of `StabilizerState.__init__` (None, int,
another state, networkx graph, list of strings, boolean arrays, the refusals),
`_str_to_operator`, `_row_to_string` / `to_string` / `__str__` / `__repr__` /
`__len__` / `num_qubits`, `Pauli_phase_tracking`, `check_symplectic`,
`_assert_valid_stabilizer` and the argument handling of `contains`,
`put_in_standard_form`, `to_array(standard_form, return_pivot_columns)`,
`apply_sqrt_minIX`, `apply_sqrt_IZ`, `__mul__`.

Same structure as stabutil.py: picklable case descriptors (kind `api_*`), one
executor per kind that runs the REAL code, judges it with the NumPy reference of
stabutil.py (state vectors; nothing here looks at the Lean model) and returns
the driver queries; `tie` sends them to the Lean driver `stabapi`
(lean/SqVerif/Drive/StabApi.lean) and compares literally — constructors,
strings, pivots, refusals (class always, raising statement when the message is
recognised) — or at group level where generators may legitimately differ
(composite gates, `*`).

Left out: `find_SQC_equiv_graph_state` (calls `nx.from_numpy_matrix`, which the
installed networkx no longer has; the repository's own test for it fails in the
baseline)."""
import itertools
import multiprocessing
import os
import random
import re

import numpy as np

from . import core
from . import stabutil as su

PREFIX = "api_"


def is_api(desc):
    return isinstance(desc[0], str) and desc[0].startswith(PREFIX)


# --------------------------------------------------------------------------
# encoding, small helpers
# --------------------------------------------------------------------------

def enc_str(s):
    return "e" if s == "" else ",".join(str(ord(c)) for c in s)


def enc_bits(b):
    return b if b else "e"


ERR_KINDS = [
    ("If data is a length-'n' list", "parse"),
    ("Could not create an array", "ragged"),
    ("inhomogeneous", "ragged"),
    ("needs to be an array of rank 2", "rank"),
    ("needs to be an array of dimension", "width"),
    ("does not commute", "notCommuting"),
    ("Cannot parse", "containsParse"),
    ("should be of type `bool`", "notBool"),
    ("Stabilizer must be of length", "stabLen"),
]


def err_kind(msg):
    for frag, kind in ERR_KINDS:
        if frag in msg:
            return kind
    return "other"


def _callm(f, *a, **k):
    """(kind, value, message): ok / ValueError / crash:<type>"""
    try:
        return "ok", f(*a, **k), ""
    except ValueError as e:
        return "ValueError", None, str(e)
    except Exception as e:  # not a documented refusal
        return "crash:" + type(e).__name__, None, str(e)


def _obs_err(kind, msg):
    return "ValueError:" + err_kind(msg) if kind == "ValueError" else kind


PAT = re.compile(r"\A([+-]1)?([IXYZ]*)\Z")


def indep_parse(s):
    """independent reading of the documented string format: optional '+1' / '-1', then letters"""
    m = PAT.match(s)
    if not m:
        return None
    return m.group(1) == "-1", m.group(2)


def row_of(neg, letters):
    return su.from_pauli(("-" if neg else "+") + letters)


def commuting(rows):
    return all(su.commute(a, b) for a, b in itertools.combinations(rows, 2))


def raw_state(n, rows):
    """a real StabilizerState holding exactly these rows (any number of rows, no checks)"""
    s = su.SS.StabilizerState(n)
    s._group = su.mat_of(n, rows)
    if not rows:
        s._group = np.empty(shape=(0, 2 * n + 1), dtype=bool)
    return s


def apply_u1(u, j, n, v):
    """(I x .. x u x .. x I) v, u on qubit j (qubit 0 = leftmost factor)"""
    t = v.reshape([2] * n)
    return np.moveaxis(np.tensordot(u, t, axes=(1, j)), 0, j).reshape(-1)


def zero_vector(n):
    v = np.zeros(1 << n, dtype=complex)
    v[0] = 1
    return v


U_SQRT = {
    # exp(-i pi/4 X) = sqrt(-iX),  exp(+i pi/4 Z) = sqrt(iZ)
    "minIX": (su.I2 - 1j * su.MX) / np.sqrt(2),
    "IZ": (su.I2 + 1j * su.MZ) / np.sqrt(2),
}


def selftest():
    for name, m, sq in (("minIX", U_SQRT["minIX"], -1j * su.MX), ("IZ", U_SQRT["IZ"], 1j * su.MZ)):
        if not np.allclose(m @ m, sq) or not np.allclose(m @ m.conj().T, su.I2):
            raise core.MachineryError("stabapi selftest: sqrt_" + name)
    rs = np.random.RandomState(3)
    v = rs.randn(8) + 1j * rs.randn(8)
    for j in range(3):
        full = su.kron([U_SQRT["IZ"] if i == j else su.I2 for i in range(3)])
        if not np.allclose(full @ v, apply_u1(U_SQRT["IZ"], j, 3, v)):
            raise core.MachineryError("stabapi selftest: apply_u1")
    if indep_parse("+1XZ") != (False, "XZ") or indep_parse("-1") != (True, "") or indep_parse("+1 X") is not None \
            or indep_parse("X\n") is not None or indep_parse("+X") is not None:
        raise core.MachineryError("stabapi selftest: indep_parse")


# --------------------------------------------------------------------------
# constructors
# --------------------------------------------------------------------------

def _x_api_int(n):
    out = su.Out(("api_int", n), max(n, 0))
    kind, s, msg = _callm(su.SS.StabilizerState, n)
    out.nontrivial = n >= 2
    if n < 0:
        out.cnt.append("reject:ctor:int")
        out.nontrivial = False
        if kind != "ValueError":
            out.bad("reject:ctor:int", "StabilizerState(%d) must raise ValueError, got %s" % (n, kind), observed=kind)
        return out
    out.cnt.append("ctor:int")
    if kind != "ok":
        out.bad("ctor:int", "StabilizerState(%d) raised %s" % (n, kind), observed=kind)
        out.q.append(("int %d" % n, kind, "lit"))
        return out
    pn, prows = su.dump(s)
    obs = "ok " + su.enc_state(pn, prows)
    why = "num_qubits = %d" % pn if pn != n else su.check_generators(n, prows, zero_vector(n))
    if not why and (len(s) != n or s.num_qubits != n or s._group.shape != (n, 2 * n + 1)):
        why = "len / num_qubits / shape = %r / %r / %r" % (len(s), s.num_qubits, s._group.shape)
    if why:
        out.bad("ctor:int", "StabilizerState(%d) gives %s, not |0..0>: %s" % (n, su.show(pn, prows), why), observed=obs)
    out.q.append(("int %d" % n, obs, "lit"))
    return out


def _x_api_copy(n, rows):
    out = su.Out(("api_copy", n, rows), n)
    a = su.mk(n, rows)
    kind, b, msg = _callm(su.SS.StabilizerState, a)
    out.cnt.append("ctor:copy")
    out.nontrivial = n >= 2
    if kind != "ok":
        out.bad("ctor:copy", "StabilizerState(state) raised %s" % kind, observed=kind)
        return out
    obs = "ok " + su.enc_state(*su.dump(b))
    why = None
    if su.dump(b) != (n, rows):
        why = "the copy holds %s" % su.show(*su.dump(b))
    elif n >= 1:
        b._group[0, -1] = not b._group[0, -1]
        b.apply_H(0)
        if su.dump(a) != (n, rows):
            why = "changing the copy changed the original"
    if why:
        out.bad("ctor:copy", "StabilizerState(%s): %s" % (su.show(n, rows), why), observed=obs)
    out.q.append(("copy | %s" % su.enc_state(n, rows), obs, "lit"))
    return out


def _edges(etoks):
    return [tuple(int(x) for x in e.split("-")) for e in etoks]


def build_graph(n, etoks, mode):
    import networkx as nx
    g = nx.Graph()
    if mode == "nodes-first":
        g.add_nodes_from(range(n))
        g.add_edges_from(_edges(etoks))
    elif mode == "edges-first":
        g.add_edges_from(_edges(etoks))
        g.add_nodes_from(range(n))
    else:  # nodes in reverse order, then the edges
        g.add_nodes_from(reversed(range(n)))
        g.add_edges_from(_edges(etoks))
    return g


def graph_vector(n, etoks):
    """CZ on every edge of |+>^n"""
    v = zero_vector(n)
    for j in range(n):
        v = su.apply_gate("H", (j,), n, v)
    for a, b in _edges(etoks):
        v = su.apply_gate("CZ", (a, b), n, v)
    return v


def _x_api_graph(n, etoks, mode):
    """nodes 0..n-1 (n >= 1), simple undirected graph; `mode` = order in which nodes enter the networkx graph"""
    out = su.Out(("api_graph", n, etoks, mode), n)
    g = build_graph(n, etoks, mode)
    ordered = list(g.nodes()) == list(range(n))
    key = "ctor:graph" if ordered else "ctor:graph:node-order"
    out.cnt.append("ctor:graph" if ordered else "ctor:graph:nodes-inserted-out-of-order")
    out.nontrivial = n >= 2 and len(etoks) > 0
    kind, s, msg = _callm(su.SS.StabilizerState, g)
    line = "graph %d %s" % (n, " ".join(etoks) if etoks else "-")
    if kind != "ok":
        out.bad(key, "StabilizerState(graph on %d nodes, edges %s) raised %s: %s" % (n, " ".join(etoks), kind, msg[:80]), observed=kind)
        out.q.append((line, kind, "lit"))
        return out
    pn, prows = su.dump(s)
    obs = "ok " + su.enc_state(pn, prows)
    why = "num_qubits = %d" % pn if pn != n else su.check_generators(n, prows, graph_vector(n, etoks))
    if why:
        out.bad(key, "StabilizerState(graph with nodes inserted as %s, edges %s) gives %s, which is not the graph state "
                     "(CZ on every edge of |+..+>, qubit i = node i): %s" % (list(g.nodes()), " ".join(etoks) or "none", su.show(pn, prows), why),
                observed=obs)
    out.q.append((line, obs, "lit"))
    return out


def _x_api_strs(strs, check):
    out = su.Out(("api_strs", strs, check), len(strs))
    n = len(strs)
    kind, s, msg = _callm(su.SS.StabilizerState, list(strs), check_symplectic=check)
    parsed = [indep_parse(x) for x in strs]
    want_err = None
    rows_exp = ()
    if n and any(p is None for p in parsed):
        want_err = "a string is not an optional +1/-1 followed by letters IXYZ"
    elif n and any(len(p[1]) != n for p in parsed):
        want_err = "a string does not have %d letters" % n
    else:
        rows_exp = tuple(row_of(*p) for p in parsed)
        if check and not commuting(rows_exp):
            want_err = "the generators do not commute"
    line = "strs %d %s" % (1 if check else 0, " ".join(enc_str(x) for x in strs))
    shown = "StabilizerState(%r%s)" % (list(strs), "" if check else ", check_symplectic=False")
    if want_err:
        out.cnt.append("reject:ctor:str")
        out.nontrivial = False
        if kind != "ValueError":
            out.bad("reject:ctor:str", "%s must raise ValueError (%s), got %s" % (shown, want_err, kind), observed=kind)
        out.q.append((line.rstrip(), _obs_err(kind, msg) if kind != "ok" else "ok " + su.enc_state(*su.dump(s)), "err"))
        return out
    valid = su.is_valid_state(n, rows_exp)
    out.cnt.append("ctor:str" if valid else "ctor:str:not-a-state(shape only)")
    out.nontrivial = n >= 2
    if kind != "ok":
        out.bad("ctor:str", "%s raised %s: %s" % (shown, kind, msg[:80]), observed=kind)
        out.q.append((line.rstrip(), _obs_err(kind, msg), "err"))
        return out
    pn, prows = su.dump(s)
    obs = "ok " + su.enc_state(pn, prows)
    why = None
    if (pn, prows) != (n, rows_exp):
        why = "the generators stored are not the signed Pauli strings written"
    elif valid and n:
        why = su.check_generators(n, prows, su.stab_vector(n, rows_exp))
    if why:
        out.bad("ctor:str", "%s gives %s: %s" % (shown, su.show(pn, prows), why), observed=obs)
    out.q.append((line.rstrip(), obs, "err"))
    return out


def _x_api_parse(s):
    out = su.Out(("api_parse", s), 1)
    kind, r, msg = _callm(su.SS.StabilizerState._str_to_operator, s)
    out.cnt.append("str_to_operator")
    out.nontrivial = False
    p = indep_parse(s)
    want = None if p is None else [c == "1" for c in row_of(*p)]
    if kind != "ok" or (r is None) != (want is None) or (r is not None and [bool(x) for x in r] != want):
        out.bad("str_to_operator", "_str_to_operator(%r) returns %r, the string denotes %s" % (s, r if kind == "ok" else kind, "nothing" if p is None else ("-" if p[0] else "+") + p[1]),
                observed=repr(r))
    obs = kind if kind != "ok" else ("none" if r is None else "some " + "".join("1" if x else "0" for x in r))
    out.q.append(("parse " + enc_str(s), obs, "lit"))
    return out


def _bool_data(rows, form):
    if form == "bool":
        return [[c == "1" for c in r] for r in rows]
    if form == "tuple":
        return tuple(tuple(int(c) for c in r) for r in rows)
    if form == "array" and len({len(r) for r in rows}) <= 1:
        return np.array([[c == "1" for c in r] for r in rows], dtype=bool).reshape(len(rows), len(rows[0]) if rows else 0)
    return [[int(c) for c in r] for r in rows]


def _x_api_bools(rows, check, form):
    """rows: bit strings of any lengths"""
    m = len(rows)
    out = su.Out(("api_bools", rows, check, form), m)
    kind, s, msg = _callm(su.SS.StabilizerState, _bool_data(rows, form), check_symplectic=check)
    lens = {len(r) for r in rows}
    want_err, rows_exp = None, ()
    if m:
        if len(lens) > 1:
            want_err = "rows of unequal length"
        else:
            w = lens.pop()
            if w == 2 * m:
                rows_exp = tuple(r + "0" for r in rows)
            elif w == 2 * m + 1:
                rows_exp = tuple(rows)
            else:
                want_err = "%d x %d is neither n x 2n nor n x (2n+1)" % (m, w)
            if not want_err and check and not commuting(rows_exp):
                want_err = "the generators do not commute"
    line = "bools %d %s" % (1 if check else 0, " ".join(enc_bits(r) for r in rows) if rows else "-")
    shown = "StabilizerState(%s%s)" % ([[int(c) for c in r] for r in rows], "" if check else ", check_symplectic=False")
    if want_err:
        out.cnt.append("reject:ctor:bool")
        out.nontrivial = False
        if kind != "ValueError":
            out.bad("reject:ctor:bool", "%s must raise ValueError (%s), got %s" % (shown, want_err, kind), observed=kind)
        out.q.append((line, _obs_err(kind, msg) if kind != "ok" else "ok " + su.enc_state(*su.dump(s)), "err"))
        return out
    valid = su.is_valid_state(m, rows_exp)
    out.cnt.append("ctor:bool" if valid else "ctor:bool:not-a-state(shape only)")
    out.nontrivial = m >= 2
    if kind != "ok":
        out.bad("ctor:bool", "%s raised %s: %s" % (shown, kind, msg[:80]), observed=kind)
        out.q.append((line, _obs_err(kind, msg), "err"))
        return out
    pn, prows = su.dump(s)
    obs = "ok " + su.enc_state(pn, prows)
    why = None
    if (pn, prows) != (m, rows_exp):
        why = "the matrix stored is not the matrix given%s" % (" with a zero phase column" if m and len(rows[0]) == 2 * m else "")
    elif valid and m:
        why = su.check_generators(m, prows, su.stab_vector(m, rows_exp))
    if why:
        out.bad("ctor:bool", "%s gives %s: %s" % (shown, su.show(pn, prows), why), observed=obs)
    out.q.append((line, obs, "err"))
    return out


def _x_api_flat(bits):
    out = su.Out(("api_flat", bits), 1)
    kind, s, msg = _callm(su.SS.StabilizerState, [int(c) for c in bits])
    out.cnt.append("reject:ctor:rank1" if bits else "ctor:empty-list")
    out.nontrivial = False
    if bits:
        if kind != "ValueError":
            out.bad("reject:ctor:bool", "StabilizerState(%r) (rank 1) must raise ValueError, got %s" % ([int(c) for c in bits], kind), observed=kind)
        obs = _obs_err(kind, msg) if kind != "ok" else "ok " + su.enc_state(*su.dump(s))
    else:
        if kind != "ok" or su.dump(s) != (0, ()):
            out.bad("ctor:bool", "StabilizerState([]) must be the 0-qubit state, got %s" % kind, observed=kind)
        obs = "ok " + su.enc_state(*su.dump(s)) if kind == "ok" else _obs_err(kind, msg)
    out.q.append(("flat " + enc_bits(bits), obs, "err"))
    return out


def _x_api_cube(mats):
    """mats: 'row/row/..' per matrix ('E' = empty matrix, 'e' = empty row)"""
    out = su.Out(("api_cube", mats), 1)
    data = [[] if m == "E" else [[int(c) for c in (r if r != "e" else "")] for r in m.split("/")] for m in mats]
    kind, s, msg = _callm(su.SS.StabilizerState, data)
    out.cnt.append("reject:ctor:rank3")
    out.nontrivial = False
    if kind != "ValueError":
        out.bad("reject:ctor:bool", "StabilizerState(%r) (nested three deep) must raise ValueError, got %s" % (data, kind), observed=kind)
    obs = _obs_err(kind, msg) if kind != "ok" else "ok " + su.enc_state(*su.dump(s))
    out.q.append(("cube " + " ".join(mats), obs, "err"))
    return out


FORMS0 = ["none", "int0", "list", "tuple", "array00", "array01", "array03", "copy"]


def _x_api_zero(form):
    """the 0-qubit state in every way it can be written"""
    S = su.SS.StabilizerState
    out = su.Out(("api_zero", form), 0)
    mk0 = {"none": lambda: S(), "int0": lambda: S(0), "list": lambda: S([]), "tuple": lambda: S(()),
           "array00": lambda: S(np.zeros((0, 0))), "array01": lambda: S(np.zeros((0, 1), dtype=bool)),
           "array03": lambda: S(np.zeros((0, 3), dtype=bool)), "copy": lambda: S(S())}[form]
    out.cnt.append("ctor:zero-qubits")
    out.nontrivial = False
    kind, s, msg = _callm(mk0)
    why = None
    if kind != "ok":
        why = "raised " + kind
    else:
        one = S(1)
        checks = [
            ("num_qubits", lambda: s.num_qubits == 0 and len(s) == 0),
            ("to_string", lambda: s.to_string() == ""),
            ("== StabilizerState()", lambda: bool(s == S()) and bool(S() == s) and bool(s == S(0))),
            ("tensor", lambda: su.dump(s * one) == (1, ("010",)) and su.dump(one * s) == (1, ("010",)) and su.dump(s * S()) == (0, ())),
            ("check_symplectic", lambda: s.check_symplectic() is True),
            ("to_array", lambda: s.to_array().size == 0 and s.to_array(True, True)[1] == []),
        ]
        for name, f in checks:
            k2, ok, m2 = _callm(f)
            if k2 != "ok" or not ok:
                why = "%s: %s" % (name, k2 if k2 != "ok" else "wrong answer")
                break
        k3, r3, m3 = _callm(s.contains, "")
        out.cnt.append("quirk:0-qubit contains('') -> %s" % (k3 if k3 != "ok" else r3))
    if why:
        out.bad("ctor:zero", "the 0-qubit state written as %s: %s" % (form, why), observed=why)
    if kind == "ok":
        out.q.append(("tostr | 0 | -", enc_str(s.to_string()), "lit"))
        out.q.append(("str | 0 | -", enc_str(str(s)), "lit"))
        out.q.append(("none" if form != "int0" else "int 0", "ok " + su.enc_state(*su.dump(s)), "lit"))
    return out


# --------------------------------------------------------------------------
# strings out, round trips
# --------------------------------------------------------------------------

def _line_of(r):
    return ("-1 " if r[-1] == "1" else "+1 ") + su.pauli_str(r)[1:]


def _x_api_tostr(n, rows):
    S = su.SS.StabilizerState
    out = su.Out(("api_tostr", n, rows), n)
    s = su.mk(n, rows)
    out.cnt.append("to_string/str/repr/len")
    out.nontrivial = n >= 2
    st = su.enc_state(n, rows)
    k1, ts, _ = _callm(s.to_string)
    k2, ss, _ = _callm(str, s)
    k3, ln, _ = _callm(len, s)
    k4, rp, _ = _callm(repr, s)
    exp_ts = "\n".join(_line_of(r) for r in rows)
    exp_ss = "Stabilizer state on %d with the following stabilizer generators:\n" % n + "\n".join("\t" + l for l in exp_ts.split("\n"))
    why = None
    if (k1, ts) != ("ok", exp_ts):
        why = "to_string() = %r, expected one '<sign> <letters>' line per generator: %r" % (ts if k1 == "ok" else k1, exp_ts)
    elif (k2, ss) != ("ok", exp_ss):
        why = "str() = %r" % (ss if k2 == "ok" else k2,)
    elif (k3, ln) != ("ok", n) or s.num_qubits != n:
        why = "len() = %r, num_qubits = %r" % (ln if k3 == "ok" else k3, s.num_qubits)
    elif [S._row_to_string(r) for r in s._group] != [_line_of(r) for r in rows]:
        why = "_row_to_string differs from to_string"
    if why:
        out.bad("to_string", "%s: %s" % (su.show(n, rows), why), observed=why)
    if k1 == "ok":
        out.q.append(("tostr | " + st, enc_str(ts), "lit"))
    if k2 == "ok":
        out.q.append(("str | " + st, enc_str(ss), "lit"))
    if k3 == "ok":
        out.q.append(("len | " + st, str(ln), "lit"))
    for r in rows[:2]:
        out.q.append(("rowstr | %d | %s" % (n, r), enc_str(S._row_to_string(su.mat_of(n, (r,))[0])), "lit"))
    # round trips
    why = None
    ok = commuting(rows)
    if k4 != "ok":
        why = "repr raised " + k4
    else:
        k5, t, m5 = _callm(eval, rp, {"np": np, "StabilizerState": (lambda a: S(a, check_symplectic=ok))})
        if k5 != "ok" or su.dump(t) != (n, rows):
            why = "eval(repr(s)) %s" % ("raised " + k5 + " " + m5[:60] if k5 != "ok" else "holds " + su.show(*su.dump(t)))
    if not why:
        arr = s.to_array()
        k6, t, m6 = _callm(S, arr, check_symplectic=ok)
        if k6 != "ok" or su.dump(t) != (n, rows) or (ok and not (t == s)):
            why = "StabilizerState(s.to_array()) %s" % ("raised " + k6 if k6 != "ok" else "holds " + su.show(*su.dump(t)))
        else:
            arr[0, -1] = not arr[0, -1]
            if su.dump(s) != (n, rows):
                why = "to_array() returned the internal matrix, not a copy"
    if why:
        out.bad("roundtrip:array", "%s: %s" % (su.show(n, rows), why), observed=why)
    if k1 == "ok" and len(rows) == n:
        lines = ts.split("\n")
        k7, t, m7 = _callm(S, lines, check_symplectic=ok)
        if k7 == "ValueError":
            out.cnt.append("quirk:to_string() lines ('+1 XZ', with a blank) are refused by the constructor")
        elif k7 != "ok" or su.dump(t) != (n, rows):
            out.bad("roundtrip:string", "StabilizerState(s.to_string().split('\\n')) for %s %s" % (su.show(n, rows), "raised " + k7 if k7 != "ok" else "holds " + su.show(*su.dump(t))),
                    observed=k7)
        k8, t, m8 = _callm(S, [l.replace(" ", "") for l in lines], check_symplectic=ok)
        if k8 != "ok" or su.dump(t) != (n, rows) or (ok and su.is_valid_state(n, rows) and not (t == s)):
            out.bad("roundtrip:string", "StabilizerState of the lines of to_string() without the blank, for %s, %s" % (su.show(n, rows), "raised " + k8 + ": " + m8[:60] if k8 != "ok" else "holds " + su.show(*su.dump(t))),
                    observed=k8)
        out.q.append(("strs %d %s" % (1 if ok else 0, " ".join(enc_str(l.replace(" ", "")) for l in lines)),
                      "ok " + su.enc_state(*su.dump(t)) if k8 == "ok" else _obs_err(k8, m8), "err"))
    return out


# --------------------------------------------------------------------------
# standard form, pivot columns
# --------------------------------------------------------------------------

def _pivots_ok(prows, piv):
    """pivot columns strictly increasing, row i has its first 1 there and is the only row with a 1 there, later rows zero"""
    if not isinstance(piv, list) or any(not isinstance(p, (int, np.integer)) for p in piv):
        return "pivot columns are %r" % (piv,)
    if any(a >= b for a, b in zip(piv, piv[1:])):
        return "pivot columns %r are not increasing" % (piv,)
    if len(piv) > len(prows):
        return "%d pivot columns for %d rows" % (len(piv), len(prows))
    for i, r in enumerate(prows):
        if i < len(piv):
            if r.find("1") != piv[i]:
                return "row %d has its first 1 in column %d, pivot column %d reported" % (i, r.find("1"), piv[i])
            if sum(1 for q in prows if q[piv[i]] == "1") != 1:
                return "pivot column %d holds more than one 1" % piv[i]
        elif "1" in r:
            return "row %d beyond the pivots is not zero" % i
    return None


def _x_api_std(n, rows, valid):
    out = su.Out(("api_std", n, rows, valid), n)
    st = su.enc_state(n, rows)
    s = su.mk(n, rows) if valid else raw_state(n, rows)
    out.cnt.append("standard_form" if valid else "standard_form:arbitrary-matrix")
    out.nontrivial = n >= 2 and valid
    k1, r1, _ = _callm(s.to_array, standard_form=True, return_pivot_columns=True)
    k2, a0, _ = _callm(s.to_array, standard_form=True)
    k3, a2, _ = _callm(s.to_array, standard_form=False, return_pivot_columns=True)
    pre_after_queries = su.dump(s)
    k4, _, _ = _callm(s.put_in_standard_form)
    pn, post = su.dump(s)
    why = None
    if (k1, k2, k3, k4) != ("ok",) * 4:
        why = "raised %s" % "/".join((k1, k2, k3, k4))
        out.bad("standard_form", "standard form of %s: %s" % (su.show(n, rows), why), observed=why)
        return out
    if not (isinstance(r1, tuple) and len(r1) == 2):
        why = "to_array(True, True) returned %r" % (type(r1),)
        out.bad("standard_form", "standard form of %s: %s" % (su.show(n, rows), why), observed=why)
        return out
    a1, piv = r1
    piv = [int(p) for p in piv] if isinstance(piv, list) else piv
    if pre_after_queries != (n, rows):
        why = "to_array changed the state"
    elif not isinstance(a2, np.ndarray) or su.rows_of(a2) != rows:
        why = "to_array(standard_form=False, return_pivot_columns=True) is not the plain matrix"
    elif su.rows_of(a1) != post or su.rows_of(a0) != post or pn != n:
        why = "to_array(standard_form=True) and put_in_standard_form disagree"
    elif valid:
        why = su.check_generators(n, post, su.stab_vector(n, rows))
        if not why and not su._reduced(n, post):
            why = "the result is not reduced"
        if not why:
            t = su.mk(n, post)
            t.put_in_standard_form()
            if su.dump(t) != (n, post):
                why = "standard form is not idempotent"
            elif not (su.mk(n, rows) == s):
                why = "the state in standard form does not compare equal to the original"
    if why:
        out.bad("standard_form", "standard form of %s gives %s: %s" % (su.show(n, rows), su.show(pn, post), why), observed=why)
    else:
        whyp = _pivots_ok(post, piv)
        if not whyp and valid and len(piv) != n:
            whyp = "%d pivot columns for a state on %d qubits" % (len(piv), n)
        if whyp:
            out.bad("pivots", "to_array(True, True) of %s gives %s with pivot columns %r: %s" % (su.show(n, rows), su.show(pn, post), piv, whyp), observed=whyp)
    out.q.append(("std | " + st, "ok " + su.enc_state(pn, post), "lit"))
    out.q.append(("arr 1 1 | " + st, "arrpiv %s ; %s" % (su.enc_state(n, su.rows_of(a1)), " ".join(map(str, piv)) if piv else "-"), "lit"))
    out.q.append(("arr 1 0 | " + st, "arr " + su.enc_state(n, su.rows_of(a0)), "lit"))
    out.q.append(("arr 0 1 | " + st, "arr " + su.enc_state(n, su.rows_of(a2)), "lit"))
    return out


# --------------------------------------------------------------------------
# composite gates, Pauli_phase_tracking, check_symplectic, *, contains arguments
# --------------------------------------------------------------------------

def _x_api_sqrt(which, j, n, rows):
    out = su.Out(("api_sqrt", which, j, n, rows), n)
    s = su.mk(n, rows)
    kind, _, msg = _callm(getattr(s, "apply_sqrt_" + which), j)
    pn, prows = su.dump(s)
    obs = "ok " + su.enc_state(pn, prows) if kind == "ok" else kind
    line = "%s %d | %s" % ("sqx" if which == "minIX" else "sqz", j, su.enc_state(n, rows))
    if not 0 <= j < n:
        out.cnt.append("reject:sqrt")
        out.nontrivial = False
        if kind != "ValueError" or (pn, prows) != (n, rows):
            out.bad("reject:sqrt_" + which, "apply_sqrt_%s(%d) on %d qubits must raise ValueError and leave the state alone; got %s" % (which, j, n, obs), observed=obs)
        if j >= 0:
            out.q.append((line, obs, "lit"))
        return out
    out.cnt.append("sqrt_" + which)
    out.nontrivial = n >= 2
    if kind != "ok":
        out.bad("sqrt_" + which, "apply_sqrt_%s(%d) on %s raised %s" % (which, j, su.show(n, rows), kind), observed=obs)
    else:
        v = apply_u1(U_SQRT[which], j, n, su.stab_vector(n, rows))
        why = "post-state has %d qubits" % pn if pn != n else su.check_generators(n, prows, v)
        if why:
            out.bad("sqrt_" + which, "apply_sqrt_%s(%d) on %s gives %s, not %s|psi>: %s" % (
                which, j, su.show(n, rows), su.show(pn, prows), "exp(-i pi/4 X)" if which == "minIX" else "exp(i pi/4 Z)", why), observed=obs)
    out.q.append((line, obs, "grp"))
    return out


def _x_api_ppt(a, b):
    """a = old letter, b = applied letter, as 'xz' bits"""
    out = su.Out(("api_ppt", a, b), 1)
    old, app = [c == "1" for c in a], [c == "1" for c in b]
    kind, r, msg = _callm(su.SS.StabilizerState.Pauli_phase_tracking, old, app)
    out.cnt.append("Pauli_phase_tracking")
    out.nontrivial = a != b and "00" not in (a, b)
    want = su.MUL[((int(b[0]), int(b[1])), (int(a[0]), int(a[1])))][0]      # applied . old = i^want . letter
    if kind != "ok" or r != want:
        out.bad("ppt", "Pauli_phase_tracking(old=%s, applied=%s) = %r, but applied.old = i^%d . %s" % (
            su.LETTER[(int(a[0]), int(a[1]))], su.LETTER[(int(b[0]), int(b[1]))], r if kind == "ok" else kind, want,
            su.LETTER[su.MUL[((int(b[0]), int(b[1])), (int(a[0]), int(a[1])))][1]]), observed=repr(r))
    out.q.append(("ppt %s %s" % (a, b), str(r) if kind == "ok" else kind, "lit"))
    return out


def _x_api_symp(n, rows):
    out = su.Out(("api_symp", n, rows), n)
    s = raw_state(n, rows)
    kind, r, msg = _callm(s.check_symplectic)
    want = commuting(rows)
    if n <= 3 and rows:
        mats = [su.rowmat(x) for x in rows]
        if want != all(np.allclose(x @ y, y @ x) for x, y in itertools.combinations(mats, 2)):
            raise core.MachineryError("stabapi: commute() disagrees with the matrices")
    out.cnt.append("check_symplectic:commuting" if want else "check_symplectic:not-commuting")
    out.nontrivial = len(rows) >= 2
    if kind != "ok" or bool(r) != want or not isinstance(r, bool):
        out.bad("check_symplectic", "check_symplectic() of %s answers %r, the generators %s" % (su.show(n, rows), r if kind == "ok" else kind, "commute" if want else "do not all commute"),
                observed=repr(r))
    out.q.append(("symp | " + su.enc_state(n, rows), ("true" if r else "false") if kind == "ok" else kind, "lit"))
    return out


def _x_api_mul(n1, rows1, n2, rows2):
    out = su.Out(("api_mul", n1, rows1, n2, rows2), n1 + n2)
    a, b = su.mk(n1, rows1), su.mk(n2, rows2)
    kind, c, msg = _callm(lambda: a * b)
    out.cnt.append("mul")
    out.nontrivial = n1 > 0 and n2 > 0
    if kind != "ok":
        obs = kind
        out.bad("mul", "%s * %s raised %s" % (su.show(n1, rows1), su.show(n2, rows2), kind), observed=obs)
    else:
        pn, prows = su.dump(c)
        obs = "ok " + su.enc_state(pn, prows)
        w = np.kron(su.stab_vector(n1, rows1), su.stab_vector(n2, rows2))
        why = "result has %d qubits" % pn if pn != n1 + n2 else su.check_generators(pn, prows, w)
        if not why and (su.dump(a) != (n1, rows1) or su.dump(b) != (n2, rows2)):
            why = "an operand was modified"
        if not why:
            k2, _, _ = _callm(lambda: a * 3)
            k3, _, _ = _callm(lambda: a * "Z")
            if (k2, k3) != ("ValueError", "ValueError"):
                why = "state * non-state must raise ValueError, got %s / %s" % (k2, k3)
        if why:
            out.bad("mul", "%s * %s gives %s: %s" % (su.show(n1, rows1), su.show(n2, rows2), su.show(pn, prows), why), observed=obs)
    out.q.append(("mul | %s | %s" % (su.enc_state(n1, rows1), su.enc_state(n2, rows2)), obs, "grp"))
    return out


def _tok_list(toks):
    return [True if c == "1" else False if c == "0" else 1 for c in toks]


def _x_api_cbits(n, rows, toks):
    """contains(list): toks over 0/1/N (N = an entry that is not a bool); n >= 1, valid state"""
    out = su.Out(("api_cbits", n, rows, toks), n)
    s = su.mk(n, rows)
    kind, r, msg = _callm(s.contains, _tok_list(toks))
    bad = "N" in toks or len(toks) not in (2 * n, 2 * n + 1)
    line = "cbits | %s | %s" % (su.enc_state(n, rows), toks or "e")
    out.nontrivial = n >= 2 and not bad
    if bad:
        out.cnt.append("reject:contains:list")
        if kind != "ValueError" or su.dump(s) != (n, rows):
            out.bad("reject:contains", "contains(%r) on %d qubits must raise ValueError, got %s" % (_tok_list(toks), n, kind), observed=kind)
        out.q.append((line, _obs_err(kind, msg) if kind != "ok" else ("true" if r else "false"), "err"))
        return out
    row = toks if len(toks) == 2 * n + 1 else toks + "0"
    v = su.stab_vector(n, rows)
    want = np.linalg.norm(su.pauli_apply(row, n, v) - v) < su.TOL
    out.cnt.append("contains:list:member" if want else "contains:list:non-member")
    if kind != "ok" or bool(r) != want or su.dump(s) != (n, rows):
        out.bad("contains", "%s.contains(%r) answers %s but P|psi> %s |psi>" % (su.show(n, rows), _tok_list(toks), r if kind == "ok" else kind, "=" if want else "!="), observed=repr(r))
    out.q.append((line, ("true" if r else "false") if kind == "ok" else _obs_err(kind, msg), "err"))
    return out


def _x_api_cstr(n, rows, string):
    out = su.Out(("api_cstr", n, rows, string), n)
    s = su.mk(n, rows)
    kind, r, msg = _callm(s.contains, string)
    p = indep_parse(string)
    bad = p is None or len(p[1]) != n
    line = "cstr | %s | %s" % (su.enc_state(n, rows), enc_str(string))
    out.nontrivial = n >= 2 and not bad
    if bad:
        out.cnt.append("reject:contains:str")
        if kind != "ValueError" or su.dump(s) != (n, rows):
            out.bad("reject:contains", "contains(%r) on %d qubits must raise ValueError, got %s" % (string, n, kind), observed=kind)
        out.q.append((line, _obs_err(kind, msg) if kind != "ok" else ("true" if r else "false"), "err"))
        return out
    row = row_of(*p)
    v = su.stab_vector(n, rows)
    want = np.linalg.norm(su.pauli_apply(row, n, v) - v) < su.TOL
    out.cnt.append("contains:str:member" if want else "contains:str:non-member")
    if kind != "ok" or bool(r) != want or su.dump(s) != (n, rows):
        out.bad("contains", "%s.contains(%r) answers %s but P|psi> %s |psi>" % (su.show(n, rows), string, r if kind == "ok" else kind, "=" if want else "!="), observed=repr(r))
    out.q.append((line, ("true" if r else "false") if kind == "ok" else _obs_err(kind, msg), "err"))
    return out


def _x_api_assert(toks, k):
    out = su.Out(("api_assert", toks, k), 1)
    kind, r, msg = _callm(su.SS.StabilizerState._assert_valid_stabilizer, _tok_list(toks), k)
    bad = "N" in toks or len(toks) != k
    out.cnt.append("assert_valid_stabilizer:" + ("refuse" if bad else "accept"))
    out.nontrivial = False
    if (kind == "ValueError") != bad or kind.startswith("crash"):
        out.bad("assert_valid_stabilizer", "_assert_valid_stabilizer(%r, %d): %s" % (_tok_list(toks), k, kind), observed=kind)
    out.q.append(("assert %s %d" % (toks or "e", k), "ok" if kind == "ok" else _obs_err(kind, msg), "err"))
    return out


# --------------------------------------------------------------------------
# random cases (expanded inside the worker)
# --------------------------------------------------------------------------

def _sign_style(rng, r):
    body = su.pauli_str(r)[1:]
    if r[-1] == "1":
        return "-1" + body
    return body if rng.random() < 0.5 else "+1" + body


def random_graph(rng, n):
    p = rng.choice([0.15, 0.3, 0.5, 0.8])
    es = [(a, b) for a, b in itertools.combinations(range(n), 2) if rng.random() < p]
    rng.shuffle(es)
    return tuple("%d-%d" % ((a, b) if rng.random() < 0.5 else (b, a)) for a, b in es)


def _x_api_rand(seed, nmax):
    rng = random.Random(seed)
    k = rng.randrange(12)
    if k == 0:      # graph
        n = rng.randint(1, nmax)
        return _x_api_graph(n, random_graph(rng, n), rng.choice(["nodes-first", "nodes-first", "edges-first", "reversed"]))
    n = rng.randint(1, min(nmax, 6))
    rows = su.random_state(rng, n)
    if k == 1:      # strings of a state
        return _x_api_strs(tuple(_sign_style(rng, r) for r in rows), rng.random() < 0.8)
    if k == 2:      # strings, damaged
        strs = [_sign_style(rng, r) for r in rows]
        i = rng.randrange(n)
        d = rng.randrange(6)
        if d == 0:
            strs[i] = strs[i] + rng.choice("IXYZ")
        elif d == 1:
            strs[i] = strs[i][:-1]
        elif d == 2:
            p = rng.randrange(len(strs[i]))
            strs[i] = strs[i][:p] + rng.choice("xyzi Q0+-1") + strs[i][p + 1:]
        elif d == 3:
            strs[i] = rng.choice(["+", "-", "1", "+2", " ", "+1 ", "−1"]) + strs[i]
        elif d == 4:
            strs[i] = su.pauli_str(su.change_letter(rng, rows[i]))[1:]
        else:
            strs = strs[:-1] if n > 1 else strs + ["Z"]
        return _x_api_strs(tuple(strs), rng.random() < 0.7)
    if k == 3:      # boolean matrix of a state, with or without the phase column
        form = rng.choice(["int", "bool", "array", "tuple"])
        if all(r[-1] == "0" for r in rows) and rng.random() < 0.7:
            return _x_api_bools(tuple(r[:-1] for r in rows), rng.random() < 0.8, form)
        return _x_api_bools(rows, rng.random() < 0.8, form)
    if k == 4:      # arbitrary / damaged boolean matrices
        form = rng.choice(["int", "bool", "array", "tuple"])
        d = rng.randrange(5)
        if d == 0:
            w = rng.choice([2 * n, 2 * n + 1])
            data = tuple("".join(rng.choice("01") for _ in range(w)) for _ in range(n))
        elif d == 1:
            data = tuple(su.change_letter(rng, r) if rng.random() < 0.4 else r for r in rows)
        elif d == 2:
            w = rng.choice([x for x in range(0, 2 * n + 4) if x not in (2 * n, 2 * n + 1)])
            data = tuple("".join(rng.choice("01") for _ in range(w)) for _ in range(n))
        elif d == 3:
            data = list(rows)
            i = rng.randrange(n)
            data[i] = data[i][:rng.randrange(len(data[i]))]
            data = tuple(data) if n > 1 else tuple(data) + ("01",)
        else:
            data = rows + (su.random_row(rng, n),)
        return _x_api_bools(data, rng.random() < 0.6, form)
    if k == 5:
        return _x_api_tostr(n, rows)
    if k == 6:
        return _x_api_std(n, rows, True)
    if k == 7:      # arbitrary matrix: pivots, literal tie
        m = rng.randint(1, n + 2)
        return _x_api_std(n, tuple(su.random_row(rng, n) for _ in range(m)), False)
    if k == 8:
        n = rng.randint(1, nmax)
        rows = su.random_state(rng, n)
        return _x_api_sqrt(rng.choice(["minIX", "IZ"]), rng.randrange(n), n, rows)
    if k == 9:
        m = rng.randint(1, n + 1)
        data = tuple(rows[:m]) if rng.random() < 0.4 else tuple(su.random_row(rng, n) for _ in range(m))
        return _x_api_symp(n, data)
    if k == 10:
        n2 = rng.randint(0, 3)
        rows2 = su.random_state(rng, n2) if n2 else ()
        return _x_api_mul(n, rows, n2, rows2) if rng.random() < 0.5 else _x_api_mul(n2, rows2, n, rows)
    # contains argument handling
    if rng.random() < 0.5:
        el = su.group_element(rng, rows)
        el = el if rng.random() < 0.6 else su.random_row(rng, n)
        d = rng.randrange(4)
        toks = el if d == 0 else (el[:-1] if el[-1] == "0" and d == 1 else el)
        if d == 2:
            p = rng.randrange(len(toks))
            toks = toks[:p] + "N" + toks[p + 1:]
        if d == 3:
            toks = toks[:rng.randrange(len(toks))] if rng.random() < 0.5 else toks + rng.choice("01")
        return _x_api_cbits(n, rows, toks)
    el = su.group_element(rng, rows) if rng.random() < 0.6 else su.random_row(rng, n)
    string = _sign_style(rng, el)
    d = rng.randrange(4)
    if d == 1:
        string = string + "I"
    elif d == 2:
        p = rng.randrange(len(string))
        string = string[:p] + rng.choice("xq ") + string[p + 1:]
    return _x_api_cstr(n, rows, string)


# --------------------------------------------------------------------------
# case generation
# --------------------------------------------------------------------------

BAD_PREFIXES = ["+", "-", "1", "+2", "-2", "+-", "-+1", "1+", " +1", "+1 ", "+1+1", "-1-1", "+1-1", "i", "+i", "−1", " "]
BAD_LETTERS = ["x", "Q", "0", " ", "\t", "\n", "i", "IX Z"]


def all_graphs(n):
    pairs = list(itertools.combinations(range(n), 2))
    for mask in range(1 << len(pairs)):
        yield tuple("%d-%d" % p for i, p in enumerate(pairs) if mask >> i & 1)


def build_cases(ctx):
    rng = ctx.rng
    descs = []
    small = {n: su.all_states(n) for n in (0, 1, 2, 3)}
    # 1. None / int / copies / the 0-qubit state in every spelling
    descs += [("api_int", n) for n in list(range(0, 9)) + [-1, -3]]
    descs += [("api_zero", f) for f in FORMS0]
    for n in (1, 2):
        descs += [("api_copy", n, st) for st in small[n]]
    descs += [("api_copy", 3, st) for st in (small[3] if ctx.thorough else rng.sample(small[3], 60))]
    # 2. graphs: every simple graph on 1..4 nodes x three insertion orders
    for n in (1, 2, 3, 4):
        for es in all_graphs(n):
            descs.append(("api_graph", n, es, "nodes-first"))
            rev = tuple("-".join(reversed(e.split("-"))) for e in reversed(es))
            descs.append(("api_graph", n, rev, "edges-first"))
            descs.append(("api_graph", n, es, "reversed"))
    # 3. _str_to_operator and one-string lists: every string over IXYZ of length <= 3, every prefix, good and bad
    words = ["".join(w) for k in range(0, 4) for w in itertools.product("IXYZ", repeat=k)]
    for w in words:
        for pre in ["", "+1", "-1"] + BAD_PREFIXES:
            descs.append(("api_parse", pre + w))
            descs.append(("api_strs", (pre + w,), True))
        for bad in BAD_LETTERS:
            if len(w) < 3:
                descs.append(("api_parse", w + bad))
                descs.append(("api_parse", "-1" + bad + w))
                descs.append(("api_strs", (bad + w,), True))
    # 4. two-string lists: every ordered pair of signed two-letter strings (commuting or not, checked or not),
    #    and pairs of unequal / wrong lengths
    two = [p + a + b for p in ("", "+1", "-1") for a in "IXYZ" for b in "IXYZ"]
    for i, a in enumerate(two):
        for j, b in enumerate(two):
            descs.append(("api_strs", (a, b), (i + j) % 3 != 0))
    short = ["", "X", "+1Z", "-1", "XX", "-1YZ", "XYZ", "+1XYZ", "+1", "ZZZZ"]
    for a, b in itertools.product(short, repeat=2):
        descs.append(("api_strs", (a, b), True))
    descs.append(("api_strs", (), True))
    for st in rng.sample(small[3], ctx.scale(150, 1080)):
        descs.append(("api_strs", tuple(_sign_style(rng, r) for r in st), True))
        descs.append(("api_strs", tuple(_sign_style(rng, r) for r in su.remix(rng, st)), rng.random() < 0.5))
    # 5. boolean matrices: all of shape n x 2n and n x (2n+1) for n <= 2, checked and unchecked; wrong widths; ragged
    for n in (1, 2):
        for w in (2 * n, 2 * n + 1):
            for bits in itertools.product("01", repeat=n * w):
                data = tuple("".join(bits[i * w:(i + 1) * w]) for i in range(n))
                for chk in (True, False):
                    descs.append(("api_bools", data, chk, rng.choice(["int", "bool", "array", "tuple"])))
    for n, widths in ((1, (0, 1, 4, 5)), (2, (0, 1, 2, 3, 6, 7)), (3, (0, 5, 8))):
        for w in widths:
            for _ in range(4):
                data = tuple("".join(rng.choice("01") for _ in range(w)) for _ in range(n))
                descs.append(("api_bools", data, rng.random() < 0.5, rng.choice(["int", "bool", "array", "tuple"])))
    for a, b in itertools.permutations(["", "0", "01", "011", "0110", "01100", "011001"], 2):
        descs.append(("api_bools", (a, b), True, "int"))
    descs.append(("api_bools", (), True, "int"))
    descs.append(("api_bools", (), True, "array"))
    descs += [("api_flat", b) for b in ["", "0", "1", "01", "010", "0101", "01010"]]
    descs += [("api_cube", m) for m in [("01",), ("010",), ("01/10",), ("01/10", "11/00"), ("0110/1001", "0000/1111"),
                                        ("01/1", "11/00"), ("01/10", "11"), ("E",), ("E", "E"), ("e",), ("e/e", "e/e"), ("e", "0")]]
    # 6. strings out and round trips; standard form and pivots: ALL states on 1..3 qubits (canonical and re-mixed)
    for n in (1, 2, 3):
        for st in small[n]:
            descs.append(("api_std", n, st, True))
            descs.append(("api_std", n, su.remix(rng, st), True))
            if n < 3 or ctx.thorough or rng.random() < 0.25:
                descs.append(("api_tostr", n, su.remix(rng, st) if rng.random() < 0.5 else st))
    # 7. the composite gates on ALL states on 1..3 qubits x every position; invalid positions
    for n in (1, 2, 3):
        for st in small[n]:
            for which in ("minIX", "IZ"):
                descs += [("api_sqrt", which, j, n, st) for j in range(n)]
        for st in rng.sample(small[n], min(len(small[n]), 4)):
            for which in ("minIX", "IZ"):
                descs += [("api_sqrt", which, j, n, st) for j in (n, n + 2, -1, -n - 1)]
    # 8. Pauli_phase_tracking on all 16 pairs; check_symplectic on all sets of <= 2 rows for n <= 2
    descs += [("api_ppt", a, b) for a in ("00", "10", "11", "01") for b in ("00", "10", "11", "01")]
    for n in (1, 2):
        rws = ["".join(b) for b in itertools.product("01", repeat=2 * n + 1)]
        descs += [("api_symp", n, (a,)) for a in rws[::2]]
        descs += [("api_symp", n, (a, b)) for a in rws[::2] for b in rws]
    # 9. `*` on all ordered pairs of <= 1-qubit states and a sample of larger ones
    le1 = [(n, st) for n in (0, 1) for st in small[n]]
    for (n1, a), (n2, b) in itertools.product(le1, repeat=2):
        descs.append(("api_mul", n1, a, n2, b))
    for _ in range(ctx.scale(150, 1500)):
        n1, n2 = rng.randint(0, 3), rng.randint(0, 3)
        descs.append(("api_mul", n1, rng.choice(small[n1]), n2, rng.choice(small[n2])))
    # 10. argument handling of contains / _assert_valid_stabilizer
    for n in (1, 2):
        for st in rng.sample(small[n], 4):
            for L in range(0, 2 * n + 4):
                for bits in itertools.product("01", repeat=L):
                    descs.append(("api_cbits", n, st, "".join(bits)))
            for L in (2 * n, 2 * n + 1):
                for p in range(L):
                    descs.append(("api_cbits", n, st, "0" * p + "N" + "1" * (L - p - 1)))
            for w in words:
                for pre in ("", "+1", "-1", "+", "-1 ", "1"):
                    descs.append(("api_cstr", n, st, pre + w))
            descs.append(("api_cstr", n, st, "x" * n))
    for toks in ["", "0", "1", "N", "01", "0N", "N1", "010", "01N", "0101"]:
        descs += [("api_assert", toks, k) for k in (0, 1, 2, 3, 4)]
    # 11. random: every constructor form, valid and damaged, to 6 qubits (graphs, composite gates to nmax)
    nmax = ctx.scale(8, 10)
    for _ in range(ctx.scale(2000, 60000)):
        descs.append(("api_rand", rng.getrandbits(48), nmax))
    return descs


RULE = ("API stage: (g) StabilizerState(None / n for n<=8 / negative n / another state / the 0-qubit state in 8 spellings); every simple "
        "graph on 1..4 nodes x 3 node-insertion orders; every string over IXYZ of length <=3 x 20 good and bad prefixes + bad letters, "
        "through _str_to_operator and as a one-string list; every ordered pair of signed two-letter strings (commuting or not, checked "
        "or not); pairs of unequal / wrong length; the strings of 3-qubit states; ALL boolean matrices n x 2n and n x (2n+1), n<=2, "
        "checked and unchecked, in 4 container forms; wrong widths, ragged, rank 1, rank 3; (h) to_string / str / repr / len / "
        "_row_to_string and the round trips through to_array, repr and the lines of to_string; put_in_standard_form / "
        "to_array(standard_form, return_pivot_columns) on ALL 1146 states on 1..3 qubits, canonical and re-mixed; apply_sqrt_minIX / "
        "apply_sqrt_IZ on ALL these states x every position + invalid positions; Pauli_phase_tracking on all 16 pairs; "
        "check_symplectic on all sets of <=2 signed rows, n<=2; `*`; contains() with every boolean list of length 0..2n+3, non-bool "
        "entries, every string of length <=3 x 6 prefixes; _assert_valid_stabilizer; (i) random: all of these to 6 qubits "
        "(graphs and composite gates to the random tier's maximum), valid and damaged")


# --------------------------------------------------------------------------
# running, tie
# --------------------------------------------------------------------------

def exec_case(desc):
    return globals()["_x_" + desc[0]](*desc[1:])


def _chunk(descs):
    return [exec_case(d) for d in descs]


def run_cases(descs, procs=None):
    su.load()
    if procs is None:
        procs = max(1, min(12, (os.cpu_count() or 2) - 2))
    if len(descs) < 3000 or procs == 1:
        return _chunk(descs)
    size = max(50, min(2000, len(descs) // (procs * 8)))
    chunks = [descs[i:i + size] for i in range(0, len(descs), size)]
    with multiprocessing.get_context("fork").Pool(procs) as pool:
        return [o for part in pool.map(_chunk, chunks) for o in part]


def tie(res, queries, what):
    """literal comparison with the driver `stabapi`; refusals: the class always, the raising statement when the
    message is recognised; `grp` observations that differ literally are canonicalised by the driver `stab`"""
    if not queries:
        return
    got = core.lean_run("stabapi", [q[0] for q, _ in queries])
    pending = []
    for ((line, want, mode), desc), g in zip(queries, got):
        res.traces += 1
        if g == want:
            res.count("tie:row_level_equal")
            continue
        if want == "ValueError:other" and g.startswith("ValueError"):
            res.count("tie:refusal_class_equal(message not recognised)")
            continue
        if mode != "grp":
            res.tie_break(what, {"case": su.desc_json(desc), "query": line}, g, want)
            continue
        a, b = su._split_obs(g), su._split_obs(want)
        if not (a and b and a[1] == b[1] and len(a[2]) == len(b[2])):
            res.tie_break(what, {"case": su.desc_json(desc), "query": line}, g, want)
            continue
        pending.append((line, desc, g, want, a, b))
    if pending:
        glines = []
        for _, _, _, _, a, b in pending:
            glines.append("gauss | %d | %s" % (a[1], su.enc_rows(a[2])))
            glines.append("gauss | %d | %s" % (b[1], su.enc_rows(b[2])))
        canon = core.lean_run("stab", glines)
        for i, (line, desc, g, want, a, b) in enumerate(pending):
            if canon[2 * i] == canon[2 * i + 1]:
                res.count("tie:row_level_differs_group_equal")
            else:
                res.tie_break(what + " (group level)", {"case": su.desc_json(desc), "query": line}, g, want)


def stage(ctx, res, descs=None):
    """run the API stage and fold it into the Result of C13; `descs` = replayed cases (None: generate)"""
    su.load()
    selftest()
    if descs is None:
        descs = build_cases(ctx)
        res.rule += "; " + RULE
    if not descs:
        return
    outs = run_cases(descs)
    queries = su.collect(res, outs, "C13")
    if ctx.lean_ok:
        before = res.traces
        tie(res, queries, "StabApi model vs StabilizerState")
        res.notes.append("API stage: %d cases, %d observations compared with the driver stabapi" % (len(descs), res.traces - before))

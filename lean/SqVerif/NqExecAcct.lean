import SqVerif.NqExecReq
import SqVerif.NqExecLift
/-
L5 — bookkeeping facts behind C11: which qubitList entries no unit module
knows (`orph`, counted by the ghost field `leaked`), what a completed
`stop_application` leaves, and that no operation touches a foreign token.
Core Lean only.
-/
namespace SqVerif.NqExec

open List

variable {F : List Nat} {ext : Nat}

/-! ### tokens an operation touches -/

def TOp.toks : TOp → List Nat
  | .new t => [t]
  | .gate1 _ t => [t]
  | .gate2 _ c t => [c, t]
  | .meas t _ _ => [t]
  | .send t _ => [t]
  | .claim t => [t]

/-- the operation touches no token of `F` -/
def Avoids (F : List Nat) (op : TOp) : Prop := ∀ f ∈ F, f ∉ op.toks

theorem Inv.foreign_ne_val {c : CQ} (h : Inv F ext c) {k : Int} {t : Nat} (hg : aGet c.qlist k = some t) :
    ∀ f ∈ F, f ≠ t := by
  intro f hf e
  subst e
  exact (h.foreign f hf).2.1 (mem_map.2 ⟨(k, f), mem_of_aGet hg, rfl⟩)

theorem Inv.foreign_ne_next {c : CQ} (h : Inv F ext c) : ∀ f ∈ F, f < c.node.next :=
  fun f hf => (h.foreign f hf).1

theorem resolve_entry' {c : CQ} {v : Int} {p t : Nat} (hr : c.resolve v = some (p, t)) : aGet c.qlist (p : Int) = some t := by
  unfold CQ.resolve at hr
  split at hr
  · cases hr
  · split at hr
    · split at hr
      · rename_i hg; cases hr; exact hg
      · cases hr
    · cases hr

/-! ### entries of qubitList that no unit module knows -/

def mappedKeys (c : CQ) : List Int := (mapped c).map (fun (x : Nat) => (x : Int))

def orphOf (ql : List (Int × Nat)) (mk : List Int) : List (Int × Nat) := ql.filter fun e => decide (e.1 ∉ mk)

def orph (c : CQ) : List (Int × Nat) := orphOf c.qlist (mappedKeys c)

/-- the ghost counter counts exactly those entries -/
def InvL (c : CQ) : Prop := c.leaked = (orph c).length

/-- what every request guarantees about them: none disappears, the counter follows -/
def ReqStep (c c' : CQ) : Prop := (InvL c → InvL c') ∧ (orph c).Sublist (orph c')

theorem ReqStep.refl (c : CQ) : ReqStep c c := ⟨id, Sublist.refl _⟩

theorem ReqStep.trans {a b c : CQ} (h1 : ReqStep a b) (h2 : ReqStep b c) : ReqStep a c :=
  ⟨fun h => h2.1 (h1.1 h), h1.2.trans h2.2⟩

theorem orphOf_congr {ql : List (Int × Nat)} {mk mk' : List Int} (h : ∀ e ∈ ql, (e.1 ∈ mk ↔ e.1 ∈ mk')) :
    orphOf ql mk = orphOf ql mk' := by
  unfold orphOf
  apply filter_congr
  intro e he
  simp only [decide_eq_decide]
  rw [h e he]

theorem orphOf_append (l m : List (Int × Nat)) (mk : List Int) : orphOf (l ++ m) mk = orphOf l mk ++ orphOf m mk := by
  unfold orphOf; rw [filter_append]

theorem reqStep_of_orph_eq {c c' : CQ} (ho : orph c' = orph c) (hl : c'.leaked = c.leaked) : ReqStep c c' :=
  ⟨fun h => by unfold InvL at *; rw [hl, ho]; exact h, by rw [ho]; exact Sublist.refl _⟩

/-- nothing that matters changed -/
theorem reqStep_same {c c' : CQ} (hq : c'.qlist = c.qlist) (hm : mapped c' = mapped c) (hl : c'.leaked = c.leaked) :
    ReqStep c c' :=
  reqStep_of_orph_eq (by unfold orph mappedKeys; rw [hq, hm]) hl

/-- new entries that nobody maps, counted -/
theorem reqStep_orphans {c c' : CQ} (L : List (Int × Nat)) (hq : c'.qlist = c.qlist ++ L) (hm : mapped c' = mapped c)
    (hL : ∀ e ∈ L, e.1 ∉ mappedKeys c) (hl : c'.leaked = c.leaked + L.length) : ReqStep c c' := by
  have ho : orph c' = orph c ++ L := by
    unfold orph mappedKeys; rw [hq, hm, orphOf_append]
    congr 1
    unfold orphOf
    rw [filter_eq_self]
    intro e he
    simp only [decide_eq_true_eq]
    exact hL e he
  exact ⟨fun h => by unfold InvL at *; rw [hl, ho, length_append, h], by rw [ho]; exact sublist_append_left _ _⟩

/-- one new entry, mapped at once (qalloc, a delivered pair) -/
theorem reqStep_mapped {c c' : CQ} {p t : Nat} (hq : c'.qlist = c.qlist ++ [((p : Int), t)]) (hk : (p : Int) ∉ keys c.qlist)
    (hm : ∀ x, x ∈ mapped c' ↔ x ∈ mapped c ∨ x = p) (hl : c'.leaked = c.leaked) : ReqStep c c' := by
  apply reqStep_of_orph_eq _ hl
  unfold orph; rw [hq, orphOf_append]
  have h1 : orphOf [((p : Int), t)] (mappedKeys c') = [] := by
    unfold orphOf mappedKeys
    rw [filter_eq_nil_iff]
    intro e he
    simp only [mem_singleton] at he; subst he
    simp only [decide_eq_true_eq]
    intro hn
    exact hn (mem_map.2 ⟨p, (hm p).2 (Or.inr rfl), rfl⟩)
  rw [h1, append_nil]
  apply orphOf_congr
  intro e he
  unfold mappedKeys
  simp only [mem_map]
  constructor
  · rintro ⟨x, hx, hxe⟩
    rcases (hm x).1 hx with hx | hx
    · exact ⟨x, hx, hxe⟩
    · subst hx; exact absurd (mem_map.2 ⟨e, he, hxe.symm⟩) hk
  · rintro ⟨x, hx, hxe⟩
    exact ⟨x, (hm x).2 (Or.inl hx), hxe⟩

/-- a mapped entry is destroyed and un-mapped (qfree) -/
theorem reqStep_free {c c' : CQ} {p : Nat} (hq : c'.qlist = aDel c.qlist (p : Int))
    (hm : ∀ x, x ∈ mapped c ↔ x ∈ mapped c' ∨ x = p) (hl : c'.leaked = c.leaked) : ReqStep c c' := by
  apply reqStep_of_orph_eq _ hl
  unfold orph orphOf
  rw [hq]
  unfold aDel
  rw [filter_filter]
  apply filter_congr
  intro e _
  have key : (e.1 ∉ mappedKeys c' ∧ e.1 ≠ (p : Int)) ↔ e.1 ∉ mappedKeys c := by
    unfold mappedKeys
    simp only [mem_map, not_exists, not_and]
    constructor
    · rintro ⟨h1, h2⟩ x hx e'
      rcases (hm x).1 hx with hx | hx
      · exact h1 x hx e'
      · subst hx; exact h2 e'.symm
    · intro h
      exact ⟨fun x hx e' => h x ((hm x).2 (Or.inl hx)) e', fun e' => h p ((hm p).2 (Or.inr rfl)) e'.symm⟩
  rw [Bool.eq_iff_iff]
  simp only [Bool.and_eq_true, decide_eq_true_eq]
  exact key

/-- mapped addresses after filling / emptying a slot -/
theorem mem_mapped_set_some {c : CQ} {um : List (Option Nat)} (hum : c.um = some um) {i p : Nat} (hi : um[i]? = some none)
    (c' : CQ) (hc' : c'.um = some (um.set i (some p))) : ∀ x, x ∈ mapped c' ↔ x ∈ mapped c ∨ x = p := by
  obtain ⟨A, B, h1, h2⟩ := filterMap_set_some um i p hi
  intro x
  simp only [mapped, hum, hc', Option.getD_some, h1, h2, mem_append, mem_cons]
  constructor
  · rintro (h | h | h)
    · exact Or.inl (Or.inl h)
    · exact Or.inr h
    · exact Or.inl (Or.inr h)
  · rintro ((h | h) | h)
    · exact Or.inl h
    · exact Or.inr (Or.inr h)
    · exact Or.inr (Or.inl h)

theorem mem_mapped_set_none {c : CQ} {um : List (Option Nat)} (hum : c.um = some um) {i p : Nat} (hi : um[i]? = some (some p))
    (c' : CQ) (hc' : c'.um = some (um.set i none)) : ∀ x, x ∈ mapped c ↔ x ∈ mapped c' ∨ x = p := by
  obtain ⟨A, B, h1, h2⟩ := filterMap_set_none um i p hi
  intro x
  simp only [mapped, hum, hc', Option.getD_some, h1, h2, mem_append, mem_cons]
  constructor
  · rintro (h | h | h)
    · exact Or.inl (Or.inl h)
    · exact Or.inr h
    · exact Or.inl (Or.inr h)
  · rintro ((h | h) | h)
    · exact Or.inl h
    · exact Or.inr (Or.inr h)
    · exact Or.inr (Or.inl h)

theorem aDel_append_last {l : List (Int × Nat)} {k : Int} {v : Nat} (h : k ∉ keys l) : aDel (l ++ [(k, v)]) k = l := by
  unfold aDel
  rw [filter_append]
  have : filter (fun e : Int × Nat => decide (e.1 ≠ k)) [(k, v)] = [] := by simp
  rw [this, append_nil]
  exact aDel_of_not_mem h

theorem ofNat_not_mem_mappedKeys {c : CQ} {q : Nat} (h : q ∉ mapped c) : (q : Int) ∉ mappedKeys c := by
  unfold mappedKeys
  intro hm
  obtain ⟨x, hx, e⟩ := mem_map.1 hm
  have : x = q := by exact_mod_cast e
  subst this; exact h hx

theorem neg_not_mem_mappedKeys (c : CQ) (q : Nat) : (-(1 + (q : Int))) ∉ mappedKeys c := by
  unfold mappedKeys
  intro hm
  obtain ⟨x, _, e⟩ := mem_map.1 hm
  have : (x : Int) = -(1 + (q : Int)) := e
  omega

/-! ### a completed `stop_application` -/

theorem stopLoop_spec : ∀ (ps : List (Nat × Bool)) (c : CQ) (ops : List TOp), Inv F ext c → c.um = none →
    (ps.map (·.1)).Nodup →
    (∀ p : Nat, p ∈ ps.map (·.1) → p ∈ c.used ∧ (p : Int) ∈ keys c.qlist ∧ (-(1 + (p : Int))) ∉ keys c.qlist) →
    (c.stopLoop ps ops).2.2 = true ∧
    (c.stopLoop ps ops).1.qlist = c.qlist.filter (fun e => decide (e.1 ∉ (ps.map (·.1)).map (fun x : Nat => (x : Int)))) ∧
    (c.stopLoop ps ops).1.leaked = c.leaked ∧ (c.stopLoop ps ops).1.um = none ∧
    (∀ op ∈ (c.stopLoop ps ops).2.1, op ∈ ops ∨ Avoids F op) ∧ Inv F ext (c.stopLoop ps ops).1
  | [], c, ops, h, hum, _, _ => by
    refine ⟨rfl, ?_, rfl, hum, fun op hop => Or.inl hop, h⟩
    show c.qlist = filter _ c.qlist
    symm
    apply filter_eq_self.2
    intro e _; simp
  | (p, o) :: ps, c, ops, h, hum, hn, hall => by
    have hmap : mapped c = [] := by simp [mapped, hum]
    obtain ⟨hpu, hpk, hpn⟩ := hall p (by simp)
    unfold CQ.stopLoop
    rw [if_neg (by simpa using hpu)]
    dsimp only
    cases hg : aGet c.qlist (p : Int) with
    | none =>
      have := aGet_isSome_of_mem_keys hpk
      rw [hg] at this; cases this
    | some t =>
      dsimp only
      have h1 := h.kill (k := (p : Int)) (t := t) hg (by simp [hmap])
      have h2 := h1.unuse p (by simp [mapped, hum]) (by
        intro k hk hph
        rw [show ({ c with node := c.node.drop t, qlist := aDel c.qlist (p : Int) } : CQ).qlist = aDel c.qlist (p : Int) from rfl,
            keys_aDel, mem_filter] at hk
        rcases physOf_cases hph with e | e
        · subst e; simp at hk
        · subst e; exact hpn hk.1)
      simp only [map_cons, nodup_cons] at hn
      have hrec := stopLoop_spec ps
        { ({ c with used := c.used.erase p } : CQ) with node := c.node.drop t, qlist := aDel c.qlist (p : Int) }
        (ops ++ [.meas t false o]) h2 hum hn.2 (by
          intro q hq
          obtain ⟨hqu, hqk, hqn⟩ := hall q (by simp only [map_cons, mem_cons]; exact Or.inr hq)
          have hne : q ≠ p := fun e => hn.1 (e ▸ hq)
          refine ⟨(mem_erase_of_ne hne).2 hqu, ?_, ?_⟩
          · show (q : Int) ∈ keys (aDel c.qlist (p : Int))
            rw [keys_aDel, mem_filter]; exact ⟨hqk, by simpa using (by exact_mod_cast hne : (q : Int) ≠ p)⟩
          · show (-(1 + (q : Int))) ∉ keys (aDel c.qlist (p : Int))
            rw [keys_aDel, mem_filter]; exact fun hh => hqn hh.1)
      obtain ⟨r1, r2, r3, r4, r5, r6⟩ := hrec
      refine ⟨r1, ?_, r3, r4, ?_, r6⟩
      · rw [r2]
        show filter _ (aDel c.qlist (p : Int)) = _
        unfold aDel
        rw [filter_filter]
        apply filter_congr
        intro e _
        by_cases h1 : e.1 ∈ (ps.map (·.1)).map (fun x : Nat => (x : Int)) <;> by_cases h2 : e.1 = (p : Int) <;>
          simp [h1, h2]
      · intro op hop
        rcases r5 op hop with hop | hop
        · rcases mem_append.1 hop with hop | hop
          · exact Or.inl hop
          · simp only [mem_singleton] at hop; subst hop
            right; intro f hf
            simp only [TOp.toks, mem_singleton]
            exact h.foreign_ne_val hg f hf
        · exact Or.inr hop

/-- what `stop_application` leaves when it is answered: exactly the entries no unit module knew -/
theorem stopApp_spec {c : CQ} (h : Inv F ext c) (env : Env) {um : List (Option Nat)} (hum : c.um = some um)
    (hres : (c.stopApp env).res ≠ .envShort) :
    (c.stopApp env).res = .ok none ∧ (c.stopApp env).st.qlist = orph c ∧ (c.stopApp env).st.um = none ∧
    (c.stopApp env).st.leaked = c.leaked ∧ ∀ op ∈ (c.stopApp env).ops, Avoids F op := by
  unfold CQ.stopApp at hres ⊢
  rw [hum] at hres ⊢
  dsimp only at hres ⊢
  by_cases hshort : env.outs.length < (um.filterMap id).length
  · rw [if_pos hshort] at hres; exact absurd rfl hres
  · rw [if_neg hshort]
    have hz : ((um.filterMap id).zip env.outs).map (·.1) = um.filterMap id :=
      map_fst_zip_of_le _ _ (by omega)
    obtain ⟨r1, r2, r3, r4, r5, _⟩ := stopLoop_spec (F := F) (ext := ext) ((um.filterMap id).zip env.outs)
      { c with um := none } [] h.clearUm rfl
      (by rw [hz]; have := h.mapped_nodup; simpa [mapped, hum] using this)
      (by rw [hz]; intro p hp
          have hpm : p ∈ mapped c := by simpa [mapped, hum] using hp
          exact ⟨h.mapped_used p hpm, h.mapped_ql p hpm, h.neg_keys p hpm⟩)
    simp only [CQ.out, r1, if_true]
    refine ⟨trivial, ?_, r4, r3, ?_⟩
    · rw [r2, hz]
      simp only [orph, orphOf, mappedKeys, mapped, hum, Option.getD_some]
    · intro op hop
      rcases r5 op hop with hop | hop
      · cases hop
      · exact hop

theorem reqStep_stopApp {c : CQ} (h : Inv F ext c) (env : Env) : ReqStep c (c.stopApp env).st := by
  cases hum : c.um with
  | none => unfold CQ.stopApp; rw [hum]; exact ReqStep.refl c
  | some um =>
    by_cases hres : (c.stopApp env).res = .envShort
    · -- not enough outcomes: nothing happened
      unfold CQ.stopApp at hres ⊢
      rw [hum] at hres ⊢
      dsimp only at hres ⊢
      by_cases hshort : env.outs.length < (um.filterMap id).length
      · rw [if_pos hshort]; exact ReqStep.refl c
      · rw [if_neg hshort] at hres
        simp only [CQ.out] at hres
        split at hres <;> cases hres
    · obtain ⟨_, r2, r3, r4, _⟩ := stopApp_spec h env hum hres
      apply reqStep_of_orph_eq _ r4
      unfold orph
      have : mappedKeys (c.stopApp env).st = [] := by simp [mappedKeys, mapped, r3]
      rw [this, r2]
      unfold orphOf
      apply filter_eq_self.2
      intro e _; simp

/-! ### the other requests -/

theorem reqStep_initApp (c : CQ) (m : Nat) (env : Env) : ReqStep c (c.initApp m env).st := by
  unfold CQ.initApp
  split
  · exact ReqStep.refl c
  · rename_i hum
    refine reqStep_same rfl ?_ rfl
    show (List.replicate m none).filterMap id = (c.um.getD []).filterMap id
    rw [hum]; simp

theorem reqStep_arrive (c : CQ) (s d : Int) (env : Env) : ReqStep c (c.arrive s d env).st := by
  unfold CQ.arrive
  split
  · exact ReqStep.refl c
  · exact reqStep_same rfl rfl rfl

theorem reqStep_alloc {c : CQ} (h : Inv F ext c) (v : Int) (env : Env) : ReqStep c (c.alloc v env).st := by
  unfold CQ.alloc
  split
  · exact ReqStep.refl c
  · rename_i um hum
    split
    · exact ReqStep.refl c
    · exact ReqStep.refl c
    · rename_i i hs
      have hi := slotGet_empty hs
      have hfree := firstFree_not_mem c.used
      obtain ⟨hk1, _⟩ := h.not_key_of_not_used hfree
      dsimp only
      split
      · exact ReqStep.refl c
      · rename_i c' t hc
        obtain ⟨rfl, rfl⟩ := CQ.cmdNew_some hc
        show ReqStep c (CQ.registered _ _)
        exact reqStep_mapped (p := firstFree c.used) (t := c.node.next) (aSet_of_not_mem _ hk1) hk1
          (mem_mapped_set_some hum hi _ rfl) rfl

theorem reqStep_free' {c : CQ} (h : Inv F ext c) (v : Int) (env : Env) : ReqStep c (c.free v env).st := by
  unfold CQ.free
  split
  · exact ReqStep.refl c
  · rename_i um hum
    split
    · exact ReqStep.refl c
    · exact ReqStep.refl c
    · rename_i i p hs
      have hi := slotGet_full hs
      have hpm : p ∈ mapped c := by simp only [mapped, hum, Option.getD_some]; exact mem_filterMap_of_getElem? hi
      split
      · exact ReqStep.refl c
      · dsimp only
        split
        · rename_i hnu; exact absurd (h.mapped_used p hpm) (by simpa using hnu)
        · split
          · rename_i hg
            exfalso
            have := aGet_isSome_of_mem_keys (h.mapped_ql p hpm)
            rw [show aGet c.qlist (p : Int) = none from hg] at this; cases this
          · exact reqStep_free (p := p) rfl (mem_mapped_set_none hum hi _ rfl) rfl

/-- the hand-over of a delivered pair, seen from the state `c` before the request -/
theorem reqStep_handOver {c c4 : CQ} {q t : Nat} (bad : Bool) (v : Option Int) (hq : c4.qlist = c.qlist ++ [((q : Int), t)])
    (hk : (q : Int) ∉ keys c.qlist) (hum : c4.um = c.um) (hl : c4.leaked = c.leaked) (hnm : q ∉ mapped c) :
    ReqStep c (c4.handOver q bad v).2 := by
  have hm : mapped c4 = mapped c := by simp [mapped, hum]
  have hleak : ReqStep c (c4.leak 1) :=
    reqStep_orphans [((q : Int), t)] hq hm (by intro e he; simp only [mem_singleton] at he; subst he; exact ofNat_not_mem_mappedKeys hnm)
      (by simp [CQ.leak, hl])
  unfold CQ.handOver
  split
  · exact hleak
  split
  · rename_i v' um hum4
    split
    · exact hleak
    · split <;> exact hleak
    · rename_i i hs
      have hc : c.um = some um := by rw [← hum]; exact hum4
      show ReqStep c { c4 with um := some (um.set i (some q)) }
      exact reqStep_mapped (p := q) (t := t) hq hk (mem_mapped_set_some hc (slotGet_empty hs) _ rfl) hl
  · exact hleak

theorem reqStep_eprCreate {c : CQ} (h : Inv F ext c) (ok bad : Bool) (v : Option Int) (env : Env) :
    ReqStep c (c.eprCreate ok bad v env).st := by
  have hfree := firstFree_not_mem c.used
  obtain ⟨hk1, hk2⟩ := h.not_key_of_not_used hfree
  have hnm := h.not_mapped_of_not_used hfree
  have hk2' : (-(1 + (firstFree c.used : Int))) ∉ keys (c.qlist ++ [((firstFree c.used : Int), c.node.next)]) := by
    rw [keys_append]; simp only [keys, map_cons, map_nil, mem_append, mem_singleton, not_or]
    exact ⟨hk2, neg_ne_ofNat _ _⟩
  unfold CQ.eprCreate
  dsimp only
  split
  · exact reqStep_same rfl rfl rfl
  · split
    · exact reqStep_same rfl rfl rfl
    · rename_i c2 t1 hc2
      obtain ⟨rfl, rfl⟩ := CQ.cmdNew_some hc2
      have hq2 : (({ c with used := firstFree c.used :: c.used } : CQ).registered (firstFree c.used : Int)).qlist
          = c.qlist ++ [((firstFree c.used : Int), c.node.next)] := aSet_of_not_mem _ hk1
      split
      · exact reqStep_orphans [((firstFree c.used : Int), c.node.next)] hq2 rfl
          (by intro e he; simp only [mem_singleton] at he; subst he; exact ofNat_not_mem_mappedKeys hnm) rfl
      · rename_i c3 t2 hc3
        obtain ⟨rfl, rfl⟩ := CQ.cmdNew_some hc3
        have hq3 : ((({ c with used := firstFree c.used :: c.used } : CQ).registered (firstFree c.used : Int)).registered
              (-(1 + (firstFree c.used : Int)))).qlist
            = c.qlist ++ [((firstFree c.used : Int), c.node.next), (-(1 + (firstFree c.used : Int)), c.node.next + 1)] := by
          show aSet (aSet c.qlist _ _) _ _ = _
          rw [aSet_of_not_mem _ hk1, aSet_of_not_mem _ hk2']; simp [CQ.registered]
        have hboth : ReqStep c ((((({ c with used := firstFree c.used :: c.used } : CQ).registered (firstFree c.used : Int)).registered
              (-(1 + (firstFree c.used : Int))))).leak 2) :=
          reqStep_orphans _ hq3 rfl (by
            intro e he
            simp only [mem_cons, mem_singleton, not_mem_nil, or_false] at he
            rcases he with he | he
            · subst he; exact ofNat_not_mem_mappedKeys hnm
            · subst he; exact neg_not_mem_mappedKeys c _) rfl
        split
        · exact hboth
        · split
          · exact hboth
          · show ReqStep c (CQ.handOver _ (firstFree c.used) bad v).2
            refine reqStep_handOver (t := c.node.next) bad v ?_ hk1 rfl rfl hnm
            show aDel (aSet (aSet c.qlist _ _) _ _) _ = _
            rw [aSet_of_not_mem _ hk1, aSet_of_not_mem _ hk2', aDel_append_last hk2']

theorem reqStep_eprRecv {c : CQ} (h : Inv F ext c) (s r : Int) (bad : Bool) (v : Option Int) (env : Env) :
    ReqStep c (c.eprRecv s r bad v env).st := by
  have hfree := firstFree_not_mem c.used
  obtain ⟨hk1, _⟩ := h.not_key_of_not_used hfree
  have hnm := h.not_mapped_of_not_used hfree
  unfold CQ.eprRecv
  dsimp only
  split
  · exact reqStep_same rfl rfl rfl
  · rename_i s' sender t hf
    split
    · rename_i hsome
      exfalso
      rw [show aGet c.qlist (firstFree c.used : Int) = none from aGet_eq_none_of_not_mem hk1] at hsome
      cases hsome
    · have hq : aSet c.qlist (firstFree c.used : Int) t = c.qlist ++ [((firstFree c.used : Int), t)] := aSet_of_not_mem _ hk1
      split
      · exact reqStep_orphans [((firstFree c.used : Int), t)] hq rfl
          (by intro e he; simp only [mem_singleton] at he; subst he; exact ofNat_not_mem_mappedKeys hnm) rfl
      · show ReqStep c (CQ.handOver _ (firstFree c.used) bad v).2
        exact reqStep_handOver (t := t) bad v hq hk1 rfl rfl hnm

theorem reqStep_unchanged {c : CQ} {o : QOut CQ} (h : o.st = c) : ReqStep c o.st := by rw [h]; exact ReqStep.refl c

theorem CQ.init_st (c : CQ) (v : Int) (env : Env) : (c.init v env).st = c := by
  unfold CQ.init; split
  · rfl
  · split <;> rfl

theorem CQ.gate1_st (c : CQ) (g : G1) (v : Int) (env : Env) : (c.gate1 g v env).st = c := by
  unfold CQ.gate1; split
  · rfl
  · split <;> rfl

theorem CQ.gate2_st (c : CQ) (g : G2) (v w : Int) (env : Env) : (c.gate2 g v w env).st = c := by
  unfold CQ.gate2; split
  · split <;> rfl
  · rfl

theorem CQ.meas_st (c : CQ) (v : Int) (env : Env) : (c.meas v env).st = c := by
  unfold CQ.meas; split
  · rfl
  · split <;> rfl

/-- every request keeps the unknown entries and counts the new ones -/
theorem reqStep_q {c : CQ} (h : Inv F ext c) (req : QReq) (env : Env) : ReqStep c (c.q req env).st := by
  cases req with
  | initApp m => exact reqStep_initApp c m env
  | stopApp => exact reqStep_stopApp h env
  | arrive s d => exact reqStep_arrive c s d env
  | alloc v => exact reqStep_alloc h v env
  | init v => exact reqStep_unchanged (c.init_st v env)
  | gate1 g v => exact reqStep_unchanged (c.gate1_st g v env)
  | gate2 g v w => exact reqStep_unchanged (c.gate2_st g v w env)
  | meas v => exact reqStep_unchanged (c.meas_st v env)
  | free v => exact reqStep_free' h v env
  | eprCreate ok bad v => exact reqStep_eprCreate h ok bad v env
  | eprRecv s r bad v => exact reqStep_eprRecv h s r bad v env

/-! ### the capacity of the node never changes -/

theorem stopLoop_cap : ∀ (ps : List (Nat × Bool)) (c : CQ) (ops : List TOp), (c.stopLoop ps ops).1.node.cap = c.node.cap
  | [], c, ops => rfl
  | (p, o) :: ps, c, ops => by
    unfold CQ.stopLoop
    split
    · rfl
    · dsimp only
      split
      · rfl
      · rw [stopLoop_cap]; rfl

theorem handOver_cap (c : CQ) (q : Nat) (bad : Bool) (v : Option Int) : (c.handOver q bad v).2.node.cap = c.node.cap := by
  unfold CQ.handOver
  repeat' split
  all_goals rfl

theorem cap_q (c : CQ) (req : QReq) (env : Env) : (c.q req env).st.node.cap = c.node.cap := by
  cases req with
  | initApp m => show (c.initApp m env).st.node.cap = _; unfold CQ.initApp; split <;> rfl
  | stopApp =>
    show (c.stopApp env).st.node.cap = _
    unfold CQ.stopApp; split
    · rfl
    · dsimp only; split
      · rfl
      · simp only [CQ.out]; rw [stopLoop_cap]
  | arrive s d => show (c.arrive s d env).st.node.cap = _; unfold CQ.arrive; split <;> rfl
  | alloc v =>
    show (c.alloc v env).st.node.cap = _
    unfold CQ.alloc
    split
    · rfl
    · split
      · rfl
      · rfl
      · dsimp only
        split
        · rfl
        · rename_i hc; obtain ⟨rfl, _⟩ := CQ.cmdNew_some hc; rfl
  | init v => rw [show (c.q (.init v) env) = c.init v env from rfl, CQ.init_st]
  | gate1 g v => rw [show (c.q (.gate1 g v) env) = c.gate1 g v env from rfl, CQ.gate1_st]
  | gate2 g v w => rw [show (c.q (.gate2 g v w) env) = c.gate2 g v w env from rfl, CQ.gate2_st]
  | meas v => rw [show (c.q (.meas v) env) = c.meas v env from rfl, CQ.meas_st]
  | free v =>
    show (c.free v env).st.node.cap = _
    unfold CQ.free
    split
    · rfl
    · split
      · rfl
      · rfl
      · split
        · rfl
        · dsimp only
          split
          · rfl
          · split <;> rfl
  | eprCreate ok bad v =>
    show (c.eprCreate ok bad v env).st.node.cap = _
    unfold CQ.eprCreate
    dsimp only
    split
    · rfl
    · split
      · rfl
      · rename_i hc2; obtain ⟨rfl, _⟩ := CQ.cmdNew_some hc2
        split
        · rfl
        · rename_i hc3; obtain ⟨rfl, _⟩ := CQ.cmdNew_some hc3
          split
          · rfl
          · split
            · rfl
            · simp only [CQ.out]; rw [handOver_cap]; rfl
  | eprRecv s r bad v =>
    show (c.eprRecv s r bad v env).st.node.cap = _
    unfold CQ.eprRecv
    dsimp only
    split
    · rfl
    · split
      · rfl
      · split
        · rfl
        · simp only [CQ.out]; rw [handOver_cap]

/-! ### a pair half that was handed to the peer -/

theorem Inv.addForeign {c : CQ} (h : Inv F ext c) {t : Nat} (h1 : t < c.node.next) (h2 : t ∉ vals c.qlist)
    (h3 : t ∉ inboxToks c.node) : Inv (t :: F) ext c :=
  ⟨h.1, h.2, h.3, h.4, h.5, h.6, h.7, h.8, h.9, h.10, h.11, h.12, h.13,
   fun f hf => by
     rcases mem_cons.1 hf with hf | hf
     · subst hf; exact ⟨h1, h2, h3⟩
     · exact h.14 f hf,
   h.15⟩

theorem handOver_same (c : CQ) (q : Nat) (bad : Bool) (v : Option Int) :
    (c.handOver q bad v).2.qlist = c.qlist ∧ (c.handOver q bad v).2.node = c.node := by
  unfold CQ.handOver
  repeat' split
  all_goals exact ⟨rfl, rfl⟩

/-- `cmd_epr` when both temporary qubits fit and the peer accepts the half: the second token is sent,
and from then on it is foreign to this QNodeOS -/
theorem eprCreate_sent {c : CQ} (h : Inv F ext c) (bad : Bool) (v : Option Int) (env : Env) {rest : List Bool}
    (hcap : c.node.held.length + 1 < c.node.cap) (hs : env.sends = true :: rest) :
    TOp.send (c.node.next + 1) true ∈ (c.eprCreate true bad v env).ops ∧
    Inv ((c.node.next + 1) :: F) ext (c.eprCreate true bad v env).st := by
  have hInv := h.eprCreate true bad v env
  have hfree := firstFree_not_mem c.used
  obtain ⟨hk1, hk2⟩ := h.not_key_of_not_used hfree
  have hk2' : (-(1 + (firstFree c.used : Int))) ∉ keys (c.qlist ++ [((firstFree c.used : Int), c.node.next)]) := by
    rw [keys_append]; simp only [keys, map_cons, map_nil, mem_append, mem_singleton, not_or]
    exact ⟨hk2, neg_ne_ofNat _ _⟩
  revert hInv
  unfold CQ.eprCreate
  dsimp only
  rw [if_neg (by simp)]
  rw [CQ.cmdNew_eq, if_neg (by dsimp only; omega)]
  dsimp only
  rw [CQ.cmdNew_eq, if_neg (by simp only [CQ.registered, length_append, length_cons, length_nil]; omega)]
  dsimp only
  rw [hs]
  dsimp only
  rw [if_neg (by simp)]
  intro hInv
  refine ⟨by simp [CQ.out, CQ.registered], ?_⟩
  apply Inv.addForeign hInv
  · simp only [CQ.out, (handOver_same _ _ _ _).2, CQ.registered, Node.drop]; omega
  · simp only [CQ.out, (handOver_same _ _ _ _).1, CQ.registered]
    rw [aSet_of_not_mem _ hk1, aSet_of_not_mem _ hk2', aDel_append_last hk2', vals_append]
    simp only [vals, map_cons, map_nil, mem_append, mem_singleton, not_or]
    exact ⟨fun hm => Nat.lt_irrefl _ (Nat.lt_of_succ_lt (h.toks_lt _ hm)), by omega⟩
  · simp only [CQ.out, (handOver_same _ _ _ _).2, CQ.registered, Node.drop, inboxToks]
    intro hm
    have := h.inbox_lt _ hm
    omega

/-! ### no operation touches a foreign token -/

theorem avoids_new {t : Nat} (h : ∀ f ∈ F, f ≠ t) : Avoids F (.new t) := by
  intro f hf; simp only [TOp.toks, mem_singleton]; exact h f hf
theorem avoids_gate1 {t : Nat} (g : G1) (h : ∀ f ∈ F, f ≠ t) : Avoids F (.gate1 g t) := by
  intro f hf; simp only [TOp.toks, mem_singleton]; exact h f hf
theorem avoids_gate2 {t1 t2 : Nat} (g : G2) (h1 : ∀ f ∈ F, f ≠ t1) (h2 : ∀ f ∈ F, f ≠ t2) : Avoids F (.gate2 g t1 t2) := by
  intro f hf; simp only [TOp.toks, mem_cons, not_mem_nil, or_false, not_or]; exact ⟨h1 f hf, h2 f hf⟩
theorem avoids_meas {t : Nat} (ip o : Bool) (h : ∀ f ∈ F, f ≠ t) : Avoids F (.meas t ip o) := by
  intro f hf; simp only [TOp.toks, mem_singleton]; exact h f hf
theorem avoids_send {t : Nat} (ok : Bool) (h : ∀ f ∈ F, f ≠ t) : Avoids F (.send t ok) := by
  intro f hf; simp only [TOp.toks, mem_singleton]; exact h f hf
theorem avoids_claim {t : Nat} (h : ∀ f ∈ F, f ≠ t) : Avoids F (.claim t) := by
  intro f hf; simp only [TOp.toks, mem_singleton]; exact h f hf

theorem Inv.clean_next {c : CQ} (h : Inv F ext c) (k : Nat) : ∀ f ∈ F, f ≠ c.node.next + k :=
  fun f hf => Nat.ne_of_lt (Nat.lt_of_lt_of_le (h.foreign f hf).1 (Nat.le_add_right _ _))

theorem avoids_stopApp {c : CQ} (h : Inv F ext c) (env : Env) : ∀ op ∈ (c.stopApp env).ops, Avoids F op := by
  cases hum : c.um with
  | none => unfold CQ.stopApp; rw [hum]; simp [CQ.out]
  | some um =>
    by_cases hres : (c.stopApp env).res = .envShort
    · unfold CQ.stopApp at hres ⊢
      rw [hum] at hres ⊢
      dsimp only at hres ⊢
      by_cases hshort : env.outs.length < (um.filterMap id).length
      · rw [if_pos hshort]; simp [CQ.out]
      · rw [if_neg hshort] at hres
        simp only [CQ.out] at hres
        split at hres <;> cases hres
    · exact (stopApp_spec h env hum hres).2.2.2.2

theorem avoids_q {c : CQ} (h : Inv F ext c) (req : QReq) (env : Env) : ∀ op ∈ (c.q req env).ops, Avoids F op := by
  cases req with
  | initApp m =>
    show ∀ op ∈ (c.initApp m env).ops, _
    unfold CQ.initApp; split <;> simp [CQ.out]
  | stopApp => exact avoids_stopApp h env
  | arrive s d =>
    show ∀ op ∈ (c.arrive s d env).ops, _
    unfold CQ.arrive; split <;> simp [CQ.out]
  | alloc v =>
    show ∀ op ∈ (c.alloc v env).ops, _
    unfold CQ.alloc
    split
    · simp [CQ.out]
    · split
      · simp [CQ.out]
      · simp [CQ.out]
      · dsimp only
        split
        · simp [CQ.out]
        · rename_i c' t hc
          obtain ⟨_, rfl⟩ := CQ.cmdNew_some hc
          intro op hop
          simp only [CQ.out, mem_singleton] at hop; subst hop
          exact avoids_new (h.clean_next 0)
  | init v =>
    show ∀ op ∈ (c.init v env).ops, _
    unfold CQ.init
    split
    · simp [CQ.out]
    · rename_i p t hr
      have hc := h.foreign_ne_val (resolve_entry' hr)
      split
      · simp [CQ.out]
      · rename_i o rest _
        intro op hop
        simp only [CQ.out, mem_append, mem_singleton] at hop
        rcases hop with hop | hop
        · subst hop; exact avoids_meas _ _ hc
        · cases o
          · simp at hop
          · simp only [if_true, mem_singleton] at hop; subst hop; exact avoids_gate1 _ hc
  | gate1 g v =>
    show ∀ op ∈ (c.gate1 g v env).ops, _
    unfold CQ.gate1
    split
    · simp [CQ.out]
    · rename_i p t hr
      have hc := h.foreign_ne_val (resolve_entry' hr)
      split
      · intro op hop
        simp only [CQ.out, mem_singleton] at hop; subst hop; exact avoids_gate1 _ hc
      · simp [CQ.out]
  | gate2 g v w =>
    show ∀ op ∈ (c.gate2 g v w env).ops, _
    unfold CQ.gate2
    split
    · rename_i p1 t1 p2 t2 hr1 hr2
      have hc1 := h.foreign_ne_val (resolve_entry' hr1)
      have hc2 := h.foreign_ne_val (resolve_entry' hr2)
      split
      · simp [CQ.out]
      · intro op hop
        simp only [CQ.out, mem_singleton] at hop; subst hop; exact avoids_gate2 _ hc1 hc2
    · simp [CQ.out]
  | meas v =>
    show ∀ op ∈ (c.meas v env).ops, _
    unfold CQ.meas
    split
    · simp [CQ.out]
    · rename_i p t hr
      have hc := h.foreign_ne_val (resolve_entry' hr)
      split
      · simp [CQ.out]
      · intro op hop
        simp only [CQ.out, mem_singleton] at hop; subst hop; exact avoids_meas _ _ hc
  | free v =>
    show ∀ op ∈ (c.free v env).ops, _
    unfold CQ.free
    split
    · simp [CQ.out]
    · split
      · simp [CQ.out]
      · simp [CQ.out]
      · split
        · simp [CQ.out]
        · dsimp only
          split
          · simp [CQ.out]
          · split
            · simp [CQ.out]
            · rename_i t hg
              intro op hop
              simp only [CQ.out, mem_singleton] at hop; subst hop
              exact avoids_meas _ _ (h.foreign_ne_val (k := _) hg)
  | eprCreate ok bad v =>
    show ∀ op ∈ (c.eprCreate ok bad v env).ops, _
    have n0 := h.clean_next 0
    have n1 := h.clean_next 1
    unfold CQ.eprCreate
    dsimp only
    split
    · simp [CQ.out]
    · split
      · simp [CQ.out]
      · rename_i c2 t1 hc2
        obtain ⟨rfl, rfl⟩ := CQ.cmdNew_some hc2
        split
        · intro op hop
          simp only [CQ.out, mem_singleton] at hop; subst hop; exact avoids_new n0
        · rename_i c3 t2 hc3
          obtain ⟨rfl, rfl⟩ := CQ.cmdNew_some hc3
          have hops : ∀ op ∈ [TOp.new c.node.next, .new (c.node.next + 1), .gate1 .H c.node.next,
              .gate2 .cnot c.node.next (c.node.next + 1)], Avoids F op := by
            intro op hop
            simp only [mem_cons, not_mem_nil, or_false] at hop
            rcases hop with hop | hop | hop | hop <;> subst hop
            · exact avoids_new n0
            · exact avoids_new n1
            · exact avoids_gate1 _ n0
            · exact avoids_gate2 _ n0 n1
          split
          · exact hops
          · split
            · intro op hop
              simp only [CQ.out, mem_append, mem_singleton] at hop
              rcases hop with hop | hop
              · exact hops op hop
              · subst hop; exact avoids_send _ n1
            · intro op hop
              simp only [CQ.out, mem_append, mem_singleton] at hop
              rcases hop with hop | hop
              · exact hops op hop
              · subst hop; exact avoids_send _ n1
  | eprRecv s r bad v =>
    show ∀ op ∈ (c.eprRecv s r bad v env).ops, _
    unfold CQ.eprRecv
    dsimp only
    split
    · simp [CQ.out]
    · rename_i s' sender t hf
      have hmem : (s', sender, t) ∈ c.node.inbox := mem_of_find?_eq_some hf
      have hc : ∀ f ∈ F, f ≠ t := by
        intro f hf' e; subst e
        exact (h.foreign f hf').2.2 (mem_map.2 ⟨(s', sender, f), hmem, rfl⟩)
      have hone : ∀ op ∈ [TOp.claim t], Avoids F op := by
        intro op hop; simp only [mem_singleton] at hop; subst hop; exact avoids_claim hc
      split
      · exact hone
      · split
        · exact hone
        · exact hone

/-- the concrete backend keeps the invariant and never touches a token of `F` -/
theorem preserves_inv : Preserves concrete (Inv F ext) (Avoids F) :=
  fun c req env h => ⟨h.q req env, avoids_q h req env⟩

end SqVerif.NqExec

"""Self-test of harness/simnet.py against the real SimulaQron code.

    cd /verif && /venv/bin/python -m harness.simnet_selftest

Prints PASS/FAIL lines (NOTE lines report behaviour of the code under test
that is odd but not a harness failure); exit status 1 if any FAIL.
"""
import json
import random
import sys
import time

from . import simnet as S

NAMES = ["Alice", "Bob", "Charlie"]
FAILS = []


def check(name, ok, extra=""):
    print("%s %s%s" % ("PASS" if ok else "FAIL", name, (" -- " + str(extra)) if extra and not ok else ""))
    if not ok:
        FAILS.append(name)
    return ok


def note(text):
    print("NOTE " + text)


def canon(x):
    return json.dumps(x, sort_keys=True)


# ---------------------------------------------------------------------------
# the scenario: sequentially issued operations covering every merge case
# ---------------------------------------------------------------------------

def scenario(make_sched, coins=(1, 0, 1, 1, 0, 1), rng_seed=7):
    """Returns dict(results, snaps, final, joint, schedule, nops, coin_log,
    net).  `make_sched(net)` gives the scheduler used for EVERY run (None =
    the network's FIFO)."""
    net = S.SimNet(NAMES, max_qubits=5, max_regs=100, rng=random.Random(rng_seed))
    A, B, C = net.client("Alice"), net.client("Bob"), net.client("Charlie")
    mark = len(net.trace)
    sched = make_sched(net)
    net.set_coins(list(coins))
    net.set_backoff(lambda a, b: 2.5)
    res, snaps = [], {}
    nops = [0]

    def do(tag, d):
        r = net.run(d, scheduler=sched)
        nops[0] += 1
        res.append([tag, S.error_class(r) or (r if isinstance(r, (int, bool, type(None))) else "ref")])
        return r

    snaps["empty"] = net.snapshot()
    # operations on different nodes are independent: issue them concurrently so
    # that the schedulers have real choices
    def par(tag, ds):
        rs = net.run(ds, scheduler=sched)
        nops[0] += len(ds)
        for r in rs:
            res.append([tag, S.error_class(r) or "ref"])
        return rs
    a0, b0, c0 = par("new x3", [A.callRemote("new_qubit"), B.callRemote("new_qubit"), C.callRemote("new_qubit")])
    a1, b1 = par("new x2", [A.callRemote("new_qubit"), B.callRemote("new_qubit")])
    snaps["created"] = net.snapshot()
    do("H a0", a0.callRemote("apply_H"))
    # (1) both local, different registers -> local merge at Alice
    do("cnot a0->a1 [local/local]", a0.callRemote("cnot_onto", a1))
    snaps["local_merge"] = net.snapshot()
    # move a1 to Bob: Bob now holds a qubit simulated at Alice
    n = do("send a1->Bob", A.callRemote("send_qubit", a1, "Bob"))
    b2 = do("B.ref", B.callRemote("get_virtual_ref", n))
    snaps["sent"] = net.snapshot()
    # (2) control local, target remote: register {a0,a1} moves Alice -> Bob
    do("cnot b0->b2 [ctrl local/target remote]", b0.callRemote("cnot_onto", b2))
    snaps["merge_to_bob"] = net.snapshot()
    # (3) target local, control remote: a0 (now simulated at Bob) onto fresh a2
    a2 = do("A.new", A.callRemote("new_qubit"))
    do("cnot a0->a2 [ctrl remote/target local]", a0.callRemote("cnot_onto", a2))
    snaps["merge_to_alice"] = net.snapshot()
    # (4) both remote, same node (Alice), different registers
    a3 = do("A.new", A.callRemote("new_qubit"))
    n = do("send a3->Bob", A.callRemote("send_qubit", a3, "Bob"))
    b3 = do("B.ref", B.callRemote("get_virtual_ref", n))
    do("cnot b0->b3 [both remote, same node]", b0.callRemote("cnot_onto", b3))
    snaps["remote_same"] = net.snapshot()
    # (5) both remote, different nodes (Alice and Charlie) -> pulled to Bob
    n = do("send c0->Bob", C.callRemote("send_qubit", c0, "Bob"))
    b4 = do("B.ref", B.callRemote("get_virtual_ref", n))
    do("cphase b0->b4 [both remote, different nodes]", b0.callRemote("cphase_onto", b4))
    snaps["remote_diff"] = net.snapshot()
    joint_before = net.joint_state()
    # measurements with scripted coins
    m0 = do("measure a0 inplace", a0.callRemote("measure", True))
    m0b = do("measure a0 inplace again", a0.callRemote("measure", True))
    m1 = do("measure b2", b2.callRemote("measure", False))
    m2 = do("measure b1", b1.callRemote("measure", False))
    m3 = do("H b4", b4.callRemote("apply_H"))
    m4 = do("measure b4", b4.callRemote("measure", False))
    snaps["measured"] = net.snapshot()
    # capacity: Charlie can hold 5
    cs = [do("C.new", C.callRemote("new_qubit")) for _ in range(5)]
    refusal = do("C.new over capacity", C.callRemote("new_qubit"))
    a4 = do("A.new", A.callRemote("new_qubit"))          # simulated at Alice itself
    fwd = do("send a4->Charlie (full)", A.callRemote("send_qubit", a4, "Charlie"))
    final = net.snapshot()
    return dict(results=res, snaps=snaps, final=final, joint=net.joint_state(), joint_before=joint_before,
                schedule=list(net.trace[mark:]), nops=nops[0], coin_log=list(net.coin_log), net=net,
                m=(m0, m0b, m1, m2, m4), refusal=refusal, fwd=fwd, all_free=net.all_locks_free(),
                backoff_log=list(net.backoff_log))


def main():
    t_start = time.time()
    # ------------------------------------------------------------------ basic
    R = S.install_reactor()
    check("install_reactor idempotent", S.install_reactor() is R)
    import twisted.internet
    check("reactor replaced in sys.modules", sys.modules["twisted.internet.reactor"] is R and twisted.internet.reactor is R)

    t0 = time.time()
    base = scenario(lambda net: None)
    wall = time.time() - t0
    import simulaqron
    check("simulaqron imported from a scratch copy",
          not simulaqron.__file__.startswith("/repo/") and not simulaqron.__file__.startswith("/verif/"),
          simulaqron.__file__)
    import simulaqron.virtual_node.virtual as V
    check("virtual.py uses the fake reactor and the stabilizer backend",
          V.reactor is R and hasattr(V, "stabilizerEngine"))
    net = base["net"]
    check("nodes are real virtualNode objects", all(type(net.nodes[n]) is V.virtualNode for n in NAMES))
    check("12 inter-node + 6 client pipes with stable labels",
          [net.label(i) for i in range(4)] == ["Alice->Bob", "Alice<-Bob", "Alice->Charlie", "Alice<-Charlie"]
          and net.label(12) == "cli:Alice->Alice" and net.label(13) == "cli:Alice<-Alice" and len(net._pipes) == 18)

    snaps = base["snaps"]
    check("snapshot: empty network", all(not snaps["empty"][n]["virt"] and not snaps["empty"][n]["sim"]
                                         and snaps["empty"][n]["numRegs"] == 0 for n in NAMES))
    cr = snaps["created"]
    check("snapshot: after creation", [len(cr[n]["virt"]) for n in NAMES] == [2, 2, 1]
          and cr["Alice"]["regs"]["0"]["state"] == ["010"] and cr["Alice"]["next_reg_num"] == 2)
    lm = snaps["local_merge"]["Alice"]
    check("merge case local/local: one register of 2 at Alice",
          lm["numRegs"] == 1 and list(lm["regs"].values())[0]["active"] == 2
          and sorted(s["pos"] for s in lm["sim"]) == [0, 1])
    st = snaps["sent"]
    check("send: Bob's new virtual qubit is simulated at Alice (resolved through PB)",
          [v for v in st["Bob"]["virt"] if v["remote"]] and
          [v for v in st["Bob"]["virt"] if v["remote"]][0]["sim"][0] == "Alice"
          and [v for v in st["Bob"]["virt"] if v["remote"]][0]["sim_live"]
          and len(st["Alice"]["virt"]) == 1)
    mb = snaps["merge_to_bob"]
    check("merge case control local/target remote: register moved Alice -> Bob",
          mb["Alice"]["numRegs"] == 0 and not mb["Alice"]["sim"]
          and any(r["active"] == 3 for r in mb["Bob"]["regs"].values())
          and mb["Alice"]["virt"][0]["sim"][0] == "Bob" and mb["Alice"]["virt"][0]["sim_live"])
    ma = snaps["merge_to_alice"]
    check("merge case target local/control remote: register moved Bob -> Alice",
          any(r["active"] == 4 for r in ma["Alice"]["regs"].values())
          and all(v["sim"][0] == "Alice" for v in ma["Bob"]["virt"] if v["num"] in (0, 2)))
    rs = snaps["remote_same"]
    check("merge case both remote, same node: registers merged at Alice",
          any(r["active"] == 5 for r in rs["Alice"]["regs"].values()) and rs["Alice"]["numRegs"] == 1)
    rd = snaps["remote_diff"]
    check("merge case both remote, different nodes: everything pulled to Bob",
          any(r["active"] == 6 for r in rd["Bob"]["regs"].values())
          and rd["Alice"]["numRegs"] == 0 and rd["Charlie"]["numRegs"] == 0
          and all(v["sim"][0] == "Bob" for n in NAMES for v in rd[n]["virt"] if v["num"] != 1 or n != "Bob"))
    jb = base["joint_before"]
    big = [r for r in jb if r["n"] == 6]
    check("joint_state: 6-qubit register with a holder for every position, no anomaly",
          len(big) == 1 and all(h is not None for h in big[0]["holders"]) and not any(r["anomalies"] for r in jb)
          and sorted(map(tuple, big[0]["holders"])) == [("Alice", 0), ("Alice", 1), ("Bob", 0), ("Bob", 2), ("Bob", 3), ("Bob", 4)],
          jb)
    m0, m0b, m1, m2, m4 = base["m"]
    check("scripted coins: in-place measurement returns the scripted outcome, repeat agrees",
          m0 == 1 and m0b == 1 and base["coin_log"][0] == 1, (base["m"], base["coin_log"]))
    check("destructive measurement of the CNOT partner is determined (1), of |0> is 0, of H|.> takes next coin",
          m1 == 1 and m2 == 0 and m4 == base["coin_log"][1] and len(base["coin_log"]) == 2, (base["m"], base["coin_log"]))
    ms = snaps["measured"]
    check("destructive measurement removed the virtual qubits",
          sorted(v["num"] for v in ms["Bob"]["virt"]) == [0, 3] and sum(r["active"] for r in ms["Bob"]["regs"].values()) == 4)
    check("capacity refusal reaches the client as noQubitError",
          S.error_class(base["refusal"]) == "noQubitError", (S.error_class(base["refusal"]), S.error_text(base["refusal"])))
    fc = S.error_class(base["fwd"])
    check("capacity refusal at a REMOTE node is an error at the client (noQubitError, or TypeError before the "
          "reraise_remote_error fix)", fc in ("noQubitError", "TypeError"), (fc, S.error_text(base["fwd"])))
    note("send to a full node: client sees %s: %s" % (fc, S.error_text(base["fwd"])[:110]))
    check("all locks free at the end", base["all_free"], net.lock_flags())
    check("final snapshot is JSON-able and canonical", canon(json.loads(canon(base["final"]))) == canon(base["final"]))

    # ------------------------------------------------------- schedule independence
    base2 = scenario(lambda net: None)
    check("FIFO is deterministic (identical trace and snapshot on a second run)",
          base2["schedule"] == base["schedule"] and canon(base2["final"]) == canon(base["final"]))
    variants = [("RandomScheduler(%d)" % s, (lambda s: lambda net: S.RandomScheduler(random.Random(s)))(s))
                for s in (1, 2, 3)]
    holder = {}

    def mk_delay(net):
        holder["d"] = S.DelayInjection(lambda t: "call:get_global_lock" in t, k=3, until_count=4, detail=True)
        return holder["d"]
    variants.append(("DelayInjection(get_global_lock, k=3, until 4)", mk_delay))
    variants.append(("PCTScheduler(5, depth 3)", lambda net: S.PCTScheduler(random.Random(5), depth=3, est_len=400)))
    runs = {}
    ndiff = 0
    for name, mk in variants:
        r = scenario(mk)
        runs[name] = r
        same = canon(r["final"]) == canon(base["final"]) and r["results"] == base["results"] \
            and canon(r["joint"]) == canon(base["joint"])
        ndiff += r["schedule"] != base["schedule"]
        check("%s: same results, final snapshot and joint state as FIFO" % name, same)
    check("the schedules really differ from FIFO (%d of %d)" % (ndiff, len(variants)), ndiff >= len(variants) - 1)
    d = holder["d"]
    check("DelayInjection really held a message (%r, early release: %s)" % (d.held_text, d.released_early),
          d.state == 2 and d.held is not None and d.matched >= 4)

    # ------------------------------------------------------------------- replay
    rec = runs["RandomScheduler(2)"]
    rep = scenario(lambda net: S.Replay(json.loads(json.dumps(rec["schedule"]))))
    check("Replay of a recorded random schedule reproduces trace, results and snapshot",
          rep["schedule"] == rec["schedule"] and canon(rep["final"]) == canon(rec["final"])
          and rep["results"] == rec["results"])
    try:
        scenario(lambda net: S.Replay(rec["schedule"][:40]))
        check("Replay without fallback raises ReplayDivergence when exhausted", False)
    except S.ReplayDivergence:
        check("Replay without fallback raises ReplayDivergence when exhausted", True)
    rep2 = scenario(lambda net: S.Replay(rec["schedule"][:40], then=S.FifoScheduler()))
    check("Replay(prefix, then=FIFO) completes with the same final snapshot",
          canon(rep2["final"]) == canon(base["final"]))

    # ----------------------------------------------- events, timers, Hang, concurrency
    net = S.SimNet(NAMES, rng=random.Random(1))
    A, B = net.client("Alice"), net.client("Bob")
    d1 = A.callRemote("new_qubit")
    d2 = B.callRemote("new_qubit")
    p = net.pending(detail=True)
    check("pending(): one event per written PB message, with labels",
          [(x[1], x[2].split("#")[0]) for x in p] == [("cli:Alice->Alice", "call:new_qubit"), ("cli:Bob->Bob", "call:new_qubit")], p)
    net.deliver(p[1][0])
    check("deliver(): exactly one chunk, answer now pending on the reverse pipe",
          [(x[1], x[2].split("#")[0]) for x in net.pending(detail=True)] ==
          [("cli:Alice->Alice", "call:new_qubit"), ("cli:Bob<-Bob", "answer")], net.pending(detail=True))
    qa, qb = net.run([d1, d2])
    check("run([d1, d2]) returns both results", S.error_class(qa) is None and S.error_class(qb) is None)
    # hold Alice's node lock from a client, then ask for a qubit: must hang, with diagnostics
    net.run(A.callRemote("get_global_lock"))
    dq = A.callRemote("new_qubit")
    try:
        net.run(dq, max_virtual_time=30.0)
        check("Hang raised while the node lock is held by someone else", False)
    except S.Hang as h:
        check("Hang raised while the node lock is held by someone else (virtual %.0f s, %d timer firings)"
              % (h.virtual_time, sum(1 for a in h.schedule if a[0] == "t")),
              h.unfired == [0] and h.locks["Alice"]["node"] and 29 <= h.virtual_time <= 31
              and any("_get_global_lock" in t[1] for t in h.timers), str(h))
    check("all_locks_free() is False meanwhile", not net.all_locks_free())
    tl = net.timers()
    check("timers(): (time, description) of the poll loop", len(tl) == 1 and "_get_global_lock" in tl[0][1], tl)
    net.run(A.callRemote("release_global_lock"))
    r = net.run(dq)
    check("after release the blocked new_qubit completes; locks free", S.error_class(r) is None and net.all_locks_free())
    from twisted.internet.defer import Deferred
    net.settle()
    try:
        net.run(Deferred())
        check("Hang raised at once when nothing can ever happen", False)
    except S.Hang as h:
        check("Hang raised at once when nothing can ever happen", h.reason.startswith("dead") and h.virtual_time == 0)
    t_before = net.clock.seconds()
    net.advance(5.0)
    check("advance(dt) moves the virtual clock", abs(net.clock.seconds() - t_before - 5.0) < 1e-9)
    # back-off scripting
    net.set_backoff([1.25])
    net.run(qa.callRemote("cnot_onto", net.run(A.callRemote("new_qubit"))))
    check("set_backoff scripts random.uniform inside virtual.py only",
          net.backoff_log[-1] == 1.25 and V.random is not random and any(abs(t - (net.clock.seconds() + 1.25)) < 1e-9 for t, _ in net.timers()),
          (net.backoff_log, net.timers()))
    note("a successful _lock_nodes leaves its time-out timer pending: %s" % (net.timers(),))
    check("settle() fires leftover timers and reaches quiescence", net.settle() and not net.timers() and not net.pending())

    # ---------------------------------------------------- oddities of the code under test
    net = S.SimNet(NAMES, rng=random.Random(1))
    A, B, C = net.client("Alice"), net.client("Bob"), net.client("Charlie")
    qa = net.run(A.callRemote("new_qubit"))
    nb = net.run(A.callRemote("send_qubit", qa, "Bob"))
    qb = net.run(B.callRemote("get_virtual_ref", nb))
    r = net.run(B.callRemote("send_qubit", qb, "Charlie"))
    note("send by a node that is not the simulator (Bob holds, Alice simulates, to Charlie): %s %s; locks free: %s"
         % (S.error_class(r) or "ok", S.error_text(r)[:90], net.all_locks_free()))
    net = S.SimNet(NAMES, rng=random.Random(1))
    A = net.client("Alice")
    qa = net.run(A.callRemote("new_qubit"))
    net.nodes["Alice"].simQubits[0].active = False
    r = net.run(qa.callRemote("measure", True))
    note("measure of a virtual qubit whose simulated qubit is inactive: %s %s" % (S.error_class(r) or r, S.error_text(r)[:90]))
    net = S.SimNet(NAMES, rng=random.Random(1))
    A, B = net.client("Alice"), net.client("Bob")
    qa = net.run(A.callRemote("new_qubit"))
    qb = net.run(B.callRemote("new_qubit"))
    nb = net.run(A.callRemote("send_qubit", qa, "Bob"))
    q2 = net.run(B.callRemote("get_virtual_ref", nb))
    del net.pylog[:]
    net.run(q2.callRemote("cnot_onto", qb))
    note("cross-node merge logs: %s" % ([x[2] for x in net.pylog],))

    # ------------------------------------------------------------------ NetQASM
    from netqasm.sdk import Qubit
    nq = S.NqNet(NAMES, rng=random.Random(3))

    def prog(conn):
        q = Qubit(conn)
        q.H()
        q.measure(inplace=True)
    msgs = nq.program("Alice", prog, app_id=0)
    nq.set_coins([1])
    proto, tr = nq.host("Alice")
    nq.feed(proto, S.frame(0, msgs[0]))
    nq.settle()
    data = S.frame(1, msgs[1])
    nq.feed(proto, [data[:5], data[5:40], data[40:]])      # arbitrary chunking
    nq.settle()
    mid = nq.snapshot()["Alice"]
    for i, m in enumerate(msgs[2:]):
        nq.feed(proto, S.frame(2 + i, m))
        nq.settle()
    rep = S.parse_replies(tr.value())
    arr = [x for x in rep if x[0] == "ReturnArrayMessage"]
    done = [x[1] for x in rep if x[0] == "MsgDoneMessage"]
    check("NetQASM program (alloc, H, measure, return) through NqNet returns the scripted outcome",
          len(arr) == 1 and arr[0][2] == [1] and done == list(range(len(msgs))) and nq.coin_log == [1], rep)
    check("NqNet snapshot shows the qubit held through the factory's handle after the subroutine",
          mid["qubitList"] == {"0": ["Alice", 0]} and len(mid["virt"]) == 1, mid)
    fin = nq.snapshot()["Alice"]
    check("StopApp released the qubit; locks free", fin["qubitList"] == {} and not fin["virt"] and nq.all_locks_free(), fin)
    note("SDK close() also sent a STOP signal: reactor.stop() called by the code under test = %s" % nq.reactor_stopped)

    # --------------------------------------------------------------- throughput
    reps = 5
    t0 = time.time()
    nops = 0
    ndel = 0
    for _ in range(reps):
        r = scenario(lambda net: None)
        nops += r["nops"]
        ndel += len(r["schedule"])
    dt = time.time() - t0
    t1 = time.time()
    for _ in range(20):
        S.SimNet(NAMES)
    build = (time.time() - t1) / 20
    print("THROUGHPUT %.0f client ops/s, %.0f PB deliveries/s (scenario of %d ops / %d deliveries incl. set-up; "
          "building a 3-node SimNet takes %.1f ms)" % (nops / dt, ndel / dt, nops // reps, ndel // reps, build * 1e3))
    print("first scenario run incl. imports: %.2f s; whole self-test: %.1f s" % (wall, time.time() - t_start))
    if FAILS:
        print("FAILED: %d" % len(FAILS))
        for f in FAILS:
            print("  " + f)
        sys.exit(1)
    print("ALL PASS")


if __name__ == "__main__":
    main()

import SqVerif.Config
/-
Lemmas behind C16.  Core Lean only.

1. association lists (`aget`/`aset`/`apop`) and the flattened endpoint list;
2. the invariant `Inv` (endpoints pairwise distinct, all reserved in `used`,
   dictionary keys distinct) and its preservation by every edit;
3. the JSON round trip;
4. insertion sort is a permutation, is sorted, and is canonical for a linear
   order; the id/name lookups are mutually inverse.
-/
namespace SqVerif.Config

/-! ### 1. association lists -/
section Assoc
variable {κ β γ : Type} [DecidableEq κ]

theorem aget_aset_self (k : κ) (v : β) (l : List (κ × β)) : aget k (aset k v l) = some v := by
  induction l with
  | nil => simp [aset, aget]
  | cons e t ih =>
    by_cases h : e.1 = k
    · simp [aset, aget, h]
    · simp [aset, aget, h, ih]

theorem aget_aset_ne {k k' : κ} (h : k ≠ k') (v : β) (l : List (κ × β)) :
    aget k' (aset k v l) = aget k' l := by
  induction l with
  | nil => simp [aset, aget, h]
  | cons e t ih =>
    simp only [aset]
    split
    · rename_i h1
      have : ¬ e.1 = k' := fun h2 => h (h1.symm.trans h2)
      simp [aget, h, this]
    · simp only [aget, ih]

theorem mem_of_aget {k : κ} {v : β} {l : List (κ × β)} (h : aget k l = some v) : (k, v) ∈ l := by
  induction l with
  | nil => simp [aget] at h
  | cons e t ih =>
    by_cases h1 : e.1 = k
    · simp [aget, h1] at h
      have : e = (k, v) := by cases e; simp_all
      simp [this]
    · simp [aget, h1] at h
      exact List.mem_cons_of_mem _ (ih h)

theorem aget_none_iff {k : κ} {l : List (κ × β)} : aget k l = none ↔ k ∉ keys l := by
  induction l with
  | nil => simp [aget, keys]
  | cons e t ih =>
    by_cases h1 : e.1 = k
    · simp [aget, keys, h1]
    · have h2 : ¬ k = e.1 := fun h => h1 h.symm
      simp [aget, h1, h2, keys] at ih ⊢
      exact ih

theorem mem_keys_aset {k x : κ} {v : β} {l : List (κ × β)} :
    x ∈ keys (aset k v l) ↔ x = k ∨ x ∈ keys l := by
  induction l with
  | nil => simp [aset, keys]
  | cons e t ih =>
    by_cases h1 : e.1 = k
    · simp [aset, keys, h1]
    · simp only [aset, h1, if_false, keys, List.map_cons, List.mem_cons] at ih ⊢
      rw [ih]
      constructor
      · rintro (h | h | h) <;> simp [h]
      · rintro (h | h | h) <;> simp [h]

theorem keys_aset_of_mem {k : κ} {v : β} {l : List (κ × β)} (h : k ∈ keys l) :
    keys (aset k v l) = keys l := by
  induction l with
  | nil => simp [keys] at h
  | cons e t ih =>
    by_cases h1 : e.1 = k
    · simp [aset, keys, h1]
    · have : k ∈ keys t := by
        simp only [keys, List.map_cons, List.mem_cons] at h
        rcases h with h | h
        · exact absurd h.symm h1
        · exact h
      simp only [aset, h1, if_false, keys, List.map_cons] at ih ⊢
      rw [ih this]

theorem aset_of_not_mem {k : κ} {v : β} {l : List (κ × β)} (h : k ∉ keys l) :
    aset k v l = l ++ [(k, v)] := by
  induction l with
  | nil => simp [aset]
  | cons e t ih =>
    simp only [keys, List.map_cons, List.mem_cons, not_or] at h
    have h1 : ¬ e.1 = k := fun h2 => h.1 h2.symm
    simp only [aset, h1, if_false, List.cons_append]
    rw [ih h.2]

theorem keys_aset_nodup {k : κ} {v : β} {l : List (κ × β)} (h : (keys l).Nodup) :
    (keys (aset k v l)).Nodup := by
  by_cases hk : k ∈ keys l
  · rw [keys_aset_of_mem hk]; exact h
  · rw [aset_of_not_mem hk]
    simp only [keys, List.map_append, List.map_cons, List.map_nil]
    rw [List.nodup_append]
    refine ⟨h, by simp, ?_⟩
    intro a ha b hb
    simp at hb
    subst hb
    intro hab
    subst hab
    exact hk ha

theorem keys_apop_nodup {k : κ} {l : List (κ × β)} (h : (keys l).Nodup) : (keys (apop k l)).Nodup := by
  unfold apop keys at *
  exact (List.Sublist.map _ List.filter_sublist).nodup h

theorem not_mem_keys_apop (k : κ) (l : List (κ × β)) : k ∉ keys (apop k l) := by
  simp [keys, apop]

theorem mem_keys_apop {k x : κ} {l : List (κ × β)} (h : x ∈ keys (apop k l)) : x ∈ keys l := by
  simp only [keys, apop, List.mem_map, List.mem_filter] at h ⊢
  obtain ⟨e, ⟨he, _⟩, hx⟩ := h
  exact ⟨e, he, hx⟩

theorem mem_apop {k : κ} {e : κ × β} {l : List (κ × β)} (h : e ∈ apop k l) : e ∈ l := by
  simp only [apop, List.mem_filter] at h
  exact h.1

theorem mem_aset {k : κ} {v : β} {e : κ × β} {l : List (κ × β)} (h : e ∈ aset k v l) :
    e = (k, v) ∨ e ∈ l := by
  induction l with
  | nil => simp [aset] at h; exact Or.inl h
  | cons e' t ih =>
    by_cases h1 : e'.1 = k
    · simp only [aset, h1, if_true, List.mem_cons] at h
      rcases h with h | h
      · exact Or.inl h
      · exact Or.inr (List.mem_cons_of_mem _ h)
    · simp only [aset, h1, if_false, List.mem_cons] at h
      rcases h with h | h
      · exact Or.inr (by simp [h])
      · rcases ih h with h | h
        · exact Or.inl h
        · exact Or.inr (List.mem_cons_of_mem _ h)

/-- the flattened contribution list of a dictionary -/
def fm (f : β → List γ) (l : List (κ × β)) : List γ := l.flatMap fun e => f e.2

omit [DecidableEq κ] in
theorem mem_fm {f : β → List γ} {l : List (κ × β)} {s : γ} :
    s ∈ fm f l ↔ ∃ e ∈ l, s ∈ f e.2 := by
  simp [fm, List.mem_flatMap]

theorem mem_fm_of_aget {f : β → List γ} {k : κ} {v : β} {l : List (κ × β)} {s : γ}
    (h : aget k l = some v) (hs : s ∈ f v) : s ∈ fm f l :=
  mem_fm.2 ⟨(k, v), mem_of_aget h, hs⟩

theorem mem_fm_aset {f : β → List γ} {k : κ} {v : β} {l : List (κ × β)} {s : γ}
    (h : s ∈ fm f (aset k v l)) : s ∈ fm f l ∨ s ∈ f v := by
  obtain ⟨e, he, hs⟩ := mem_fm.1 h
  rcases mem_aset he with h1 | h1
  · subst h1; exact Or.inr hs
  · exact Or.inl (mem_fm.2 ⟨e, h1, hs⟩)

theorem mem_fm_apop {f : β → List γ} {k : κ} {l : List (κ × β)} {s : γ}
    (h : s ∈ fm f (apop k l)) : s ∈ fm f l := by
  obtain ⟨e, he, hs⟩ := mem_fm.1 h
  exact mem_fm.2 ⟨e, mem_apop he, hs⟩

omit [DecidableEq κ] in
theorem nodup_fm_filter {f : β → List γ} (p : κ × β → Bool) {l : List (κ × β)}
    (h : (fm f l).Nodup) : (fm f (l.filter p)).Nodup := by
  induction l with
  | nil => simp [fm]
  | cons e t ih =>
    simp only [fm, List.flatMap_cons, List.nodup_append] at h
    obtain ⟨h1, h2, h3⟩ := h
    by_cases hp : p e = true
    · simp only [fm, List.filter_cons, hp, if_true, List.flatMap_cons, List.nodup_append]
      refine ⟨h1, ih h2, ?_⟩
      intro a ha b hb
      apply h3 a ha b
      obtain ⟨e', he', hs⟩ := mem_fm.1 hb
      exact mem_fm.2 ⟨e', (List.mem_filter.1 he').1, hs⟩
    · simp only [List.filter_cons, hp]
      exact ih h2

theorem nodup_fm_apop {f : β → List γ} {k : κ} {l : List (κ × β)} (h : (fm f l).Nodup) :
    (fm f (apop k l)).Nodup := nodup_fm_filter _ h

theorem nodup_of_aget {f : β → List γ} {k : κ} {v : β} {l : List (κ × β)}
    (h : aget k l = some v) (hn : (fm f l).Nodup) : (f v).Nodup := by
  induction l with
  | nil => simp [aget] at h
  | cons e t ih =>
    simp only [fm, List.flatMap_cons, List.nodup_append] at hn
    by_cases h1 : e.1 = k
    · simp [aget, h1] at h
      subst h
      exact hn.1
    · simp [aget, h1] at h
      exact ih h hn.2.1

/-- Replacing the value under `k` keeps the flattened list duplicate-free provided the new
contribution is duplicate-free and everything in it is either fresh or came from the value
that is being replaced. -/
theorem nodup_fm_aset {f : β → List γ} {k : κ} {v : β} {l : List (κ × β)}
    (hn : (fm f l).Nodup) (hv : (f v).Nodup)
    (hfresh : ∀ s ∈ f v, s ∈ fm f l → ∃ old, aget k l = some old ∧ s ∈ f old) :
    (fm f (aset k v l)).Nodup := by
  induction l with
  | nil => simpa [aset, fm] using hv
  | cons e t ih =>
    have hn' := hn
    simp only [fm, List.flatMap_cons, List.nodup_append] at hn
    obtain ⟨h1, h2, h3⟩ := hn
    by_cases hk : e.1 = k
    · simp only [aset, hk, if_true, fm, List.flatMap_cons, List.nodup_append]
      refine ⟨hv, h2, ?_⟩
      intro a ha b hb hab
      subst hab
      have hat : a ∈ fm f (e :: t) := by
        simp only [fm, List.flatMap_cons, List.mem_append]; exact Or.inr hb
      obtain ⟨old, ho, hao⟩ := hfresh a ha hat
      simp [aget, hk] at ho
      subst ho
      exact h3 a hao a hb rfl
    · simp only [aset, hk, if_false, fm, List.flatMap_cons, List.nodup_append]
      have hfresh' : ∀ s ∈ f v, s ∈ fm f t → ∃ old, aget k t = some old ∧ s ∈ f old := by
        intro s hs hst
        have : s ∈ fm f (e :: t) := by
          simp only [fm, List.flatMap_cons, List.mem_append]; exact Or.inr hst
        obtain ⟨old, ho, hso⟩ := hfresh s hs this
        simp [aget, hk] at ho
        exact ⟨old, ho, hso⟩
      refine ⟨h1, ih h2 hfresh', ?_⟩
      intro a ha b hb hab
      subst hab
      rcases mem_fm_aset hb with hb | hb
      · exact h3 a ha a hb rfl
      · have : a ∈ fm f (e :: t) := by
          simp only [fm, List.flatMap_cons, List.mem_append]; exact Or.inl ha
        obtain ⟨old, ho, hao⟩ := hfresh a hb this
        simp [aget, hk] at ho
        exact h3 a ha a (mem_fm_of_aget ho hao) rfl

end Assoc

/-! ### 2. the invariant and its preservation -/

/-- the keys of every dictionary are distinct (automatic for a Python `dict`) -/
def KeysOk (nets : List (Name × Net)) : Prop :=
  (keys nets).Nodup ∧ ∀ e ∈ nets, (keys e.2.nodes).Nodup

/-- endpoints pairwise distinct, every endpoint reserved in `used_sockets`, keys distinct -/
structure Inv (c : Cfg) : Prop where
  nodup : c.eps.Nodup
  reserved : ∀ s ∈ c.eps, s ∈ c.used
  keysOk : KeysOk c.networks

theorem inv_empty : Inv Cfg.empty :=
  ⟨by simp [Cfg.empty, Cfg.eps, netsEps], by simp [Cfg.empty, Cfg.eps, netsEps],
   by simp [KeysOk, Cfg.empty, keys]⟩

theorem inv_used_mono {c : Cfg} (hc : Inv c) (u : List Sock) (h : ∀ s ∈ c.used, s ∈ u) :
    Inv { c with used := u } :=
  ⟨hc.nodup, fun s hs => h s (hc.reserved s hs), hc.keysOk⟩

/-- the general update step: the network under `k` is replaced by `n'`, all of whose
endpoints either belonged to the replaced network or are fresh (not in the configuration)
and reserved. -/
theorem inv_update {c : Cfg} (hc : Inv c) (k : Name) (n' : Net) (used' : List Sock)
    (hsub : ∀ s ∈ c.used, s ∈ used')
    (hn : n'.eps.Nodup) (hk : (keys n'.nodes).Nodup)
    (hsrc : ∀ s ∈ n'.eps, (∃ old, aget k c.networks = some old ∧ s ∈ old.eps) ∨
      (s ∉ c.eps ∧ s ∈ used')) :
    Inv ⟨aset k n' c.networks, used'⟩ := by
  refine ⟨?_, ?_, ?_, ?_⟩
  · show (fm Net.eps (aset k n' c.networks)).Nodup
    refine nodup_fm_aset hc.nodup hn ?_
    intro s hs hsc
    rcases hsrc s hs with h | h
    · exact h
    · exact absurd hsc h.1
  · intro s hs
    have hs' : s ∈ fm Net.eps (aset k n' c.networks) := hs
    rcases mem_fm_aset hs' with h | h
    · exact hsub s (hc.reserved s h)
    · rcases hsrc s h with ⟨old, ho, hso⟩ | h2
      · exact hsub s (hc.reserved s (mem_fm_of_aget (f := Net.eps) ho hso))
      · exact h2.2
  · exact keys_aset_nodup hc.keysOk.1
  · intro e he
    rcases mem_aset he with h | h
    · subst h; exact hk
    · exact hc.keysOk.2 e h

theorem not_mem_of_checkPortAvailable {osFree : Port → Bool} {used : List Sock} {s : Sock}
    (h : checkPortAvailable osFree used s = true) : s ∉ used := by
  unfold checkPortAvailable at h
  split at h
  · simp at h
  · assumption

/-- a socket handed out by `reserve1` is never one that is already reserved — for every `osFree` -/
theorem reserve1_fresh {osFree : Port → Bool} {used : List Sock} {spec : Option Host × Option Port}
    {s : Sock} (h : reserve1 osFree used spec = .ok s) : s ∉ used := by
  unfold reserve1 at h
  generalize hostOf spec.1 = host at h
  cases hp : spec.2 with
  | none =>
    rw [hp] at h
    simp only [reservePort] at h
    cases hg : getUnusedPort osFree used host with
    | none => rw [hg] at h; simp at h
    | some p =>
      rw [hg] at h
      injection h with h
      subst h
      have h2 : checkPortAvailable osFree used (host, p) = true := by
        unfold getUnusedPort at hg
        exact List.find?_some (p := fun p => checkPortAvailable osFree used (host, p)) hg
      exact not_mem_of_checkPortAvailable h2
  | some p =>
    rw [hp] at h
    simp only [reservePort] at h
    split at h
    · rename_i hav
      injection h with h
      subst h
      exact not_mem_of_checkPortAvailable hav
    · simp at h

theorem eps_new : Net.new.eps = [] := rfl

theorem inv_addNode (osFree : Port → Bool) {c : Cfg} (hc : Inv c) (name : Name) (net : Option Name)
    (sp : Specs) (nb : Option (List Name)) : Inv (addNode osFree c name net sp nb).1 := by
  cases ha : reserve1 osFree c.used sp.app with
  | error e => simp only [addNode, ha]; exact hc
  | ok a =>
    cases hq : reserve1 osFree (c.used ++ [a]) sp.qnodeos with
    | error e =>
      simp only [addNode, ha, hq]
      exact inv_used_mono hc _ (fun s h => List.mem_append_left _ h)
    | ok q =>
      cases hv : reserve1 osFree (c.used ++ [a] ++ [q]) sp.vnode with
      | error e =>
        simp only [addNode, ha, hq, hv]
        exact inv_used_mono hc _ (fun s h => List.mem_append_left _ (List.mem_append_left _ h))
      | ok v =>
        simp only [addNode, ha, hq, hv]
        have fa := reserve1_fresh ha
        have fq := reserve1_fresh hq
        have fv := reserve1_fresh hv
        simp only [List.mem_append, List.mem_singleton, not_or] at fq fv
        -- the network the node goes into, and what is known about it
        generalize hn0 : netOrNew (aget (netName net) c.networks) = n0
        have hn0eps : ∀ s ∈ n0.eps, ∃ old, aget (netName net) c.networks = some old ∧ s ∈ old.eps := by
          intro s hs
          cases hg : aget (netName net) c.networks with
          | none => rw [hg] at hn0; subst hn0; simp [netOrNew, eps_new] at hs
          | some n => rw [hg] at hn0; simp only [netOrNew] at hn0; subst hn0; exact ⟨_, rfl, hs⟩
        have hn0nd : n0.eps.Nodup ∧ (keys n0.nodes).Nodup := by
          cases hg : aget (netName net) c.networks with
          | none => rw [hg] at hn0; subst hn0; simp [netOrNew, Net.eps, Net.new, keys]
          | some n =>
            rw [hg] at hn0; simp only [netOrNew] at hn0; subst hn0
            exact ⟨nodup_of_aget (f := Net.eps) hg hc.nodup, hc.keysOk.2 _ (mem_of_aget hg)⟩
        have hused : ∀ s ∈ n0.eps, s ∈ c.used := by
          intro s hs
          obtain ⟨old, ho, hso⟩ := hn0eps s hs
          exact hc.reserved s (mem_fm_of_aget (f := Net.eps) ho hso)
        have hnode : (Node.eps ⟨a, q, v⟩).Nodup := by
          show [a, q, v].Nodup
          refine List.nodup_cons.2 ⟨?_, List.nodup_cons.2 ⟨?_, List.nodup_cons.2 ⟨by simp, List.nodup_nil⟩⟩⟩
          · intro h
            simp only [List.mem_cons, List.not_mem_nil, or_false] at h
            rcases h with h | h
            · exact fq.2 h.symm
            · exact fv.1.2 h.symm
          · intro h
            simp only [List.mem_cons, List.not_mem_nil, or_false] at h
            exact fv.2 h.symm
        have hfreshnode : ∀ s ∈ Node.eps ⟨a, q, v⟩, s ∉ c.used := by
          intro s hs
          simp only [Node.eps, List.mem_cons, List.not_mem_nil, or_false] at hs
          rcases hs with h | h | h <;> subst h
          · exact fa
          · exact fq.1
          · exact fv.1.1
        apply inv_update hc
        · intro s h; simp [h]
        · show (fm Node.eps (aset name ⟨a, q, v⟩ n0.nodes)).Nodup
          refine nodup_fm_aset hn0nd.1 hnode ?_
          intro s hs hs0
          exact absurd (hused s hs0) (hfreshnode s hs)
        · exact keys_aset_nodup hn0nd.2
        · intro s hs
          have hs' : s ∈ fm Node.eps (aset name ⟨a, q, v⟩ n0.nodes) := hs
          rcases mem_fm_aset hs' with h | h
          · exact Or.inl (hn0eps s h)
          · refine Or.inr ⟨fun hce => hfreshnode s h (hc.reserved s hce), ?_⟩
            simp only [Node.eps, List.mem_cons, List.not_mem_nil, or_false] at h
            rcases h with h | h | h <;> simp [h]

theorem inv_removeNode {c : Cfg} (hc : Inv c) (name : Name) (net : Option Name) :
    Inv (removeNode c name net) := by
  unfold removeNode
  cases hg : aget (netName net) c.networks with
  | none => exact hc
  | some n =>
    have hnd := nodup_of_aget (f := Net.eps) hg hc.nodup
    apply inv_update hc
    · intro s h; exact h
    · exact nodup_fm_apop (f := Node.eps) hnd
    · exact keys_apop_nodup (hc.keysOk.2 _ (mem_of_aget hg))
    · intro s hs
      exact Or.inl ⟨n, hg, mem_fm_apop (f := Node.eps) hs⟩

theorem inv_removeNetwork {c : Cfg} (hc : Inv c) (net : Option Name) : Inv (removeNetwork c net) := by
  refine ⟨?_, ?_, ?_, ?_⟩
  · exact nodup_fm_apop (f := Net.eps) hc.nodup
  · intro s hs
    exact hc.reserved s (mem_fm_apop (f := Net.eps) hs)
  · exact keys_apop_nodup hc.keysOk.1
  · intro e he
    exact hc.keysOk.2 e (mem_apop he)

theorem inv_addNodesLoop (osFree : Port → Bool) (net : Name) (topo : Option Topology) (names : List Name)
    {c : Cfg} (hc : Inv c) : Inv (addNodesLoop osFree net topo names c).1 := by
  induction names generalizing c with
  | nil => exact hc
  | cons x xs ih =>
    unfold addNodesLoop
    simp only
    split
    · exact hc
    · rename_i nb _
      have h1 := inv_addNode osFree hc x (some net) Specs.auto nb
      split
      · rename_i c' heq
        rw [heq] at h1
        exact ih h1
      · rename_i c' e _ heq
        rw [heq] at h1
        exact h1

theorem inv_addNetwork (osFree : Port → Bool) {c : Cfg} (hc : Inv c) (names : List Name)
    (net : Option Name) (topo : Option Topology) : Inv (addNetwork osFree c names net topo).1 :=
  inv_addNodesLoop osFree _ topo names (inv_removeNetwork hc net)

theorem inv_foldl_removeNetwork (ks : List Name) {c : Cfg} (hc : Inv c) :
    Inv (ks.foldl (fun c k => removeNetwork c (some k)) c) := by
  induction ks generalizing c with
  | nil => exact hc
  | cons k ks ih => exact ih (inv_removeNetwork hc (some k))

theorem inv_reset (osFree : Port → Bool) {c : Cfg} (hc : Inv c) : Inv (reset osFree c).1 :=
  inv_addNetwork osFree (inv_foldl_removeNetwork _ hc) _ _ _

/-! ### 3. the JSON round trip -/

theorem mapOpt_map {α β : Type} {f : α → β} {g : β → Option α} (h : ∀ a, g (f a) = some a)
    (l : List α) : mapOpt g (l.map f) = some l := by
  induction l with
  | nil => rfl
  | cons a t ih => simp [mapOpt, h, ih]

theorem sockOfJson_toJson (s : Sock) : sockOfJson (sockToJson s) = some s := rfl

theorem nodeOfJson_toJson (n : Node) : nodeOfJson n.toJson = some n := by
  simp [Node.toJson, nodeOfJson, aget, sockOfJson_toJson]

theorem topologyOfJson_toJson (t : Option Topology) : topologyOfJson (topologyToJson t) = some t := by
  cases t with
  | none => rfl
  | some t =>
    simp only [topologyToJson, topologyOfJson]
    rw [mapOpt_map]
    intro e
    have : mapOpt strOfJson (e.2.map Json.str) = some e.2 :=
      mapOpt_map (f := Json.str) (g := strOfJson) (fun _ => rfl) _
    simp [this]

theorem mem_foldl_addUsed_left {s : Sock} (l : List Sock) {u : List Sock} (h : s ∈ u) :
    s ∈ l.foldl addUsed u := by
  induction l generalizing u with
  | nil => exact h
  | cons a t ih =>
    simp only [List.foldl_cons]
    apply ih
    unfold addUsed
    split
    · exact h
    · exact List.mem_append_left _ h

theorem mem_foldl_addUsed_right {s : Sock} {l : List Sock} (u : List Sock) (h : s ∈ l) :
    s ∈ l.foldl addUsed u := by
  induction l generalizing u with
  | nil => simp at h
  | cons a t ih =>
    simp only [List.mem_cons] at h
    rcases h with h | h
    · subst h
      simp only [List.foldl_cons]
      apply mem_foldl_addUsed_left
      unfold addUsed
      split
      · assumption
      · simp
    · exact ih _ h

theorem foldl_addUsed_nodup (l u : List Sock) (h : (u ++ l).Nodup) : l.foldl addUsed u = u ++ l := by
  induction l generalizing u with
  | nil => simp
  | cons a t ih =>
    have ha : a ∉ u := by
      intro hu
      rw [List.nodup_append] at h
      exact h.2.2 a hu a (by simp) rfl
    simp only [List.foldl_cons, addUsed, ha, if_false]
    rw [ih]
    · simp
    · simpa using h

theorem loadNodes_enc (nodes acc : List (Name × Node)) (u : List Sock)
    (hk : (keys (acc ++ nodes)).Nodup) :
    loadNodes (nodes.map fun e => (e.1, e.2.toJson)) acc u
      = some (acc ++ nodes, (fm Node.eps nodes).foldl addUsed u) := by
  induction nodes generalizing acc u with
  | nil => simp [loadNodes, fm]
  | cons e t ih =>
    have hnot : e.1 ∉ keys acc := by
      intro hm
      simp only [keys, List.map_append, List.map_cons] at hk hm
      rw [List.nodup_append] at hk
      exact hk.2.2 _ hm _ (by simp) rfl
    simp only [List.map_cons, loadNodes, nodeOfJson_toJson]
    rw [aset_of_not_mem hnot, ih]
    · simp [fm, Node.eps]
    · simpa using hk

theorem loadNets_enc (nets acc : List (Name × Net)) (u : List Sock)
    (hk : (keys (acc ++ nets)).Nodup) (hn : ∀ e ∈ nets, (keys e.2.nodes).Nodup) :
    loadNets (nets.map fun e => (e.1, e.2.toJson)) ⟨acc, u⟩
      = some ⟨acc ++ nets, (netsEps nets).foldl addUsed u⟩ := by
  induction nets generalizing acc u with
  | nil => simp [loadNets, netsEps]
  | cons e t ih =>
    obtain ⟨k, topo, nodes⟩ := e
    have hnot : k ∉ keys acc := by
      intro hm
      simp only [keys, List.map_append, List.map_cons] at hk hm
      rw [List.nodup_append] at hk
      exact hk.2.2 _ hm _ (by simp) rfl
    have hnodes := loadNodes_enc nodes [] u (by simpa using hn (k, ⟨topo, nodes⟩) (by simp))
    simp only [List.nil_append] at hnodes
    simp only [List.map_cons, loadNets]
    rw [show (Net.toJson ⟨topo, nodes⟩) = Json.obj [("nodes", .obj (nodes.map fun e => (e.1, e.2.toJson))),
      ("topology", topologyToJson topo)] from rfl]
    simp only [aget, if_true, topologyOfJson_toJson, hnodes,
      show ¬ ("nodes" = "topology") by decide, if_false]
    rw [aset_of_not_mem hnot, ih]
    · simp [netsEps, Net.eps, fm, List.foldl_append]
    · simpa using hk
    · intro e' he'
      exact hn e' (List.mem_cons_of_mem _ he')

/-- writing the file and loading it into a fresh constructor gives back the same networks;
`used_sockets` becomes the (duplicate-free) list of endpoints of the file -/
theorem load_toJson (nets : List (Name × Net)) (hk : KeysOk nets) :
    load (toJson nets) = some ⟨nets, (netsEps nets).foldl addUsed []⟩ := by
  have := loadNets_enc nets [] [] (by simpa using hk.1) hk.2
  simpa [load, readFromFile, toJson, Cfg.empty] using this

theorem reload_eq {c : Cfg} (hc : Inv c) : reload c = (⟨c.networks, c.eps⟩, .ok) := by
  unfold reload
  rw [load_toJson _ hc.keysOk, foldl_addUsed_nodup _ _ (by simpa [Cfg.eps] using hc.nodup)]
  simp [Cfg.eps]

theorem inv_reload {c : Cfg} (hc : Inv c) : Inv (reload c).1 := by
  rw [reload_eq hc]
  exact ⟨hc.nodup, fun s h => h, hc.keysOk⟩

/-! loading an arbitrary file: everything but the distinctness of the endpoints comes for free -/

theorem mem_addUsed_self (u : List Sock) (s : Sock) : s ∈ addUsed u s := by
  unfold addUsed
  split
  · assumption
  · simp

theorem mem_addUsed_of_mem {u : List Sock} {x : Sock} (s : Sock) (h : x ∈ u) : x ∈ addUsed u s := by
  unfold addUsed
  split
  · exact h
  · exact List.mem_append_left _ h

theorem loadNodes_inv {l : List (String × Json)} {acc nodes' : List (Name × Node)} {u u' : List Sock}
    (h : loadNodes l acc u = some (nodes', u'))
    (hk : (keys acc).Nodup) (hr : ∀ s ∈ fm Node.eps acc, s ∈ u) :
    (keys nodes').Nodup ∧ (∀ s ∈ fm Node.eps nodes', s ∈ u') ∧ ∀ s ∈ u, s ∈ u' := by
  induction l generalizing acc u with
  | nil =>
    simp only [loadNodes, Option.some.injEq, Prod.mk.injEq] at h
    obtain ⟨h1, h2⟩ := h
    subst h1; subst h2
    exact ⟨hk, hr, fun _ h => h⟩
  | cons e t ih =>
    simp only [loadNodes] at h
    cases hd : nodeOfJson e.2 with
    | none => rw [hd] at h; cases h
    | some nd =>
      rw [hd] at h
      simp only at h
      have hstep : ∀ s ∈ u, s ∈ addUsed (addUsed (addUsed u nd.app) nd.qnodeos) nd.vnode :=
        fun s hs => mem_addUsed_of_mem _ (mem_addUsed_of_mem _ (mem_addUsed_of_mem _ hs))
      obtain ⟨r1, r2, r3⟩ := ih h (keys_aset_nodup hk) (by
        intro s hs
        rcases mem_fm_aset hs with hs | hs
        · exact hstep s (hr s hs)
        · simp only [Node.eps, List.mem_cons, List.not_mem_nil, or_false] at hs
          rcases hs with hs | hs | hs <;> subst hs
          · exact mem_addUsed_of_mem _ (mem_addUsed_of_mem _ (mem_addUsed_self _ _))
          · exact mem_addUsed_of_mem _ (mem_addUsed_self _ _)
          · exact mem_addUsed_self _ _)
      exact ⟨r1, r2, fun s hs => r3 s (hstep s hs)⟩

theorem loadNets_inv {l : List (String × Json)} {c c' : Cfg} (h : loadNets l c = some c')
    (hk : KeysOk c.networks) (hr : ∀ s ∈ c.eps, s ∈ c.used) :
    KeysOk c'.networks ∧ ∀ s ∈ c'.eps, s ∈ c'.used := by
  induction l generalizing c with
  | nil =>
    simp only [loadNets, Option.some.injEq] at h
    subst h
    exact ⟨hk, hr⟩
  | cons e t ih =>
    simp only [loadNets] at h
    split at h
    · split at h
      · split at h
        · rename_i topo nodes used _ hn
          have hnodes := loadNodes_inv hn (by simp [keys]) (by simp [fm])
          apply ih h
          · refine ⟨keys_aset_nodup hk.1, ?_⟩
            intro e' he'
            rcases mem_aset he' with h1 | h1
            · subst h1; exact hnodes.1
            · exact hk.2 e' h1
          · intro s hs
            have hs' : s ∈ fm Net.eps (aset e.1 ⟨topo, nodes⟩ c.networks) := hs
            rcases mem_fm_aset hs' with h1 | h1
            · exact hnodes.2.2 s (hr s h1)
            · exact hnodes.2.1 s h1
        · cases h
      · cases h
    · cases h

/-- a file that loads and whose endpoints are pairwise distinct gives a configuration that
satisfies the whole invariant (keys distinct and all endpoints reserved come for free) -/
theorem inv_of_load {j : Json} {c : Cfg} (h : load j = some c) (hnd : c.eps.Nodup) : Inv c := by
  unfold load readFromFile at h
  split at h
  · have := loadNets_inv h (by simp [KeysOk, Cfg.empty, keys]) (by simp [Cfg.empty, Cfg.eps, netsEps])
    exact ⟨hnd, this.2, this.1⟩
  · cases h

theorem inv_step (osFree : Port → Bool) {c : Cfg} (hc : Inv c) (e : Edit) : Inv (step osFree c e).1 := by
  cases e with
  | addNode name net sp nb => exact inv_addNode osFree hc name net sp nb
  | removeNode name net => exact inv_removeNode hc name net
  | addNetwork names net topo => exact inv_addNetwork osFree hc names net topo
  | removeNetwork net => exact inv_removeNetwork hc net
  | reset => exact inv_reset osFree hc
  | reload => exact inv_reload hc

theorem inv_run {c : Cfg} (hc : Inv c) (es : List ((Port → Bool) × Edit)) : Inv (run c es) := by
  induction es generalizing c with
  | nil => exact hc
  | cons e es ih => exact ih (inv_step e.1 hc e.2)

/-! ### removal -/

theorem removeNode_gone (c : Cfg) (name : Name) (net : Option Name) (n : Net)
    (h : aget (netName net) (removeNode c name net).networks = some n) :
    name ∉ keys n.nodes ∧ ∀ t, n.topology = some t → name ∉ keys t ∧ ∀ e ∈ t, name ∉ e.2 := by
  unfold removeNode at h
  cases hg : aget (netName net) c.networks with
  | none =>
    rw [hg] at h
    simp only at h
    rw [hg] at h
    cases h
  | some n0 =>
    rw [hg] at h
    simp only [aget_aset_self] at h
    injection h with h
    subst h
    refine ⟨not_mem_keys_apop _ _, ?_⟩
    intro t ht
    cases h0 : n0.topology with
    | none => rw [h0] at ht; cases ht
    | some t0 =>
      rw [h0] at ht
      injection ht with ht
      subst ht
      constructor
      · have : keys ((apop name t0).map fun e => (e.1, e.2.filter fun b => decide (¬ b = name)))
            = keys (apop name t0) := by simp [keys, List.map_map, Function.comp_def]
        rw [this]
        exact not_mem_keys_apop _ _
      · intro e he
        simp only [List.mem_map] at he
        obtain ⟨e0, _, rfl⟩ := he
        simp

/-! ### 4. sorting and node ids -/
section Sorting
variable {α : Type}

theorem sort_cons (lt : α → α → Bool) (x : α) (l : List α) :
    sort lt (x :: l) = insertSorted lt x (sort lt l) := rfl

theorem perm_insertSorted (lt : α → α → Bool) (x : α) (l : List α) :
    (insertSorted lt x l).Perm (x :: l) := by
  induction l with
  | nil => exact List.Perm.refl _
  | cons y ys ih =>
    unfold insertSorted
    split
    · exact List.Perm.refl _
    · exact (List.Perm.cons y ih).trans (List.Perm.swap x y ys)

theorem perm_sort (lt : α → α → Bool) (l : List α) : (sort lt l).Perm l := by
  induction l with
  | nil => exact List.Perm.refl _
  | cons x xs ih =>
    rw [sort_cons]
    exact (perm_insertSorted lt x _).trans (List.Perm.cons x ih)

theorem mem_sort {lt : α → α → Bool} {l : List α} {x : α} : x ∈ sort lt l ↔ x ∈ l :=
  (perm_sort lt l).mem_iff

theorem length_sort (lt : α → α → Bool) (l : List α) : (sort lt l).length = l.length :=
  (perm_sort lt l).length_eq

theorem nodup_sort {lt : α → α → Bool} {l : List α} (h : l.Nodup) : (sort lt l).Nodup :=
  (perm_sort lt l).nodup_iff.2 h

/-- `lt` is the strict part of a linear order (`a ≤ b` is `lt b a = false`) -/
structure LinOrd (lt : α → α → Bool) : Prop where
  asymm : ∀ a b, lt a b = true → lt b a = false
  trans_le : ∀ a b c, lt b a = false → lt c b = false → lt c a = false
  antisymm : ∀ a b, lt a b = false → lt b a = false → a = b

/-- non-decreasing -/
def Sorted (lt : α → α → Bool) (l : List α) : Prop := l.Pairwise fun a b => lt b a = false

theorem sorted_insertSorted {lt : α → α → Bool} (h : LinOrd lt) (x : α) (l : List α)
    (hl : Sorted lt l) : Sorted lt (insertSorted lt x l) := by
  induction l with
  | nil => simp [insertSorted, Sorted]
  | cons y ys ih =>
    unfold Sorted at hl ih ⊢
    rw [List.pairwise_cons] at hl
    unfold insertSorted
    split
    · rename_i hxy
      rw [List.pairwise_cons, List.pairwise_cons]
      refine ⟨?_, hl⟩
      intro z hz
      simp only [List.mem_cons] at hz
      rcases hz with hz | hz
      · subst hz; exact h.asymm _ _ hxy
      · exact h.trans_le x y z (h.asymm _ _ hxy) (hl.1 z hz)
    · rename_i hxy
      rw [List.pairwise_cons]
      refine ⟨?_, ih hl.2⟩
      intro z hz
      have hz' := (perm_insertSorted lt x ys).mem_iff.1 hz
      simp only [List.mem_cons] at hz'
      rcases hz' with hz' | hz'
      · subst hz'; simpa using hxy
      · exact hl.1 z hz'

theorem sorted_sort {lt : α → α → Bool} (h : LinOrd lt) (l : List α) : Sorted lt (sort lt l) := by
  induction l with
  | nil => simp [sort, Sorted]
  | cons x xs ih => rw [sort_cons]; exact sorted_insertSorted h x _ ih

theorem sorted_perm_eq {lt : α → α → Bool} (h : LinOrd lt) (l1 l2 : List α)
    (h1 : Sorted lt l1) (h2 : Sorted lt l2) (hp : l1.Perm l2) : l1 = l2 := by
  induction l1 generalizing l2 with
  | nil => exact (List.Perm.nil_eq hp)
  | cons a t1 ih =>
    cases l2 with
    | nil => exact absurd hp.length_eq (by simp)
    | cons b t2 =>
      unfold Sorted at h1 h2
      rw [List.pairwise_cons] at h1 h2
      have hab : a = b := by
        have ha : a ∈ b :: t2 := hp.mem_iff.1 (by simp)
        have hb : b ∈ a :: t1 := hp.mem_iff.2 (by simp)
        simp only [List.mem_cons] at ha hb
        rcases ha with ha | ha
        · exact ha
        · rcases hb with hb | hb
          · exact hb.symm
          · exact h.antisymm a b (h2.1 a ha) (h1.1 b hb)
      subst hab
      rw [ih t2 h1.2 h2.2 hp.cons_inv]

/-- the sorted list depends only on the *set* of names, not on the order in the file -/
theorem sort_eq_of_perm {lt : α → α → Bool} (h : LinOrd lt) {l1 l2 : List α} (hp : l1.Perm l2) :
    sort lt l1 = sort lt l2 :=
  sorted_perm_eq h _ _ (sorted_sort h l1) (sorted_sort h l2)
    (((perm_sort lt l1).trans hp).trans (perm_sort lt l2).symm)

variable [DecidableEq α]

theorem nodeId_lt {lt : α → α → Bool} {ns : List α} {x : α} {i : Nat}
    (h : nodeId lt ns x = some i) : x ∈ ns ∧ i < ns.length := by
  unfold nodeId at h
  split at h
  · rename_i hx
    injection h with h
    subst h
    refine ⟨hx, ?_⟩
    rw [← length_sort lt ns]
    exact List.idxOf_lt_length_of_mem (mem_sort.2 hx)
  · cases h

theorem nodeId_none {lt : α → α → Bool} {ns : List α} {x : α} (h : x ∉ ns) :
    nodeId lt ns x = none := by
  simp [nodeId, h]

theorem nodeName_nodeId (lt : α → α → Bool) (ns : List α) (x : α) (hx : x ∈ ns) :
    ∃ i : Nat, nodeId lt ns x = some i ∧ nodeName lt ns (i : Int) = some x := by
  refine ⟨(sort lt ns).idxOf x, by simp [nodeId, hx], ?_⟩
  have hm : x ∈ sort lt ns := mem_sort.2 hx
  have hlt := List.idxOf_lt_length_of_mem hm
  have hnn : ¬ (((sort lt ns).idxOf x : Nat) : Int) < 0 := by omega
  simp only [nodeName, hnn, if_false, Int.toNat_natCast]
  rw [List.getElem?_eq_getElem hlt, List.getElem_idxOf]

theorem nodeId_nodeName (lt : α → α → Bool) (ns : List α) (hnd : ns.Nodup) (i : Nat)
    (hi : i < ns.length) :
    ∃ x, nodeName lt ns (i : Int) = some x ∧ x ∈ ns ∧ nodeId lt ns x = some i := by
  have hi' : i < (sort lt ns).length := by rw [length_sort]; exact hi
  have hnn : ¬ ((i : Nat) : Int) < 0 := by omega
  refine ⟨(sort lt ns)[i], ?_, ?_, ?_⟩
  · simp only [nodeName, hnn, if_false, Int.toNat_natCast]
    exact List.getElem?_eq_getElem hi'
  · exact mem_sort.1 (List.getElem_mem hi')
  · have hm : (sort lt ns)[i] ∈ ns := mem_sort.1 (List.getElem_mem hi')
    simp only [nodeId, hm, if_true]
    rw [(nodup_sort hnd).idxOf_getElem]

omit [DecidableEq α] in
theorem nodeName_none (lt : α → α → Bool) (ns : List α) (i : Int)
    (hi : i < 0 ∨ (ns.length : Int) ≤ i) : nodeName lt ns i = none := by
  unfold nodeName
  split
  · rfl
  · rw [List.getElem?_eq_none]
    rw [length_sort]
    omega

theorem nodeId_perm {lt : α → α → Bool} (h : LinOrd lt) {ns ns' : List α} (hp : ns.Perm ns')
    (x : α) : nodeId lt ns x = nodeId lt ns' x := by
  unfold nodeId
  rw [sort_eq_of_perm h hp]
  by_cases hx : x ∈ ns
  · simp [hx, hp.mem_iff.1 hx]
  · have : x ∉ ns' := fun h' => hx (hp.mem_iff.2 h')
    simp [hx, this]

omit [DecidableEq α] in
theorem nodeName_perm {lt : α → α → Bool} (h : LinOrd lt) {ns ns' : List α} (hp : ns.Perm ns')
    (i : Int) : nodeName lt ns i = nodeName lt ns' i := by
  unfold nodeName
  rw [sort_eq_of_perm h hp]

end Sorting

theorem strLt_linOrd : LinOrd strLt := by
  refine ⟨?_, ?_, ?_⟩
  · intro a b h
    simp only [strLt, decide_eq_true_eq, decide_eq_false_iff_not] at h ⊢
    exact String.lt_asymm h
  · intro a b c h1 h2
    simp only [strLt, decide_eq_false_iff_not, String.not_lt] at h1 h2 ⊢
    exact String.le_trans h1 h2
  · intro a b h1 h2
    simp only [strLt, decide_eq_false_iff_not, String.not_lt] at h1 h2
    exact String.le_antisymm h2 h1

/-- every participant sees the same names whatever endpoint role it reads -/
theorem keys_hostDict {c : Cfg} {net : Option Name} {r : Role} {hd : List (Name × Sock)}
    (h : hostDict c net r = some hd) :
    ∃ n, aget (netName net) c.networks = some n ∧ keys hd = keys n.nodes := by
  unfold hostDict at h
  cases hg : aget (netName net) c.networks with
  | none => rw [hg] at h; cases h
  | some n =>
    rw [hg] at h
    injection h with h
    subst h
    exact ⟨n, rfl, by simp [keys, List.map_map, Function.comp_def]⟩

end SqVerif.Config

import SqVerif.TwoPLDynDrop
/-!
# From per-transaction pointer discipline to `LegalD` — layer L3, serves C03 (dynamic-guard bridge)

Core Lean only; nothing about skeletons yet (`SkelDynLemmasTrans.lean` translates skeleton paths into the
annotated transactions used here).

An *annotated* action says, for each effect, what the transaction believes about the guards involved:

* `val r l f`        a validated read of the pointer `r`: the comparison `pointer == node` came out true for a node
                     whose lock `l` the transaction holds;
* `use p ds l f`     an effect through the pointer `p` (which it does not change) on data `ds` guarded by `l`, the
                     lock `p` was validated against;
* `rep r lnew f`     a re-pointing write: afterwards `r` is guarded by `lnew`.

`aStep` is the per-transaction discipline (the concrete counterpart of `SkelDyn.dStep`): a validated read needs `l`
held; a use needs `p` validated against `l`, still held; a re-pointing needs `r` validated (the OLD guard is held)
and `lnew` (the NEW guard) held; a release invalidates what was validated against the released lock.

`AAct.Sound` are state-independent facts about the effect functions (locality; a read/use does not move the guard
of its pointer; the data is guarded statically by `l`; a re-pointing stores a node guarded by `lnew`; guards outside
the footprint are left alone).  `Truthful` is the one fact that depends on the schedule: every comparison that the
run took as successful was true of the state in which it was evaluated.

`legalD_of_disciplined`: lock exclusivity + every transaction disciplined + sound + truthful ⟹ `LegalD`.  The
proof carries the invariant "whatever a transaction has validated is still true and its lock is still held" along
the schedule — the generalisation of `TwoPLDyn.validated_pointer_stable` to all transactions at once; that the
validated pointer STAYS valid until the release is therefore derived here, not assumed.
-/
namespace SqVerif.SkelDyn
open SqVerif.TwoPL SqVerif.SkelTwoPL SqVerif.TwoPLDyn

variable {V : Type}

inductive AAct (V : Type) where
  | acq (l : Lock)
  | rel (l : Lock)
  | val (r : Res) (l : Lock) (f : St V → St V)
  | use (p : Res) (ds : List Res) (l : Lock) (f : St V → St V)
  | rep (r : Res) (lnew : Lock) (f : St V → St V)

def AAct.erase : AAct V → Act V
  | .acq l => .acq l
  | .rel l => .rel l
  | .val r _ f => .eff [r] f
  | .use p ds _ f => .eff (p :: ds) f
  | .rep r _ f => .eff [r] f

/-- state-independent facts about the effect of an annotated action -/
def AAct.Sound (guard : DGuard V) : AAct V → Prop
  | .val r _ f => LocalEff [r] f ∧ (∀ σ, guard (f σ) r = guard σ r) ∧ (∀ σ x, x ∉ [r] → guard (f σ) x = guard σ x)
  | .use p ds l f => LocalEff (p :: ds) f ∧ (∀ σ, guard (f σ) p = guard σ p) ∧ (∀ σ d, d ∈ ds → guard σ d = l) ∧
      (∀ σ x, x ∉ p :: ds → guard (f σ) x = guard σ x)
  | .rep r lnew f => LocalEff [r] f ∧ (∀ σ, guard (f σ) r = lnew) ∧ (∀ σ x, x ∉ [r] → guard (f σ) x = guard σ x)
  | _ => True

structure AStep (V : Type) where
  tid : Tid
  act : AAct V

abbrev ASched (V : Type) := List (AStep V)

def eraseS (s : ASched V) : Sched V := s.map (fun x => ⟨x.tid, x.act.erase⟩)

/-- the annotated transaction that `t` runs in the annotated schedule `s` -/
def aacts (t : Tid) (s : ASched V) : List (AAct V) := (s.filter (fun x => x.tid == t)).map (fun x => x.act)

theorem aacts_cons_self (x : AStep V) (xs : ASched V) : aacts x.tid (x :: xs) = x.act :: aacts x.tid xs := by
  simp [aacts]

theorem aacts_cons_ne (t : Tid) (x : AStep V) (xs : ASched V) (h : x.tid ≠ t) : aacts t (x :: xs) = aacts t xs := by
  simp [aacts, h]

theorem acts_eraseS (t : Tid) (s : ASched V) : acts t (eraseS s) = (aacts t s).map AAct.erase := by
  induction s with
  | nil => rfl
  | cons x xs ih =>
    by_cases h : x.tid = t
    · subst h
      have : eraseS (x :: xs) = (⟨x.tid, x.act.erase⟩ : Step V) :: eraseS xs := rfl
      rw [this, acts_cons_self (⟨x.tid, x.act.erase⟩ : Step V), aacts_cons_self, List.map_cons, ih]
    · have : eraseS (x :: xs) = (⟨x.tid, x.act.erase⟩ : Step V) :: eraseS xs := rfl
      rw [this, acts_cons_ne t (⟨x.tid, x.act.erase⟩ : Step V) _ h, aacts_cons_ne t x xs h, ih]

/-- the comparisons that the run took as successful were true of the state in which they were evaluated -/
def Truthful (guard : DGuard V) : St V → ASched V → Prop
  | _, [] => True
  | σ, x :: xs =>
    (match x.act with
      | .val r l _ => guard σ r = l
      | _ => True) ∧ Truthful guard (x.act.erase.run σ) xs

/-! ### the per-transaction discipline -/

structure ASt where
  held : List Lock
  valid : List (Res × Lock)

def aStep (st : ASt) : AAct V → Option ASt
  | .acq l => some { st with held := l :: st.held }
  | .rel l => some { held := st.held.filter (fun l' => l' != l), valid := st.valid.filter (fun p => p.2 != l) }
  | .val r l _ =>
    if l ∈ st.held then some { st with valid := (r, l) :: st.valid.filter (fun p => p.1 != r) } else none
  | .use p _ l _ => if (p, l) ∈ st.valid ∧ l ∈ st.held then some st else none
  | .rep r lnew _ =>
    if st.valid.any (fun p => p.1 == r) = true ∧ lnew ∈ st.held then
      some { st with valid := (r, lnew) :: st.valid.filter (fun p => p.1 != r) }
    else none

def aRun : ASt → List (AAct V) → Option ASt
  | st, [] => some st
  | st, a :: r =>
    match aStep st a with
    | some st' => aRun st' r
    | none => none

/-- the annotated transaction obeys the discipline -/
def ADisc (a : List (AAct V)) : Prop := (aRun ⟨[], []⟩ a).isSome = true

theorem aStep_held (st st' : ASt) (a : AAct V) (h : aStep st a = some st') : st'.held = holdStep st.held a.erase := by
  cases a with
  | acq l => simp only [aStep, Option.some.injEq] at h; subst h; rfl
  | rel l => simp only [aStep, Option.some.injEq] at h; subst h; rfl
  | val r l f =>
    simp only [aStep] at h
    split at h
    · simp only [Option.some.injEq] at h; subst h; rfl
    · cases h
  | use p ds l f =>
    simp only [aStep] at h
    split at h
    · simp only [Option.some.injEq] at h; subst h; rfl
    · cases h
  | rep r lnew f =>
    simp only [aStep] at h
    split at h
    · simp only [Option.some.injEq] at h; subst h; rfl
    · cases h

/-! ### the invariant -/

/-- what the transactions hold by their own account is theirs in the lock table -/
def AI1 (tbl : Tbl) (S : Tid → ASt) : Prop := ∀ t l, l ∈ (S t).held → tbl l = some t

/-- whatever a transaction has validated is true of the current state, and the lock is still held -/
def AI2 (guard : DGuard V) (σ : St V) (S : Tid → ASt) : Prop :=
  ∀ t r l, (r, l) ∈ (S t).valid → guard σ r = l ∧ l ∈ (S t).held

def updS (S : Tid → ASt) (t : Tid) (st : ASt) : Tid → ASt := fun t' => if t' = t then st else S t'

theorem updS_self (S : Tid → ASt) (t : Tid) (st : ASt) : updS S t st t = st := by simp [updS]
theorem updS_ne (S : Tid → ASt) (t t' : Tid) (st : ASt) (h : t' ≠ t) : updS S t st t' = S t' := by simp [updS, h]

theorem ai1_step (tbl tbl' : Tbl) (S : Tid → ASt) (x : AStep V) (st' : ASt)
    (hlk : stepLk tbl (⟨x.tid, x.act.erase⟩ : Step V) = some tbl') (hs : aStep (S x.tid) x.act = some st')
    (hi : AI1 tbl S) : AI1 tbl' (updS S x.tid st') := by
  have hH : HInv tbl (fun t => (S t).held) := hi
  have := hinv_step tbl tbl' (fun t => (S t).held) (⟨x.tid, x.act.erase⟩ : Step V) hlk hH
  intro t l hl
  apply this t l
  unfold updH
  by_cases ht : t = x.tid
  · subst ht
    rw [updS_self] at hl
    simp only [if_true]
    rw [← aStep_held _ _ _ hs]
    exact hl
  · rw [updS_ne _ _ _ _ ht] at hl
    simp only [if_neg ht]
    exact hl

/-- two transactions cannot both have validated the same resource -/
theorem valid_excl (guard : DGuard V) (tbl : Tbl) (σ : St V) (S : Tid → ASt) (h1 : AI1 tbl S) (h2 : AI2 guard σ S)
    (t t' : Tid) (r : Res) (l l' : Lock) (hv : (r, l) ∈ (S t).valid) (hv' : (r, l') ∈ (S t').valid) : t = t' := by
  obtain ⟨hg, hh⟩ := h2 t r l hv
  obtain ⟨hg', hh'⟩ := h2 t' r l' hv'
  have e1 := h1 t l hh
  have e2 := h1 t' l' hh'
  rw [← hg] at e1
  rw [← hg'] at e2
  rw [e1] at e2
  simpa using e2

/-- an effect by `t` whose footprint needs lock `l` for a resource validated by another transaction: impossible -/
theorem not_valid_elsewhere (guard : DGuard V) (tbl : Tbl) (σ : St V) (S : Tid → ASt) (h1 : AI1 tbl S)
    (h2 : AI2 guard σ S) (t t' : Tid) (hne : t' ≠ t) (r : Res) (l' : Lock) (hv' : (r, l') ∈ (S t').valid)
    (hheld : tbl (guard σ r) = some t) : False := by
  obtain ⟨hg', hh'⟩ := h2 t' r l' hv'
  have e2 := h1 t' l' hh'
  rw [← hg', hheld] at e2
  simp only [Option.some.injEq] at e2
  exact hne e2.symm

theorem mem_filter_fst {r r' : Res} {l' : Lock} {v : List (Res × Lock)}
    (h : (r', l') ∈ v.filter (fun p => p.1 != r)) : (r', l') ∈ v ∧ r' ≠ r := by
  obtain ⟨h1, h2⟩ := List.mem_filter.1 h
  exact ⟨h1, by simpa using h2⟩

/-- **discipline ⟹ legality.**  From any lock table and state in which the invariant holds. -/
theorem legalD_of_disciplined_from (guard : DGuard V) (as : ASched V) : ∀ (tbl : Tbl) (σ : St V) (S : Tid → ASt),
    AI1 tbl S → AI2 guard σ S → LockExcl tbl (eraseS as) → (∀ x, x ∈ as → x.act.Sound guard) →
    Truthful guard σ as → (∀ t, (aRun (S t) (aacts t as)).isSome = true) → LegalD guard tbl σ (eraseS as) := by
  induction as with
  | nil => intro _ _ _ _ _ _ _ _ _; trivial
  | cons x xs ih =>
    intro tbl σ S h1 h2 hle hsound htruth hdisc
    have hle' : LockExcl tbl ((⟨x.tid, x.act.erase⟩ : Step V) :: eraseS xs) := hle
    obtain ⟨tbl', hlk, hlerest⟩ := hle'
    have hdx := hdisc x.tid
    rw [aacts_cons_self] at hdx
    simp only [aRun] at hdx
    cases hs : aStep (S x.tid) x.act with
    | none => rw [hs] at hdx; cases hdx
    | some st' =>
      rw [hs] at hdx
      simp only at hdx
      obtain ⟨htx, htrest⟩ := htruth
      have hsx := hsound x (by simp)
      have h1' := ai1_step tbl tbl' S x st' hlk hs h1
      have hdisc' : ∀ t, (aRun (updS S x.tid st' t) (aacts t xs)).isSome = true := by
        intro t
        by_cases ht : t = x.tid
        · subst ht; rw [updS_self]; exact hdx
        · rw [updS_ne _ _ _ _ ht]
          have := hdisc t
          rw [aacts_cons_ne t x xs (fun e => ht e.symm)] at this
          exact this
      have hsound' : ∀ y, y ∈ xs → y.act.Sound guard := fun y hy => hsound y (by simp [hy])
      show ∃ tbl'', stepD guard tbl σ (⟨x.tid, x.act.erase⟩ : Step V) = some tbl'' ∧
        LegalD guard tbl'' ((⟨x.tid, x.act.erase⟩ : Step V).act.run σ) (eraseS xs)
      -- by the kind of action
      cases hxa : x.act with
      | acq l =>
        rw [hxa] at hs hlk hsx htrest
        refine ⟨tbl', ?_, ?_⟩
        · simpa [stepD, stepLk, AAct.erase] using hlk
        · apply ih tbl' σ (updS S x.tid st') h1' ?_ hlerest hsound' htrest hdisc'
          simp only [aStep, Option.some.injEq] at hs
          subst hs
          intro t r l' hv
          by_cases ht : t = x.tid
          · subst ht
            rw [updS_self] at hv ⊢
            obtain ⟨a, b⟩ := h2 _ r l' hv
            exact ⟨a, List.mem_cons_of_mem _ b⟩
          · rw [updS_ne _ _ _ _ ht] at hv ⊢
            exact h2 t r l' hv
      | rel l =>
        rw [hxa] at hs hlk hsx htrest
        refine ⟨tbl', ?_, ?_⟩
        · simpa [stepD, stepLk, AAct.erase] using hlk
        · apply ih tbl' σ (updS S x.tid st') h1' ?_ hlerest hsound' htrest hdisc'
          simp only [aStep, Option.some.injEq] at hs
          subst hs
          intro t r l' hv
          by_cases ht : t = x.tid
          · subst ht
            rw [updS_self] at hv ⊢
            simp only [List.mem_filter, bne_iff_ne, ne_eq] at hv
            obtain ⟨a, b⟩ := h2 _ r l' hv.1
            exact ⟨a, List.mem_filter.2 ⟨b, by simpa using hv.2⟩⟩
          · rw [updS_ne _ _ _ _ ht] at hv ⊢
            exact h2 t r l' hv
      | val r l f =>
        rw [hxa] at hs hlk hsx htrest htx
        simp only at htx
        obtain ⟨_, hkeep, hgf⟩ := hsx
        simp only [aStep] at hs
        split at hs
        · rename_i hheld
          simp only [Option.some.injEq] at hs
          subst hs
          have htl : tbl l = some x.tid := h1 _ _ hheld
          have hlk' : tbl' = tbl := by simpa [stepLk, AAct.erase] using hlk.symm
          subst hlk'
          refine ⟨tbl', ?_, ?_⟩
          · simp only [stepD, AAct.erase, needLocks, List.map_cons, List.map_nil, List.cons_append,
              List.nil_append, List.all_cons, List.all_nil, hkeep, htx, htl, beq_self_eq_true,
              Bool.and_self, if_true]
          · apply ih tbl' (f σ) _ h1' ?_ hlerest hsound' htrest hdisc'
            intro t r' l' hv
            by_cases ht : t = x.tid
            · subst ht
              rw [updS_self] at hv ⊢
              simp only [List.mem_cons, Prod.mk.injEq] at hv
              rcases hv with ⟨rfl, rfl⟩ | hv
              · exact ⟨by rw [hkeep, htx], hheld⟩
              · obtain ⟨hv1, hne⟩ := mem_filter_fst hv
                obtain ⟨a, b⟩ := h2 _ r' l' hv1
                exact ⟨by rw [hgf σ r' (by simpa using hne)]; exact a, b⟩
            · rw [updS_ne _ _ _ _ ht] at hv ⊢
              obtain ⟨a, b⟩ := h2 t r' l' hv
              refine ⟨?_, b⟩
              by_cases hr : r' = r
              · subst hr
                exact (not_valid_elsewhere guard tbl' σ S h1 h2 x.tid t ht r' l' hv (by rw [htx]; exact htl)).elim
              · rw [hgf σ r' (by simpa using hr)]; exact a
        · cases hs
      | use p ds l f =>
        rw [hxa] at hs hlk hsx htrest
        obtain ⟨_, hkeep, hstatic, hgf⟩ := hsx
        simp only [aStep] at hs
        split at hs
        · rename_i hok
          obtain ⟨hvalid, hheld⟩ := hok
          simp only [Option.some.injEq] at hs
          subst hs
          have htl : tbl l = some x.tid := h1 _ _ hheld
          have hgp : guard σ p = l := (h2 _ p l hvalid).1
          have hlk' : tbl' = tbl := by simpa [stepLk, AAct.erase] using hlk.symm
          subst hlk'
          have hneed : ∀ r, r ∈ p :: ds → tbl' (guard σ r) = some x.tid ∧ tbl' (guard (f σ) r) = some x.tid := by
            intro r hr
            rcases List.mem_cons.1 hr with rfl | hr
            · rw [hkeep, hgp]; exact ⟨htl, htl⟩
            · rw [hstatic σ r hr, hstatic (f σ) r hr]; exact ⟨htl, htl⟩
          refine ⟨tbl', ?_, ?_⟩
          · simp only [stepD, AAct.erase]
            rw [if_pos]
            apply List.all_eq_true.2
            intro l0 hl0
            simp only [needLocks, List.mem_append, List.mem_map] at hl0
            rcases hl0 with ⟨r, hr, rfl⟩ | ⟨r, hr, rfl⟩
            · simp [(hneed r hr).1]
            · simp [(hneed r hr).2]
          · apply ih tbl' (f σ) _ h1' ?_ hlerest hsound' htrest hdisc'
            intro t r' l' hv
            by_cases ht : t = x.tid
            · subst ht
              rw [updS_self] at hv ⊢
              obtain ⟨a, b⟩ := h2 _ r' l' hv
              refine ⟨?_, b⟩
              by_cases hr : r' ∈ p :: ds
              · rcases List.mem_cons.1 hr with rfl | hr
                · rw [hkeep]; exact a
                · rw [hstatic (f σ) r' hr, ← hstatic σ r' hr]; exact a
              · rw [hgf σ r' hr]; exact a
            · rw [updS_ne _ _ _ _ ht] at hv ⊢
              obtain ⟨a, b⟩ := h2 t r' l' hv
              refine ⟨?_, b⟩
              by_cases hr : r' ∈ p :: ds
              · exact (not_valid_elsewhere guard tbl' σ S h1 h2 x.tid t ht r' l' hv (hneed r' hr).1).elim
              · rw [hgf σ r' hr]; exact a
        · cases hs
      | rep r lnew f =>
        rw [hxa] at hs hlk hsx htrest
        obtain ⟨_, hnew, hgf⟩ := hsx
        simp only [aStep] at hs
        split at hs
        · rename_i hok
          obtain ⟨hany, hheld⟩ := hok
          simp only [Option.some.injEq] at hs
          subst hs
          obtain ⟨q, hq, hq1⟩ := List.any_eq_true.1 hany
          have hq1' : q.1 = r := by simpa using hq1
          have hvalid : (r, q.2) ∈ (S x.tid).valid := by rw [← hq1']; exact hq
          obtain ⟨hgold, hholdold⟩ := h2 _ r q.2 hvalid
          have htold : tbl (guard σ r) = some x.tid := by rw [hgold]; exact h1 _ _ hholdold
          have htnew : tbl lnew = some x.tid := h1 _ _ hheld
          have hlk' : tbl' = tbl := by simpa [stepLk, AAct.erase] using hlk.symm
          subst hlk'
          refine ⟨tbl', ?_, ?_⟩
          · simp only [stepD, AAct.erase, needLocks, List.map_cons, List.map_nil, List.cons_append,
              List.nil_append, List.all_cons, List.all_nil, hnew, htold, htnew, beq_self_eq_true,
              Bool.and_self, if_true]
          · apply ih tbl' (f σ) _ h1' ?_ hlerest hsound' htrest hdisc'
            intro t r' l' hv
            by_cases ht : t = x.tid
            · subst ht
              rw [updS_self] at hv ⊢
              simp only [List.mem_cons, Prod.mk.injEq] at hv
              rcases hv with ⟨rfl, rfl⟩ | hv
              · exact ⟨hnew σ, hheld⟩
              · obtain ⟨hv1, hne⟩ := mem_filter_fst hv
                obtain ⟨a, b⟩ := h2 _ r' l' hv1
                exact ⟨by rw [hgf σ r' (by simpa using hne)]; exact a, b⟩
            · rw [updS_ne _ _ _ _ ht] at hv ⊢
              obtain ⟨a, b⟩ := h2 t r' l' hv
              refine ⟨?_, b⟩
              by_cases hr : r' = r
              · subst hr
                exact (not_valid_elsewhere guard tbl' σ S h1 h2 x.tid t ht r' l' hv htold).elim
              · rw [hgf σ r' (by simpa using hr)]; exact a
        · cases hs

/-- **discipline ⟹ legality**: a lock-exclusive interleaving of disciplined, sound annotated transactions in
    which every successful comparison was true when evaluated is `LegalD` — from ANY lock table -/
theorem legalD_of_disciplined (guard : DGuard V) (as : ASched V) (tbl : Tbl) (σ : St V)
    (hle : LockExcl tbl (eraseS as)) (hsound : ∀ x, x ∈ as → x.act.Sound guard) (htruth : Truthful guard σ as)
    (hdisc : ∀ t, ADisc (aacts t as)) : LegalD guard tbl σ (eraseS as) :=
  legalD_of_disciplined_from guard as tbl σ (fun _ => ⟨[], []⟩) (fun _ _ h => by cases h) (fun _ _ _ h => by cases h)
    hle hsound htruth hdisc

/-- sound annotated actions erase to well-formed, guard-framed actions -/
theorem sound_wf (guard : DGuard V) (a : AAct V) (h : a.Sound guard) : a.erase.WF ∧ Act.GF guard a.erase := by
  cases a with
  | acq l => exact ⟨trivial, trivial⟩
  | rel l => exact ⟨trivial, trivial⟩
  | val r l f => exact ⟨h.1, h.2.2⟩
  | use p ds l f => exact ⟨h.1, h.2.2.2⟩
  | rep r lnew f => exact ⟨h.1, h.2.2⟩

theorem mem_eraseS (s : ASched V) (y : Step V) (h : y ∈ eraseS s) : ∃ x, x ∈ s ∧ y = ⟨x.tid, x.act.erase⟩ := by
  unfold eraseS at h
  obtain ⟨x, hx, rfl⟩ := List.mem_map.1 h
  exact ⟨x, hx, rfl⟩

theorem allWF_eraseS (guard : DGuard V) (s : ASched V) (h : ∀ x, x ∈ s → x.act.Sound guard) : AllWF (eraseS s) := by
  intro y hy
  obtain ⟨x, hx, rfl⟩ := mem_eraseS s y hy
  exact (sound_wf guard x.act (h x hx)).1

theorem allGF_eraseS (guard : DGuard V) (s : ASched V) (h : ∀ x, x ∈ s → x.act.Sound guard) :
    AllGF guard (eraseS s) := by
  intro y hy
  obtain ⟨x, hx, rfl⟩ := mem_eraseS s y hy
  exact (sound_wf guard x.act (h x hx)).2

end SqVerif.SkelDyn

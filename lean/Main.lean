import SqVerif.Drive
/- `lake env lean --run Main.lean <model>`: one operation per input line, one
   canonical observation per output line. -/
open SqVerif.Drive

def main (args : List String) : IO UInt32 := do
  match args with
  | ["topo"] => loopStateless Topo.handle; return 0
  | _ => IO.eprintln "unknown model"; return 1

import SqVerif.VNetWFMerge
/-
L2 — `remote_merge_from` preserves well-formedness (C02): from the explicit
description `MergeSpec` of the resulting state.
-/
namespace SqVerif.VNet.WFP
open List

/-- hypotheses under which `remote_merge_from` is called by `_two_qubit_gate` -/
structure MergeCtx (E : Option (Nat × Nat)) (s : Net) (dst src : Nat) (sn dn : Node) (oldR locR : Reg)
    (s' : Net) : Prop where
  w : WFp E s
  hE : E = none ∨ E = some (dst, locR.num)
  hsd : src ≠ dst
  hsn : s.nodes[src]? = some sn
  hdn : s.nodes[dst]? = some dn
  hor : oldR ∈ sn.regs
  hlr : locR ∈ dn.regs
  hne : oldR.toks ≠ []
  sp : MergeSpec s dst src sn dn oldR locR s'

namespace MergeCtx
variable {E : Option (Nat × Nat)} {s : Net} {dst src : Nat} {sn dn : Node} {oldR locR : Reg} {s' : Net}

theorem wsn (c : MergeCtx E s dst src sn dn oldR locR s') : NodeP E s src sn := c.w.nodes _ _ c.hsn
theorem wdn (c : MergeCtx E s dst src sn dn oldR locR s') : NodeP E s dst dn := c.w.nodes _ _ c.hdn

/-- a held handle's simulated qubit: where it lives -/
theorem held_sim (c : MergeCtx E s dst src sn dn oldR locR s') {h : Nat} {vq : VQ} (hh : h ∈ allHeld s)
    (e : s.vqs[h]? = some vq) : ∃ m sq, s.nodes[vq.simNode]? = some m ∧ vq.simObj ∈ m.sim ∧
      s.sqs[vq.simObj]? = some sq ∧ sq.node = vq.simNode ∧ ∃ r, r ∈ m.regs ∧ r.num = sq.reg := by
  obtain ⟨i, n, en, hm⟩ := mem_allHeld.1 hh
  obtain ⟨vq', f1, _, _, m, f4, f5⟩ := (c.w.nodes i n en).virtOK h hm
  rw [e] at f1; cases f1
  obtain ⟨sq, g1, g2, _, g4⟩ := (c.w.nodes _ m f4).simOK _ f5
  exact ⟨m, sq, f4, f5, g1, g2, g4⟩

theorem vq_cases (c : MergeCtx E s dst src sn dn oldR locR s') {h : Nat} {vq : VQ} (e : s.vqs[h]? = some vq) :
    (∃ old, h ∈ allHeld s ∧ vq.simNode = src ∧ s.sqs[vq.simObj]? = some old ∧ old.reg = oldR.num ∧
        old.pos < oldR.toks.length ∧ vq.simObj ∈ sn.sim ∧
        s'.vqs[h]? = some { vq with simNode := dst, simObj := s.sqs.length + old.pos }) ∨
    ((h ∉ allHeld s ∨ vq.simNode ≠ src ∨ ∀ old, s.sqs[vq.simObj]? = some old → old.reg ≠ oldR.num) ∧
        s'.vqs[h]? = some vq) := by
  by_cases h1 : h ∈ allHeld s
  · by_cases h2 : vq.simNode = src
    · obtain ⟨m, sq, f1, f2, f3, _, _⟩ := c.held_sim h1 e
      rw [h2, c.hsn] at f1; cases f1
      by_cases h3 : sq.reg = oldR.num
      · exact Or.inl ⟨sq, h1, h2, f3, h3, c.wsn.posLt _ sq oldR f2 f3 c.hor h3.symm, f2,
          c.sp.vqMoved h vq sq h1 e h2 f3 h3⟩
      · have : ∀ old, s.sqs[vq.simObj]? = some old → old.reg ≠ oldR.num := by
          intro old eo; rw [f3] at eo; cases eo; exact h3
        exact Or.inr ⟨Or.inr (Or.inr this), c.sp.vqSame h vq e (Or.inr (Or.inr this))⟩
    · exact Or.inr ⟨Or.inr (Or.inl h2), c.sp.vqSame h vq e (Or.inr (Or.inl h2))⟩
  · exact Or.inr ⟨Or.inl h1, c.sp.vqSame h vq e (Or.inl h1)⟩

theorem vq_inv (c : MergeCtx E s dst src sn dn oldR locR s') {h : Nat} {vq' : VQ} (e : s'.vqs[h]? = some vq') :
    ∃ vq, s.vqs[h]? = some vq := by
  have := lt_length_of_getElem? e
  rw [c.sp.vqLen] at this
  exact ⟨s.vqs[h], getElem?_eq_getElem this⟩

theorem virt_same (c : MergeCtx E s dst src sn dn oldR locR s') (i : Nat) :
    (s'.nodes[i]?).map (·.virt) = (s.nodes[i]?).map (·.virt) := by
  rw [c.sp.nodes]
  by_cases h1 : i = src
  · subst h1; simp [c.hsn, mfSrc, Node.delReg]
  · by_cases h2 : i = dst
    · subst h2; simp [h1, c.hdn, mfDst, Node.modReg]
    · simp [h1, h2]

theorem held_iff (c : MergeCtx E s dst src sn dn oldR locR s') (h : Nat) : h ∈ allHeld s' ↔ h ∈ allHeld s :=
  mem_allHeld_congr c.virt_same h

theorem mem_newD {B K o : Nat} : o ∈ List.range' B K ↔ ∃ j, j < K ∧ o = B + j := by
  rw [mem_range'_1]
  constructor
  · intro ⟨h1, h2⟩; exact ⟨o - B, by omega, by omega⟩
  · rintro ⟨j, h1, rfl⟩; omega

theorem src' (c : MergeCtx E s dst src sn dn oldR locR s') : s'.nodes[src]? = some (mfSrc s sn oldR.num) := by
  rw [c.sp.nodes, if_pos rfl]

theorem dst' (c : MergeCtx E s dst src sn dn oldR locR s') :
    s'.nodes[dst]? = some (mfDst dn locR.num oldR (List.range' s.sqs.length oldR.toks.length)) := by
  rw [c.sp.nodes, if_neg (Ne.symm c.hsd), if_pos rfl]

theorem other' (c : MergeCtx E s dst src sn dn oldR locR s') {i : Nat} (h1 : i ≠ src) (h2 : i ≠ dst) :
    s'.nodes[i]? = s.nodes[i]? := by
  rw [c.sp.nodes, if_neg h1, if_neg h2]

/-- the handle part of every node -/
theorem virtP (c : MergeCtx E s dst src sn dn oldR locR s') {i : Nat} {m m' : Node}
    (hm : s.nodes[i]? = some m) (hm' : s'.nodes[i]? = some m') : VirtP s' i m' := by
  have hv : m'.virt = m.virt := by
    have := c.virt_same i; rw [hm, hm'] at this; simpa using this
  have hmq : m'.maxQubits = m.maxQubits := by
    have := c.sp.nodes i; rw [hm'] at this
    by_cases h1 : i = src
    · subst h1; rw [if_pos rfl] at this; cases this
      rw [c.hsn] at hm; cases hm; rfl
    · by_cases h2 : i = dst
      · subst h2; rw [if_neg h1, if_pos rfl] at this; cases this
        rw [c.hdn] at hm; cases hm; rfl
      · rw [if_neg h1, if_neg h2, hm] at this; cases this; rfl
  have wm := (c.w.nodes i m hm).virtP
  refine { virtNodup := hv ▸ wm.virtNodup, cap := by rw [hv, hmq]; exact wm.cap, virtNumsInj := ?_, virtOK := ?_ }
  · rw [hv]
    intro h h' vq vq' hh hh' e e' en
    obtain ⟨v, ev⟩ := c.vq_inv e
    obtain ⟨v', ev'⟩ := c.vq_inv e'
    have n1 : vq.num = v.num := by
      rcases c.vq_cases ev with ⟨_, _, _, _, _, _, _, f⟩ | ⟨_, f⟩ <;> (rw [e] at f; cases f; rfl)
    have n2 : vq'.num = v'.num := by
      rcases c.vq_cases ev' with ⟨_, _, _, _, _, _, _, f⟩ | ⟨_, f⟩ <;> (rw [e'] at f; cases f; rfl)
    exact wm.virtNumsInj h h' v v' hh hh' ev ev' (by rw [← n1, ← n2]; exact en)
  · rw [hv]
    intro h hh
    obtain ⟨vq, e1, e2, e3, m0, e4, e5⟩ := wm.virtOK h hh
    rcases c.vq_cases e1 with ⟨old, _, g2, g3, g4, g5, g6, f⟩ | ⟨hc, f⟩
    · refine ⟨_, f, e2, e3, _, c.dst', ?_⟩
      simp only [mfDst, mem_append]
      exact Or.inr (mem_newD.2 ⟨old.pos, g5, rfl⟩)
    · refine ⟨vq, f, e2, e3, ?_⟩
      rw [c.sp.nodes]
      by_cases h1 : vq.simNode = src
      · rw [if_pos h1]
        refine ⟨_, rfl, ?_⟩
        rw [h1, c.hsn] at e4; cases e4
        obtain ⟨sq, k1, _⟩ := c.wsn.simOK _ e5
        have hheld : h ∈ allHeld s := mem_allHeld.2 ⟨i, m, hm, hh⟩
        have hr : sq.reg ≠ oldR.num := by
          rcases hc with hc | hc | hc
          · exact absurd hheld hc
          · exact absurd h1 hc
          · exact hc sq k1
        simp only [mfSrc, Node.delReg, mem_filter, e5, k1, true_and]
        simpa using hr
      · rw [if_neg h1]
        by_cases h2 : vq.simNode = dst
        · rw [if_pos h2]
          rw [h2, c.hdn] at e4; cases e4
          exact ⟨_, rfl, by simp only [mfDst, mem_append]; exact Or.inl e5⟩
        · rw [if_neg h2]; exact ⟨m0, e4, e5⟩


theorem mem_mfSrc_sim (_c : MergeCtx E s dst src sn dn oldR locR s') {o : Nat} :
    o ∈ (mfSrc s sn oldR.num).sim ↔ o ∈ sn.sim ∧ ∀ q, s.sqs[o]? = some q → q.reg ≠ oldR.num := by
  simp only [mfSrc, Node.delReg, mem_filter]
  constructor
  · rintro ⟨h1, h2⟩
    refine ⟨h1, fun q hq => ?_⟩
    rw [hq] at h2; simpa using h2
  · rintro ⟨h1, h2⟩
    refine ⟨h1, ?_⟩
    cases hq : s.sqs[o]? with
    | none => rfl
    | some q => simpa using h2 q hq

theorem mem_mfSrc_regs {r : Reg} :
    r ∈ (mfSrc s sn oldR.num).regs ↔ r ∈ sn.regs ∧ r.num ≠ oldR.num := by
  simp [mfSrc, Node.delReg]

theorem E_not_src (c : MergeCtx E s dst src sn dn oldR locR s') {k : Nat} : E ≠ some (src, k) := by
  rcases c.hE with h | h <;> rw [h]
  · simp
  · intro e; cases e; exact c.hsd rfl

theorem simP_src (c : MergeCtx E s dst src sn dn oldR locR s') : SimP none s' src (mfSrc s sn oldR.num) := by
  have wn := c.wsn
  have hsq : ∀ o, o ∈ sn.sim → s'.sqs[o]? = s.sqs[o]? := fun o ho => c.sp.sqOld o (wn.sim_lt ho)
  refine { simNodup := ?_, simNumsInj := ?_, numRegs := ?_, regNumsNodup := ?_, regNumsFresh := ?_,
           regsNonEmpty := ?_, regsWithinMax := ?_, simOK := ?_, posInj := ?_, posLt := ?_, posSurj := ?_ }
  · exact wn.simNodup.sublist filter_sublist
  · intro o o' q q' ho ho' e e'
    have h1 := (c.mem_mfSrc_sim.1 ho).1
    have h2 := (c.mem_mfSrc_sim.1 ho').1
    rw [hsq o h1] at e; rw [hsq o' h2] at e'
    exact wn.simNumsInj o o' q q' h1 h2 e e'
  · obtain ⟨l1, l2, e, g1, g2⟩ := split_reg wn.regNumsNodup c.hor
    simp only [mfSrc, Node.delReg]
    rw [e, filter_split g1 g2, wn.numRegs, e]
    simp
  · exact wn.regNumsNodup.sublist (Sublist.map _ filter_sublist)
  · intro r hr; exact wn.regNumsFresh r (mem_mfSrc_regs.1 hr).1
  · intro r hr he
    exact absurd (wn.regsNonEmpty r (mem_mfSrc_regs.1 hr).1 he) c.E_not_src
  · intro r hr; exact wn.regsWithinMax r (mem_mfSrc_regs.1 hr).1
  · intro o ho
    obtain ⟨h1, h2⟩ := c.mem_mfSrc_sim.1 ho
    obtain ⟨sq, e1, e2, e3, r, e4, e5⟩ := wn.simOK o h1
    exact ⟨sq, (hsq o h1).trans e1, e2, e3, r, mem_mfSrc_regs.2 ⟨e4, by rw [e5]; exact h2 sq e1⟩, e5⟩
  · intro o o' q q' ho ho' e e'
    have h1 := (c.mem_mfSrc_sim.1 ho).1
    have h2 := (c.mem_mfSrc_sim.1 ho').1
    rw [hsq o h1] at e; rw [hsq o' h2] at e'
    exact wn.posInj o o' q q' h1 h2 e e'
  · intro o q r ho e hr
    have h1 := (c.mem_mfSrc_sim.1 ho).1
    rw [hsq o h1] at e
    exact wn.posLt o q r h1 e (mem_mfSrc_regs.1 hr).1
  · intro r p hr hp
    obtain ⟨hr1, hr2⟩ := mem_mfSrc_regs.1 hr
    obtain ⟨o, q, e1, e2, e3, e4⟩ := wn.posSurj r p hr1 hp
    refine ⟨o, q, c.mem_mfSrc_sim.2 ⟨e1, ?_⟩, (hsq o e1).trans e2, e3, e4⟩
    intro q' hq'; rw [e2] at hq'; cases hq'; rw [e3]; exact hr2


/-- the absorbing register after `remote_merge_from` -/
def absorbed (locR oldR : Reg) : Reg :=
  { locR with max := locR.max + oldR.toks.length, toks := locR.toks ++ oldR.toks }

theorem mfDst_regs (c : MergeCtx E s dst src sn dn oldR locR s') (nd : List Nat) :
    ∃ l1 l2, dn.regs = l1 ++ locR :: l2 ∧ (∀ x, x ∈ l1 → x.num ≠ locR.num) ∧ (∀ x, x ∈ l2 → x.num ≠ locR.num) ∧
      (mfDst dn locR.num oldR nd).regs = l1 ++ absorbed locR oldR :: l2 := by
  obtain ⟨l1, l2, e, g1, g2⟩ := split_reg c.wdn.regNumsNodup c.hlr
  refine ⟨l1, l2, e, g1, g2, ?_⟩
  simp only [mfDst, Node.modReg]
  rw [e, map_split g1 g2]; rfl

theorem mem_mfDst_regs (c : MergeCtx E s dst src sn dn oldR locR s') {nd : List Nat} {r : Reg} :
    r ∈ (mfDst dn locR.num oldR nd).regs ↔ (r ∈ dn.regs ∧ r.num ≠ locR.num) ∨ r = absorbed locR oldR := by
  obtain ⟨l1, l2, e, g1, g2, e'⟩ := c.mfDst_regs nd
  rw [e', e]
  simp only [mem_append, mem_cons]
  constructor
  · rintro (h | h | h)
    · exact Or.inl ⟨Or.inl h, g1 r h⟩
    · exact Or.inr h
    · exact Or.inl ⟨Or.inr (Or.inr h), g2 r h⟩
  · rintro (⟨h | h | h, hn⟩ | h)
    · exact Or.inl h
    · subst h; exact absurd rfl hn
    · exact Or.inr (Or.inr h)
    · exact Or.inr (Or.inl h)

theorem simP_dst (c : MergeCtx E s dst src sn dn oldR locR s') :
    SimP none s' dst (mfDst dn locR.num oldR (List.range' s.sqs.length oldR.toks.length)) := by
  have wn := c.wdn
  have hsq : ∀ o, o ∈ dn.sim → s'.sqs[o]? = s.sqs[o]? := fun o ho => c.sp.sqOld o (wn.sim_lt ho)
  have hsim : (mfDst dn locR.num oldR (List.range' s.sqs.length oldR.toks.length)).sim
      = dn.sim ++ List.range' s.sqs.length oldR.toks.length := rfl
  have hregs := @mem_mfDst_regs _ _ _ _ _ _ _ _ _ c (List.range' s.sqs.length oldR.toks.length)
  obtain ⟨l1, l2, e, g1, g2, e'⟩ := c.mfDst_regs (List.range' s.sqs.length oldR.toks.length)
  have hat : (absorbed locR oldR).toks = locR.toks ++ oldR.toks := rfl
  have han : (absorbed locR oldR).num = locR.num := rfl
  have ham : (absorbed locR oldR).max = locR.max + oldR.toks.length := rfl
  -- the simulated qubits of the destination node, old and new
  have hcase : ∀ o, o ∈ dn.sim ++ List.range' s.sqs.length oldR.toks.length → ∀ q, s'.sqs[o]? = some q →
      (o ∈ dn.sim ∧ s.sqs[o]? = some q) ∨
      (∃ j, j < oldR.toks.length ∧ o = s.sqs.length + j ∧ q.node = dst ∧ q.reg = locR.num ∧
        q.pos = locR.toks.length + j ∧ q.active = true) := by
    intro o ho q hq
    rcases mem_append.1 ho with h | h
    · exact Or.inl ⟨h, (hsq o h).symm.trans hq⟩
    · obtain ⟨j, hj, rfl⟩ := mem_newD.1 h
      obtain ⟨q', f1, f2, f3, f4, f5⟩ := c.sp.sqNew j hj
      rw [hq] at f1; cases f1
      exact Or.inr ⟨j, hj, rfl, f2, f3, f4, f5⟩
  refine { simNodup := ?_, simNumsInj := ?_, numRegs := ?_, regNumsNodup := ?_, regNumsFresh := ?_,
           regsNonEmpty := ?_, regsWithinMax := ?_, simOK := ?_, posInj := ?_, posLt := ?_, posSurj := ?_ }
  · rw [hsim, nodup_append]
    refine ⟨wn.simNodup, nodup_range', ?_⟩
    intro a ha b hb hab
    subst hab
    have := wn.sim_lt ha
    rw [mem_range'_1] at hb; omega
  · rw [hsim]; exact c.sp.simNums
  · rw [e', show (mfDst dn locR.num oldR (List.range' s.sqs.length oldR.toks.length)).numRegs = dn.numRegs from rfl,
      wn.numRegs, e]; simp
  · rw [e']
    have := wn.regNumsNodup
    rw [e] at this
    simpa [han] using this
  · intro r hr
    rcases hregs.1 hr with ⟨h, _⟩ | rfl
    · exact wn.regNumsFresh r h
    · exact wn.regNumsFresh locR c.hlr
  · intro r hr he
    exfalso
    rcases hregs.1 hr with ⟨h, hn⟩ | rfl
    · have := wn.regsNonEmpty r h he
      rcases c.hE with h' | h' <;> rw [h'] at this
      · cases this
      · simp only [Option.some.injEq, Prod.mk.injEq, true_and] at this
        exact hn this.symm
    · rw [hat] at he
      exact c.hne (append_eq_nil_iff.1 he).2
  · intro r hr
    rcases hregs.1 hr with ⟨h, _⟩ | rfl
    · exact wn.regsWithinMax r h
    · rw [hat, ham, length_append]
      have := wn.regsWithinMax _ c.hlr; omega
  · rw [hsim]
    intro o ho
    rcases mem_append.1 ho with h | h
    · obtain ⟨sq, e1, e2, e3, r, e4, e5⟩ := wn.simOK o h
      refine ⟨sq, (hsq o h).trans e1, e2, e3, ?_⟩
      by_cases hr : r.num = locR.num
      · exact ⟨_, hregs.2 (Or.inr rfl), by rw [han, ← hr, e5]⟩
      · exact ⟨r, hregs.2 (Or.inl ⟨e4, hr⟩), e5⟩
    · obtain ⟨j, hj, rfl⟩ := mem_newD.1 h
      obtain ⟨q', f1, f2, f3, f4, f5⟩ := c.sp.sqNew j hj
      exact ⟨q', f1, f2, f5, _, hregs.2 (Or.inr rfl), by rw [han, f3]⟩
  · rw [hsim]
    intro o o' q q' ho ho' e1 e2 er ep
    rcases hcase o ho q e1 with ⟨h1, f1⟩ | ⟨j, hj, rfl, _, k2, k3, _⟩ <;>
    rcases hcase o' ho' q' e2 with ⟨h1', f1'⟩ | ⟨j', hj', rfl, _, k2', k3', _⟩
    · exact wn.posInj o o' q q' h1 h1' f1 f1' er ep
    · have := wn.posLt o q locR h1 f1 c.hlr (by rw [er, k2'])
      omega
    · have := wn.posLt o' q' locR h1' f1' c.hlr (by rw [← er, k2])
      omega
    · omega
  · rw [hsim]
    intro o q r ho e1 hr hrn
    rcases hcase o ho q e1 with ⟨h1, f1⟩ | ⟨j, hj, rfl, _, k2, k3, _⟩
    · rcases hregs.1 hr with ⟨h, _⟩ | rfl
      · exact wn.posLt o q r h1 f1 h hrn
      · have := wn.posLt o q locR h1 f1 c.hlr (by rw [← hrn, han])
        rw [hat, length_append]; omega
    · rcases hregs.1 hr with ⟨h, hn⟩ | rfl
      · exact absurd (hrn.trans k2) hn
      · rw [hat, length_append]; omega
  · rw [hsim]
    intro r p hr hp
    rcases hregs.1 hr with ⟨h, hn⟩ | rfl
    · obtain ⟨o, q, f1, f2, f3, f4⟩ := wn.posSurj r p h hp
      exact ⟨o, q, mem_append_left _ f1, (hsq o f1).trans f2, f3, f4⟩
    · rw [hat, length_append] at hp
      by_cases hlt : p < locR.toks.length
      · obtain ⟨o, q, f1, f2, f3, f4⟩ := wn.posSurj locR p c.hlr hlt
        exact ⟨o, q, mem_append_left _ f1, (hsq o f1).trans f2, by rw [han, f3], f4⟩
      · obtain ⟨q', f1, f2, f3, f4, f5⟩ := c.sp.sqNew (p - locR.toks.length) (by omega)
        exact ⟨_, q', mem_append_right _ (mem_newD.2 ⟨_, by omega, rfl⟩), f1, by rw [han, f3], by omega⟩


theorem nodeP' (c : MergeCtx E s dst src sn dn oldR locR s') {i : Nat} {m' : Node}
    (hm' : s'.nodes[i]? = some m') : NodeP none s' i m' := by
  by_cases h1 : i = src
  · subst h1
    have e := c.src'; rw [hm'] at e; cases e
    exact NodeP.ofParts (c.virtP c.hsn hm') c.simP_src
  · by_cases h2 : i = dst
    · subst h2
      have e := c.dst'; rw [hm'] at e; cases e
      exact NodeP.ofParts (c.virtP c.hdn hm') c.simP_dst
    · have e := c.other' h1 h2
      rw [hm'] at e
      have wm := c.w.nodes i m' e.symm
      refine NodeP.ofParts (c.virtP e.symm hm') ?_
      have : SimP E s' i m' := wm.simP.frame (fun o ho => c.sp.sqOld o (wm.sim_lt ho))
      apply this.mono
      intro r _ _ hE
      rcases c.hE with h | h <;> rw [h] at hE
      · cases hE
      · simp only [Option.some.injEq, Prod.mk.injEq] at hE
        exact absurd hE.1.symm h2

theorem sim_src (c : MergeCtx E s dst src sn dn oldR locR s') {h : Nat} {vq : VQ} {i : Nat} {m : Node}
    (hh : h ∈ allHeld s) (e : s.vqs[h]? = some vq) (hm : s.nodes[i]? = some m) (ho : vq.simObj ∈ m.sim) :
    vq.simNode = i := by
  obtain ⟨m0, _, f1, f2, _⟩ := c.held_sim hh e
  exact c.w.sim_disjoint f1 hm f2 ho

theorem mem_allSim' (c : MergeCtx E s dst src sn dn oldR locR s') {o : Nat} :
    o ∈ allSim s' ↔ (o ∈ (mfSrc s sn oldR.num).sim) ∨ (o ∈ dn.sim) ∨
      (o ∈ List.range' s.sqs.length oldR.toks.length) ∨
      (∃ i m, i ≠ src ∧ i ≠ dst ∧ s.nodes[i]? = some m ∧ o ∈ m.sim) := by
  rw [mem_allSim]
  constructor
  · rintro ⟨i, m, e, ho⟩
    by_cases h1 : i = src
    · subst h1; rw [c.src'] at e; cases e; exact Or.inl ho
    · by_cases h2 : i = dst
      · subst h2; rw [c.dst'] at e; cases e
        rcases mem_append.1 ho with h | h
        · exact Or.inr (Or.inl h)
        · exact Or.inr (Or.inr (Or.inl h))
      · rw [c.other' h1 h2] at e
        exact Or.inr (Or.inr (Or.inr ⟨i, m, h1, h2, e, ho⟩))
  · rintro (h | h | h | ⟨i, m, h1, h2, e, ho⟩)
    · exact ⟨src, _, c.src', h⟩
    · exact ⟨dst, _, c.dst', mem_append_left _ h⟩
    · exact ⟨dst, _, c.dst', mem_append_right _ h⟩
    · exact ⟨i, m, (c.other' h1 h2).trans e, ho⟩

theorem nodes_eq (c : MergeCtx E s dst src sn dn oldR locR s') :
    s'.nodes = (s.nodes.set src (mfSrc s sn oldR.num)).set dst
      (mfDst dn locR.num oldR (List.range' s.sqs.length oldR.toks.length)) := by
  apply ext_getElem?
  intro i
  rw [c.sp.nodes, getElem?_set, getElem?_set]
  have l1 := lt_length_of_getElem? c.hsn
  have l2 := lt_length_of_getElem? c.hdn
  by_cases h2 : i = dst
  · subst h2
    by_cases h1 : i = src
    · exact absurd h1.symm c.hsd
    · simp [h1, l2]
  · have : ¬ dst = i := fun e => h2 e.symm
    simp only [this, if_false, h2]
    by_cases h1 : i = src
    · subst h1; simp [l1]
    · have : ¬ src = i := fun e => h1 e.symm
      simp [h1, this]

theorem toks_perm (c : MergeCtx E s dst src sn dn oldR locR s') : (allToks s').Perm (allToks s) := by
  rw [allToks_eq, allToks_eq, c.nodes_eq]
  have h1 : ((s.nodes.set src (mfSrc s sn oldR.num)).flatMap nodeToks ++ oldR.toks).Perm
      (s.nodes.flatMap nodeToks ++ []) := by
    apply perm_flatMap_set c.hsn
    rw [append_nil]
    obtain ⟨l1, l2, e, g1, g2⟩ := split_reg c.wsn.regNumsNodup c.hor
    simp only [nodeToks, mfSrc, Node.delReg]
    rw [e, filter_split g1 g2]
    simp only [flatMap_append, flatMap_cons, append_assoc]
    apply Perm.append_left
    exact perm_append_comm
  have hd : (s.nodes.set src (mfSrc s sn oldR.num))[dst]? = some dn := by
    rw [getElem?_set]; simp [c.hsd, c.hdn]
  have h2 := @perm_flatMap_set _ _ nodeToks dn
      (mfDst dn locR.num oldR (List.range' s.sqs.length oldR.toks.length)) oldR.toks [] _ dst hd (by
    rw [append_nil]
    obtain ⟨l1, l2, e, g1, g2, e'⟩ := c.mfDst_regs (List.range' s.sqs.length oldR.toks.length)
    simp only [nodeToks]
    rw [e', e]
    simp only [flatMap_append, flatMap_cons, append_assoc, absorbed]
    apply Perm.append_left
    apply Perm.append_left
    exact perm_append_comm)
  rw [append_nil] at h1 h2
  exact h2.trans h1

theorem wfp' (c : MergeCtx E s dst src sn dn oldR locR s') : WFp none s' := by
  refine { nodes := fun i m hm => c.nodeP' hm, backInj := ?_, backSurj := ?_, staleInactive := ?_,
           toksNodup := c.toks_perm.nodup_iff.2 c.w.toksNodup,
           toksFresh := ?_ }
  · intro h h' vq vq' hh hh' e e' eo
    rw [c.held_iff] at hh hh'
    obtain ⟨v, ev⟩ := c.vq_inv e
    obtain ⟨v', ev'⟩ := c.vq_inv e'
    have hl := c.w.sim_lt (c.w.held_simObj hh ev)
    have hl' := c.w.sim_lt (c.w.held_simObj hh' ev')
    rcases c.vq_cases ev with ⟨old, _, g2, g3, g4, g5, g6, f⟩ | ⟨_, f⟩ <;>
    rcases c.vq_cases ev' with ⟨old', _, g2', g3', g4', g5', g6', f'⟩ | ⟨_, f'⟩ <;>
    rw [e] at f <;> rw [e'] at f' <;> cases f <;> cases f' <;> (try simp only at eo)
    · have : v.simObj = v'.simObj :=
        c.wsn.posInj _ _ old old' g6 g6' g3 g3' (g4.trans g4'.symm) (by omega)
      exact c.w.backInj h h' v v' hh hh' ev ev' this
    · omega
    · omega
    · exact c.w.backInj h h' _ _ hh hh' ev ev' eo
  · intro o ho
    rcases c.mem_allSim'.1 ho with h | h | h | ⟨i, m, h1, h2, em, hm⟩
    · obtain ⟨k1, k2⟩ := c.mem_mfSrc_sim.1 h
      obtain ⟨hd, vq, f1, f2, f3⟩ := c.w.backSurj o (mem_allSim.2 ⟨src, sn, c.hsn, k1⟩)
      refine ⟨hd, vq, (c.held_iff hd).2 f1, ?_, f3⟩
      apply c.sp.vqSame hd vq f2
      exact Or.inr (Or.inr (fun old eo => k2 old (f3 ▸ eo)))
    · obtain ⟨hd, vq, f1, f2, f3⟩ := c.w.backSurj o (mem_allSim.2 ⟨dst, dn, c.hdn, h⟩)
      refine ⟨hd, vq, (c.held_iff hd).2 f1, ?_, f3⟩
      apply c.sp.vqSame hd vq f2
      have := c.sim_src f1 f2 c.hdn (f3 ▸ h)
      exact Or.inr (Or.inl (by rw [this]; exact Ne.symm c.hsd))
    · obtain ⟨j, hj, rfl⟩ := mem_newD.1 h
      obtain ⟨o0, q0, k1, k2, k3, k4⟩ := c.wsn.posSurj oldR j c.hor hj
      obtain ⟨hd, vq, f1, f2, f3⟩ := c.w.backSurj o0 (mem_allSim.2 ⟨src, sn, c.hsn, k1⟩)
      have hs := c.sim_src f1 f2 c.hsn (f3 ▸ k1)
      refine ⟨hd, _, (c.held_iff hd).2 f1, c.sp.vqMoved hd vq q0 f1 f2 hs (f3 ▸ k2) k3, ?_⟩
      simp only [k4]
    · obtain ⟨hd, vq, f1, f2, f3⟩ := c.w.backSurj o (mem_allSim.2 ⟨i, m, em, hm⟩)
      refine ⟨hd, vq, (c.held_iff hd).2 f1, ?_, f3⟩
      apply c.sp.vqSame hd vq f2
      have := c.sim_src f1 f2 em (f3 ▸ hm)
      exact Or.inr (Or.inl (by rw [this]; exact h1))
  · intro h vq' e hh
    rw [c.held_iff] at hh
    obtain ⟨v, ev⟩ := c.vq_inv e
    have := c.sp.vqSame h v ev (Or.inl hh)
    rw [e] at this; cases this
    exact c.w.staleInactive h _ ev hh
  · intro t ht
    rw [c.sp.tok]
    exact c.w.toksFresh t (c.toks_perm.mem_iff.1 ht)

end MergeCtx

/-- `remote_merge_from` on a well-formed state (the absorbing register may be the one
still-empty register): result, engine calls, explicit description and well-formedness -/
theorem mergeFrom_wfp {E} {s : Net} {dst src o : Nat} {sn dn : Node} {q : SQ} {locR : Reg} (w : WFp E s)
    (hE : E = none ∨ E = some (dst, locR.num))
    (hsd : src ≠ dst) (hsn : s.nodes[src]? = some sn) (hdn : s.nodes[dst]? = some dn)
    (hq : s.sqs[o]? = some q) (ho : o ∈ sn.sim) (hlr : locR ∈ dn.regs) :
    ∃ oldR, oldR ∈ sn.regs ∧ oldR.num = q.reg ∧
      (mergeFrom s dst src o locR.num).2.1 = s.sqs.length + q.pos ∧
      (mergeFrom s dst src o locR.num).2.2 =
        [.exportDel src q.reg, .delReg src q.reg, .absorbParts dst locR.num src q.reg] ∧
      MergeSpec s dst src sn dn oldR locR (mergeFrom s dst src o locR.num).1 ∧
      WFp none (mergeFrom s dst src o locR.num).1 := by
  obtain ⟨oldR, h1, h2, h3, h4, h5⟩ := mergeFrom_spec w hsd hsn hdn hq ho hlr
  have hpos := (w.nodes src sn hsn).posLt o q oldR ho hq h1 h2
  have hne : oldR.toks ≠ [] := by
    intro e; rw [e] at hpos; simp at hpos
  have c : MergeCtx E s dst src sn dn oldR locR (mergeFrom s dst src o locR.num).1 :=
    { w := w, hE := hE, hsd := hsd, hsn := hsn, hdn := hdn, hor := h1, hlr := hlr, hne := hne, sp := h5 }
  exact ⟨oldR, h1, h2, h3, h4, h5, c.wfp'⟩

end SqVerif.VNet.WFP

import SqVerif.VNetWFNew
/-
L2 — `local_merge_regs` preserves well-formedness (C02).
-/
namespace SqVerif.VNet.WFP
open List

/-- the absorbing register after `local_merge_regs` -/
def mergedReg (r1 r2 : Reg) : Reg := { r1 with max := r1.max + r2.toks.length, toks := r1.toks ++ r2.toks }

def lmNode (nd : Node) (r1 r2 : Reg) : Node :=
  (nd.modReg r1.num fun r => { r with max := r.max + r2.toks.length, toks := r.toks ++ r2.toks }).delReg r2.num

def lmSq (nd : Node) (r1 r2 : Reg) (o : Nat) (q : SQ) : SQ :=
  if (nd.sim.contains o && q.reg == r2.num) then { q with reg := r1.num, pos := q.pos + r1.toks.length } else q

def lmNet (s : Net) (n : Nat) (nd : Node) (r1 r2 : Reg) : Net :=
  { s with nodes := s.nodes.modify n (fun nd => lmNode nd r1 r2), sqs := s.sqs.mapIdx (lmSq nd r1 r2) }

theorem localMerge_eq {s : Net} {n o1 o2 : Nat} {q1 q2 : SQ} {nd : Node} {r1 r2 : Reg}
    (hq1 : s.sqs[o1]? = some q1) (hq2 : s.sqs[o2]? = some q2) (hn : s.nodes[n]? = some nd)
    (hne : q1.reg ≠ q2.reg) (hr1 : nd.reg? q1.reg = some r1) (hr2 : nd.reg? q2.reg = some r2) :
    localMerge s n o1 o2 = (lmNet s n nd r1 r2, [.absorb n q1.reg q2.reg, .delReg n q2.reg]) := by
  have e1 := (reg?_some_mem hr1).2
  have e2 := (reg?_some_mem hr2).2
  unfold localMerge
  simp only [hq1, hq2, hn, hr1, hr2]
  have : ¬ (q1.reg == q2.reg) = true := by simpa using hne
  simp only [this, if_false, Bool.false_eq_true]
  rw [← e1, ← e2]
  rfl

theorem localMerge_same {s : Net} {n o1 o2 : Nat} {q1 q2 : SQ}
    (hq1 : s.sqs[o1]? = some q1) (hq2 : s.sqs[o2]? = some q2) (he : q1.reg = q2.reg) :
    localMerge s n o1 o2 = (s, []) := by
  unfold localMerge
  simp only [hq1, hq2]
  cases s.nodes[n]? <;> simp [he]


theorem lmNode_regs_eq {nd : Node} {r1 r2 : Reg} (hnd : (nd.regs.map (·.num)).Nodup)
    (hr1 : r1 ∈ nd.regs) (hr2 : r2 ∈ nd.regs) (hne : r1.num ≠ r2.num) :
    ∃ l1 l2, nd.regs = l1 ++ r2 :: l2 ∧ r1 ∈ l1 ++ l2 ∧ (∀ x, x ∈ l1 ++ l2 → x.num ≠ r2.num) ∧
      (lmNode nd r1 r2).regs = (l1 ++ l2).map (fun r => if r.num == r1.num then mergedReg r r2 else r) := by
  obtain ⟨l1, l2, e, h1, h2⟩ := split_reg hnd hr2
  refine ⟨l1, l2, e, ?_, ?_, ?_⟩
  · rw [e] at hr1
    simp only [mem_append, mem_cons] at hr1 ⊢
    rcases hr1 with h | h | h
    · exact Or.inl h
    · subst h; exact absurd rfl hne
    · exact Or.inr h
  · intro x hx; rcases mem_append.1 hx with h | h
    · exact h1 x h
    · exact h2 x h
  · unfold lmNode Node.delReg Node.modReg mergedReg
    simp only [e, map_append, map_cons, filter_append, filter_cons]
    have hr2' : ¬ (r2.num == r1.num) = true := by simpa using (Ne.symm hne)
    simp only [hr2', if_false, Bool.false_eq_true, bne_self_eq_false]
    congr 1
    · apply filter_eq_self.2
      intro x hx
      obtain ⟨y, hy, rfl⟩ := mem_map.1 hx
      have := h1 y hy
      by_cases hc : (y.num == r1.num) = true <;> simp [hc, this]
    · apply filter_eq_self.2
      intro x hx
      obtain ⟨y, hy, rfl⟩ := mem_map.1 hx
      have := h2 y hy
      by_cases hc : (y.num == r1.num) = true <;> simp [hc, this]

theorem mem_lmNode_regs {nd : Node} {r1 r2 : Reg} (hnd : (nd.regs.map (·.num)).Nodup)
    (hr1 : r1 ∈ nd.regs) (hr2 : r2 ∈ nd.regs) (hne : r1.num ≠ r2.num) (r : Reg) :
    r ∈ (lmNode nd r1 r2).regs ↔ (r ∈ nd.regs ∧ r.num ≠ r1.num ∧ r.num ≠ r2.num) ∨ r = mergedReg r1 r2 := by
  obtain ⟨l1, l2, e, h1, h2, e'⟩ := lmNode_regs_eq hnd hr1 hr2 hne
  have hinj := regNumsInj_of_nodup hnd
  have hmem : ∀ x, x ∈ nd.regs ↔ x ∈ l1 ++ l2 ∨ x = r2 := by
    intro x; rw [e]; simp only [mem_append, mem_cons]; grind
  rw [e', mem_map]
  constructor
  · rintro ⟨x, hx, rfl⟩
    by_cases hc : x.num = r1.num
    · have : x = r1 := hinj x r1 ((hmem x).2 (Or.inl hx)) hr1 hc
      subst this
      simp
    · have : ¬ (x.num == r1.num) = true := by simpa using hc
      simp only [this, if_false, Bool.false_eq_true]
      exact Or.inl ⟨(hmem x).2 (Or.inl hx), hc, h2 x hx⟩
  · rintro (⟨h, ha, hb⟩ | rfl)
    · rcases (hmem r).1 h with h | h
      · refine ⟨r, h, ?_⟩
        have : ¬ (r.num == r1.num) = true := by simpa using ha
        simp [this]
      · subst h; exact absurd rfl hb
    · exact ⟨r1, h1, by simp⟩

theorem lmNode_regs_length {nd : Node} {r1 r2 : Reg} (hnd : (nd.regs.map (·.num)).Nodup)
    (hr1 : r1 ∈ nd.regs) (hr2 : r2 ∈ nd.regs) (hne : r1.num ≠ r2.num) :
    (lmNode nd r1 r2).regs.length + 1 = nd.regs.length := by
  obtain ⟨l1, l2, e, h1, h2, e'⟩ := lmNode_regs_eq hnd hr1 hr2 hne
  rw [e', e]; simp; omega

theorem lmNode_regs_nodup {nd : Node} {r1 r2 : Reg} (hnd : (nd.regs.map (·.num)).Nodup)
    (hr1 : r1 ∈ nd.regs) (hr2 : r2 ∈ nd.regs) (hne : r1.num ≠ r2.num) :
    ((lmNode nd r1 r2).regs.map (·.num)).Nodup := by
  obtain ⟨l1, l2, e, h1, h2, e'⟩ := lmNode_regs_eq hnd hr1 hr2 hne
  rw [e', map_map]
  have : ((fun (x : Reg) => x.num) ∘ fun r => if (r.num == r1.num) = true then mergedReg r r2 else r) = fun x => x.num := by
    funext r; simp only [Function.comp]; by_cases hc : (r.num == r1.num) = true <;> simp [hc, mergedReg]
  rw [this]
  rw [e] at hnd
  simp only [map_append, map_cons] at hnd ⊢
  exact hnd.sublist (Sublist.append_left (sublist_cons_self _ _) _)

theorem lmSq_hit {nd : Node} {r1 r2 : Reg} {o : Nat} {q : SQ} (ho : o ∈ nd.sim) (hq : q.reg = r2.num) :
    lmSq nd r1 r2 o q = { q with reg := r1.num, pos := q.pos + r1.toks.length } := by
  unfold lmSq; simp [ho, hq]

theorem lmSq_miss {nd : Node} {r1 r2 : Reg} {o : Nat} {q : SQ} (h : o ∉ nd.sim ∨ q.reg ≠ r2.num) :
    lmSq nd r1 r2 o q = q := by
  unfold lmSq
  rcases h with h | h <;> simp [h]

theorem lmNet_sqs {s : Net} {n : Nat} {nd : Node} {r1 r2 : Reg} (o : Nat) :
    (lmNet s n nd r1 r2).sqs[o]? = (s.sqs[o]?).map (lmSq nd r1 r2 o) := by
  simp [lmNet]

theorem lmNet_nodes {s : Net} {n : Nat} {nd : Node} {r1 r2 : Reg} (hn : s.nodes[n]? = some nd) (i : Nat) :
    (lmNet s n nd r1 r2).nodes[i]? = if i = n then some (lmNode nd r1 r2) else s.nodes[i]? := by
  simp only [lmNet, getElem?_modify]
  by_cases h : n = i
  · subst h; simp [hn]
  · have : ¬ i = n := fun e => h e.symm
    simp [h, this]

theorem nodeP_lmNet_same {s : Net} {n : Nat} {nd : Node} {r1 r2 : Reg} (w : WFp none s)
    (hn : s.nodes[n]? = some nd) (hr1 : r1 ∈ nd.regs) (hr2 : r2 ∈ nd.regs) (hne : r1.num ≠ r2.num) :
    NodeP none (lmNet s n nd r1 r2) n (lmNode nd r1 r2) := by
  have wn := w.nodes n nd hn
  have hregs := mem_lmNode_regs wn.regNumsNodup hr1 hr2 hne
  have hlen := lmNode_regs_length wn.regNumsNodup hr1 hr2 hne
  have hnodup := lmNode_regs_nodup wn.regNumsNodup hr1 hr2 hne
  have hsq1 : ∀ o q', (lmNet s n nd r1 r2).sqs[o]? = some q' → ∃ q, s.sqs[o]? = some q ∧ q' = lmSq nd r1 r2 o q := by
    intro o q' h; rw [lmNet_sqs] at h
    cases hq : s.sqs[o]? with
    | none => rw [hq] at h; cases h
    | some q => rw [hq] at h; exact ⟨q, rfl, by simpa using h.symm⟩
  have hsq2 : ∀ o q, s.sqs[o]? = some q → (lmNet s n nd r1 r2).sqs[o]? = some (lmSq nd r1 r2 o q) := by
    intro o q h; rw [lmNet_sqs, h]; rfl
  have hhit := @lmSq_hit nd r1 r2
  have hmiss := @lmSq_miss nd r1 r2
  have hnd := lmNet_nodes (r1 := r1) (r2 := r2) hn
  have hvq : (lmNet s n nd r1 r2).vqs = s.vqs := rfl
  have hvirt : (lmNode nd r1 r2).virt = nd.virt := rfl
  have hsim : (lmNode nd r1 r2).sim = nd.sim := rfl
  have hnr : (lmNode nd r1 r2).numRegs = nd.numRegs - 1 := rfl
  have hnx : (lmNode nd r1 r2).nextReg = nd.nextReg := rfl
  have hmq : (lmNode nd r1 r2).maxQubits = nd.maxQubits := rfl
  have hmt : (mergedReg r1 r2).toks = r1.toks ++ r2.toks := rfl
  have hmn : (mergedReg r1 r2).num = r1.num := rfl
  have hmm : (mergedReg r1 r2).max = r1.max + r2.toks.length := rfl
  have hsn : ∀ o q, (lmSq nd r1 r2 o q).simNum = q.simNum := by intro o q; unfold lmSq; split <;> rfl
  have hnode : ∀ o q, (lmSq nd r1 r2 o q).node = q.node := by intro o q; unfold lmSq; split <;> rfl
  have hact : ∀ o q, (lmSq nd r1 r2 o q).active = q.active := by intro o q; unfold lmSq; split <;> rfl
  obtain ⟨f1, f2, f3, f4, f5, f6, f7, f8, f9, f10, f11, f12, f13, f14, f15, f16⟩ := wn
  refine { virtNodup := ?_, simNodup := ?_, virtNumsInj := ?_, simNumsInj := ?_, numRegs := ?_,
           regNumsInj := regNumsInj_of_nodup hnodup, regNumsNodup := hnodup, regNumsFresh := ?_, regsNonEmpty := ?_,
           regsWithinMax := ?_, cap := ?_, virtOK := ?_, simOK := ?_, posInj := ?_, posLt := ?_, posSurj := ?_ }
  · rw [hvirt]; exact f1
  · rw [hsim]; exact f2
  · rw [hvirt, hvq]; exact f3
  · rw [hsim]
    intro o o' q q' ho ho' e e' en
    obtain ⟨p, hp, rfl⟩ := hsq1 o q e
    obtain ⟨p', hp', rfl⟩ := hsq1 o' q' e'
    rw [hsn, hsn] at en
    exact f4 o o' p p' ho ho' hp hp' en
  · omega
  · intro r hr
    rcases (hregs r).1 hr with ⟨h, _, _⟩ | rfl
    · exact f8 r h
    · exact f8 r1 hr1
  · intro r hr he
    rcases (hregs r).1 hr with ⟨h, _, _⟩ | rfl
    · exact absurd (f9 r h he) (by simp)
    · rw [hmt] at he
      exact absurd (f9 r1 hr1 (append_eq_nil_iff.1 he).1) (by simp)
  · intro r hr
    rcases (hregs r).1 hr with ⟨h, _, _⟩ | rfl
    · exact f10 r h
    · rw [hmt, hmm, length_append]
      have := f10 r1 hr1; omega
  · rw [hvirt, hmq]; exact f11
  · intro h hh
    obtain ⟨vq, e1, e2, e3, sn, e4, e5⟩ := f12 h hh
    refine ⟨vq, e1, e2, e3, ?_⟩
    rw [hnd]
    by_cases hs : vq.simNode = n
    · rw [if_pos hs]; rw [hs, hn] at e4; cases e4; exact ⟨_, rfl, e5⟩
    · rw [if_neg hs]; exact ⟨sn, e4, e5⟩
  · rw [hsim]
    intro o ho
    obtain ⟨sq, e1, e2, e3, r, e4, e5⟩ := f13 o ho
    refine ⟨_, hsq2 o sq e1, by rw [hnode]; exact e2, by rw [hact]; exact e3, ?_⟩
    by_cases hq : sq.reg = r2.num
    · rw [lmSq_hit ho hq]
      exact ⟨_, (hregs _).2 (Or.inr rfl), rfl⟩
    · rw [lmSq_miss (Or.inr hq)]
      by_cases hq1 : sq.reg = r1.num
      · exact ⟨_, (hregs _).2 (Or.inr rfl), hq1.symm⟩
      · exact ⟨r, (hregs _).2 (Or.inl ⟨e4, by rw [e5]; exact hq1, by rw [e5]; exact hq⟩), e5⟩
  · rw [hsim]
    intro o o' q q' ho ho' e e' er ep
    obtain ⟨p, hp, rfl⟩ := hsq1 o q e
    obtain ⟨p', hp', rfl⟩ := hsq1 o' q' e'
    by_cases hq : p.reg = r2.num <;> by_cases hq' : p'.reg = r2.num
    · rw [lmSq_hit ho hq, lmSq_hit ho' hq'] at ep
      exact f14 o o' p p' ho ho' hp hp' (hq.trans hq'.symm) (by simp only at ep; omega)
    · rw [lmSq_hit ho hq, lmSq_miss (Or.inr hq')] at er ep
      have := f15 o' p' r1 ho' hp' hr1 er
      simp only at ep; omega
    · rw [lmSq_miss (Or.inr hq), lmSq_hit ho' hq'] at er ep
      have := f15 o p r1 ho hp hr1 er.symm
      simp only at ep; omega
    · rw [lmSq_miss (Or.inr hq), lmSq_miss (Or.inr hq')] at er ep
      exact f14 o o' p p' ho ho' hp hp' er ep
  · rw [hsim]
    intro o q r ho e hr hrn
    obtain ⟨p, hp, rfl⟩ := hsq1 o q e
    by_cases hq : p.reg = r2.num
    · rw [lmSq_hit ho hq] at hrn ⊢
      simp only at hrn ⊢
      have := f15 o p r2 ho hp hr2 hq.symm
      rcases (hregs r).1 hr with ⟨_, h, _⟩ | rfl
      · exact absurd hrn h
      · rw [hmt, length_append]; omega
    · rw [lmSq_miss (Or.inr hq)] at hrn ⊢
      rcases (hregs r).1 hr with ⟨h, _, _⟩ | rfl
      · exact f15 o p r ho hp h hrn
      · have := f15 o p r1 ho hp hr1 hrn
        rw [hmt, length_append]; omega
  · rw [hsim]
    intro r p hr hp
    rcases (hregs r).1 hr with ⟨h, h1, h2⟩ | rfl
    · obtain ⟨o, q, e1, e2, e3, e4⟩ := f16 r p h hp
      refine ⟨o, _, e1, hsq2 o q e2, ?_⟩
      rw [lmSq_miss (Or.inr (by rw [e3]; exact h2))]
      exact ⟨e3, e4⟩
    · rw [hmt, length_append] at hp
      by_cases hlt : p < r1.toks.length
      · obtain ⟨o, q, e1, e2, e3, e4⟩ := f16 r1 p hr1 hlt
        refine ⟨o, _, e1, hsq2 o q e2, ?_⟩
        rw [lmSq_miss (Or.inr (by rw [e3]; exact hne))]
        exact ⟨e3, e4⟩
      · obtain ⟨o, q, e1, e2, e3, e4⟩ := f16 r2 (p - r1.toks.length) hr2 (by omega)
        refine ⟨o, _, e1, hsq2 o q e2, ?_⟩
        rw [lmSq_hit e1 e3]
        exact ⟨rfl, by simp only; omega⟩

theorem nodeToks_lmNode {nd : Node} {r1 r2 : Reg} (hnd : (nd.regs.map (·.num)).Nodup)
    (hr1 : r1 ∈ nd.regs) (hr2 : r2 ∈ nd.regs) (hne : r1.num ≠ r2.num) :
    (nodeToks (lmNode nd r1 r2)).Perm (nodeToks nd) := by
  obtain ⟨l1, l2, e, h1, h2, e'⟩ := lmNode_regs_eq hnd hr1 hr2 hne
  have hnd' : ((l1 ++ l2).map (·.num)).Nodup := by
    rw [e] at hnd
    simp only [map_append, map_cons] at hnd ⊢
    exact hnd.sublist (Sublist.append_left (sublist_cons_self _ _) _)
  obtain ⟨m1, m2, em, g1, g2⟩ := split_reg hnd' h1
  unfold nodeToks
  rw [e', em, map_split g1 g2, e]
  have : (l1 ++ r2 :: l2).flatMap (·.toks) = l1.flatMap (·.toks) ++ (r2.toks ++ l2.flatMap (·.toks)) := by simp
  rw [this]
  have em' : l1.flatMap (·.toks) ++ l2.flatMap (·.toks) = m1.flatMap (·.toks) ++ (r1.toks ++ m2.flatMap (·.toks)) := by
    rw [← flatMap_append, em]; simp
  rw [perm_iff_count]
  intro a
  have := congrArg (count a) em'
  simp only [flatMap_append, flatMap_cons, count_append, mergedReg] at this ⊢
  omega

theorem lmNet_virt {s : Net} {n : Nat} {nd : Node} {r1 r2 : Reg} (hn : s.nodes[n]? = some nd) (i : Nat) :
    ((lmNet s n nd r1 r2).nodes[i]?).map (·.virt) = (s.nodes[i]?).map (·.virt) := by
  rw [lmNet_nodes hn]
  by_cases h : i = n
  · subst h; simp [hn, lmNode, Node.delReg, Node.modReg]
  · simp [h]

theorem lmNet_sim {s : Net} {n : Nat} {nd : Node} {r1 r2 : Reg} (hn : s.nodes[n]? = some nd) (i : Nat) :
    ((lmNet s n nd r1 r2).nodes[i]?).map (·.sim) = (s.nodes[i]?).map (·.sim) := by
  rw [lmNet_nodes hn]
  by_cases h : i = n
  · subst h; simp [hn, lmNode, Node.delReg, Node.modReg]
  · simp [h]

theorem wfp_lmNet {s : Net} {n : Nat} {nd : Node} {r1 r2 : Reg} (w : WFp none s)
    (hn : s.nodes[n]? = some nd) (hr1 : r1 ∈ nd.regs) (hr2 : r2 ∈ nd.regs) (hne : r1.num ≠ r2.num) :
    WFp none (lmNet s n nd r1 r2) := by
  have hnd := lmNet_nodes (r1 := r1) (r2 := r2) hn
  have hheld := mem_allHeld_congr (lmNet_virt (r1 := r1) (r2 := r2) hn)
  have hsim := mem_allSim_congr (lmNet_sim (r1 := r1) (r2 := r2) hn)
  have hvq : (lmNet s n nd r1 r2).vqs = s.vqs := rfl
  refine { nodes := ?_, backInj := ?_, backSurj := ?_, staleInactive := ?_, toksNodup := ?_, toksFresh := ?_ }
  · intro i m e
    rw [hnd] at e
    by_cases hi : i = n
    · rw [if_pos hi] at e; cases e; subst hi
      exact nodeP_lmNet_same w hn hr1 hr2 hne
    · rw [if_neg hi] at e
      have wm := w.nodes i m e
      apply wm.frame
      · intro h _; rfl
      · intro o ho
        rw [lmNet_sqs]
        cases hq : s.sqs[o]? with
        | none => rfl
        | some q =>
          have : o ∉ nd.sim := fun hc => hi (w.sim_disjoint e hn ho hc)
          simp [lmSq_miss (Or.inl this)]
      · intro h vq m' hh e1 e2 e3
        rw [hnd]
        by_cases hs : vq.simNode = n
        · rw [if_pos hs]; rw [hs, hn] at e2; cases e2; exact ⟨_, rfl, e3⟩
        · rw [if_neg hs]; exact ⟨m', e2, e3⟩
  · intro h h' vq vq' hh hh'
    rw [hheld] at hh hh'
    exact w.backInj h h' vq vq' hh hh'
  · intro o ho
    rw [hsim] at ho
    obtain ⟨h, vq, e1, e2, e3⟩ := w.backSurj o ho
    exact ⟨h, vq, (hheld h).2 e1, e2, e3⟩
  · intro h vq e hh
    rw [hheld] at hh
    exact w.staleInactive h vq e hh
  · have wn := w.nodes n nd hn
    have hp : (allToks (lmNet s n nd r1 r2) ++ []).Perm (allToks s ++ []) :=
      perm_flatMap_modify (g := nodeToks) hn (by simpa using nodeToks_lmNode wn.regNumsNodup hr1 hr2 hne)
    simp only [append_nil] at hp
    exact hp.nodup_iff.2 w.toksNodup
  · intro t ht
    have wn := w.nodes n nd hn
    have hp : (allToks (lmNet s n nd r1 r2) ++ []).Perm (allToks s ++ []) :=
      perm_flatMap_modify (g := nodeToks) hn (by simpa using nodeToks_lmNode wn.regNumsNodup hr1 hr2 hne)
    simp only [append_nil] at hp
    exact w.toksFresh t (hp.mem_iff.1 ht)

/-- `local_merge_regs` at the node that simulates both qubits -/
theorem localMerge_cases {s : Net} {n o1 o2 : Nat} {nd : Node} (w : WFp none s)
    (hn : s.nodes[n]? = some nd) (ho1 : o1 ∈ nd.sim) (ho2 : o2 ∈ nd.sim) :
    ∃ q1 q2, s.sqs[o1]? = some q1 ∧ s.sqs[o2]? = some q2 ∧
      ((q1.reg = q2.reg ∧ localMerge s n o1 o2 = (s, [])) ∨
       (q1.reg ≠ q2.reg ∧ ∃ r1 r2, r1 ∈ nd.regs ∧ r2 ∈ nd.regs ∧ r1.num = q1.reg ∧ r2.num = q2.reg ∧
          localMerge s n o1 o2 = (lmNet s n nd r1 r2, [.absorb n q1.reg q2.reg, .delReg n q2.reg]))) := by
  have wn := w.nodes n nd hn
  obtain ⟨q1, e1, _, _, r1, hr1, hn1⟩ := wn.simOK o1 ho1
  obtain ⟨q2, e2, _, _, r2, hr2, hn2⟩ := wn.simOK o2 ho2
  refine ⟨q1, q2, e1, e2, ?_⟩
  by_cases he : q1.reg = q2.reg
  · exact Or.inl ⟨he, localMerge_same e1 e2 he⟩
  · refine Or.inr ⟨he, r1, r2, hr1, hr2, hn1, hn2, ?_⟩
    exact localMerge_eq e1 e2 hn he (hn1 ▸ reg?_of_mem wn.regNumsInj hr1) (hn2 ▸ reg?_of_mem wn.regNumsInj hr2)

end SqVerif.VNet.WFP

import SqVerif.StabSpec
/-
L0 — groundwork for C14 (measurement): the qubit permutation `toFront j` /
`fromFront j`, transport of the group vocabulary along it, elementary group
facts for commuting generator lists, and the "collapse" of a group by a
measurement of `Z_j`.

All helper lemmas live in `SqVerif.Stab.Meas` (so that they cannot clash with
the lemma files of the other L0 developments); only the specification
predicate `Collapsed` is in `SqVerif.Stab`.
-/
set_option linter.unusedSimpArgs false
namespace SqVerif.Stab

/-- The post-measurement group for outcome `o` on qubit `j`:
`⟨(-1)^o Z_j⟩ · { q ∈ G | q commutes with Z_j }`. -/
def Collapsed (n : Nat) (g : List Row) (j : Nat) (o : Bool) (q : POp) : Prop :=
  ∃ q0, InGroup n g q0 ∧ antiL q0.ps (zAt n j false).ps = false ∧ (q ≈ₚ q0 ∨ q ≈ₚ q0 ⋆ zAt n j o)

def POp.toFront (j : Nat) (p : POp) : POp := ⟨p.ph, Stab.toFront j p.ps⟩
def POp.fromFront (j : Nat) (p : POp) : POp := ⟨p.ph, Stab.fromFront j p.ps⟩

namespace Meas

/-! ### lists -/

@[simp] theorem getP_cons_zero (a : P1) (as : List P1) : getP (a :: as) 0 = a := rfl
@[simp] theorem getP_cons_succ (a : P1) (as : List P1) (j : Nat) : getP (a :: as) (j + 1) = getP as j := rfl
@[simp] theorem getP_nil (j : Nat) : getP [] j = (false, false) := rfl

theorem toFront_cons_succ (a : P1) (as : List P1) (j : Nat) :
    toFront (j + 1) (a :: as) = getP as j :: a :: as.eraseIdx j := rfl

theorem toFront_length (j : Nat) (ps : List P1) (h : j < ps.length) : (toFront j ps).length = ps.length := by
  simp [toFront, List.length_eraseIdx, h]; omega

theorem fromFront_length (j : Nat) (ps : List P1) : (fromFront j ps).length = ps.length := by
  cases ps with
  | nil => rfl
  | cons p rest =>
    simp only [fromFront, List.length_append, List.length_cons, List.length_take, List.length_drop]
    omega

theorem fromFront_toFront (j : Nat) (ps : List P1) (h : j < ps.length) : fromFront j (toFront j ps) = ps := by
  induction ps generalizing j with
  | nil => simp at h
  | cons a as ih =>
    cases j with
    | zero => simp [toFront, fromFront]
    | succ j =>
      have h' : j < as.length := by simpa using h
      have := ih j h'
      simp only [toFront, fromFront, List.eraseIdx_cons_succ, List.take_succ_cons, List.drop_succ_cons,
        getP_cons_succ, List.cons_append] at this ⊢
      rw [this]

theorem toFront_fromFront (j : Nat) (ps : List P1) (h : j < ps.length) : toFront j (fromFront j ps) = ps := by
  cases ps with
  | nil => simp at h
  | cons p rest =>
    have hj : j ≤ rest.length := by simp at h; omega
    simp only [fromFront, toFront]
    have h1 : getP (rest.take j ++ p :: rest.drop j) j = p := by
      simp [getP, List.getD_eq_getElem?_getD, List.length_take, Nat.min_eq_left hj]
    have h2 : (rest.take j ++ p :: rest.drop j).eraseIdx j = rest := by
      rw [List.eraseIdx_append_of_length_le (by simp [Nat.min_eq_left hj])]
      simp [List.length_take, Nat.min_eq_left hj]
    rw [h1, h2]

/-! ### letter-wise operations split at a position -/

theorem mulL_eraseIdx (a b : List P1) (j : Nat) (h : a.length = b.length) :
    (mulL a b).eraseIdx j = mulL (a.eraseIdx j) (b.eraseIdx j) := by
  induction a generalizing b j with
  | nil => cases b <;> simp [mulL]
  | cons x a ih =>
    cases b with
    | nil => simp at h
    | cons y b =>
      cases j with
      | zero => simp [mulL]
      | succ j => simp [mulL, ih b j (by simpa using h)]

theorem getP_mulL (a b : List P1) (j : Nat) (h : a.length = b.length) :
    getP (mulL a b) j = mul1 (getP a j) (getP b j) := by
  induction a generalizing b j with
  | nil =>
    cases b with
    | nil => simp [mulL, mul1]
    | cons y b => simp at h
  | cons x a ih =>
    cases b with
    | nil => simp at h
    | cons y b =>
      cases j with
      | zero => simp [mulL]
      | succ j => simp [mulL, ih b j (by simpa using h)]

theorem phL_split (a b : List P1) (j : Nat) (h : a.length = b.length) :
    phL a b = iexp (getP a j) (getP b j) + phL (a.eraseIdx j) (b.eraseIdx j) := by
  induction a generalizing b j with
  | nil => cases b <;> simp [phL, iexp]
  | cons x a ih =>
    cases b with
    | nil => simp at h
    | cons y b =>
      cases j with
      | zero => simp [phL]
      | succ j => simp only [phL, getP_cons_succ, List.eraseIdx_cons_succ, ih b j (by simpa using h)]; omega

theorem antiL_split (a b : List P1) (j : Nat) (h : a.length = b.length) :
    antiL a b = (anti1 (getP a j) (getP b j) != antiL (a.eraseIdx j) (b.eraseIdx j)) := by
  induction a generalizing b j with
  | nil => cases b <;> simp [antiL, anti1]
  | cons x a ih =>
    cases b with
    | nil => simp at h
    | cons y b =>
      cases j with
      | zero => simp [antiL]
      | succ j =>
        simp only [antiL, getP_cons_succ, List.eraseIdx_cons_succ, ih b j (by simpa using h)]
        cases anti1 x y <;> cases anti1 (getP a j) (getP b j) <;> cases antiL (a.eraseIdx j) (b.eraseIdx j) <;> rfl

theorem mulL_toFront (a b : List P1) (j : Nat) (h : a.length = b.length) :
    mulL (toFront j a) (toFront j b) = toFront j (mulL a b) := by
  simp [toFront, mulL, getP_mulL a b j h, mulL_eraseIdx a b j h]

theorem phL_toFront (a b : List P1) (j : Nat) (h : a.length = b.length) :
    phL (toFront j a) (toFront j b) = phL a b := by
  simp [toFront, phL, ← phL_split a b j h]

theorem antiL_toFront (a b : List P1) (j : Nat) (h : a.length = b.length) :
    antiL (toFront j a) (toFront j b) = antiL a b := by
  simp [toFront, antiL, ← antiL_split a b j h]

/-! ### small algebra -/

theorem iexp_parity (a b : P1) : iexp a b % 2 = b2n (anti1 a b) := by
  rcases a with ⟨a1,a2⟩; rcases b with ⟨b1,b2⟩
  cases a1 <;> cases a2 <;> cases b1 <;> cases b2 <;> rfl

theorem anti1_comm (a b : P1) : anti1 a b = anti1 b a := by
  rcases a with ⟨a1,a2⟩; rcases b with ⟨b1,b2⟩
  cases a1 <;> cases a2 <;> cases b1 <;> cases b2 <;> rfl

theorem antiL_comm (as bs : List P1) : antiL as bs = antiL bs as := by
  induction as generalizing bs with
  | nil => cases bs <;> simp [antiL]
  | cons a as ih => cases bs with
    | nil => simp [antiL]
    | cons b bs => simp [antiL, anti1_comm a b, ih bs]

theorem antiL_self (as : List P1) : antiL as as = false := by
  induction as with
  | nil => rfl
  | cons a as ih =>
    simp only [antiL, ih]
    rcases a with ⟨a1,a2⟩; cases a1 <;> cases a2 <;> rfl

theorem phL_parity (as bs : List P1) : phL as bs % 2 = b2n (antiL as bs) := by
  induction as generalizing bs with
  | nil => cases bs <;> simp [phL, antiL]
  | cons a as ih => cases bs with
    | nil => simp [phL, antiL]
    | cons b bs =>
      have h1 := ih bs
      have h2 := iexp_parity a b
      simp only [phL, antiL]
      cases hA : anti1 a b <;> cases hB : antiL as bs <;> rw [hA] at h2 <;> rw [hB] at h1 <;>
        simp only [b2n_true, b2n_false, bne_self_eq_false, Bool.true_bne, Bool.false_bne, Bool.not_false] at * <;> omega

theorem antiL_one_left (n : Nat) (as : List P1) : antiL (List.replicate n I1) as = false := by
  rw [antiL_comm]; exact antiL_one as n

theorem antiL_mul_left (as bs cs : List P1) (h : as.length = bs.length) (h' : bs.length = cs.length) :
    antiL (mulL as bs) cs = (antiL as cs != antiL bs cs) := by
  rw [antiL_comm, antiL_mul cs as bs h (h'.symm.trans h.symm), antiL_comm cs as, antiL_comm cs bs]

theorem mulL_one_right (n : Nat) (as : List P1) (h : as.length = n) : mulL as (List.replicate n I1) = as := by
  rw [mulL_comm]; exact mulL_one_left n as h

theorem phL_one_right (n : Nat) (as : List P1) : phL as (List.replicate n I1) = 0 := by
  induction n generalizing as with
  | zero => cases as <;> simp [phL]
  | succ n ih => cases as with
    | nil => simp [phL]
    | cons a as =>
      simp only [List.replicate, phL, ih as]
      rcases a with ⟨a1,a2⟩; cases a1 <;> cases a2 <;> rfl

theorem mul_one (n : Nat) (p : POp) (h : p.len = n) : p ⋆ one n ≈ₚ p := by
  refine ⟨mulL_one_right n p.ps h, ?_⟩
  simp [POp.mul, one, phL_one_right]

theorem one_len (n : Nat) : (one n).len = n := by simp [one, POp.len]

theorem eqv_len {p q : POp} (h : p ≈ₚ q) : p.len = q.len := by simp [POp.len, h.1]

theorem neg_eqv {p q : POp} (h : p ≈ₚ q) : p.neg ≈ₚ q.neg := by
  refine ⟨h.1, ?_⟩
  have := h.2
  simp only [POp.neg]; omega

theorem neg_neg (p : POp) : p.neg.neg ≈ₚ p := by
  refine ⟨rfl, ?_⟩
  simp only [POp.neg]; omega

theorem neg_mul (p q : POp) : p.neg ⋆ q ≈ₚ (p ⋆ q).neg := by
  refine ⟨rfl, ?_⟩
  simp only [POp.neg, POp.mul]; omega

theorem mul_neg (p q : POp) : p ⋆ q.neg ≈ₚ (p ⋆ q).neg := by
  refine ⟨rfl, ?_⟩
  simp only [POp.neg, POp.mul]; omega

/-! ### the group generated by a commuting list -/

theorem den_len (r : Row) : r.den.len = r.ps.length := rfl
theorem den_herm (r : Row) : r.den.ph % 2 = 0 := by
  simp only [Row.den]; split <;> rfl

theorem mem_dens {g : List Row} {q : POp} (h : q ∈ dens g) : ∃ r, r ∈ g ∧ q = r.den := by
  simp only [dens, List.mem_map] at h
  obtain ⟨r, hr, e⟩ := h
  exact ⟨r, hr, e.symm⟩

theorem rowsOK_dens {n : Nat} {g : List Row} (hw : ∀ r, r ∈ g → r.ps.length = n) : RowsOK n (dens g) := by
  intro q hq
  obtain ⟨r, hr, rfl⟩ := mem_dens hq
  exact ⟨hw r hr, den_herm r⟩

theorem pairComm_of_all (l : List POp) (h : ∀ a, a ∈ l → ∀ b, b ∈ l → antiL a.ps b.ps = false) : PairComm l := by
  induction l with
  | nil => trivial
  | cons r rs ih =>
    refine ⟨fun q hq => h r (by simp) q (by simp [hq]), ih ?_⟩
    intro a ha b hb
    exact h a (by simp [ha]) b (by simp [hb])

theorem pairComm_dens {n : Nat} {g : List Row} (hc : Commuting n g) : PairComm (dens g) := by
  apply pairComm_of_all
  intro a ha b hb
  obtain ⟨r, hr, rfl⟩ := mem_dens ha
  obtain ⟨r', hr', rfl⟩ := mem_dens hb
  exact hc.comm r hr r' hr'

@[simp] theorem dens_cons (r : Row) (rs : List Row) : dens (r :: rs) = r.den :: dens rs := rfl
@[simp] theorem dens_nil : dens [] = [] := rfl

theorem dens_length (g : List Row) : (dens g).length = g.length := by simp [dens]

theorem inGroup_len {n : Nat} {g : List Row} (hw : ∀ r, r ∈ g → r.ps.length = n) {p : POp}
    (h : InGroup n g p) : p.ps.length = n := by
  obtain ⟨c, _, e⟩ := h
  have := prodSel_len n c (dens g) (rowsOK_dens hw)
  rw [← e.1]; exact this

theorem inGroup_congr {n : Nat} {g : List Row} {p q : POp} (e : p ≈ₚ q) (h : InGroup n g p) : InGroup n g q := by
  obtain ⟨c, hc, e'⟩ := h
  exact ⟨c, hc, eqv_trans e' e⟩

theorem prodSel_replicate_false (n k : Nat) (l : List POp) : prodSel n (List.replicate k false) l = one n := by
  induction l generalizing k with
  | nil => cases k <;> simp [prodSel, List.replicate]
  | cons r rs ih =>
    cases k with
    | zero => simp [prodSel]
    | succ k => simp [prodSel, List.replicate, ih k]

theorem inGroup_one (n : Nat) (g : List Row) : InGroup n g (one n) :=
  ⟨List.replicate g.length false, by simp, by rw [prodSel_replicate_false]; exact eqv_refl _⟩

theorem xorL_length (c d : List Bool) (h : c.length = d.length) : (xorL c d).length = c.length := by
  induction c generalizing d with
  | nil => cases d <;> simp [xorL]
  | cons a c ih => cases d with
    | nil => simp at h
    | cons b d => simp [xorL, ih d (by simpa using h)]

theorem inGroup_mul {n : Nat} {g : List Row} (hc : Commuting n g) {p q : POp}
    (hp : InGroup n g p) (hq : InGroup n g q) : InGroup n g (p ⋆ q) := by
  obtain ⟨c, hcl, e⟩ := hp
  obtain ⟨d, hdl, e'⟩ := hq
  refine ⟨xorL c d, ?_, ?_⟩
  · rw [xorL_length c d (hcl.trans hdl.symm)]; exact hcl
  · refine eqv_trans (prodSel_xor n c d (dens g) (by rw [dens_length]; exact hcl) (by rw [dens_length]; exact hdl)
      (rowsOK_dens hc.width) (pairComm_dens hc)) (mul_congr e e')

theorem inGroup_comm {n : Nat} {g : List Row} (hc : Commuting n g) {p q : POp}
    (hp : InGroup n g p) (hq : InGroup n g q) : antiL p.ps q.ps = false := by
  obtain ⟨c, _, e⟩ := hp
  obtain ⟨d, _, e'⟩ := hq
  rw [← e.1, ← e'.1]
  have hOK := rowsOK_dens hc.width
  apply comm_prodSel n (prodSel n c (dens g)) d (dens g) (prodSel_len n c _ hOK) hOK
  intro q hq
  rw [antiL_comm]
  obtain ⟨r, hr, rfl⟩ := mem_dens hq
  apply comm_prodSel n r.den c (dens g) (hc.width r hr) hOK
  intro q' hq'
  obtain ⟨r', hr', rfl⟩ := mem_dens hq'
  exact hc.comm r hr r' hr'

/-- induction principle: a predicate closed under `≈ₚ`, containing the identity and closed under
left multiplication by generators contains the group -/
theorem inGroup_ind {n : Nat} {g : List Row} (hw : ∀ r, r ∈ g → r.ps.length = n) (S : POp → Prop)
    (hcongr : ∀ p q, p ≈ₚ q → S p → S q) (h1 : S (one n))
    (hmul : ∀ r, r ∈ g → ∀ p, p.len = n → S p → S (r.den ⋆ p)) {p : POp} (h : InGroup n g p) : S p := by
  obtain ⟨c, _, e⟩ := h
  refine hcongr _ _ e ?_
  suffices H : ∀ (l : List Row) (c : List Bool), (∀ r, r ∈ l → r ∈ g) → S (prodSel n c (dens l)) from H g c (fun _ h => h)
  intro l
  induction l with
  | nil => intro c _; cases c <;> exact h1
  | cons r rs ih =>
    intro c hl
    cases c with
    | nil => exact h1
    | cons a cs =>
      have hrs : ∀ r, r ∈ rs → r ∈ g := fun x hx => hl x (by simp [hx])
      simp only [dens, List.map_cons, prodSel]
      split
      · exact hmul r (hl r (by simp)) _ (prodSel_len n cs _ (rowsOK_dens fun x hx => hw x (hrs x hx))) (ih cs hrs)
      · exact ih cs hrs

theorem inGroup_gen {n : Nat} {g : List Row} (hw : ∀ r, r ∈ g → r.ps.length = n) {r : Row} (hr : r ∈ g) :
    InGroup n g r.den := by
  induction g with
  | nil => simp at hr
  | cons a rs ih =>
    by_cases e : r = a
    · subst e
      refine ⟨true :: List.replicate rs.length false, by simp, ?_⟩
      simp only [dens, List.map_cons, prodSel, if_true, prodSel_replicate_false]
      exact mul_one n _ (hw r (by simp))
    · have hr' : r ∈ rs := by
        rcases List.mem_cons.mp hr with h | h
        · exact absurd h e
        · exact h
      obtain ⟨c, hc, e'⟩ := ih (fun x hx => hw x (by simp [hx])) hr'
      exact ⟨false :: c, by simp [hc], by simpa [dens, prodSel] using e'⟩

/-- group inclusion from membership of the generators -/
theorem inGroup_sub {n : Nat} {g h : List Row} (hc : Commuting n g) (hw : ∀ r, r ∈ h → r.ps.length = n)
    (hgen : ∀ r, r ∈ h → InGroup n g r.den) {p : POp} (hp : InGroup n h p) : InGroup n g p :=
  inGroup_ind hw (InGroup n g) (fun _ _ e h => inGroup_congr e h) (inGroup_one n g)
    (fun r hr _ _ hp => inGroup_mul hc (hgen r hr) hp) hp

theorem sameGroup_of_gens {n : Nat} {g h : List Row} (hg : Commuting n g) (hh : Commuting n h)
    (h1 : ∀ r, r ∈ h → InGroup n g r.den) (h2 : ∀ r, r ∈ g → InGroup n h r.den) : SameGroup n g h :=
  fun _ => ⟨inGroup_sub hh hg.width h2, inGroup_sub hg hh.width h1⟩

/-- a Hermitian operator and its negative are not both in an independent group -/
theorem not_both {n : Nat} {g : List Row} (hv : Valid n g) {p : POp} (hh : p.ph % 2 = 0)
    (h1 : InGroup n g p) (h2 : InGroup n g p.neg) : False := by
  obtain ⟨c, hcl, e⟩ := h1
  obtain ⟨d, hdl, e'⟩ := h2
  have hx := prodSel_xor n c d (dens g) (by rw [dens_length]; exact hcl) (by rw [dens_length]; exact hdl)
      (rowsOK_dens hv.width) (pairComm_dens hv.toCommuting)
  have hx' := eqv_trans hx (mul_congr e e')
  have hl : (xorL c d).length = g.length := by rw [xorL_length c d (hcl.trans hdl.symm)]; exact hcl
  have hps : (prodSel n (xorL c d) (dens g)).ps = idPad n := by
    rw [hx'.1]
    show mulL p.ps p.ps = _
    rw [mulL_self, inGroup_len hv.width ⟨c, hcl, e⟩]; rfl
  have hz := hv.indep _ hl hps
  rw [hz, prodSel_replicate_false] at hx'
  have := hx'.2
  simp only [one, POp.mul, POp.neg, phL_self] at this
  omega

/-! ### length bookkeeping -/

theorem mul_psl {n : Nat} {p q : POp} (hp : p.ps.length = n) (hq : q.ps.length = n) : (p ⋆ q).ps.length = n := by
  have := mul_len p q (by simp [POp.len, hp, hq])
  simpa [POp.len, hp] using this

theorem one_psl (n : Nat) : (one n).ps.length = n := by simp [one]

theorem zAt_psl (n j : Nat) (o : Bool) : (zAt n j o).ps.length = n := by simp [zAt, setP, idPad]

theorem neg_psl {n : Nat} {p : POp} (hp : p.ps.length = n) : p.neg.ps.length = n := hp

theorem mul_assoc' {n : Nat} {p q r : POp} (hp : p.ps.length = n) (hq : q.ps.length = n) (hr : r.ps.length = n) :
    (p ⋆ q) ⋆ r ≈ₚ p ⋆ (q ⋆ r) := mul_assoc p q r (hp.trans hq.symm) (hq.trans hr.symm)

/-! ### transport along the qubit permutation -/

theorem idPad_succ (n : Nat) : idPad (n + 1) = (false, false) :: idPad n := rfl

theorem getP_idPad (n j : Nat) : getP (idPad n) j = (false, false) := by
  induction n generalizing j with
  | zero => rfl
  | succ n ih => cases j with
    | zero => rfl
    | succ j => simpa [idPad_succ] using ih j

theorem eraseIdx_idPad (n j : Nat) (h : j < n + 1) : (idPad (n + 1)).eraseIdx j = idPad n := by
  induction n generalizing j with
  | zero =>
    have : j = 0 := by omega
    subst this; rfl
  | succ n ih => cases j with
    | zero => rfl
    | succ j =>
      rw [idPad_succ, List.eraseIdx_cons_succ, ih j (by omega)]; rfl

theorem toFront_idPad (n j : Nat) (h : j < n) : toFront j (idPad n) = idPad n := by
  cases n with
  | zero => omega
  | succ n =>
    simp only [toFront]
    rw [getP_idPad, eraseIdx_idPad n j h]; rfl

theorem one_toFront (n j : Nat) (h : j < n) : (one n).toFront j = one n := by
  simp only [POp.toFront, one]
  congr 1
  exact toFront_idPad n j h

theorem mul_toFront (p q : POp) (j : Nat) (h : p.ps.length = q.ps.length) :
    p.toFront j ⋆ q.toFront j = (p ⋆ q).toFront j := by
  simp only [POp.toFront, POp.mul, phL_toFront _ _ j h, mulL_toFront _ _ j h]

theorem den_toFront (r : Row) (j : Nat) : (Row.toFront j r).den = r.den.toFront j := rfl
theorem den_fromFront (r : Row) (j : Nat) : (Row.fromFront j r).den = r.den.fromFront j := rfl

theorem prodSel_toFront (n j : Nat) (hj : j < n) (c : List Bool) (g : List Row) (hw : ∀ r, r ∈ g → r.ps.length = n) :
    prodSel n c (dens (g.map (Row.toFront j))) = (prodSel n c (dens g)).toFront j := by
  induction g generalizing c with
  | nil => cases c <;> simp [dens, prodSel, one_toFront n j hj]
  | cons r rs ih =>
    cases c with
    | nil => simp [prodSel, one_toFront n j hj]
    | cons a cs =>
      have hrs : ∀ r, r ∈ rs → r.ps.length = n := fun x hx => hw x (by simp [hx])
      have IH := ih cs hrs
      simp only [dens, List.map_cons, prodSel] at IH ⊢
      rw [IH]
      split
      · rw [den_toFront, mul_toFront]
        have := prodSel_len n cs (dens rs) (rowsOK_dens hrs)
        simp only [POp.len, dens] at this
        rw [this]; exact hw r (by simp)
      · rfl

theorem pop_fromFront_toFront (j : Nat) (p : POp) (h : j < p.ps.length) : (p.toFront j).fromFront j = p := by
  cases p; simp only [POp.toFront, POp.fromFront] at *; rw [fromFront_toFront _ _ h]

theorem pop_toFront_fromFront (j : Nat) (p : POp) (h : j < p.ps.length) : (p.fromFront j).toFront j = p := by
  cases p; simp only [POp.toFront, POp.fromFront] at *; rw [toFront_fromFront _ _ h]

theorem eqv_toFront {p q : POp} (j : Nat) (h : p ≈ₚ q) : p.toFront j ≈ₚ q.toFront j :=
  ⟨by simp [POp.toFront, h.1], h.2⟩

theorem eqv_fromFront {p q : POp} (j : Nat) (h : p ≈ₚ q) : p.fromFront j ≈ₚ q.fromFront j :=
  ⟨by simp [POp.fromFront, h.1], h.2⟩

theorem eqv_of_toFront {p q : POp} {j : Nat} (hp : j < p.ps.length) (hq : j < q.ps.length)
    (h : p.toFront j ≈ₚ q.toFront j) : p ≈ₚ q := by
  have := eqv_fromFront j h
  rwa [pop_fromFront_toFront j p hp, pop_fromFront_toFront j q hq] at this

theorem toFront_psl {n j : Nat} {p : POp} (hj : j < n) (hp : p.ps.length = n) : (p.toFront j).ps.length = n := by
  simp only [POp.toFront]; rw [toFront_length _ _ (by omega)]; exact hp

theorem fromFront_psl {n j : Nat} {p : POp} (hp : p.ps.length = n) : (p.fromFront j).ps.length = n := by
  simp only [POp.fromFront]; rw [fromFront_length]; exact hp

theorem width_toFront {n j : Nat} {g : List Row} (hj : j < n) (hw : ∀ r, r ∈ g → r.ps.length = n) :
    ∀ r, r ∈ g.map (Row.toFront j) → r.ps.length = n := by
  intro r hr
  obtain ⟨r', hr', rfl⟩ := List.mem_map.mp hr
  simp only [Row.toFront]; rw [toFront_length _ _ (by rw [hw r' hr']; exact hj)]; exact hw r' hr'

theorem width_fromFront {n j : Nat} {g : List Row} (hw : ∀ r, r ∈ g → r.ps.length = n) :
    ∀ r, r ∈ g.map (Row.fromFront j) → r.ps.length = n := by
  intro r hr
  obtain ⟨r', hr', rfl⟩ := List.mem_map.mp hr
  simp only [Row.fromFront]; rw [fromFront_length]; exact hw r' hr'

theorem map_toFront_fromFront {n j : Nat} {g : List Row} (hj : j < n) (hw : ∀ r, r ∈ g → r.ps.length = n) :
    (g.map (Row.fromFront j)).map (Row.toFront j) = g := by
  rw [List.map_map]
  conv => rhs; rw [← List.map_id g]
  apply List.map_congr_left
  intro r hr
  cases r with
  | mk ps neg =>
    simp only [Function.comp, Row.toFront, Row.fromFront, id]
    rw [toFront_fromFront _ _ (by have := hw _ hr; simp at this; omega)]

theorem map_fromFront_toFront {n j : Nat} {g : List Row} (hj : j < n) (hw : ∀ r, r ∈ g → r.ps.length = n) :
    (g.map (Row.toFront j)).map (Row.fromFront j) = g := by
  rw [List.map_map]
  conv => rhs; rw [← List.map_id g]
  apply List.map_congr_left
  intro r hr
  cases r with
  | mk ps neg =>
    simp only [Function.comp, Row.toFront, Row.fromFront, id]
    rw [fromFront_toFront _ _ (by have := hw _ hr; simp at this; omega)]

theorem inGroup_toFront {n j : Nat} {g : List Row} (hw : ∀ r, r ∈ g → r.ps.length = n) (hj : j < n)
    {P : POp} (hP : P.ps.length = n) : InGroup n (g.map (Row.toFront j)) (P.toFront j) ↔ InGroup n g P := by
  constructor
  · rintro ⟨c, hc, e⟩
    refine ⟨c, by simpa using hc, ?_⟩
    rw [prodSel_toFront n j hj c g hw] at e
    have hl := prodSel_len n c (dens g) (rowsOK_dens hw)
    exact eqv_of_toFront (by simp only [POp.len] at hl; omega) (by omega) e
  · rintro ⟨c, hc, e⟩
    refine ⟨c, by simpa using hc, ?_⟩
    rw [prodSel_toFront n j hj c g hw]
    exact eqv_toFront j e

/-- membership in a group given in the front frame -/
theorem inGroup_fromFront {n j : Nat} {g : List Row} (hw : ∀ r, r ∈ g → r.ps.length = n) (hj : j < n)
    {P : POp} (hP : P.ps.length = n) : InGroup n (g.map (Row.fromFront j)) P ↔ InGroup n g (P.toFront j) := by
  have := inGroup_toFront (g := g.map (Row.fromFront j)) (width_fromFront hw) hj hP
  rw [map_toFront_fromFront hj hw] at this
  exact this.symm

theorem commuting_toFront {n j : Nat} {g : List Row} (hj : j < n) (hc : Commuting n g) :
    Commuting n (g.map (Row.toFront j)) := by
  refine ⟨width_toFront hj hc.width, ?_⟩
  intro a ha b hb
  obtain ⟨a', ha', rfl⟩ := List.mem_map.mp ha
  obtain ⟨b', hb', rfl⟩ := List.mem_map.mp hb
  simp only [Row.toFront]
  rw [antiL_toFront _ _ j ((hc.width a' ha').trans (hc.width b' hb').symm)]
  exact hc.comm a' ha' b' hb'

theorem commuting_of_toFront {n j : Nat} {g : List Row} (hw : ∀ r, r ∈ g → r.ps.length = n)
    (hc : Commuting n (g.map (Row.toFront j))) : Commuting n g := by
  refine ⟨hw, ?_⟩
  intro a ha b hb
  have := hc.comm _ (List.mem_map_of_mem ha) _ (List.mem_map_of_mem hb)
  simp only [Row.toFront] at this
  rwa [antiL_toFront _ _ j ((hw a ha).trans (hw b hb).symm)] at this

theorem toFront_inj {n j : Nat} {a b : List P1} (hj : j < n) (ha : a.length = n) (hb : b.length = n)
    (h : toFront j a = toFront j b) : a = b := by
  have := congrArg (fromFront j) h
  rwa [fromFront_toFront _ _ (by omega), fromFront_toFront _ _ (by omega)] at this

theorem valid_toFront {n j : Nat} {g : List Row} (hj : j < n) (hv : Valid n g) :
    Valid n (g.map (Row.toFront j)) := by
  refine ⟨commuting_toFront hj hv.toCommuting, by simpa using hv.count, ?_⟩
  intro c hc hps
  rw [prodSel_toFront n j hj c g hv.width] at hps
  have hl := prodSel_len n c (dens g) (rowsOK_dens hv.width)
  have := hv.indep c (by simpa using hc) (by
    apply toFront_inj hj hl (by simp [idPad])
    rw [toFront_idPad n j hj]; exact hps)
  simpa using this

theorem valid_of_toFront {n j : Nat} {g : List Row} (hj : j < n) (hw : ∀ r, r ∈ g → r.ps.length = n)
    (hv : Valid n (g.map (Row.toFront j))) : Valid n g := by
  refine ⟨commuting_of_toFront hw hv.toCommuting, by simpa using hv.count, ?_⟩
  intro c hc hps
  have := hv.indep c (by simpa using hc) (by
    rw [prodSel_toFront n j hj c g hw]
    simp only [POp.toFront]; rw [hps, toFront_idPad n j hj])
  simpa using this

theorem maximal_toFront {n j : Nat} {g : List Row} (hj : j < n) (hw : ∀ r, r ∈ g → r.ps.length = n)
    (hm : Maximal n g) : Maximal n (g.map (Row.toFront j)) := by
  intro p hp hh hcomm
  have hp' : (p.fromFront j).ps.length = n := fromFront_psl hp
  have hback : (p.fromFront j).toFront j = p := pop_toFront_fromFront j p (by omega)
  have := hm (p.fromFront j) hp' hh (by
    intro r hr
    have := hcomm _ (List.mem_map_of_mem hr)
    simp only [Row.toFront] at this
    rw [← antiL_toFront _ _ j (hp'.trans (hw r hr).symm)]
    have e := congrArg POp.ps hback
    simp only [POp.toFront] at e
    rw [e]; exact this)
  rcases this with h | h
  · left; rw [← hback]; exact (inGroup_toFront hw hj hp').mpr h
  · right
    have : p.neg = ((p.fromFront j).neg).toFront j := by
      conv => lhs; rw [← hback]
      rfl
    rw [this]; exact (inGroup_toFront (P := (p.fromFront j).neg) hw hj hp').mpr h

theorem maximal_of_toFront {n j : Nat} {g : List Row} (hj : j < n) (hw : ∀ r, r ∈ g → r.ps.length = n)
    (hm : Maximal n (g.map (Row.toFront j))) : Maximal n g := by
  intro p hp hh hcomm
  have := hm (p.toFront j) (toFront_psl hj hp) hh (by
    intro r hr
    obtain ⟨r', hr', rfl⟩ := List.mem_map.mp hr
    simp only [Row.toFront, POp.toFront]
    rw [antiL_toFront _ _ j (hp.trans (hw r' hr').symm)]
    exact hcomm r' hr')
  rcases this with h | h
  · left; exact (inGroup_toFront hw hj hp).mp h
  · right; exact (inGroup_toFront (P := p.neg) hw hj hp).mp h

theorem validMax_toFront {n j : Nat} {g : List Row} (hj : j < n) (hv : ValidMax n g) :
    ValidMax n (g.map (Row.toFront j)) :=
  ⟨valid_toFront hj hv.toValid, maximal_toFront hj hv.width hv.maximal⟩

theorem validMax_fromFront {n j : Nat} {g : List Row} (hj : j < n) (hv : ValidMax n g) :
    ValidMax n (g.map (Row.fromFront j)) := by
  have hw := width_fromFront (j := j) hv.width
  have e := map_toFront_fromFront hj hv.width
  refine ⟨valid_of_toFront hj hw (by rw [e]; exact hv.toValid), maximal_of_toFront hj hw (by rw [e]; exact hv.maximal)⟩

/-! ### `±Z_j` -/

theorem zAt_toFront (n j : Nat) (hj : j < n) (o : Bool) : (zAt n j o).toFront j = zAt n 0 o := by
  cases n with
  | zero => omega
  | succ n =>
    simp only [zAt, POp.toFront, toFront, setP]
    congr 1
    have h1 : getP ((idPad (n + 1)).set j (false, true)) j = (false, true) := by
      simp [getP, List.getD_eq_getElem?_getD, idPad, hj]
    rw [h1, List.eraseIdx_set_eq, eraseIdx_idPad n j hj]; rfl

theorem zAt_ps (n j : Nat) (a b : Bool) : (zAt n j a).ps = (zAt n j b).ps := rfl

theorem zAt_neg (n j : Nat) : (zAt n j false).neg ≈ₚ zAt n j true := ⟨rfl, rfl⟩

theorem zAt_zero_ps (m : Nat) (o : Bool) : (zAt (m + 1) 0 o).ps = (false, true) :: idPad m := rfl

/-- the commutation character with `Z_j` is the X bit at `j` -/
theorem antiL_zAt (n j : Nat) (hj : j < n) (o : Bool) (ps : List P1) (h : ps.length = n) :
    antiL ps (zAt n j o).ps = (getP ps j).1 := by
  rw [← antiL_toFront _ _ j (h.trans (zAt_psl n j o).symm)]
  have e := congrArg POp.ps (zAt_toFront n j hj o)
  simp only [POp.toFront] at e
  rw [e]
  cases n with
  | zero => omega
  | succ m =>
    rw [zAt_zero_ps]
    simp only [toFront, antiL]
    have : antiL (ps.eraseIdx j) (idPad m) = false := antiL_one _ m
    rw [this]
    rcases getP ps j with ⟨x, z⟩
    cases x <;> cases z <;> rfl

theorem zAt_herm (n j : Nat) (o : Bool) : (zAt n j o).ph % 2 = 0 := by
  simp only [zAt]; split <;> rfl

theorem zAt_sq (n j : Nat) (o : Bool) : zAt n j o ⋆ zAt n j o ≈ₚ one n := by
  have := mul_self (zAt n j o) (zAt_herm n j o)
  rwa [POp.len, zAt_psl] at this

/-! ### the collapsed group -/

theorem collapsed_len {n j : Nat} {g : List Row} {o : Bool} (hw : ∀ r, r ∈ g → r.ps.length = n) {q : POp}
    (h : Collapsed n g j o q) : q.ps.length = n := by
  obtain ⟨q0, h0, _, e | e⟩ := h
  · rw [e.1]; exact inGroup_len hw h0
  · rw [e.1]; exact mul_psl (inGroup_len hw h0) (zAt_psl n j o)

theorem collapsed_congr {n j : Nat} {g : List Row} {o : Bool} {p q : POp} (e : p ≈ₚ q)
    (h : Collapsed n g j o p) : Collapsed n g j o q := by
  obtain ⟨q0, h0, hc, e' | e'⟩ := h
  · exact ⟨q0, h0, hc, Or.inl (eqv_trans (eqv_symm e) e')⟩
  · exact ⟨q0, h0, hc, Or.inr (eqv_trans (eqv_symm e) e')⟩

theorem collapsed_of_inGroup {n j : Nat} {g : List Row} {o : Bool} {q : POp} (h : InGroup n g q)
    (hc : antiL q.ps (zAt n j false).ps = false) : Collapsed n g j o q :=
  ⟨q, h, hc, Or.inl (eqv_refl q)⟩

theorem collapsed_one (n j : Nat) (g : List Row) (o : Bool) : Collapsed n g j o (one n) :=
  collapsed_of_inGroup (inGroup_one n g) (antiL_one_left n _)

theorem collapsed_z (n j : Nat) (g : List Row) (o : Bool) : Collapsed n g j o (zAt n j o) :=
  ⟨one n, inGroup_one n g, antiL_one_left n _, Or.inr (eqv_symm (one_mul n _ (zAt_psl n j o)))⟩

theorem collapsed_mul_z {n j : Nat} {g : List Row} {o : Bool} (hw : ∀ r, r ∈ g → r.ps.length = n) {q : POp}
    (h : Collapsed n g j o q) : Collapsed n g j o (q ⋆ zAt n j o) := by
  obtain ⟨q0, h0, hc, e | e⟩ := h
  · exact ⟨q0, h0, hc, Or.inr (mul_congr e (eqv_refl _))⟩
  · refine ⟨q0, h0, hc, Or.inl ?_⟩
    have l0 := inGroup_len hw h0
    refine eqv_trans (mul_congr e (eqv_refl _)) ?_
    refine eqv_trans (mul_assoc' l0 (zAt_psl n j o) (zAt_psl n j o)) ?_
    refine eqv_trans (mul_congr (eqv_refl _) (zAt_sq n j o)) ?_
    exact mul_one n q0 l0

theorem collapsed_mul {n j : Nat} {g : List Row} {o : Bool} (hc : Commuting n g) {p q : POp}
    (hp : Collapsed n g j o p) (hq : Collapsed n g j o q) : Collapsed n g j o (p ⋆ q) := by
  obtain ⟨p0, hp0, hpc, ep⟩ := hp
  have lp := inGroup_len hc.width hp0
  have lz := zAt_psl n j o
  have lz' := zAt_psl n j false
  -- first the case p ≈ p0
  have base : ∀ q, Collapsed n g j o q → Collapsed n g j o (p0 ⋆ q) := by
    intro q hq
    obtain ⟨q0, hq0, hqc, eq⟩ := hq
    have lq := inGroup_len hc.width hq0
    have hcomm : antiL (p0 ⋆ q0).ps (zAt n j false).ps = false := by
      show antiL (mulL p0.ps q0.ps) _ = false
      rw [antiL_mul_left _ _ _ (lp.trans lq.symm) (lq.trans lz'.symm), hpc, hqc]; rfl
    rcases eq with e | e
    · exact ⟨p0 ⋆ q0, inGroup_mul hc hp0 hq0, hcomm, Or.inl (mul_congr (eqv_refl _) e)⟩
    · refine ⟨p0 ⋆ q0, inGroup_mul hc hp0 hq0, hcomm, Or.inr ?_⟩
      exact eqv_trans (mul_congr (eqv_refl _) e) (eqv_symm (mul_assoc' lp lq lz))
  rcases ep with e | e
  · exact collapsed_congr (mul_congr (eqv_symm e) (eqv_refl _)) (base q hq)
  · -- p ≈ p0 ⋆ Z:  (p0 ⋆ Z) ⋆ q ≈ p0 ⋆ (Z ⋆ q) ≈ p0 ⋆ (q ⋆ Z)
    have lq := collapsed_len hc.width hq
    have hqz : antiL (zAt n j o).ps q.ps = false := by
      obtain ⟨q0, hq0, hqc, eq⟩ := hq
      have lq0 := inGroup_len hc.width hq0
      rw [antiL_comm]
      rcases eq with e' | e'
      · rw [e'.1]; exact hqc
      · rw [e'.1]
        show antiL (mulL q0.ps (zAt n j o).ps) _ = false
        rw [antiL_mul_left _ _ _ (lq0.trans lz.symm) rfl, antiL_self, zAt_ps n j o false, hqc]; rfl
    have := base _ (collapsed_mul_z hc.width hq)
    refine collapsed_congr ?_ this
    apply eqv_symm
    refine eqv_trans (mul_congr e (eqv_refl _)) ?_
    refine eqv_trans (mul_assoc' lp lz lq) ?_
    exact mul_congr (eqv_refl _) (mul_comm_of_commute _ _ hqz)

theorem collapsed_noX {n j : Nat} {g : List Row} {o : Bool} (hj : j < n) (hw : ∀ r, r ∈ g → r.ps.length = n)
    {q : POp} (h : Collapsed n g j o q) : (getP q.ps j).1 = false := by
  obtain ⟨q0, h0, hc, e | e⟩ := h
  · rw [e.1, ← antiL_zAt n j hj false _ (inGroup_len hw h0)]; exact hc
  · rw [e.1]
    have l0 := inGroup_len hw h0
    show (getP (mulL q0.ps (zAt n j o).ps) j).1 = false
    rw [getP_mulL _ _ j (l0.trans (zAt_psl n j o).symm)]
    rw [antiL_zAt n j hj false _ l0] at hc
    simp only [mul1, hc]
    have : antiL (zAt n j o).ps (zAt n j o).ps = false := antiL_self _
    rw [antiL_zAt n j hj o _ (zAt_psl n j o)] at this
    rw [this]; rfl

/-- when `(-1)^o Z_j` is already in the group the collapse changes nothing -/
theorem collapsed_iff_of_z_mem {n j : Nat} {g : List Row} {o : Bool} (hc : Commuting n g)
    (hz : InGroup n g (zAt n j o)) (p : POp) : Collapsed n g j o p ↔ InGroup n g p := by
  constructor
  · rintro ⟨q0, h0, _, e | e⟩
    · exact inGroup_congr (eqv_symm e) h0
    · exact inGroup_congr (eqv_symm e) (inGroup_mul hc h0 hz)
  · intro h
    exact collapsed_of_inGroup h (by rw [zAt_ps n j false o]; exact inGroup_comm hc h hz)

theorem collapsed_toFront {n j : Nat} {g : List Row} {o : Bool} (hw : ∀ r, r ∈ g → r.ps.length = n) (hj : j < n)
    {q : POp} (hq : q.ps.length = n) :
    Collapsed n (g.map (Row.toFront j)) 0 o (q.toFront j) ↔ Collapsed n g j o q := by
  have hz : ∀ (q0 : POp), q0.ps.length = n →
      antiL (q0.toFront j).ps (zAt n 0 false).ps = antiL q0.ps (zAt n j false).ps := by
    intro q0 l0
    rw [← zAt_toFront n j hj false]
    simp only [POp.toFront]
    exact antiL_toFront _ _ j (l0.trans (zAt_psl n j false).symm)
  constructor
  · rintro ⟨q0', h0, hc, e⟩
    have l0' := inGroup_len (width_toFront hj hw) h0
    have hb : (q0'.fromFront j).toFront j = q0' := pop_toFront_fromFront j q0' (by omega)
    have l0 : (q0'.fromFront j).ps.length = n := fromFront_psl l0'
    refine ⟨q0'.fromFront j, ?_, ?_, ?_⟩
    · rw [← hb] at h0; exact (inGroup_toFront hw hj l0).mp h0
    · rw [← hz _ l0, hb]; exact hc
    · rcases e with e | e
      · left
        rw [← hb] at e
        exact eqv_of_toFront (by omega) (by omega) e
      · right
        rw [← hb, ← zAt_toFront n j hj o, mul_toFront _ _ j (l0.trans (zAt_psl n j o).symm)] at e
        exact eqv_of_toFront (by omega) (by rw [mul_psl l0 (zAt_psl n j o)]; exact hj) e
  · rintro ⟨q0, h0, hc, e⟩
    have l0 := inGroup_len hw h0
    refine ⟨q0.toFront j, (inGroup_toFront hw hj l0).mpr h0, by rw [hz _ l0]; exact hc, ?_⟩
    rcases e with e | e
    · left; exact eqv_toFront j e
    · right
      rw [← zAt_toFront n j hj o, mul_toFront _ _ j (l0.trans (zAt_psl n j o).symm)]
      exact eqv_toFront j e

/-- `Collapsed` of a group given in the front frame, seen from the original frame -/
theorem collapsed_fromFront {n j : Nat} {g : List Row} {o : Bool} (hw : ∀ r, r ∈ g → r.ps.length = n) (hj : j < n)
    {q : POp} (hq : q.ps.length = n) :
    Collapsed n (g.map (Row.fromFront j)) j o q ↔ Collapsed n g 0 o (q.toFront j) := by
  have := collapsed_toFront (g := g.map (Row.fromFront j)) (o := o) (width_fromFront hw) hj hq
  rw [map_toFront_fromFront hj hw] at this
  exact this.symm

theorem restrictOp_toFront (j : Nat) (o : Bool) (q : POp) : restrictOp 0 o (q.toFront j) = restrictOp j o q := by
  simp [restrictOp, POp.toFront, toFront]

end Meas
end SqVerif.Stab

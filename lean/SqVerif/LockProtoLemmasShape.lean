import SqVerif.Skel
import SqVerif.LockProto
/-!
# LockProto — reading the node-lock shape of an operation off its method skeleton

`lockShapes tbl s` = the sequences of node-lock events (acquire without / with time-out, cancel, release) along
the NORMAL paths of the skeleton `s`: no exception, no lock time-out, loops (the optimistic retries of
`_lock_simulating_node` / `_lock_nodes`) left at the first iteration; calls of node methods found in `tbl` are
inlined (`SELF ↦` the callee's node; twice, which reaches `send → transfer_qubit → add_qubit`).
`Props/C04Live.lean` compares them with the programs `LockProto.prog` of the model.
-/
namespace SqVerif.LockProto
open SqVerif.Skel

inductive LK where
  | acq | acqT | cancel | rel
  deriving DecidableEq, Repr

abbrev LEv := LK × Role

def mapRoles (f : Role → Role) : Stmt → Stmt
  | .acquire l b => .acquire (f l) b
  | .release l => .release (f l)
  | .cancel l => .cancel (f l)
  | .alias a b => .alias (f a) (f b)
  | .requires l => .requires (f l)
  | .call r m q => .call (f r) m q
  | .mutate r x => .mutate (f r) x
  | .seq a b => .seq (mapRoles f a) (mapRoles f b)
  | .ite c a b => .ite c (mapRoles f a) (mapRoles f b)
  | .loop b => .loop (mapRoles f b)
  | .scope b => .scope (mapRoles f b)
  | .tryFinally a b => .tryFinally (mapRoles f a) (mapRoles f b)
  | .tryExcept a b => .tryExcept (mapRoles f a) (mapRoles f b)
  | s => s

/-- replace every call of a node method that has a skeleton by the skeleton (`SELF` ↦ the called node) -/
def inlineCalls (tbl : Table) : Stmt → Stmt
  | .call r m false =>
    match tbl.find ("remote_" ++ m) with
    | some callee => .scope (mapRoles (fun x => if x = .SELF then r else x) callee)
    | none => .call r m false
  | .seq a b => .seq (inlineCalls tbl a) (inlineCalls tbl b)
  | .ite c a b => .ite c (inlineCalls tbl a) (inlineCalls tbl b)
  | .loop b => .loop (inlineCalls tbl b)
  | .scope b => .scope (inlineCalls tbl b)
  | .tryFinally a b => .tryFinally (inlineCalls tbl a) (inlineCalls tbl b)
  | .tryExcept a b => .tryExcept (inlineCalls tbl a) (inlineCalls tbl b)
  | s => s

abbrev LPath := List LEv × Exit × Flags

def one (e : LEv) (φ : Flags) : List LPath := [([e], .norm, φ)]

/-- continue the paths of `P` that end normally with `k` -/
def andThen (P : List LPath) (k : Flags → List LPath) : List LPath :=
  P.foldl (fun acc p =>
    if p.2.1 = .norm then union acc ((k p.2.2).map (fun q => (p.1 ++ q.1, q.2.1, q.2.2)))
    else addNew p acc) []

/-- the non-exceptional, no-time-out paths with their node-lock events -/
def lockPaths : Stmt → Flags → List LPath
  | .skip, φ => [([], .norm, φ)]
  | .acquire l b, φ => one (if b then .acqT else .acq, l) φ
  | .release l, φ => one (.rel, l) φ
  | .cancel l, φ => one (.cancel, l) φ
  | .raise _, _ => []
  | .ret, φ => [([], .ret, φ)]
  | .brk, φ => [([], .brk, φ)]
  | .cont, φ => [([], .cont, φ)]
  | .setFlag i v, φ => [([], .norm, setF i v φ)]
  | .seq a b, φ => andThen (lockPaths a φ) (lockPaths b)
  | .ite .timeout _ b, φ => lockPaths b φ
  | .ite c a b, φ =>
    union (if c.canThen φ then lockPaths a φ else []) (if c.canElse φ then lockPaths b φ else [])
  | .loop b, φ => ((lockPaths b φ).filter (fun p => p.2.1 ≠ .cont)).map (fun p => (p.1, p.2.1.unloop, p.2.2))
  | .scope b, φ => union [] ((lockPaths b φ).map (fun p => (p.1, p.2.1.unscope, p.2.2)))
  | .tryFinally b f, φ =>
    (lockPaths b φ).foldl (fun acc p =>
      union acc ((lockPaths f p.2.2).map (fun q => (p.1 ++ q.1, (if q.2.1 = .norm then p.2.1 else q.2.1), q.2.2)))) []
  | .tryExcept b _, φ => lockPaths b φ
  | .opaque _, _ => []
  | _, φ => [([], .norm, φ)]

/-- the lock-event sequences of the completed normal paths that touch a lock at all -/
def lockShapes (tbl : Table) (s : Stmt) : List (List LEv) :=
  union [] (((lockPaths (inlineCalls tbl (inlineCalls tbl s)) []).filter
    (fun p => (p.2.1 = .norm ∨ p.2.1 = .ret) ∧ p.1 ≠ [])).map (fun p => p.1))

/-- the lock events of the time-out branches (they end with `cont`: retry) -/
def timeoutShapes (s : Stmt) : List (List LEv × Exit) :=
  (timeoutBranches s).flatMap (fun b => (lockPaths b []).map (fun p => (p.1, p.2.1)))

/-- the model's view: a node of the shape operations `send 0 (some 1) 2`, `gate1 1`, `new 0` -/
def roleNode : Role → Option Node
  | .SELF => some 0
  | .CUR => some 1
  | .SIM .c => some 1
  | .RECV => some 2
  | _ => none

def instrOf (e : LEv) : Option Instr :=
  match e.1, roleNode e.2 with
  | .acq, some n => some (.acq n)
  | .rel, some n => some (.rel n)
  | _, _ => none

/-- a skeleton shape as a model program without `work`; `none` if it mentions anything else -/
def toProg (sh : List LEv) : Option (List Instr) := sh.mapM instrOf

def lockOnly (p : List Instr) : List Instr := p.filter (fun i => i != .work)

def sameSet {α : Type} [DecidableEq α] (a b : List α) : Bool :=
  a.all (fun x => decide (x ∈ b)) && b.all (fun x => decide (x ∈ a))

/-- every normal path of method `s` has the lock shape of one of the operations `os`, and each of `os` occurs -/
def shapesAgree (tbl : Table) (s : Stmt) (os : List Op) : Bool :=
  sameSet ((lockShapes tbl s).map toProg) (os.map (fun o => some (lockOnly (prog o))))

end SqVerif.LockProto

import SqVerif.VNetEngine
import SqVerif.EngineLemmas
import SqVerif.Props.C14
import SqVerif.Props.C15
/-
L2 ∘ L1 — engine side of the composition (behind `Props/C01Engine.lean`).

* association lists (`aget` / `aset` / `adel`);
* `reach_step`: every engine method keeps the stabilizer state `Stab.Reachable`;
* `call_sim`: an engine call succeeds whenever the contract accepts it (C15's
  `step_refines` read backwards), and stays in step with the contract;
* `eng_sim`: `applyEOp` on the engines simulates `labOp` on the contract.
-/
set_option linter.unusedSimpArgs false
namespace SqVerif.VNetEng
open SqVerif.VNet

/-! ### association lists -/

section assoc
variable {α β : Type}

theorem aget_nil (k : Key) : aget ([] : List (Key × α)) k = none := rfl

theorem aget_cons (p : Key × α) (l : List (Key × α)) (k : Key) :
    aget (p :: l) k = if p.1 = k then some p.2 else aget l k := by
  unfold aget
  by_cases h : p.1 = k
  · simp [List.find?_cons, h]
  · simp [List.find?_cons, h]

theorem aget_adel (l : List (Key × α)) (k k' : Key) :
    aget (adel l k) k' = if k' = k then none else aget l k' := by
  induction l with
  | nil => simp [adel, aget]
  | cons p l ih =>
    unfold adel at ih ⊢
    rw [List.filter_cons]
    by_cases hp : p.1 = k
    · simp only [hp, beq_self_eq_true, Bool.not_true, Bool.false_eq_true, if_false]
      rw [ih, aget_cons]
      by_cases h : k' = k
      · simp [h]
      · have : ¬ p.1 = k' := fun e => h (e.symm.trans hp)
        simp [h, this]
    · have hb : (!(p.1 == k)) = true := by simp [hp]
      simp only [hb, if_true]
      rw [aget_cons, aget_cons, ih]
      by_cases h : k' = k
      · subst h
        simp [hp]
      · simp [h]

theorem aget_aset (l : List (Key × α)) (k : Key) (v : α) (k' : Key) :
    aget (aset l k v) k' = if k' = k then some v else aget l k' := by
  unfold aset
  rw [aget_cons, aget_adel]
  by_cases h : k' = k
  · simp [h]
  · have : ¬ k = k' := fun e => h e.symm
    simp [h, this]

theorem aget_map (f : α → β) (l : List (Key × α)) (k : Key) :
    aget (l.map fun p => (p.1, f p.2)) k = (aget l k).map f := by
  induction l with
  | nil => rfl
  | cons p l ih =>
    rw [List.map_cons, aget_cons, aget_cons, ih]
    by_cases h : p.1 = k <;> simp [h]

theorem adel_map (f : α → β) (l : List (Key × α)) (k : Key) :
    adel (l.map fun p => (p.1, f p.2)) k = (adel l k).map fun p => (p.1, f p.2) := by
  unfold adel
  rw [List.filter_map]
  rfl

theorem aset_map (f : α → β) (l : List (Key × α)) (k : Key) (v : α) :
    aset (l.map fun p => (p.1, f p.2)) k (f v) = (aset l k v).map fun p => (p.1, f p.2) := by
  unfold aset
  rw [adel_map]; rfl

theorem keys_adel_sublist (l : List (Key × α)) (k : Key) :
    ((adel l k).map (·.1)).Sublist (l.map (·.1)) :=
  (List.filter_sublist).map _

theorem not_mem_keys_adel (l : List (Key × α)) (k : Key) : k ∉ (adel l k).map (·.1) := by
  intro h
  obtain ⟨p, hp, rfl⟩ := List.mem_map.1 h
  unfold adel at hp
  have := (List.mem_filter.1 hp).2
  simp at this

theorem keys_adel_nodup (l : List (Key × α)) (k : Key) (h : (l.map (·.1)).Nodup) :
    ((adel l k).map (·.1)).Nodup := h.sublist (keys_adel_sublist l k)

theorem keys_aset_nodup (l : List (Key × α)) (k : Key) (v : α) (h : (l.map (·.1)).Nodup) :
    ((aset l k v).map (·.1)).Nodup := by
  unfold aset
  rw [List.map_cons, List.nodup_cons]
  exact ⟨not_mem_keys_adel l k, keys_adel_nodup l k h⟩

theorem aget_of_mem (l : List (Key × α)) (h : (l.map (·.1)).Nodup) (p : Key × α) (hp : p ∈ l) :
    aget l p.1 = some p.2 := by
  induction l with
  | nil => cases hp
  | cons q l ih =>
    rw [List.map_cons, List.nodup_cons] at h
    rw [aget_cons]
    rcases List.mem_cons.1 hp with rfl | hm
    · simp
    · have : ¬ q.1 = p.1 := fun e => h.1 (e ▸ List.mem_map_of_mem hm)
      rw [if_neg this]; exact ih h.2 hm

theorem mem_of_aget (l : List (Key × α)) (k : Key) (v : α) (h : aget l k = some v) : (k, v) ∈ l := by
  induction l with
  | nil => cases h
  | cons q l ih =>
    rw [aget_cons] at h
    by_cases e : q.1 = k
    · rw [if_pos e] at h
      cases h; subst e; exact List.mem_cons_self
    · rw [if_neg e] at h; exact List.mem_cons_of_mem _ (ih h)

end assoc

/-! ### every engine method keeps the state `Reachable` -/

open SqVerif.Stab in
/-- what the caller owes for `Reachable`: data brought in is itself reachable -/
def CallReach : Engine.Call → Prop
  | .absorb f => Reachable f.st
  | .absorbParts R _ => ∀ q, Engine.ofArray R = some q → Reachable q
  | .addQubit R => ∀ q, Engine.ofArray R = some q → Reachable q
  | _ => True

open SqVerif.Stab SqVerif.Engine in
theorem reach_step (e : StabEngine) (c : Call) (h : Reachable e.st) (hc : CallReach c) :
    Reachable (e.step c).2.st := by
  cases c with
  | addFresh =>
    simp only [StabEngine.step, liftRes, StabEngine.addFreshQubit]
    split
    · exact h
    · exact Reachable.tensor h Reachable.zero1
  | addQubit R =>
    simp only [StabEngine.step, liftRes, StabEngine.addQubit]
    cases hq : ofArray R with
    | none => exact h
    | some q =>
      simp only
      split
      · exact h
      · exact Reachable.tensor h (hc q hq)
  | remove j coin =>
    simp only [StabEngine.step, liftRes, StabEngine.removeQubit, StabEngine.measureQubit]
    split
    · exact h
    · cases hm : Stab.measure e.st j false coin with
      | none => exact h
      | some p => exact Reachable.measure j false coin p.1 h hm
  | measureInplace j coin =>
    simp only [StabEngine.step, liftRes, StabEngine.measureQubitInplace]
    split
    · exact h
    · cases hm : Stab.measure e.st j true coin with
      | none => exact h
      | some p => exact Reachable.measure j true coin p.1 h hm
  | measure j coin =>
    simp only [StabEngine.step, liftRes, StabEngine.measureQubit]
    cases hm : Stab.measure e.st j false coin with
    | none => exact h
    | some p => exact Reachable.measure j false coin p.1 h hm
  | gate1 g j =>
    simp only [StabEngine.step, liftRes, StabEngine.applyGate1]
    cases hm : Stab.applyGate1 g j e.st with
    | none => exact h
    | some p => exact Reachable.gate1 g j h hm
  | gate2 g c t =>
    simp only [StabEngine.step, liftRes, StabEngine.applyGate2]
    cases hm : Stab.applyGate2 g c t e.st with
    | none => exact h
    | some p => exact Reachable.gate2 g c t h hm
  | applyT j => exact h
  | rotation j => exact h
  | onequbitGate j => exact h
  | twoqubitGate c t => exact h
  | replaceQubit j => exact h
  | absorb f =>
    simp only [StabEngine.step, liftRes, StabEngine.absorb]
    split
    · exact h
    · exact Reachable.tensor h hc
  | absorbParts R a =>
    simp only [StabEngine.step, liftRes, StabEngine.absorbParts]
    split
    · exact h
    · cases hq : ofArray R with
      | none => exact h
      | some q => exact Reachable.tensor h (hc q hq)
  | getRegisterRI => exact h
  | setMax m => exact h

/-! ### an engine call succeeds whenever the contract accepts it -/

open SqVerif.Engine in
/-- C15's `step_refines` read from the contract's side: if the contract accepts the call, the
engine method does not raise, the labels are the contract's, and the engine stays in step
(size, limit) and `Reachable` -/
theorem call_sim (en : LEng) (c : Call) (ls : List Nat) (hOK : en.OK) (hc : c.LabelsOK ls) (hr : CallReach c)
    (lab' : LReg) (h : regCall en.lab (c.toSpec ls) = some lab') :
    ∃ en', en.call c ls = some en' ∧ en'.lab = lab' ∧ en'.OK ∧ en'.eng = (en.eng.step c).2 := by
  have hs := step_refines en.eng en.lab c ls ⟨hOK.size, hOK.max⟩ hc
  unfold regCall at h
  unfold LEng.call
  cases h1 : (en.lab.step (c.toSpec ls)).1 with
  | error x => rw [h1] at h; cases h
  | ok o =>
    rw [h1] at h
    simp only [Option.some.injEq] at h
    cases h2 : (en.eng.step c).1 with
    | error y =>
      rw [h1, h2] at hs
      exact absurd hs.1 (by simp [ResOK])
    | ok o' =>
      refine ⟨_, rfl, h, ⟨?_, ?_, reach_step en.eng c hOK.reach hr⟩, rfl⟩
      · exact hs.2.1
      · exact hs.2.2

theorem raiseThen_sim (en : LEng) (a : Nat) (c : Engine.Call) (ls : List Nat) (hOK : en.OK)
    (ha : a = ls.length) (hc : c.LabelsOK ls) (hr : CallReach c) (hspec : c.toSpec ls = .absorb ls)
    (y : LReg) (h : raiseThenL en.lab ls = some y) :
    ∃ en', en.raiseThen a c ls = some en' ∧ en'.lab = y ∧ en'.OK := by
  unfold raiseThenL at h
  cases h1 : regCall en.lab (.setMax (en.lab.max + ls.length)) with
  | none => rw [h1] at h; cases h
  | some x1 =>
    rw [h1] at h
    simp only [Option.bind_some] at h
    have hm : en.eng.max + a = en.lab.max + ls.length := by rw [hOK.max, ha]
    obtain ⟨en1, e1, l1, ok1, _⟩ := call_sim en (.setMax (en.eng.max + a)) [] hOK trivial trivial x1
      (by rw [hm]; exact h1)
    obtain ⟨en2, e2, l2, ok2, _⟩ := call_sim en1 c ls ok1 hc hr y (by rw [l1, hspec]; exact h)
    refine ⟨en2, ?_, l2, ok2⟩
    unfold LEng.raiseThen
    rw [e1]; exact e2

/-! ### `applyEOp` on the engines simulates `labOp` on the contract -/

theorem labs_regs_get (e : EngSt) (k : Key) : aget e.labs.regs k = (aget e.regs k).map (·.lab) :=
  aget_map _ _ _

theorem labs_flight_get (e : EngSt) (k : Key) : aget e.labs.flight k = (aget e.flight k).map (·.labs) :=
  aget_map _ _ _

theorem EngInv.setReg {e : EngSt} (hI : EngInv e) (k : Key) (en' : LEng) (h : en'.OK) :
    EngInv { e with regs := aset e.regs k en' } := by
  refine ⟨?_, hI.flight⟩
  intro k' en hk
  simp only [aget_aset] at hk
  by_cases e1 : k' = k
  · rw [if_pos e1] at hk; cases hk; exact h
  · rw [if_neg e1] at hk; exact hI.regs k' en hk

theorem labs_setReg (e : EngSt) (k : Key) (en' : LEng) :
    ({ e with regs := aset e.regs k en' } : EngSt).labs = { e.labs with regs := aset e.labs.regs k en'.lab } := by
  simp only [EngSt.labs]
  rw [← aset_map (fun en : LEng => en.lab)]

theorem onReg_sim (e : EngSt) (hI : EngInv e) (k : Key) (c : Engine.Call) (ls : List Nat)
    (hc : c.LabelsOK ls) (hr : CallReach c) (L' : LabSt) (h : e.labs.onReg k (c.toSpec ls) = some L') :
    ∃ e', e.onReg k c ls = some e' ∧ e'.labs = L' ∧ EngInv e' ∧ e'.next = e.next := by
  unfold LabSt.onReg at h
  rw [labs_regs_get] at h
  unfold EngSt.onReg
  cases hk : aget e.regs k with
  | none => rw [hk] at h; cases h
  | some en =>
    rw [hk] at h
    simp only [Option.map_some] at h
    cases hx : regCall en.lab (c.toSpec ls) with
    | none => rw [hx] at h; cases h
    | some x' =>
      rw [hx] at h
      simp only [Option.map_some, Option.some.injEq] at h
      obtain ⟨en', e1, l1, ok1, _⟩ := call_sim en c ls (hI.regs k en hk) hc hr x' hx
      refine ⟨{ e with regs := aset e.regs k en' }, by simp [e1], ?_, hI.setReg k en' ok1, rfl⟩
      rw [labs_setReg, l1]; exact h

theorem regOK_of_reachable (s : Stab.St) (h : Stab.Reachable s) : Engine.RegOK s :=
  C15.regOK_of_valid s (C14.reachable_validMax s h).toValid

theorem eng_sim (rc : Bool) (e : EngSt) (hI : EngInv e) (op : EOp) (L' : LabSt) (h : labOp e.labs op = some L') :
    ∃ e', applyEOp rc e op = some e' ∧ e'.labs = L' ∧ EngInv e' := by
  cases op with
  | newReg n r =>
    simp only [labOp, Option.some.injEq] at h
    refine ⟨_, rfl, ?_, hI.setReg _ _ ⟨rfl, rfl, Stab.Reachable.empty⟩⟩
    rw [labs_setReg]; exact h
  | delReg n r =>
    simp only [labOp] at h
    rw [labs_regs_get] at h
    simp only [applyEOp]
    cases hk : aget e.regs (n, r) with
    | none => rw [hk] at h; cases h
    | some en =>
      rw [hk] at h
      simp only [Option.map_some, Option.some.injEq] at h
      refine ⟨_, rfl, ?_, ?_, hI.flight⟩
      · rw [← h]; simp only [EngSt.labs]; rw [adel_map]
      · intro k' en' hk'
        simp only [aget_adel] at hk'
        by_cases e1 : k' = (n, r)
        · rw [if_pos e1] at hk'; cases hk'
        · rw [if_neg e1] at hk'; exact hI.regs k' en' hk'
  | addFresh n r =>
    simp only [labOp] at h
    cases h1 : e.labs.onReg (n, r) (.add [e.labs.next]) with
    | none => rw [h1] at h; cases h
    | some L1 =>
      rw [h1] at h
      simp only [Option.map_some, Option.some.injEq] at h
      obtain ⟨e1, he1, hl1, hi1, _⟩ := onReg_sim e hI (n, r) .addFresh [e.next] rfl trivial L1 h1
      refine ⟨{ e1 with next := e.next + 1 }, by simp [applyEOp, he1], ?_, ⟨hi1.regs, hi1.flight⟩⟩
      rw [← h, ← hl1]; rfl
  | gate1 g n r p =>
    obtain ⟨e1, he1, hl1, hi1, _⟩ := onReg_sim e hI (n, r) (g1Call g p) [] (by cases g <;> trivial)
      (by cases g <;> trivial) L' h
    exact ⟨e1, he1, hl1, hi1⟩
  | gate2 g n r c t =>
    obtain ⟨e1, he1, hl1, hi1, _⟩ := onReg_sim e hI (n, r) (.gate2 (g2Gate g) c t) [] trivial trivial L' h
    exact ⟨e1, he1, hl1, hi1⟩
  | measInplace n r p oc =>
    obtain ⟨e1, he1, hl1, hi1, _⟩ := onReg_sim e hI (n, r) (.measureInplace p oc) [] trivial trivial L' h
    exact ⟨e1, he1, hl1, hi1⟩
  | remove n r p =>
    obtain ⟨e1, he1, hl1, hi1, _⟩ := onReg_sim e hI (n, r) (.remove p rc) [] trivial trivial L' h
    exact ⟨e1, he1, hl1, hi1⟩
  | absorb n r1 r2 =>
    simp only [labOp] at h
    rw [labs_regs_get, labs_regs_get] at h
    simp only [applyEOp]
    cases hk1 : aget e.regs (n, r1) with
    | none => rw [hk1] at h; simp at h
    | some en1 =>
      cases hk2 : aget e.regs (n, r2) with
      | none => rw [hk1, hk2] at h; simp at h
      | some en2 =>
        rw [hk1, hk2] at h
        simp only [Option.map_some] at h
        cases hy : raiseThenL en1.lab en2.lab.slots with
        | none => rw [hy] at h; cases h
        | some y =>
          rw [hy] at h
          simp only [Option.map_some, Option.some.injEq] at h
          have ok2 := hI.regs _ _ hk2
          obtain ⟨en', e1, l1, ok1⟩ := raiseThen_sim en1 en2.eng.active (.absorb en2.eng) en2.lab.slots
            (hI.regs _ _ hk1) ok2.size ok2.size ok2.reach rfl y hy
          refine ⟨{ e with regs := aset e.regs (n, r1) en' }, by simp [e1], ?_, hI.setReg _ en' ok1⟩
          rw [labs_setReg, l1]; exact h
  | exportDel n r =>
    simp only [labOp] at h
    rw [labs_regs_get] at h
    simp only [applyEOp]
    cases hk : aget e.regs (n, r) with
    | none => rw [hk] at h; cases h
    | some en =>
      rw [hk] at h
      simp only [Option.map_some, Option.some.injEq] at h
      have ok := hI.regs _ _ hk
      refine ⟨_, rfl, ?_, hI.regs, ?_⟩
      · rw [← h]; simp only [EngSt.labs]
        rw [← aset_map (fun f : Flight => f.labs)]
      · intro k' f hk'
        simp only [aget_aset] at hk'
        by_cases e1 : k' = (n, r)
        · rw [if_pos e1] at hk'; cases hk'
          exact ⟨ok.size, en.eng.st, Engine.ofArray_toArray _ (regOK_of_reachable _ ok.reach), ok.size, ok.reach⟩
        · rw [if_neg e1] at hk'; exact hI.flight k' f hk'
  | absorbParts n r sn sr =>
    simp only [labOp] at h
    rw [labs_regs_get, labs_flight_get] at h
    simp only [applyEOp]
    cases hk1 : aget e.regs (n, r) with
    | none => rw [hk1] at h; simp at h
    | some en =>
      cases hk2 : aget e.flight (sn, sr) with
      | none => rw [hk1, hk2] at h; simp at h
      | some f =>
        rw [hk1, hk2] at h
        simp only [Option.map_some] at h
        cases hy : raiseThenL en.lab f.labs with
        | none => rw [hy] at h; cases h
        | some y =>
          rw [hy] at h
          simp only [Option.map_some, Option.some.injEq] at h
          have okf := hI.flight _ _ hk2
          obtain ⟨q, hq, hqn, hqr⟩ := okf.data
          obtain ⟨en', e1, l1, ok1⟩ := raiseThen_sim en f.activeQ (.absorbParts f.R f.activeQ) f.labs
            (hI.regs _ _ hk1) okf.size ⟨okf.size, q, hq, hqn⟩
            (fun q' hq' => by rw [hq] at hq'; cases hq'; exact hqr) rfl y hy
          refine ⟨{ e with regs := aset e.regs (n, r) en', flight := adel e.flight (sn, sr) }, by simp [e1], ?_, ?_, ?_⟩
          · rw [← h, ← l1]; simp only [EngSt.labs]
            rw [← aset_map (fun en : LEng => en.lab), adel_map]
          · intro k' en'' hk'
            simp only [aget_aset] at hk'
            by_cases e2 : k' = (n, r)
            · rw [if_pos e2] at hk'; cases hk'; exact ok1
            · rw [if_neg e2] at hk'; exact hI.regs k' en'' hk'
          · intro k' f' hk'
            simp only [aget_adel] at hk'
            by_cases e2 : k' = (sn, sr)
            · rw [if_pos e2] at hk'; cases hk'
            · rw [if_neg e2] at hk'; exact hI.flight k' f' hk'

/-- a successful method call on a register object, unfolded -/
theorem onReg_get {e e' : EngSt} {k : Key} {c : Engine.Call} {ls : List Nat} (h : e.onReg k c ls = some e') :
    ∃ en en', aget e.regs k = some en ∧ en.call c ls = some en' ∧ aget e'.regs k = some en' ∧
      en'.lab = (en.lab.step (c.toSpec ls)).2 := by
  unfold EngSt.onReg at h
  cases hk : aget e.regs k with
  | none => rw [hk] at h; cases h
  | some en =>
    rw [hk] at h
    simp only at h
    cases hc : en.call c ls with
    | none => rw [hc] at h; cases h
    | some en' =>
      rw [hc] at h
      simp only [Option.map_some, Option.some.injEq] at h
      subst h
      refine ⟨en, en', rfl, hc, by simp [aget_aset], ?_⟩
      unfold LEng.call at hc
      split at hc
      · cases hc; rfl
      · cases hc

theorem labOps_append (L : LabSt) (a b : List EOp) :
    labOps L (a ++ b) = (labOps L a).bind fun L' => labOps L' b := by
  induction a generalizing L with
  | nil => rfl
  | cons op a ih =>
    simp only [List.cons_append, labOps]
    cases labOp L op with
    | none => rfl
    | some L1 => simp only [Option.bind_some]; exact ih L1

theorem runOps_append (rc : Bool) (e : EngSt) (a b : List EOp) :
    runOps rc e (a ++ b) = (runOps rc e a).bind fun e' => runOps rc e' b := by
  induction a generalizing e with
  | nil => rfl
  | cons op a ih =>
    simp only [List.cons_append, runOps]
    cases applyEOp rc e op with
    | none => rfl
    | some e1 => simp only [Option.bind_some]; exact ih e1

theorem engs_sim (rc : Bool) (ops : List EOp) : ∀ (e : EngSt), EngInv e → ∀ L', labOps e.labs ops = some L' →
    ∃ e', runOps rc e ops = some e' ∧ e'.labs = L' ∧ EngInv e' := by
  induction ops with
  | nil => intro e hI L' h; exact ⟨e, rfl, by simpa [labOps] using h, hI⟩
  | cons op ops ih =>
    intro e hI L' h
    simp only [labOps] at h
    cases h1 : labOp e.labs op with
    | none => rw [h1] at h; cases h
    | some L1 =>
      rw [h1] at h
      simp only [Option.bind_some] at h
      obtain ⟨e1, he1, hl1, hi1⟩ := eng_sim rc e hI op L1 h1
      obtain ⟨e2, he2, hl2, hi2⟩ := ih e1 hi1 L' (by rw [hl1]; exact h)
      exact ⟨e2, by simp [runOps, he1, he2], hl2, hi2⟩

end SqVerif.VNetEng

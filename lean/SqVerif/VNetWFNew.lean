import SqVerif.VNetWFBase
/-
L2 — `remote_new_qubit` preserves well-formedness (C02), and the exact
success condition of a creation (C07).
-/
namespace SqVerif.VNet.WFP
open List

def newNode (s : Net) (n : Node) : Node :=
  { n with numRegs := n.numRegs + 1, nextReg := n.nextReg + 1,
           regs := n.regs ++ [{ num := n.nextReg, max := 10, toks := [s.nextTok] }],
           sim := n.sim ++ [s.sqs.length], virt := n.virt ++ [s.vqs.length] }

def newNet (s : Net) (a : Nat) (n : Node) : Net :=
  { nodes := s.nodes.set a (newNode s n),
    sqs := s.sqs ++ [{ node := a, simNum := firstFree (simNums s n), reg := n.nextReg, pos := 0, active := true }],
    vqs := s.vqs ++ [{ virtNode := a, num := firstFree (virtNums s n), simNode := a, simObj := s.sqs.length, active := true }],
    nextTok := s.nextTok + 1 }

theorem modify_modify_eq_set {α} (l : List α) (i : Nat) (f g : α → α) (a : α) (h : l[i]? = some a) :
    (l.modify i f).modify i g = l.set i (g (f a)) := by
  apply ext_getElem?
  intro j
  simp only [getElem?_modify, getElem?_set]
  by_cases hij : i = j
  · subst hij
    have : i < l.length := by
      rcases Nat.lt_or_ge i l.length with h' | h'
      · exact h'
      · rw [getElem?_eq_none h'] at h; cases h
    obtain ⟨_, e⟩ := List.getElem?_eq_some_iff.1 h
    simp [this, e]
  · simp [hij]

theorem stepNew_ok {s : Net} {a : Nat} {n : Node} (hn : s.nodes[a]? = some n)
    (hfresh : ∀ r, r ∈ n.regs → r.num < n.nextReg)
    (h1 : n.virt.length < n.maxQubits) (h2 : n.numRegs < n.maxRegs) :
    stepNew s a = (newNet s a n, .handle s.vqs.length, [.newReg a n.nextReg, .addFresh a n.nextReg]) := by
  unfold stepNew addRegister
  simp only [hn, ge_iff_le, Nat.not_le.2 h1, Nat.not_le.2 h2, if_false, modNode]
  simp only [Prod.mk.injEq, and_true]
  unfold newNet
  congr 1
  rw [modify_modify_eq_set _ _ _ _ _ hn]
  congr 1
  unfold newNode Node.modReg
  simp only [map_append, map_cons, map_nil, beq_self_eq_true, if_true, nil_append]
  congr 2
  exact map_ite_eq_self (fun r hr => Nat.ne_of_lt (hfresh r hr))

theorem newNet_nodes {s : Net} {a : Nat} {n : Node} (hn : s.nodes[a]? = some n) (i : Nat) :
    (newNet s a n).nodes[i]? = if i = a then some (newNode s n) else s.nodes[i]? := by
  unfold newNet
  simp only [getElem?_set]
  have : a < s.nodes.length := by
    rcases Nat.lt_or_ge a s.nodes.length with h' | h'
    · exact h'
    · rw [getElem?_eq_none h'] at hn; cases hn
  by_cases h : a = i
  · subst h; simp [this]
  · have : ¬ i = a := fun e => h e.symm
    simp [h, this]

theorem nodeP_newNet_same {s : Net} {a : Nat} {n : Node} (w : WFp none s) (hn : s.nodes[a]? = some n)
    (h1 : n.virt.length < n.maxQubits) : NodeP none (newNet s a n) a (newNode s n) := by
  have wn := w.nodes a n hn
  have hvl : ∀ h, h ∈ n.virt → h < s.vqs.length := fun h hh => wn.virt_lt hh
  have hsl : ∀ o, o ∈ n.sim → o < s.sqs.length := fun h hh => wn.sim_lt hh
  have hnd := newNet_nodes hn
  have hff1 := firstFree_not_mem (simNums s n)
  have hff2 := firstFree_not_mem (virtNums s n)
  obtain ⟨f1, f2, f3, f4, f5, f6, f7, f8, f9, f10, f11, f12, f13, f14, f15, f16⟩ := wn
  refine { virtNodup := ?_, simNodup := ?_, virtNumsInj := ?_, simNumsInj := ?_, numRegs := ?_,
           regNumsInj := ?_, regNumsNodup := ?_, regNumsFresh := ?_, regsNonEmpty := ?_,
           regsWithinMax := ?_, cap := ?_, virtOK := ?_, simOK := ?_, posInj := ?_, posLt := ?_, posSurj := ?_ }
  · simp only [newNode]
    grind [nodup_append]
  · simp only [newNode]
    grind [nodup_append]
  · simp only [newNode, newNet, virtNums, mem_filterMap] at *
    grind
  · simp only [newNode, newNet, simNums, mem_filterMap] at *
    grind
  · simp only [newNode]
    grind
  · simp only [newNode]
    grind
  · simp only [newNode]
    grind [nodup_append]
  · simp only [newNode]
    grind
  · simp only [newNode]
    grind
  · simp only [newNode]
    grind
  · simp only [newNode]
    grind
  · intro h hh
    simp only [newNode, mem_append, mem_singleton] at hh
    rcases hh with hh | rfl
    · obtain ⟨vq, e1, e2, e3, sn, e4, e5⟩ := f12 h hh
      have := hvl h hh
      refine ⟨vq, by simp [newNet, getElem?_append_left this, e1], e2, e3, ?_⟩
      rw [hnd]
      by_cases hs : vq.simNode = a
      · rw [if_pos hs]; refine ⟨_, rfl, ?_⟩
        rw [hs, hn] at e4; cases e4; simp [newNode, e5]
      · rw [if_neg hs]; exact ⟨sn, e4, e5⟩
    · refine ⟨_, getElem?_concat_length, rfl, rfl, ?_⟩
      simp only [hnd, if_true]
      exact ⟨_, rfl, by simp [newNode]⟩
  · intro o ho
    simp only [newNode, mem_append, mem_singleton] at ho
    rcases ho with ho | rfl
    · obtain ⟨sq, e1, e2, e3, r, e4, e5⟩ := f13 o ho
      have := hsl o ho
      exact ⟨sq, by simp [newNet, getElem?_append_left this, e1], e2, e3, r, by simp [newNode, e4], e5⟩
    · exact ⟨_, getElem?_concat_length, rfl, rfl, _, mem_append_right _ (mem_singleton_self _), rfl⟩
  · simp only [newNode, newNet]
    grind
  · simp only [newNode, newNet]
    grind
  · intro r p hr hp
    simp only [newNode, mem_append, mem_singleton] at hr
    rcases hr with hr | rfl
    · obtain ⟨o, q, e1, e2, e3, e4⟩ := f16 r p hr hp
      have := hsl o e1
      exact ⟨o, q, by simp [newNode, e1], by simp [newNet, getElem?_append_left this, e2], e3, e4⟩
    · simp at hp; subst hp
      exact ⟨s.sqs.length, _, by simp [newNode], getElem?_concat_length, rfl, rfl⟩

theorem lt_of_nodes {s : Net} {a : Nat} {n : Node} (hn : s.nodes[a]? = some n) : a < s.nodes.length :=
  lt_length_of_getElem? hn

theorem mem_allHeld_newNet {s : Net} {a : Nat} {n : Node} (hn : s.nodes[a]? = some n) {h : Nat} :
    h ∈ allHeld (newNet s a n) ↔ h ∈ allHeld s ∨ h = s.vqs.length := by
  simp only [mem_allHeld, newNet_nodes hn]
  constructor
  · rintro ⟨i, m, e, hm⟩
    by_cases hi : i = a
    · rw [if_pos hi] at e; cases e
      simp only [newNode, mem_append, mem_singleton] at hm
      rcases hm with hm | hm
      · exact Or.inl ⟨a, n, hn, hm⟩
      · exact Or.inr hm
    · rw [if_neg hi] at e; exact Or.inl ⟨i, m, e, hm⟩
  · rintro (⟨i, m, e, hm⟩ | rfl)
    · by_cases hi : i = a
      · subst hi; rw [hn] at e; cases e
        exact ⟨i, _, by rw [if_pos rfl], by simp [newNode, hm]⟩
      · exact ⟨i, m, by rw [if_neg hi]; exact e, hm⟩
    · exact ⟨a, _, by rw [if_pos rfl], by simp [newNode]⟩

theorem mem_allSim_newNet {s : Net} {a : Nat} {n : Node} (hn : s.nodes[a]? = some n) {o : Nat} :
    o ∈ allSim (newNet s a n) ↔ o ∈ allSim s ∨ o = s.sqs.length := by
  simp only [mem_allSim, newNet_nodes hn]
  constructor
  · rintro ⟨i, m, e, hm⟩
    by_cases hi : i = a
    · rw [if_pos hi] at e; cases e
      simp only [newNode, mem_append, mem_singleton] at hm
      rcases hm with hm | hm
      · exact Or.inl ⟨a, n, hn, hm⟩
      · exact Or.inr hm
    · rw [if_neg hi] at e; exact Or.inl ⟨i, m, e, hm⟩
  · rintro (⟨i, m, e, hm⟩ | rfl)
    · by_cases hi : i = a
      · subst hi; rw [hn] at e; cases e
        exact ⟨i, _, by rw [if_pos rfl], by simp [newNode, hm]⟩
      · exact ⟨i, m, by rw [if_neg hi]; exact e, hm⟩
    · exact ⟨a, _, by rw [if_pos rfl], by simp [newNode]⟩

theorem allToks_newNet {s : Net} {a : Nat} {n : Node} (hn : s.nodes[a]? = some n) :
    (allToks (newNet s a n)).Perm (allToks s ++ [s.nextTok]) := by
  have := @perm_flatMap_set _ _ nodeToks n (newNode s n) [s.nextTok] [] s.nodes a hn
    (by simp [nodeToks, newNode])
  simpa [allToks_eq, newNet] using this

theorem wfp_newNet {s : Net} {a : Nat} {n : Node} (w : WFp none s) (hn : s.nodes[a]? = some n)
    (h1 : n.virt.length < n.maxQubits) : WFp none (newNet s a n) := by
  have hnd := newNet_nodes (s := s) hn
  have hvq : ∀ h, h < s.vqs.length → (newNet s a n).vqs[h]? = s.vqs[h]? := by
    intro h hh; simp [newNet, getElem?_append_left hh]
  have hsq : ∀ o, o < s.sqs.length → (newNet s a n).sqs[o]? = s.sqs[o]? := by
    intro h hh; simp [newNet, getElem?_append_left hh]
  refine { nodes := ?_, backInj := ?_, backSurj := ?_, staleInactive := ?_, toksNodup := ?_, toksFresh := ?_ }
  · intro i m e
    rw [hnd] at e
    by_cases hi : i = a
    · rw [if_pos hi] at e; cases e; subst hi
      exact nodeP_newNet_same w hn h1
    · rw [if_neg hi] at e
      have wm := w.nodes i m e
      apply wm.frame
      · intro h hh; exact hvq h (wm.virt_lt hh)
      · intro o ho; exact hsq o (wm.sim_lt ho)
      · intro h vq m' hh e1 e2 e3
        rw [hnd]
        by_cases hs : vq.simNode = a
        · rw [if_pos hs]; refine ⟨_, rfl, ?_⟩
          rw [hs, hn] at e2; cases e2; simp [newNode, e3]
        · rw [if_neg hs]; exact ⟨m', e2, e3⟩
  · intro h h' vq vq' hh hh' e e' eo
    rw [mem_allHeld_newNet hn] at hh hh'
    have new : (newNet s a n).vqs[s.vqs.length]? = some _ := getElem?_concat_length
    rcases hh with hh | rfl <;> rcases hh' with hh' | rfl
    · rw [hvq h (w.held_lt hh)] at e; rw [hvq h' (w.held_lt hh')] at e'
      exact w.backInj h h' vq vq' hh hh' e e' eo
    · rw [hvq h (w.held_lt hh)] at e
      rw [new] at e'; cases e'
      have := w.sim_lt (w.held_simObj hh e)
      simp only at eo; omega
    · rw [hvq h' (w.held_lt hh')] at e'
      rw [new] at e; cases e
      have := w.sim_lt (w.held_simObj hh' e')
      simp only at eo; omega
    · rfl
  · intro o ho
    rw [mem_allSim_newNet hn] at ho
    rcases ho with ho | rfl
    · obtain ⟨h, vq, e1, e2, e3⟩ := w.backSurj o ho
      exact ⟨h, vq, (mem_allHeld_newNet hn).2 (Or.inl e1), (hvq h (w.held_lt e1)).trans e2, e3⟩
    · exact ⟨s.vqs.length, _, (mem_allHeld_newNet hn).2 (Or.inr rfl), getElem?_concat_length, rfl⟩
  · intro h vq e hh
    rw [mem_allHeld_newNet hn] at hh
    have hlt : h < s.vqs.length := by
      have := lt_length_of_getElem? e
      simp only [newNet, length_append, length_cons, length_nil] at this
      omega
    rw [hvq h hlt] at e
    exact w.staleInactive h vq e (fun hc => hh (Or.inl hc))
  · rw [(allToks_newNet hn).nodup_iff, nodup_append]
    refine ⟨w.toksNodup, by simp, ?_⟩
    intro x hx y hy
    simp only [mem_singleton] at hy
    have := w.toksFresh x hx
    omega
  · intro t ht
    rw [(allToks_newNet hn).mem_iff, mem_append, mem_singleton] at ht
    simp only [newNet]
    rcases ht with ht | rfl
    · have := w.toksFresh t ht; omega
    · omega

/-- all three outcomes of `remote_new_qubit` at a valid node -/
theorem stepNew_cases {s : Net} {a : Nat} {n : Node} (w : WFp none s) (hn : s.nodes[a]? = some n) :
    (n.virt.length < n.maxQubits ∧ n.numRegs < n.maxRegs ∧
      stepNew s a = (newNet s a n, .handle s.vqs.length, [.newReg a n.nextReg, .addFresh a n.nextReg])) ∨
    (n.maxQubits ≤ n.virt.length ∧ stepNew s a = (s, .err .noQubit, [])) ∨
    (n.virt.length < n.maxQubits ∧ n.maxRegs ≤ n.numRegs ∧ stepNew s a = (s, .err .quantum, [])) := by
  rcases Nat.lt_or_ge n.virt.length n.maxQubits with h1 | h1
  · rcases Nat.lt_or_ge n.numRegs n.maxRegs with h2 | h2
    · exact Or.inl ⟨h1, h2, stepNew_ok hn (w.nodes a n hn).regNumsFresh h1 h2⟩
    · refine Or.inr (Or.inr ⟨h1, h2, ?_⟩)
      unfold stepNew addRegister
      simp [hn, Nat.not_le.2 h1, h2]
  · refine Or.inr (Or.inl ⟨h1, ?_⟩)
    unfold stepNew
    simp [hn, h1]

theorem stepNew_bad {s : Net} {a : Nat} (hn : s.nodes[a]? = none) : stepNew s a = (s, .badCall, []) := by
  unfold stepNew; simp [hn]

theorem wfp_stepNew {s : Net} (w : WFp none s) (a : Nat) : WFp none (stepNew s a).1 := by
  cases hn : s.nodes[a]? with
  | none => rw [stepNew_bad hn]; exact w
  | some n =>
    rcases stepNew_cases w hn with ⟨h1, _, e⟩ | ⟨_, e⟩ | ⟨_, _, e⟩
    · rw [e]; exact wfp_newNet w hn h1
    · rw [e]; exact w
    · rw [e]; exact w

end SqVerif.VNet.WFP

"""CLI stage of C16 and C18: the real click commands of simulaqron/simulaqron.py, one fresh interpreter per command.

What users drive is `simulaqron nodes add/remove/default/get`, `simulaqron set/get ...`, `simulaqron reset`; the
classes the two checks model (`NetworksConfigConstructor`, `Config`) sit behind that glue.  This module runs
command scripts through the console entry point `simulaqron.simulaqron:cli` in a private installation directory
(`Sandbox`: symlinks to the scratch copy of the package + its own `config/`, `.simulaqron_pids/`, HOME and working
directory, all under the scratch directory of `core.scratch_repo()`), and after every command

  * re-reads the files the command left behind (settings.json, every network file, the user's override file),
  * translates the command into the edit(s) of the existing model drivers `config` / `settings` it has to amount
    to (`translate16` / `lines18`; a CLI process is a `reload` / `restart`, the default file a process creates at
    start-up is `new; reset`) and compares the canonical observations (tie),
  * judges the files with the model-independent oracles of c16.py / c18.py plus a few oracles of the glue itself
    (the edit lands where the user said, a refused / declined / malformed command changes nothing, `get` prints
    what a fresh process reads, nothing outside the expected files is touched).

From outside only: the OS bind probe is scripted at the socket level (`socket.socket.bind` of the child process:
the real `_check_socket_is_free` runs), and the package `daemons` (not installed here; nothing may be launched) is
a recording stand-in (harness/cli_shims).  Nothing under /repo, /verif or the real HOME is ever written."""
import concurrent.futures as cf
import json
import os
import re
import shutil
import subprocess
import tempfile
import threading

from . import core

PYTHON = "/venv/bin/python"
SHIMS = os.path.join(os.path.dirname(os.path.abspath(__file__)), "cli_shims")
LOCK = threading.Lock()          # the in-process oracles share the settings object of the scratch copy

CLI_MAIN = r'''
import sys, os, json, socket, traceback
spec = json.loads(os.environ["SQV_CLI_SPEC"])
kind, ports = spec["probe"]
_Real = socket.socket
class _Scripted(_Real):
    """the OS as the harness scripts it: bind() never binds, it fails on the ports scripted as busy"""
    def bind(self, address):
        port = address[1]
        if not (0 <= port <= 65535):
            raise OverflowError("bind(): port must be 0-65535.")
        free = (port not in ports) if kind == "busy" else (port in ports)
        if not free:
            raise OSError(98, "Address already in use (scripted)")
socket.socket = _Scripted
sys.argv = ["simulaqron"] + spec["argv"]
out = {"boot": "ok", "exit": None, "raised": None, "detail": "", "where": []}
def dump():
    try:
        from simulaqron.settings import simulaqron_settings as s
        out["config"] = json.loads(json.dumps(s._config, default=lambda o: "<unserialisable>"))
    except BaseException:
        out["config"] = None
    with open(spec["dump"], "w") as f:
        json.dump(out, f)
def note(e):
    out["detail"] = str(e)[:300]
    out["where"] = [f.name for f in traceback.extract_tb(e.__traceback__)]
try:
    from simulaqron.simulaqron import cli          # the console script: simulaqron=simulaqron.simulaqron:cli
except BaseException as e:
    out["boot"] = type(e).__name__
    note(e)
    traceback.print_exc()
    dump()
    sys.exit(1)
try:
    cli(prog_name="simulaqron")
    out["exit"] = 0
except SystemExit as e:
    out["exit"] = e.code if isinstance(e.code, int) else (0 if e.code is None else 1)
except BaseException as e:
    out["exit"] = 1
    out["raised"] = type(e).__name__
    note(e)
    traceback.print_exc()
dump()
sys.exit(out["exit"])
'''


# --------------------------------------------------------------------------
# a private installation: package directory, HOME, working directory
# --------------------------------------------------------------------------

class Sandbox:
    def __init__(self, scratch, root):
        if not os.path.abspath(root).startswith(os.path.abspath(scratch) + os.sep):
            raise core.MachineryError("CLI sandbox root %s is outside the scratch directory" % root)
        self.d = tempfile.mkdtemp(prefix="cli", dir=root)
        pkg = os.path.join(self.d, "simulaqron")
        os.makedirs(os.path.join(pkg, "config"))
        os.makedirs(os.path.join(pkg, ".simulaqron_pids"))
        src = os.path.join(scratch, "simulaqron")
        for n in os.listdir(src):
            if n not in ("config", "__pycache__", ".simulaqron_pids"):
                os.symlink(os.path.join(src, n), os.path.join(pkg, n))
        self.pkg = pkg
        self.home = os.path.join(self.d, "home")
        self.cwd = os.path.join(self.d, "work")
        self.aux = os.path.join(self.d, "_harness")
        for p in (self.home, self.cwd, self.aux):
            os.makedirs(p)
        self.store = os.path.join(pkg, "config", "settings.json")
        self.netdef = os.path.join(pkg, "config", "network.json")
        self.user = os.path.join(self.home, ".simulaqron.json")
        self.side = os.path.join(self.aux, "side_network.json")
        self.dumpf = os.path.join(self.aux, "dump.json")
        self.dlog = os.path.join(self.aux, "daemons.log")
        self.env = dict(os.environ, PYTHONPATH=self.d + os.pathsep + SHIMS, HOME=self.home,
                        PYTHONDONTWRITEBYTECODE="1", OMP_NUM_THREADS="1", OPENBLAS_NUM_THREADS="1",
                        SQV_DAEMON_LOG=self.dlog)
        self.xenv = {"PYTHONPATH": self.d, "HOME": self.home}      # for the settings reader of c18.py

    def path(self, value):
        """a file name as a CLI process resolves it (relative to its working directory)"""
        return os.path.normpath(os.path.join(self.cwd, value))

    def snapshot(self):
        """{absolute path: bytes} of every regular file of the installation (the harness' own side files excluded)"""
        snap = {}
        for root, dirs, files in os.walk(self.d):
            if root == self.d and "_harness" in dirs:
                dirs.remove("_harness")
            for f in files:
                p = os.path.join(root, f)
                if not os.path.islink(p):
                    with open(p, "rb") as fh:
                        snap[p] = fh.read()
        return snap

    def run(self, argv, stdin="", probe=("busy", [])):
        for p in (self.dumpf, self.dlog):
            if os.path.exists(p):
                os.remove(p)
        spec = {"argv": list(argv), "probe": [probe[0], list(probe[1])], "dump": self.dumpf}
        env = dict(self.env, SQV_CLI_SPEC=json.dumps(spec))
        try:
            p = subprocess.run([PYTHON, "-W", "ignore", "-c", CLI_MAIN], input=stdin, cwd=self.cwd, env=env,
                               capture_output=True, text=True, timeout=300)
        except subprocess.TimeoutExpired:
            raise core.MachineryError("CLI command timed out: %r" % (argv,))
        r = {"code": p.returncode, "out": p.stdout, "err": p.stderr, "boot": "crash:interpreter", "exit": None,
             "raised": None, "detail": "", "where": [], "config": None, "daemon": []}
        if os.path.exists(self.dumpf):
            with open(self.dumpf) as f:
                r.update(json.load(f))
        else:
            r["detail"] = (p.stderr or p.stdout)[-300:]
        if os.path.exists(self.dlog):
            with open(self.dlog) as f:
                r["daemon"] = [json.loads(l) for l in f if l.strip()]
        return r

    def close(self):
        shutil.rmtree(self.d, ignore_errors=True)


def classify(r):
    """how a command ended: ok | usage | abort | inUse | noPort | loadError | crash:<Exception>"""
    exc, detail, where = r["raised"], r["detail"], r["where"]
    if r["boot"] != "ok":
        exc = r["boot"]
    if exc is None:
        return "ok" if r["exit"] == 0 else "usage" if r["exit"] == 2 else "abort"
    if exc == "ValueError" and "already in use" in detail:
        return "inUse"
    if exc == "ValueError" and "no unused port" in detail:
        return "noPort"
    if "read_from_file" in where:
        return "loadError"
    return "crash:" + exc


def positive(answer):
    return answer in ("yes", "y")            # what the prompts document: (yes/no)


def confirm_args(confirm):
    """(extra argv, stdin, does the command go ahead)"""
    if confirm in ("-f", "--force"):
        return [confirm], "", True
    return [], confirm + "\n", positive(confirm)


# ==========================================================================
#                                   C16
# ==========================================================================

FIVE = ["Alice", "Bob", "Charlie", "David", "Eve"]
SOCK_KEYS = ("app_socket", "qnodeos_socket", "vnode_socket")
NAMES16 = ["Alice", "Bob", "Eve", "alice", "Zoë", "B0b", "Charlie", "Frank"]
NETS16 = [None, None, None, "default", "n1", "n2"]
HOSTS16 = [None, None, None, "localhost", "127.0.0.1", "127.0.0.2"]
PORTS16 = [8000, 8001, 8002, 8003, 8007, 8014, 8015, 8016, 8030, 7999, 9000, 9001, 12345]
FILES16 = ["netA.json", "net-B.json"]
CONFIRM = ["-f", "-f", "-f", "-f", "--force", "yes", "y", "no", "", "Y", "n", "yes please", "YES"]


def argv16(step):
    """(argv, stdin) of one scripted command"""
    c = step["cmd"]
    if c in ("bad", "start", "plain"):
        return list(step["argv"]), step.get("stdin", "")
    if c == "setfile":
        return ["set", "network-config-file", step["file"]], ""
    if c == "setdefault":
        return ["set", "default"], ""
    if c == "get":
        return ["nodes", "get"] + (["--network-name", step["net"]] if step["net"] is not None else []), ""
    extra, stdin, _ = confirm_args(step["confirm"])
    if c == "reset":
        return ["reset"] + extra, stdin
    netopt = ["--network-name", step["net"]] if step["net"] is not None else []
    if c == "remove":
        return ["nodes", "remove"] + netopt + [step["name"]] + extra, stdin
    if c == "default":
        return ["nodes", "default"] + netopt + extra, stdin
    if c == "add":
        a = ["nodes", "add"]
        opts = list(netopt)
        if step["host"] is not None:
            opts += ["--hostname=" + step["host"]] if step.get("eq") else ["--hostname", step["host"]]
        for o, p in zip(("--app-port", "--qnodeos-port", "--vnode-port"), step["ports"]):
            if p is not None:
                opts += [o, str(p)]
        if step["nb"] is not None:
            opts += ["--neighbors", step.get("nbsep", ",").join(step["nb"])]
        # click accepts the NAME argument before, between or after the options
        return (a + [step["name"]] + opts + extra) if step.get("name_first") else (a + opts + extra + [step["name"]]), stdin
    raise core.MachineryError("unknown CLI step %r" % (step,))


def edit16(step):
    """the model edit a confirmed command amounts to (c16.py's edit dictionaries), None if it edits no network file"""
    c = step["cmd"]
    if c == "add":
        return {"op": "addnode", "name": step["name"], "net": step["net"],
                "socks": [[step["host"], p] for p in step["ports"]], "nb": step["nb"]}
    if c == "remove":
        return {"op": "rmnode", "name": step["name"], "net": step["net"]}
    if c == "default":        # add_network(node_names=[Alice .. Eve], network_name=...)
        return {"op": "addnet", "net": step["net"], "names": list(FIVE), "topo": None}
    return None


def strip_used(s):
    """the list of reserved sockets is internal to a process: not observable through the CLI"""
    return " ".join(t for t in s.split(" ") if not t.startswith("used="))


def agree16(got, want):
    """model output vs expectation; an expectation of one word is an outcome only"""
    if " " not in want and not want.startswith(("app:", "KeyError")):
        return got.split(" ")[0] == want
    return strip_used(got) == strip_used(want)


class Run16:
    """one command script in one sandbox"""

    def __init__(self, E, script):
        self.E, self.script = E, script
        self.c16, self.mods = E["c16"], E["mods"]
        self.sb = Sandbox(E["scratch"], E["root"])
        self.probe = ("busy", [])
        self.model_file, self.sync = None, False
        self.lines = [("new", None)]
        self.viol = []
        self.stats = {"cmds": [], "outcomes": [], "processes": 0, "max_nodes": 0, "refusals": 0, "edits": 0}
        self.broken = set()            # network files the harness itself left structurally broken

    # ---- helpers --------------------------------------------------------

    def envline(self):
        return (self.c16.line_of({"op": "env", "kind": self.probe[0], "ports": list(self.probe[1])}), "ok")

    def cur_file(self, snap):
        """the network file a process starting on this snapshot uses: the stored setting, unless the user's override
        file sets the key (and overrides are on) - the documented precedence, not the code's"""
        def obj(path):
            try:
                d = json.loads(snap[path].decode())
                return d if isinstance(d, dict) else {}
            except (KeyError, ValueError):
                return {}
        store, user = obj(self.sb.store), obj(self.sb.user)
        v = store.get("network_config_file", self.sb.netdef)
        if store.get("_read_user", True) and "network_config_file" in user:
            v = user["network_config_file"]
        return self.sb.path(v) if isinstance(v, str) else self.sb.netdef

    def user_sets_file(self, snap):
        try:
            return "network_config_file" in json.loads(snap[self.sb.user].decode())
        except (KeyError, ValueError):
            return False

    def adapter(self, path):
        """the c16 oracle's handle on one network file: a fresh constructor on an exact copy of it (raises if the
        file cannot be read)"""
        c16 = self.c16
        a = c16.Impl.__new__(c16.Impl)
        a.m, a.path, a.env = self.mods, self.sb.side, ("busy", [])
        shutil.copyfile(path, self.sb.side)
        self.mods["settings"]._config["network_config_file"] = self.sb.side
        a.c = self.mods["N"](file_path=self.sb.side)
        return a

    def obs(self, path, outcome):
        try:
            a = self.adapter(path)
        except Exception:
            return outcome + " <unreadable>"
        try:
            d = a.c.to_dict()
            self.stats["max_nodes"] = max([self.stats["max_nodes"]] + [len(nd["nodes"]) for nd in d.values()])
            return a.observe(outcome)
        except Exception as x:
            self.impl_raised(x)
            return outcome + " <raises:%s>" % type(x).__name__

    def impl_raised(self, x, idx=None):
        """an exception escaped from the implementation inside an oracle/observation call that must succeed: a
        violation `<function>:raises:<Class>` (c16.raises_key), never a crash of the harness; anything else is
        re-raised (harness bug)"""
        key = self.c16.raises_key(x)
        if key is None:
            raise x
        self.bad(key, "%r escaped from the implementation while the file the command left behind was examined" % (x,),
                 self.idx if idx is None else idx)

    def bad(self, key, what, idx):
        self.viol.append((key, "command %d `simulaqron %s`: %s" % (idx, " ".join(argv16(self.script[idx])[0]), what), idx))

    # ---- the script ------------------------------------------------------

    def go(self):
        try:
            for idx, step in enumerate(self.script):
                self.idx = idx
                self.stats["cmds"].append(step["cmd"])
                if step["cmd"] == "env":
                    self.probe = (step["kind"], list(step["ports"]))
                    self.stats["outcomes"].append("-")
                    continue
                if step["cmd"] == "userfile":      # the user writes (or removes) ~/.simulaqron.json
                    if step["json"] is None:
                        if os.path.exists(self.sb.user):
                            os.remove(self.sb.user)
                    else:
                        with open(self.sb.user, "w") as f:
                            json.dump(step["json"], f)
                    self.stats["outcomes"].append("-")
                    continue
                if step["cmd"] == "edit":          # the user edits the current network file by hand
                    cur = self.cur_file(self.sb.snapshot())
                    with open(cur, "w") as f:
                        json.dump(step["json"], f)
                    if self.model_file == cur:
                        self.sync = False
                    try:
                        self.mods["N"](file_path=cur)
                        self.broken.discard(cur)
                    except Exception:
                        self.broken.add(cur)
                    self.stats["outcomes"].append("-")
                    continue
                argv, stdin = argv16(step)
                before = self.sb.snapshot()
                r = self.sb.run(argv, stdin, self.probe)
                after = self.sb.snapshot()
                self.stats["processes"] += 1
                with LOCK:
                    try:
                        stop = self.judge(idx, step, r, before, after)
                    except Exception as x:          # an in-process oracle call into the implementation raised
                        if len(self.stats["outcomes"]) < len(self.stats["cmds"]):
                            self.stats["outcomes"].append("?")
                        self.impl_raised(x, idx)
                        stop = True
                if stop:
                    break
        finally:
            self.sb.close()
        return self

    def judge(self, idx, step, r, before, after):
        sb, c16 = self.sb, self.c16
        cmd = step["cmd"]
        outcome = classify(r)
        self.stats["outcomes"].append(outcome)
        cur = self.cur_file(before)
        edit = edit16(step)
        goes = confirm_args(step["confirm"])[2] if "confirm" in step else True
        target = cur if (edit is not None and goes) else None
        allowed = set()                         # files this command may create or change

        # -- files a process creates when it starts (simulaqron/__init__.py, simulaqron.py:19-23): new + reset ------
        created = [f for f in dict.fromkeys([cur, sb.netdef]) if f not in before]
        created = [f for f in created if f != target] + [f for f in created if f == target]
        if sb.store not in before:
            allowed.add(sb.store)
        if r["boot"] != "ok":
            # the process died while importing the package
            if created:
                self.lines += [("new", None), self.envline(), ("reset", outcome)]
                self.model_file, self.sync = None, False
            if outcome != "noPort":
                self.bad("cli:boot-crash:" + r["boot"], "the process cannot start: %s %s" % (r["boot"], r["detail"]), idx)
            else:
                self.stats["refusals"] += 1
            self.unexpected(idx, before, after, allowed)
            return True
        for f in created:
            allowed.add(f)
            if f not in after:
                self.bad("cli:default-file-not-created", "%s does not exist after start-up" % os.path.basename(f), idx)
                continue
            self.lines += [("new", None), self.envline(),
                           ("reset", None if (f == target or (cmd == "reset" and goes and f == sb.netdef))
                            else self.obs(f, "ok"))]
            self.model_file, self.sync = f, True

        # -- the command itself -------------------------------------------------------------------------------------
        if outcome.startswith("crash:"):
            self.bad("cli:crash:%s:%s" % (cmd, outcome[6:]), "raised %s %s" % (outcome[6:], r["detail"]), idx)
        if cmd in ("add", "remove", "default"):
            if not goes:
                if "Abort" not in r["out"] or r["exit"] != 0:
                    self.bad("cli:decline", "answer %r: exit %s, stdout %r" % (step["confirm"], r["exit"], r["out"][-80:]), idx)
            else:
                allowed.add(target)
                self.stats["edits"] += 1
                self.edit_lines(idx, step, edit, target, outcome, before, after, created)
                self.commanded(idx, step, target, outcome, before, after, created)
        elif cmd == "get":
            if cur in after and cur not in self.broken:
                self.lines += [self.pre_line(cur, before, after, self.obs(cur, "ok"))]
                a = self.adapter(cur)
                self.lines.append(("ids %s" % c16.tok(step["net"]), a.ids(step["net"])))
                nets = json.loads(after[cur].decode())
                net = step["net"] or "default"
                want = (" ".join(nets[net]["nodes"]) if net in nets else "No network %s" % step["net"]) + "\n"
                if r["out"] != want or r["exit"] != 0:
                    self.bad("cli:get:wrong-output", "printed %r (exit %s), the file lists %r" % (r["out"], r["exit"], want), idx)
            elif outcome != "loadError":
                self.bad("cli:get:broken-file-accepted", "outcome %s on a file read_from_file cannot read" % outcome, idx)
        elif cmd == "reset":
            if goes:
                allowed |= {sb.store, sb.netdef}
                self.lines += [("new", None), self.envline()]
                if outcome == "ok":
                    self.lines.append(("reset", self.obs(sb.netdef, "ok")))
                    self.model_file, self.sync = sb.netdef, True
                    nets = json.loads(after[sb.netdef].decode()) if sb.netdef in after else None
                    if not (isinstance(nets, dict) and list(nets) == ["default"] and list(nets["default"]["nodes"]) == FIVE
                            and nets["default"]["topology"] is None):
                        self.bad("cli:reset:not-default", "network.json after reset: %r" % (nets,), idx)
                    if self.cur_file(after) != sb.netdef and not self.user_sets_file(after):
                        self.bad("cli:reset:file-setting", "network_config_file after reset is %s" % self.cur_file(after), idx)
                else:
                    self.lines.append(("reset", outcome))
                    self.model_file, self.sync = None, False
                    if outcome == "noPort":
                        self.stats["refusals"] += 1
            elif "Abort" not in r["out"] or r["exit"] != 0:
                self.bad("cli:decline", "answer %r: exit %s, stdout %r" % (step["confirm"], r["exit"], r["out"][-80:]), idx)
        elif cmd in ("setfile", "setdefault"):
            allowed.add(sb.store)
            want = sb.path(step["file"]) if cmd == "setfile" else sb.netdef
            if self.user_sets_file(after):          # the user's file keeps precedence over what was just stored
                want = self.cur_file(before)
            if outcome != "ok" or self.cur_file(after) != want:
                self.bad("cli:set-file", "outcome %s, a later process would use %s, not %s" % (outcome, self.cur_file(after), want), idx)
        elif cmd == "bad":
            if r["exit"] != 2:
                self.bad("cli:usage-accepted", "a malformed command line ended with exit status %s: %r" % (r["exit"], r["out"][-120:]), idx)
        elif cmd == "start":
            self.judge_start(idx, step, r, outcome)
        elif cmd == "plain":
            if outcome != "ok" or r["daemon"]:
                self.bad("cli:plain", "outcome %s, daemon calls %r" % (outcome, r["daemon"]), idx)
        self.unexpected(idx, before, after, allowed)

        # -- the property itself on every network file this command created or changed (and the current one) ---------
        last = edit if (goes and cmd == "remove" and outcome == "ok") else None
        for f in sorted(after):
            if not f.endswith(".json") or f in (sb.store, sb.user):
                continue
            changed = after[f] != before.get(f)
            if not (changed or f == self.cur_file(after)):
                continue
            if f in self.broken and not changed:
                continue
            self.broken.discard(f)
            try:
                a = self.adapter(f)
                raw = json.loads(after[f].decode())
            except Exception as x:
                self.bad("cli:wrote-unreadable-file", "%s cannot be read back: %r" % (os.path.basename(f), x), idx)
                continue
            if raw != a.c.to_dict():
                self.bad("roundtrip:differs", "%s as written %r, as read back %r" % (os.path.basename(f), raw, a.c.to_dict()), idx)
            for key, what in c16.oracle_state(a, last if f == target else None):
                self.bad(key, "%s: %s" % (os.path.basename(f), what), idx)
        return False

    def unexpected(self, idx, before, after, allowed):
        for f in sorted(set(before) | set(after)):
            if before.get(f) != after.get(f) and f not in allowed:
                key = "cli:touched-user-file" if f == self.sb.user else "cli:unexpected-file-change"
                self.bad(key, "%s was %s" % (os.path.relpath(f, self.sb.d),
                                             "created" if f not in before else "removed" if f not in after else "changed"), idx)

    def pre_line(self, target, before, after, expect=None):
        """the process boundary: the constructor of this command is loaded from the file the previous one wrote"""
        if self.model_file == target and self.sync:
            return ("reload", expect)
        data = before.get(target, after.get(target))
        self.model_file, self.sync = target, True
        return ("load " + " ".join(self.c16.jtok(json.loads(data.decode()))), expect)

    def edit_lines(self, idx, step, edit, target, outcome, before, after, created):
        c16 = self.c16
        if outcome == "loadError":
            # NetworksConfigConstructor(file) raised: the command never reached its edit
            line = self.pre_line(target, before, after)
            self.lines.append((line[0], "loadError"))
            self.model_file, self.sync = None, False
            return
        self.lines.append(self.pre_line(target, before, after))
        self.lines.append(self.envline())
        if outcome == "ok":
            self.lines.append((c16.line_of(edit), self.obs(target, "ok")))
            net = step["net"]
            try:
                self.lines.append(("ids %s" % c16.tok(net), self.adapter(target).ids(net)))
            except Exception:
                pass
        elif outcome in ("inUse", "noPort") and edit["op"] == "addnode":
            # refused: nothing is written, and the model keeps its networks (C16.addNode_refused_keeps_networks)
            self.stats["refusals"] += 1
            self.lines.append((c16.line_of(edit), self.obs(target, outcome)))
        else:
            # add_network stopped half-way in memory; the CLI wrote nothing: only the outcome is comparable
            if outcome in ("inUse", "noPort"):
                self.stats["refusals"] += 1
            self.lines.append((c16.line_of(edit), outcome))
            self.model_file, self.sync = None, False

    def commanded(self, idx, step, target, outcome, before, after, created):
        """the edit lands where the user said, and nowhere else"""
        cmd = step["cmd"]
        if outcome != "ok":
            if target in before and after.get(target) != before[target]:
                self.bad("cli:refused-changed-file", "outcome %s, yet %s changed" % (outcome, os.path.basename(target)), idx)
            return
        try:
            j1 = json.loads(after[target].decode())
            j0 = json.loads(before[target].decode()) if target in before else None
        except Exception:
            return              # reported as cli:wrote-unreadable-file
        if j0 is not None and (not isinstance(j0, dict) or target in self.broken):
            j0 = None
        net = step["net"] or "default"
        name = step.get("name")
        if cmd == "add":
            node = j1.get(net, {}).get("nodes", {}).get(name)
            if node is None:
                self.bad("cli:add:not-applied", "%s is not a node of network %s in %s" % (name, net, os.path.basename(target)), idx)
            else:
                for k, p in zip(SOCK_KEYS, step["ports"]):
                    host, port = node[k]
                    if host != (step["host"] or "localhost") or (p is not None and port != p) or \
                            (p is None and not (isinstance(port, int) and 8000 <= port <= 9000)):
                        self.bad("cli:add:not-applied", "%s of %s is %r (asked for host %r port %r)" % (k, name, node[k], step["host"], p), idx)
                if step["nb"] is not None:
                    t = j1[net]["topology"]
                    if not isinstance(t, dict) or t.get(name) != [x.strip() for x in step["nb"]]:
                        self.bad("cli:add:not-applied", "neighbours of %s: topology %r (asked for %r)" % (name, t, step["nb"]), idx)
        if cmd == "default":
            got = j1.get(net)
            if not got or list(got["nodes"]) != FIVE or got["topology"] is not None:
                self.bad("cli:default:not-applied", "network %s after `nodes default`: %r" % (net, got), idx)
        if j0 is None:
            return
        others = sorted(o for o in set(j0) | set(j1) if o != net and j0.get(o) != j1.get(o))
        if others:
            self.bad("cli:%s:collateral" % cmd, "the command names network %s, but %s" % (net, "; ".join(
                "network %s %s" % (o, "disappeared" if o not in j1 else "appeared" if o not in j0 else
                                   "changed from %r to %r" % (j0[o], j1[o])) for o in others)), idx)
        if cmd in ("add", "remove") and net in j0 and net in j1:
            rest0 = {n: v for n, v in j0[net]["nodes"].items() if n != name}
            rest1 = {n: v for n, v in j1[net]["nodes"].items() if n != name}
            if rest0 != rest1:
                self.bad("cli:%s:collateral" % cmd, "other nodes of %s changed: %r -> %r" % (net, rest0, rest1), idx)
        if cmd == "remove" and net not in j0 and net in j1:
            self.bad("cli:remove:collateral", "removing from the unknown network %s created it" % net, idx)

    def judge_start(self, idx, step, r, outcome):
        """`simulaqron start` with the launch replaced by a recorder: only the argument handling"""
        w = step["want"]
        calls = [c for c in r["daemon"] if c["call"] == "start"]
        if w is None:
            if calls:
                self.bad("cli:start:args", "a network was launched although the command was declined / malformed: %r" % calls, idx)
            return
        if outcome != "ok" or len(calls) != 1:
            self.bad("cli:start:args", "outcome %s, %d launches" % (outcome, len(calls)), idx)
            return
        got = {k: calls[0]["attrs"].get(k) for k in w}
        if got != w:
            self.bad("cli:start:args", "launched with %r, asked for %r" % (got, w), idx)


# ---- generation ------------------------------------------------------------

def gen_confirm(rng):
    return rng.choice(CONFIRM)


def gen_env16(rng):
    r = rng.random()
    if r < 0.5:
        return {"cmd": "env", "kind": "busy", "ports": sorted(rng.sample(range(8000, 8020), rng.randint(0, 8)))}
    if r < 0.8:
        return {"cmd": "env", "kind": "only", "ports": list(range(8000, 8000 + rng.choice([3, 16, 17, 19, 24, 33, 40])))}
    return {"cmd": "env", "kind": "busy", "ports": []}


BAD16 = [
    ["nodes", "add"], ["nodes", "add", "Alice", "--app-port", "http", "-f"], ["nodes", "add", "Alice", "Bob", "-f"],
    ["nodes", "add", "Alice", "--port", "8000", "-f"], ["nodes", "remove", "-f"], ["nodes", "remove", "Alice", "--hostname", "x", "-f"],
    ["nodes", "default", "Alice", "-f"], ["nodes", "get", "n1"], ["nodes", "erase", "Alice"], ["nodes", "add", "Alice", "--vnode-port", "8000.5", "-f"],
    ["nodes", "add", "Alice", "--network-name"], ["reset", "now"], ["reset", "--yes"], ["start", "--nrnodes", "two", "-f"],
]


def gen_start(rng):
    name = rng.choice([None, "default", "n1"])
    nr = rng.choice([None, None, 2, 7])
    nodes = rng.choice([None, "Alice,Bob", "A", "Alice, Bob"])
    topo = rng.choice([None, "ring", "complete", "path", "random_tree"])
    keep = rng.random() < 0.3
    conf = gen_confirm(rng)
    extra, stdin, goes = confirm_args(conf)
    argv = ["start"]
    if name is not None:
        argv += ["--name", name]
    if nr is not None:
        argv += [rng.choice(["-N", "--nrnodes"]), str(nr)]
    if nodes is not None:
        argv += [rng.choice(["-n", "--nodes"]), nodes]
    if topo is not None:
        argv += [rng.choice(["-t", "--topology"]), topo]
    argv += extra + (["--keep"] if keep else [])
    want = {"name": name or "default", "nrnodes": nr, "nodes": nodes, "topology": topo, "new": not keep} if (goes or keep) else None
    return {"cmd": "start", "argv": argv, "stdin": stdin, "want": want}


def gen_step16(rng, c16):
    k = rng.random()
    net = rng.choice(NETS16)
    if k < 0.36:
        if rng.random() < 0.45:
            host, ports = None, [None, None, None]
        else:
            host, ports = rng.choice(HOSTS16), [rng.choice(PORTS16) if rng.random() < 0.5 else None for _ in range(3)]
        nb = None if rng.random() < 0.55 else rng.sample(NAMES16, rng.randint(1, 3))
        return {"cmd": "add", "name": rng.choice(NAMES16), "net": net, "host": host, "ports": ports, "nb": nb,
                "confirm": gen_confirm(rng), "name_first": rng.random() < 0.5, "eq": rng.random() < 0.3,
                "nbsep": rng.choice([",", ",", ", "])}
    if k < 0.52:
        return {"cmd": "remove", "name": rng.choice(NAMES16 + FIVE), "net": net, "confirm": gen_confirm(rng)}
    if k < 0.60:
        return {"cmd": "default", "net": net, "confirm": gen_confirm(rng)}
    if k < 0.70:
        return {"cmd": "get", "net": net}
    if k < 0.75:
        return {"cmd": "reset", "confirm": gen_confirm(rng)}
    if k < 0.80:
        return {"cmd": "setfile", "file": rng.choice(FILES16)}
    if k < 0.82:
        return {"cmd": "setdefault"}
    if k < 0.88:
        return gen_env16(rng)
    if k < 0.92:
        return {"cmd": "edit", "json": c16.gen_file(rng)}
    if k < 0.96:
        return {"cmd": "bad", "argv": list(rng.choice(BAD16))}
    if k < 0.985:
        return gen_start(rng)
    return {"cmd": "plain", "argv": rng.choice([["version"], ["stop"], ["stop", "--name", "n1"], ["nodes", "--help"], ["-h"]])}


def gen_script16(rng, c16, n):
    s = [gen_step16(rng, c16) for _ in range(n)]
    if rng.random() < 0.25:          # a user's override file that names another network file (C18's precedence)
        s.insert(0, {"cmd": "userfile", "json": {"network_config_file": "netU.json", "max_qubits": 5}})
        if rng.random() < 0.4:
            s.insert(rng.randint(2, len(s)), {"cmd": "userfile", "json": None})
    return s


def _add(name, net=None, host=None, ports=(None, None, None), nb=None, confirm="-f"):
    return {"cmd": "add", "name": name, "net": net, "host": host, "ports": list(ports), "nb": nb, "confirm": confirm}


DIRECTED16 = [
    # the plain story: add with neighbours, look, remove, look (the removed node must be gone from the file)
    [_add("Frank"), _add("Bob", nb=["Alice", "Frank"]), {"cmd": "get", "net": None},
     {"cmd": "remove", "name": "Alice", "net": None, "confirm": "-f"}, {"cmd": "get", "net": None},
     {"cmd": "remove", "name": "Frank", "net": "default", "confirm": "yes"}, {"cmd": "get", "net": "default"}],
    # explicit host / ports, a second network, clashes across networks, removal from the wrong and the right network
    [_add("Alice", net="n1", host="127.0.0.1", ports=(8000, 8001, None)), _add("Bob", net="n2", host="127.0.0.1", ports=(None, 8001, None)),
     _add("Bob", net="n2", ports=(8014, None, None)), _add("Bob", net="n2", ports=(8015, None, 8016), nb=["Alice"]),
     {"cmd": "remove", "name": "Bob", "net": None, "confirm": "-f"}, {"cmd": "get", "net": "n2"},
     {"cmd": "remove", "name": "Bob", "net": "n2", "confirm": "-f"}, {"cmd": "get", "net": "n2"}, {"cmd": "get", "net": "nope"}],
    # another network file, created by the next process; reset goes back to the default file and leaves this one alone
    [{"cmd": "setfile", "file": "netA.json"}, {"cmd": "get", "net": None}, _add("Zoë", net="n1", nb=["Alice"]),
     {"cmd": "default", "net": "n1", "confirm": "y"}, {"cmd": "reset", "confirm": "-f"}, {"cmd": "get", "net": "n1"},
     _add("Eve", ports=(8000, None, None)), {"cmd": "setfile", "file": "netA.json"}, {"cmd": "get", "net": "n1"}],
    # prompts: everything but yes / y declines and must change nothing
    [_add("Frank", confirm="no"), _add("Frank", confirm=""), _add("Frank", confirm="Y"), {"cmd": "remove", "name": "Alice", "net": None, "confirm": "n"},
     {"cmd": "default", "net": "n1", "confirm": "nope"}, {"cmd": "reset", "confirm": "no"}, {"cmd": "get", "net": None}, _add("Frank", confirm="y"),
     {"cmd": "get", "net": None}],
    # port exhaustion: the default file fits exactly, `nodes default` for a second network runs out half-way
    [{"cmd": "env", "kind": "only", "ports": list(range(8000, 8019))}, {"cmd": "get", "net": None}, _add("Frank"),
     {"cmd": "default", "net": "n1", "confirm": "-f"}, _add("Zoë", net="n1"), {"cmd": "get", "net": "n1"},
     {"cmd": "env", "kind": "busy", "ports": []}, {"cmd": "default", "net": "n1", "confirm": "-f"}, {"cmd": "get", "net": "n1"}],
    # a hand-made file, edits on top of it, a broken one
    [{"cmd": "edit", "json": {"n1": {"topology": {"Bob": ["Alice"]}, "nodes": {
        "Bob": {"vnode_socket": ["127.0.0.1", 8002], "app_socket": ["localhost", 8000], "qnodeos_socket": ["localhost", 8001]},
        "Alice": {"app_socket": ["localhost", 8010], "qnodeos_socket": ["localhost", 8011], "vnode_socket": ["localhost", 8012]}}}}},
     _add("Eve", net="n1", ports=(8001, None, None)), _add("Eve", net="n1", nb=["Alice"]), {"cmd": "remove", "name": "Alice", "net": "n1", "confirm": "-f"},
     {"cmd": "get", "net": "n1"}, {"cmd": "edit", "json": {"n1": {"nodes": {"Bob": {"app_socket": ["localhost", 8000]}}, "topology": None}}},
     _add("Eve", net="n1"), {"cmd": "get", "net": "n1"}, {"cmd": "reset", "confirm": "-f"}, {"cmd": "get", "net": None}],
    # `start` with the launch replaced by a recorder: options reach the daemon as given, a declined prompt launches nothing
    [{"cmd": "start", "argv": ["start", "-N", "3", "-n", "Alice,Bob", "-t", "ring", "-f"], "stdin": "",
      "want": {"name": "default", "nrnodes": 3, "nodes": "Alice,Bob", "topology": "ring", "new": True}},
     {"cmd": "start", "argv": ["start", "--keep", "--name", "n1"], "stdin": "", "want": {"name": "n1", "nrnodes": None, "nodes": None, "topology": None, "new": False}},
     {"cmd": "start", "argv": ["start", "--nodes", "Alice"], "stdin": "no\n", "want": None},
     {"cmd": "start", "argv": ["start", "--topology=path"], "stdin": "yes\n", "want": {"name": "default", "nrnodes": None, "nodes": None, "topology": "path", "new": True}},
     {"cmd": "plain", "argv": ["stop"]}],
    # the user's override file names the network file: every command must use that one, whatever was stored with `set`
    [{"cmd": "userfile", "json": {"network_config_file": "netU.json"}}, {"cmd": "get", "net": None}, _add("Frank"),
     {"cmd": "setfile", "file": "netA.json"}, _add("Zoë", net="n1"), {"cmd": "get", "net": "n1"}, {"cmd": "reset", "confirm": "-f"},
     {"cmd": "remove", "name": "Frank", "net": None, "confirm": "-f"}, {"cmd": "userfile", "json": None}, {"cmd": "get", "net": None}],
]


def show16(script):
    out = []
    for s in script:
        if s["cmd"] == "env":
            out.append("[probe: %s %s]" % (s["kind"], s["ports"]))
        elif s["cmd"] == "edit":
            out.append("[hand-edit of the network file: %s]" % json.dumps(s["json"])[:200])
        elif s["cmd"] == "userfile":
            out.append("[~/.simulaqron.json := %s]" % ("removed" if s["json"] is None else json.dumps(s["json"])))
        else:
            argv, stdin = argv16(s)
            out.append("simulaqron " + " ".join(argv) + (("   <<< %r" % stdin) if stdin else ""))
    return out


def fails16(E, script, key):
    try:
        return [v for v in Run16(E, script).go().viol if v[0] == key]
    except core.MachineryError:
        return []


def shrink16(E, script, key, idx, budget=10):
    cur = [s for s in script[:idx + 1]]
    hit = fails16(E, cur, key)
    if not hit:
        return script[:idx + 1], None
    what = hit[0][1]
    i = len(cur) - 2
    while i >= 0 and budget > 0:
        cand = cur[:i] + cur[i + 1:]
        budget -= 1
        h = fails16(E, cand, key)
        if h:
            cur, what = cand, h[0][1]
        i -= 1
    return cur, what


def stage_c16(ctx, res, c16, mods, replay_script=None):
    """run CLI command scripts; oracle + tie against the driver `config`; results are added to `res`"""
    scratch = core.scratch_repo()
    root = os.path.join(scratch, "cli16")
    os.makedirs(root, exist_ok=True)
    E = {"c16": c16, "mods": mods, "scratch": scratch, "root": root}
    rng = ctx.rng
    if replay_script is not None:
        scripts = [replay_script]
    else:
        scripts = [json.loads(json.dumps(s)) for s in DIRECTED16]
        scripts += [gen_script16(rng, c16, rng.randint(5, ctx.scale(9, 14))) for _ in range(ctx.scale(6, 60))]
    with cf.ThreadPoolExecutor(max_workers=min(16, os.cpu_count() or 4)) as pool:
        runs = list(pool.map(lambda s: Run16(E, s).go(), scripts))
    lines, expect, owner = [], [], []
    seen = {}
    for si, (script, run) in enumerate(zip(scripts, runs)):
        st = run.stats
        for c, o in zip(st["cmds"], st["outcomes"]):
            res.count("cli:" + c)
            if o not in ("ok", "-"):
                res.count("cli-outcome:" + o)
        res.count("cli-processes", st["processes"])
        res.case({"cli": show16(script)}, nontrivial=st["edits"] >= 2 and st["max_nodes"] >= 2)
        for key, what, idx in run.viol:
            seen.setdefault(key, (si, what, idx))
        for line, want in run.lines:
            lines.append(line)
            expect.append(want)
            owner.append(si)
    for key, (si, what, idx) in sorted(seen.items()):
        small, what2 = (scripts[si], what) if replay_script is not None else shrink16(E, scripts[si], key, idx)
        res.violation(key, "[CLI] " + (what2 or what), {"cli": "c16", "script": small, "commands": show16(small)})
    if ctx.lean_ok and lines:
        got = core.lean_run("config", lines)
        reported = set()
        for g, w, line, si in zip(got, expect, lines, owner):
            if w is None:
                continue
            res.traces += 1
            if not agree16(g, w) and si not in reported:
                reported.add(si)
                res.tie_break("Config model vs the CLI (simulaqron nodes ... / reset) at model line `%s`" % line[:200],
                              {"cli": "c16", "script": scripts[si], "commands": show16(scripts[si])}, strip_used(g), strip_used(w))
    res.rule += ("; CLI stage: %d command scripts (8 directed + random, 5..%d commands: nodes add/remove/default/get with and "
                 "without --network-name/--hostname/ports/--neighbors/-f/prompt answers, reset, set network-config-file, "
                 "set default, hand edits of the file, malformed command lines, start with the launch recorded), one "
                 "fresh interpreter per command, scripted bind probe at the socket level"
                 % (len(scripts), ctx.scale(9, 14)))
    shutil.rmtree(root, ignore_errors=True)


# ==========================================================================
#                                   C18
# ==========================================================================

# the documented command line: `simulaqron set <key> <value>` (docs + help texts)
SETTABLE = {
    "sim_backend": ("choice", ["stabilizer", "projectq", "qutip"]),
    "max_qubits": ("int", None),
    "max_registers": ("int", None),
    "conn_retry_time": ("float", None),
    "recv_timeout": ("float", None),
    "recv_retry_time": ("float", None),
    "log_level": ("int", None),
    "network_config_file": ("str", None),
    "noisy_qubits": ("onoff", None),
    "t1": ("float", None),
}
INT_RE = re.compile(r"^[+-]?[0-9]+$")
FLOAT_RE = re.compile(r"^[+-]?([0-9]+\.?[0-9]*|\.[0-9]+)([eE][+-]?[0-9]+)?$")

VALID_TEXTS = {
    "int": ["7", "0", "1", "20", "50", "+3", "007", "99999999999999999999", "-5", "-0"],
    "float": ["2", "2.5", "0.5", "1e-3", "1E3", ".5", "3.", "-0.0", "-2.25", "0", "100", "1e300", "0.1"],
    "choice": ["stabilizer", "projectq", "qutip"],
    "onoff": ["on", "off"],
    "str": ["my_net.json", "net 2.json", "nét.json", "a.b-c_d.json", "network.json"],
}
INVALID_TEXTS = {
    "int": ["abc", "1.5", "", "7 qubits", "0x1f", "1e3", "seven", "1,000", "None", "true"],
    "float": ["abc", "1,5", "", "1.2.3", "0x10", "fast", "1e", "--", "None"],
    "choice": ["Stabilizer", "foo", "", "qutip ", "stabilizer,qutip", "1"],
    "onoff": ["true", "1", "ON", "", "yes", "False"],
}
LENIENT_TEXTS = {"float": ["nan", "inf", "-inf", "1e400"], "int": [" 7", "1_000"]}


def convert18(key, text):
    """('valid', value) | ('invalid', None) | ('lenient', value or None): the documented reading of VALUE"""
    kind, choices = SETTABLE[key]
    if kind == "int":
        if INT_RE.match(text):
            return "valid", int(text)
        try:
            return "lenient", int(text)
        except ValueError:
            return "invalid", None
    if kind == "float":
        if FLOAT_RE.match(text):
            return "valid", float(text)
        try:
            return "lenient", float(text)
        except ValueError:
            return "invalid", None
    if kind == "choice":
        return ("valid", text) if text in choices else ("invalid", None)
    if kind == "onoff":
        return ("valid", text == "on") if text in ("on", "off") else ("invalid", None)
    return "valid", text


def argv18(step):
    c = step["cmd"]
    if c == "set":
        a = ["set", step["key"].replace("_", "-")]
        return a + (["--"] if step.get("dashdash") else []) + [step["text"]], ""
    if c == "get":
        return ["get", step["key"].replace("_", "-")], ""
    if c == "setdefault":
        return ["set", "default"], ""
    if c == "reset":
        extra, stdin, _ = confirm_args(step["confirm"])
        return ["reset"] + extra, stdin
    return list(step["argv"]), step.get("stdin", "")        # bad / plain


def show18(case):
    out = ["[store left by earlier sessions: %s]" % ("none" if case["S0"] is None else json.dumps(dict(case["S0"]))),
           "[~/.simulaqron.json: %s]" % ("none" if case["U"] is None else json.dumps(dict(case["U"])))]
    for s in case["cmds"]:
        argv, stdin = argv18(s)
        out.append("simulaqron " + " ".join(repr(a) if (a == "" or " " in a) else a for a in argv) + (("   <<< %r" % stdin) if stdin else ""))
    return out


def pystr(key, v):
    """what `simulaqron get <key>` prints for the value v"""
    if key == "noisy_qubits":
        return "on" if v else "off"
    return str(v)


def run_case18(E, case):
    """one CLI history.  Returns dict(lines, violations, counts, steps, stats)"""
    c18, env = E["c18"], E["env"]
    gendef = c18.gendef
    sb = Sandbox(E["scratch"], E["root"])
    try:
        sym = gendef.symbolic_paths(env.facts, os.path.join(sb.pkg, "config"))
        s0, u = case["S0"], case["U"]
        if s0 is not None:
            with open(sb.store, "w") as f:
                f.write(c18.file_text(s0))
        if u is not None:
            with open(sb.user, "w") as f:
                f.write(c18.file_text(u))
        user_bytes = open(sb.user, "rb").read() if u is not None else None
        defaults = dict(env.S.Config._default_config)
        for key, text in env.facts["symbolic"].items():
            conc = [c for c, t in sym.items() if t == text]
            if conc:
                defaults[key] = conc[0]
        oracle = c18.Oracle(defaults, s0, u, sym)
        lines, viol = [], []
        stats = {"cmds": [], "classes": [], "processes": 0, "sets_ok": 0}
        done = 0

        def bad(key, what, i):
            viol.append((key, "command %d `simulaqron %s`: %s" % (i, " ".join(argv18(case["cmds"][i])[0]), what), i))

        for i, step in enumerate(case["cmds"]):
            argv, stdin = argv18(step)
            cmd = step["cmd"]
            stats["cmds"].append(cmd)
            st0, _, raw0 = c18.read_store(sb.store)
            r = sb.run(argv, stdin)
            stats["processes"] += 1
            outcome = classify(r)
            boot = "ok" if r["boot"] == "ok" else r["boot"] if r["boot"] in ("KeyError", "TypeError") else "crash:" + r["boot"]
            # ---- what the command has to amount to ------------------------------------------------------------------
            op = ["restart"]
            klass = "-"
            if boot == "ok":
                if cmd == "set":
                    klass, value = convert18(step["key"], step["text"])
                    if step["text"].startswith("-") and not step.get("dashdash"):
                        klass = "lenient"           # click reads it as an option; a rejection is as good as the value
                    if klass == "valid" and outcome != "ok":
                        bad("cli:valid-rejected", "the documented value %r ended with %s %s" % (step["text"], outcome, r["err"][-200:]), i)
                    if klass == "invalid" and outcome == "ok":
                        bad("cli:invalid-accepted", "the value %r is not a %s, the command was accepted" % (step["text"], SETTABLE[step["key"]][0]), i)
                    if outcome == "ok" and value is not None:
                        op = ["set", step["key"], value]
                        stats["sets_ok"] += 1
                    elif outcome.startswith("crash:"):
                        bad("cli:crash:set:" + outcome[6:], "raised %s %s" % (outcome[6:], r["detail"]), i)
                elif cmd == "setdefault" or (cmd == "reset" and confirm_args(step["confirm"])[2]):
                    if outcome == "ok":
                        op = ["reset"]
                    else:
                        bad("cli:crash:%s:%s" % (cmd, outcome), "ended with %s %s" % (outcome, r["detail"]), i)
                elif cmd == "reset":
                    if "Abort" not in r["out"] or r["exit"] != 0:
                        bad("cli:decline", "answer %r: exit %s, stdout %r" % (step["confirm"], r["exit"], r["out"][-80:]), i)
                elif cmd == "bad":
                    if r["exit"] != 2:
                        bad("cli:usage-accepted", "a malformed command line ended with exit status %s" % r["exit"], i)
                elif outcome != "ok":       # get / plain
                    bad("cli:crash:%s:%s" % (cmd, outcome), "ended with %s %s" % (outcome, r["detail"]), i)
            stats["classes"].append(klass)
            # ---- the files, and a process started later -------------------------------------------------------------
            oracle.applied(op, "ok")
            st_state, st_dict, raw_before = c18.read_store(sb.store)
            if op == ["restart"] and boot == "ok" and st0 != "absent" and raw_before != raw0:
                bad("cli:rejected-changed-store", "the command wrote nothing through the settings object, yet settings.json changed", i)
            reader = c18.spawn(env, c18.E2E_READER, [], sb.cwd, sb.xenv)
            if reader.get("outcome") == "ok" and reader.get("files") != [sb.store, sb.user]:
                reader = {"outcome": "crash:wrong-files", "detail": str(reader.get("files"))}
            _, _, raw_after = c18.read_store(sb.store)
            unchanged = raw_before is None or raw_before == raw_after
            if (open(sb.user, "rb").read() if os.path.exists(sb.user) else None) != user_bytes:
                bad("cli:touched-user-file", "~/.simulaqron.json was written", i)
            r_out = reader.get("outcome", "crash:?")
            first = "init %s | %s" % (c18.file_words(s0, sym), c18.file_words(u, sym)) if i == 0 else "restart"
            mem = r["config"] if r["config"] is not None else {}
            expect = "%s W %s ; S %s ; R %s %s" % (boot if op == ["restart"] else "ok", c18.show_dict(mem, sym),
                                                  c18.show_store(st_state, st_dict, sym), r_out,
                                                  c18.show_dict(reader.get("config") or {}, sym))
            if op == ["restart"]:
                lines.append((first, expect))
            else:
                lines.append((first, None))          # the process boundary, then the write
                lines.append((c18.op_words(op, sym), expect))
            for key, what in oracle.judge(op, "ok", reader, st_state, st_dict, unchanged):
                viol.append((key, "command %d `simulaqron %s`: %s" % (i, " ".join(argv), what), i))
            if boot != "ok":
                # one signature per way of not starting, whatever the command was
                bad("cli:cannot-start:" + r["boot"], "the process cannot start (so no command, not even `set` / `reset`, "
                    "can repair the setting): %s %s" % (r["boot"], r["detail"]), i)
            if cmd == "get" and boot == "ok" and reader.get("outcome") == "ok":
                want = pystr(step["key"], reader["config"].get(step["key"])) + "\n"
                if r["out"] != want or r["exit"] != 0:
                    bad("cli:get-differs", "printed %r (exit %s); a fresh process reads %r" % (r["out"], r["exit"], want), i)
            done = i + 1
            if boot != "ok" or reader.get("outcome") != "ok":
                break           # nothing left to operate
        return {"lines": lines, "violations": viol, "counts": oracle.counts, "steps": done, "stats": stats}
    finally:
        sb.close()


# ---- generation ------------------------------------------------------------

BAD18 = [["set", "nosuch", "1"], ["set", "max-qubits"], ["set", "max-qubits", "1", "2"], ["get", "nosuch"], ["set", "_read_user", "off"],
         ["set", "max_qubits", "7"], ["get", "max-qubits", "7"], ["set"], ["set", "default", "now"], ["reset", "everything"],
         ["set", "t1", "--fast", "2"], ["set", "read-user", "off"]]


def gen_set18(rng, key=None, klass=None):
    key = key or rng.choice(list(SETTABLE))
    kind = SETTABLE[key][0]
    r = rng.random()
    klass = klass or ("valid" if (r < 0.62 or kind == "str") else "invalid" if r < 0.92 else "lenient")
    if klass == "lenient" and kind not in LENIENT_TEXTS:
        klass = "invalid"
    text = rng.choice({"valid": VALID_TEXTS, "invalid": INVALID_TEXTS, "lenient": LENIENT_TEXTS}[klass][kind])
    step = {"cmd": "set", "key": key, "text": text}
    if text.startswith("-"):
        step["dashdash"] = text == "--" or rng.random() < 0.7
    return step


def gen_step18(rng):
    r = rng.random()
    if r < 0.46:
        return gen_set18(rng)
    if r < 0.68:
        return {"cmd": "get", "key": rng.choice(list(SETTABLE))}
    if r < 0.75:
        return {"cmd": "setdefault"}
    if r < 0.83:
        return {"cmd": "reset", "confirm": rng.choice(CONFIRM)}
    if r < 0.94:
        return {"cmd": "bad", "argv": list(rng.choice(BAD18))}
    return {"cmd": "plain", "argv": rng.choice([["version"], ["set", "--help"], ["get", "-h"], ["nodes", "get"]])}


def safe_items(items):
    """network_config_file is looked at by every start-up (simulaqron/__init__.py): keep it a plain file name, it
    then resolves inside the sandbox' working directory"""
    if items is None:
        return None
    out = []
    for k, v in items:
        if k == "network_config_file":
            v = ("".join(ch if ch.isascii() and (ch.isalnum() or ch in "._-") else "_" for ch in v) or "n.json") \
                if isinstance(v, str) else "my_network.json"
        out.append([k, v])
    return out


def gen_cases18(ctx, c18, env):
    rng = ctx.rng
    doc = env.doc_keys
    cases = []
    # every settable key: a documented value, read back; a value of the wrong type, read back; (other files present)
    for n, key in enumerate(SETTABLE):
        cmds = [gen_set18(rng, key, "valid"), {"cmd": "get", "key": key}]
        if SETTABLE[key][0] != "str":
            cmds += [gen_set18(rng, key, "invalid"), {"cmd": "get", "key": key}]
        else:
            cmds += [{"cmd": "setdefault"}, {"cmd": "get", "key": key}]
        u = None if n % 2 == 0 else [[rng.choice([k for k in SETTABLE if k != key and k != "network_config_file"]), 5]]
        cases.append({"S0": None, "U": u, "cmds": cmds})
    cases += [
        # reset / set default restore every default, the user's file stays in force
        {"S0": None, "U": [["max_qubits", 5]], "cmds": [{"cmd": "set", "key": "t1", "text": "2"}, {"cmd": "set", "key": "max_qubits", "text": "9"},
                                                       {"cmd": "get", "key": "max_qubits"}, {"cmd": "reset", "confirm": "-f"},
                                                       {"cmd": "get", "key": "t1"}, {"cmd": "get", "key": "max_qubits"}]},
        {"S0": [["max_qubits", 11], ["_read_user", False]], "U": [["max_qubits", 5], ["log_level", 10]],
         "cmds": [{"cmd": "get", "key": "max_qubits"}, {"cmd": "set", "key": "log_level", "text": "40"}, {"cmd": "get", "key": "log_level"},
                  {"cmd": "setdefault"}, {"cmd": "get", "key": "max_qubits"}, {"cmd": "get", "key": "log_level"}]},
        {"S0": None, "U": None, "cmds": [{"cmd": "set", "key": "noisy_qubits", "text": "on"}, {"cmd": "reset", "confirm": "no"},
                                         {"cmd": "get", "key": "noisy_qubits"}, {"cmd": "reset", "confirm": "yes"}, {"cmd": "get", "key": "noisy_qubits"}]},
        {"S0": None, "U": None, "cmds": [{"cmd": "set", "key": "log_level", "text": "-5"}, {"cmd": "get", "key": "log_level"},
                                         {"cmd": "set", "key": "log_level", "text": "-5", "dashdash": True}, {"cmd": "get", "key": "log_level"},
                                         {"cmd": "set", "key": "t1", "text": "nan"}, {"cmd": "get", "key": "t1"}]},
        # a backend this installation cannot import (projectq / qutip are optional), or one no installation knows (from
        # the user's file): the commands that change the setting must still run
        {"S0": None, "U": None, "cmds": [{"cmd": "set", "key": "sim_backend", "text": "projectq"}, {"cmd": "get", "key": "sim_backend"},
                                         {"cmd": "set", "key": "sim_backend", "text": "stabilizer"}, {"cmd": "get", "key": "sim_backend"}]},
        {"S0": None, "U": [["sim_backend", "fast"]], "cmds": [{"cmd": "get", "key": "sim_backend"}, {"cmd": "set", "key": "max_qubits", "text": "4"},
                                                              {"cmd": "reset", "confirm": "-f"}, {"cmd": "get", "key": "max_qubits"}]},
        # a network file in a directory that does not exist (yet): the setting must still be readable by later processes
        {"S0": None, "U": None, "cmds": [{"cmd": "set", "key": "network_config_file", "text": "nets/mine.json"},
                                         {"cmd": "get", "key": "network_config_file"}, {"cmd": "set", "key": "max_qubits", "text": "3"},
                                         {"cmd": "reset", "confirm": "-f"}, {"cmd": "get", "key": "network_config_file"}]},
    ]
    for _ in range(ctx.scale(5, 60)):
        cases.append({"S0": safe_items(c18.rand_file(rng, doc, 0.7, 0.15)), "U": safe_items(c18.rand_file(rng, doc, 0.45, 0.2)),
                      "cmds": [gen_step18(rng) for _ in range(rng.randint(3, ctx.scale(6, 10)))]})
    return cases


def shrink18(E, case, key, budget=8):
    best = json.loads(json.dumps(case))
    hit = [v for v in run_case18(E, best)["violations"] if v[0] == key]
    if not hit:
        return case, None
    best["cmds"] = best["cmds"][:min(v[2] for v in hit) + 1]
    what = hit[0][1]
    for i in range(len(best["cmds"]) - 2, -1, -1):
        if budget <= 0:
            break
        budget -= 1
        cand = json.loads(json.dumps(best))
        del cand["cmds"][i]
        h = [v for v in run_case18(E, cand)["violations"] if v[0] == key]
        if h:
            best, what = cand, h[0][1]
    for f in ("U", "S0"):
        if best[f] is not None and budget > 0:
            budget -= 1
            cand = json.loads(json.dumps(best))
            cand[f] = None
            h = [v for v in run_case18(E, cand)["violations"] if v[0] == key]
            if h:
                best, what = cand, h[0][1]
    return best, what


def stage_c18(ctx, res, c18, env, replay_case=None):
    """run CLI histories; last-writer oracle + tie against the driver `settings`; results are added to `res`"""
    root = os.path.join(env.scratch, "cli18")
    os.makedirs(root, exist_ok=True)
    E = {"c18": c18, "env": env, "scratch": env.scratch, "root": root}
    cases = [replay_case] if replay_case is not None else gen_cases18(ctx, c18, env)
    with cf.ThreadPoolExecutor(max_workers=min(16, os.cpu_count() or 4)) as pool:
        outs = list(pool.map(lambda c: run_case18(E, c), cases))
    lines, expect, owner = [], [], []
    seen = {}
    for ci, (case, out) in enumerate(zip(cases, outs)):
        st = out["stats"]
        res.case({"cli": show18(case)}, nontrivial=st["sets_ok"] >= 1 and len(case["cmds"]) >= 2)
        res.count("cli-processes", st["processes"])
        res.count("reader-processes", out["steps"])
        for c, k in zip(st["cmds"], st["classes"]):
            res.count("cli:" + c + ("" if k == "-" else ":" + k))
        res.count("cli-user-file:" + ("absent" if case["U"] is None else "present"))
        for k, n in out["counts"].items():
            res.count(k, n)
        for line, want in out["lines"]:
            lines.append(line)
            expect.append(want)
            owner.append(ci)
        for key, what, step in out["violations"]:
            seen.setdefault(key, (ci, what))
    for key, (ci, what) in sorted(seen.items()):
        small, what2 = (cases[ci], what) if replay_case is not None else shrink18(E, cases[ci], key)
        res.violation(key, "[CLI] " + (what2 or what), dict(small, cli="c18", commands=show18(small)))
    if ctx.lean_ok and lines:
        got = core.lean_run("settings", lines)
        for g, w, ci in zip(got, expect, owner):
            if w is None:
                continue
            res.traces += 1
            if g != w and len(res.tie_breaks) < 20:
                res.tie_break("Settings model vs the CLI (simulaqron set / get / reset)",
                              dict(cases[ci], cli="c18", commands=show18(cases[ci])), g, w)
    res.rule += ("; CLI stage: %d command histories (every settable key with a documented and an ill-typed value, directed "
                 "reset / set default / prompt / user-file histories, random ones of 3..%d commands set/get/set default/"
                 "reset/malformed), one fresh interpreter per command and a fresh reader after it"
                 % (len(cases), ctx.scale(6, 10)))
    shutil.rmtree(root, ignore_errors=True)

import SqVerif.StabMeasureModel
import SqVerif.StabGaussUnique
/-
L0 — C14 groundwork, part 4: the interface `GaussIface` holds for
`gauss n rows`, from the lemmas of `StabGaussLemmas` (group preservation,
reduced form, column 0) and `StabGaussUnique` (`contains` is sound and complete).
-/
set_option linter.unusedSimpArgs false
namespace SqVerif.Stab.Meas

theorem all_I_eq_idPad (m : Nat) (ps : List P1) (hl : ps.length = m)
    (h : ∀ k, k < m → getP ps k = (false, false)) : ps = idPad m := by
  induction m generalizing ps with
  | zero => cases ps with
    | nil => rfl
    | cons _ _ => simp at hl
  | succ m ih =>
    cases ps with
    | nil => simp at hl
    | cons a rest =>
      have h0 := h 0 (by omega)
      simp only [getP_cons_zero] at h0
      rw [h0, idPad_succ, ih rest (by simpa using hl) (fun k hk => by simpa using h (k + 1) (by omega))]

theorem lbit_zAt0 (m : Nat) (o : Bool) (k : Nat) (hk : k < 2 * (m + 1)) :
    lbit (m + 1) (zAt (m + 1) 0 o).ps k = decide (k = m + 1) := by
  rw [zAt_zero_ps]
  unfold lbit
  by_cases h1 : k < m + 1
  · rw [if_pos h1, decide_eq_false (by omega)]
    cases k with
    | zero => rfl
    | succ k => simp [getP_idPad]
  · rw [if_neg h1, if_pos hk]
    by_cases h2 : k = m + 1
    · subst h2; simp
    · rw [decide_eq_false h2]
      obtain ⟨d, hd⟩ : ∃ d, k - (m + 1) = d + 1 := ⟨k - (m + 1) - 1, by omega⟩
      rw [hd]; simp [getP_idPad]

/-- in a reduced maximal tableau without X/Y on qubit 0, the group element `(-1)^o Z_0` is a row,
and it is the only row with a Z on qubit 0 -/
theorem unit_of_reduced (m : Nat) (tmp : List Row) (hvm : ValidMax (m + 1) tmp) (hred : Reduced (m + 1) tmp) (o : Bool)
    (hz : InGroup (m + 1) tmp (zAt (m + 1) 0 o)) :
    ∃ i, tmp[i]? = some (zFirst (m + 1) o) ∧ ∀ (k : Nat) (r : Row), tmp[k]? = some r → k ≠ i → r.z 0 = false := by
  obtain ⟨c, hc, e⟩ := hz
  have hsum : ∀ k, k < 2 * (m + 1) → selXor (m + 1) k c tmp = decide (k = m + 1) := by
    intro k hk
    rw [← prodSel_bit (m + 1) c tmp hvm.width k hk, e.1]
    exact lbit_zAt0 m o k hk
  obtain ⟨i, hi, hbits, hoth⟩ := reduced_unit_row (m + 1) tmp hred (m + 1) (by omega) c hsum
  have hgi : tmp[i]? = some (tmp.getD i dflt) := getElem?_of_getD hi
  have hmem : tmp.getD i dflt ∈ tmp := getD_mem tmp i hi
  generalize hri : tmp.getD i dflt = ri at *
  have hlen := hvm.width ri hmem
  have hl : ∀ k, k < 2 * (m + 1) → lbit (m + 1) ri.ps k = decide (k = m + 1) := by
    intro k hk; rw [← bit_lt (m + 1) ri k hk]; exact hbits k hk
  -- the letters of the pivot row
  have hps : ri.ps = (false, true) :: idPad m := by
    cases hps : ri.ps with
    | nil => rw [hps] at hlen; simp at hlen
    | cons a rest =>
      rw [hps] at hl hlen
      have h0 := hl 0 (by omega)
      have hn := hl (m + 1) (by omega)
      unfold lbit at h0 hn
      simp at h0 hn
      have ha : a = (false, true) := by
        rcases a with ⟨a1, a2⟩; simp at h0 hn; rw [h0, hn]
      have hrest : rest = idPad m := by
        apply all_I_eq_idPad m rest (by simpa using hlen)
        intro k hk
        have h1 := hl (k + 1) (by omega)
        have h2 := hl (m + 1 + (k + 1)) (by omega)
        unfold lbit at h1 h2
        rw [if_pos (by omega)] at h1
        rw [if_neg (by omega), if_pos (by omega)] at h2
        have e1 : m + 1 + (k + 1) - (m + 1) = k + 1 := by omega
        rw [e1] at h2
        simp only [getP_cons_succ] at h1 h2
        rw [decide_eq_false (by omega)] at h1 h2
        rcases hg : getP rest k with ⟨x, z⟩
        rw [hg] at h1 h2
        simp only at h1 h2
        rw [h1, h2]
      rw [ha, hrest]
  have hden : ri.den = zAt (m + 1) 0 ri.neg := by
    simp only [Row.den, zAt]; rw [hps]; rfl
  have hin : InGroup (m + 1) tmp (zAt (m + 1) 0 ri.neg) := by
    rw [← hden]; exact inGroup_gen hvm.width hmem
  have hneg : ri.neg = o := by
    cases hn : ri.neg <;> cases ho : o <;> try rfl
    · exfalso
      rw [hn] at hin
      exact not_both hvm.toValid (zAt_herm _ _ _) hin
        (inGroup_congr (eqv_symm (zAt_neg _ _)) (by rw [← ho]; exact ⟨c, hc, e⟩))
    · exfalso
      rw [hn] at hin
      exact not_both hvm.toValid (zAt_herm _ _ _) (by rw [← ho]; exact ⟨c, hc, e⟩)
        (inGroup_congr (eqv_symm (zAt_neg _ _)) hin)
  have hrow : ri = zFirst (m + 1) o := by
    cases ri with
    | mk ps neg =>
      simp only at hps hneg
      rw [hps, hneg]; rfl
  refine ⟨i, by rw [hgi, hrow], ?_⟩
  intro k r hk hne
  have := hoth k hne
  rw [getD_of_getElem? hk] at this
  unfold Row.bit at this
  rw [if_neg (by omega), if_pos (by omega)] at this
  simpa using this

/-- the interface for `gauss`, given the `contains` clause -/
theorem gaussIface_of (m : Nat) (rows : List Row) (hv : ValidMax (m + 1) rows)
    (hcont : contains (m + 1) (gauss (m + 1) rows) (zFirst (m + 1) false) = true ↔
      InGroup (m + 1) (gauss (m + 1) rows) (zFirst (m + 1) false).den) :
    GaussIface (m + 1) rows (gauss (m + 1) rows) := by
  have hvm := gauss_validMax (m + 1) rows hv
  have hcol := gauss_col0 (m + 1) rows hv.width (by omega)
  have hbit : ∀ r : Row, r.bit (m + 1) 0 = r.x 0 := by
    intro r; unfold Row.bit; rw [if_pos (by omega)]
  refine ⟨hvm, gauss_sameGroup (m + 1) rows hv.toCommuting, ?_, ?_, hcont, ?_⟩
  · intro i r hi hx
    exact hcol.1 i r hi (by rw [hbit]; exact hx)
  · rintro ⟨r, hr, hx⟩
    obtain ⟨r0, h0, hb⟩ := hcol.2 ⟨r, hr, by rw [hbit]; exact hx⟩
    exact ⟨r0, h0, by rw [← hbit]; exact hb⟩
  · intro o hz _
    exact unit_of_reduced m _ hvm (gauss_reduced (m + 1) rows hv.width) o hz

/-- `_is_first_qubit_in_zero` decides membership of `+Z_0` -/
theorem contains_zFirst_iff (m : Nat) (rows : List Row) (hv : Valid (m + 1) rows) :
    contains (m + 1) rows (zFirst (m + 1) false) = true ↔ InGroup (m + 1) rows (zFirst (m + 1) false).den :=
  ⟨Stab.contains_sound (m + 1) rows _ hv (zFirst_len m false),
   Stab.contains_complete (m + 1) rows _ hv (zFirst_len m false)⟩

/-- the interface holds for the tableau computed by `measure` -/
theorem gaussIface {m : Nat} {rows : List Row} {j : Nat} (hv : ValidMax (m + 1) rows) (hj : j < m + 1) :
    GaussIface (m + 1) (rows.map (Row.toFront j)) (gauss (m + 1) (rows.map (Row.toFront j))) :=
  gaussIface_of m _ (validMax_toFront hj hv)
    (contains_zFirst_iff m _ (gauss_validMax _ _ (validMax_toFront hj hv)).toValid)

end SqVerif.Stab.Meas

import TwoPLB
namespace TwoPL
variable {V : Type}

def rankOf (s : Sched V) (t : Tid) : Nat := lp t 0 s

def AllWF (s : Sched V) : Prop := ∀ x, x ∈ s → x.act.WF
def AllTwoPhase (s : Sched V) : Prop := ∀ t, TwoPhase t s

theorem commute_of_lock (x y : Step V) (h : (∃ l, x.act = .acq l) ∨ (∃ l, x.act = .rel l) ∨ (∃ l, y.act = .acq l) ∨ (∃ l, y.act = .rel l)) :
    Commute x y := by
  intro s
  rcases h with ⟨l, h⟩ | ⟨l, h⟩ | ⟨l, h⟩ | ⟨l, h⟩ <;> simp [h, Act.run]

/-- main positional lemma: in a legal, two-phase schedule `pre ++ x :: a ++ y :: b`, if `y`'s transaction has a
    strictly smaller lock point than `x`'s, then `x` and `y` commute. -/
theorem inversion_commutes (guard : Res → Lock) (s pre a b : Sched V) (x y : Step V) (tbl0 tbl : Tbl)
    (hs : s = pre ++ x :: a ++ y :: b)
    (hwf : AllWF s) (h2p : AllTwoPhase s)
    (hleg : Legal guard tbl (x :: a ++ y :: b))
    (hrank : rankOf s y.tid < rankOf s x.tid) : Commute x y := by
  -- case split on the kinds of actions
  cases hx : x.act with
  | acq l => exact commute_of_lock x y (Or.inl ⟨l, hx⟩)
  | rel l => exact commute_of_lock x y (Or.inr (Or.inl ⟨l, hx⟩))
  | eff fx f =>
    cases hy : y.act with
    | acq l => exact commute_of_lock x y (Or.inr (Or.inr (Or.inl ⟨l, hy⟩)))
    | rel l => exact commute_of_lock x y (Or.inr (Or.inr (Or.inr ⟨l, hy⟩)))
    | eff fy g =>
      -- either disjoint footprints, or a shared resource forces the rank order
      by_cases hd : Disjoint x.act.fp y.act.fp
      · intro st
        exact run_comm x.act y.act (hwf x (by simp [hs])) (hwf y (by simp [hs])) hd st
      · exfalso
        -- shared resource r
        have : ∃ r, r ∈ fx ∧ r ∈ fy := by
          simp only [Disjoint, hx, hy, Act.fp] at hd
          apply Classical.byContradiction
          intro hno
          apply hd
          intro r hr hr'
          exact hno ⟨r, hr, hr'⟩
        obtain ⟨r, hrx, hry⟩ := this
        have hne : x.tid ≠ y.tid := by
          intro h; rw [h] at hrank; exact Nat.lt_irrefl _ hrank
        -- x is legal at tbl and holds guard r
        obtain ⟨tbl', hsx, hrest⟩ := hleg
        have hheld : tbl (guard r) = some x.tid := by
          unfold stepTbl at hsx; rw [hx] at hsx; simp only at hsx
          split at hsx
          · rename_i hall
            have := (List.all_eq_true.1 hall) r hrx
            simpa using this
          · simp at hsx
        have htbl' : tbl' = tbl := by
          unfold stepTbl at hsx; rw [hx] at hsx; simp only at hsx
          split at hsx
          · simp at hsx; exact hsx.symm
          · simp at hsx
        subst htbl'
        have hyneeds : ∀ tb, stepTbl guard tb y ≠ none → tb (guard r) = some y.tid := by
          intro tb hn
          unfold stepTbl at hn; rw [hy] at hn; simp only at hn
          split at hn
          · rename_i hall
            have := (List.all_eq_true.1 hall) r hry
            simpa using this
          · simp at hn
        obtain ⟨a1, rl, a2, c, a3, ha, hrl, hc⟩ :=
          handoff guard (guard r) x.tid y.tid hne a y b tbl' hheld hrest hyneeds
        -- lock point of x.tid ≤ |pre| + 1 + |a1| ; lock point of y.tid ≥ that + 2
        have hs1 : s = (pre ++ x :: a1) ++ (rl :: (a2 ++ c :: a3 ++ y :: b)) := by
          rw [hs, ha]; simp
        have hnoacq : ∀ z, z ∈ (rl :: (a2 ++ c :: a3 ++ y :: b)) → isAcqBy x.tid z = false := by
          intro z hz
          rcases List.mem_cons.1 hz with h | h
          · subst h
            unfold isRelBy at hrl; unfold isAcqBy
            split at hrl <;> simp_all
          · obtain ⟨m1, m2, hm⟩ := List.append_of_mem h
            exact h2p x.tid (pre ++ x :: a1) m1 m2 rl z (by rw [hs1, hm]; simp) hrl
        have hx_le : rankOf s x.tid ≤ pre.length + 1 + a1.length := by
          unfold rankOf
          rw [hs1, lp_append, lp_noacq _ _ _ hnoacq]
          have := lp_le x.tid 0 (pre ++ x :: a1)
          simp at this ⊢; omega
        have hs2 : s = (pre ++ x :: a1 ++ rl :: a2) ++ (c :: (a3 ++ y :: b)) := by
          rw [hs, ha]; simp
        have hy_ge : pre.length + 1 + a1.length + 1 + a2.length + 1 ≤ rankOf s y.tid := by
          unfold rankOf
          rw [hs2, lp_append]
          have := lp_ge y.tid (0 + (pre ++ x :: a1 ++ rl :: a2).length) c (a3 ++ y :: b) hc
          simp at this ⊢; omega
        omega

/-- InvC for every suffix of a legal two-phase schedule -/
theorem invC_of_2pl (guard : Res → Lock) (s : Sched V) (hwf : AllWF s) (h2p : AllTwoPhase s) :
    ∀ (pre suf : Sched V) (tbl : Tbl), s = pre ++ suf → Legal guard tbl suf → InvC (rankOf s) suf := by
  intro pre suf
  induction suf generalizing pre with
  | nil => intros; trivial
  | cons x xs ih =>
    intro tbl hs hleg
    constructor
    · intro y hy hr
      obtain ⟨a, b, hab⟩ := List.append_of_mem hy
      subst hab
      exact inversion_commutes guard s pre a b x y tbl tbl (by rw [hs]; simp) hwf h2p (by simpa using hleg) hr
    · obtain ⟨tbl', _, hrest⟩ := hleg
      exact ih (pre ++ [x]) tbl' (by rw [hs]; simp) hrest

/-- **2PL ⇒ serializable**: a legal schedule of two-phase, guard-respecting transactions has the same effect as
    the schedule stably sorted by lock point (which runs every transaction's steps contiguously when lock points
    are distinct). -/
theorem twoPL_serializable (guard : Res → Lock) (s : Sched V) (tbl : Tbl)
    (hwf : AllWF s) (h2p : AllTwoPhase s) (hleg : Legal guard tbl s) (st : St V) :
    exec (sortR (rankOf s) s) st = exec s st :=
  exec_sortR (rankOf s) s (invC_of_2pl guard s hwf h2p [] s tbl rfl hleg) st

end TwoPL

import SqVerif.Adjacency
import SqVerif.Gen.EprGuards
import SqVerif.Drive.Util
/- driver for the adjacency / cmd_epr-guard model (names are strings without space , ; : |).
   topology token: `none` | `{}` | `A:B,C;B:;C:A`   (dict in key order; `K:` = empty neighbour list)
   in : `adj TOPO | ME | OTHER`
        `ids N1,N2,...`                              (hostDict order)
        `guard N1,N2,... | TOPO | ME | RID`          (RID a signed decimal integer: the value of a NetQASM register)
        `exec N1,N2,... | TOPO | ME | RID`           (the generated statement list of cmd_epr)
   out: `true` / `false`
        `N_a,N_b,...`                                (sorted: position = node id)
        `proceed R` | `err unknownNode` | `err sameNode` | `err notAdjacent`
        `done R created=K unrecog=B` | `raised E created=K unrecog=B`   (E as above, or `unbound`)
        `bad-op` -/
namespace SqVerif.Drive.Adjacency
open SqVerif.Adjacency SqVerif.Drive

def ltS (a b : String) : Bool := decide (a < b)

def splitBar (ws : List String) : List (List String) :=
  ws.foldr (fun w acc => if w == "|" then [] :: acc else
    match acc with | [] => [[w]] | h :: t => (w :: h) :: t) [[]]

def commaList (s : String) : List String := (s.splitOn ",").filter (· ≠ "")

def parseEntry? (s : String) : Option (String × List String) :=
  match s.splitOn ":" with
  | [k, v] => if k = "" then none else some (k, commaList v)
  | _ => none

def parseTopo? (s : String) : Option (Option (Topology String)) :=
  if s = "none" then some none
  else if s = "{}" then some (some [])
  else ((s.splitOn ";").mapM parseEntry?).map some

def errName : GuardErr → String
  | .unknownNode => "unknownNode"
  | .sameNode => "sameNode"
  | .notAdjacent => "notAdjacent"

def showGuard : GuardResult String → String
  | .proceed r => "proceed " ++ r
  | .err e => "err " ++ errName e

def showExec : ExecResult String → String
  | .done r => "done " ++ r.remote.getD "?" ++ " created=" ++ toString r.created ++ " unrecog=" ++ toString r.mayHaveCreated
  | .raised e r =>
    "raised " ++ (match e with | .guard g => errName g | .unbound => "unbound") ++
      " created=" ++ toString r.created ++ " unrecog=" ++ toString r.mayHaveCreated

def handle (line : String) : String :=
  match splitBar (words line) with
  | [["adj", t], [me], [other]] =>
    match parseTopo? t with
    | some topo => toString (isAdjacent topo me other)
    | none => "bad-op"
  | [["ids", ns]] => ",".intercalate (sortNames ltS (commaList ns))
  | [["guard", ns], [t], [me], [rid]] =>
    match parseTopo? t, rid.toInt? with
    | some topo, some rid => showGuard (cmdEprGuardI ltS (commaList ns) topo me rid)
    | _, _ => "bad-op"
  | [["exec", ns], [t], [me], [rid]] =>
    match parseTopo? t, rid.toInt? with
    | some topo, some rid => showExec (execI ltS (commaList ns) topo me rid SqVerif.Gen.EprGuards.cmdEprStmts)
    | _, _ => "bad-op"
  | _ => "bad-op"

end SqVerif.Drive.Adjacency

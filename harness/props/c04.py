"""C04 -- every operation completes and no lock outlives it.

Same exploration as C03 (harness/schedcase.py) including crossing / cyclic /
self-addressed sends; oracle: every client Deferred fires within 600 s of
virtual time and, at quiescence, no node lock and no qubit lock is held."""
from .. import core
from .. import schedcase
from .. import skeltrace

LEAN_TARGETS = ["SqVerif.Props.C04", "SqVerif.Props.C04Live"]
PROPS_FILE = ["SqVerif/Props/C04Skel.lean", "SqVerif/Props/C04Live.lean"]
DRIVE_TARGETS = ["SqVerif.Drive.VNet", "SqVerif.Drive.Skel"]
TRUSTED = [
    "harness/simnet.py: fake reactor + Perspective Broker over in-memory pipes, one schedulable event per PB message, "
    "per-connection FIFO, fake clock (virtual time: a 600 s hang costs milliseconds)",
    "harness/schedcase.py: attribution of messages/timers to operations, schedule policies, lock monitor "
    "(twisted DeferredLock.acquire/release wrapped from outside)",
    "AST translator harness/gen/skel.py (skeletons of virtual.py / quantum.py for locks_balanced / hold-and-wait analysis): "
    "validated dynamically by trace acceptance (harness/skeltrace.py: every activation of a translated method recorded on "
    "the real code -- node/qubit lock operations, mutations of virtQubits/simQubits/registers, node-method calls, with roles, "
    "and how it ended -- must be a path of its skeleton: Skel.accepts, sound by trace_acceptance_ret/exc/open); not compared: "
    "guards, asserts, aliases, cancel, raise kinds, calls on simulated-qubit/engine objects, other fields",
    "harness/skeltrace.py: attribution of events to activations (contextvar frame + source text of the call expression), "
    "mapping of concrete nodes / simulated qubits to role sets",
]
ASSUMPTIONS = [
    "stabilizer backend, three nodes, at most two client connections per node; 1-2 concurrent operations exhaustively at "
    "the stated delay bound, 3-4 sampled",
    "back-off draws are scripted: pairwise distinct (main class) and four equal draws followed by distinct ones (stressed class)",
    "budget: 600 s of virtual time per operation set",
]


def gen(ctx):
    try:
        from ..gen import skel
    except ImportError:
        return {"obligations": 0, "note": "harness.gen.skel not available"}
    return skel.generate(core.REPO, core.LEAN_DIR)


def run(ctx):
    res = schedcase.check(ctx, "C04")
    skeltrace.tie(ctx, res, "C04")
    return res


def search(ctx, res, broken):
    schedcase.search(ctx, "C04", res, broken)

import SqVerif.Framing
import SqVerif.Drive.Util
/- driver for the framing model.  Bytes travel as hex strings (`-` = empty).

   in : `srv <minSizes csv> | <chunk> <chunk> ...`
          one connection, chunks fed to `dataReceived` in order
        `net <minSizes csv> | <async frame> ... | <ev> <ev> ...`
          ev = `C` (connect) | `D<c>:<chunk>` | `K<k>` (k-th suspended handler completes)
        `cli <done,err,reg,arrHdr,arrLenOff,arrEntry,doneIdOff> | <buf> | <wire> | <choices csv> | <calls>`
        `sock <choices csv> | <op> <op> ...`       op = `S<msg>` | `R<maxsize>`
   out: `srv`  : `<id>:<payload> ... | rest=<n> err=0`  or  `... | rest=- err=1` (the read raised: twisted
                 drops the connection, its buffer is not observable any more)
        `net`  : `c0 h=<id,..> d=<id,..> rest=<n> f=0 ; c1 ... rest=- f=1 ; pending=<n>`
        `cli`  : one item per call, `ok id=<n> upd=<hex,..>` | `raised upd=..` | `blocked upd=..` | `closed` | `malformed`
                 then `| left=<buf+wire length>`
        `sock` : one item per recv: `m<hex or #len:a:b>` | `blocked` | `closed`
        anything else: `bad-op` -/
namespace SqVerif.Drive.Framing
open SqVerif.Framing SqVerif.Drive

def hexVal (c : Char) : Option Nat :=
  if '0' ≤ c ∧ c ≤ '9' then some (c.toNat - '0'.toNat)
  else if 'a' ≤ c ∧ c ≤ 'f' then some (c.toNat - 'a'.toNat + 10)
  else none

def hexList : List Char → Option Bytes
  | [] => some []
  | a :: b :: rest => do
    let x ← hexVal a
    let y ← hexVal b
    let r ← hexList rest
    pure ((16 * x + y) :: r)
  | _ => none

def unhex (s : String) : Option Bytes := if s == "-" then some [] else hexList s.toList

def hexDigit (n : Nat) : Char := if n < 10 then Char.ofNat (48 + n) else Char.ofNat (87 + n)

def hex (b : Bytes) : String :=
  if b.isEmpty then "-" else String.ofList (b.flatMap fun x => [hexDigit (x / 16 % 16), hexDigit (x % 16)])

/-- short messages in full, long ones as length and two checksums -/
def digest (b : Bytes) : String :=
  if b.length ≤ 48 then hex b
  else
    let a := b.foldl (fun acc x => (acc + x) % 65521) 0
    let w := (b.foldl (fun (acc : Nat × Nat) x => ((acc.1 + acc.2 * x) % 65521, acc.2 + 1)) (0, 1)).1
    s!"#{b.length}:{a}:{w}"

def csvNat (s : String) : Option (List Nat) :=
  if s == "-" then some [] else (s.splitOn ",").mapM (·.toNat?)

def splitBar (ws : List String) : List (List String) :=
  ws.foldr (fun w acc => if w == "|" then [] :: acc else
    match acc with | [] => [[w]] | h :: t => (w :: h) :: t) [[]]

def natCsv (l : List Nat) : String := if l.isEmpty then "-" else ",".intercalate (l.map toString)

def parseEv (s : String) : Option Ev :=
  match s.toList with
  | ['C'] => some .connect
  | 'K' :: r => (String.ofList r).toNat?.map .complete
  | 'D' :: r =>
    match (String.ofList r).splitOn ":" with
    | [c, h] => do
      let c ← c.toNat?
      let b ← unhex h
      pure (.data c b)
    | _ => none
  | _ => none

def parseOp (s : String) : Option SockOp :=
  match s.toList with
  | 'S' :: r => (unhex (String.ofList r)).map .send
  | 'R' :: r => (String.ofList r).toNat?.map .recv
  | _ => none

def showSrv (r : Drained) : String :=
  " ".intercalate (r.frames.map fun f => s!"{(msgOf f).id}:{hex (msgOf f).payload}")
    ++ (if r.err then " | rest=- err=1" else s!" | rest={r.rest.length} err=0")

def showNet (s : Node) : String :=
  let conns := (List.range s.bufs.length).map fun c =>
    s!"c{c} h={natCsv ((s.handledOn c).map fun f => (msgOf f).id)} d={natCsv (s.donesOn c)} " ++
    (if s.failed.contains c then "rest=- f=1" else s!"rest={(s.bufs.getD c []).length} f=0")
  " ; ".intercalate (conns ++ [s!"pending={s.pending.length}"])

def showCall (z : RetSizes) : PullRes → String
  | .ok fs _ _ _ =>
    match fs.getLast? with
    | some l =>
      let upd := ",".intercalate (fs.dropLast.map digest)
      if isDone l then s!"ok id={doneId z l} upd={upd}" else s!"raised upd={upd}"
    | none => "bad-op"
  | .blocked fs _ _ => s!"blocked upd={",".intercalate (fs.map digest)}"
  | .closed _ _ _ => "closed"
  | .malformed _ _ _ => "malformed"

def leftOf : List PullRes → Option Nat
  | [] => none
  | [.ok _ b w _] => some (b.length + w.length)
  | [.blocked _ b _] => some b.length
  | [_] => none
  | _ :: rs => leftOf rs

def showRecv : RecvRes → String
  | .msg m => "m" ++ digest m
  | .blocked => "blocked"
  | .closed => "closed"

def handle (line : String) : String :=
  match splitBar (words line) with
  | [["srv", sz], chunks] =>
    match csvNat sz, chunks.mapM unhex with
    | some sz, some cs => showSrv (feed srvSize (deserOk sz) [] cs)
    | _, _ => "bad-op"
  | [["net", sz], asyncs, evs] =>
    match csvNat sz, asyncs.mapM unhex, evs.mapM parseEv with
    | some sz, some as, some evs => showNet (run (deserOk sz) (fun f => as.contains f) {} evs)
    | _, _, _ => "bad-op"
  | [["cli", zs], [buf], [wire], [ch], [calls]] =>
    match csvNat zs, unhex buf, unhex wire, csvNat ch, calls.toNat? with
    | some [a, b, c, d, e, f, g], some buf, some wire, some ch, some n =>
      let z : RetSizes := ⟨a, b, c, d, e, f, g⟩
      let rs := session z n buf wire ch
      " ; ".intercalate (rs.map (showCall z)) ++
        (match leftOf rs with | some k => s!" | left={k}" | none => " | left=?")
    | _, _, _, _, _ => "bad-op"
  | [["sock", ch], ops] =>
    match csvNat ch, ops.mapM parseOp with
    | some ch, some ops => " ".intercalate ((sockRun ⟨[], [], ch⟩ ops).map showRecv)
    | _, _ => "bad-op"
  | _ => "bad-op"

end SqVerif.Drive.Framing

import SqVerif.VNetX
import SqVerif.Drive.VNet
/- driver for the extended virtual-node model `VNetX` (stateful; superset of Drive/VNet.lean).
   in : init <maxQubits>,<maxRegs> ...           one pair per node; resets the state
        new / g1 / g2 / send / meas              exactly as for `vnet`
        newreg <node> <maxQubits> | delreg <node> <reg> | inreg <node> <reg> | getref <node> <num>
        nqsend <node> <num> <target> <app> <rapp>
        nqepr <node> <num|-> <target> <app> <rapp> <ent>
        addrecv <node> <from> <fs> <ts> <num|-> | addepr <node> <from> <fs> <ts> <num|-> <ent>
        getrecv <node> <sock> | getepr <node> <sock>
        obs <number|virtnum|virtnode|simnode|regri|nodereg> <hid> | obs <conn|locked> <node>
   out: <result> | <engine ops> | <snapshot>
   snapshot: per node `N<i> nr=<numRegs> nx=<nextReg> mr=<maxRegs> R[num:max:len ...] V[...] S[...] Q[...] E[...]`
   (Python's view: R lists the populated AND the empty client registers in creation order, nr / mr
   include the empty ones; Q / E = qubit_recv / qubit_recv_epr, sockets sorted,
   `sock:from.fs.ts.num.ent/...`), then `VA[...]` / `SA[...]` as for `vnet`. -/
namespace SqVerif.Drive.VNetX
open SqVerif.VNet SqVerif.VNetX SqVerif.Drive SqVerif.Drive.VNet

def showOpt : Option Nat → String
  | some n => toString n | none => "-"

def showRef : Option Nat → String
  | some h => s!"handle {h}" | none => "none"

def showXRes : XRes → String
  | .res r => showRes r
  | .reg n => s!"reg {n}"
  | .ref h => showRef h
  | .eprRef h e => s!"epr {showRef h} {showOpt e}"
  | .name n => s!"name {n}"
  | .bool b => s!"bool {b01 b}"
  | .matrix k => s!"matrix {k}"
  | .regInfo k r p => s!"reginfo {k} {r} {p}"
  | .keyError => "err KeyError"
  | .attrError => "err AttributeError"
  | .unspecified => "unspecified"

def showRec (r : QRec) : String :=
  s!"{r.frm}.{r.fromSock}.{r.toSock}.{showOpt r.num}.{showOpt r.ent}"

def showQMap (m : QMap) : String :=
  " ".intercalate ((sortBy (fun (a b : Nat × List QRec) => a.1 < b.1) m).map fun p =>
    s!"{p.1}:" ++ "/".intercalate (p.2.map showRec))

def showNodeX (s : NetX) (i : Nat) (n : Node) : String :=
  let x := extOf s i
  let all : List (Nat × Nat × Nat) := (n.regs.map fun r => (r.num, r.max, r.toks.length)) ++ (x.free.map fun p => (p.1, p.2, 0))
  let regs := " ".intercalate ((sortBy (fun (a b : Nat × Nat × Nat) => a.1 < b.1) all).map fun r => s!"{r.1}:{r.2.1}:{r.2.2}")
  let virt := " ".intercalate (n.virt.map fun h => match s.base.vqs[h]? with
    | some v => s!"{h}:{v.num}:{v.simNode}:{v.simObj}" | none => s!"{h}:?")
  let sim := " ".intercalate (n.sim.map fun o => match s.base.sqs[o]? with
    | some q => s!"{o}:{q.simNum}:{q.reg}:{q.pos}" | none => s!"{o}:?")
  s!"N{i} nr={n.numRegs + x.free.length} nx={n.nextReg} mr={n.maxRegs + x.free.length} R[{regs}] V[{virt}] S[{sim}] Q[{showQMap x.recv}] E[{showQMap x.epr}]"

def showNetX (s : NetX) : String :=
  let nodes := " ; ".intercalate (s.base.nodes.mapIdx fun i n => showNodeX s i n)
  let va := "".intercalate (s.base.vqs.map fun v => b01 v.active)
  let sa := "".intercalate (s.base.sqs.map fun q => b01 q.active)
  s!"{nodes} ; VA[{va}] SA[{sa}]"

def optNat? (w : String) : Option (Option Nat) :=
  if w == "-" then some none else w.toNat?.map some

def parseObs (ws : List String) : Option Obs :=
  match ws with
  | ["number", h] => h.toNat?.map Obs.number
  | ["virtnum", h] => h.toNat?.map Obs.virtNum
  | ["virtnode", h] => h.toNat?.map Obs.virtNode
  | ["simnode", h] => h.toNat?.map Obs.simNode
  | ["regri", h] => h.toNat?.map Obs.regRI
  | ["nodereg", h] => h.toNat?.map Obs.nodeReg
  | ["conn", a] => a.toNat?.map Obs.connections
  | ["locked", a] => a.toNat?.map Obs.locked
  | _ => none

def parseXOp (ws : List String) : Option XOp :=
  match ws with
  | ["newreg", a, m] => do let a ← a.toNat?; let m ← m.toNat?; pure (.newReg a m)
  | ["delreg", a, r] => do let a ← a.toNat?; let r ← r.toNat?; pure (.delReg a r)
  | ["inreg", a, r] => do let a ← a.toNat?; let r ← r.toNat?; pure (.newInReg a r)
  | ["getref", a, k] => do let a ← a.toNat?; let k ← k.toNat?; pure (.getRef a k)
  | ["nqsend", a, k, b, p, q] => do
    let a ← a.toNat?; let k ← k.toNat?; let b ← b.toNat?; let p ← p.toNat?; let q ← q.toNat?
    pure (.nqSend a k b p q)
  | ["nqepr", a, k, b, p, q, e] => do
    let a ← a.toNat?; let k ← optNat? k; let b ← b.toNat?; let p ← p.toNat?; let q ← q.toNat?; let e ← e.toNat?
    pure (.nqSendEpr a k b p q e)
  | ["addrecv", b, f, fs, ts, k] => do
    let b ← b.toNat?; let f ← f.toNat?; let fs ← fs.toNat?; let ts ← ts.toNat?; let k ← optNat? k
    pure (.addRecv b f fs ts k)
  | ["addepr", b, f, fs, ts, k, e] => do
    let b ← b.toNat?; let f ← f.toNat?; let fs ← fs.toNat?; let ts ← ts.toNat?; let k ← optNat? k; let e ← e.toNat?
    pure (.addEpr b f fs ts k e)
  | ["getrecv", b, so] => do let b ← b.toNat?; let so ← so.toNat?; pure (.getRecv b so)
  | ["getepr", b, so] => do let b ← b.toNat?; let so ← so.toNat?; pure (.getEprRecv b so)
  | "obs" :: rest => (parseObs rest).map XOp.obs
  | ws => (parseOp ws).map XOp.base

def stepLine (s : NetX) (line : String) : NetX × String :=
  match words line with
  | "init" :: caps =>
    match caps.mapM parseCap with
    | some cs => (initX cs, "ok")
    | none => (s, "bad-op")
  | ws =>
    match parseXOp ws with
    | none => (s, "bad-op")
    | some op =>
      let o := stepX s op
      (o.st, showXRes o.res ++ " | " ++ " ".intercalate (o.eops.map showEOp) ++ " | " ++ showNetX o.st)

end SqVerif.Drive.VNetX

"""NumPy stand-in for the subset of the ProjectQ API that
`simulaqron/virtual_node/project_q_simulator.py` (and the repo's engine test)
uses.  NOT ProjectQ.  It exists because projectq is not installed in the
sandbox and cannot be fetched; it lets the real `projectQEngine` code run.

Conventions reproduced (stated as an ASSUMPTION of check C15):
  * `MainEngine()` sends commands through a pipeline that may hold them until
    `flush()`; the stand-in holds EVERY command (allocate, gate, measure,
    deallocate) until `flush()`, so a forgotten flush is visible;
  * the simulator keeps a map qubit id -> bit position; a newly allocated qubit
    gets the highest position; `cheat()` returns `(map, state)` where the
    amplitude of basis state k has qubit `q` in bit `(k >> map[q.id]) & 1`
    (position 0 = least significant bit);
  * `StatePreparation(v) | qureg` prepares amplitudes `v[k]` with `qureg[i]` in
    bit i of k (qureg[0] least significant); `v` must have length 2^len(qureg)
    and be normalised to 1e-10, the qubits must be in |0..0>;
  * `Measure` samples a basis state with `random.random()` against the
    cumulative distribution (as ProjectQ's Python simulator does) and collapses;
    `int(qubit)` before the measurement has been flushed raises
    `NotYetMeasuredError`;
  * dropping the last reference to a `Qubit` deallocates it (`__del__`), which
    the simulator refuses for a qubit in superposition (RuntimeError, printed
    and ignored by Python as for any exception in `__del__`);
  * gate matrices: H, X, Y, Z, S = diag(1, i), T = diag(1, e^{i pi/4}),
    Rx/Ry/Rz(a) = exp(-i a P / 2), CNOT = C(X), CZ = C(Z) with the first operand
    as control.
"""
from . import types       # noqa: F401
from . import ops         # noqa: F401
from . import backends    # noqa: F401
from . import cengines    # noqa: F401
from .cengines import MainEngine  # noqa: F401

__version__ = "0.8-standin"

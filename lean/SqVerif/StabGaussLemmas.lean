import SqVerif.StabSpec
/-
L0 — lemmas about `mulRow`, `gauss` (boolean Gaussian elimination with the
code's sign rule), the generated group, and the reduced form.  Interface for
the C13 (equality / membership) and C14 (measurement) property files.
-/
namespace SqVerif.Stab.Gauss
/- All declarations live in `SqVerif.Stab.Gauss` (generic helper names would
clash with the gate files); the interface names are re-exported into
`SqVerif.Stab` at the end of the file. -/

/-! ### letters: the code's counting rule is the phase exponent -/

theorem iexp_count (a b : P1) : iexp a b = (if isI a b then 1 else 0) + 3 * (if isMinusI a b then 1 else 0) := by
  rcases a with ⟨a1,a2⟩; rcases b with ⟨b1,b2⟩
  cases a1 <;> cases a2 <;> cases b1 <;> cases b2 <;> decide

theorem iexp_parity (a b : P1) : iexp a b % 2 = b2n (anti1 a b) := by
  rcases a with ⟨a1,a2⟩; rcases b with ⟨b1,b2⟩
  cases a1 <;> cases a2 <;> cases b1 <;> cases b2 <;> decide

theorem anti1_comm (a b : P1) : anti1 a b = anti1 b a := by
  rcases a with ⟨a1,a2⟩; rcases b with ⟨b1,b2⟩
  cases a1 <;> cases a2 <;> cases b1 <;> cases b2 <;> rfl

theorem anti1_self (a : P1) : anti1 a a = false := by
  rcases a with ⟨a1,a2⟩; cases a1 <;> cases a2 <;> rfl

theorem phL_count (as bs : List P1) : phL as bs = countI as bs + 3 * countMinusI as bs := by
  induction as generalizing bs with
  | nil => cases bs <;> simp [phL, countI, countMinusI]
  | cons a as ih =>
    cases bs with
    | nil => simp [phL, countI, countMinusI]
    | cons b bs =>
      have := iexp_count a b
      simp only [phL, countI, countMinusI, ih bs]
      omega

theorem phL_parity (as bs : List P1) : phL as bs % 2 = b2n (antiL as bs) := by
  induction as generalizing bs with
  | nil => cases bs <;> simp [phL, antiL]
  | cons a as ih =>
    cases bs with
    | nil => simp [phL, antiL]
    | cons b bs =>
      have h1 := ih bs
      have h2 := iexp_parity a b
      simp only [phL, antiL]
      cases hA : anti1 a b <;> cases hB : antiL as bs <;> rw [hA] at h2 <;> rw [hB] at h1 <;>
        simp only [b2n_true, b2n_false, bne_self_eq_false, Bool.true_bne, Bool.false_bne, Bool.not_false] at * <;> omega

theorem antiL_comm (as bs : List P1) : antiL as bs = antiL bs as := by
  induction as generalizing bs with
  | nil => cases bs <;> simp [antiL]
  | cons a as ih =>
    cases bs with
    | nil => simp [antiL]
    | cons b bs => simp [antiL, anti1_comm a b, ih bs]

theorem antiL_self (as : List P1) : antiL as as = false := by
  induction as with
  | nil => rfl
  | cons a as ih => simp [antiL, anti1_self, ih]

/-- **the code's sign rule is the exact product** for commuting rows -/
theorem mulRow_den (a b : Row) (_h : a.ps.length = b.ps.length) (hc : antiL a.ps b.ps = false) :
    (mulRow a b).den ≈ₚ a.den ⋆ b.den := by
  refine ⟨rfl, ?_⟩
  have h1 := phL_count a.ps b.ps
  have h2 := phL_parity a.ps b.ps
  rw [hc] at h2
  simp only [b2n_false] at h2
  simp only [Row.den, mulRow, POp.mul, hasMinusPhase, ← h1]
  rcases Nat.mod_two_eq_zero_or_one (phL a.ps b.ps / 2) with h3 | h3
  · have : phL a.ps b.ps % 4 = 0 := by omega
    rw [this]
    cases a.neg <;> cases b.neg <;> simp <;> omega
  · have : phL a.ps b.ps % 4 = 2 := by omega
    rw [this]
    cases a.neg <;> cases b.neg <;> simp <;> omega

theorem mulRow_len (a b : Row) (h : a.ps.length = b.ps.length) : (mulRow a b).ps.length = a.ps.length :=
  mulL_length _ _ h

/-! ### the generated group -/

theorem den_herm (r : Row) : r.den.ph % 2 = 0 := by
  cases h : r.neg <;> simp [Row.den, h]

theorem rowsOK_dens {n : Nat} {g : List Row} (h : ∀ r, r ∈ g → r.ps.length = n) : RowsOK n (dens g) := by
  intro p hp
  obtain ⟨r, hr, rfl⟩ := List.mem_map.1 hp
  exact ⟨h r hr, den_herm r⟩

theorem pairComm_of_all (g : List POp) (h : ∀ a, a ∈ g → ∀ b, b ∈ g → antiL a.ps b.ps = false) : PairComm g := by
  induction g with
  | nil => trivial
  | cons r rs ih =>
    exact ⟨fun q hq => h r (by simp) q (by simp [hq]),
      ih (fun a ha b hb => h a (by simp [ha]) b (by simp [hb]))⟩

theorem pairComm_dens {n : Nat} {g : List Row} (h : Commuting n g) : PairComm (dens g) := by
  apply pairComm_of_all
  intro a ha b hb
  obtain ⟨r, hr, rfl⟩ := List.mem_map.1 ha
  obtain ⟨q, hq, rfl⟩ := List.mem_map.1 hb
  exact h.comm r hr q hq

theorem commuting_tail {n : Nat} {r : Row} {g : List Row} (h : Commuting n (r :: g)) : Commuting n g :=
  ⟨fun a ha => h.width a (by simp [ha]), fun a ha b hb => h.comm a (by simp [ha]) b (by simp [hb])⟩

theorem mul_one (n : Nat) (p : POp) (h : p.len = n) : p ⋆ one n ≈ₚ p :=
  eqv_trans (mul_comm_of_commute p (one n) (antiL_one _ _)) (one_mul n p h)

theorem prodSel_nil_left (n : Nat) (g : List POp) : prodSel n [] g = one n := by
  cases g <;> rfl
theorem prodSel_nil_right (n : Nat) (c : List Bool) : prodSel n c [] = one n := by
  cases c <;> rfl

theorem prodSel_zeros (n m : Nat) (g : List POp) : prodSel n (List.replicate m false) g = one n := by
  induction m generalizing g with
  | zero => exact prodSel_nil_left n g
  | succ m ih =>
    cases g with
    | nil => exact prodSel_nil_right n _
    | cons r rs => simp [List.replicate_succ, prodSel, ih]

theorem xorL_length (c d : List Bool) (h : c.length = d.length) : (xorL c d).length = c.length := by
  induction c generalizing d with
  | nil => cases d <;> simp_all [xorL]
  | cons a as ih => cases d with
    | nil => simp at h
    | cons b bs => simp [xorL, ih bs (by simpa using h)]

/-- the generated group as a closure -/
inductive Gen (n : Nat) (g : List Row) : POp → Prop
  | one : Gen n g (one n)
  | gen (r : Row) : r ∈ g → Gen n g r.den
  | mul {p q : POp} : Gen n g p → Gen n g q → Gen n g (p ⋆ q)
  | eqv {p q : POp} : Gen n g p → p ≈ₚ q → Gen n g q

theorem gen_prodSel (n : Nat) (g' g : List Row) (hsub : ∀ r, r ∈ g → r ∈ g') (c : List Bool) :
    Gen n g' (prodSel n c (dens g)) := by
  induction g generalizing c with
  | nil => rw [dens, List.map_nil, prodSel_nil_right]; exact Gen.one
  | cons r rs ih =>
    cases c with
    | nil => rw [prodSel_nil_left]; exact Gen.one
    | cons a cs =>
      have h1 := ih (fun q hq => hsub q (by simp [hq])) cs
      simp only [dens, List.map_cons, prodSel]
      split
      · exact Gen.mul (Gen.gen r (hsub r (by simp))) h1
      · exact h1

theorem gen_of_inGroup {n : Nat} {g : List Row} {p : POp} (h : InGroup n g p) : Gen n g p := by
  obtain ⟨c, _, hc⟩ := h
  exact Gen.eqv (gen_prodSel n g g (fun _ h => h) c) hc

theorem inGroup_one {n : Nat} (g : List Row) : InGroup n g (one n) :=
  ⟨List.replicate g.length false, by simp, by rw [prodSel_zeros]; exact eqv_refl _⟩

theorem inGroup_eqv {n : Nat} {g : List Row} {p q : POp} (h : InGroup n g p) (e : p ≈ₚ q) : InGroup n g q := by
  obtain ⟨c, hl, hc⟩ := h
  exact ⟨c, hl, eqv_trans hc e⟩

theorem inGroup_mem {n : Nat} {g : List Row} (hw : ∀ r, r ∈ g → r.ps.length = n) {r : Row} (hr : r ∈ g) :
    InGroup n g r.den := by
  induction g with
  | nil => simp at hr
  | cons q qs ih =>
    rcases List.mem_cons.1 hr with rfl | hr'
    · refine ⟨true :: List.replicate qs.length false, by simp, ?_⟩
      simp only [dens, List.map_cons, prodSel, if_true]
      rw [prodSel_zeros]
      exact mul_one n _ (hw r (by simp))
    · obtain ⟨c, hl, hc⟩ := ih (fun a ha => hw a (by simp [ha])) hr'
      exact ⟨false :: c, by simp [hl], by simpa [dens, prodSel] using hc⟩

theorem inGroup_mul {n : Nat} {g : List Row} (hg : Commuting n g) {p q : POp}
    (hp : InGroup n g p) (hq : InGroup n g q) : InGroup n g (p ⋆ q) := by
  obtain ⟨c, hl, hc⟩ := hp
  obtain ⟨d, hl', hd⟩ := hq
  refine ⟨xorL c d, by rw [xorL_length _ _ (hl.trans hl'.symm)]; exact hl, ?_⟩
  have := prodSel_xor n c d (dens g) (by simpa [dens] using hl) (by simpa [dens] using hl')
    (rowsOK_dens hg.width) (pairComm_dens hg)
  exact eqv_trans this (mul_congr hc hd)

theorem inGroup_of_gen {n : Nat} {g : List Row} (hg : Commuting n g) {p : POp} (h : Gen n g p) : InGroup n g p := by
  induction h with
  | one => exact inGroup_one g
  | gen r hr => exact inGroup_mem hg.width hr
  | mul _ _ ih1 ih2 => exact inGroup_mul hg ih1 ih2
  | eqv _ e ih => exact inGroup_eqv ih e

theorem gen_mono {n : Nat} {g g' : List Row} (h : ∀ r, r ∈ g → Gen n g' r.den) {p : POp} (hp : Gen n g p) : Gen n g' p := by
  induction hp with
  | one => exact Gen.one
  | gen r hr => exact h r hr
  | mul _ _ ih1 ih2 => exact Gen.mul ih1 ih2
  | eqv _ e ih => exact Gen.eqv ih e

/-- two commuting families each of whose rows lies in the group of the other generate the same group -/
theorem sameGroup_of_mutual {n : Nat} {g g' : List Row} (hg : Commuting n g) (hg' : Commuting n g')
    (h1 : ∀ r, r ∈ g → InGroup n g' r.den) (h2 : ∀ r, r ∈ g' → InGroup n g r.den) : SameGroup n g g' := by
  intro p
  constructor
  · intro hp
    exact inGroup_of_gen hg' (gen_mono (fun r hr => gen_of_inGroup (h1 r hr)) (gen_of_inGroup hp))
  · intro hp
    exact inGroup_of_gen hg (gen_mono (fun r hr => gen_of_inGroup (h2 r hr)) (gen_of_inGroup hp))

theorem sameGroup_refl (n : Nat) (g : List Row) : SameGroup n g g := fun _ => Iff.rfl
theorem sameGroup_symm {n : Nat} {g h : List Row} (e : SameGroup n g h) : SameGroup n h g := fun p => (e p).symm
theorem sameGroup_trans {n : Nat} {g h k : List Row} (e : SameGroup n g h) (e' : SameGroup n h k) : SameGroup n g k :=
  fun p => (e p).trans (e' p)

/-- every group element has width `n`, is Hermitian and commutes with anything that commutes with the rows -/
theorem inGroup_len {n : Nat} {g : List Row} (hw : ∀ r, r ∈ g → r.ps.length = n) {p : POp} (h : InGroup n g p) :
    p.ps.length = n := by
  obtain ⟨c, _, hc⟩ := h
  rw [← hc.1]
  exact prodSel_len n c (dens g) (rowsOK_dens hw)

theorem prodSel_herm (n : Nat) (c : List Bool) (g : List POp) (h : RowsOK n g) (hpc : PairComm g) :
    (prodSel n c g).ph % 2 = 0 := by
  induction g generalizing c with
  | nil => rw [prodSel_nil_right]; rfl
  | cons r rs ih =>
    cases c with
    | nil => rfl
    | cons a cs =>
      have hrs : RowsOK n rs := fun q hq => h q (by simp [hq])
      have := ih cs hrs hpc.2
      simp only [prodSel]
      split
      · have hc := comm_prodSel n r cs rs (h r (by simp)).1 hrs hpc.1
        have hp := phL_parity r.ps (prodSel n cs rs).ps
        rw [hc] at hp
        have hr := (h r (by simp)).2
        simp only [POp.mul, b2n_false] at *
        omega
      · exact this

theorem inGroup_herm {n : Nat} {g : List Row} (hg : Commuting n g) {p : POp} (h : InGroup n g p) : p.ph % 2 = 0 := by
  obtain ⟨c, _, hc⟩ := h
  have := prodSel_herm n c (dens g) (rowsOK_dens hg.width) (pairComm_dens hg)
  have := hc.2
  omega

theorem inGroup_comm {n : Nat} {g : List Row} (hw : ∀ r, r ∈ g → r.ps.length = n) {q p : POp} (hq : q.ps.length = n)
    (hc : ∀ r, r ∈ g → antiL q.ps r.ps = false) (h : InGroup n g p) : antiL q.ps p.ps = false := by
  obtain ⟨c, _, hcp⟩ := h
  rw [← hcp.1]
  apply comm_prodSel n q c (dens g) hq (rowsOK_dens hw)
  intro x hx
  obtain ⟨r, hr, rfl⟩ := List.mem_map.1 hx
  exact hc r hr

/-! ### one elimination step, index-wise -/

def dflt : Row := ⟨[], false⟩

theorem getP_nil (j : Nat) : getP [] j = (false, false) := by simp [getP]

@[simp] theorem dflt_bit (w k : Nat) : dflt.bit w k = false := by
  simp [Row.bit, dflt, Row.x, Row.z, getP_nil]

/-- the transposition `h ↔ i` -/
def sw (h i idx : Nat) : Nat := if idx = h then i else if idx = i then h else idx

theorem sw_self (h idx : Nat) : sw h h idx = idx := by
  unfold sw; split <;> simp_all
theorem sw_sw (h i idx : Nat) : sw h i (sw h i idx) = idx := by
  unfold sw; repeat' split
  all_goals omega
theorem sw_lt {h i idx n : Nat} (hh : h < n) (hi : i < n) (hidx : idx < n) : sw h i idx < n := by
  unfold sw; repeat' split
  all_goals omega

/-- the result rows of an elimination step with pivot found at row `i` -/
def stepRows (w : Nat) (rows : List Row) (h k i : Nat) : List Row :=
  (List.range rows.length).map fun idx =>
    let r := rows.getD (sw h i idx) dflt
    if idx ≠ h ∧ r.bit w k = true then mulRow r (rows.getD i dflt) else r

theorem stepRows_length (w : Nat) (rows : List Row) (h k i : Nat) : (stepRows w rows h k i).length = rows.length := by
  simp [stepRows]

theorem stepRows_getD (w : Nat) (rows : List Row) (h k i idx : Nat) (hidx : idx < rows.length) :
    (stepRows w rows h k i).getD idx dflt =
      (let r := rows.getD (sw h i idx) dflt
       if idx ≠ h ∧ r.bit w k = true then mulRow r (rows.getD i dflt) else r) := by
  simp [stepRows, List.getD_eq_getElem?_getD, List.getElem?_map, List.getElem?_range hidx]

theorem stepRows_getD_ge (w : Nat) (rows : List Row) (h k i idx : Nat) (hidx : rows.length ≤ idx) :
    (stepRows w rows h k i).getD idx dflt = dflt := by
  rw [List.getD_eq_getElem?_getD, List.getElem?_eq_none (by rw [stepRows_length]; exact hidx)]
  rfl

theorem firstFrom_some {w : Nat} {rows : List Row} {h k i : Nat} (hf : firstFrom w rows h k = some i) :
    h ≤ i ∧ i < rows.length ∧ (rows.getD i dflt).bit w k = true ∧
      ∀ j, h ≤ j → j < i → (rows.getD j dflt).bit w k = false := by
  unfold firstFrom at hf
  rw [List.head?_filter, List.find?_range_eq_some] at hf
  obtain ⟨h1, h2, h3⟩ := hf
  simp only [Bool.and_eq_true, decide_eq_true_eq] at h1
  refine ⟨h1.1, List.mem_range.1 h2, h1.2, ?_⟩
  intro j hj hji
  have := h3 j hji
  simp only [Bool.not_eq_eq_eq_not, Bool.not_true, Bool.and_eq_false_imp, decide_eq_true_eq] at this
  exact this hj

theorem firstFrom_none {w : Nat} {rows : List Row} {h k : Nat} (hf : firstFrom w rows h k = none) :
    ∀ j, h ≤ j → (rows.getD j dflt).bit w k = false := by
  unfold firstFrom at hf
  rw [List.head?_filter, List.find?_range_eq_none] at hf
  intro j hj
  by_cases hjl : j < rows.length
  · have := hf j hjl
    simp only [Bool.not_eq_eq_eq_not, Bool.not_true, Bool.and_eq_false_imp, decide_eq_true_eq] at this
    exact this hj
  · rw [List.getD_eq_getElem?_getD, List.getElem?_eq_none (by omega)]
    exact dflt_bit w k

theorem swapRows_getD (rows : List Row) (h i idx : Nat) (hh : h < rows.length) (hi : i < rows.length) :
    (swapRows rows h i).getD idx dflt = rows.getD (sw h i idx) dflt := by
  unfold swapRows sw
  simp only [List.getD_eq_getElem?_getD, List.getElem?_set, List.length_set]
  by_cases h1 : idx = h <;> by_cases h2 : idx = i
  · subst h1; subst h2; simp [hh]
  · subst h1; simp [hh, hi, Ne.symm h2]
  · subst h2; simp [hh, hi, h1]
  · simp [h1, h2, Ne.symm h1, Ne.symm h2]

theorem gaussStep_some {w : Nat} {rows : List Row} {h k i : Nat} (hf : firstFrom w rows h k = some i) :
    gaussStep w rows h k = (stepRows w rows h k i, h + 1) := by
  obtain ⟨hhi, hil, _, _⟩ := firstFrom_some hf
  have hhl : h < rows.length := by omega
  unfold gaussStep
  rw [hf]
  simp only [Prod.mk.injEq, and_true]
  generalize hr1 : (if i = h then rows else swapRows rows h i) = rows1
  have len1 : rows1.length = rows.length := by
    subst hr1; split <;> simp [swapRows]
  have key : ∀ idx, rows1.getD idx dflt = rows.getD (sw h i idx) dflt := by
    intro idx; subst hr1; split
    · next e => subst e; rw [sw_self]
    · exact swapRows_getD rows h i idx hhl hil
  have hpiv : rows1.getD h dflt = rows.getD i dflt := by rw [key]; simp [sw]
  apply List.ext_getElem?
  intro idx
  by_cases hidx : idx < rows.length
  · have hidx1 : idx < rows1.length := by omega
    have e1 : rows1[idx]? = some (rows1.getD idx dflt) := by
      simp [List.getD_eq_getElem?_getD, List.getElem?_eq_getElem hidx1]
    rw [List.getElem?_mapIdx, e1]
    simp only [stepRows, List.getElem?_map, List.getElem?_range hidx, Option.map_some]
    change some (if idx ≠ h ∧ Row.bit w (rows1.getD idx dflt) k = true then
          mulRow (rows1.getD idx dflt) (rows1.getD h dflt) else rows1.getD idx dflt) = _
    rw [hpiv, key]
  · rw [List.getElem?_eq_none (by rw [List.length_mapIdx]; omega),
      List.getElem?_eq_none (by rw [stepRows_length]; omega)]

theorem gaussStep_none {w : Nat} {rows : List Row} {h k : Nat} (hf : firstFrom w rows h k = none) :
    gaussStep w rows h k = (rows, h) := by
  unfold gaussStep; rw [hf]

/-- induction principle for the elimination loop -/
theorem gaussLoop_induct (w : Nat) (Q : List Row → Nat → Nat → Prop)
    (hnone : ∀ rows h k, Q rows h k → h < rows.length → k < 2 * w + 1 → firstFrom w rows h k = none → Q rows h (k + 1))
    (hsome : ∀ rows h k i, Q rows h k → h < rows.length → k < 2 * w + 1 → firstFrom w rows h k = some i →
      Q (stepRows w rows h k i) (h + 1) (k + 1)) :
    ∀ fuel rows h k, k + fuel = 2 * w + 1 → Q rows h k →
      ∃ h' k', Q (gaussLoop w rows h k fuel) h' k' ∧
        ((gaussLoop w rows h k fuel).length ≤ h' ∨ 2 * w + 1 ≤ k') := by
  intro fuel
  induction fuel with
  | zero =>
    intro rows h k hk hQ
    exact ⟨h, k, hQ, Or.inr (by omega)⟩
  | succ fuel ih =>
    intro rows h k hk hQ
    unfold gaussLoop
    split
    · next hc =>
      cases hf : firstFrom w rows h k with
      | none =>
        rw [gaussStep_none hf]
        exact ih rows h (k + 1) (by omega) (hnone rows h k hQ hc.1 hc.2 hf)
      | some i =>
        rw [gaussStep_some hf]
        exact ih _ (h + 1) (k + 1) (by omega) (hsome rows h k i hQ hc.1 hc.2 hf)
    · next hc =>
      exact ⟨h, k, hQ, by omega⟩

theorem gauss_induct (w : Nat) (Q : List Row → Nat → Nat → Prop) (rows : List Row)
    (hnone : ∀ rows h k, Q rows h k → h < rows.length → k < 2 * w + 1 → firstFrom w rows h k = none → Q rows h (k + 1))
    (hsome : ∀ rows h k i, Q rows h k → h < rows.length → k < 2 * w + 1 → firstFrom w rows h k = some i →
      Q (stepRows w rows h k i) (h + 1) (k + 1))
    (h0 : Q rows 0 0) :
    ∃ h' k', Q (gauss w rows) h' k' ∧ ((gauss w rows).length ≤ h' ∨ 2 * w + 1 ≤ k') :=
  gaussLoop_induct w Q hnone hsome (2 * w + 1) rows 0 0 (by omega) h0

/-- a property preserved by every elimination step is preserved by `gauss` -/
theorem gauss_preserve (w : Nat) (P : List Row → Prop) (rows : List Row)
    (hstep : ∀ rows h k i, P rows → firstFrom w rows h k = some i → P (stepRows w rows h k i))
    (h0 : P rows) : P (gauss w rows) := by
  obtain ⟨_, _, h, _⟩ := gauss_induct w (fun r _ _ => P r) rows (fun _ _ _ hQ _ _ _ => hQ)
    (fun rows h k i hQ _ _ hf => hstep rows h k i hQ hf) h0
  exact h

theorem gauss_length (w : Nat) (rows : List Row) : (gauss w rows).length = rows.length :=
  gauss_preserve w (fun r => r.length = rows.length) rows
    (fun r h k i hP _ => by rw [stepRows_length]; exact hP) rfl

theorem getD_mem (rows : List Row) (j : Nat) (hj : j < rows.length) : rows.getD j dflt ∈ rows := by
  rw [List.getD_eq_getElem?_getD, List.getElem?_eq_getElem hj]
  exact List.getElem_mem hj

theorem mem_getD {rows : List Row} {r : Row} (h : r ∈ rows) : ∃ j, j < rows.length ∧ rows.getD j dflt = r := by
  obtain ⟨j, hj, e⟩ := List.mem_iff_getElem.1 h
  exact ⟨j, hj, by rw [List.getD_eq_getElem?_getD, List.getElem?_eq_getElem hj]; simpa using e⟩

theorem mem_of_getD {rows : List Row} {r : Row} {j : Nat} (hj : j < rows.length) (h : rows.getD j dflt = r) : r ∈ rows :=
  h ▸ getD_mem rows j hj

/-- every new row is an old row or an old row times the pivot row -/
theorem mem_stepRows {w : Nat} {rows : List Row} {h k i : Nat} (hh : h < rows.length) (hi : i < rows.length)
    {r' : Row} (hr : r' ∈ stepRows w rows h k i) :
    r' ∈ rows ∨ ∃ r, r ∈ rows ∧ r' = mulRow r (rows.getD i dflt) := by
  obtain ⟨idx, hidx, e⟩ := List.mem_map.1 hr
  have hidx := List.mem_range.1 hidx
  have hm := getD_mem rows (sw h i idx) (sw_lt hh hi hidx)
  simp only at e
  split at e
  · exact Or.inr ⟨_, hm, e.symm⟩
  · exact Or.inl (e ▸ hm)

theorem piv_mem_stepRows {w : Nat} {rows : List Row} {h k i : Nat} (hh : h < rows.length) :
    rows.getD i dflt ∈ stepRows w rows h k i := by
  apply mem_of_getD (j := h) (by rw [stepRows_length]; exact hh)
  rw [stepRows_getD _ _ _ _ _ _ hh]
  simp [sw]

/-- every old row is a new row, or a new row is it times the pivot row -/
theorem mem_stepRows_conv {w : Nat} {rows : List Row} {h k i : Nat} (hh : h < rows.length) (hi : i < rows.length)
    {r : Row} (hr : r ∈ rows) :
    r ∈ stepRows w rows h k i ∨ mulRow r (rows.getD i dflt) ∈ stepRows w rows h k i := by
  obtain ⟨j, hj, e⟩ := mem_getD hr
  have hidx : sw h i j < rows.length := sw_lt hh hi hj
  have := stepRows_getD w rows h k i (sw h i j) hidx
  rw [sw_sw, e] at this
  simp only at this
  split at this
  · exact Or.inr (mem_of_getD (by rw [stepRows_length]; exact hidx) this)
  · exact Or.inl (mem_of_getD (by rw [stepRows_length]; exact hidx) this)

theorem comm_of_inGroup {n : Nat} {g : List Row} (hg : Commuting n g) {p q : POp}
    (hp : InGroup n g p) (hq : InGroup n g q) : antiL p.ps q.ps = false := by
  apply inGroup_comm hg.width (inGroup_len hg.width hp) _ hq
  intro r hr
  rw [antiL_comm]
  exact inGroup_comm hg.width (q := r.den) (hg.width r hr) (fun r' hr' => hg.comm r hr r' hr') hp

theorem commuting_of_rows_inGroup {n : Nat} {g g' : List Row} (hg : Commuting n g)
    (h : ∀ r, r ∈ g' → InGroup n g r.den) : Commuting n g' :=
  ⟨fun r hr => inGroup_len hg.width (h r hr), fun a ha b hb => comm_of_inGroup hg (h a ha) (h b hb)⟩

theorem inGroup_mulRow {n : Nat} {g : List Row} (hg : Commuting n g) {a b : Row}
    (ha : InGroup n g a.den) (hb : InGroup n g b.den) : InGroup n g (mulRow a b).den := by
  have la := inGroup_len hg.width ha
  have lb := inGroup_len hg.width hb
  exact inGroup_eqv (inGroup_mul hg ha hb)
    (eqv_symm (mulRow_den a b (la.trans lb.symm) (comm_of_inGroup hg ha hb)))

theorem mul_mul_cancel (n : Nat) (p q : POp) (hp : p.len = n) (hq : q.len = n) (hh : q.ph % 2 = 0) :
    (p ⋆ q) ⋆ q ≈ₚ p := by
  refine eqv_trans (mul_assoc p q q (by simpa [POp.len] using hp.trans hq.symm) rfl) ?_
  refine eqv_trans (mul_congr (eqv_refl p) (mul_self q hh)) ?_
  rw [hq]
  exact mul_one n p hp

theorem stepRows_inGroup {w n : Nat} {rows : List Row} {h k i : Nat} (hg : Commuting n rows)
    (hh : h < rows.length) (hi : i < rows.length) :
    ∀ r, r ∈ stepRows w rows h k i → InGroup n rows r.den := by
  intro r' hr'
  rcases mem_stepRows hh hi hr' with hm | ⟨r, hm, rfl⟩
  · exact inGroup_mem hg.width hm
  · exact inGroup_mulRow hg (inGroup_mem hg.width hm) (inGroup_mem hg.width (getD_mem rows i hi))

theorem stepRows_commuting {w n : Nat} {rows : List Row} {h k i : Nat} (hg : Commuting n rows)
    (hh : h < rows.length) (hi : i < rows.length) : Commuting n (stepRows w rows h k i) :=
  commuting_of_rows_inGroup hg (stepRows_inGroup hg hh hi)

theorem stepRows_sameGroup {w n : Nat} {rows : List Row} {h k i : Nat} (hg : Commuting n rows)
    (hh : h < rows.length) (hi : i < rows.length) : SameGroup n (stepRows w rows h k i) rows := by
  have hg' := stepRows_commuting (w := w) (k := k) hg hh hi
  apply sameGroup_of_mutual hg' hg (stepRows_inGroup hg hh hi)
  intro r hr
  have hp : rows.getD i dflt ∈ rows := getD_mem rows i hi
  rcases mem_stepRows_conv (w := w) (k := k) hh hi hr with hm | hm
  · exact inGroup_mem hg'.width hm
  · have hpm := piv_mem_stepRows (w := w) (k := k) (i := i) hh
    have e := mulRow_den r (rows.getD i dflt) ((hg.width r hr).trans (hg.width _ hp).symm) (hg.comm r hr _ hp)
    have h1 := inGroup_mul hg' (inGroup_mem hg'.width hm) (inGroup_mem hg'.width hpm)
    refine inGroup_eqv h1 ?_
    refine eqv_trans (mul_congr e (eqv_refl _)) ?_
    exact mul_mul_cancel n _ _ (hg.width r hr) (hg.width _ hp) (den_herm _)

theorem gauss_commuting (w : Nat) (rows : List Row) (h : Commuting w rows) : Commuting w (gauss w rows) :=
  gauss_preserve w (Commuting w) rows
    (fun r _ _ _ hP hf => by
      obtain ⟨h1, h2, _, _⟩ := firstFrom_some hf
      exact stepRows_commuting hP (by omega) h2) h

theorem gauss_sameGroup (w : Nat) (rows : List Row) (h : Commuting w rows) : SameGroup w (gauss w rows) rows := by
  have := gauss_preserve w (fun r => Commuting w r ∧ SameGroup w r rows) rows
    (fun r _ _ _ hP hf => by
      obtain ⟨h1, h2, _, _⟩ := firstFrom_some hf
      exact ⟨stepRows_commuting hP.1 (by omega) h2,
        sameGroup_trans (stepRows_sameGroup hP.1 (by omega) h2) hP.2⟩) ⟨h, sameGroup_refl _ _⟩
  exact this.2

/-! ### bits -/

/-- letter columns of the matrix: `k < w` the X part, `w ≤ k < 2w` the Z part -/
def lbit (w : Nat) (ps : List P1) (k : Nat) : Bool :=
  if k < w then (getP ps k).1 else if k < 2 * w then (getP ps (k - w)).2 else false

theorem bit_lt (w : Nat) (r : Row) (k : Nat) (hk : k < 2 * w) : r.bit w k = lbit w r.ps k := by
  unfold Row.bit lbit Row.x Row.z
  split
  · rfl
  · first | rfl | rw [if_pos hk, if_pos hk]

theorem bit_sign (w : Nat) (r : Row) : r.bit w (2 * w) = r.neg := by
  unfold Row.bit
  rw [if_neg (by omega), if_neg (by omega), if_pos rfl]

theorem bit_gt (w : Nat) (r : Row) (k : Nat) (hk : 2 * w < k) : r.bit w k = false := by
  unfold Row.bit
  rw [if_neg (by omega), if_neg (by omega), if_neg (by omega)]

theorem getP_cons_zero (a : P1) (as : List P1) : getP (a :: as) 0 = a := rfl
theorem getP_cons_succ (a : P1) (as : List P1) (j : Nat) : getP (a :: as) (j + 1) = getP as j := by
  simp [getP]

theorem getP_mulL (as bs : List P1) (h : as.length = bs.length) (j : Nat) :
    getP (mulL as bs) j = mul1 (getP as j) (getP bs j) := by
  induction as generalizing bs j with
  | nil => cases bs with
    | nil => simp [mulL, getP_nil, mul1]
    | cons b bs => simp at h
  | cons a as ih => cases bs with
    | nil => simp at h
    | cons b bs =>
      cases j with
      | zero => rfl
      | succ j => simp only [mulL, getP_cons_succ]; exact ih bs (by simpa using h) j

theorem lbit_mulL (w : Nat) (as bs : List P1) (h : as.length = bs.length) (k : Nat) :
    lbit w (mulL as bs) k = (lbit w as k != lbit w bs k) := by
  unfold lbit
  simp only [getP_mulL as bs h, mul1]
  split
  · rfl
  · split <;> rfl

theorem mulRow_bit (w : Nat) (a b : Row) (h : a.ps.length = b.ps.length) (k : Nat) (hk : k < 2 * w) :
    (mulRow a b).bit w k = (a.bit w k != b.bit w k) := by
  rw [bit_lt w _ k hk, bit_lt w _ k hk, bit_lt w _ k hk]
  exact lbit_mulL w a.ps b.ps h k

theorem letters_id_of_bits (w : Nat) (ps : List P1) (hl : ps.length = w)
    (h : ∀ k, k < 2 * w → lbit w ps k = false) (j : Nat) : getP ps j = (false, false) := by
  by_cases hj : j < w
  · have h1 := h j (by omega)
    have h2 := h (w + j) (by omega)
    unfold lbit at h1 h2
    rw [if_pos hj] at h1
    rw [if_neg (by omega), if_pos (by omega)] at h2
    have : w + j - w = j := by omega
    rw [this] at h2
    exact Prod.ext h1 h2
  · simp [getP, List.getD_eq_getElem?_getD, List.getElem?_eq_none (show ps.length ≤ j by omega)]

theorem counts_id (as bs : List P1) (hb : ∀ j, getP bs j = (false, false)) :
    countI as bs = 0 ∧ countMinusI as bs = 0 := by
  induction as generalizing bs with
  | nil => cases bs <;> simp [countI, countMinusI]
  | cons a as ih =>
    cases bs with
    | nil => simp [countI, countMinusI]
    | cons b bs =>
      have hb0 : b = (false, false) := hb 0
      have := ih bs (fun j => by have := hb (j + 1); rwa [getP_cons_succ] at this)
      subst hb0
      rcases a with ⟨a1, a2⟩
      simp only [countI, countMinusI, this.1, this.2]
      cases a1 <;> cases a2 <;> simp [isI, isMinusI]

theorem mulRow_neg_id (a b : Row) (hb : ∀ j, getP b.ps j = (false, false)) :
    (mulRow a b).neg = (a.neg != b.neg) := by
  have := counts_id a.ps b.ps hb
  simp [mulRow, hasMinusPhase, this.1, this.2]

/-! ### the reduced form -/

/-- `t` is in reduced row echelon form over all `2w+1` columns with `h` pivot
rows `0..h-1`, pivot columns `piv 0 < … < piv (h-1)`; rows from `h` on are zero. -/
structure RedAt (w : Nat) (t : List Row) (h : Nat) (piv : Nat → Nat) : Prop where
  hle : h ≤ t.length
  mono : ∀ i j, i < j → j < h → piv i < piv j
  lt : ∀ i, i < h → piv i < 2 * w + 1
  one : ∀ i, i < h → (t.getD i dflt).bit w (piv i) = true
  lead : ∀ i, i < h → ∀ c, c < piv i → (t.getD i dflt).bit w c = false
  uniq : ∀ i, i < h → ∀ j, j ≠ i → (t.getD j dflt).bit w (piv i) = false
  zero : ∀ j, h ≤ j → ∀ c, (t.getD j dflt).bit w c = false

def Reduced (w : Nat) (t : List Row) : Prop := ∃ h piv, RedAt w t h piv

/-- loop invariant: columns `< k` processed, `h` pivots found -/
structure RInv (w : Nat) (t : List Row) (h k : Nat) (piv : Nat → Nat) : Prop where
  wid : ∀ r, r ∈ t → r.ps.length = w
  kle : k ≤ 2 * w + 1
  hle : h ≤ t.length
  mono : ∀ i j, i < j → j < h → piv i < piv j
  lt : ∀ i, i < h → piv i < k
  one : ∀ i, i < h → (t.getD i dflt).bit w (piv i) = true
  lead : ∀ i, i < h → ∀ c, c < piv i → (t.getD i dflt).bit w c = false
  uniq : ∀ i, i < h → ∀ j, j ≠ i → (t.getD j dflt).bit w (piv i) = false
  low : ∀ j, h ≤ j → ∀ c, c < k → (t.getD j dflt).bit w c = false

theorem stepRows_width {w : Nat} {rows : List Row} {h k i : Nat} (hw : ∀ r, r ∈ rows → r.ps.length = w)
    (hh : h < rows.length) (hi : i < rows.length) : ∀ r, r ∈ stepRows w rows h k i → r.ps.length = w := by
  intro r' hr'
  rcases mem_stepRows hh hi hr' with hm | ⟨r, hm, rfl⟩
  · exact hw _ hm
  · rw [mulRow_len _ _ ((hw r hm).trans (hw _ (getD_mem rows i hi)).symm)]; exact hw r hm

section step
variable {w : Nat} {rows : List Row} {h k i : Nat}

/-- columns below the pivot column are only permuted -/
theorem step_bit_lt (hw : ∀ r, r ∈ rows → r.ps.length = w) (hk : k < 2 * w + 1) (hh : h < rows.length)
    (hi : i < rows.length) (hlow : ∀ c, c < k → (rows.getD i dflt).bit w c = false)
    (idx c : Nat) (hidx : idx < rows.length) (hc : c < k) :
    ((stepRows w rows h k i).getD idx dflt).bit w c = (rows.getD (sw h i idx) dflt).bit w c := by
  rw [stepRows_getD _ _ _ _ _ _ hidx]
  simp only
  split
  · have hm := getD_mem rows (sw h i idx) (sw_lt hh hi hidx)
    rw [mulRow_bit w _ _ ((hw _ hm).trans (hw _ (getD_mem rows i hi)).symm) c (by omega), hlow c hc]
    simp
  · rfl

/-- the pivot column is cleared everywhere but in row `h` -/
theorem step_bit_k (hw : ∀ r, r ∈ rows → r.ps.length = w) (hk : k < 2 * w + 1) (hh : h < rows.length)
    (hi : i < rows.length) (hlow : ∀ c, c < k → (rows.getD i dflt).bit w c = false)
    (hone : (rows.getD i dflt).bit w k = true) (idx : Nat) (hidx : idx < rows.length) :
    ((stepRows w rows h k i).getD idx dflt).bit w k = decide (idx = h) := by
  rw [stepRows_getD _ _ _ _ _ _ hidx]
  simp only
  have hpm := getD_mem rows i hi
  split
  · next hc =>
    have hm := getD_mem rows (sw h i idx) (sw_lt hh hi hidx)
    have hl := (hw _ hm).trans (hw _ hpm).symm
    rw [decide_eq_false hc.1]
    by_cases hk2 : k < 2 * w
    · rw [mulRow_bit w _ _ hl k hk2, hc.2, hone]; rfl
    · have hk3 : k = 2 * w := by omega
      subst hk3
      have hid : ∀ j, getP (rows.getD i dflt).ps j = (false, false) :=
        letters_id_of_bits w _ (hw _ hpm) (fun c hc => by rw [← bit_lt w _ c hc]; exact hlow c hc)
      rw [bit_sign, mulRow_neg_id _ _ hid, ← bit_sign w, ← bit_sign w, hc.2, hone]; rfl
  · next hc =>
    by_cases e : idx = h
    · subst e
      have : sw idx i idx = i := by simp [sw]
      rw [this, hone]; simp
    · rw [decide_eq_false e]
      have : ¬ (rows.getD (sw h i idx) dflt).bit w k = true := fun hb => hc ⟨e, hb⟩
      simpa using this

end step

theorem rinv_step {w : Nat} {rows : List Row} {h k i : Nat} {piv : Nat → Nat} (hI : RInv w rows h k piv)
    (hk : k < 2 * w + 1) (hf : firstFrom w rows h k = some i) :
    RInv w (stepRows w rows h k i) (h + 1) (k + 1) (fun j => if j = h then k else piv j) := by
  obtain ⟨hhi, hil, hone, _⟩ := firstFrom_some hf
  have hh : h < rows.length := by omega
  have hlow : ∀ c, c < k → (rows.getD i dflt).bit w c = false := fun c hc => hI.low i hhi c hc
  have bl := step_bit_lt hI.wid hk hh hil hlow
  have bk := step_bit_k hI.wid hk hh hil hlow hone
  have swlt : ∀ j, j < h → sw h i j = j := fun j hj => by unfold sw; rw [if_neg (by omega), if_neg (by omega)]
  have swge : ∀ j, h ≤ j → h ≤ sw h i j := fun j hj => by unfold sw; repeat' split
                                                          all_goals omega
  have hlen := stepRows_length w rows h k i
  refine ⟨stepRows_width hI.wid hh hil, by omega, by rw [hlen]; omega, ?_, ?_, ?_, ?_, ?_, ?_⟩
  · intro a b hab hb
    by_cases e : b = h
    · rw [if_neg (by omega), if_pos e]; exact hI.lt a (by omega)
    · rw [if_neg (by omega), if_neg e]; exact hI.mono a b hab (by omega)
  · intro a ha
    split
    · omega
    · have := hI.lt a (by omega); omega
  · intro a ha
    split
    · next e => subst e; rw [bk a hh]; simp
    · next e =>
      have ha' : a < h := by omega
      rw [bl a (piv a) (by omega) (hI.lt a ha'), swlt a ha']
      exact hI.one a ha'
  · intro a ha c hc
    split at hc
    · next e => subst e; rw [bl a c hh hc]; exact hI.low _ (swge a (Nat.le_refl _)) c hc
    · next e =>
      have ha' : a < h := by omega
      rw [bl a c (by omega) (by have := hI.lt a ha'; omega), swlt a ha']
      exact hI.lead a ha' c hc
  · intro a ha j hj
    by_cases hjl : j < rows.length
    · split
      · next e => subst e; rw [bk j hjl]; simpa using hj
      · next e =>
        have ha' : a < h := by omega
        rw [bl j (piv a) hjl (hI.lt a ha')]
        apply hI.uniq a ha'
        intro e2
        have := congrArg (sw h i) e2
        rw [sw_sw, swlt a ha'] at this
        exact hj this
    · rw [stepRows_getD_ge _ _ _ _ _ _ (by omega)]; exact dflt_bit _ _
  · intro j hj c hc
    by_cases hjl : j < rows.length
    · by_cases e : c = k
      · subst e; rw [bk j hjl]; simp; omega
      · rw [bl j c hjl (by omega)]
        exact hI.low _ (swge j (by omega)) c (by omega)
    · rw [stepRows_getD_ge _ _ _ _ _ _ (by omega)]; exact dflt_bit _ _

theorem gauss_reduced (w : Nat) (rows : List Row) (hw : ∀ r, r ∈ rows → r.ps.length = w) :
    Reduced w (gauss w rows) := by
  obtain ⟨h', k', ⟨piv, hI⟩, hend⟩ := gauss_induct w (fun t h k => ∃ piv, RInv w t h k piv) rows
    (fun t h k ⟨piv, hI⟩ _ hk hf =>
      ⟨piv, hI.wid, by omega, hI.hle, hI.mono, fun i hi => by have := hI.lt i hi; omega, hI.one, hI.lead, hI.uniq,
        fun j hj c hc => by
          by_cases e : c = k
          · subst e; exact firstFrom_none hf j hj
          · exact hI.low j hj c (by omega)⟩)
    (fun t h k i ⟨piv, hI⟩ _ hk hf => ⟨_, rinv_step hI hk hf⟩)
    ⟨fun _ => 0, hw, by omega, by omega, fun _ _ _ hj => by omega, fun _ hi => by omega, fun _ hi => by omega,
      fun _ hi => by omega, fun _ hi => by omega, fun _ _ c hc => by omega⟩
  refine ⟨h', piv, hI.hle, hI.mono, fun i hi => by have := hI.lt i hi; have := hI.kle; omega, hI.one, hI.lead,
    hI.uniq, ?_⟩
  intro j hj c
  rcases hend with hlen | hk
  · rw [List.getD_eq_getElem?_getD, List.getElem?_eq_none (by omega)]; exact dflt_bit _ _
  · by_cases hc : c < 2 * w + 1
    · exact hI.low j hj c (by have := hI.kle; omega)
    · exact bit_gt w _ c (by omega)

theorem getD_of_getElem? {t : List Row} {i : Nat} {r : Row} (h : t[i]? = some r) : t.getD i dflt = r := by
  rw [List.getD_eq_getElem?_getD, h]; rfl

theorem getElem?_of_getD {t : List Row} {i : Nat} (h : i < t.length) : t[i]? = some (t.getD i dflt) := by
  rw [List.getD_eq_getElem?_getD, List.getElem?_eq_getElem h]; rfl

theorem lt_of_getElem? {t : List Row} {i : Nat} {r : Row} (h : t[i]? = some r) : i < t.length := by
  by_cases hi : i < t.length
  · exact hi
  · rw [List.getElem?_eq_none (by omega)] at h; cases h

theorem RedAt.inj {w : Nat} {t : List Row} {h : Nat} {piv : Nat → Nat} (R : RedAt w t h piv)
    {i j : Nat} (hi : i < h) (hj : j < h) (e : piv i = piv j) : i = j := by
  rcases Nat.lt_trichotomy i j with hlt | heq | hgt
  · have := R.mono i j hlt hj; omega
  · exact heq
  · have := R.mono j i hgt hi; omega

/-- in a reduced list only row 0 can have a bit in column 0 -/
theorem reduced_col0 {w : Nat} {t : List Row} (hr : Reduced w t) (i : Nat)
    (hb : (t.getD i dflt).bit w 0 = true) : i = 0 := by
  obtain ⟨h, piv, R⟩ := hr
  by_cases hi : i < h
  · have hp : piv i = 0 := by
      by_cases e : piv i = 0
      · exact e
      · have := R.lead i hi 0 (by omega); rw [this] at hb; cases hb
    by_cases e : i = 0
    · exact e
    · have := R.mono 0 i (by omega) hi; omega
  · have := R.zero i (by omega) 0; rw [this] at hb; cases hb

/-- after elimination at most row 0 has an X/Y on the first qubit, and it does iff some input row did -/
theorem gauss_col0 (w : Nat) (rows : List Row) (hwid : ∀ r, r ∈ rows → r.ps.length = w) (hw : 0 < w) :
    let t := gauss w rows
    (∀ i r, t[i]? = some r → r.bit w 0 = true → i = 0) ∧
      ((∃ r, r ∈ rows ∧ r.bit w 0 = true) → ∃ r0, t[0]? = some r0 ∧ r0.bit w 0 = true) := by
  intro t
  have hred : Reduced w t := gauss_reduced w rows hwid
  have part1 : ∀ i r, t[i]? = some r → r.bit w 0 = true → i = 0 := by
    intro i r hi hb
    exact reduced_col0 hred i (by rw [getD_of_getElem? hi]; exact hb)
  refine ⟨part1, ?_⟩
  intro hex
  obtain ⟨_, _, ⟨_, hP⟩, _⟩ := gauss_induct w
    (fun t h k => (∃ piv, RInv w t h k piv) ∧ ∃ r, r ∈ t ∧ r.bit w 0 = true) rows
    (fun t h k ⟨⟨piv, hI⟩, hP⟩ _ hk hf =>
      ⟨⟨piv, hI.wid, by omega, hI.hle, hI.mono, fun i hi => by have := hI.lt i hi; omega, hI.one, hI.lead, hI.uniq,
        fun j hj c hc => by
          by_cases e : c = k
          · subst e; exact firstFrom_none hf j hj
          · exact hI.low j hj c (by omega)⟩, hP⟩)
    (fun t h k i ⟨⟨piv, hI⟩, ⟨r, hr, hb⟩⟩ hh hk hf => by
      refine ⟨⟨_, rinv_step hI hk hf⟩, ?_⟩
      obtain ⟨hhi, hil, hone, _⟩ := firstFrom_some hf
      by_cases hk0 : k = 0
      · subst hk0
        exact ⟨_, piv_mem_stepRows hh, hone⟩
      · rcases mem_stepRows_conv (w := w) (k := k) hh hil hr with hm | hm
        · exact ⟨r, hm, hb⟩
        · refine ⟨_, hm, ?_⟩
          rw [mulRow_bit w _ _ ((hI.wid r hr).trans (hI.wid _ (getD_mem t i hil)).symm) 0 (by omega), hb,
            hI.low i hhi 0 (by omega)]
          rfl)
    ⟨⟨fun _ => 0, hwid, by omega, by omega, fun _ _ _ hj => by omega, fun _ hi => by omega, fun _ hi => by omega,
      fun _ hi => by omega, fun _ hi => by omega, fun _ _ c hc => by omega⟩, hex⟩
  obtain ⟨r, hr, hb⟩ := hP
  obtain ⟨j, hj, e⟩ := mem_getD hr
  have hj0 : j = 0 := reduced_col0 hred j (by rw [e]; exact hb)
  subst hj0
  exact ⟨r, by rw [getElem?_of_getD hj, e], hb⟩

/-! ### GF(2) sums of selected rows -/

/-- GF(2) dot product (zip semantics) -/
def dot : List Bool → List Bool → Bool
  | a :: as, b :: bs => (a && b) != dot as bs
  | _, _ => false

theorem dot_nil_right (c : List Bool) : dot c [] = false := by cases c <;> rfl

theorem dot_zero (c v : List Bool) (h : ∀ j, (c.getD j false && v.getD j false) = false) : dot c v = false := by
  induction c generalizing v with
  | nil => rfl
  | cons a as ih =>
    cases v with
    | nil => rfl
    | cons b bs =>
      have h0 := h 0
      simp only [List.getD_cons_zero] at h0
      have := ih bs (fun j => by simpa using h (j + 1))
      simp [dot, h0, this]

theorem dot_single (c v : List Bool) (j0 : Nat)
    (h : ∀ j, j ≠ j0 → (c.getD j false && v.getD j false) = false) :
    dot c v = (c.getD j0 false && v.getD j0 false) := by
  induction c generalizing v j0 with
  | nil => simp [dot]
  | cons a as ih =>
    cases v with
    | nil => simp [dot]
    | cons b bs =>
      cases j0 with
      | zero =>
        have := dot_zero as bs (fun j => by simpa using h (j + 1) (by omega))
        simp [dot, this]
      | succ j0 =>
        have h0 := h 0 (by omega)
        simp only [List.getD_cons_zero] at h0
        have := ih bs j0 (fun j hj => by simpa using h (j + 1) (by omega))
        simp [dot, h0, this]

/-- column `k` of the GF(2) sum of the rows of `t` selected by `c` -/
def selXor (w k : Nat) (c : List Bool) (t : List Row) : Bool := dot c (t.map fun r => r.bit w k)

theorem map_bit_getD (w k : Nat) (t : List Row) (j : Nat) :
    (t.map fun r => r.bit w k).getD j false = (t.getD j dflt).bit w k := by
  by_cases hj : j < t.length
  · simp [List.getD_eq_getElem?_getD, List.getElem?_eq_getElem hj]
  · simp [List.getD_eq_getElem?_getD, List.getElem?_eq_none (show t.length ≤ j by omega)]

theorem selXor_single (w k : Nat) (c : List Bool) (t : List Row) (j0 : Nat)
    (h : ∀ j, j ≠ j0 → (c.getD j false && (t.getD j dflt).bit w k) = false) :
    selXor w k c t = (c.getD j0 false && (t.getD j0 dflt).bit w k) := by
  unfold selXor
  rw [dot_single _ _ j0 (fun j hj => by rw [map_bit_getD]; exact h j hj), map_bit_getD]

theorem selXor_zero (w k : Nat) (c : List Bool) (t : List Row)
    (h : ∀ j, (c.getD j false && (t.getD j dflt).bit w k) = false) : selXor w k c t = false := by
  unfold selXor
  exact dot_zero _ _ (fun j => by rw [map_bit_getD]; exact h j)

theorem getP_replicate_I1 (n j : Nat) : getP (List.replicate n I1) j = (false, false) := by
  unfold getP
  by_cases hj : j < n
  · simp [List.getD_eq_getElem?_getD, hj, I1]
  · simp [List.getD_eq_getElem?_getD, hj]

theorem lbit_one (n k : Nat) : lbit n (one n).ps k = false := by
  simp [lbit, one, getP_replicate_I1]

/-- letter column `k` of a product of selected rows is the GF(2) sum of the rows' bits -/
theorem prodSel_bit (n : Nat) (c : List Bool) (t : List Row) (hw : ∀ r, r ∈ t → r.ps.length = n) (k : Nat)
    (hk : k < 2 * n) : lbit n (prodSel n c (dens t)).ps k = selXor n k c t := by
  induction t generalizing c with
  | nil => rw [dens, List.map_nil, prodSel_nil_right, lbit_one]; simp [selXor, dot_nil_right]
  | cons r rs ih =>
    cases c with
    | nil => rw [prodSel_nil_left, lbit_one]; rfl
    | cons a cs =>
      have hrs : ∀ q, q ∈ rs → q.ps.length = n := fun q hq => hw q (by simp [hq])
      have IH := ih cs hrs
      have hl := prodSel_len n cs (dens rs) (rowsOK_dens hrs)
      simp only [dens, List.map_cons, prodSel, selXor, dot] at *
      cases a
      · simpa using IH
      · simp only [if_true, POp.mul, Bool.true_and]
        rw [lbit_mulL n _ _ (by simpa [POp.len, Row.den] using (hw r (by simp)).trans hl.symm), IH, bit_lt n r k hk]
        rfl

/-- if the unit vector `e_k` (`k < 2w`, sign ignored) is a GF(2) sum of rows of a
reduced list, then `k` is a pivot column, its pivot row is exactly `± e_k` on the
letter columns and no other row has bit `k` -/
theorem reduced_unit_row (w : Nat) (t : List Row) (hr : Reduced w t) (k : Nat) (hk : k < 2 * w) (c : List Bool)
    (hsum : ∀ j, j < 2 * w → selXor w j c t = decide (j = k)) :
    ∃ i, i < t.length ∧ (∀ j, j < 2 * w → (t.getD i dflt).bit w j = decide (j = k)) ∧
      (∀ i', i' ≠ i → (t.getD i' dflt).bit w k = false) := by
  obtain ⟨h, piv, R⟩ := hr
  have key1 : ∀ i, i < h → piv i < 2 * w → c.getD i false = decide (piv i = k) := by
    intro i hi hp
    have := selXor_single w (piv i) c t i (fun j hj => by rw [R.uniq i hi j hj]; simp)
    rw [R.one i hi, Bool.and_true, hsum _ hp] at this
    exact this.symm
  have hex : ∃ i0, i0 < h ∧ piv i0 = k := by
    apply Classical.byContradiction
    intro hno
    have hno' : ∀ i, i < h → piv i ≠ k := fun i hi e => hno ⟨i, hi, e⟩
    have := selXor_zero w k c t (fun j => by
      by_cases hj : j < h
      · by_cases hp : piv j < 2 * w
        · rw [key1 j hj hp, decide_eq_false (hno' j hj)]; rfl
        · rw [R.lead j hj k (by omega)]; simp
      · rw [R.zero j (by omega) k]; simp)
    rw [hsum k hk] at this
    simp at this
  obtain ⟨i0, hi0, hp0⟩ := hex
  refine ⟨i0, by have := R.hle; omega, ?_, ?_⟩
  · intro j hj
    have := selXor_single w j c t i0 (fun i hi => by
      by_cases hih : i < h
      · by_cases hp : piv i < 2 * w
        · rw [key1 i hih hp, decide_eq_false (fun e => hi (R.inj hih hi0 (e.trans hp0.symm)))]; rfl
        · rw [R.lead i hih j (by omega)]; simp
      · rw [R.zero i (by omega) j]; simp)
    rw [key1 i0 hi0 (by omega), decide_eq_true hp0, Bool.true_and, hsum j hj] at this
    exact this.symm
  · intro i' hi'
    rw [← hp0]
    exact R.uniq i0 hi0 i' hi'

/-! ### selection vectors: unit vectors, matrices, composition of selections -/

theorem replicate_getD (m j : Nat) : (List.replicate m false).getD j false = false := by
  by_cases hj : j < m <;> simp [List.getD_eq_getElem?_getD, hj]

inductive All2 {α β : Type} (R : α → β → Prop) : List α → List β → Prop
  | nil : All2 R [] []
  | cons {a : α} {b : β} {as : List α} {bs : List β} : R a b → All2 R as bs → All2 R (a :: as) (b :: bs)

def unitv : Nat → Nat → List Bool
  | 0, _ => []
  | m + 1, 0 => true :: List.replicate m false
  | m + 1, a + 1 => false :: unitv m a

theorem unitv_length (m a : Nat) : (unitv m a).length = m := by
  induction m generalizing a with
  | zero => rfl
  | succ m ih => cases a <;> simp [unitv, ih]

theorem unitv_getD (m a j : Nat) (ha : a < m) : (unitv m a).getD j false = decide (j = a) := by
  induction m generalizing a j with
  | zero => omega
  | succ m ih =>
    cases a with
    | zero =>
      cases j with
      | zero => simp [unitv]
      | succ j => simp only [unitv, List.getD_cons_succ, replicate_getD]; simp
    | succ a =>
      cases j with
      | zero => simp [unitv]
      | succ j => simpa [unitv] using ih a j (by omega)

theorem xorL_getD (a b : List Bool) (h : a.length = b.length) (j : Nat) :
    (xorL a b).getD j false = (a.getD j false != b.getD j false) := by
  induction a generalizing b j with
  | nil => cases b <;> simp_all [xorL]
  | cons x xs ih =>
    cases b with
    | nil => simp at h
    | cons y ys =>
      cases j with
      | zero => simp [xorL]
      | succ j => simpa [xorL] using ih ys (by simpa using h) j

theorem list_ext_getD (a b : List Bool) (h : a.length = b.length)
    (hp : ∀ j, j < a.length → a.getD j false = b.getD j false) : a = b := by
  apply List.ext_getElem h
  intro i h1 h2
  have := hp i h1
  simpa [List.getD_eq_getElem?_getD, List.getElem?_eq_getElem h1, List.getElem?_eq_getElem h2] using this

theorem prodSel_unitv (n : Nat) (g : List Row) (hw : ∀ r, r ∈ g → r.ps.length = n) (a : Nat) (ha : a < g.length) :
    prodSel n (unitv g.length a) (dens g) ≈ₚ (g.getD a dflt).den := by
  induction g generalizing a with
  | nil => simp at ha
  | cons r rs ih =>
    cases a with
    | zero =>
      simp only [List.length_cons, unitv, dens, List.map_cons, prodSel, if_true, List.getD_cons_zero]
      rw [prodSel_zeros]
      exact mul_one n _ (hw r (by simp))
    | succ a =>
      simp only [List.length_cons, unitv, dens, List.map_cons, prodSel, List.getD_cons_succ]
      exact ih (fun q hq => hw q (by simp [hq])) a (by simpa using ha)

/-- `c · M` over GF(2): the sum of the rows of `M` selected by `c` -/
def vecMat (m : Nat) : List Bool → List (List Bool) → List Bool
  | c :: cs, r :: rs => if c then xorL r (vecMat m cs rs) else vecMat m cs rs
  | _, _ => List.replicate m false

theorem vecMat_nil_left (m : Nat) (M : List (List Bool)) : vecMat m [] M = List.replicate m false := by
  cases M <;> rfl
theorem vecMat_nil_right (m : Nat) (c : List Bool) : vecMat m c [] = List.replicate m false := by
  cases c <;> rfl

theorem vecMat_length (m : Nat) (c : List Bool) (M : List (List Bool)) (hM : ∀ r, r ∈ M → r.length = m) :
    (vecMat m c M).length = m := by
  induction M generalizing c with
  | nil => rw [vecMat_nil_right]; simp
  | cons r rs ih =>
    cases c with
    | nil => simp [vecMat]
    | cons a cs =>
      have := ih cs (fun q hq => hM q (by simp [hq]))
      simp only [vecMat]
      split
      · rw [xorL_length _ _ ((hM r (by simp)).trans this.symm)]; exact hM r (by simp)
      · exact this

theorem vecMat_getD (m : Nat) (c : List Bool) (M : List (List Bool)) (hM : ∀ r, r ∈ M → r.length = m) (j : Nat) :
    (vecMat m c M).getD j false = dot c (M.map fun r => r.getD j false) := by
  induction M generalizing c with
  | nil => rw [vecMat_nil_right, replicate_getD]; simp [dot_nil_right]
  | cons r rs ih =>
    cases c with
    | nil => simp only [vecMat, dot, replicate_getD]
    | cons a cs =>
      have hrs : ∀ q, q ∈ rs → q.length = m := fun q hq => hM q (by simp [hq])
      have := ih cs hrs
      have hl := vecMat_length m cs rs hrs
      simp only [vecMat, List.map_cons, dot]
      cases a
      · simpa using this
      · simp only [if_true, Bool.true_and]
        rw [xorL_getD _ _ ((hM r (by simp)).trans hl.symm), this]

theorem dot_xorL (c d v : List Bool) (h : c.length = d.length) : dot (xorL c d) v = (dot c v != dot d v) := by
  induction c generalizing d v with
  | nil => cases d <;> simp_all [xorL, dot]
  | cons a as ih =>
    cases d with
    | nil => simp at h
    | cons b bs =>
      cases v with
      | nil => simp [dot_nil_right]
      | cons x xs =>
        simp only [xorL, dot, ih bs xs (by simpa using h)]
        cases a <;> cases b <;> cases x <;> cases dot as xs <;> cases dot bs xs <;> rfl

theorem vecMat_xorL (m : Nat) (c d : List Bool) (M : List (List Bool)) (hM : ∀ r, r ∈ M → r.length = m)
    (h : c.length = d.length) : vecMat m (xorL c d) M = xorL (vecMat m c M) (vecMat m d M) := by
  have l1 := vecMat_length m c M hM
  have l2 := vecMat_length m d M hM
  apply list_ext_getD
  · rw [vecMat_length m _ M hM, xorL_length _ _ (l1.trans l2.symm), l1]
  · intro j _
    rw [xorL_getD _ _ (l1.trans l2.symm), vecMat_getD m _ M hM, vecMat_getD m _ M hM, vecMat_getD m _ M hM,
      dot_xorL _ _ _ h]

theorem forall2_of_getD {α β : Type} (R : α → β → Prop) (d1 : α) (d2 : β) (l1 : List α) (l2 : List β)
    (hl : l1.length = l2.length) (h : ∀ i, i < l1.length → R (l1.getD i d1) (l2.getD i d2)) :
    All2 R l1 l2 := by
  induction l1 generalizing l2 with
  | nil => cases l2 with
    | nil => exact All2.nil
    | cons b bs => simp at hl
  | cons a as ih =>
    cases l2 with
    | nil => simp at hl
    | cons b bs =>
      refine All2.cons (by simpa using h 0 (by simp)) (ih bs (by simpa using hl) ?_)
      intro i hi
      simpa using h (i + 1) (by simpa using hi)

/-- if every row of `g'` is the product selected by the corresponding row of `M`, then a
selection of `g'` is the selection `c · M` of `g` -/
theorem prodSel_comp (n : Nat) (g : List Row) (hg : Commuting n g) (g' : List Row) (M : List (List Bool))
    (hM : All2 (fun (r : Row) (mv : List Bool) => mv.length = g.length ∧ r.den ≈ₚ prodSel n mv (dens g)) g' M)
    (c : List Bool) :
    prodSel n c (dens g') ≈ₚ prodSel n (vecMat g.length c M) (dens g) := by
  induction hM generalizing c with
  | nil =>
    rw [vecMat_nil_right, prodSel_zeros, dens, List.map_nil, prodSel_nil_right]; exact eqv_refl _
  | @cons r mv g' M hr hrest ih =>
    cases c with
    | nil => rw [vecMat_nil_left, prodSel_zeros, prodSel_nil_left]; exact eqv_refl _
    | cons a cs =>
      have hMl : ∀ q, q ∈ M → q.length = g.length := by
        intro q hq
        clear ih
        induction hrest with
        | nil => simp at hq
        | cons h1 _ ih2 =>
          rcases List.mem_cons.1 hq with rfl | hq'
          · exact h1.1
          · exact ih2 hq'
      have IH := ih cs
      simp only [dens, List.map_cons, prodSel, vecMat]
      cases a
      · simpa [dens] using IH
      · simp only [if_true]
        have hl := vecMat_length g.length cs M hMl
        have hx := prodSel_xor n mv (vecMat g.length cs M) (dens g) (by simpa [dens] using hr.1)
          (by simpa [dens] using hl) (rowsOK_dens hg.width) (pairComm_dens hg)
        exact eqv_trans (mul_congr hr.2 IH) (eqv_symm hx)

/-- `g'` is obtained from `g` by an injective GF(2)-linear change of selection vectors -/
def Emb (n : Nat) (g' g : List Row) : Prop :=
  ∃ f : List Bool → List Bool,
    (∀ c, c.length = g'.length → (f c).length = g.length ∧ prodSel n c (dens g') ≈ₚ prodSel n (f c) (dens g)) ∧
    (∀ c d, c.length = g'.length → d.length = g'.length → f (xorL c d) = xorL (f c) (f d)) ∧
    (∀ c, c.length = g'.length → f c = List.replicate g.length false → c = List.replicate g'.length false)

theorem Emb.refl (n : Nat) (g : List Row) : Emb n g g :=
  ⟨id, fun _ hc => ⟨hc, eqv_refl _⟩, fun _ _ _ _ => rfl, fun _ _ h => h⟩

theorem Emb.trans {n : Nat} {g1 g2 g3 : List Row} (e1 : Emb n g1 g2) (e2 : Emb n g2 g3) : Emb n g1 g3 := by
  obtain ⟨f, hf1, hf2, hf3⟩ := e1
  obtain ⟨f', hf1', hf2', hf3'⟩ := e2
  refine ⟨f' ∘ f, ?_, ?_, ?_⟩
  · intro c hc
    have a := hf1 c hc
    have b := hf1' (f c) a.1
    exact ⟨b.1, eqv_trans a.2 b.2⟩
  · intro c d hc hd
    simp only [Function.comp]
    rw [hf2 c d hc hd, hf2' _ _ (hf1 c hc).1 (hf1 d hd).1]
  · intro c hc h
    exact hf3 c hc (hf3' (f c) (hf1 c hc).1 h)

theorem emb_of_matrix (n : Nat) (g : List Row) (hg : Commuting n g) (g' : List Row) (M : List (List Bool))
    (hlen : M.length = g'.length)
    (hM : ∀ idx, idx < g'.length → (M.getD idx []).length = g.length ∧
      (g'.getD idx dflt).den ≈ₚ prodSel n (M.getD idx []) (dens g))
    (hinj : ∀ c : List Bool, c.length = g'.length →
      (∀ j, j < g.length → dot c (M.map fun r => r.getD j false) = false) →
      ∀ idx, idx < g'.length → c.getD idx false = false) : Emb n g' g := by
  have hMl : ∀ q, q ∈ M → q.length = g.length := by
    intro q hq
    obtain ⟨j, hj, e⟩ := List.mem_iff_getElem.1 hq
    have := (hM j (by omega)).1
    rw [List.getD_eq_getElem?_getD, List.getElem?_eq_getElem hj] at this
    simpa [e] using this
  have hF : All2 (fun (r : Row) (mv : List Bool) => mv.length = g.length ∧ r.den ≈ₚ prodSel n mv (dens g)) g' M :=
    forall2_of_getD _ dflt [] g' M hlen.symm hM
  refine ⟨fun c => vecMat g.length c M, ?_, ?_, ?_⟩
  · intro c _
    exact ⟨vecMat_length _ _ _ hMl, prodSel_comp n g hg g' M hF c⟩
  · intro c d hc hd
    exact vecMat_xorL _ _ _ _ hMl (hc.trans hd.symm)
  · intro c hc h0
    simp only at h0
    apply list_ext_getD
    · simp [hc]
    · intro idx hidx
      rw [hinj c hc (fun j _ => by rw [← vecMat_getD _ _ _ hMl, h0, replicate_getD]) idx (by omega), replicate_getD]

/-! ### the selection matrix of an elimination step -/

/-- row `idx` is `e_(s idx)`, plus `e_b` where `cond idx` -/
def stepMat (len : Nat) (s : Nat → Nat) (b : Nat) (cond : Nat → Bool) : List (List Bool) :=
  (List.range len).map fun idx => if cond idx then xorL (unitv len (s idx)) (unitv len b) else unitv len (s idx)

theorem stepMat_length (len : Nat) (s : Nat → Nat) (b : Nat) (cond : Nat → Bool) :
    (stepMat len s b cond).length = len := by simp [stepMat]

theorem stepMat_getD (len : Nat) (s : Nat → Nat) (b : Nat) (cond : Nat → Bool) (idx : Nat) (hidx : idx < len) :
    (stepMat len s b cond).getD idx [] =
      if cond idx then xorL (unitv len (s idx)) (unitv len b) else unitv len (s idx) := by
  simp [stepMat, List.getD_eq_getElem?_getD, List.getElem?_map, List.getElem?_range hidx]

theorem range_map_getD (len : Nat) (F : Nat → Bool) (idx : Nat) :
    ((List.range len).map F).getD idx false = if idx < len then F idx else false := by
  by_cases h : idx < len
  · simp [List.getD_eq_getElem?_getD, h]
  · simp [List.getD_eq_getElem?_getD, h]

theorem stepMat_col (len : Nat) (s : Nat → Nat) (b : Nat) (cond : Nat → Bool)
    (hs : ∀ x, x < len → s x < len) (hb : b < len) (j idx : Nat) :
    ((stepMat len s b cond).map fun r => r.getD j false).getD idx false =
      if idx < len then (decide (j = s idx) != (cond idx && decide (j = b))) else false := by
  unfold stepMat
  rw [List.map_map]
  rw [range_map_getD]
  split
  · next h =>
    simp only [Function.comp]
    cases hc : cond idx
    · simp only [Bool.false_eq_true, if_false, Bool.false_and, Bool.bne_false]
      exact unitv_getD len (s idx) j (hs idx h)
    · simp only [if_true, Bool.true_and]
      rw [xorL_getD _ _ (by rw [unitv_length, unitv_length]), unitv_getD len (s idx) j (hs idx h),
        unitv_getD len b j hb]
  · rfl

theorem stepMat_inj (len : Nat) (s : Nat → Nat) (a b : Nat) (cond : Nat → Bool)
    (hs : ∀ x, x < len → s x < len) (hss : ∀ x, x < len → s (s x) = x)
    (ha : a < len) (hb : b < len) (hab : s a = b) (hca : cond a = false) (c : List Bool)
    (h0 : ∀ j, j < len → dot c ((stepMat len s b cond).map fun r => r.getD j false) = false) :
    ∀ idx, idx < len → c.getD idx false = false := by
  have hsb : s b = a := by rw [← hab, hss a ha]
  have part1 : ∀ idx, idx < len → idx ≠ a → c.getD idx false = false := by
    intro idx hidx hne
    have hsne : s idx ≠ b := fun e => hne (by rw [← hss idx hidx, e, hsb])
    have := dot_single c ((stepMat len s b cond).map fun r => r.getD (s idx) false) idx (by
      intro idx' hne'
      rw [stepMat_col len s b cond hs hb]
      split
      · next hl =>
        have e1 : decide (s idx = s idx') = false :=
          decide_eq_false (fun e => hne' (by rw [← hss idx' hl, ← e, hss idx hidx]))
        rw [e1, decide_eq_false hsne]; simp
      · simp)
    rw [h0 (s idx) (hs idx hidx), stepMat_col len s b cond hs hb, if_pos hidx, decide_eq_false hsne] at this
    simpa using this.symm
  intro idx hidx
  by_cases e : idx = a
  · subst e
    have := dot_single c ((stepMat len s b cond).map fun r => r.getD b false) idx (by
      intro idx' hne'
      by_cases hl : idx' < len
      · rw [part1 idx' hl hne']; rfl
      · rw [stepMat_col len s b cond hs hb, if_neg hl]; simp)
    rw [h0 b hb, stepMat_col len s b cond hs hb, if_pos hidx, hca, hab] at this
    simpa using this.symm
  · exact part1 idx hidx e

theorem stepRows_emb {w n : Nat} {rows : List Row} {h k i : Nat} (hg : Commuting n rows)
    (hh : h < rows.length) (hi : i < rows.length) :
    Emb n (stepRows w rows h k i) rows ∧ Emb n rows (stepRows w rows h k i) := by
  have hg' : Commuting n (stepRows w rows h k i) := stepRows_commuting hg hh hi
  have hlen := stepRows_length w rows h k i
  have hs : ∀ x, x < rows.length → sw h i x < rows.length := fun x hx => sw_lt hh hi hx
  have hss : ∀ x, x < rows.length → sw h i (sw h i x) = x := fun x _ => sw_sw h i x
  have hp : rows.getD i dflt ∈ rows := getD_mem rows i hi
  constructor
  · -- new rows in terms of old rows
    apply emb_of_matrix n rows hg _
      (stepMat rows.length (sw h i) i fun idx => decide (idx ≠ h) && (rows.getD (sw h i idx) dflt).bit w k)
    · rw [stepMat_length, hlen]
    · intro idx hidx
      rw [hlen] at hidx
      have hm := getD_mem rows (sw h i idx) (hs idx hidx)
      have e1 := prodSel_unitv n rows hg.width (sw h i idx) (hs idx hidx)
      have e2 := prodSel_unitv n rows hg.width i hi
      rw [stepMat_getD _ _ _ _ _ hidx, stepRows_getD _ _ _ _ _ _ hidx]
      simp only
      by_cases hc : idx ≠ h ∧ (rows.getD (sw h i idx) dflt).bit w k = true
      · rw [if_pos hc, if_pos (by rw [hc.2, Bool.and_true]; exact decide_eq_true hc.1)]
        refine ⟨by rw [xorL_length _ _ (by rw [unitv_length, unitv_length]), unitv_length], ?_⟩
        refine eqv_trans (mulRow_den _ _ ((hg.width _ hm).trans (hg.width _ hp).symm) (hg.comm _ hm _ hp)) ?_
        refine eqv_trans (mul_congr (eqv_symm e1) (eqv_symm e2)) ?_
        exact eqv_symm (prodSel_xor n _ _ (dens rows) (by simp [dens, unitv_length]) (by simp [dens, unitv_length])
          (rowsOK_dens hg.width) (pairComm_dens hg))
      · rw [if_neg hc, if_neg (by intro hb; rw [Bool.and_eq_true, decide_eq_true_eq] at hb; exact hc hb)]
        exact ⟨unitv_length _ _, eqv_symm e1⟩
    · intro c _ h0 idx hidx
      rw [hlen] at hidx
      exact stepMat_inj rows.length (sw h i) h i _ hs hss hh hi (by simp [sw]) (by simp) c h0 idx hidx
  · -- old rows in terms of new rows
    apply emb_of_matrix n _ hg' rows
      (stepMat rows.length (sw h i) h fun j => decide (sw h i j ≠ h) && (rows.getD j dflt).bit w k)
    · rw [stepMat_length]
    · intro j hj
      have hsj := hs j hj
      have hm := getD_mem rows j hj
      have e1 := prodSel_unitv n _ hg'.width (sw h i j) (by rw [hlen]; exact hsj)
      have e2 := prodSel_unitv n _ hg'.width h (by rw [hlen]; exact hh)
      have n1 := stepRows_getD w rows h k i (sw h i j) hsj
      have n2 := stepRows_getD w rows h k i h hh
      rw [sw_sw] at n1
      have : sw h i h = i := by simp [sw]
      simp only [this, ne_eq, not_true_eq_false, false_and, if_false] at n2
      rw [hlen] at e1 e2
      rw [n1] at e1
      rw [n2] at e2
      rw [stepMat_getD _ _ _ _ _ hj, hlen]
      simp only at e1
      by_cases hc : sw h i j ≠ h ∧ (rows.getD j dflt).bit w k = true
      · rw [if_pos hc] at e1
        rw [if_pos (by rw [hc.2, Bool.and_true]; exact decide_eq_true hc.1)]
        refine ⟨by rw [xorL_length _ _ (by rw [unitv_length, unitv_length]), unitv_length], ?_⟩
        have e := mulRow_den (rows.getD j dflt) (rows.getD i dflt) ((hg.width _ hm).trans (hg.width _ hp).symm)
          (hg.comm _ hm _ hp)
        have hx := prodSel_xor n (unitv rows.length (sw h i j)) (unitv rows.length h) (dens (stepRows w rows h k i))
          (by simp [dens, unitv_length, hlen]) (by simp [dens, unitv_length, hlen])
          (rowsOK_dens hg'.width) (pairComm_dens hg')
        refine eqv_symm (eqv_trans hx ?_)
        refine eqv_trans (mul_congr (eqv_trans e1 e) e2) ?_
        exact mul_mul_cancel n _ _ (hg.width _ hm) (hg.width _ hp) (den_herm _)
      · rw [if_neg hc] at e1
        rw [if_neg (by intro hb; rw [Bool.and_eq_true, decide_eq_true_eq] at hb; exact hc hb)]
        exact ⟨unitv_length _ _, eqv_symm e1⟩
    · intro c _ h0 idx hidx
      rw [hlen] at h0
      exact stepMat_inj rows.length (sw h i) i h _ hs hss hi hh (by simp [sw]) (by simp [sw]) c h0 idx hidx

theorem gauss_emb (n : Nat) (rows : List Row) (hg : Commuting n rows) :
    Emb n (gauss n rows) rows ∧ Emb n rows (gauss n rows) := by
  have := gauss_preserve n (fun t => Commuting n t ∧ Emb n t rows ∧ Emb n rows t) rows
    (fun t h k i hP hf => by
      obtain ⟨h1, h2, _, _⟩ := firstFrom_some hf
      have e := stepRows_emb (w := n) (k := k) hP.1 (show h < t.length by omega) h2
      exact ⟨stepRows_commuting hP.1 (by omega) h2, e.1.trans hP.2.1, hP.2.2.trans e.2⟩)
    ⟨hg, Emb.refl _ _, Emb.refl _ _⟩
  exact this.2

/-! ### validity is preserved -/

theorem gauss_valid (n : Nat) (rows : List Row) (h : Valid n rows) : Valid n (gauss n rows) := by
  have hc := gauss_commuting n rows h.toCommuting
  obtain ⟨f, hf1, _, hf3⟩ := (gauss_emb n rows h.toCommuting).1
  refine { toCommuting := hc, count := by rw [gauss_length]; exact h.count, indep := ?_ }
  intro c hl hps
  have a := hf1 c hl
  have := h.indep (f c) a.1 (by rw [← a.2.1]; exact hps)
  exact hf3 c hl this

theorem gauss_validMax (n : Nat) (rows : List Row) (h : ValidMax n rows) : ValidMax n (gauss n rows) := by
  have hv := gauss_valid n rows h.toValid
  have hs := gauss_sameGroup n rows h.toCommuting
  refine { toValid := hv, maximal := ?_ }
  intro p hpl hph hpc
  have : ∀ r, r ∈ rows → antiL p.ps r.ps = false := by
    intro r hr
    have hin : InGroup n (gauss n rows) r.den := (hs r.den).2 (inGroup_mem h.width hr)
    exact inGroup_comm hv.width hpl hpc hin
  rcases h.maximal p hpl hph this with h1 | h1
  · exact Or.inl ((hs p).2 h1)
  · exact Or.inr ((hs p.neg).2 h1)

end SqVerif.Stab.Gauss

namespace SqVerif.Stab
export Gauss (
  mulRow_den mulRow_len mulRow_bit mulRow_neg_id
  Gen gen_of_inGroup inGroup_of_gen gen_mono sameGroup_of_mutual sameGroup_refl sameGroup_symm sameGroup_trans
  inGroup_one inGroup_eqv inGroup_mem inGroup_mul inGroup_len inGroup_herm inGroup_comm comm_of_inGroup
  commuting_of_rows_inGroup inGroup_mulRow
  dflt stepRows gauss_induct gauss_preserve gauss_length gauss_commuting gauss_sameGroup
  lbit bit_lt bit_sign bit_gt lbit_mulL letters_id_of_bits
  RedAt Reduced gauss_reduced reduced_col0 gauss_col0 getD_of_getElem? getElem?_of_getD lt_of_getElem? getD_mem mem_getD
  dot selXor selXor_single selXor_zero prodSel_bit reduced_unit_row
  unitv prodSel_unitv Emb gauss_emb gauss_valid gauss_validMax)
end SqVerif.Stab

import SqVerif.SkelAccept
import SqVerif.SkelLemmas
/-!
# Soundness of the trace acceptor

`run_good`: every result of `run` is justified by a path of the statement — a complete one (`Sem`) for
`fin e φ' rest`, whose events are covered by the observations consumed; a partial one (`PSem`) for `part`, whose
events are covered by all the observations.  Hence (`acceptsWith_*_sound`, `accepts_*_sound`): an accepted trace
that ended by `ret` / `exc` is covered by a path of the skeleton with exit `norm`/`ret` / `exc`; an accepted open trace
is covered by a partial path.  `sem_psem`: every complete path is also a partial path.  All loops included (the
unrolling bound only makes `run` return fewer results).
-/
namespace SqVerif.Skel

/-! ### complete paths are partial paths -/

theorem iter_piter {B : Rel} {P : Flags → List Ev → Prop} (h : ∀ φ tr e φ', B φ tr e φ' → P φ tr)
    {φ : Flags} {tr : List Ev} {e : Exit} {φ' : Flags} (hi : Iter B φ tr e φ') : PIter B P φ tr := by
  induction hi with
  | done hb _ => exact PIter.stop (h _ _ _ _ hb)
  | again hb _ ih => exact PIter.again hb ih

theorem one_pone (ev : Ev) (φ : Flags) (tr : List Ev) (e : Exit) (φ' : Flags) (h : one ev φ tr e φ') :
    pone ev φ tr := Or.inr h.1

/-- every complete path is a partial path -/
theorem sem_psem : ∀ (s : Stmt) (φ : Flags) (tr : List Ev) (e : Exit) (φ' : Flags), Sem s φ tr e φ' → PSem s φ tr := by
  intro s
  induction s with
  | skip => intro φ tr e φ' h; exact h.1
  | acquire l b => intro φ tr e φ' h; exact one_pone _ _ _ _ _ h
  | release l => intro φ tr e φ' h; exact one_pone _ _ _ _ _ h
  | qlock q => intro φ tr e φ' h; exact one_pone _ _ _ _ _ h
  | qunlock q => intro φ tr e φ' h; exact one_pone _ _ _ _ _ h
  | cancel l => intro φ tr e φ' h; exact one_pone _ _ _ _ _ h
  | alias x y => intro φ tr e φ' h; exact one_pone _ _ _ _ _ h
  | requires l => intro φ tr e φ' h; exact one_pone _ _ _ _ _ h
  | call r m q => intro φ tr e φ' h; exact Or.inr h.1
  | mutate r f => intro φ tr e φ' h; exact one_pone _ _ _ _ _ h
  | check k => intro φ tr e φ' h; exact one_pone _ _ _ _ _ h
  | raise k => intro φ tr e φ' h; exact Or.inr h.1
  | ret => intro φ tr e φ' h; exact h.1
  | brk => intro φ tr e φ' h; exact h.1
  | cont => intro φ tr e φ' h; exact h.1
  | setFlag i v => intro φ tr e φ' h; exact h.1
  | seq a b iha ihb =>
    intro φ tr e φ' h
    rcases h with ⟨h, _⟩ | ⟨tr1, φ1, tr2, h1, h2, rfl⟩
    · exact Or.inl (iha _ _ _ _ h)
    · exact Or.inr ⟨tr1, φ1, tr2, h1, ihb _ _ _ _ h2, rfl⟩
  | ite c a b iha ihb =>
    intro φ tr e φ' h
    rcases h with ⟨hc, h⟩ | ⟨hc, h⟩
    · exact Or.inl ⟨hc, iha _ _ _ _ h⟩
    · exact Or.inr ⟨hc, ihb _ _ _ _ h⟩
  | loop b ih =>
    intro φ tr e φ' h
    obtain ⟨e0, hit, _⟩ := h
    exact iter_piter ih hit
  | scope b ih =>
    intro φ tr e φ' h
    obtain ⟨e0, hs, _⟩ := h
    exact ih _ _ _ _ hs
  | tryFinally b f ihb ihf =>
    intro φ tr e φ' h
    obtain ⟨tr1, e1, φ1, tr2, e2, hb, hf, rfl, _⟩ := h
    exact Or.inr ⟨tr1, e1, φ1, tr2, hb, ihf _ _ _ _ hf, rfl⟩
  | tryExcept b hd ihb ihh =>
    intro φ tr e φ' h
    rcases h with h | ⟨tr1, φ1, tr2, h1, h2, rfl⟩
    · exact Or.inl (ihb _ _ _ _ h)
    · exact Or.inr ⟨tr1, φ1, tr2, h1, ihh _ _ _ _ h2, rfl⟩
  | tryCatch b hd ihb ihh =>
    intro φ tr e φ' h
    rcases h with ⟨h, _⟩ | ⟨tr1, φ1, tr2, h1, h2, rfl⟩
    · exact Or.inl (ihb _ _ _ _ h)
    · exact Or.inr ⟨tr1, φ1, tr2, h1, ihh _ _ _ _ h2, rfl⟩
  | «opaque» w => intro φ tr e φ' _; trivial

theorem paths_ppaths (s : Stmt) (tr : List Ev) (e : Exit) (h : paths s tr e) : ppaths s tr := by
  obtain ⟨φ', hs⟩ := h
  exact sem_psem s _ _ _ _ hs

/-! ### the generic acceptor -/

section Generic
variable {O : Type}

theorem splits_spec (p : O → Bool) : ∀ (tr r : List O), r ∈ splits p tr →
    ∃ used, tr = used ++ r ∧ ∀ o, o ∈ used → p o = true := by
  intro tr
  induction tr with
  | nil =>
    intro r h
    simp only [splits, List.mem_singleton] at h
    subst h
    exact ⟨[], rfl, (fun o ho => by cases ho)⟩
  | cons o os ih =>
    intro r h
    simp only [splits, List.mem_cons] at h
    rcases h with rfl | h
    · exact ⟨[], rfl, (fun o ho => by cases ho)⟩
    · by_cases hp : p o = true
      · rw [if_pos hp] at h
        obtain ⟨used, hu, hall⟩ := ih r h
        refine ⟨o :: used, (by rw [hu]; rfl), ?_⟩
        intro x hx
        rcases List.mem_cons.1 hx with rfl | hx
        · exact hp
        · exact hall x hx
      · rw [if_neg hp] at h
        cases h

variable (card : Ev → Card) (mt : Ev → O → Bool)

theorem Mt.append {a b : List Ev} {x y : List O} (h1 : Mt card mt a x) (h2 : Mt card mt b y) :
    Mt card mt (a ++ b) (x ++ y) := by
  induction h1 with
  | nil => simpa using h2
  | cons hc _ ih =>
    rw [List.cons_append, List.append_assoc]
    exact Mt.cons hc ih

theorem Mt.single {ev : Ev} {used : List O} (h : Covers card mt ev used) : Mt card mt [ev] used := by
  have := Mt.cons h (Mt.nil (card := card) (mt := mt))
  simpa using this

/-- a result of running a statement with complete paths `B` and partial paths `P` along `tr` is justified -/
def GoodR (B : Rel) (P : Flags → List Ev → Prop) (φ : Flags) (tr : List O) : Res O → Prop
  | .fin e φ' rest => ∃ tr' used, B φ tr' e φ' ∧ tr = used ++ rest ∧ Mt card mt tr' used
  | .part => ∃ tr', P φ tr' ∧ Mt card mt tr' tr

theorem GoodR.mono {B1 B2 : Rel} {P1 P2 : Flags → List Ev → Prop} {φ : Flags} {tr : List O} {r : Res O}
    (hB : ∀ tr' e φ', B1 φ tr' e φ' → B2 φ tr' e φ') (hP : ∀ tr', P1 φ tr' → P2 φ tr')
    (h : GoodR card mt B1 P1 φ tr r) : GoodR card mt B2 P2 φ tr r := by
  cases r with
  | fin e φ' rest =>
    obtain ⟨tr', used, hb, htr, hm⟩ := h
    exact ⟨tr', used, hB _ _ _ hb, htr, hm⟩
  | part =>
    obtain ⟨tr', hp, hm⟩ := h
    exact ⟨tr', hP _ hp, hm⟩

/-- a justified continuation after a first part `tr1` (covered by `u1`) that was run to its end -/
theorem GoodR.compose {B2 B : Rel} {P2 P : Flags → List Ev → Prop} {φ φ1 : Flags} {tr rest u1 : List O}
    {tr1 : List Ev} (htr : tr = u1 ++ rest) (hm : Mt card mt tr1 u1)
    (hfin : ∀ tr2 e2 φ2, B2 φ1 tr2 e2 φ2 → B φ (tr1 ++ tr2) e2 φ2)
    (hpart : ∀ tr2, P2 φ1 tr2 → P φ (tr1 ++ tr2))
    {r : Res O} (h2 : GoodR card mt B2 P2 φ1 rest r) : GoodR card mt B P φ tr r := by
  cases r with
  | fin e2 φ2 rest2 =>
    obtain ⟨tr2, u2, hb, hrest, hm2⟩ := h2
    refine ⟨tr1 ++ tr2, u1 ++ u2, hfin _ _ _ hb, ?_, Mt.append card mt hm hm2⟩
    rw [htr, hrest, List.append_assoc]
  | part =>
    obtain ⟨tr2, hp, hm2⟩ := h2
    refine ⟨tr1 ++ tr2, hpart _ hp, ?_⟩
    rw [htr]
    exact Mt.append card mt hm hm2

variable [DecidableEq O]

theorem mem_bindR (rs : List (Res O)) (k : Exit → Flags → List O → List (Res O)) (r : Res O)
    (h : r ∈ bindR rs k) :
    (r = .part ∧ Res.part ∈ rs) ∨ ∃ e φ rest, Res.fin e φ rest ∈ rs ∧ r ∈ k e φ rest := by
  unfold bindR at h
  rw [mem_union_nil] at h
  obtain ⟨x, hx, hr⟩ := List.mem_flatMap.1 h
  cases x with
  | part =>
    simp only [List.mem_singleton] at hr
    exact Or.inl ⟨hr, hx⟩
  | fin e φ rest => exact Or.inr ⟨e, φ, rest, hx, hr⟩

omit [DecidableEq O] in
theorem emitR_spec (ev : Ev) (φ : Flags) (tr : List O) (r : Res O) (h : r ∈ emitR card mt ev φ tr) :
    match r with
    | .fin e φ' rest => e = .norm ∧ φ' = φ ∧ ∃ used, tr = used ++ rest ∧ Covers card mt ev used
    | .part => tr = [] := by
  unfold emitR at h
  cases hc : card ev with
  | silent =>
    rw [hc] at h
    simp only [List.mem_singleton] at h
    subst h
    refine ⟨rfl, rfl, [], rfl, (fun o ho => by cases ho), fun _ => rfl, ?_, ?_⟩
    · intro h1; rw [hc] at h1; cases h1
    · intro h1; rw [hc] at h1; cases h1
  | one =>
    rw [hc] at h
    cases tr with
    | nil =>
      simp only [List.mem_singleton] at h
      subst h
      rfl
    | cons o os =>
      simp only at h
      by_cases hm : mt ev o = true
      · rw [if_pos hm] at h
        simp only [List.mem_singleton] at h
        subst h
        refine ⟨rfl, rfl, [o], rfl, ?_, ?_, fun _ => ⟨o, rfl⟩, (fun _ => by simp)⟩
        · intro x hx
          simp only [List.mem_singleton] at hx
          subst hx
          exact hm
        · intro h1; rw [hc] at h1; cases h1
      · rw [if_neg hm] at h
        cases h
  | many0 =>
    rw [hc] at h
    simp only at h
    obtain ⟨rest, hrest, rfl⟩ := List.mem_map.1 h
    obtain ⟨used, hu, hall⟩ := splits_spec (mt ev) tr rest hrest
    refine ⟨rfl, rfl, used, hu, hall, ?_, ?_, ?_⟩
    · intro h1; rw [hc] at h1; cases h1
    · intro h1; rw [hc] at h1; cases h1
    · intro h1; rw [hc] at h1; cases h1
  | many1 =>
    rw [hc] at h
    cases tr with
    | nil =>
      simp only [List.mem_singleton] at h
      subst h
      rfl
    | cons o os =>
      simp only at h
      by_cases hm : mt ev o = true
      · rw [if_pos hm] at h
        obtain ⟨rest, hrest, rfl⟩ := List.mem_map.1 h
        obtain ⟨used, hu, hall⟩ := splits_spec (mt ev) os rest hrest
        refine ⟨rfl, rfl, o :: used, (by rw [hu]; rfl), ?_, ?_, ?_, (fun _ => by simp)⟩
        · intro x hx
          rcases List.mem_cons.1 hx with rfl | hx
          · exact hm
          · exact hall x hx
        · intro h1; rw [hc] at h1; cases h1
        · intro h1; rw [hc] at h1; cases h1
      · rw [if_neg hm] at h
        cases h

omit [DecidableEq O] in
/-- a single-event statement -/
theorem emit_good (ev : Ev) (B : Rel) (P : Flags → List Ev → Prop) (hB : ∀ φ, B φ [ev] .norm φ) (hP : ∀ φ, P φ [])
    (φ : Flags) (tr : List O) (r : Res O) (h : r ∈ emitR card mt ev φ tr) : GoodR card mt B P φ tr r := by
  have hs := emitR_spec card mt ev φ tr r h
  cases r with
  | fin e φ' rest =>
    obtain ⟨rfl, rfl, used, htr, hcov⟩ := hs
    exact ⟨[ev], used, hB _, htr, Mt.single card mt hcov⟩
  | part =>
    simp only at hs
    subst hs
    exact ⟨[], hP _, Mt.nil⟩

/-- an event followed by one of several exits (`call`: normal or exception; `raise`: exception) -/
theorem emitThen_good (ev : Ev) (exits : List Exit) (B : Rel) (P : Flags → List Ev → Prop)
    (hB : ∀ φ e, e ∈ exits → B φ [ev] e φ) (hP : ∀ φ, P φ [])
    (φ : Flags) (tr : List O) (r : Res O)
    (h : r ∈ bindR (emitR card mt ev φ tr) (fun _ φ1 rest => exits.map (fun e => Res.fin e φ1 rest))) :
    GoodR card mt B P φ tr r := by
  rcases mem_bindR _ _ r h with ⟨rfl, hp⟩ | ⟨e0, φ0, rest0, h0, hr⟩
  · have hs := emitR_spec card mt ev φ tr _ hp
    simp only at hs
    subst hs
    exact ⟨[], hP _, Mt.nil⟩
  · have hs := emitR_spec card mt ev φ tr _ h0
    obtain ⟨_, rfl, used, htr, hcov⟩ := hs
    obtain ⟨e, he, rfl⟩ := List.mem_map.1 hr
    exact ⟨[ev], used, hB _ _ he, htr, Mt.single card mt hcov⟩

omit [DecidableEq O] in
theorem done_good (B : Rel) (P : Flags → List Ev → Prop) (φ φ' : Flags) (tr : List O) (e : Exit)
    (hB : B φ [] e φ') : GoodR card mt B P φ tr (.fin e φ' tr) :=
  ⟨[], [], hB, rfl, Mt.nil⟩

/-- the iterations of a loop -/
theorem iterR_good (f : Flags → List O → List (Res O)) (B : Rel) (P : Flags → List Ev → Prop)
    (hf : ∀ φ tr r, r ∈ f φ tr → GoodR card mt B P φ tr r) :
    ∀ (n : Nat) (φ : Flags) (tr : List O) (r : Res O), r ∈ iterR f n φ tr →
      GoodR card mt (fun φ tr e φ' => ∃ e0, Iter B φ tr e0 φ' ∧ e = e0.unloop) (PIter B P) φ tr r := by
  intro n
  induction n with
  | zero => intro φ tr r h; cases h
  | succ n ih =>
    intro φ tr r h
    simp only [iterR] at h
    rcases mem_bindR _ _ r h with ⟨rfl, hp⟩ | ⟨e, φ1, rest, h1, hr⟩
    · obtain ⟨tr', hP, hm⟩ := hf _ _ _ hp
      exact ⟨tr', PIter.stop hP, hm⟩
    · obtain ⟨tr1, u1, hb, htr, hm⟩ := hf _ _ _ h1
      by_cases he : e = Exit.cont
      · subst he
        rw [if_pos rfl] at hr
        split at hr
        · cases hr
        · refine GoodR.compose card mt htr hm ?_ ?_ (ih _ _ _ hr)
          · rintro tr2 e2 φ2 ⟨e0, hit, rfl⟩
            exact ⟨e0, Iter.again hb hit, rfl⟩
          · intro tr2 hp
            exact PIter.again hb hp
      · rw [if_neg he] at hr
        simp only [List.mem_singleton] at hr
        subst hr
        exact ⟨tr1, u1, ⟨e, Iter.done hb he, rfl⟩, htr, hm⟩

/-- **every result of `run` is justified by a (partial) path of the statement** -/
theorem run_good (fuel : Nat) : ∀ (s : Stmt) (φ : Flags) (tr : List O) (r : Res O),
    r ∈ run card mt fuel s φ tr → GoodR card mt (Sem s) (PSem s) φ tr r := by
  intro s
  induction s with
  | skip =>
    intro φ tr r h
    simp only [run, List.mem_singleton] at h
    subst h
    exact done_good card mt _ _ _ _ _ _ ⟨rfl, rfl, rfl⟩
  | acquire l b =>
    intro φ tr r h
    exact emit_good card mt _ _ _ (fun _ => ⟨rfl, rfl, rfl⟩) (fun _ => Or.inl rfl) φ tr r h
  | release l =>
    intro φ tr r h
    exact emit_good card mt _ _ _ (fun _ => ⟨rfl, rfl, rfl⟩) (fun _ => Or.inl rfl) φ tr r h
  | qlock q =>
    intro φ tr r h
    exact emit_good card mt _ _ _ (fun _ => ⟨rfl, rfl, rfl⟩) (fun _ => Or.inl rfl) φ tr r h
  | qunlock q =>
    intro φ tr r h
    exact emit_good card mt _ _ _ (fun _ => ⟨rfl, rfl, rfl⟩) (fun _ => Or.inl rfl) φ tr r h
  | cancel l =>
    intro φ tr r h
    exact emit_good card mt _ _ _ (fun _ => ⟨rfl, rfl, rfl⟩) (fun _ => Or.inl rfl) φ tr r h
  | alias x y =>
    intro φ tr r h
    exact emit_good card mt _ _ _ (fun _ => ⟨rfl, rfl, rfl⟩) (fun _ => Or.inl rfl) φ tr r h
  | requires l =>
    intro φ tr r h
    exact emit_good card mt _ _ _ (fun _ => ⟨rfl, rfl, rfl⟩) (fun _ => Or.inl rfl) φ tr r h
  | call rl m q =>
    intro φ tr r h
    refine emitThen_good card mt (.call rl m q) [.norm, .exc] _ _ ?_ (fun _ => Or.inl rfl) φ tr r h
    intro φ e he
    simp only [List.mem_cons, List.not_mem_nil, or_false] at he
    exact ⟨rfl, he, rfl⟩
  | mutate rl f =>
    intro φ tr r h
    exact emit_good card mt _ _ _ (fun _ => ⟨rfl, rfl, rfl⟩) (fun _ => Or.inl rfl) φ tr r h
  | check k =>
    intro φ tr r h
    exact emit_good card mt _ _ _ (fun _ => ⟨rfl, rfl, rfl⟩) (fun _ => Or.inl rfl) φ tr r h
  | raise k =>
    intro φ tr r h
    refine emitThen_good card mt (.rais k) [.exc] _ _ ?_ (fun _ => Or.inl rfl) φ tr r h
    intro φ e he
    simp only [List.mem_singleton] at he
    exact ⟨rfl, he, rfl⟩
  | ret =>
    intro φ tr r h
    simp only [run, List.mem_singleton] at h
    subst h
    exact done_good card mt _ _ _ _ _ _ ⟨rfl, rfl, rfl⟩
  | brk =>
    intro φ tr r h
    simp only [run, List.mem_singleton] at h
    subst h
    exact done_good card mt _ _ _ _ _ _ ⟨rfl, rfl, rfl⟩
  | cont =>
    intro φ tr r h
    simp only [run, List.mem_singleton] at h
    subst h
    exact done_good card mt _ _ _ _ _ _ ⟨rfl, rfl, rfl⟩
  | setFlag i v =>
    intro φ tr r h
    simp only [run, List.mem_singleton] at h
    subst h
    exact done_good card mt _ _ _ _ _ _ ⟨rfl, rfl, rfl⟩
  | seq a b iha ihb =>
    intro φ tr r h
    simp only [run] at h
    rcases mem_bindR _ _ r h with ⟨rfl, hp⟩ | ⟨e, φ1, rest, h1, hr⟩
    · obtain ⟨tr', hP, hm⟩ := iha _ _ _ hp
      exact ⟨tr', Or.inl hP, hm⟩
    · obtain ⟨tr1, u1, hb, htr, hm⟩ := iha _ _ _ h1
      by_cases he : e = Exit.norm
      · subst he
        rw [if_pos rfl] at hr
        refine GoodR.compose card mt htr hm ?_ ?_ (ihb _ _ _ hr)
        · intro tr2 e2 φ2 h2
          exact Or.inr ⟨tr1, φ1, tr2, hb, h2, rfl⟩
        · intro tr2 hp
          exact Or.inr ⟨tr1, φ1, tr2, hb, hp, rfl⟩
      · rw [if_neg he] at hr
        simp only [List.mem_singleton] at hr
        subst hr
        exact ⟨tr1, u1, Or.inl ⟨hb, he⟩, htr, hm⟩
  | ite c a b iha ihb =>
    intro φ tr r h
    simp only [run] at h
    rcases List.mem_append.1 h with h | h
    · by_cases hc : c.canThen φ = true
      · rw [if_pos hc] at h
        exact GoodR.mono card mt (fun _ _ _ hb => Or.inl ⟨hc, hb⟩) (fun _ hp => Or.inl ⟨hc, hp⟩) (iha _ _ _ h)
      · rw [if_neg hc] at h
        cases h
    · by_cases hc : c.canElse φ = true
      · rw [if_pos hc] at h
        exact GoodR.mono card mt (fun _ _ _ hb => Or.inr ⟨hc, hb⟩) (fun _ hp => Or.inr ⟨hc, hp⟩) (ihb _ _ _ h)
      · rw [if_neg hc] at h
        cases h
  | loop b ih =>
    intro φ tr r h
    simp only [run] at h
    exact iterR_good card mt _ _ _ (fun φ tr r hr => ih φ tr r hr) _ _ _ _ h
  | scope b ih =>
    intro φ tr r h
    simp only [run] at h
    rcases mem_bindR _ _ r h with ⟨rfl, hp⟩ | ⟨e, φ1, rest, h1, hr⟩
    · exact ih _ _ _ hp
    · obtain ⟨tr1, u1, hb, htr, hm⟩ := ih _ _ _ h1
      simp only [List.mem_singleton] at hr
      subst hr
      exact ⟨tr1, u1, ⟨e, hb, rfl⟩, htr, hm⟩
  | tryFinally b f ihb ihf =>
    intro φ tr r h
    simp only [run] at h
    rcases mem_bindR _ _ r h with ⟨rfl, hp⟩ | ⟨e1, φ1, rest, h1, hr⟩
    · obtain ⟨tr', hP, hm⟩ := ihb _ _ _ hp
      exact ⟨tr', Or.inl hP, hm⟩
    · obtain ⟨tr1, u1, hb, htr, hm⟩ := ihb _ _ _ h1
      rcases mem_bindR _ _ r hr with ⟨rfl, hp2⟩ | ⟨e2, φ2, rest2, h2, hr2⟩
      · obtain ⟨tr2, hP, hm2⟩ := ihf _ _ _ hp2
        refine ⟨tr1 ++ tr2, Or.inr ⟨tr1, e1, φ1, tr2, hb, hP, rfl⟩, ?_⟩
        rw [htr]
        exact Mt.append card mt hm hm2
      · obtain ⟨tr2, u2, hf, hrest, hm2⟩ := ihf _ _ _ h2
        simp only [List.mem_singleton] at hr2
        subst hr2
        refine ⟨tr1 ++ tr2, u1 ++ u2, ⟨tr1, e1, φ1, tr2, e2, hb, hf, rfl, rfl⟩, ?_, Mt.append card mt hm hm2⟩
        rw [htr, hrest, List.append_assoc]
  | tryExcept b hd ihb ihh =>
    intro φ tr r h
    simp only [run] at h
    rcases List.mem_append.1 h with h | h
    · exact GoodR.mono card mt (fun _ _ _ hb => Or.inl hb) (fun _ hp => Or.inl hp) (ihb _ _ _ h)
    · rcases mem_bindR _ _ r h with ⟨rfl, hp⟩ | ⟨e, φ1, rest, h1, hr⟩
      · obtain ⟨tr', hP, hm⟩ := ihb _ _ _ hp
        exact ⟨tr', Or.inl hP, hm⟩
      · obtain ⟨tr1, u1, hb, htr, hm⟩ := ihb _ _ _ h1
        by_cases he : e = Exit.exc
        · subst he
          rw [if_pos rfl] at hr
          refine GoodR.compose card mt htr hm ?_ ?_ (ihh _ _ _ hr)
          · intro tr2 e2 φ2 h2
            exact Or.inr ⟨tr1, φ1, tr2, hb, h2, rfl⟩
          · intro tr2 hp
            exact Or.inr ⟨tr1, φ1, tr2, hb, hp, rfl⟩
        · rw [if_neg he] at hr
          cases hr
  | tryCatch b hd ihb ihh =>
    intro φ tr r h
    simp only [run] at h
    rcases mem_bindR _ _ r h with ⟨rfl, hp⟩ | ⟨e, φ1, rest, h1, hr⟩
    · obtain ⟨tr', hP, hm⟩ := ihb _ _ _ hp
      exact ⟨tr', Or.inl hP, hm⟩
    · obtain ⟨tr1, u1, hb, htr, hm⟩ := ihb _ _ _ h1
      by_cases he : e = Exit.exc
      · subst he
        rw [if_pos rfl] at hr
        refine GoodR.compose card mt htr hm ?_ ?_ (ihh _ _ _ hr)
        · intro tr2 e2 φ2 h2
          exact Or.inr ⟨tr1, φ1, tr2, hb, h2, rfl⟩
        · intro tr2 hp
          exact Or.inr ⟨tr1, φ1, tr2, hb, hp, rfl⟩
      · rw [if_neg he] at hr
        simp only [List.mem_singleton] at hr
        subst hr
        exact ⟨tr1, u1, Or.inl ⟨hb, he⟩, htr, hm⟩
  | «opaque» w =>
    intro φ tr r h
    simp only [run] at h
    cases h

/-! ### the acceptor -/

omit [DecidableEq O] in
theorem okFor_ret (r : Res O) (h : r.okFor .ret = true) : ∃ e φ, r = .fin e φ [] ∧ (e = .norm ∨ e = .ret) := by
  cases r with
  | part => cases h
  | fin e φ rest =>
    cases rest with
    | cons o os => cases h
    | nil =>
      refine ⟨e, φ, rfl, ?_⟩
      cases e <;> simp [Res.okFor] at h ⊢

omit [DecidableEq O] in
theorem okFor_exc (r : Res O) (h : r.okFor .exc = true) : ∃ φ, r = .fin .exc φ [] := by
  cases r with
  | part => cases h
  | fin e φ rest =>
    cases rest with
    | cons o os => cases h
    | nil =>
      cases e <;> simp [Res.okFor] at h
      exact ⟨φ, rfl⟩

omit [DecidableEq O] in
theorem okFor_open (r : Res O) (h : r.okFor .open = true) : r = .part ∨ ∃ e φ, r = .fin e φ [] := by
  cases r with
  | part => exact Or.inl rfl
  | fin e φ rest =>
    cases rest with
    | cons o os => cases h
    | nil => exact Or.inr ⟨e, φ, rfl⟩

/-- an accepted trace of an activation that returned: some path of the skeleton that ends normally or by `return`
    shows exactly these observations -/
theorem acceptsWith_ret_sound (fuel : Nat) (s : Stmt) (tr : List O) (h : acceptsWith card mt fuel s tr .ret = true) :
    ∃ tr' e, paths s tr' e ∧ (e = .norm ∨ e = .ret) ∧ Mt card mt tr' tr := by
  unfold acceptsWith at h
  obtain ⟨r, hr, hok⟩ := List.any_eq_true.1 h
  obtain ⟨e, φ', rfl, he⟩ := okFor_ret r hok
  obtain ⟨tr', used, hs, htr, hm⟩ := run_good card mt fuel s [] tr _ hr
  rw [List.append_nil] at htr
  subst htr
  exact ⟨tr', e, ⟨φ', hs⟩, he, hm⟩

/-- … that raised: some path that ends with an exception -/
theorem acceptsWith_exc_sound (fuel : Nat) (s : Stmt) (tr : List O) (h : acceptsWith card mt fuel s tr .exc = true) :
    ∃ tr', paths s tr' .exc ∧ Mt card mt tr' tr := by
  unfold acceptsWith at h
  obtain ⟨r, hr, hok⟩ := List.any_eq_true.1 h
  obtain ⟨φ', rfl⟩ := okFor_exc r hok
  obtain ⟨tr', used, hs, htr, hm⟩ := run_good card mt fuel s [] tr _ hr
  rw [List.append_nil] at htr
  subst htr
  exact ⟨tr', ⟨φ', hs⟩, hm⟩

/-- … that has not ended: some partial path -/
theorem acceptsWith_open_sound (fuel : Nat) (s : Stmt) (tr : List O) (h : acceptsWith card mt fuel s tr .open = true) :
    ∃ tr', ppaths s tr' ∧ Mt card mt tr' tr := by
  unfold acceptsWith at h
  obtain ⟨r, hr, hok⟩ := List.any_eq_true.1 h
  rcases okFor_open r hok with rfl | ⟨e, φ', rfl⟩
  · obtain ⟨tr', hp, hm⟩ := run_good card mt fuel s [] tr _ hr
    exact ⟨tr', hp, hm⟩
  · obtain ⟨tr', used, hs, htr, hm⟩ := run_good card mt fuel s [] tr _ hr
    rw [List.append_nil] at htr
    subst htr
    exact ⟨tr', sem_psem s _ _ _ _ hs, hm⟩

end Generic

/-! ### the acceptor for recorded traces -/

theorem accepts_ret_sound (s : Stmt) (tr : List Obs) (h : accepts s tr .ret = true) :
    ∃ tr' e, paths s tr' e ∧ (e = .norm ∨ e = .ret) ∧ Mt obsCard obsMatch tr' tr :=
  acceptsWith_ret_sound obsCard obsMatch _ s tr h

theorem accepts_exc_sound (s : Stmt) (tr : List Obs) (h : accepts s tr .exc = true) :
    ∃ tr', paths s tr' .exc ∧ Mt obsCard obsMatch tr' tr :=
  acceptsWith_exc_sound obsCard obsMatch _ s tr h

theorem accepts_open_sound (s : Stmt) (tr : List Obs) (h : accepts s tr .open = true) :
    ∃ tr', ppaths s tr' ∧ Mt obsCard obsMatch tr' tr :=
  acceptsWith_open_sound obsCard obsMatch _ s tr h

end SqVerif.Skel

-- root of the `SqVerif` library: everything `setup.sh` builds
import SqVerif.Drive.Topo
import SqVerif.Drive.Stab
import SqVerif.Drive.Config
import SqVerif.Drive.Settings
import SqVerif.Drive.Noise
import SqVerif.Drive.VNet
import SqVerif.Props.C13
import SqVerif.Props.C14
import SqVerif.Props.C16
import SqVerif.Props.C17
import SqVerif.Props.C18
import SqVerif.Props.C19

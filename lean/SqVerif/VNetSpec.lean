import SqVerif.VNet
/-
L2 — specification vocabulary for C01 / C02 / C05 / C06 / C07 (core Lean only).
-/
namespace SqVerif.VNet

/-- handles currently held by node `i` (its `virtQubits` list) -/
def heldAt (s : Net) (i : Nat) : List Nat := (s.nodes[i]?).map (·.virt) |>.getD []
/-- every held handle of the network, node by node -/
def allHeld (s : Net) : List Nat := s.nodes.flatMap (·.virt)
/-- every simulated-qubit object that is in some node's `simQubits` list -/
def allSim (s : Net) : List Nat := s.nodes.flatMap (·.sim)

/-- simulated qubits of node `n` that sit in register `r` (in list order) -/
def simsOfReg (s : Net) (n : Node) (r : Nat) : List SQ :=
  n.sim.filterMap fun o => match s.sqs[o]? with
    | some q => if q.reg == r then some q else none
    | none => none

/-- the logical qubit (token) a handle denotes: follow handle → simulated
qubit → register at the simulating node → position -/
def tokOf (s : Net) (h : Nat) : Option Nat := do
  let vq ← s.vqs[h]?
  let sq ← s.sqs[vq.simObj]?
  let nd ← s.nodes[vq.simNode]?
  let r ← nd.reg? sq.reg
  r.toks[sq.pos]?

/-- all tokens stored in registers, node by node, register by register -/
def allToks (s : Net) : List Nat := s.nodes.flatMap fun n => n.regs.flatMap (·.toks)

/-- per-node well-formedness -/
structure NodeWF (s : Net) (i : Nat) (n : Node) : Prop where
  virtNodup : n.virt.Nodup
  simNodup : n.sim.Nodup
  virtNumsNodup : (virtNums s n).Nodup
  simNumsNodup : (simNums s n).Nodup
  /-- register accounting -/
  numRegs : n.numRegs = n.regs.length
  regNumsNodup : (n.regs.map (·.num)).Nodup
  regNumsFresh : ∀ r, r ∈ n.regs → r.num < n.nextReg
  regsNonEmpty : ∀ r, r ∈ n.regs → r.toks ≠ []
  regsWithinMax : ∀ r, r ∈ n.regs → r.toks.length ≤ r.max
  /-- capacity is never exceeded -/
  cap : n.virt.length ≤ n.maxQubits
  /-- each held handle is an active handle of this node naming a live, active
  simulated qubit at the node it names as simulator -/
  virtOK : ∀ h, h ∈ n.virt → ∃ vq, s.vqs[h]? = some vq ∧ vq.active = true ∧ vq.virtNode = i ∧
      ∃ sn sq, s.nodes[vq.simNode]? = some sn ∧ vq.simObj ∈ sn.sim ∧ s.sqs[vq.simObj]? = some sq ∧
        sq.active = true ∧ sq.node = vq.simNode
  /-- each simulated qubit lives here, in an existing register -/
  simOK : ∀ o, o ∈ n.sim → ∃ sq, s.sqs[o]? = some sq ∧ sq.node = i ∧ sq.active = true ∧ ∃ r, n.reg? sq.reg = some r
  /-- the positions of the simulated qubits of each register are exactly 0..k-1 -/
  positions : ∀ r, r ∈ n.regs →
      ((simsOfReg s n r.num).map (·.pos)).Perm (List.range r.toks.length)

/-- C02: conservation and bookkeeping integrity of a quiescent state -/
structure WF (s : Net) : Prop where
  nodes : ∀ i n, s.nodes[i]? = some n → NodeWF s i n
  /-- held handle → simulated qubit is injective over the whole network … -/
  backInj : ((allHeld s).filterMap fun h => (s.vqs[h]?).map (·.simObj)).Nodup
  /-- … and onto the simulated qubits that exist: none is orphaned -/
  backSurj : ∀ o, o ∈ allSim s → ∃ h vq, h ∈ allHeld s ∧ s.vqs[h]? = some vq ∧ vq.simObj = o
  /-- a handle that is not held is inactive (C06) -/
  staleInactive : ∀ h vq, s.vqs[h]? = some vq → h ∉ allHeld s → vq.active = false
  /-- tokens are not duplicated or invented -/
  toksNodup : (allToks s).Nodup
  toksFresh : ∀ t, t ∈ allToks s → t < s.nextTok

/-- number of qubits held per node -/
def held (s : Net) (i : Nat) : Nat := (heldAt s i).length

/-- reachable states -/
inductive Reach (caps : List (Nat × Nat)) : Net → Prop where
  | init : Reach caps (init caps)
  | step {s} (op : Op) : Reach caps s → Reach caps (step s op).1

/-- a step that changed nothing and called no engine -/
def Inert (s : Net) (op : Op) : Prop := (step s op).1 = s ∧ (step s op).2.2 = []

end SqVerif.VNet

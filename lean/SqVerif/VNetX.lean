import SqVerif.VNet
/-
L2x — the client-visible methods of `simulaqron/virtual_node/virtual.py` that
the base model `VNet` does not cover, as a conservative layer ON TOP of it
(core Lean only).  The state is the base network `VNet.Net` plus, per node,

* the two dictionaries of receive queues `qubit_recv` / `qubit_recv_epr`
  (virtual.py:199-202): socket id -> FIFO deque of `QubitNetQASM` records
  (1780-1787);
* the registers a client created with `remote_new_register` /
  `remote_add_register` that hold no qubit yet (`free`).

The operations are `base op` (delegating to `VNet.step`, untouched) plus

  newReg / delReg      remote_new_register = remote_add_register (375-421),
                       remote_delete_register (423-434) as CLIENT calls
  newInReg             remote_new_qubit_inreg (475-506)
  getRef               remote_get_virtual_ref (809-821)
  nqSend / nqSendEpr   remote_netqasm_send_qubit (508-543),
                       remote_netqasm_send_epr_half (586-625) incl. `num is None`
  addRecv / addEpr     remote_netqasm_add_recv_list (545-562), _add_epr_list (627-646)
  getRecv / getEprRecv remote_netqasm_get_recv (564-584), _get_epr_recv (648-670)
  obs                  remote_get_number / get_virt_num / get_virtNode / get_simNode
                       (1675-1713), get_register_RI (1082-1091, 1738-1744),
                       remote_get_register (1093-1103), remote_check_connections
                       (217-222), remote_isLocked (320-321)

Empty client registers and the base invariant.  The base invariant `WF` says
that no register of `Net` is empty, and every base operation relies on it.  A
register created by a client IS empty until `newInReg` puts a qubit into it.
Such registers are therefore kept OUTSIDE the base network, in `NodeX.free`
(number, limit); they do count against the node's register budget: the base
node's `maxRegs` is the budget that is LEFT for the other registers, i.e.

    Python `numRegs`  = base `numRegs` + |free|
    Python `maxRegs`  = base `maxRegs` + |free|          (constant, `budget`)
    Python `registers`= base `regs` ∪ free               (keys in creation order)

so that the guard `numRegs >= maxRegs` of `remote_new_register` reads the same
on both sides.  `newReg` moves one unit of budget from the base node to `free`,
`delReg` of a free register moves it back, `newInReg` into a free register
moves the register (with its unit) into the base network.

The model mirrors `remote_new_qubit_inreg` AFTER the repair of the defect
"a register reference that the node has deleted in the meantime (absorbed by a
two-qubit gate, emptied by a measurement) is accepted" (branch
`fix-inreg-stale-register`): such a call is refused with quantumError.
-/
namespace SqVerif.VNetX
open SqVerif.VNet

/-- `QubitNetQASM` (1780-1787); `toName` is always the name of the node that
holds the record and is not stored.  `ghost` is not in the code: the identity
of the handle the send created at the receiver (what `virt_num` denoted when
the record was appended). -/
structure QRec where
  frm : Nat               -- fromName (index of the sending node; any other number: a foreign name)
  fromSock : Nat          -- from_epr_socket_id (the sender's app_id)
  toSock : Nat            -- to_epr_socket_id
  num : Option Nat        -- virt_num: the NEW virtual number at the receiver (None: measure-directly outcome)
  ent : Option Nat        -- rawEntInfo (opaque; None in `qubit_recv`)
  ghost : Option Nat
  deriving DecidableEq, Repr

/-- a dictionary socket id -> deque, in insertion order -/
abbrev QMap := List (Nat × List QRec)

/-- `d[k]` if present, else the empty queue -/
def qget (m : QMap) (k : Nat) : List QRec :=
  match m.find? (fun p => p.1 == k) with
  | some p => p.2
  | none => []

/-- `if k not in d: d[k] = deque([])` then `d[k].append(r)` (550-553, 632-636) -/
def qapp (m : QMap) (k : Nat) (r : QRec) : QMap :=
  if m.any (fun p => p.1 == k) then m.map fun p => if p.1 == k then (p.1, p.2 ++ [r]) else p
  else m ++ [(k, [r])]

/-- `d[k].popleft()` (579, 664) -/
def qpop (m : QMap) (k : Nat) : QMap :=
  m.map fun p => if p.1 == k then (p.1, p.2.tail) else p

inductive Kind where
  | recv      -- qubit_recv
  | epr       -- qubit_recv_epr
  deriving DecidableEq, Repr

structure NodeX where
  free : List (Nat × Nat)     -- (number, maxQubits) of the client-created registers that hold no qubit
  recv : QMap
  epr : QMap
  deriving DecidableEq, Repr

def NodeX.empty : NodeX := { free := [], recv := [], epr := [] }

def NodeX.q (x : NodeX) : Kind → QMap
  | .recv => x.recv
  | .epr => x.epr

def NodeX.setQ (x : NodeX) (k : Kind) (m : QMap) : NodeX :=
  match k with
  | .recv => { x with recv := m }
  | .epr => { x with epr := m }

structure NetX where
  base : Net
  ext : List NodeX
  deriving DecidableEq, Repr

def initX (caps : List (Nat × Nat)) : NetX :=
  { base := init caps, ext := caps.map fun _ => NodeX.empty }

def extOf (s : NetX) (i : Nat) : NodeX := (s.ext[i]?).getD NodeX.empty

/-- the queue of socket `sock` in dictionary `k` of node `i` -/
def queueOf (s : NetX) (i : Nat) (k : Kind) (sock : Nat) : List QRec := qget ((extOf s i).q k) sock

/-- Python's `maxRegs` of node `i` (see the header) -/
def budget (s : NetX) (i : Nat) : Nat :=
  match s.base.nodes[i]? with
  | some n => n.maxRegs + (extOf s i).free.length
  | none => 0

/-- observers (no state change) -/
inductive Obs where
  | number (h : Nat)       -- virtualQubit.remote_get_number: position in its register
  | virtNum (h : Nat)      -- virtualQubit.remote_get_virt_num
  | virtNode (h : Nat)     -- virtualQubit.remote_get_virtNode
  | simNode (h : Nat)      -- virtualQubit.remote_get_simNode
  | regRI (h : Nat)        -- virtualQubit.remote_get_register_RI = virtualNode.remote_get_register_RI(qubit)
  | nodeReg (h : Nat)      -- virtualNode.remote_get_register(qubit): only for a locally simulated qubit
  | connections (a : Nat)  -- remote_check_connections
  | locked (a : Nat)       -- remote_isLocked
  deriving DecidableEq, Repr

inductive XOp where
  | base (op : Op)
  | newReg (a : Nat) (max : Nat)
  | delReg (a : Nat) (r : Nat)
  | newInReg (a : Nat) (r : Nat)
  | getRef (a : Nat) (num : Nat)
  | nqSend (a : Nat) (num : Nat) (b : Nat) (app rapp : Nat)
  | nqSendEpr (a : Nat) (num : Option Nat) (b : Nat) (app rapp : Nat) (ent : Nat)
  | addRecv (b : Nat) (frm fs ts : Nat) (num : Option Nat)
  | addEpr (b : Nat) (frm fs ts : Nat) (num : Option Nat) (ent : Nat)
  | getRecv (b : Nat) (sock : Nat)
  | getEprRecv (b : Nat) (sock : Nat)
  | obs (o : Obs)
  deriving DecidableEq, Repr

inductive XRes where
  | res (r : Res)                              -- a result of the base vocabulary
  | reg (num : Nat)                            -- a reference to register `num` of the called node
  | ref (h : Option Nat)                       -- a handle or None
  | eprRef (h : Option Nat) (ent : Option Nat) -- (handle or None, rawEntInfo)
  | name (n : Nat)                             -- a node name
  | bool (b : Bool)
  | matrix (k : Nat)                           -- the state of a register of `k` qubits
  | regInfo (k reg pos : Nat)                  -- (state, activeQubits, register number, position)
  | keyError                                   -- KeyError: no such register in the table
  | attrError                                  -- AttributeError: `None.num` / `RemoteReference.register`
  | unspecified                                -- reads an object that is no longer part of the network
  deriving DecidableEq, Repr

/-- queue events of a step, for the FIFO refinement -/
inductive QEv where
  | app (node : Nat) (k : Kind) (sock : Nat) (r : QRec)
  | pop (node : Nat) (k : Kind) (sock : Nat) (r : QRec)
  deriving DecidableEq, Repr

structure Out where
  st : NetX
  res : XRes
  eops : List EOp
  qev : List QEv
  deriving Repr

/-- `remote_get_virtual_ref(num)` (809-821): the FIRST held handle with that virtual number -/
def getVirtualRef (s : Net) (a : Nat) (num : Nat) : Option Nat :=
  match s.nodes[a]? with
  | none => none
  | some n => n.virt.find? fun h => match s.vqs[h]? with
      | some v => v.num == num
      | none => false

/-- `remote_get_virtual_ref(qc.virt_num)` where `virt_num` may be None (no handle has the number None) -/
def refOf (s : Net) (a : Nat) : Option Nat → Option Nat
  | none => none
  | some k => getVirtualRef s a k

def fail (s : NetX) (r : XRes) : Out := { st := s, res := r, eops := [], qev := [] }

/-- `remote_new_register(maxQubits)` / `remote_add_register(maxQubits)` called by a client (375-421) -/
def stepNewReg (s : NetX) (a max : Nat) : Out :=
  match s.base.nodes[a]? with
  | none => fail s (.res .badCall)
  | some n =>
    -- `self.numRegs >= self.maxRegs` (403): |free| is added on both sides, see the header
    if n.numRegs ≥ n.maxRegs then fail s (.res (.err .quantum))
    else
      { st := { base := modNode s.base a fun n => { n with nextReg := n.nextReg + 1, maxRegs := n.maxRegs - 1 },
                ext := s.ext.modify a fun x => { x with free := x.free ++ [(n.nextReg, max)] } },
        res := .reg n.nextReg, eops := [.newReg a n.nextReg], qev := [] }

/-- `remote_delete_register(reg)` called by a client (423-434).  Deleting a register that still
holds qubits is carried out by the code (and leaves simulated qubits without a register); it is
mirrored here and excluded by the precondition `XOp.Sane` of the invariant theorem. -/
def stepDelReg (s : NetX) (a r : Nat) : Out :=
  match s.base.nodes[a]? with
  | none => fail s (.res .badCall)
  | some n =>
    if (extOf s a).free.any (fun p => p.1 == r) then
      { st := { base := modNode s.base a fun n => { n with maxRegs := n.maxRegs + 1 },
                ext := s.ext.modify a fun x => { x with free := x.free.filter fun p => p.1 != r } },
        res := .res .unit, eops := [.delReg a r], qev := [] }
    else match n.reg? r with
      | some _ => { st := { s with base := modNode s.base a fun n => n.delReg r },
                    res := .res .unit, eops := [.delReg a r], qev := [] }
      | none => fail s .keyError              -- `self.registers.pop(regnum)` (433)

/-- `simulatedQubit.make_fresh` into register `r` of node `a` (which already holds `len` qubits),
the new simulated qubit and the new handle (494-502) -/
def addFreshIn (s : Net) (a : Nat) (n : Node) (r len : Nat) : Net :=
  let simNum := firstFree (simNums s n)
  let newNum := firstFree (virtNums s n)
  let oid := s.sqs.length
  let hid := s.vqs.length
  let tok := s.nextTok
  let s1 : Net :=
    { s with sqs := s.sqs ++ [{ node := a, simNum := simNum, reg := r, pos := len, active := true }],
             vqs := s.vqs ++ [{ virtNode := a, num := newNum, simNode := a, simObj := oid, active := true }],
             nextTok := tok + 1 }
  modNode s1 a fun n => { (n.modReg r fun rg => { rg with toks := rg.toks ++ [tok] }) with
                          sim := n.sim ++ [oid], virt := n.virt ++ [hid] }

/-- move the free register `(r, max)` of node `a` into the base network (still empty) -/
def adoptReg (s : Net) (a r max : Nat) : Net :=
  modNode s a fun n => { n with regs := n.regs ++ [{ num := r, max := max, toks := [] }],
                                numRegs := n.numRegs + 1, maxRegs := n.maxRegs + 1 }

/-- `remote_new_qubit_inreg(reg)` (475-506).  The guard `reg.simNode != self.myID` (482) cannot
fire: Perspective Broker refuses to pass a reference to a broker other than its own, so a client
can only name registers of the node it calls. -/
def stepNewInReg (s : NetX) (a r : Nat) : Out :=
  match s.base.nodes[a]? with
  | none => fail s (.res .badCall)
  | some n =>
    match (extOf s a).free.find? (fun p => p.1 == r), n.reg? r with
    | none, none => fail s (.res (.err .quantum))        -- (repair) not a register of this node any more
    | some p, _ =>
      if n.virt.length ≥ n.maxQubits then fail s (.res (.err .noQubit))       -- 489-491
      else if 0 ≥ p.2 then fail s (.res (.err .noQubit))                      -- add_fresh_qubit: register full
      else
        { st := { base := addFreshIn (adoptReg s.base a r p.2) a n r 0,
                  ext := s.ext.modify a fun x => { x with free := x.free.filter fun p => p.1 != r } },
          res := .res (.handle s.base.vqs.length), eops := [.addFresh a r], qev := [] }
    | none, some rg =>
      if n.virt.length ≥ n.maxQubits then fail s (.res (.err .noQubit))
      else if rg.toks.length ≥ rg.max then fail s (.res (.err .noQubit))
      else
        { st := { s with base := addFreshIn s.base a n r rg.toks.length },
          res := .res (.handle s.base.vqs.length), eops := [.addFresh a r], qev := [] }

def enqueue (s : NetX) (b : Nat) (k : Kind) (sock : Nat) (r : QRec) : NetX :=
  { s with ext := s.ext.modify b fun x => x.setQ k (qapp (x.q k) sock r) }

/-- `remote_netqasm_add_recv_list` / `remote_netqasm_add_epr_list` at node `b` (545-562, 627-646) -/
def stepAdd (s : NetX) (b : Nat) (k : Kind) (r : QRec) : Out :=
  match s.base.nodes[b]? with
  | none => fail s (.res .badCall)
  | some _ => { st := enqueue s b k r.toSock r, res := .res .none, eops := [], qev := [.app b k r.toSock r] }

/-- `remote_netqasm_send_qubit` (508-543) and `remote_netqasm_send_epr_half` with a qubit (586-625):
look the handle up, `remote_send_qubit`, then (target name tested a second time, 526 / 607: it can
only fail if the send returned None for an inactive handle) append at the receiver -/
def stepNqSend (s : NetX) (k : Kind) (a num b app rapp : Nat) (ent : Option Nat) : Out :=
  match s.base.nodes[a]? with
  | none => fail s (.res .badCall)
  | some _ =>
    match getVirtualRef s.base a num with
    | none => fail s .attrError            -- `remote_send_qubit(None, ..)`: `qubit.num` (682)
    | some h =>
      match step s.base (.send h b) with
      | (s1, .num nn, e) =>
        let q : QRec := { frm := a, fromSock := app, toSock := rapp, num := some nn, ent := ent,
                          ghost := getVirtualRef s1 b nn }
        { st := enqueue { s with base := s1 } b k rapp q, res := .res .none, eops := e, qev := [.app b k rapp q] }
      | (s1, .none, e) =>
        -- the send did nothing and returned None (inactive handle): the wrapper goes on
        if b ≥ s1.nodes.length then { st := { s with base := s1 }, res := .res (.err .virtNet), eops := e, qev := [] }
        else
          let q : QRec := { frm := a, fromSock := app, toSock := rapp, num := none, ent := ent, ghost := none }
          { st := enqueue { s with base := s1 } b k rapp q, res := .res .none, eops := e, qev := [.app b k rapp q] }
      | (s1, r, e) => { st := { s with base := s1 }, res := .res r, eops := e, qev := [] }

/-- `remote_netqasm_send_epr_half(None, ..)`: only the outcome of a measure-directly request (598-600) -/
def stepNqOutcome (s : NetX) (a b app rapp ent : Nat) : Out :=
  match s.base.nodes[a]? with
  | none => fail s (.res .badCall)
  | some _ =>
    if b ≥ s.base.nodes.length then fail s (.res (.err .virtNet))          -- 607-610
    else
      let q : QRec := { frm := a, fromSock := app, toSock := rapp, num := none, ent := some ent, ghost := none }
      { st := enqueue s b .epr rapp q, res := .res .none, eops := [], qev := [.app b .epr rapp q] }

/-- `remote_netqasm_get_recv` / `remote_netqasm_get_epr_recv` (564-584, 648-670).  (`if not qc`
(580, 665) cannot fire: a `QubitNetQASM` object is truthy.) -/
def stepGet (s : NetX) (b : Nat) (k : Kind) (sock : Nat) : Out :=
  match s.base.nodes[b]? with
  | none => fail s (.res .badCall)
  | some _ =>
    match queueOf s b k sock with
    | [] => fail s (.ref none)                       -- no such socket, or nothing queued
    | q :: _ =>
      let h := refOf s.base b q.num
      { st := { s with ext := s.ext.modify b fun x => x.setQ k (qpop (x.q k) sock) },
        res := (match k with | .recv => .ref h | .epr => .eprRef h q.ent),
        eops := [], qev := [.pop b k sock q] }

/-- the simulated qubit and register a handle reads, if the simulated qubit is still listed -/
def liveSim (s : Net) (v : VQ) : Option (SQ × Reg) :=
  match s.sqs[v.simObj]?, s.nodes[v.simNode]? with
  | some q, some nd =>
    if nd.sim.contains v.simObj then (nd.reg? q.reg).map fun r => (q, r) else none
  | _, _ => none

def observe (s : Net) : Obs → XRes
  | .virtNum h => match s.vqs[h]? with
    | some v => .res (.num v.num)
    | none => .res .badCall
  | .virtNode h => match s.vqs[h]? with
    | some v => .name v.virtNode
    | none => .res .badCall
  | .simNode h => match s.vqs[h]? with
    | some v => .name v.simNode
    | none => .res .badCall
  | .number h => match s.vqs[h]? with
    | some v => (match liveSim s v with
      | some (q, _) => .res (.num q.pos)
      | none => .unspecified)
    | none => .res .badCall
  | .regRI h => match s.vqs[h]? with
    | some v => (match liveSim s v with
      | some (_, r) => .matrix r.toks.length
      | none => .unspecified)
    | none => .res .badCall
  | .nodeReg h => match s.vqs[h]? with
    | some v =>
      if v.simNode != v.virtNode then .attrError       -- `qubit.simQubit.register` on a RemoteReference (1098)
      else (match liveSim s v with
        | some (q, r) => .regInfo r.toks.length q.reg q.pos
        | none => .unspecified)
    | none => .res .badCall
  | .connections a => match s.nodes[a]? with
    | some _ => .bool true
    | none => .res .badCall
  | .locked a => match s.nodes[a]? with
    | some _ => .bool false                            -- quiescent point: no operation in flight
    | none => .res .badCall

def stepX (s : NetX) : XOp → Out
  | .base op =>
    let (s1, r, e) := step s.base op
    { st := { s with base := s1 }, res := .res r, eops := e, qev := [] }
  | .newReg a max => stepNewReg s a max
  | .delReg a r => stepDelReg s a r
  | .newInReg a r => stepNewInReg s a r
  | .getRef a num => match s.base.nodes[a]? with
    | none => fail s (.res .badCall)
    | some _ => fail s (.ref (getVirtualRef s.base a num))
  | .nqSend a num b app rapp => stepNqSend s .recv a num b app rapp none
  | .nqSendEpr a (some num) b app rapp ent => stepNqSend s .epr a num b app rapp (some ent)
  | .nqSendEpr a none b app rapp ent => stepNqOutcome s a b app rapp ent
  | .addRecv b frm fs ts num =>
    stepAdd s b .recv { frm := frm, fromSock := fs, toSock := ts, num := num, ent := none, ghost := none }
  | .addEpr b frm fs ts num ent =>
    stepAdd s b .epr { frm := frm, fromSock := fs, toSock := ts, num := num, ent := some ent, ghost := none }
  | .getRecv b sock => stepGet s b .recv sock
  | .getEprRecv b sock => stepGet s b .epr sock
  | .obs o => fail s (observe s.base o)

/-- run a program; results and queue events in order -/
def runX (s : NetX) : List XOp → NetX × List XRes × List QEv
  | [] => (s, [], [])
  | op :: ops =>
    let o := stepX s op
    let (s2, rs, evs) := runX o.st ops
    (s2, o.res :: rs, o.qev ++ evs)

/-- the records appended to / popped from one queue, in order -/
def appended (i : Nat) (k : Kind) (sock : Nat) : List QEv → List QRec
  | [] => []
  | .app n k' so r :: evs =>
    if n = i ∧ k' = k ∧ so = sock then r :: appended i k sock evs else appended i k sock evs
  | .pop _ _ _ _ :: evs => appended i k sock evs

def popped (i : Nat) (k : Kind) (sock : Nat) : List QEv → List QRec
  | [] => []
  | .pop n k' so r :: evs =>
    if n = i ∧ k' = k ∧ so = sock then r :: popped i k sock evs else popped i k sock evs
  | .app _ _ _ _ :: evs => popped i k sock evs

end SqVerif.VNetX

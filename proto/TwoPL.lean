/-! Prototype: generic two-phase-locking serializability (static guards). -/
namespace TwoPL

abbrev Tid := Nat
abbrev Lock := Nat
abbrev Res := Nat

variable {V : Type}

abbrev St (V : Type) := Res → V

inductive Act (V : Type) where
  | acq : Lock → Act V
  | rel : Lock → Act V
  | eff : List Res → (St V → St V) → Act V

structure Step (V : Type) where
  tid : Tid
  act : Act V

abbrev Sched (V : Type) := List (Step V)

def Act.run : Act V → St V → St V
  | .eff _ f, s => f s
  | _, s => s

def exec : Sched V → St V → St V
  | [], s => s
  | x :: xs, s => exec xs (x.act.run s)

/-- an effect is local to its footprint -/
def LocalEff (fp : List Res) (f : St V → St V) : Prop :=
  (∀ s r, r ∉ fp → f s r = s r) ∧
  (∀ s s', (∀ r, r ∈ fp → s r = s' r) → ∀ r, r ∈ fp → f s r = f s' r)

def Act.fp : Act V → List Res
  | .eff fp _ => fp
  | _ => []

def Act.WF : Act V → Prop
  | .eff fp f => LocalEff fp f
  | _ => True

def Disjoint (a b : List Res) : Prop := ∀ r, r ∈ a → r ∉ b

theorem run_comm (a b : Act V) (ha : a.WF) (hb : b.WF) (hd : Disjoint a.fp b.fp) (s : St V) :
    b.run (a.run s) = a.run (b.run s) := by
  cases a with
  | acq _ => rfl
  | rel _ => rfl
  | eff fa f =>
    cases b with
    | acq _ => rfl
    | rel _ => rfl
    | eff fb g =>
      simp only [Act.run]
      simp only [Act.fp] at hd
      obtain ⟨hf1, hf2⟩ := ha
      obtain ⟨hg1, hg2⟩ := hb
      funext r
      by_cases hra : r ∈ fa
      · have hrb : r ∉ fb := hd r hra
        rw [hg1 _ _ hrb]
        apply hf2 _ _ _ r hra
        intro r' hr'
        exact (hg1 s r' (hd r' hr')).symm
      · rw [hf1 _ _ hra]
        by_cases hrb : r ∈ fb
        · apply hg2 _ _ _ r hrb
          intro r' hr'
          have : r' ∉ fa := fun h => hd r' h hr'
          exact hf1 s r' this
        · rw [hg1 _ _ hrb, hg1 _ _ hrb, hf1 _ _ hra]

/-! ### sorting by rank preserves exec when inversions commute -/

def Commute (x y : Step V) : Prop := ∀ s, y.act.run (x.act.run s) = x.act.run (y.act.run s)

def insertR (rank : Tid → Nat) (x : Step V) : Sched V → Sched V
  | [] => [x]
  | y :: ys => if rank x.tid ≤ rank y.tid then x :: y :: ys else y :: insertR rank x ys

def sortR (rank : Tid → Nat) : Sched V → Sched V
  | [] => []
  | x :: xs => insertR rank x (sortR rank xs)

/-- every later step with strictly smaller rank commutes with the earlier one -/
def InvC (rank : Tid → Nat) : Sched V → Prop
  | [] => True
  | x :: xs => (∀ y, y ∈ xs → rank y.tid < rank x.tid → Commute x y) ∧ InvC rank xs

theorem mem_insertR (rank : Tid → Nat) (x y : Step V) (l : Sched V) :
    y ∈ insertR rank x l ↔ y = x ∨ y ∈ l := by
  induction l with
  | nil => simp [insertR]
  | cons z zs ih =>
    simp only [insertR]
    split
    · simp
    · simp [ih]; constructor
      · rintro (h | h | h) <;> simp [h]
      · rintro (h | h | h) <;> simp [h]

theorem mem_sortR (rank : Tid → Nat) (y : Step V) (l : Sched V) : y ∈ sortR rank l ↔ y ∈ l := by
  induction l with
  | nil => simp [sortR]
  | cons x xs ih => simp [sortR, mem_insertR, ih]

theorem exec_insertR (rank : Tid → Nat) (x : Step V) (l : Sched V)
    (h : ∀ y, y ∈ l → rank y.tid < rank x.tid → Commute x y) (s : St V) :
    exec (insertR rank x l) s = exec (x :: l) s := by
  induction l generalizing s with
  | nil => rfl
  | cons y ys ih =>
    simp only [insertR]
    split
    · rfl
    · rename_i hlt
      have hc : Commute x y := h y (by simp) (by omega)
      simp only [exec]
      rw [ih (fun z hz => h z (by simp [hz])) ]
      simp only [exec]
      rw [hc s]

theorem exec_sortR (rank : Tid → Nat) (l : Sched V) (h : InvC rank l) (s : St V) :
    exec (sortR rank l) s = exec l s := by
  induction l generalizing s with
  | nil => rfl
  | cons x xs ih =>
    obtain ⟨hx, hxs⟩ := h
    simp only [sortR]
    rw [exec_insertR rank x _ (fun y hy => hx y ((mem_sortR rank y xs).1 hy))]
    simp only [exec]
    exact ih hxs _

end TwoPL

/-
L0 — Pauli strings with i-phases (exponent of i as `Nat`, compared mod 4), the
string product, the commutation character, ordered products of selected rows,
and the central lemma `prodSel_xor`: for pairwise commuting Hermitian rows the
selection map is a homomorphism from (Bool^k, xor).  Core Lean only.
-/
namespace SqVerif.Stab

abbrev P1 := Bool × Bool

/-- exponent of i picked up by the product of Hermitian letters a·b -/
def iexp (a b : P1) : Nat :=
  match a, b with
  | (true,false),(true,true) => 1   -- X·Y = iZ
  | (true,true),(false,true) => 1   -- Y·Z = iX
  | (false,true),(true,false) => 1  -- Z·X = iY
  | (true,true),(true,false) => 3
  | (false,true),(true,true) => 3
  | (true,false),(false,true) => 3
  | _, _ => 0

def mul1 (a b : P1) : P1 := (a.1 != b.1, a.2 != b.2)
/-- letters anticommute -/
def anti1 (a b : P1) : Bool := (a.1 && b.2) != (a.2 && b.1)

def b2n (b : Bool) : Nat := if b then 1 else 0
@[simp] theorem b2n_true : b2n true = 1 := rfl
@[simp] theorem b2n_false : b2n false = 0 := rfl

theorem iexp_swap (a b : P1) : (iexp a b + 2 * b2n (anti1 a b)) % 4 = iexp b a % 4 := by
  rcases a with ⟨a1,a2⟩; rcases b with ⟨b1,b2⟩
  cases a1 <;> cases a2 <;> cases b1 <;> cases b2 <;> decide

theorem iexp_assoc (a b c : P1) : (iexp a b + iexp (mul1 a b) c) % 4 = (iexp b c + iexp a (mul1 b c)) % 4 := by
  rcases a with ⟨a1,a2⟩; rcases b with ⟨b1,b2⟩; rcases c with ⟨c1,c2⟩
  cases a1 <;> cases a2 <;> cases b1 <;> cases b2 <;> cases c1 <;> cases c2 <;> decide

theorem mul1_assoc (a b c : P1) : mul1 (mul1 a b) c = mul1 a (mul1 b c) := by
  rcases a with ⟨a1,a2⟩; rcases b with ⟨b1,b2⟩; rcases c with ⟨c1,c2⟩
  cases a1 <;> cases a2 <;> cases b1 <;> cases b2 <;> cases c1 <;> cases c2 <;> rfl

theorem mul1_comm (a b : P1) : mul1 a b = mul1 b a := by
  rcases a with ⟨a1,a2⟩; rcases b with ⟨b1,b2⟩
  cases a1 <;> cases a2 <;> cases b1 <;> cases b2 <;> rfl

theorem mul1_self (a : P1) : mul1 a a = (false,false) := by
  rcases a with ⟨a1,a2⟩; cases a1 <;> cases a2 <;> rfl
theorem iexp_self (a : P1) : iexp a a = 0 := by
  rcases a with ⟨a1,a2⟩; cases a1 <;> cases a2 <;> rfl
theorem anti1_mul (a b c : P1) : anti1 a (mul1 b c) = (anti1 a b != anti1 a c) := by
  rcases a with ⟨a1,a2⟩; rcases b with ⟨b1,b2⟩; rcases c with ⟨c1,c2⟩
  cases a1 <;> cases a2 <;> cases b1 <;> cases b2 <;> cases c1 <;> cases c2 <;> rfl

/-- letterwise product, phase exponent and anticommutation parity of two strings (zip semantics) -/
def mulL : List P1 → List P1 → List P1
  | a :: as, b :: bs => mul1 a b :: mulL as bs
  | _, _ => []
def phL : List P1 → List P1 → Nat
  | a :: as, b :: bs => iexp a b + phL as bs
  | _, _ => 0
def antiL : List P1 → List P1 → Bool
  | a :: as, b :: bs => anti1 a b != antiL as bs
  | _, _ => false

structure POp where
  ph : Nat
  ps : List P1

def POp.mul (p q : POp) : POp := ⟨p.ph + q.ph + phL p.ps q.ps, mulL p.ps q.ps⟩
def POp.eqv (p q : POp) : Prop := p.ps = q.ps ∧ p.ph % 4 = q.ph % 4
infixl:70 " ⋆ " => POp.mul
infix:50 " ≈ₚ " => POp.eqv

theorem eqv_refl (p : POp) : p ≈ₚ p := ⟨rfl, rfl⟩
theorem eqv_symm {p q : POp} (h : p ≈ₚ q) : q ≈ₚ p := ⟨h.1.symm, h.2.symm⟩
theorem eqv_trans {p q r : POp} (h : p ≈ₚ q) (h' : q ≈ₚ r) : p ≈ₚ r := ⟨h.1.trans h'.1, h.2.trans h'.2⟩

theorem mulL_length (as bs : List P1) (h : as.length = bs.length) : (mulL as bs).length = as.length := by
  induction as generalizing bs with
  | nil => cases bs <;> simp_all [mulL]
  | cons a as ih => cases bs with
    | nil => simp at h
    | cons b bs => simp [mulL, ih bs (by simpa using h)]

theorem mulL_assoc (as bs cs : List P1) : mulL (mulL as bs) cs = mulL as (mulL bs cs) := by
  induction as generalizing bs cs with
  | nil => cases bs <;> cases cs <;> simp [mulL]
  | cons a as ih =>
    cases bs with
    | nil => cases cs <;> simp [mulL]
    | cons b bs => cases cs with
      | nil => simp [mulL]
      | cons c cs => simp [mulL, mul1_assoc, ih]

theorem phL_assoc (as bs cs : List P1) (h1 : as.length = bs.length) (h2 : bs.length = cs.length) :
    (phL as bs + phL (mulL as bs) cs) % 4 = (phL bs cs + phL as (mulL bs cs)) % 4 := by
  induction as generalizing bs cs with
  | nil => cases bs <;> cases cs <;> simp_all [mulL, phL]
  | cons a as ih =>
    cases bs with
    | nil => simp at h1
    | cons b bs => cases cs with
      | nil => simp at h2
      | cons c cs =>
        have := ih bs cs (by simpa using h1) (by simpa using h2)
        have h3 := iexp_assoc a b c
        simp only [mulL, phL]
        omega

theorem mul_assoc (p q r : POp) (h1 : p.ps.length = q.ps.length) (h2 : q.ps.length = r.ps.length) :
    (p ⋆ q) ⋆ r ≈ₚ p ⋆ (q ⋆ r) := by
  refine ⟨mulL_assoc _ _ _, ?_⟩
  have := phL_assoc p.ps q.ps r.ps h1 h2
  simp only [POp.mul]
  omega

theorem mulL_comm (as bs : List P1) : mulL as bs = mulL bs as := by
  induction as generalizing bs with
  | nil => cases bs <;> simp [mulL]
  | cons a as ih => cases bs with
    | nil => simp [mulL]
    | cons b bs => simp [mulL, mul1_comm a b, ih]

theorem phL_swap (as bs : List P1) : (phL as bs + 2 * b2n (antiL as bs)) % 4 = phL bs as % 4 := by
  induction as generalizing bs with
  | nil => cases bs <;> simp [phL, antiL]
  | cons a as ih =>
    cases bs with
    | nil => simp [phL, antiL]
    | cons b bs =>
      have h1 := ih bs
      have h2 := iexp_swap a b
      simp only [phL, antiL]
      cases hA : anti1 a b <;> cases hB : antiL as bs <;> rw [hA] at h2 <;> rw [hB] at h1 <;>
        simp only [b2n_true, b2n_false, bne_self_eq_false, Bool.true_bne, Bool.false_bne, Bool.not_true, Bool.not_false] at * <;> omega

/-- commuting strings: swapping the factors is exact -/
theorem mul_comm_of_commute (p q : POp) (h : antiL p.ps q.ps = false) : p ⋆ q ≈ₚ q ⋆ p := by
  refine ⟨mulL_comm _ _, ?_⟩
  have := phL_swap p.ps q.ps
  rw [h] at this
  simp only [POp.mul, b2n_false] at *
  omega




def I1 : P1 := (false,false)
def one (n : Nat) : POp := ⟨0, List.replicate n I1⟩
def POp.len (p : POp) : Nat := p.ps.length

theorem mul_congr {p p' q q' : POp} (h1 : p ≈ₚ p') (h2 : q ≈ₚ q') : p ⋆ q ≈ₚ p' ⋆ q' := by
  obtain ⟨a1, a2⟩ := h1; obtain ⟨b1, b2⟩ := h2
  refine ⟨by simp [POp.mul, a1, b1], ?_⟩
  simp only [POp.mul, a1, b1]; omega

theorem mul_len (p q : POp) (h : p.len = q.len) : (p ⋆ q).len = p.len := mulL_length _ _ h

theorem mulL_one_left (n : Nat) (as : List P1) (h : as.length = n) : mulL (List.replicate n I1) as = as := by
  induction n generalizing as with
  | zero => cases as <;> simp_all [mulL]
  | succ n ih => cases as with
    | nil => simp at h
    | cons a as =>
      simp only [List.replicate, mulL, ih as (by simpa using h)]
      rcases a with ⟨a1,a2⟩; cases a1 <;> cases a2 <;> rfl
theorem phL_one_left (n : Nat) (as : List P1) : phL (List.replicate n I1) as = 0 := by
  induction n generalizing as with
  | zero => cases as <;> simp [phL]
  | succ n ih => cases as with
    | nil => simp [List.replicate, phL]
    | cons a as =>
      simp only [List.replicate, phL, ih as]
      rcases a with ⟨a1,a2⟩; cases a1 <;> cases a2 <;> rfl
theorem one_mul (n : Nat) (p : POp) (h : p.len = n) : one n ⋆ p ≈ₚ p := by
  refine ⟨mulL_one_left n p.ps h, ?_⟩
  simp [POp.mul, one, phL_one_left]

theorem mulL_self (as : List P1) : mulL as as = List.replicate as.length I1 := by
  induction as with
  | nil => rfl
  | cons a as ih => simp [mulL, mul1_self, ih, List.replicate, I1]
theorem phL_self (as : List P1) : phL as as = 0 := by
  induction as with
  | nil => rfl
  | cons a as ih => simp [phL, iexp_self, ih]
/-- Hermitian strings (phase ±1) square to the identity -/
theorem mul_self (p : POp) (h : p.ph % 2 = 0) : p ⋆ p ≈ₚ one p.len := by
  refine ⟨mulL_self _, ?_⟩
  simp only [POp.mul, one, phL_self]; omega

theorem antiL_mul (as bs cs : List P1) (h : bs.length = cs.length) (h' : as.length = bs.length) :
    antiL as (mulL bs cs) = (antiL as bs != antiL as cs) := by
  induction as generalizing bs cs with
  | nil => cases bs <;> cases cs <;> simp [antiL, mulL]
  | cons a as ih =>
    cases bs with
    | nil => simp at h'
    | cons b bs => cases cs with
      | nil => simp at h
      | cons c cs =>
        simp only [antiL, mulL, anti1_mul, ih bs cs (by simpa using h) (by simpa using h')]
        cases anti1 a b <;> cases anti1 a c <;> cases antiL as bs <;> cases antiL as cs <;> rfl
theorem antiL_one (as : List P1) (n : Nat) : antiL as (List.replicate n I1) = false := by
  induction as generalizing n with
  | nil => cases n <;> simp [antiL, List.replicate]
  | cons a as ih => cases n with
    | zero => simp [antiL, List.replicate]
    | succ n =>
      simp only [List.replicate, antiL, ih n]
      rcases a with ⟨a1,a2⟩; cases a1 <;> cases a2 <;> rfl

/-- ordered product of the selected rows -/
def prodSel (n : Nat) : List Bool → List POp → POp
  | c :: cs, r :: rs => if c then r ⋆ prodSel n cs rs else prodSel n cs rs
  | _, _ => one n

def xorL : List Bool → List Bool → List Bool
  | a :: as, b :: bs => (a != b) :: xorL as bs
  | _, _ => []

/-- rows: all of width n, Hermitian -/
def RowsOK (n : Nat) (g : List POp) : Prop := ∀ r, r ∈ g → r.len = n ∧ r.ph % 2 = 0
def CommWith (r : POp) (g : List POp) : Prop := ∀ q, q ∈ g → antiL r.ps q.ps = false
def PairComm : List POp → Prop
  | [] => True
  | r :: rs => CommWith r rs ∧ PairComm rs

theorem prodSel_len (n : Nat) (c : List Bool) (g : List POp) (h : RowsOK n g) : (prodSel n c g).len = n := by
  induction g generalizing c with
  | nil => cases c <;> simp [prodSel, one, POp.len]
  | cons r rs ih =>
    cases c with
    | nil => simp [prodSel, one, POp.len]
    | cons a cs =>
      have hr := (h r (by simp)).1
      have hrs : RowsOK n rs := fun q hq => h q (by simp [hq])
      simp only [prodSel]
      split
      · rw [mul_len _ _ (by rw [hr, ih cs hrs])]; exact hr
      · exact ih cs hrs

theorem comm_prodSel (n : Nat) (r : POp) (c : List Bool) (g : List POp) (hr : r.len = n) (h : RowsOK n g)
    (hc : CommWith r g) : antiL r.ps (prodSel n c g).ps = false := by
  induction g generalizing c with
  | nil => cases c <;> simp [prodSel, one, antiL_one]
  | cons q qs ih =>
    cases c with
    | nil => simp [prodSel, one, antiL_one]
    | cons a cs =>
      have hqs : RowsOK n qs := fun x hx => h x (by simp [hx])
      have hcs : CommWith r qs := fun x hx => hc x (by simp [hx])
      have hq := (h q (by simp)).1
      simp only [prodSel]
      split
      · have hl := prodSel_len n cs qs hqs
        show antiL r.ps (mulL q.ps (prodSel n cs qs).ps) = false
        rw [antiL_mul _ _ _ (by simpa [POp.len] using hq.trans hl.symm) (by simpa [POp.len] using hr.trans hq.symm)]
        rw [hc q (by simp), ih cs hqs hcs]; rfl
      · exact ih cs hqs hcs

/-- **the selection map is a homomorphism** for pairwise commuting Hermitian rows -/
theorem prodSel_xor (n : Nat) (c d : List Bool) (g : List POp) (hlen : c.length = g.length) (hlen' : d.length = g.length)
    (h : RowsOK n g) (hpc : PairComm g) :
    prodSel n (xorL c d) g ≈ₚ prodSel n c g ⋆ prodSel n d g := by
  induction g generalizing c d with
  | nil =>
    cases c <;> cases d <;> simp_all [prodSel, xorL]
    exact eqv_symm (one_mul n (one n) (by simp [one, POp.len]))
  | cons r rs ih =>
    cases c with
    | nil => simp at hlen
    | cons a cs => cases d with
      | nil => simp at hlen'
      | cons b ds =>
        have hrs : RowsOK n rs := fun q hq => h q (by simp [hq])
        obtain ⟨hcr, hpcs⟩ := hpc
        have hr := h r (by simp)
        have IH := ih cs ds (by simpa using hlen) (by simpa using hlen') hrs hpcs
        have lP := prodSel_len n cs rs hrs
        have lQ := prodSel_len n ds rs hrs
        have lPQ : (prodSel n cs rs ⋆ prodSel n ds rs).len = n := by rw [mul_len _ _ (by rw [lP, lQ])]; exact lP
        have cP := comm_prodSel n r cs rs hr.1 hrs hcr
        have cQ := comm_prodSel n r ds rs hr.1 hrs hcr
        simp only [prodSel, xorL]
        generalize hP : prodSel n cs rs = P at *
        generalize hQ : prodSel n ds rs = Q at *
        cases a <;> cases b <;> simp only [Bool.false_eq_true, if_false, if_true, bne_self_eq_false, Bool.false_bne, Bool.true_bne, Bool.not_true, Bool.not_false, bne_iff_ne, ne_eq, not_true, not_false_eq_true]
        · exact IH
        · -- r^(1) : r ⋆ X  vs  P ⋆ (r ⋆ Q)
          refine eqv_trans (mul_congr (eqv_refl r) IH) ?_
          -- r ⋆ (P ⋆ Q) ≈ (r ⋆ P) ⋆ Q ≈ (P ⋆ r) ⋆ Q ≈ P ⋆ (r ⋆ Q)
          refine eqv_trans (eqv_symm (mul_assoc r P Q (by simpa [POp.len] using hr.1.trans lP.symm) (by simpa [POp.len] using lP.trans lQ.symm))) ?_
          refine eqv_trans (mul_congr (mul_comm_of_commute r P cP) (eqv_refl Q)) ?_
          exact mul_assoc P r Q (by simpa [POp.len] using lP.trans hr.1.symm) (by simpa [POp.len] using hr.1.trans lQ.symm)
        · refine eqv_trans (mul_congr (eqv_refl r) IH) ?_
          exact eqv_symm (mul_assoc r P Q (by simpa [POp.len] using hr.1.trans lP.symm) (by simpa [POp.len] using lP.trans lQ.symm))
        · -- P ⋆ Q  vs (r ⋆ P) ⋆ (r ⋆ Q)
          refine eqv_trans IH ?_
          apply eqv_symm
          have lrQ : (r ⋆ Q).len = n := by rw [mul_len _ _ (by rw [hr.1, lQ])]; exact hr.1
          -- (r⋆P)⋆(r⋆Q) ≈ r⋆(P⋆(r⋆Q))
          refine eqv_trans (mul_assoc r P (r ⋆ Q) (by simpa [POp.len] using hr.1.trans lP.symm) (by simpa [POp.len] using lP.trans lrQ.symm)) ?_
          -- P⋆(r⋆Q) ≈ (P⋆r)⋆Q ≈ (r⋆P)⋆Q ≈ r⋆(P⋆Q)
          have e1 : P ⋆ (r ⋆ Q) ≈ₚ r ⋆ (P ⋆ Q) := by
            refine eqv_trans (eqv_symm (mul_assoc P r Q (by simpa [POp.len] using lP.trans hr.1.symm) (by simpa [POp.len] using hr.1.trans lQ.symm))) ?_
            refine eqv_trans (mul_congr (eqv_symm (mul_comm_of_commute r P cP)) (eqv_refl Q)) ?_
            exact mul_assoc r P Q (by simpa [POp.len] using hr.1.trans lP.symm) (by simpa [POp.len] using lP.trans lQ.symm)
          refine eqv_trans (mul_congr (eqv_refl r) e1) ?_
          -- r⋆(r⋆(P⋆Q)) ≈ (r⋆r)⋆(P⋆Q) ≈ one ⋆ (P⋆Q) ≈ P⋆Q
          refine eqv_trans (eqv_symm (mul_assoc r r (P ⋆ Q) rfl (by simpa [POp.len] using hr.1.trans lPQ.symm))) ?_
          refine eqv_trans (mul_congr (mul_self r hr.2) (eqv_refl _)) ?_
          rw [hr.1]
          exact one_mul n _ lPQ

end SqVerif.Stab

"""AST translator for C19: simulaqron/virtual_node/quantum.py -> lean/SqVerif/Gen/NoiseCalls.lean

For every method of `simulatedQubit` that calls a state-acting engine method
(`self.register.apply_*` / `self.register.measure_*`) it records

  noiseFirst   `self._apply_random_pauli_noise()` is an unconditional statement
               of the method body, every engine call of the method comes
               after it, and NO statement before it can leave the method
               (no `return` / `raise` / `yield` / `await` anywhere inside the
               statements that precede it, no loop or `try` or `with` or
               `match` there either): the hook is reached on every path, so
               an "identity shortcut" / early refusal in front of it makes
               the obligation fail
  exitsBefore  number of such statements in front of the hook (0 required)
  engineCalls  [(engine method, first argument is `self.num`)]
  unrecognised the method uses `self.register` in a way the translator does not
               understand (aliasing it, passing it on, ...): every obligation
               over the table then fails, it never passes silently

and for `_apply_random_pauli_noise` itself: whether its first statement is the
`if not self.noisy: return` guard, its engine calls with "the argument list is
exactly (self.num)", and the attributes of `self` it assigns.

The theorems over this table live in lean/SqVerif/Props/C19.lean and are
re-checked by `decide` on every run."""
import ast
import os

CLASS = "simulatedQubit"
NOISE = "_apply_random_pauli_noise"
SRC = "simulaqron/virtual_node/quantum.py"
OUT = "SqVerif/Gen/NoiseCalls.lean"
# attribute reads of the register that do not touch the quantum state
HARMLESS_REGISTER_ATTRS = {"num", "activeQubits", "maxQubits"}


def _is_self_attr(node, attr=None):
    return (isinstance(node, ast.Attribute) and isinstance(node.value, ast.Name) and node.value.id == "self"
            and (attr is None or node.attr == attr))


def _is_state_acting(name):
    return name.startswith("apply_") or name.startswith("measure_")


def _without_docstring(body):
    if body and isinstance(body[0], ast.Expr) and isinstance(body[0].value, ast.Constant) \
            and isinstance(body[0].value.value, str):
        return body[1:]
    return body


def _aliases(fn):
    """local names bound exactly once in the method, to `self.register` / `self.num`
    (plain `a = self.register` or pairwise tuple assignment)"""
    stores = {}
    for n in ast.walk(fn):
        if isinstance(n, ast.Name) and isinstance(n.ctx, (ast.Store, ast.Del)):
            stores[n.id] = stores.get(n.id, 0) + 1
    for a in fn.args.args + fn.args.kwonlyargs + fn.args.posonlyargs:
        stores[a.arg] = stores.get(a.arg, 0) + 1
    reg, num = set(), set()
    for n in ast.walk(fn):
        if not isinstance(n, ast.Assign) or len(n.targets) != 1:
            continue
        tg, val = n.targets[0], n.value
        pairs = []
        if isinstance(tg, ast.Name):
            pairs = [(tg, val)]
        elif isinstance(tg, ast.Tuple) and isinstance(val, ast.Tuple) and len(tg.elts) == len(val.elts):
            pairs = [(t, v) for t, v in zip(tg.elts, val.elts) if isinstance(t, ast.Name)]
        for t, v in pairs:
            if stores.get(t.id) != 1:
                continue
            if _is_self_attr(v, "register"):
                reg.add(t.id)
            elif _is_self_attr(v, "num"):
                num.add(t.id)
    return reg, num


def _assigned_self_attrs(fn):
    out = []
    for n in ast.walk(fn):
        tg = []
        if isinstance(n, ast.Assign):
            tg = n.targets
        elif isinstance(n, (ast.AugAssign, ast.AnnAssign)):
            tg = [n.target]
        elif isinstance(n, ast.Delete):
            tg = n.targets
        for t in tg:
            for x in ast.walk(t):
                if _is_self_attr(x):
                    out.append(x.attr)
    return sorted(set(out))


def _register_uses(fn):
    """-> (engine calls [(name, args, node)], other calls on the register, unrecognised uses, is_num predicate)"""
    parents = {}
    for p in ast.walk(fn):
        for c in ast.iter_child_nodes(p):
            parents[c] = p
    reg_alias, num_alias = _aliases(fn)

    def is_reg(n):
        return _is_self_attr(n, "register") or (isinstance(n, ast.Name) and isinstance(n.ctx, ast.Load) and n.id in reg_alias)

    def is_num(n):
        return _is_self_attr(n, "num") or (isinstance(n, ast.Name) and isinstance(n.ctx, ast.Load) and n.id in num_alias)

    calls, other_calls, bad = [], [], 0
    for n in ast.walk(fn):
        if not is_reg(n):
            continue
        par = parents.get(n)
        if isinstance(par, ast.Attribute) and par.value is n:
            gp = parents.get(par)
            if isinstance(gp, ast.Call) and gp.func is par:
                (calls if _is_state_acting(par.attr) else other_calls).append((par.attr, gp.args, gp))
            elif par.attr in HARMLESS_REGISTER_ATTRS and isinstance(par.ctx, ast.Load):
                pass
            else:
                bad += 1          # bound method taken without calling it, unknown attribute, store
        elif isinstance(par, ast.Return) and par.value is n:
            pass                  # remote_get_register hands the engine out; no state-acting call here
        elif isinstance(par, ast.Assign) and par.value is n and len(par.targets) == 1 \
                and isinstance(par.targets[0], ast.Name) and par.targets[0].id in reg_alias:
            pass                  # the single binding of a recognised alias
        elif isinstance(par, ast.Tuple) and isinstance(parents.get(par), ast.Assign) and parents[par].value is par \
                and isinstance(parents[par].targets[0], ast.Tuple) \
                and len(parents[par].targets[0].elts) == len(par.elts) \
                and isinstance(parents[par].targets[0].elts[par.elts.index(n)], ast.Name) \
                and parents[par].targets[0].elts[par.elts.index(n)].id in reg_alias:
            pass                  # same, inside a pairwise tuple assignment
        else:
            bad += 1              # passed on / stored elsewhere
    # rebinding the attributes the table talks about makes `self.num` / `self.register` ambiguous
    if any(a in ("num", "register") for a in _assigned_self_attrs(fn)):
        bad += 1
    return calls, other_calls, bad, is_num


def _noise_sites(fn):
    """indices of top-level statements that are exactly `self._apply_random_pauli_noise()`, and the
    number of all call sites of it anywhere in the method"""
    body = fn.body
    top = []
    for i, st in enumerate(body):
        if isinstance(st, ast.Expr) and isinstance(st.value, ast.Call) and _is_self_attr(st.value.func, NOISE) \
                and not st.value.args and not st.value.keywords:
            top.append(i)
    total = sum(1 for n in ast.walk(fn) if isinstance(n, ast.Call) and _is_self_attr(n.func, NOISE))
    return top, total


# statements that may stand in front of the hook: straight-line code that always falls through to the next statement
_LEAVES = (ast.Return, ast.Raise, ast.Yield, ast.YieldFrom, ast.Await, ast.Break, ast.Continue)
_OPAQUE = (ast.For, ast.AsyncFor, ast.While, ast.Try, ast.With, ast.AsyncWith, ast.FunctionDef, ast.AsyncFunctionDef,
           ast.ClassDef, ast.Lambda) + tuple(getattr(ast, n) for n in ("Match", "TryStar") if hasattr(ast, n))


def _can_leave(st):
    """the statement may end the method (or skip what follows it) instead of falling through"""
    if isinstance(st, ast.Assert):
        return True
    return any(isinstance(n, _LEAVES + _OPAQUE) for n in ast.walk(st))


def _exits_before(fn, idx):
    """number of statements of the method body in front of statement `idx` that can leave the method"""
    return sum(1 for st in fn.body[:idx] if _can_leave(st))


def _top_index(fn, node):
    for i, st in enumerate(fn.body):
        for n in ast.walk(st):
            if n is node:
                return i
    return -1


def extract(src_text):
    tree = ast.parse(src_text)
    cls = next((n for n in tree.body if isinstance(n, ast.ClassDef) and n.name == CLASS), None)
    if cls is None:
        return {"ops": [], "noise": None}
    ops, noise = [], None
    for fn in cls.body:
        if not isinstance(fn, (ast.FunctionDef, ast.AsyncFunctionDef)):
            continue
        calls, _other, bad, is_num = _register_uses(fn)
        if fn.name == NOISE:
            body = _without_docstring(fn.body)
            guard = False
            if body and isinstance(body[0], ast.If):
                t = body[0].test
                guard = (isinstance(t, ast.UnaryOp) and isinstance(t.op, ast.Not) and _is_self_attr(t.operand, "noisy")
                         and bool(body[0].body) and isinstance(body[0].body[0], ast.Return)
                         and body[0].body[0].value is None and not body[0].orelse)
            assigns = _assigned_self_attrs(fn)
            noise = {
                "line": fn.lineno,
                "guardFirst": guard,
                "engineCalls": [(name, len(args) == 1 and is_num(args[0])) for name, args, _ in calls],
                "assigns": assigns,
                "unrecognised": bad > 0,
            }
            continue
        if not calls:
            continue
        top, total = _noise_sites(fn)
        first_engine = min(_top_index(fn, node) for _, _, node in calls)
        exits = _exits_before(fn, top[0]) if top else 0
        noise_first = bool(top) and top[0] < first_engine and exits == 0
        ops.append({
            "name": fn.name,
            "line": fn.lineno,
            "noiseFirst": noise_first,
            "exitsBefore": exits,
            "noiseCalls": total,
            "engineCalls": [(name, bool(args) and is_num(args[0])) for name, args, _ in calls],
            "unrecognised": bad > 0,
        })
    return {"ops": ops, "noise": noise}


def _b(x):
    return "true" if x else "false"


def _calls(cs):
    return "[" + ", ".join('("%s", %s)' % (n, _b(ok)) for n, ok in cs) + "]"


def render(tab):
    out = []
    w = out.append
    w("/- GENERATED on every run by harness/gen/noise_calls.py from %s — do not edit." % SRC)
    w("   Facts read off the Python AST; the obligations over them are in Props/C19.lean. -/")
    w("namespace SqVerif.Gen.NoiseCalls")
    w("")
    w("/-- a method of `simulatedQubit` that calls `self.register.apply_*` / `measure_*` -/")
    w("structure OpMethod where")
    w("  name : String")
    w("  line : Nat")
    w("  /-- `self._apply_random_pauli_noise()` is an unconditional statement before every engine call, and no")
    w("  statement in front of it can leave the method (no return / raise / yield / loop / try): reached on every path -/")
    w("  noiseFirst : Bool")
    w("  /-- number of call sites of `_apply_random_pauli_noise` in the method -/")
    w("  noiseCalls : Nat")
    w("  /-- (engine method, its first argument is `self.num`) -/")
    w("  engineCalls : List (String × Bool)")
    w("  /-- `self.register` is used in a way the translator does not understand -/")
    w("  unrecognised : Bool")
    w("")
    w("def opMethods : List OpMethod := [")
    rows = []
    for m in tab["ops"]:
        rows.append('  { name := "%s", line := %d, noiseFirst := %s, noiseCalls := %d,\n    engineCalls := %s, unrecognised := %s }'
                    % (m["name"], m["line"], _b(m["noiseFirst"]), m["noiseCalls"], _calls(m["engineCalls"]),
                       _b(m["unrecognised"])))
    w(",\n".join(rows))
    w("]")
    w("")
    w("/-- `_apply_random_pauli_noise` itself -/")
    w("structure NoiseMethod where")
    w("  present : Bool")
    w("  /-- its first statement is `if not self.noisy: return` -/")
    w("  guardFirst : Bool")
    w("  /-- (engine method, the argument list is exactly `(self.num)`) -/")
    w("  engineCalls : List (String × Bool)")
    w("  /-- attributes of `self` it assigns -/")
    w("  assigns : List String")
    w("  unrecognised : Bool")
    w("")
    n = tab["noise"]
    if n is None:
        w("def noiseMethod : NoiseMethod :=")
        w("  { present := false, guardFirst := false, engineCalls := [], assigns := [], unrecognised := true }")
    else:
        w("def noiseMethod : NoiseMethod :=")
        w("  { present := true, guardFirst := %s, engineCalls := %s,\n    assigns := [%s], unrecognised := %s }"
          % (_b(n["guardFirst"]), _calls(n["engineCalls"]), ", ".join('"%s"' % a for a in n["assigns"]),
             _b(n["unrecognised"])))
    w("")
    w("end SqVerif.Gen.NoiseCalls")
    return "\n".join(out) + "\n"


def generate(repo, lean_dir):
    """Regenerate Gen/NoiseCalls.lean from `repo`; the file is rewritten only when its text changes
    (so an unchanged source costs no rebuild).  Returns the extracted table."""
    with open(os.path.join(repo, SRC)) as f:
        tab = extract(f.read())
    text = render(tab)
    path = os.path.join(lean_dir, OUT)
    os.makedirs(os.path.dirname(path), exist_ok=True)
    old = None
    if os.path.exists(path):
        with open(path) as f:
            old = f.read()
    if old != text:
        tmp = path + ".tmp%d" % os.getpid()
        with open(tmp, "w") as f:
            f.write(text)
        os.replace(tmp, path)
    tab["changed"] = old != text
    return tab


if __name__ == "__main__":
    import json
    import sys
    here = os.path.dirname(os.path.dirname(os.path.dirname(os.path.abspath(__file__))))
    t = generate(sys.argv[1] if len(sys.argv) > 1 else "/repo", os.path.join(here, "lean"))
    print(json.dumps(t, indent=1))

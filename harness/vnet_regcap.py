"""vnet_regcap -- stage "client registers" of C07 (per-node qubit capacity is
enforced exactly): histories in which creates are refused for a reason OTHER
than node capacity, followed by operations that probe the node count exactly.

C07: "creating or receiving a qubit succeeds if and only if the node currently
holds fewer than the maximum ... capacity freed ... immediately reusable".  The
base programs of harness/vnetcase.py know one refusal of a create only (node
full / register table full); the real node has a second limit, the size of a
client-made register (`new_register(maxQubits=k)` / `add_register`, default
10), and `new_qubit_inreg` into a full register is refused although the node
has room.  Such a refused create must not consume one of the node's slots.

Programs = the extended programs of harness/vnetx_cases.py (base ops + newreg /
inreg / delreg ...), run by its executor `XExec` on the REAL virtual nodes, in
`lenient` mode (a miscount does not end the program: the creates / arrivals
that need the slot are still executed).  Oracle (independent of the Lean
model, kind `capacity`, owned by C07):

  * the plain counter of held qubits per node (vnetcase.Ref.count: +1 per
    accepted create / arrival, -1 per destructive measurement / departure,
    0 for EVERY refused op) against the node's own list after every op
    (`held-count-mismatch:<op>:<cause>`);
  * new / arrival / in-register create at a node that holds fewer than the
    maximum (register present, with room) must be accepted
    (`new:refused-below-max`, `send:refused-below-max`,
    `inreg:refused-below-max`), at a node that holds the maximum refused
    (`*:full:not-refused`).

Directed scenarios (`corpus`): register of size k in 1..3 (and the default 10)
filled by in-register creates; further in-register creates are refused by the
REGISTER limit; the node is then filled to its maximum by new / in-register
create in a second register / arrivals -- exactly max - held accepted, the next
one of each kind refused --, one slot is freed (the qubit at position 0 of the
small register measured; the last one measured; one sent away) and re-created.
Every expectation is derived by `XExec.classify` / `xclassify` from the plain
counters, nothing is expected by hand.  `gen_capacity` adds random histories
biased to small registers, small nodes, creates, departures and the fill /
free / re-create probe.

Tie: every op of these programs is also sent to the Lean driver `vnetx`
(model VNetX.lean: new_register / in-register creation incl. the register
limit) and result | engine calls | snapshot are compared literally.
"""
import random

from . import vnetcase as vc
from . import vnetx_cases as X

RULE = ("client-register stage (C07): registers of size 1..3 (and 10) made by new_register / add_register, in-register "
        "creates that hit the REGISTER limit (refused for a reason other than node capacity), then creates (new, "
        "in-register) and arrivals that fill the node exactly to its maximum, one slot freed (measure position 0 / last, "
        "send away) and re-created: after every op the node's list of held qubits equals the plain counter (a refused "
        "create never consumes a slot), a create / arrival is accepted iff held < max (register present and with room), "
        "refused iff held = max; every op tied to the Lean model VNetX")


class P(X.P):
    def __init__(self, nodes, mq=5, mr=100):
        super().__init__(nodes, mq, mr)
        self.p["lenient"] = 1


def corpus():
    """[(name, program)]: the node under test is Alice (0); Bob (1) is the source of arrivals, Charlie (2) a sink"""
    out = []
    n = 0
    for k in (1, 2, 3):
        for room in (1, 2):                       # slots the node still has when the register is full
            for how in ("new", "inreg", "recv"):
                for free in ("meas-first", "meas-last", "send"):
                    n += 1
                    mq = k + room
                    p = P(3, mq=mq, mr=100 if n % 3 else k + room + 3)
                    r = p.newreg(0, k, n % 2)
                    qs = [p.inreg(r, "H" if i == 0 else "X") for i in range(k)]
                    p.inreg(r)                    # register full, node has room: refused, consumes no slot
                    p.inreg(r)
                    r2 = p.newreg(0, 10, (n + 1) % 2)

                    def create(kind):
                        if kind == "new":
                            return p.new(0, "K")
                        if kind == "inreg":
                            return p.inreg(r2, "K")
                        return p.send(p.new(1, "H"), 0)
                    filled = [create(how) for _ in range(room)]     # exactly max - held creates are accepted
                    p.new(0)                      # the node is full: every kind of create / arrival is refused
                    p.inreg(r2)
                    p.inreg(r)
                    lost = p.new(1, "X")
                    p.send(lost, 0)
                    p.meas(lost, 0, 1)            # (Bob keeps it and measures it)
                    if free == "meas-first":
                        p.meas(qs[0], 0, 0)       # the qubit at position 0 of the small register
                    elif free == "meas-last":
                        p.meas(qs[-1], 0, 1)
                    else:
                        p.send(qs[0], 2)
                    create(how)                   # the freed slot is immediately reusable ...
                    p.new(0)                      # ... and only that one
                    p.inreg(r)                    # (register has room again unless the qubit was sent: node full either way)
                    p.meas(filled[0], 0, 1)
                    p.inreg(r)                    # register: room iff one of its qubits was measured
                    p.new(0)
                    p.new(0)
                    out.append(("regcap:size%d:room%d:%s:%s" % (k, room, how, free), p.p))
    # the default register size: 10 in-register creates, the 11th is refused by the register, the node (max 11) has room
    p = P(2, mq=11)
    r = p.newreg(0)
    hs = [p.inreg(r, "H") if i == 0 else p.inreg(r) for i in range(10)]
    p.inreg(r)
    p.new(0, "X")                                 # 11th qubit of the node: accepted
    p.new(0)                                      # full
    p.meas(hs[0], 0, 1)
    p.inreg(r, "K")
    p.inreg(r)
    out.append(("regcap:size10:default", p.p))
    # a register of size 0: every in-register create is refused, none consumes a slot
    p = P(2, mq=2)
    r = p.newreg(0, 0)
    p.inreg(r)
    p.inreg(r)
    a = p.new(0, "H")
    b = p.new(0, "X")
    p.new(0)
    p.meas(a, 0, 1)
    p.inreg(r)
    p.new(0)
    out.append(("regcap:size0", p.p))
    return out


def _probe(ex, rng, cov, a):
    """fill node a exactly to its maximum, one more of each kind, free one, re-create"""
    do = X.do
    regs = [l for l, R in ex.r.items() if R["node"] == a and R["state"] != "deleted"]
    others = [x for x in range(ex.k) if x != a]

    def create():
        kind = rng.choice(["new", "inreg", "recv"] if regs else ["new", "recv"])
        if kind == "inreg":
            return do(ex, ["inreg", rng.choice(regs), -1], cov)
        if kind == "recv" and others:
            b = rng.choice(others)
            lv = ex.live_handles(b)
            if not lv:
                if ex.ref.n() >= vc.MAX_LIVE or not vc._ok(do(ex, ["new", b, -1], cov)):
                    return None
                lv = ex.live_handles(b)
            return do(ex, ["send", rng.choice(lv).lab, a, -1], cov)
        return do(ex, ["new", a, -1], cov)
    guard = 0
    while not ex.dead and ex.ref.count[a] < ex.mq and ex.ref.n() < vc.MAX_LIVE and guard < 8:
        create()
        guard += 1
    if ex.dead or ex.ref.count[a] < ex.mq:
        return
    create()                                       # full: refused
    do(ex, ["new", a, -1], cov)
    lv = ex.live_handles(a)
    if lv and not ex.dead:
        h = rng.choice(lv)
        if others and rng.random() < 0.4:
            do(ex, ["send", h.lab, rng.choice(others), -1], cov)
        else:
            do(ex, ["meas", h.lab, 0, rng.randrange(2)], cov)
        if not ex.dead:
            create()                               # the freed slot is reusable at once
            do(ex, ["new", a, -1], cov)


def gen_capacity(seed, cov):
    rng = random.Random(seed)
    k = rng.choice([2, 2, 3])
    mq = rng.choice([2, 3, 3, 4, 4, 5])
    ex = X.XExec(k, mq, rng.choice([100, 100, 6, 4]), lenient=True)
    length = rng.randint(22, 36)
    guard = 0
    W = dict(newreg=4, inreg=12, new=4, send=5, meas=5, g2=2, g1=1, delreg=1, probe=2)
    while not ex.dead and guard < 4 * length and len(ex.ops) < length:
        guard += 1
        kind = vc._weighted(rng, list(W), list(W.values()))
        live = ex.live_handles()
        if kind == "probe":
            _probe(ex, rng, cov, rng.randrange(k))
            continue
        if kind == "newreg":
            op = ["newreg", rng.randrange(k), -1, rng.choice([1, 1, 2, 2, 3, 3, 10, 0]), rng.randrange(2)]
        elif kind in ("inreg", "delreg"):
            op = X.xcandidate(ex, rng, [kind])
        elif kind == "new":
            a = rng.randrange(k)
            if ex.ref.n() >= vc.MAX_LIVE and ex.ref.count[a] < ex.mq:
                continue
            op = ["new", a, -1]
        else:
            op = vc.candidate(ex, rng, dict(vc.PROFILES["capacity"], p_bad=0.0), [kind])
        if op is None:
            continue
        if op[0] in X.BASE_KINDS:
            if not ex.defined(op):
                continue
        elif not ex.xdefined(op) or ex.xclassify(op)["cell"].endswith("(probe)"):
            continue
        if op[0] == "meas":
            op[2] = 0 if rng.random() < 0.8 else 1
        rec = X.do(ex, op, cov)
        if vc._ok(rec) and op[0] in ("new", "inreg") and rng.random() < 0.6:
            X.do(ex, ["g1", op[2], rng.choice(["H", "K", "X"])], cov)
    if not ex.dead:
        _probe(ex, rng, cov, rng.randrange(k))
    return ex


X.GENERATORS["gencap"] = gen_capacity


def stage(ctx, res):
    """run the client-register stage of C07 and fold its verdicts into `res`"""
    rng = random.Random(ctx.rng.getrandbits(48))
    jobs = [("static", name, p) for name, p in corpus()]
    jobs += [("gencap", rng.getrandbits(48)) for _ in range(ctx.scale(60, 3000))]
    return X.stage(ctx, res, prop="C07", jobs=jobs, rule=RULE, label="client-register stage")

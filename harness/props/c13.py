"""C13 — stabilizer gate algebra is exact
(simulaqron/toolbox/stabilizer_states.py, simulaqron/virtual_node/stabilizer_simulator.py).

Tie: every case is executed on a real `StabilizerState` (or through the
`stabilizerEngine` wrappers) and on the Lean model `Stab` (driver `stab`) from
the same dumped `_group`; post-states are compared literally (statistic
`tie:row_level_equal`) and, where they differ literally, at group level after
canonicalising both with the driver's `gauss`; `gauss`, `mul`, `eq`, `contains`
answers and refusals are compared literally.

Oracle (harness/stabutil.py, NumPy, independent of the model): the 2^n state
vector stabilised by the pre-state, the gate as a unitary matrix, and the
requirement that the post-rows are n commuting independent generators that all
fix U|psi>; `eq` = same vector up to phase, `contains(P)` = P|psi> = |psi>.

Sequence stage (harness/stabseq_cases.py): the cases above use a fresh object per
operation; the sequence stage runs 3..12 operations of every public method on ONE
long-lived StabilizerState / stabilizerEngine (plus a second long-lived state and
copies), judging every step against a state vector carried along and against the
Lean model state threaded through the sequence."""
import itertools

from .. import core
from .. import stabutil as su
from .. import stabapi_cases as sa    # API stage: constructors, strings, standard form, composite gates
from .. import stabseq_cases as sq    # sequence stage: many operations on ONE long-lived object / engine
from ..gen import stabgates           # Tie B: gate / row-product semantics regenerated from the source AST

LEAN_TARGETS = ["SqVerif.Props.C13", "SqVerif.Props.C13Api", "SqVerif.Props.C13Gen"]
PROPS_FILE = ["SqVerif/Props/C13Gates.lean", "SqVerif/Props/C13Gauss.lean", "SqVerif/Props/C13Api.lean",
              "SqVerif/Props/C13Gen.lean"]
DRIVE_TARGETS = ["SqVerif.Drive.Stab", "SqVerif.Drive.StabApi"]
TRUSTED = [
    "model Stab.lean hand-written from stabilizer_states.py:201-211,262-507,531-701; tied by differential execution (this check)",
    "gates and row product (stabilizer_states.py:317-374,531-701) additionally tied by translation: harness/gen/stabgates.py "
    "(Python ast; trusted for the row-wise NumPy meaning of its idiom set: column views, np.logical_*, masked assignment, "
    "column swap) regenerates Gen/StabGates.lean on every run and Props/C13Gen.lean proves it equal to the model",
    "NumPy linear algebra of the reference oracle (complex128, tolerance 1e-8; stabilizer amplitudes are exact multiples of 2^(-k/2))",
    "input states are produced by a symbolic Clifford simulator whose tables are derived numerically from the gate matrices",
    "model StabApi.lean hand-written from stabilizer_states.py:87-260,314-315,420-429,447-471,509-529,628-634 (graph constructor as fixed by fix-graph-node-order); "
    "tied by differential execution (API stage, harness/stabapi_cases.py); __repr__ (numpy formatting) is checked by eval round trip only",
]
ASSUMPTIONS = [
    "states are n x (2n+1) boolean matrices of n commuting independent generators (what every constructor used by the engine produces)",
    "qubit 0 is the leftmost tensor factor, K = [[1,-i],[i,-1]]/sqrt2, S = diag(1,i) (the conventions of the CQC gate set)",
    "API stage: graphs are simple undirected networkx.Graph objects on the nodes 0..n-1, n >= 1 (qubit i = node i); constructor data are "
    "(nested) lists / tuples / arrays of 0/1 or of str; objects of other Python types are outside the model",
]


def gen(ctx):
    """Tie B: regenerate lean/SqVerif/Gen/StabGates.lean from the tree under test.  The obligations over it are
    the theorems of Props/C13Gen.lean (counted by the audit, hence 0 here)."""
    tab = stabgates.generate(core.REPO, core.LEAN_DIR)
    ctx.stabgates_table = tab
    return {"obligations": 0, "file": stabgates.OUT, "changed": tab["changed"], "methods": tab["methods"],
            "definitions_under_obligation": tab["obligations"], "unrecognised": tab["unrecognised"]}


def gate_cases(n, rows, via="state"):
    out = [("g", g, (j,), n, rows, via, "array") for g in su.GATES1 for j in range(n)]
    out += [("g", g, p, n, rows, via, "array") for g in su.GATES2 for p in itertools.permutations(range(n), 2)]
    return out


def build_cases(ctx):
    rng = ctx.rng
    descs = []
    # 1. every signed single row x every gate x every position / ordered pair, n <= 3
    for n in (1, 2, 3):
        for bits in itertools.product("01", repeat=2 * n + 1):
            row = "".join(bits)
            descs += [("row1", g, (j,), n, row) for g in su.GATES1 for j in range(n)]
            descs += [("row1", g, p, n, row) for g in su.GATES2 for p in itertools.permutations(range(n), 2)]
    # 2. every stabilizer state on 1..3 qubits x every gate x every position / ordered pair
    small = {n: su.all_states(n) for n in (0, 1, 2, 3)}
    if [len(small[n]) for n in (1, 2, 3)] != [6, 60, 1080]:
        raise core.MachineryError("state enumeration found %r states" % [len(small[n]) for n in (1, 2, 3)])
    for n in (1, 2, 3):
        for st in small[n]:
            descs += gate_cases(n, st)
            descs.append(("gauss", n, st, True))
            descs.append(("addq", n, st, "state"))
    # 3. tensor products / add_qubit of all pairs of <= 2-qubit states (0-qubit state included)
    le2 = [(n, st) for n in (0, 1, 2) for st in small[n]]
    for (n1, a), (n2, b) in itertools.product(le2, repeat=2):
        descs.append(("tensor", n1, a, n2, b))
    descs.append(("addq", 0, (), "state"))
    descs.append(("addq", 0, (), "engine"))
    # 4. eq on all ordered pairs of <= 2-qubit states (second operand with re-mixed generators),
    #    contains for every <= 2-qubit state x every signed Pauli string
    for n in (1, 2):
        for a, b in itertools.product(small[n], repeat=2):
            descs.append(("eq", n, a, n, su.remix(rng, b), True))
        for st in small[n]:
            for bits in itertools.product("01", repeat=2 * n + 1):
                descs.append(("contains", n, st, "".join(bits), rng.choice(["str", "str+", "list", "list2n"]), True))
    # 4b. _multiply_stabilizers on every ordered pair of signed rows (commuting: judged; anticommuting: literal tie)
    for n in ((1, 2, 3) if ctx.thorough else (1, 2)):
        rows = ["".join(b) for b in itertools.product("01", repeat=2 * n + 1)]
        descs += [("mul", n, a, b) for a in rows for b in rows]
    for _ in range(ctx.scale(1500, 0)):
        a, b = su.random_row(rng, 3), su.random_row(rng, 3)
        descs.append(("mul", 3, a, b))
    # 5. refusals: invalid positions, control == target, foreign operands
    for n in (1, 2, 3):
        for st in rng.sample(small[n], min(len(small[n]), 6)):
            for g in su.GATES1:
                for j in (n, n + 1, n + 7, -1, -n - 1):
                    descs.append(("g", g, (j,), n, st, rng.choice(["state", "engine"]), "array"))
            for g in su.GATES2:
                for p in [(0, 0), (n - 1, n - 1), (0, n), (n, 0), (n, n), (n + 3, 0), (-1, 0), (0, -1)]:
                    descs.append(("g", g, p, n, st, rng.choice(["state", "engine"]), "array"))
            descs.append(("eq_other", n, st))
            descs.append(("contains_bad", n, st, [True] * (2 * n + 2)))
            descs.append(("contains_bad", n, st, "X" * (n + 1)))
    # 6. re-mixed generator sets of every small state (thorough: several per state, every gate)
    for n in (2, 3):
        for st in small[n]:
            for _ in range(ctx.scale(0, 3)):
                rm = su.remix(rng, st)
                descs += gate_cases(n, rm)
                descs.append(("gauss", n, rm, True))
                descs.append(("eq", n, st, n, rm, True))
    # 7. random Clifford-circuit states with a random operation; eq / contains on random pairs
    nmax = ctx.scale(8, 10)
    for _ in range(ctx.scale(2000, 40000)):
        descs.append(("rand13", rng.getrandbits(48), nmax))
    for _ in range(ctx.scale(2000, 40000)):
        descs.append(("randq", rng.getrandbits(48), nmax))
    return descs


def run(ctx):
    su.load()
    su.selftest()
    res = core.Result()
    res.rule = ("(a) all 2*4^n signed rows, n<=3, as one-row matrices x every gate x every position / ordered pair; "
                "(b) ALL stabilizer states on 1..3 qubits (6+60+1080, breadth-first over H,S,X,CNOT from |0..0>, keyed by the "
                "reduced generator matrix; the enumerator's gate tables are derived numerically from the unitaries) x every gate "
                "x every position / ordered pair, + gauss + add_qubit; (c) tensor_product of all ordered pairs of <=2-qubit states "
                "incl. the 0-qubit state; (d) eq on all ordered pairs of <=2-qubit states (one side re-mixed), contains on every "
                "<=2-qubit state x every signed Pauli string, row products of all ordered pairs of signed rows (n<=2; n<=3 thorough); (e) invalid positions / control==target / malformed operands; "
                "(f) random Clifford-circuit states (depth <= 4n+4, half with re-mixed generators) on 1..%d qubits x random "
                "gate / tensor / add_qubit / gauss / row product, and random eq / contains pairs (same group re-mixed, sign flipped, "
                "letter changed, gate applied, other state, other size; member, -member, letter changed, anticommuting, +-identity, "
                "random, malformed); thorough: 3 re-mixed generator sets of every 2..3-qubit state x every gate. "
                "non-trivial = accepted operation on >= 2 qubits" % ctx.scale(8, 10))
    replay = getattr(ctx, "replay", None)
    api_descs = None                  # API stage: None = generate its cases, [] = skip (replay of a case of this module)
    seq_descs = None                  # sequence stage: likewise
    if replay and isinstance(replay.get("input"), dict) and replay["input"].get("case"):
        descs = [su.desc_from_json(replay["input"]["case"])]
        if sq.is_seq(descs[0]):
            descs, api_descs, seq_descs = [], [], descs
        elif sa.is_api(descs[0]):
            descs, api_descs, seq_descs = [], descs, []
        else:
            api_descs, seq_descs = [], []
    else:
        descs = build_cases(ctx)
        res.exhaustive = True      # parts (a)-(d) are complete enumerations
    outs = su.run_cases(descs)
    queries = su.collect(res, outs, "C13")
    if ctx.lean_ok:
        su.tie(res, queries, "Stab model vs StabilizerState")
        res.notes.append("tie: %d of %d observations equal at row level, %d equal only at group level" % (
            res.dist.get("tie:row_level_equal", 0), res.traces, res.dist.get("tie:row_level_differs_group_equal", 0)))
    sa.stage(ctx, res, api_descs)     # API stage (harness/stabapi_cases.py): oracle + tie against the driver stabapi
    sq.stage(ctx, res, seq_descs, "C13")    # sequence stage (harness/stabseq_cases.py): long-lived objects, model state threaded
    return res


def search(ctx, res, broken):
    res.notes.append("targeted search = the state-vector oracle over every generated case (exhaustive for n <= 3); no failing input")

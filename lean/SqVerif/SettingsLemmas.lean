import SqVerif.Settings
/-
Helper lemmas for C18 (core Lean only): algebra of `lookup`/`put`/`update`, and
the single-writer invariant `Inv` that ties the memory of the writing process
and the store to the last-writer table.
-/
namespace SqVerif.Settings

/-! ### dict algebra -/

theorem lookup_put (k a : Key) (b : Value) (s : Store) :
    lookup k (put a b s) = if a = k then some b else lookup k s := by
  induction s with
  | nil => simp [put, lookup]
  | cons p t ih =>
    obtain ⟨c, d⟩ := p
    by_cases h : c = a
    · subst h
      by_cases h2 : c = k <;> simp [put, lookup, h2]
    · by_cases h2 : c = k
      · subst h2
        have : ¬ a = c := fun e => h e.symm
        simp [put, h, lookup, this]
      · simp [put, h, lookup, h2, ih]

theorem lookup_update (k : Key) (d o : Store) :
    lookup k (update d o) = (lookup k (norm o)).or (lookup k d) := by
  unfold norm update
  induction o generalizing d with
  | nil => simp [lookup]
  | cons p o ih =>
    simp only [List.foldl_cons]
    rw [ih (put p.1 p.2 d), ih (put p.1 p.2 [])]
    rw [lookup_put, lookup_put]
    cases lookup k (List.foldl (fun m p => put p.1 p.2 m) [] o) with
    | some x => simp
    | none => by_cases h : p.1 = k <;> simp [h, lookup]

theorem wf_put (k : Key) (v : Value) (s : Store) (h : wf s = true) : wf (put k v s) = true := by
  induction s with
  | nil => simp [put, wf, lookup]
  | cons p t ih =>
    obtain ⟨a, b⟩ := p
    simp only [wf, Bool.and_eq_true] at h
    by_cases e : a = k
    · subst e; simp [put, wf, h.1, h.2]
    · have e' : ¬ k = a := fun x => e x.symm
      simp [put, e, wf, lookup_put, e', h.1, ih h.2]

theorem wf_update (d o : Store) (h : wf d = true) : wf (update d o) = true := by
  unfold update
  induction o generalizing d with
  | nil => simpa using h
  | cons p o ih => simp only [List.foldl_cons]; exact ih _ (wf_put _ _ _ h)

theorem wf_norm (o : Store) : wf (norm o) = true := wf_update [] o rfl

theorem norm_cons (p : Key × Value) (o : Store) : norm (p :: o) = update [(p.1, p.2)] o := by
  simp [norm, update, put]

theorem lookup_norm_of_wf (k : Key) (s : Store) (h : wf s = true) : lookup k (norm s) = lookup k s := by
  induction s with
  | nil => simp [norm, update]
  | cons p t ih =>
    obtain ⟨a, b⟩ := p
    simp only [wf, Bool.and_eq_true] at h
    rw [norm_cons, lookup_update, ih h.2]
    by_cases e : a = k
    · subst e
      have hn : lookup a t = none := by simpa using h.1
      simp [lookup, hn]
    · simp [lookup, e]

theorem lookup_norm_isSome (k : Key) (o : Store) : (lookup k (norm o)).isSome = (lookup k o).isSome := by
  induction o with
  | nil => simp [norm, update]
  | cons p t ih =>
    obtain ⟨a, b⟩ := p
    rw [norm_cons, lookup_update]
    by_cases e : a = k
    · cases lookup k (norm t) <;> simp [lookup, e]
    · simp [lookup, e, ih]

/-- a list of pairs without repeated keys gives each of its pairs on lookup -/
theorem lookup_of_mem (D : Store) (h : wf D = true) (k : Key) (v : Value) (hm : (k, v) ∈ D) :
    lookup k D = some v := by
  induction D with
  | nil => cases hm
  | cons p t ih =>
    obtain ⟨a, b⟩ := p
    simp only [wf, Bool.and_eq_true] at h
    cases hm with
    | head => simp [lookup]
    | tail _ hm =>
      have := ih h.2 hm
      by_cases e : a = k
      · subst e
        have hn : lookup a t = none := by simpa using h.1
        rw [hn] at this; cases this
      · simp [lookup, e, this]

theorem defaultOf_of_mem (D : Store) (h : wf D = true) (k : Key) (v : Value) (hm : (k, v) ∈ D) :
    defaultOf D k = some v := by
  unfold defaultOf
  rw [lookup_norm_of_wf k D h]
  exact lookup_of_mem D h k v hm

/-- `update` only adds keys -/
theorem isSome_lookup_update (k : Key) (d o : Store) (h : (lookup k d).isSome) :
    (lookup k (update d o)).isSome := by
  rw [lookup_update]
  cases lookup k (norm o) <;> simp [h]

theorem isSome_lookup_update_right (k : Key) (d o : Store) (h : (lookup k (norm o)).isSome) :
    (lookup k (update d o)).isSome := by
  rw [lookup_update]
  cases hx : lookup k (norm o) with
  | none => rw [hx] at h; cases h
  | some x => simp

/-! ### the user layer -/

theorem lookup_applyUser (u : Option Store) (m : Store) (j : Key) (h : userValue u j = none) :
    lookup j (applyUser u m) = lookup j m := by
  cases u with
  | none => rfl
  | some uf =>
    simp only [userValue] at h
    simp [applyUser, lookup_update, h]

theorem lookup_applyUser_of_some (u : Option Store) (m : Store) (j : Key) (x : Value)
    (h : userValue u j = some x) : lookup j (applyUser u m) = some x := by
  cases u with
  | none => cases h
  | some uf =>
    simp only [userValue] at h
    simp [applyUser, lookup_update, h]

theorem userLayer_cases (u : Option Store) (m : Store) :
    (userLayer u m).1 = m ∨ (userLayer u m).1 = applyUser u m := by
  unfold userLayer
  cases lookup readUserKey m with
  | none => exact Or.inl rfl
  | some f => by_cases t : truthy f = true <;> simp [t]

theorem userLayer_ok (u : Option Store) (m : Store) (h : (lookup readUserKey m).isSome) :
    (userLayer u m).2 = .ok := by
  unfold userLayer
  cases hx : lookup readUserKey m with
  | none => rw [hx] at h; cases h
  | some f => by_cases t : truthy f = true <;> simp [t]

theorem userLayer_wf (u : Option Store) (m : Store) (h : wf m = true) : wf (userLayer u m).1 = true := by
  rcases userLayer_cases u m with e | e <;> rw [e]
  · exact h
  · cases u with
    | none => exact h
    | some uf => exact wf_update _ _ h

theorem userLayer_isSome (u : Option Store) (m : Store) (j : Key) (h : (lookup j m).isSome) :
    (lookup j (userLayer u m).1).isSome := by
  rcases userLayer_cases u m with e | e <;> rw [e]
  · exact h
  · cases u with
    | none => exact h
    | some uf => exact isSome_lookup_update _ _ _ h

theorem userLayer_lookup (u : Option Store) (m : Store) (j : Key) (h : userValue u j = none) :
    lookup j (userLayer u m).1 = lookup j m := by
  rcases userLayer_cases u m with e | e <;> rw [e]
  exact lookup_applyUser u m j h

/-- with the switch on, the user layer is applied -/
theorem userLayer_on (u : Option Store) (m : Store) (f : Value) (h : lookup readUserKey m = some f)
    (t : truthy f = true) : (userLayer u m).1 = applyUser u m := by
  simp [userLayer, h, t]

/-! ### fresh processes -/

theorem boot_eq (D : Store) (u : Option Store) (st : Option Store) :
    boot D u st = ({ mem := (userLayer u (baseMem D st)).1,
                     store := match st with | some s => some s | none => some (norm D) },
                   (userLayer u (baseMem D st)).2) := by
  cases st <;> simp [boot, updateSettings, baseMem, norm]

/-- a process that finds a store does not touch it -/
theorem boot_store_some (D : Store) (u : Option Store) (s : Store) : (boot D u (some s)).1.store = some s := by
  rw [boot_eq]

theorem baseMem_has_default (D : Store) (st : Option Store) (j : Key) (h : (defaultOf D j).isSome) :
    (lookup j (baseMem D st)).isSome := by
  cases st with
  | none => exact h
  | some s => exact isSome_lookup_update _ _ _ h

theorem boot_ok (D : Store) (u : Option Store) (st : Option Store) (hD : (lookup readUserKey D).isSome) :
    (boot D u st).2 = .ok := by
  rw [boot_eq]
  apply userLayer_ok
  apply baseMem_has_default
  unfold defaultOf
  rw [lookup_norm_isSome]; exact hD

/-- what a fresh process reads for a key the user's file does not set -/
theorem boot_lookup_plain (D : Store) (u : Option Store) (st : Option Store) (j : Key)
    (h : userValue u j = none) : lookup j (boot D u st).1.mem = lookup j (baseMem D st) := by
  rw [boot_eq]; exact userLayer_lookup u _ j h

/-- what a fresh process reads for a key the user's file sets, overrides enabled -/
theorem boot_lookup_user (D : Store) (u : Option Store) (st : Option Store) (j : Key) (x : Value)
    (h : userValue u j = some x) (he : enabled D st = true) : lookup j (boot D u st).1.mem = some x := by
  rw [boot_eq]
  unfold enabled at he
  cases hf : lookup readUserKey (baseMem D st) with
  | none => rw [hf] at he; cases he
  | some f =>
    rw [hf] at he
    show lookup j (userLayer u (baseMem D st)).1 = some x
    rw [userLayer_on u _ f hf he]
    exact lookup_applyUser_of_some u _ j x h

/-- with overrides disabled a fresh process reads the default and stored layers only -/
theorem boot_lookup_disabled (D : Store) (u : Option Store) (st : Option Store) (j : Key)
    (hD : (lookup readUserKey D).isSome) (he : enabled D st = false) :
    lookup j (boot D u st).1.mem = lookup j (baseMem D st) := by
  rw [boot_eq]
  unfold enabled at he
  cases hf : lookup readUserKey (baseMem D st) with
  | none =>
    have := baseMem_has_default D st readUserKey (by unfold defaultOf; rw [lookup_norm_isSome]; exact hD)
    rw [hf] at this; cases this
  | some f =>
    rw [hf] at he
    simp [userLayer, hf, he]

/-! ### the single-writer invariant -/

/-- `T` is the last-writer table; `w` the writing process and the store. -/
structure Inv (D : Store) (u : Option Store) (T : Key → Option Value) (w : World) : Prop where
  wfm : wf w.mem = true
  sup : ∀ j, (defaultOf D j).isSome → (lookup j w.mem).isSome
  mem : ∀ j, userValue u j = none → lookup j w.mem = T j
  sto : ∃ s, w.store = some s ∧ ∀ j, userValue u j = none → lookup j (update (norm D) s) = T j

/-- reading back a dump of a memory that has every default key gives that memory -/
theorem dump_read (D M : Store) (hw : wf M = true)
    (hs : ∀ j, (defaultOf D j).isSome → (lookup j M).isSome) (j : Key) :
    lookup j (update (norm D) M) = lookup j M := by
  rw [lookup_update, lookup_norm_of_wf j M hw]
  cases hx : lookup j M with
  | some x => simp
  | none =>
    cases hd : lookup j (norm D) with
    | none => simp
    | some d =>
      have := hs j (by unfold defaultOf; rw [hd]; rfl)
      rw [hx] at this; cases this

theorem inv_of_dump (D : Store) (u : Option Store) (T : Key → Option Value) (M : Store)
    (hw : wf M = true) (hs : ∀ j, (defaultOf D j).isSome → (lookup j M).isSome)
    (hm : ∀ j, userValue u j = none → lookup j M = T j) :
    Inv D u T { mem := M, store := some M } :=
  ⟨hw, hs, hm, M, rfl, fun j hj => by rw [dump_read D M hw hs j]; exact hm j hj⟩

theorem inv_boot (D : Store) (u : Option Store) (S0 : Option Store) :
    Inv D u (initTable D S0) (boot D u S0).1 := by
  rw [boot_eq]
  have hwb : wf (baseMem D S0) = true := by
    cases S0 with
    | none => exact wf_norm D
    | some s => exact wf_update _ _ (wf_norm D)
  have hbase : ∀ j, lookup j (baseMem D S0) = initTable D S0 j := by
    intro j
    cases S0 with
    | none => rfl
    | some s => simp [baseMem, initTable, lookup_update, defaultOf]
  refine ⟨userLayer_wf u _ hwb, ?_, ?_, ?_⟩
  · intro j hj; exact userLayer_isSome u _ j (baseMem_has_default D S0 j hj)
  · intro j hj; show lookup j (userLayer u (baseMem D S0)).1 = _
    rw [userLayer_lookup u _ j hj]; exact hbase j
  · cases S0 with
    | some s => exact ⟨s, rfl, fun j _ => hbase j⟩
    | none =>
      refine ⟨norm D, rfl, fun j _ => ?_⟩
      rw [dump_read D (norm D) (wf_norm D) (fun j hj => hj) j]
      rfl

theorem inv_set (D : Store) (u : Option Store) (T : Key → Option Value) (w : World) (k : Key) (v : Value)
    (h : Inv D u T w) : Inv D u (specStep D T (.set k v)) (setSetting k v w).1 := by
  apply inv_of_dump
  · exact wf_put _ _ _ h.wfm
  · intro j hj
    rw [lookup_put]
    by_cases e : k = j
    · simp [e]
    · simp [e]; exact h.sup j hj
  · intro j hj
    rw [lookup_put]
    by_cases e : k = j
    · simp [specStep, e]
    · simp [specStep, e]; exact h.mem j hj

theorem inv_reset (D : Store) (u : Option Store) (T : Key → Option Value) (w : World)
    (h : Inv D u T w) : Inv D u (specStep D T .reset) (defaultSettings D u w).1 := by
  show Inv D u _ { mem := update w.mem D, store := some (update w.mem D) }
  apply inv_of_dump
  · exact wf_update _ _ h.wfm
  · intro j hj; exact isSome_lookup_update_right _ _ _ hj
  · intro j hj
    simp only [specStep, defaultOf]
    rw [lookup_update, h.mem j hj]

/-- memory of a process after the default and the stored layer were laid over it -/
theorem inv_relayer (D : Store) (u : Option Store) (T : Key → Option Value) (M s : Store)
    (hw : wf M = true)
    (hs : ∀ j, userValue u j = none → lookup j (update (norm D) s) = T j)
    (hnone : ∀ j, userValue u j = none → T j = none → lookup j M = none) :
    Inv D u T { mem := (userLayer u (update (update M D) s)).1, store := some s } := by
  refine ⟨userLayer_wf u _ (wf_update _ _ (wf_update _ _ hw)), ?_, ?_, s, rfl, hs⟩
  · intro j hj
    apply userLayer_isSome
    apply isSome_lookup_update
    exact isSome_lookup_update_right _ _ _ hj
  · intro j hj
    show lookup j (userLayer u (update (update M D) s)).1 = T j
    rw [userLayer_lookup u _ j hj, lookup_update, lookup_update]
    have h1 := hs j hj
    rw [lookup_update] at h1
    cases hx : lookup j (norm s) with
    | some x => rw [hx] at h1; simpa using h1
    | none =>
      rw [hx] at h1
      simp only [Option.none_or] at h1 ⊢
      cases hd : lookup j (norm D) with
      | some d => rw [hd] at h1; simpa using h1
      | none =>
        rw [hd] at h1
        simp only [Option.none_or]
        rw [hnone j hj h1.symm]; exact h1

theorem inv_reload (D : Store) (u : Option Store) (T : Key → Option Value) (w : World)
    (h : Inv D u T w) : Inv D u (specStep D T .reload) (updateSettings D u false w).1 := by
  obtain ⟨s, hs, hsto⟩ := h.sto
  have : (updateSettings D u false w).1
      = { mem := (userLayer u (update (update w.mem D) s)).1, store := some s } := by
    simp [updateSettings, hs]
  rw [this]
  exact inv_relayer D u T w.mem s h.wfm hsto (fun j hj ht => by rw [h.mem j hj]; exact ht)

theorem inv_restart (D : Store) (u : Option Store) (T : Key → Option Value) (w : World)
    (h : Inv D u T w) : Inv D u (specStep D T .restart) (boot D u w.store).1 := by
  obtain ⟨s, hs, hsto⟩ := h.sto
  have : (boot D u w.store).1
      = { mem := (userLayer u (update (update [] D) s)).1, store := some s } := by
    simp [boot, updateSettings, hs]
  rw [this]
  exact inv_relayer D u T [] s rfl hsto (fun j _ _ => rfl)

theorem inv_step (D : Store) (u : Option Store) (T : Key → Option Value) (w : World) (op : Op)
    (h : Inv D u T w) : Inv D u (specStep D T op) (step D u w op).1 := by
  cases op with
  | set k v => exact inv_set D u T w k v h
  | setBad k => exact h
  | reset => exact inv_reset D u T w h
  | reload => exact inv_reload D u T w h
  | restart => exact inv_restart D u T w h

theorem inv_run (D : Store) (u : Option Store) (T : Key → Option Value) (w : World) (ops : List Op)
    (h : Inv D u T w) : Inv D u (ops.foldl (specStep D) T) (run D u w ops) := by
  unfold run
  induction ops generalizing T w with
  | nil => exact h
  | cons op ops ih => simp only [List.foldl_cons]; exact ih _ _ (inv_step D u T w op h)

/-- every operation except a rejected `set` succeeds when the default table has the switch -/
theorem step_ok (D : Store) (u : Option Store) (w : World) (op : Op) (T : Key → Option Value)
    (hD : (lookup readUserKey D).isSome) (h : Inv D u T w) :
    (step D u w op).2 = (match op with | .setBad _ => Outcome.typeError | _ => Outcome.ok) := by
  have hdef : (defaultOf D readUserKey).isSome := by unfold defaultOf; rw [lookup_norm_isSome]; exact hD
  cases op with
  | set k v => rfl
  | setBad k => rfl
  | reset => rfl
  | restart => exact boot_ok D u w.store hD
  | reload =>
    obtain ⟨s, hs, _⟩ := h.sto
    show (updateSettings D u false w).2 = .ok
    simp only [updateSettings, hs]
    apply userLayer_ok
    apply isSome_lookup_update
    exact isSome_lookup_update_right _ _ _ hdef

end SqVerif.Settings

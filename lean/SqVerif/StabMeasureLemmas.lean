import SqVerif.StabSpec
/-
L0 — groundwork for C14 (measurement): the qubit permutation `toFront j` /
`fromFront j`, transport of the group vocabulary along it, elementary group
facts for commuting generator lists, and the "collapse" of a group by a
measurement of `Z_j`.

All helper lemmas live in `SqVerif.Stab.Meas` (so that they cannot clash with
the lemma files of the other L0 developments); only the specification
predicate `Collapsed` is in `SqVerif.Stab`.
-/
namespace SqVerif.Stab

/-- The post-measurement group for outcome `o` on qubit `j`:
`⟨(-1)^o Z_j⟩ · { q ∈ G | q commutes with Z_j }`. -/
def Collapsed (n : Nat) (g : List Row) (j : Nat) (o : Bool) (q : POp) : Prop :=
  ∃ q0, InGroup n g q0 ∧ antiL q0.ps (zAt n j false).ps = false ∧ (q ≈ₚ q0 ∨ q ≈ₚ q0 ⋆ zAt n j o)

def POp.toFront (j : Nat) (p : POp) : POp := ⟨p.ph, Stab.toFront j p.ps⟩
def POp.fromFront (j : Nat) (p : POp) : POp := ⟨p.ph, Stab.fromFront j p.ps⟩

namespace Meas

/-! ### lists -/

@[simp] theorem getP_cons_zero (a : P1) (as : List P1) : getP (a :: as) 0 = a := rfl
@[simp] theorem getP_cons_succ (a : P1) (as : List P1) (j : Nat) : getP (a :: as) (j + 1) = getP as j := rfl
@[simp] theorem getP_nil (j : Nat) : getP [] j = (false, false) := rfl

theorem toFront_cons_succ (a : P1) (as : List P1) (j : Nat) :
    toFront (j + 1) (a :: as) = getP as j :: a :: as.eraseIdx j := rfl

theorem toFront_length (j : Nat) (ps : List P1) (h : j < ps.length) : (toFront j ps).length = ps.length := by
  simp [toFront, List.length_eraseIdx, h]; omega

theorem fromFront_length (j : Nat) (ps : List P1) : (fromFront j ps).length = ps.length := by
  cases ps with
  | nil => rfl
  | cons p rest =>
    simp only [fromFront, List.length_append, List.length_cons, List.length_take, List.length_drop]
    omega

theorem fromFront_toFront (j : Nat) (ps : List P1) (h : j < ps.length) : fromFront j (toFront j ps) = ps := by
  induction ps generalizing j with
  | nil => simp at h
  | cons a as ih =>
    cases j with
    | zero => simp [toFront, fromFront]
    | succ j =>
      have h' : j < as.length := by simpa using h
      have := ih j h'
      simp only [toFront, fromFront, List.eraseIdx_cons_succ, List.take_succ_cons, List.drop_succ_cons,
        getP_cons_succ, List.cons_append] at this ⊢
      rw [this]

theorem toFront_fromFront (j : Nat) (ps : List P1) (h : j < ps.length) : toFront j (fromFront j ps) = ps := by
  cases ps with
  | nil => simp at h
  | cons p rest =>
    have hj : j ≤ rest.length := by simp at h; omega
    simp only [fromFront, toFront]
    have h1 : getP (rest.take j ++ p :: rest.drop j) j = p := by
      simp [getP, List.getD_eq_getElem?_getD, List.length_take, Nat.min_eq_left hj]
    have h2 : (rest.take j ++ p :: rest.drop j).eraseIdx j = rest := by
      rw [List.eraseIdx_append_of_length_le (by simp [Nat.min_eq_left hj])]
      simp [List.length_take, Nat.min_eq_left hj]
    rw [h1, h2]

/-! ### letter-wise operations split at a position -/

theorem mulL_eraseIdx (a b : List P1) (j : Nat) (h : a.length = b.length) :
    (mulL a b).eraseIdx j = mulL (a.eraseIdx j) (b.eraseIdx j) := by
  induction a generalizing b j with
  | nil => cases b <;> simp [mulL]
  | cons x a ih =>
    cases b with
    | nil => simp at h
    | cons y b =>
      cases j with
      | zero => simp [mulL]
      | succ j => simp [mulL, ih b j (by simpa using h)]

theorem getP_mulL (a b : List P1) (j : Nat) (h : a.length = b.length) :
    getP (mulL a b) j = mul1 (getP a j) (getP b j) := by
  induction a generalizing b j with
  | nil =>
    cases b with
    | nil => simp [mulL, mul1]
    | cons y b => simp at h
  | cons x a ih =>
    cases b with
    | nil => simp at h
    | cons y b =>
      cases j with
      | zero => simp [mulL]
      | succ j => simp [mulL, ih b j (by simpa using h)]

theorem phL_split (a b : List P1) (j : Nat) (h : a.length = b.length) :
    phL a b = iexp (getP a j) (getP b j) + phL (a.eraseIdx j) (b.eraseIdx j) := by
  induction a generalizing b j with
  | nil => cases b <;> simp [phL, iexp]
  | cons x a ih =>
    cases b with
    | nil => simp at h
    | cons y b =>
      cases j with
      | zero => simp [phL]
      | succ j => simp only [phL, getP_cons_succ, List.eraseIdx_cons_succ, ih b j (by simpa using h)]; omega

theorem antiL_split (a b : List P1) (j : Nat) (h : a.length = b.length) :
    antiL a b = (anti1 (getP a j) (getP b j) != antiL (a.eraseIdx j) (b.eraseIdx j)) := by
  induction a generalizing b j with
  | nil => cases b <;> simp [antiL, anti1]
  | cons x a ih =>
    cases b with
    | nil => simp at h
    | cons y b =>
      cases j with
      | zero => simp [antiL]
      | succ j =>
        simp only [antiL, getP_cons_succ, List.eraseIdx_cons_succ, ih b j (by simpa using h)]
        cases anti1 x y <;> cases anti1 (getP a j) (getP b j) <;> cases antiL (a.eraseIdx j) (b.eraseIdx j) <;> rfl

theorem mulL_toFront (a b : List P1) (j : Nat) (h : a.length = b.length) :
    mulL (toFront j a) (toFront j b) = toFront j (mulL a b) := by
  simp [toFront, mulL, getP_mulL a b j h, mulL_eraseIdx a b j h]

theorem phL_toFront (a b : List P1) (j : Nat) (h : a.length = b.length) :
    phL (toFront j a) (toFront j b) = phL a b := by
  simp [toFront, phL, ← phL_split a b j h]

theorem antiL_toFront (a b : List P1) (j : Nat) (h : a.length = b.length) :
    antiL (toFront j a) (toFront j b) = antiL a b := by
  simp [toFront, antiL, ← antiL_split a b j h]

/-! ### small algebra -/

theorem iexp_parity (a b : P1) : iexp a b % 2 = b2n (anti1 a b) := by
  rcases a with ⟨a1,a2⟩; rcases b with ⟨b1,b2⟩
  cases a1 <;> cases a2 <;> cases b1 <;> cases b2 <;> rfl

theorem anti1_comm (a b : P1) : anti1 a b = anti1 b a := by
  rcases a with ⟨a1,a2⟩; rcases b with ⟨b1,b2⟩
  cases a1 <;> cases a2 <;> cases b1 <;> cases b2 <;> rfl

theorem antiL_comm (as bs : List P1) : antiL as bs = antiL bs as := by
  induction as generalizing bs with
  | nil => cases bs <;> simp [antiL]
  | cons a as ih => cases bs with
    | nil => simp [antiL]
    | cons b bs => simp [antiL, anti1_comm a b, ih bs]

theorem antiL_self (as : List P1) : antiL as as = false := by
  induction as with
  | nil => rfl
  | cons a as ih =>
    simp only [antiL, ih]
    rcases a with ⟨a1,a2⟩; cases a1 <;> cases a2 <;> rfl

theorem phL_parity (as bs : List P1) : phL as bs % 2 = b2n (antiL as bs) := by
  induction as generalizing bs with
  | nil => cases bs <;> simp [phL, antiL]
  | cons a as ih => cases bs with
    | nil => simp [phL, antiL]
    | cons b bs =>
      have h1 := ih bs
      have h2 := iexp_parity a b
      simp only [phL, antiL]
      cases hA : anti1 a b <;> cases hB : antiL as bs <;> rw [hA] at h2 <;> rw [hB] at h1 <;>
        simp only [b2n_true, b2n_false, bne_self_eq_false, Bool.true_bne, Bool.false_bne, Bool.not_false] at * <;> omega

theorem antiL_one_left (n : Nat) (as : List P1) : antiL (List.replicate n I1) as = false := by
  rw [antiL_comm]; exact antiL_one as n

theorem antiL_mul_left (as bs cs : List P1) (h : as.length = bs.length) (h' : bs.length = cs.length) :
    antiL (mulL as bs) cs = (antiL as cs != antiL bs cs) := by
  rw [antiL_comm, antiL_mul cs as bs h (h'.symm.trans h.symm), antiL_comm cs as, antiL_comm cs bs]

theorem mulL_one_right (n : Nat) (as : List P1) (h : as.length = n) : mulL as (List.replicate n I1) = as := by
  rw [mulL_comm]; exact mulL_one_left n as h

theorem phL_one_right (n : Nat) (as : List P1) : phL as (List.replicate n I1) = 0 := by
  induction n generalizing as with
  | zero => cases as <;> simp [phL]
  | succ n ih => cases as with
    | nil => simp [phL]
    | cons a as =>
      simp only [List.replicate, phL, ih as]
      rcases a with ⟨a1,a2⟩; cases a1 <;> cases a2 <;> rfl

theorem mul_one (n : Nat) (p : POp) (h : p.len = n) : p ⋆ one n ≈ₚ p := by
  refine ⟨mulL_one_right n p.ps h, ?_⟩
  simp [POp.mul, one, phL_one_right]

theorem one_len (n : Nat) : (one n).len = n := by simp [one, POp.len]

theorem eqv_len {p q : POp} (h : p ≈ₚ q) : p.len = q.len := by simp [POp.len, h.1]

theorem neg_eqv {p q : POp} (h : p ≈ₚ q) : p.neg ≈ₚ q.neg := by
  refine ⟨h.1, ?_⟩
  have := h.2
  simp only [POp.neg]; omega

theorem neg_neg (p : POp) : p.neg.neg ≈ₚ p := by
  refine ⟨rfl, ?_⟩
  simp only [POp.neg]; omega

theorem neg_mul (p q : POp) : p.neg ⋆ q ≈ₚ (p ⋆ q).neg := by
  refine ⟨rfl, ?_⟩
  simp only [POp.neg, POp.mul]; omega

theorem mul_neg (p q : POp) : p ⋆ q.neg ≈ₚ (p ⋆ q).neg := by
  refine ⟨rfl, ?_⟩
  simp only [POp.neg, POp.mul]; omega

/-! ### the group generated by a commuting list -/

theorem den_len (r : Row) : r.den.len = r.ps.length := rfl
theorem den_herm (r : Row) : r.den.ph % 2 = 0 := by
  simp only [Row.den]; split <;> rfl

theorem mem_dens {g : List Row} {q : POp} (h : q ∈ dens g) : ∃ r, r ∈ g ∧ q = r.den := by
  simp only [dens, List.mem_map] at h
  obtain ⟨r, hr, e⟩ := h
  exact ⟨r, hr, e.symm⟩

theorem rowsOK_dens {n : Nat} {g : List Row} (hw : ∀ r, r ∈ g → r.ps.length = n) : RowsOK n (dens g) := by
  intro q hq
  obtain ⟨r, hr, rfl⟩ := mem_dens hq
  exact ⟨hw r hr, den_herm r⟩

theorem pairComm_of_all (l : List POp) (h : ∀ a, a ∈ l → ∀ b, b ∈ l → antiL a.ps b.ps = false) : PairComm l := by
  induction l with
  | nil => trivial
  | cons r rs ih =>
    refine ⟨fun q hq => h r (by simp) q (by simp [hq]), ih ?_⟩
    intro a ha b hb
    exact h a (by simp [ha]) b (by simp [hb])

theorem pairComm_dens {n : Nat} {g : List Row} (hc : Commuting n g) : PairComm (dens g) := by
  apply pairComm_of_all
  intro a ha b hb
  obtain ⟨r, hr, rfl⟩ := mem_dens ha
  obtain ⟨r', hr', rfl⟩ := mem_dens hb
  exact hc.comm r hr r' hr'

theorem dens_length (g : List Row) : (dens g).length = g.length := by simp [dens]

theorem inGroup_len {n : Nat} {g : List Row} (hw : ∀ r, r ∈ g → r.ps.length = n) {p : POp}
    (h : InGroup n g p) : p.ps.length = n := by
  obtain ⟨c, _, e⟩ := h
  have := prodSel_len n c (dens g) (rowsOK_dens hw)
  rw [← e.1]; exact this

theorem inGroup_congr {n : Nat} {g : List Row} {p q : POp} (e : p ≈ₚ q) (h : InGroup n g p) : InGroup n g q := by
  obtain ⟨c, hc, e'⟩ := h
  exact ⟨c, hc, eqv_trans e' e⟩

theorem prodSel_replicate_false (n k : Nat) (l : List POp) : prodSel n (List.replicate k false) l = one n := by
  induction l generalizing k with
  | nil => cases k <;> simp [prodSel, List.replicate]
  | cons r rs ih =>
    cases k with
    | zero => simp [prodSel]
    | succ k => simp [prodSel, List.replicate, ih k]

theorem inGroup_one (n : Nat) (g : List Row) : InGroup n g (one n) :=
  ⟨List.replicate g.length false, by simp, by rw [prodSel_replicate_false]; exact eqv_refl _⟩

theorem xorL_length (c d : List Bool) (h : c.length = d.length) : (xorL c d).length = c.length := by
  induction c generalizing d with
  | nil => cases d <;> simp [xorL]
  | cons a c ih => cases d with
    | nil => simp at h
    | cons b d => simp [xorL, ih d (by simpa using h)]

theorem inGroup_mul {n : Nat} {g : List Row} (hc : Commuting n g) {p q : POp}
    (hp : InGroup n g p) (hq : InGroup n g q) : InGroup n g (p ⋆ q) := by
  obtain ⟨c, hcl, e⟩ := hp
  obtain ⟨d, hdl, e'⟩ := hq
  refine ⟨xorL c d, ?_, ?_⟩
  · rw [xorL_length c d (hcl.trans hdl.symm)]; exact hcl
  · refine eqv_trans (prodSel_xor n c d (dens g) (by rw [dens_length]; exact hcl) (by rw [dens_length]; exact hdl)
      (rowsOK_dens hc.width) (pairComm_dens hc)) (mul_congr e e')

theorem inGroup_comm {n : Nat} {g : List Row} (hc : Commuting n g) {p q : POp}
    (hp : InGroup n g p) (hq : InGroup n g q) : antiL p.ps q.ps = false := by
  obtain ⟨c, _, e⟩ := hp
  obtain ⟨d, _, e'⟩ := hq
  rw [← e.1, ← e'.1]
  have hOK := rowsOK_dens hc.width
  apply comm_prodSel n (prodSel n c (dens g)) d (dens g) (prodSel_len n c _ hOK) hOK
  intro q hq
  rw [antiL_comm]
  obtain ⟨r, hr, rfl⟩ := mem_dens hq
  apply comm_prodSel n r.den c (dens g) (hc.width r hr) hOK
  intro q' hq'
  obtain ⟨r', hr', rfl⟩ := mem_dens hq'
  exact hc.comm r hr r' hr'

/-- induction principle: a predicate closed under `≈ₚ`, containing the identity and closed under
left multiplication by generators contains the group -/
theorem inGroup_ind {n : Nat} {g : List Row} (hw : ∀ r, r ∈ g → r.ps.length = n) (S : POp → Prop)
    (hcongr : ∀ p q, p ≈ₚ q → S p → S q) (h1 : S (one n))
    (hmul : ∀ r, r ∈ g → ∀ p, p.len = n → S p → S (r.den ⋆ p)) {p : POp} (h : InGroup n g p) : S p := by
  obtain ⟨c, _, e⟩ := h
  refine hcongr _ _ e ?_
  suffices H : ∀ (l : List Row) (c : List Bool), (∀ r, r ∈ l → r ∈ g) → S (prodSel n c (dens l)) from H g c (fun _ h => h)
  intro l
  induction l with
  | nil => intro c _; cases c <;> exact h1
  | cons r rs ih =>
    intro c hl
    cases c with
    | nil => exact h1
    | cons a cs =>
      have hrs : ∀ r, r ∈ rs → r ∈ g := fun x hx => hl x (by simp [hx])
      simp only [dens, List.map_cons, prodSel]
      split
      · exact hmul r (hl r (by simp)) _ (prodSel_len n cs _ (rowsOK_dens fun x hx => hw x (hrs x hx))) (ih cs hrs)
      · exact ih cs hrs

theorem inGroup_gen {n : Nat} {g : List Row} (hw : ∀ r, r ∈ g → r.ps.length = n) {r : Row} (hr : r ∈ g) :
    InGroup n g r.den := by
  induction g with
  | nil => simp at hr
  | cons a rs ih =>
    by_cases e : r = a
    · subst e
      refine ⟨true :: List.replicate rs.length false, by simp, ?_⟩
      simp only [dens, List.map_cons, prodSel, if_true, prodSel_replicate_false]
      exact mul_one n _ (hw r (by simp))
    · have hr' : r ∈ rs := by
        rcases List.mem_cons.mp hr with h | h
        · exact absurd h e
        · exact h
      obtain ⟨c, hc, e'⟩ := ih (fun x hx => hw x (by simp [hx])) hr'
      exact ⟨false :: c, by simp [hc], by simpa [dens, prodSel] using e'⟩

/-- group inclusion from membership of the generators -/
theorem inGroup_sub {n : Nat} {g h : List Row} (hc : Commuting n g) (hw : ∀ r, r ∈ h → r.ps.length = n)
    (hgen : ∀ r, r ∈ h → InGroup n g r.den) {p : POp} (hp : InGroup n h p) : InGroup n g p :=
  inGroup_ind hw (InGroup n g) (fun _ _ e h => inGroup_congr e h) (inGroup_one n g)
    (fun r hr _ _ hp => inGroup_mul hc (hgen r hr) hp) hp

theorem sameGroup_of_gens {n : Nat} {g h : List Row} (hg : Commuting n g) (hh : Commuting n h)
    (h1 : ∀ r, r ∈ h → InGroup n g r.den) (h2 : ∀ r, r ∈ g → InGroup n h r.den) : SameGroup n g h :=
  fun _ => ⟨inGroup_sub hh hg.width h2, inGroup_sub hg hh.width h1⟩

/-- a Hermitian operator and its negative are not both in an independent group -/
theorem not_both {n : Nat} {g : List Row} (hv : Valid n g) {p : POp} (hh : p.ph % 2 = 0)
    (h1 : InGroup n g p) (h2 : InGroup n g p.neg) : False := by
  obtain ⟨c, hcl, e⟩ := h1
  obtain ⟨d, hdl, e'⟩ := h2
  have hx := prodSel_xor n c d (dens g) (by rw [dens_length]; exact hcl) (by rw [dens_length]; exact hdl)
      (rowsOK_dens hv.width) (pairComm_dens hv.toCommuting)
  have hx' := eqv_trans hx (mul_congr e e')
  have hl : (xorL c d).length = g.length := by rw [xorL_length c d (hcl.trans hdl.symm)]; exact hcl
  have hps : (prodSel n (xorL c d) (dens g)).ps = idPad n := by
    rw [hx'.1]
    show mulL p.ps p.ps = _
    rw [mulL_self, inGroup_len hv.width ⟨c, hcl, e⟩]; rfl
  have hz := hv.indep _ hl hps
  rw [hz, prodSel_replicate_false] at hx'
  have := hx'.2
  simp only [one, POp.mul, POp.neg, phL_self] at this
  omega

end Meas
end SqVerif.Stab

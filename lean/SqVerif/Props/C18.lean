import SqVerif.SettingsLemmas
import SqVerif.Gen.Defaults
/-
C18 — Settings persist across processes with the documented precedence.

"A setting written through the settings object is what any process started
later reads back unless the user's override file sets that key, resetting
restores every documented default in the store, and keys present in the user's
override file take precedence whenever user overrides are enabled."

Vocabulary (`Settings.lean`): `D` = the default table, `u` = the user's override
file (`none` = no file), `World` = memory of the writing process + the store
file, `boot D u store` = a *fresh process* (`Config()` on an empty `_config`),
`userValue u k` = what the user's file gives `k`, `enabled D store` = the
`_read_user` switch as defaults+store give it, `lastWritten D S0 ops` = the
last-writer table of a history (specification, no reference to the model's
state).  All theorems quantify over every default table, every user file,
every pre-existing store (also one with repeated keys), every key, every value
(values are opaque JSON texts) and every history.  `D` is instantiated with the
table regenerated from `settings.py` (`Gen.Defaults`) at the end.

Outside the statement, modelled faithfully and NOT claimed: a key the user's
file sets leaks into the store as soon as any key is set (the merged memory is
dumped), so once overrides are switched off a later process reads the user's
old value instead of the last value set (`user_value_leaks_when_disabled`).
The statement exempts exactly these keys.
-/
namespace SqVerif.C18
open SqVerif.Settings

/-- T18.1 read-after-write: after `set k v` by a settings object whose memory is
a dict, every process started later reads `v` for `k` — unless the user's file
sets `k` and overrides are enabled (then T18.3 applies). -/
theorem read_after_write (D : Store) (u : Option Store) (w : World) (k : Key) (v : Value)
    (hD : (lookup readUserKey D).isSome) (hw : wf w.mem = true)
    (h : userValue u k = none ∨ enabled D (step D u w (.set k v)).1.store = false) :
    (boot D u (step D u w (.set k v)).1.store).2 = .ok ∧
    lookup k (boot D u (step D u w (.set k v)).1.store).1.mem = some v := by
  refine ⟨boot_ok D u _ hD, ?_⟩
  have hb : lookup k (baseMem D (step D u w (.set k v)).1.store) = some v := by
    show lookup k (update (norm D) (put k v w.mem)) = some v
    rw [lookup_update, lookup_norm_of_wf k _ (wf_put k v _ hw), lookup_put]
    simp
  rcases h with h | h
  · rw [boot_lookup_plain D u _ k h]; exact hb
  · rw [boot_lookup_disabled D u _ k hD h]; exact hb

/-- T18.2 reset: after `default_settings()` the store exists and holds the
default of every documented key (whatever the memory, the store and the user's
file were). -/
theorem reset_restores_defaults (D : Store) (u : Option Store) (w : World) (hD : wf D = true) :
    (step D u w .reset).2 = .ok ∧
    ∃ s, (step D u w .reset).1.store = some s ∧ ∀ k v, (k, v) ∈ D → lookup k s = some v := by
  refine ⟨rfl, update w.mem D, rfl, fun k v hm => ?_⟩
  rw [lookup_update]
  have := defaultOf_of_mem D hD k v hm
  unfold defaultOf at this
  rw [this]; rfl

/-- T18.2' … and a process started after the reset reads the default of every
documented key that the user's file does not set. -/
theorem reset_read_back (D : Store) (u : Option Store) (w : World) (hD : wf D = true) (hw : wf w.mem = true)
    (k : Key) (v : Value) (hm : (k, v) ∈ D) (hu : userValue u k = none) :
    lookup k (boot D u (step D u w .reset).1.store).1.mem = some v := by
  rw [boot_lookup_plain D u _ k hu]
  show lookup k (update (norm D) (update w.mem D)) = some v
  have hd := defaultOf_of_mem D hD k v hm
  unfold defaultOf at hd
  rw [lookup_update, lookup_norm_of_wf k _ (wf_update _ _ hw), lookup_update, hd]
  rfl

/-- T18.3 user precedence: whenever overrides are enabled, a fresh process reads
the user's value for every key the user's file sets — whatever the store holds
(in particular whatever was set before). -/
theorem user_precedence (D : Store) (u : Option Store) (store : Option Store) (k : Key) (x : Value)
    (hu : userValue u k = some x) (he : enabled D store = true) :
    lookup k (boot D u store).1.mem = some x :=
  boot_lookup_user D u store k x hu he

/-- a fresh process never modifies a store it finds -/
theorem reader_leaves_store (D : Store) (u : Option Store) (s : Store) :
    (boot D u (some s)).1.store = some s :=
  boot_store_some D u s

/-- T18.4 single-writer history: start from any store left by earlier sessions
(or none), let one settings object — or a succession of processes, each taking
over from the previous one — perform ANY sequence of set / rejected set / reset /
reload / restart; then
  * no step raised, except the rejected sets (`TypeError`, nothing changed);
  * the memory of the writer is a dict and the store exists;
  * a process started now starts cleanly, leaves the store as it is, and reads
    - for every key the user's file does not set: the last value written
      (the `lastWritten` table: last `set` after the last `reset`, else the
      default, else what the old store had), and has the key iff the table does;
    - for every key the user's file sets, if overrides are enabled: the user's value.
Since `ops` is arbitrary this holds after every prefix, i.e. for a fresh reader
after each step. -/
theorem single_writer_history (D : Store) (u : Option Store) (S0 : Option Store) (ops : List Op)
    (hD : (lookup readUserKey D).isSome) :
    let w := run D u (boot D u S0).1 ops
    (∀ op, (step D u w op).2 = (match op with | .setBad _ => Outcome.typeError | _ => Outcome.ok)) ∧
    wf w.mem = true ∧
    (∃ s, w.store = some s) ∧
    (boot D u w.store).2 = .ok ∧
    (boot D u w.store).1.store = w.store ∧
    (∀ k, userValue u k = none → lookup k (boot D u w.store).1.mem = lastWritten D S0 ops k) ∧
    (∀ k x, userValue u k = some x → enabled D w.store = true →
        lookup k (boot D u w.store).1.mem = some x) := by
  intro w
  have hinv : Inv D u (lastWritten D S0 ops) w := inv_run D u _ _ ops (inv_boot D u S0)
  obtain ⟨s, hs, hsto⟩ := hinv.sto
  refine ⟨fun op => step_ok D u w op _ hD hinv, hinv.wfm, ⟨s, hs⟩, boot_ok D u _ hD, ?_, ?_, ?_⟩
  · rw [hs]; exact boot_store_some D u s
  · intro k hk
    rw [boot_lookup_plain D u _ k hk, hs]
    exact hsto k hk
  · intro k x hk he
    exact boot_lookup_user D u _ k x hk he

/-- the writer's own view agrees with the table too (keys outside the user's file) -/
theorem writer_view (D : Store) (u : Option Store) (S0 : Option Store) (ops : List Op) (k : Key)
    (hk : userValue u k = none) :
    lookup k (run D u (boot D u S0).1 ops).mem = lastWritten D S0 ops k :=
  (inv_run D u _ _ ops (inv_boot D u S0)).mem k hk

/-- T18.1 inside a history: the last `set k v` of any history is what a fresh
process reads (user's file not setting `k`). -/
theorem read_after_write_history (D : Store) (u : Option Store) (S0 : Option Store) (ops : List Op)
    (k : Key) (v : Value) (hD : (lookup readUserKey D).isSome) (hk : userValue u k = none) :
    lookup k (boot D u (run D u (boot D u S0).1 (ops ++ [.set k v])).store).1.mem = some v := by
  have := (single_writer_history D u S0 (ops ++ [.set k v]) hD).2.2.2.2.2.1 k hk
  rw [this]
  simp [lastWritten, specStep]

/-! ### the table regenerated from `settings.py` -/

open SqVerif.Gen.Defaults in
/-- the translator understood everything it met -/
theorem translated_completely : untranslated = [] := by decide

open SqVerif.Gen.Defaults in
/-- no key is listed twice in `_default_config` -/
theorem defaults_wf : wf defaults = true := by decide

open SqVerif.Gen.Defaults in
/-- `_read_user` is a documented key (so `update_settings` never raises `KeyError`) and is on by default -/
theorem defaults_have_switch : (lookup readUserKey defaults).map truthy = some true := by decide

theorem defaults_switch_isSome : (lookup readUserKey Gen.Defaults.defaults).isSome := by
  have := defaults_have_switch
  cases h : lookup readUserKey Gen.Defaults.defaults with
  | none => rw [h] at this; cases this
  | some x => rfl

/-- T18.2 for the documented table as it is in the source now -/
theorem reset_restores_documented_defaults (u : Option Store) (w : World) :
    ∃ s, (step Gen.Defaults.defaults u w .reset).1.store = some s ∧
      ∀ k v, (k, v) ∈ Gen.Defaults.defaults → lookup k s = some v :=
  (reset_restores_defaults Gen.Defaults.defaults u w defaults_wf).2

/-- T18.4 for the documented table -/
theorem documented_single_writer_history (u : Option Store) (S0 : Option Store) (ops : List Op) (k : Key) :
    let w := run Gen.Defaults.defaults u (boot Gen.Defaults.defaults u S0).1 ops
    (userValue u k = none →
      lookup k (boot Gen.Defaults.defaults u w.store).1.mem = lastWritten Gen.Defaults.defaults S0 ops k) ∧
    (∀ x, userValue u k = some x → enabled Gen.Defaults.defaults w.store = true →
      lookup k (boot Gen.Defaults.defaults u w.store).1.mem = some x) := by
  intro w
  have h := single_writer_history Gen.Defaults.defaults u S0 ops defaults_switch_isSome
  exact ⟨h.2.2.2.2.2.1 k, fun x => h.2.2.2.2.2.2 k x⟩

/-! ### outside the statement: the user-file leak (recorded, not claimed) -/

/-- a small default table for the concrete instances below (they must not depend on the generated one) -/
def demoDefaults : Store :=
  [("_read_user", "true"), ("max_qubits", "20"), ("log_level", "30"), ("noisy_qubits", "false"), ("t1", "1.0")]

/-- The user's file sets `max_qubits`; the settings object sets another key and
then switches overrides off.  A later process reads the user's 5 although the
settings object never wrote `max_qubits` (the last-writer table says 20). -/
theorem user_value_leaks_when_disabled :
    let D := demoDefaults
    let u : Option Store := some [("max_qubits", "5")]
    let ops := [Op.set "t1" "2.0", Op.set readUserKey "false"]
    let w := run D u (boot D u none).1 ops
    enabled D w.store = false ∧
    lookup "max_qubits" (boot D u w.store).1.mem = some "5" ∧
    lastWritten D none ops "max_qubits" = some "20" := by
  decide

/-! ### non-vacuity -/

/-- a history with every kind of step, a user file and a pre-existing store with a repeated key -/
example :
    let D := demoDefaults
    let u : Option Store := some [("log_level", "10"), ("extra", "[1,2]")]
    let S0 : Option Store := some [("t1", "3.5"), ("t1", "4.5")]
    let ops := [Op.set "max_qubits" "7", .setBad "sim_backend", .reload, .set "log_level" "50", .restart,
                .set "noisy_qubits" "true", .reset, .set "custom" "{\"a\":null}"]
    let w := run D u (boot D u S0).1 ops
    let r := (boot D u w.store).1.mem
    (lookup readUserKey D).isSome ∧ wf D = true ∧
    lookup "max_qubits" r = some "20" ∧ lookup "custom" r = some "{\"a\":null}" ∧
    lookup "log_level" r = some "10" ∧ lookup "t1" r = some "1.0" ∧
    lastWritten D S0 ops "t1" = some "1.0" ∧ enabled D w.store = true ∧
    userValue u "log_level" = some "10" ∧ userValue u "t1" = none := by
  decide

/-- hypotheses of T18.1 / T18.2' on a concrete state: the memory is a dict, the user's file does not set the key -/
example :
    let w : World := { mem := [("_read_user", "true"), ("t1", "1.0")], store := none }
    wf w.mem = true ∧ userValue (some [("max_qubits", "5")]) "t1" = none ∧
    enabled demoDefaults (step demoDefaults none w (.set "_read_user" "0")).1.store = false := by
  decide

example : wf ([("a", "1"), ("b", "2")] : Store) = true ∧ wf ([("a", "1"), ("a", "2")] : Store) = false := by decide

end SqVerif.C18

import SqVerif.StabSpec
/-
Helper lemmas for C13 (gate part), layer 1: positional lemmas about
`getP`/`setP` against `mulL`/`phL`/`antiL`, the letter-level facts about the
conjugation tables, and the string-level algebra of `conjAt1` / `conjAt2`
(homomorphism, commutation character, identity, inverse).  Core Lean only.
-/
namespace SqVerif.Stab.Gate

/-! ### getP / setP -/

@[simp] theorem getP_nil (j : Nat) : getP [] j = (false, false) := by simp [getP]
@[simp] theorem getP_cons_zero (a : P1) (as : List P1) : getP (a :: as) 0 = a := by simp [getP]
@[simp] theorem getP_cons_succ (a : P1) (as : List P1) (j : Nat) : getP (a :: as) (j + 1) = getP as j := by
  simp [getP]
@[simp] theorem setP_nil (j : Nat) (b : P1) : setP [] j b = [] := by simp [setP]
@[simp] theorem setP_cons_zero (a : P1) (as : List P1) (b : P1) : setP (a :: as) 0 b = b :: as := by simp [setP]
@[simp] theorem setP_cons_succ (a : P1) (as : List P1) (j : Nat) (b : P1) :
    setP (a :: as) (j + 1) b = a :: setP as j b := by simp [setP]
@[simp] theorem setP_length (ps : List P1) (j : Nat) (a : P1) : (setP ps j a).length = ps.length := by
  simp [setP]

theorem setP_getP_self (ps : List P1) (j : Nat) : setP ps j (getP ps j) = ps := by
  induction ps generalizing j with
  | nil => simp
  | cons a as ih => cases j <;> simp [ih]

theorem getP_setP_eq (ps : List P1) (j : Nat) (a : P1) (h : j < ps.length) : getP (setP ps j a) j = a := by
  induction ps generalizing j with
  | nil => simp at h
  | cons b bs ih => cases j with
    | zero => simp
    | succ j => simpa using ih j (by simpa using h)

theorem getP_setP_ne (ps : List P1) (i j : Nat) (a : P1) (h : i ≠ j) : getP (setP ps j a) i = getP ps i := by
  induction ps generalizing i j with
  | nil => simp
  | cons b bs ih =>
    cases j with
    | zero => cases i with
      | zero => exact absurd rfl h
      | succ i => simp
    | succ j => cases i with
      | zero => simp
      | succ i => simpa using ih i j (by omega)

theorem setP_setP_same (ps : List P1) (j : Nat) (a b : P1) : setP (setP ps j a) j b = setP ps j b := by
  induction ps generalizing j with
  | nil => simp
  | cons c cs ih => cases j <;> simp [ih]

theorem setP_comm (ps : List P1) (i j : Nat) (a b : P1) (h : i ≠ j) :
    setP (setP ps i a) j b = setP (setP ps j b) i a := by
  induction ps generalizing i j with
  | nil => simp
  | cons c cs ih =>
    cases i with
    | zero => cases j with
      | zero => exact absurd rfl h
      | succ j => simp
    | succ i => cases j with
      | zero => simp
      | succ j => simpa using ih i j (by omega)

theorem setP_replicate_self (n j : Nat) (a : P1) : setP (List.replicate n a) j a = List.replicate n a := by
  induction n generalizing j with
  | zero => simp
  | succ n ih => cases j <;> simp [List.replicate, ih]

theorem getP_replicate (n j : Nat) : getP (List.replicate n (false, false)) j = (false, false) := by
  induction n generalizing j with
  | zero => simp
  | succ n ih => cases j <;> simp [List.replicate, ih]

/-! ### positional lemmas for the string product -/

theorem getP_mulL (p q : List P1) (j : Nat) (hp : j < p.length) (hq : j < q.length) :
    getP (mulL p q) j = mul1 (getP p j) (getP q j) := by
  induction p generalizing q j with
  | nil => simp at hp
  | cons a as ih => cases q with
    | nil => simp at hq
    | cons b bs => cases j with
      | zero => simp [mulL]
      | succ j => simpa [mulL] using ih bs j (by simpa using hp) (by simpa using hq)

theorem mulL_setP (p q : List P1) (j : Nat) (a b : P1) :
    mulL (setP p j a) (setP q j b) = setP (mulL p q) j (mul1 a b) := by
  induction p generalizing q j with
  | nil => cases q <;> simp [mulL]
  | cons c cs ih => cases q with
    | nil => cases j <;> simp [mulL]
    | cons d ds => cases j with
      | zero => simp [mulL]
      | succ j => simp [mulL, ih]

theorem phL_setP (p q : List P1) (j : Nat) (a b : P1) (hp : j < p.length) (hq : j < q.length) :
    phL (setP p j a) (setP q j b) + iexp (getP p j) (getP q j) = phL p q + iexp a b := by
  induction p generalizing q j with
  | nil => simp at hp
  | cons c cs ih => cases q with
    | nil => simp at hq
    | cons d ds => cases j with
      | zero => simp [phL]; omega
      | succ j =>
        have := ih ds j (by simpa using hp) (by simpa using hq)
        simp [phL]; omega

theorem antiL_setP (p q : List P1) (j : Nat) (a b : P1) (hp : j < p.length) (hq : j < q.length) :
    (antiL (setP p j a) (setP q j b) != anti1 (getP p j) (getP q j)) = (antiL p q != anti1 a b) := by
  induction p generalizing q j with
  | nil => simp at hp
  | cons c cs ih => cases q with
    | nil => simp at hq
    | cons d ds => cases j with
      | zero =>
        simp only [setP_cons_zero, getP_cons_zero, antiL]
        cases anti1 a b <;> cases anti1 c d <;> cases antiL cs ds <;> rfl
      | succ j =>
        have := ih ds j (by simpa using hp) (by simpa using hq)
        simp only [setP_cons_succ, getP_cons_succ, antiL]
        revert this
        cases anti1 a b <;> cases anti1 c d <;> cases antiL cs ds <;>
          cases antiL (setP cs j a) (setP ds j b) <;> cases anti1 (getP cs j) (getP ds j) <;> decide

/-! ### letter-level facts about the tables -/

/-- inverse table: `U† a U`; all gates but S are involutions up to a global phase -/
def conj1inv : Gate1 → P1 → Nat × P1
  | .S, (true, false) => (2, (true, true))   -- S† X S = -Y
  | .S, (true, true) => (0, (true, false))   -- S† Y S = X
  | .S, a => (0, a)
  | g, a => conj1 g a

theorem conj1_mul (g : Gate1) (a b : P1) :
    (conj1 g (mul1 a b)).2 = mul1 (conj1 g a).2 (conj1 g b).2 ∧
    ((conj1 g a).1 + (conj1 g b).1 + iexp (conj1 g a).2 (conj1 g b).2) % 4 =
      (iexp a b + (conj1 g (mul1 a b)).1) % 4 := by
  rcases a with ⟨a1, a2⟩; rcases b with ⟨b1, b2⟩
  cases g <;> cases a1 <;> cases a2 <;> cases b1 <;> cases b2 <;> decide

theorem conj1_anti (g : Gate1) (a b : P1) : anti1 (conj1 g a).2 (conj1 g b).2 = anti1 a b := by
  rcases a with ⟨a1, a2⟩; rcases b with ⟨b1, b2⟩
  cases g <;> cases a1 <;> cases a2 <;> cases b1 <;> cases b2 <;> decide

theorem conj1_I (g : Gate1) : conj1 g (false, false) = (0, (false, false)) := by cases g <;> rfl

theorem conj1_even (g : Gate1) (a : P1) : (conj1 g a).1 % 2 = 0 := by
  rcases a with ⟨x, z⟩; cases g <;> cases x <;> cases z <;> decide
theorem conj1inv_even (g : Gate1) (a : P1) : (conj1inv g a).1 % 2 = 0 := by
  rcases a with ⟨x, z⟩; cases g <;> cases x <;> cases z <;> decide

theorem conj1inv_conj1 (g : Gate1) (a : P1) :
    (conj1inv g (conj1 g a).2).2 = a ∧ ((conj1 g a).1 + (conj1inv g (conj1 g a).2).1) % 4 = 0 := by
  rcases a with ⟨x, z⟩; cases g <;> cases x <;> cases z <;> decide
theorem conj1_conj1inv (g : Gate1) (a : P1) :
    (conj1 g (conj1inv g a).2).2 = a ∧ ((conj1inv g a).1 + (conj1 g (conj1inv g a).2).1) % 4 = 0 := by
  rcases a with ⟨x, z⟩; cases g <;> cases x <;> cases z <;> decide

theorem conj2_mul (g : Gate2) (a b c d : P1) :
    (conj2 g (mul1 a c) (mul1 b d)).2.1 = mul1 (conj2 g a b).2.1 (conj2 g c d).2.1 ∧
    (conj2 g (mul1 a c) (mul1 b d)).2.2 = mul1 (conj2 g a b).2.2 (conj2 g c d).2.2 ∧
    ((conj2 g a b).1 + (conj2 g c d).1 + iexp (conj2 g a b).2.1 (conj2 g c d).2.1
        + iexp (conj2 g a b).2.2 (conj2 g c d).2.2) % 4 =
      (iexp a c + iexp b d + (conj2 g (mul1 a c) (mul1 b d)).1) % 4 := by
  rcases a with ⟨a1, a2⟩; rcases b with ⟨b1, b2⟩; rcases c with ⟨c1, c2⟩; rcases d with ⟨d1, d2⟩
  cases g <;> cases a1 <;> cases a2 <;> cases b1 <;> cases b2 <;> cases c1 <;> cases c2 <;>
    cases d1 <;> cases d2 <;> decide

theorem conj2_anti (g : Gate2) (a b c d : P1) :
    (anti1 (conj2 g a b).2.1 (conj2 g c d).2.1 != anti1 (conj2 g a b).2.2 (conj2 g c d).2.2) =
      (anti1 a c != anti1 b d) := by
  rcases a with ⟨a1, a2⟩; rcases b with ⟨b1, b2⟩; rcases c with ⟨c1, c2⟩; rcases d with ⟨d1, d2⟩
  cases g <;> cases a1 <;> cases a2 <;> cases b1 <;> cases b2 <;> cases c1 <;> cases c2 <;>
    cases d1 <;> cases d2 <;> decide

theorem conj2_I (g : Gate2) : conj2 g (false, false) (false, false) = (0, (false, false), (false, false)) := by
  cases g <;> rfl

theorem conj2_even (g : Gate2) (a b : P1) : (conj2 g a b).1 % 2 = 0 := by
  rcases a with ⟨a1, a2⟩; rcases b with ⟨b1, b2⟩
  cases g <;> cases a1 <;> cases a2 <;> cases b1 <;> cases b2 <;> decide

/-- CNOT and CZ are involutions: the table is its own inverse -/
theorem conj2_conj2 (g : Gate2) (a b : P1) :
    (conj2 g (conj2 g a b).2.1 (conj2 g a b).2.2).2 = (a, b) ∧
    ((conj2 g a b).1 + (conj2 g (conj2 g a b).2.1 (conj2 g a b).2.2).1) % 4 = 0 := by
  rcases a with ⟨a1, a2⟩; rcases b with ⟨b1, b2⟩
  cases g <;> cases a1 <;> cases a2 <;> cases b1 <;> cases b2 <;> decide

/-! ### the model's row maps are the tables -/

theorem gate1_row_eq (g : Gate1) (j : Nat) (r : Row) :
    g.row j r = ⟨setP r.ps j (conj1 g (getP r.ps j)).2, r.neg != ((conj1 g (getP r.ps j)).1 == 2)⟩ := by
  have hs := setP_getP_self r.ps j
  rcases r with ⟨ps, neg⟩
  simp only at hs
  cases g <;> simp only [Gate1.row, rowX, rowY, rowZ, rowH, rowK, rowS, Row.x, Row.z] <;>
    generalize hg : getP ps j = a at * <;> rcases a with ⟨x, z⟩ <;>
    cases x <;> cases z <;> simp_all [conj1]

theorem gate2_row_eq (g : Gate2) (c t : Nat) (r : Row) :
    g.row c t r = ⟨setP (setP r.ps t (conj2 g (getP r.ps c) (getP r.ps t)).2.2) c
                      (conj2 g (getP r.ps c) (getP r.ps t)).2.1,
                    r.neg != ((conj2 g (getP r.ps c) (getP r.ps t)).1 == 2)⟩ := by
  rcases r with ⟨ps, neg⟩
  cases g <;> simp only [Gate2.row, rowCNOT, rowCZ, Row.x, Row.z] <;>
    generalize getP ps c = a <;> generalize getP ps t = b <;>
    rcases a with ⟨xc, zc⟩ <;> rcases b with ⟨xt, zt⟩ <;>
    cases xc <;> cases zc <;> cases xt <;> cases zt <;> simp [conj2]

/-! ### string-level conjugation -/

def unconjAt1 (g : Gate1) (j : Nat) (p : POp) : POp :=
  let r := conj1inv g (getP p.ps j)
  ⟨p.ph + r.1, setP p.ps j r.2⟩

theorem conjAt1_len (g : Gate1) (j : Nat) (p : POp) : (conjAt1 g j p).len = p.len := by
  simp [conjAt1, POp.len]
theorem unconjAt1_len (g : Gate1) (j : Nat) (p : POp) : (unconjAt1 g j p).len = p.len := by
  simp [unconjAt1, POp.len]
theorem conjAt2_len (g : Gate2) (c t : Nat) (p : POp) : (conjAt2 g c t p).len = p.len := by
  simp [conjAt2, POp.len]

theorem conjAt1_congr (g : Gate1) (j : Nat) {p q : POp} (h : p ≈ₚ q) : conjAt1 g j p ≈ₚ conjAt1 g j q := by
  obtain ⟨h1, h2⟩ := h
  refine ⟨by simp [conjAt1, h1], ?_⟩
  simp only [conjAt1, h1]; omega
theorem unconjAt1_congr (g : Gate1) (j : Nat) {p q : POp} (h : p ≈ₚ q) : unconjAt1 g j p ≈ₚ unconjAt1 g j q := by
  obtain ⟨h1, h2⟩ := h
  refine ⟨by simp [unconjAt1, h1], ?_⟩
  simp only [unconjAt1, h1]; omega
theorem conjAt2_congr (g : Gate2) (c t : Nat) {p q : POp} (h : p ≈ₚ q) : conjAt2 g c t p ≈ₚ conjAt2 g c t q := by
  obtain ⟨h1, h2⟩ := h
  refine ⟨by simp [conjAt2, h1], ?_⟩
  simp only [conjAt2, h1]; omega

/-- every row is mapped to its conjugate, sign included -/
theorem gate1_row_den (g : Gate1) (j : Nat) (r : Row) : (g.row j r).den ≈ₚ conjAt1 g j r.den := by
  rw [gate1_row_eq]
  refine ⟨rfl, ?_⟩
  have h := conj1_even g (getP r.ps j)
  have h' : (conj1 g (getP r.ps j)).1 = 0 ∨ (conj1 g (getP r.ps j)).1 = 2 := by
    rcases hg : getP r.ps j with ⟨x, z⟩
    cases g <;> cases x <;> cases z <;> decide
  simp only [Row.den, conjAt1]
  rcases h' with h' | h' <;> rw [h'] <;> cases r.neg <;> simp

theorem gate2_row_den (g : Gate2) (c t : Nat) (r : Row) : (g.row c t r).den ≈ₚ conjAt2 g c t r.den := by
  rw [gate2_row_eq]
  refine ⟨rfl, ?_⟩
  have h' : (conj2 g (getP r.ps c) (getP r.ps t)).1 = 0 ∨ (conj2 g (getP r.ps c) (getP r.ps t)).1 = 2 := by
    rcases getP r.ps c with ⟨a1, a2⟩; rcases getP r.ps t with ⟨b1, b2⟩
    cases g <;> cases a1 <;> cases a2 <;> cases b1 <;> cases b2 <;> decide
  simp only [Row.den, conjAt2]
  rcases h' with h' | h' <;> rw [h'] <;> cases r.neg <;> simp

/-- conjugation is a phase-exact homomorphism -/
theorem conjAt1_mul (g : Gate1) (j : Nat) (p q : POp) (hp : j < p.ps.length) (hq : j < q.ps.length) :
    conjAt1 g j (p ⋆ q) ≈ₚ conjAt1 g j p ⋆ conjAt1 g j q := by
  have hl := conj1_mul g (getP p.ps j) (getP q.ps j)
  have hg := getP_mulL p.ps q.ps j hp hq
  constructor
  · simp only [conjAt1, POp.mul, hg, mulL_setP, hl.1]
  · have h2 := phL_setP p.ps q.ps j (conj1 g (getP p.ps j)).2 (conj1 g (getP q.ps j)).2 hp hq
    have h3 := hl.2
    simp only [conjAt1, POp.mul, hg]
    omega

theorem conjAt1_anti (g : Gate1) (j : Nat) (p q : POp) (hp : j < p.ps.length) (hq : j < q.ps.length) :
    antiL (conjAt1 g j p).ps (conjAt1 g j q).ps = antiL p.ps q.ps := by
  have h := antiL_setP p.ps q.ps j (conj1 g (getP p.ps j)).2 (conj1 g (getP q.ps j)).2 hp hq
  rw [conj1_anti] at h
  simp only [conjAt1]
  revert h
  cases antiL (setP p.ps j (conj1 g (getP p.ps j)).2) (setP q.ps j (conj1 g (getP q.ps j)).2) <;>
    cases antiL p.ps q.ps <;> cases anti1 (getP p.ps j) (getP q.ps j) <;> decide

theorem conjAt1_one (g : Gate1) (j n : Nat) : conjAt1 g j (one n) = one n := by
  simp only [conjAt1, one, I1, getP_replicate, conj1_I, setP_replicate_self, Nat.add_zero]

theorem unconjAt1_conjAt1 (g : Gate1) (j : Nat) (p : POp) (hp : j < p.ps.length) :
    unconjAt1 g j (conjAt1 g j p) ≈ₚ p := by
  have h := conj1inv_conj1 g (getP p.ps j)
  constructor
  · simp only [unconjAt1, conjAt1, getP_setP_eq _ _ _ hp, setP_setP_same, h.1, setP_getP_self]
  · have h2 := h.2
    simp only [unconjAt1, conjAt1, getP_setP_eq _ _ _ hp]
    omega

theorem conjAt1_unconjAt1 (g : Gate1) (j : Nat) (p : POp) (hp : j < p.ps.length) :
    conjAt1 g j (unconjAt1 g j p) ≈ₚ p := by
  have h := conj1_conj1inv g (getP p.ps j)
  constructor
  · simp only [unconjAt1, conjAt1, getP_setP_eq _ _ _ hp, setP_setP_same, h.1, setP_getP_self]
  · have h2 := h.2
    simp only [unconjAt1, conjAt1, getP_setP_eq _ _ _ hp]
    omega

/-! two positions -/

theorem conjAt2_mul (g : Gate2) (c t : Nat) (p q : POp) (hcp : c < p.ps.length) (hcq : c < q.ps.length)
    (htp : t < p.ps.length) (htq : t < q.ps.length) (hne : c ≠ t) :
    conjAt2 g c t (p ⋆ q) ≈ₚ conjAt2 g c t p ⋆ conjAt2 g c t q := by
  have hl := conj2_mul g (getP p.ps c) (getP p.ps t) (getP q.ps c) (getP q.ps t)
  have hgc := getP_mulL p.ps q.ps c hcp hcq
  have hgt := getP_mulL p.ps q.ps t htp htq
  constructor
  · simp only [conjAt2, POp.mul, hgc, hgt, mulL_setP, hl.1, hl.2.1]
  · generalize hA : conj2 g (getP p.ps c) (getP p.ps t) = A at *
    generalize hB : conj2 g (getP q.ps c) (getP q.ps t) = B at *
    have h1 := phL_setP (setP p.ps t A.2.2) (setP q.ps t B.2.2) c A.2.1 B.2.1 (by simpa using hcp) (by simpa using hcq)
    rw [getP_setP_ne _ _ _ _ hne, getP_setP_ne _ _ _ _ hne] at h1
    have h2 := phL_setP p.ps q.ps t A.2.2 B.2.2 htp htq
    have h3 := hl.2.2
    simp only [conjAt2, POp.mul, hgc, hgt, hA, hB]
    omega

theorem conjAt2_anti (g : Gate2) (c t : Nat) (p q : POp) (hcp : c < p.ps.length) (hcq : c < q.ps.length)
    (htp : t < p.ps.length) (htq : t < q.ps.length) (hne : c ≠ t) :
    antiL (conjAt2 g c t p).ps (conjAt2 g c t q).ps = antiL p.ps q.ps := by
  have hl := conj2_anti g (getP p.ps c) (getP p.ps t) (getP q.ps c) (getP q.ps t)
  generalize hA : conj2 g (getP p.ps c) (getP p.ps t) = A at *
  generalize hB : conj2 g (getP q.ps c) (getP q.ps t) = B at *
  have h1 := antiL_setP (setP p.ps t A.2.2) (setP q.ps t B.2.2) c A.2.1 B.2.1 (by simpa using hcp) (by simpa using hcq)
  rw [getP_setP_ne _ _ _ _ hne, getP_setP_ne _ _ _ _ hne] at h1
  have h2 := antiL_setP p.ps q.ps t A.2.2 B.2.2 htp htq
  simp only [conjAt2, hA, hB]
  revert h1 h2 hl
  cases antiL (setP (setP p.ps t A.2.2) c A.2.1) (setP (setP q.ps t B.2.2) c B.2.1) <;>
    cases antiL (setP p.ps t A.2.2) (setP q.ps t B.2.2) <;> cases antiL p.ps q.ps <;>
    cases anti1 (getP p.ps c) (getP q.ps c) <;> cases anti1 (getP p.ps t) (getP q.ps t) <;>
    cases anti1 A.2.1 B.2.1 <;> cases anti1 A.2.2 B.2.2 <;> decide

theorem conjAt2_one (g : Gate2) (c t n : Nat) : conjAt2 g c t (one n) = one n := by
  simp only [conjAt2, one, I1, getP_replicate, conj2_I, setP_replicate_self, Nat.add_zero]

/-- CNOT / CZ conjugation is an involution on strings -/
theorem conjAt2_conjAt2 (g : Gate2) (c t : Nat) (p : POp) (hc : c < p.ps.length) (ht : t < p.ps.length)
    (hne : c ≠ t) : conjAt2 g c t (conjAt2 g c t p) ≈ₚ p := by
  have h := conj2_conj2 g (getP p.ps c) (getP p.ps t)
  generalize hA : conj2 g (getP p.ps c) (getP p.ps t) = A at *
  have e1 : getP (setP (setP p.ps t A.2.2) c A.2.1) c = A.2.1 := getP_setP_eq _ _ _ (by simpa using hc)
  have e2 : getP (setP (setP p.ps t A.2.2) c A.2.1) t = A.2.2 := by
    rw [getP_setP_ne _ _ _ _ (Ne.symm hne), getP_setP_eq _ _ _ ht]
  have h1 : (conj2 g A.2.1 A.2.2).2.1 = getP p.ps c := by rw [h.1]
  have h2 : (conj2 g A.2.1 A.2.2).2.2 = getP p.ps t := by rw [h.1]
  constructor
  · simp only [conjAt2, hA, e1, e2, h1, h2]
    rw [setP_comm _ c t _ _ hne, setP_setP_same, setP_setP_same, setP_getP_self, setP_getP_self]
  · have h3 := h.2
    simp only [conjAt2, hA, e1, e2]
    omega

end SqVerif.Stab.Gate

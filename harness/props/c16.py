"""C16 — network configuration stays well-formed; node ids are a consistent bijection.

Code under test: simulaqron/toolbox/manage_nodes.py (NetworksConfigConstructor),
simulaqron/general/host_config.py (SocketsConfig, get_node_id_from_net_config,
get_node_name_from_net_config), simulaqron/sdk/connection.py (SimulaQronNetworkInfo).

Cases: random edit scripts (add/remove node, add/remove network, reset, reload =
write + fresh constructor from the file, load = fresh constructor from a hand-made
file (valid with distinct endpoints, or structurally broken), changes of the scripted
OS port probe)
over the networks default/n1/n2, 6 node names, hosts from a small pool and
explicit ports from a small pool so that clashes, refusals and port exhaustion
really happen.  `_check_socket_is_free` is replaced from outside by the scripted
probe; nothing in /repo is edited.

Oracle (independent of the Lean model), after EVERY edit, on the real objects:
  * no two endpoints of all networks share (host, port); every port is an int;
  * a node removed by remove_node is in neither the node list nor the topology
    (keys and neighbour lists) of that network — in memory and in the file;
  * write_to_file + fresh NetworksConfigConstructor(file) gives an equal to_dict(),
    and the JSON text read back equals to_dict();
  * for every network and each of the three roles SocketsConfig gives the same
    name->id map, ids are exactly 0..n-1, id->name is its inverse (through
    SimulaQronNetworkInfo for the default network, through
    get_node_name_from_net_config when the code has it), a second participant
    reading the same file gets the same answers, unknown names / ids are refused.
Tie: the same scripts go to the Lean driver `config`; outcome, canonical
to_dict(), used_sockets, round-trip flag after every edit and both lookup
tables for the three roles are compared.

CLI stage (harness/cli_cases.py, called at the end of run): command scripts
`simulaqron nodes add/remove/default/get`, `reset`, `set network-config-file`,
... run through the real click commands, one fresh interpreter per command;
the network file each command leaves behind is judged by oracle_state above
(plus oracles of the glue: the edit lands in the named network and nowhere
else, a refused / declined / malformed command changes nothing) and compared
with the same driver (a CLI process is `reload` + the edit)."""
import json
import os
import sys

from .. import core
from .. import cli_cases as cli    # CLI stage: the click commands `simulaqron nodes ... / reset`, one process per command

LEAN_TARGETS = ["SqVerif.Props.C16"]
PROPS_FILE = "SqVerif/Props/C16.lean"
DRIVE_TARGETS = ["SqVerif.Drive.Config"]
TRUSTED = [
    "model Config.lean hand-written from manage_nodes.py / host_config.py / connection.py (with the repairs of "
    "branch fix-c16); tied by differential execution after every edit (this check)",
    "the OS bind probe _check_socket_is_free is replaced by a scripted function (theorems hold for every such function)",
    "Python dict = insertion-ordered association list; json.dump/json.load = the abstract JSON value of the model",
    "CLI stage (harness/cli_cases.py): every `simulaqron nodes ...` / `reset` command is a fresh interpreter on the console "
    "entry point in a private installation directory; the OS bind probe is scripted at socket.socket.bind of that "
    "interpreter; the package `daemons` (not installed here) is a recording stand-in (harness/cli_shims), nothing is launched; "
    "the translation command -> model edits (process = reload, default file created at start-up = new+reset, nodes default = "
    "add_network of the five names) is hand-written in cli_cases.py and tied by comparing the written file after every command",
]
ASSUMPTIONS = [
    "a host is its configured string (the code's own notion): two strings resolving to one address are different hosts",
    "read_from_file into a constructor that already holds networks (a merge of two files) is not an edit of the histories",
    "hand-edited files whose ports are not integers / hosts not strings are outside the model",
]

NETS = [None, "default", "n1", "n2"]
NAMES = ["Alice", "Bob", "Eve", "alice", "Zoë", "B0b"]
HOSTS = [None, None, None, "localhost", "127.0.0.1", "127.0.0.2"]
PORTS = [8000, 8001, 8002, 8003, 8004, 8005, 8006, 7999, 9000, 9001, 12345]
ROLES = ("app", "qnodeos", "vnode")
SOCK_KEYS = ("app_socket", "qnodeos_socket", "vnode_socket")


# --------------------------------------------------------------------------
# encoding for the Lean driver and canonical observations
# --------------------------------------------------------------------------

def tok(x):
    return "-" if x is None else str(x)


def line_of(e):
    op = e["op"]
    if op == "env":
        return "env %s %s" % (e["kind"], " ".join(str(p) for p in e["ports"]))
    if op == "addnode":
        s = e["socks"]
        nb = e["nb"]
        nbs = "-" if nb is None else ("[]" if not nb else ",".join(nb))
        return "addnode %s %s %s %s %s %s %s %s %s" % (
            e["name"], tok(e["net"]), tok(s[0][0]), tok(s[0][1]), tok(s[1][0]), tok(s[1][1]), tok(s[2][0]),
            tok(s[2][1]), nbs)
    if op == "rmnode":
        return "rmnode %s %s" % (e["name"], tok(e["net"]))
    if op == "rmnet":
        return "rmnet %s" % tok(e["net"])
    if op == "addnet":
        t = e["topo"]
        ts = "-" if t is None else ("{}" if not t else ";".join("%s:%s" % (k, "+".join(v)) for k, v in t.items()))
        return "addnet %s %s %s" % (tok(e["net"]), ",".join(e["names"]) or "[]", ts)
    if op == "load":
        return "load " + " ".join(jtok(e["json"]))
    if op == "bind":
        return "new"       # the model's fresh constructor (Config.lean has no notion of a path: a write never
    return op              # changes the object, `write` has no model line) ; reset / reload / write


def jtok(v):
    """a JSON value as the prefix tokens the driver parses"""
    if v is None:
        return ["z"]
    if isinstance(v, int) and not isinstance(v, bool):
        return ["n%d" % v]
    if isinstance(v, str):
        return ["s" + v]
    if isinstance(v, list):
        return ["a%d" % len(v)] + [t for x in v for t in jtok(x)]
    if isinstance(v, dict):
        return ["o%d" % len(v)] + [t for k, x in v.items() for t in ["k" + k] + jtok(x)]
    raise core.MachineryError("cannot encode %r" % (v,))


def canon_nets(d):
    parts = []
    for net in sorted(d):
        nd = d[net]
        nodes = ",".join(
            "%s=%s" % (n, "/".join("%s:%s" % tuple(nd["nodes"][n][k]) for k in SOCK_KEYS)) for n in sorted(nd["nodes"]))
        t = nd["topology"]
        topo = "~" if t is None else ",".join("%s:%s" % (k, "+".join(t[k])) for k in sorted(t))
        parts.append("%s{%s}{%s}" % (net, nodes, topo))
    return "|".join(parts)


# --------------------------------------------------------------------------
# the implementation under test, driven from outside
# --------------------------------------------------------------------------

def impl_entry(exc):
    """name of the outermost function of the code under test (scratch copy of simulaqron) on the traceback of
    `exc`, None if the traceback never enters it.  The harness calls the implementation, never the other way round
    (the scripted probe aside), so an exception with such a frame ESCAPED from the implementation: where the called
    operation must succeed that is a violation (`<function>:raises:<Class>`), never a crash of the harness;
    an exception without one is a bug of the harness and must stay loud."""
    import traceback
    root = os.path.join(core.scratch_repo(), "simulaqron") + os.sep
    for fr in traceback.extract_tb(exc.__traceback__):
        if fr.filename.startswith(root) or (os.sep + "simulaqron" + os.sep) in fr.filename and "harness" not in fr.filename:
            return fr.name if fr.name != "<module>" else os.path.basename(fr.filename)
    return None


def raises_key(exc):
    """violation key for an exception that escaped from the implementation, or None (harness bug: re-raise)"""
    if isinstance(exc, core.MachineryError):
        return None
    fn = impl_entry(exc)
    return None if fn is None else "%s:raises:%s" % (fn, type(exc).__name__)


class Impl:
    def __init__(self, mods, path):
        self.m = mods
        self.path = path
        self.env = ("busy", [])
        self.c = mods["N"]()

    def probe(self, port):
        kind, ports = self.env
        return (port not in ports) if kind == "busy" else (port in ports)

    def apply(self, e):
        """returns the outcome string"""
        op = e["op"]
        c = self.c
        try:
            if op == "env":
                self.env = (e["kind"], list(e["ports"]))
            elif op == "addnode":
                s = e["socks"]
                c.add_node(e["name"], network_name=e["net"], app_hostname=s[0][0], qnodeos_hostname=s[1][0],
                           vnode_hostname=s[2][0], app_port=s[0][1], qnodeos_port=s[1][1], vnode_port=s[2][1],
                           neighbors=None if e["nb"] is None else list(e["nb"]))
            elif op == "rmnode":
                c.remove_node(e["name"], network_name=e["net"])
            elif op == "rmnet":
                c.remove_network(network_name=e["net"])
            elif op == "addnet":
                topo = None if e["topo"] is None else {k: list(v) for k, v in e["topo"].items()}
                c.add_network(list(e["names"]), network_name=e["net"], topology=topo)
            elif op == "reset":
                c.reset()
            elif op == "load":
                with open(self.path, "w") as f:
                    json.dump(e["json"], f)
                try:
                    self.c = self.m["N"](file_path=self.path)
                except Exception:
                    return "loadError"
            elif op == "reload":
                try:
                    c.write_to_file(self.path)
                    self.c = self.m["N"](file_path=self.path)
                except Exception:
                    return "loadError"
            elif op == "bind":
                # a fresh LONG-LIVED constructor bound to the (not yet existing) file: every later write goes to the
                # path the object is bound to
                if os.path.exists(self.path):
                    os.remove(self.path)
                self.c = self.m["N"](file_path=self.path)
            elif op == "write":
                # the object writes itself and lives on (bound: to its own file, no argument)
                if c.file_path is None:
                    c.write_to_file(self.path)
                else:
                    c.write_to_file()
            else:
                raise core.MachineryError("unknown edit %r" % (e,))
        except ValueError as x:
            msg = str(x)
            if "already in use" in msg:
                return "inUse"
            if "no unused port" in msg:
                return "noPort"
            return "crash:ValueError"
        except KeyError:
            return "keyError" if op == "addnet" else "crash:KeyError"
        except core.MachineryError:
            raise
        except Exception as x:
            return "crash:" + type(x).__name__
        return "ok"

    def reread(self):
        """write the file, read it back: (fresh constructor or None, parsed json or None)"""
        self.reread_exc = None
        try:
            self.c.write_to_file(self.path)
            with open(self.path) as f:
                raw = json.load(f)
            return self.m["N"](file_path=self.path), raw
        except Exception as x:
            self.reread_exc = x
            return None, None

    def observe(self, outcome):
        d = self.c.to_dict()
        c2, _ = self.reread()
        rt = "err" if c2 is None else ("same" if c2.to_dict() == d else "diff")
        used = ",".join(sorted("%s:%s" % (h, p) for (h, p) in self.c.used_sockets))
        return "%s %s used=%s rt=%s" % (outcome, canon_nets(d), used, rt)

    def ids(self, net):
        """the two lookup tables for the three roles, as the driver prints them (file is already written)"""
        m = self.m
        out = []
        for role in ROLES:
            try:
                cfg = m["SocketsConfig"](self.path, network_name=net, config_type=role)
            except KeyError:
                return "KeyError"
            except Exception as x:
                return "crash:" + type(x).__name__
            names = list(cfg.hostDict)

            def gid(x):
                try:
                    return str(m["get_id"](cfg, x))
                except ValueError:
                    return "!"

            def gname(i):
                if m["get_name"] is None:
                    return "?"
                try:
                    return m["get_name"](cfg, i)
                except KeyError:
                    return "!"

            idp = ",".join("%s=%s" % (x, gid(x)) for x in sorted(names) + ["Nobody"])
            namep = ",".join("%d=%s" % (i, gname(i)) for i in range(-1, len(names) + 1))
            out.append("%s:%s#%s" % (role, idp, namep))
        return " ".join(out)


# --------------------------------------------------------------------------
# the oracle: the property itself, checked directly on the real objects
# --------------------------------------------------------------------------

def oracle_state(impl, last_edit):
    """list of (key, what) violations of C16 in the current state of the real constructor"""
    bad = []
    m = impl.m
    try:
        d = impl.c.to_dict()
    except Exception as x:
        k = raises_key(x)
        if k is None:
            raise
        return [(k, "to_dict() raised %r" % (x,))]
    # 1. endpoints pairwise distinct, ports are integers
    seen = {}
    for net, nd in d.items():
        for name, sd in nd["nodes"].items():
            for k in SOCK_KEYS:
                host, port = sd[k]
                if not isinstance(port, int) or isinstance(port, bool):
                    bad.append(("endpoints:port-not-int", "%s/%s %s has port %r" % (net, name, k, port)))
                ep = (host, port)
                if ep in seen:
                    bad.append(("endpoints:duplicate", "endpoint %r is both %s and %s/%s %s" % (ep, seen[ep], net, name, k)))
                seen[ep] = "%s/%s %s" % (net, name, k)
    # 3. write + read reproduces the configuration exactly
    c2, raw = impl.reread()
    if c2 is None:
        x = getattr(impl, "reread_exc", None)
        bad.append((raises_key(x) or "roundtrip:raises", "write_to_file(path) + fresh constructor(path) raised %r" % (x,)))
        return bad
    if isinstance(raw, dict) and set(raw) != set(d):
        # the file is exactly the object's networks (Config.lean: reload/write semantics)
        extra, missing = sorted(set(raw) - set(d)), sorted(set(d) - set(raw))
        bad.append(("file:network-set-differs", "after write_to_file the file holds network(s) %r the object does not have%s"
                    % (extra, " and lacks %r" % missing if missing else "") if extra else
                    "after write_to_file the file lacks network(s) %r of the object" % missing))
    if c2.to_dict() != d or raw != d:
        bad.append(("roundtrip:differs", "to_dict() %r, reread %r" % (d, c2.to_dict())))
    # 2. a removed node is gone (memory and file)
    if last_edit and last_edit["op"] == "rmnode":
        x, net = last_edit["name"], last_edit["net"] or "default"
        for where, dd in (("memory", d), ("file", raw)):
            if net in dd:
                if x in dd[net]["nodes"]:
                    bad.append(("remove_node:left-in-nodes", "%s still a node of %s (%s)" % (x, net, where)))
                t = dd[net]["topology"]
                if t is not None and (x in t or any(x in l for l in t.values())):
                    bad.append(("remove_node:left-in-topology", "%s still in the topology of %s (%s): %r" % (x, net, where, t)))
    if last_edit and last_edit["op"] == "rmnet":
        for where, dd in (("memory", d), ("file", raw)):
            if (last_edit["net"] or "default") in dd:
                bad.append(("remove_network:still-there", "network %s still present (%s)" % (last_edit["net"], where)))
    if last_edit and last_edit["op"] == "reset":
        for where, dd in (("memory", d), ("file", raw)):
            if set(dd) - {"default"}:
                bad.append(("reset:other-networks-left", "after reset the networks are %r (%s)" % (list(dd), where)))
    # 4. ids: a bijection, two mutually inverse lookups, the same for every participant
    if any(k == "endpoints:port-not-int" for k, _ in bad):
        return bad  # Host() cannot even be built
    for net, nd in d.items():
        n = len(nd["nodes"])
        per_role = []
        for role in ROLES:
            try:
                cfg = m["SocketsConfig"](impl.path, network_name=net, config_type=role)
                other = m["SocketsConfig"](impl.path, network_name=net, config_type=role)  # a second participant
            except Exception as x:
                bad.append(("ids:config-unreadable", "SocketsConfig(%s, %s) raised %r" % (net, role, x)))
                continue
            if set(cfg.hostDict) != set(nd["nodes"]):
                bad.append(("ids:names-differ", "%s/%s: hostDict %r, nodes %r" % (net, role, list(cfg.hostDict), list(nd["nodes"]))))
            for x in cfg.hostDict:
                want = nd["nodes"][x][role + "_socket"]
                if [cfg.hostDict[x].hostname, cfg.hostDict[x].port] != want:
                    bad.append(("ids:wrong-endpoint", "%s/%s %s: %r" % (net, role, x, want)))
            try:
                ids = {x: m["get_id"](cfg, x) for x in cfg.hostDict}
                ids2 = {x: m["get_id"](other, x) for x in other.hostDict}
            except Exception as x:
                bad.append(("ids:id-of-name-raises", "%s/%s: %r" % (net, role, x)))
                continue
            if sorted(ids.values()) != list(range(n)):
                bad.append(("ids:not-bijection", "%s/%s: ids %r are not 0..%d" % (net, role, ids, n - 1)))
            if ids != ids2:
                bad.append(("ids:participants-disagree", "%s/%s: %r vs %r" % (net, role, ids, ids2)))
            per_role.append(ids)
            try:
                m["get_id"](cfg, "Nobody")
                bad.append(("ids:unknown-name-accepted", "%s/%s: id for an unknown name" % (net, role)))
            except ValueError:
                pass
            if m["get_name"] is not None:
                for x, i in ids.items():
                    try:
                        y = m["get_name"](cfg, i)
                    except Exception as ex:
                        y = "raised %r" % (ex,)
                    if y != x:
                        bad.append(("ids:name-of-id", "%s/%s: name(id(%s)=%d) = %s" % (net, role, x, i, y)))
                for i in (-1, n, n + 3):
                    try:
                        y = m["get_name"](cfg, i)
                        bad.append(("ids:unknown-id-accepted", "%s/%s: name(%d) = %r with %d nodes" % (net, role, i, y, n)))
                    except KeyError:
                        pass
        if any(p != per_role[0] for p in per_role[1:]):
            bad.append(("ids:roles-disagree", "%s: %r" % (net, per_role)))
        if net == "default" and per_role:
            # the path every application takes: SimulaQronNetworkInfo on the configured file
            info = m["Info"]
            for x, i in per_role[0].items():
                try:
                    j = info._get_node_id(x)
                    j2 = info.get_node_id_for_app(x)
                except Exception as ex:
                    j = j2 = "raised %r" % (ex,)
                if j != i or j2 != i:
                    bad.append(("ids:info-id-of-name", "SimulaQronNetworkInfo id(%s) = %s / %s, SocketsConfig says %d" % (x, j, j2, i)))
                try:
                    y = info._get_node_name(i)
                except Exception as ex:
                    y = "raised %s" % type(ex).__name__
                if y != x:
                    bad.append(("ids:name-of-id", "SimulaQronNetworkInfo: name(id(%s)=%d) = %s" % (x, i, y)))
            for i in (-1, n):
                try:
                    y = info._get_node_name(i)
                    bad.append(("ids:unknown-id-accepted", "SimulaQronNetworkInfo: name(%d) = %r with %d nodes" % (i, y, n)))
                except KeyError:
                    pass
    return bad


# --------------------------------------------------------------------------
# running one script
# --------------------------------------------------------------------------

def execute(mods, path, script, want_lines=True, full_ids=True):
    """run a script on a fresh constructor.  Returns (violations, lines, expects, stats).  An exception that escapes
    from the implementation in an operation that must succeed (to_dict, write_to_file, the observations, the
    lookups) is a violation `<function>:raises:<Class>` and ends the script; it never crashes the harness."""
    viol, lines, expect = [], [], []
    stats = {"max_nodes": 0, "refusals": 0, "outcomes": []}
    idx, e = -1, None
    try:
        impl = Impl(mods, path)
        mods["N"]._check_socket_is_free = staticmethod(impl.probe)
        mods["settings"]._config["network_config_file"] = path
        lines, expect = ["new"], [impl.observe("ok")]
        for idx, e in enumerate(script):
            out = impl.apply(e)
            stats["outcomes"].append(out)
            if out != "ok":
                stats["refusals"] += 1
            if e["op"] == "env":
                lines.append(line_of(e))
                expect.append("ok")
                continue
            if e["op"] == "write" and out != "ok":
                viol.append(("write_to_file:raises:" + out.split(":")[-1], "after edit %d (write -> %s): write_to_file of a "
                             "constructor in a regular state must succeed" % (idx, out), idx))
            for key, what in oracle_state(impl, e):
                viol.append((key, "after edit %d (%s -> %s): %s" % (idx, line_of(e), out, what), idx))
            d = impl.c.to_dict()
            stats["max_nodes"] = max([stats["max_nodes"]] + [len(nd["nodes"]) for nd in d.values()])
            if want_lines and e["op"] != "write":
                lines.append(line_of(e))
                expect.append(impl.observe(out))
                if e["op"] == "bind":         # the model's `new` starts from the default probe: say again what ours is
                    lines.append(line_of({"op": "env", "kind": impl.env[0], "ports": impl.env[1]}))
                    expect.append("ok")
                nets = NETS[1:] if (full_ids or idx == len(script) - 1) else [e.get("net") or "default"]
                impl.c.write_to_file(path)
                for net in nets:
                    lines.append("ids %s" % tok(net))
                    expect.append(impl.ids(net))
    except Exception as x:
        key = raises_key(x)
        if key is None:
            raise
        viol.append((key, "after edit %d (%s): %r escaped from the implementation" % (
            idx, line_of(e) if e else "new", x), max(idx, 0)))
        # the model lines of this script stay comparable up to the last completed edit
        n = min(len(lines), len(expect))
        lines, expect = lines[:n], expect[:n]
    return viol, lines, expect, stats


def shrink(mods, path, script, key):
    """greedy delta-debugging: drop edits while a violation with the same key remains"""
    def fails(s):
        try:
            v, _, _, _ = execute(mods, path, s, want_lines=False)
        except Exception:
            return False
        return any(k == key for k, _, _ in v)

    cur = list(script)
    changed = True
    while changed:
        changed = False
        for i in range(len(cur) - 1, -1, -1):
            cand = cur[:i] + cur[i + 1:]
            if fails(cand):
                cur, changed = cand, True
    # drop explicit hosts/ports/neighbours that are not needed
    for i, e in enumerate(cur):
        if e["op"] == "addnode":
            for simpler in ({**e, "socks": [[None, None]] * 3}, {**e, "nb": None}, {**e, "net": None}):
                cand = cur[:i] + [simpler] + cur[i + 1:]
                if simpler != cur[i] and fails(cand):
                    cur = cand
    return cur


# --------------------------------------------------------------------------
# case generation
# --------------------------------------------------------------------------

def gen_env(rng):
    r = rng.random()
    if r < 0.55:
        return {"op": "env", "kind": "busy", "ports": sorted(rng.sample(range(8000, 8013), rng.randint(0, 6)))}
    if r < 0.8:
        return {"op": "env", "kind": "only", "ports": sorted(rng.sample(range(8000, 8016), rng.randint(2, 9)))}
    return {"op": "env", "kind": "busy", "ports": []}


def shuffled_dict(rng, d):
    ks = list(d)
    rng.shuffle(ks)
    return {k: d[k] for k in ks}


def gen_file(rng):
    """a hand-made configuration file: valid with pairwise distinct endpoints (arbitrary key order, hosts, topology
    shapes), or (30%) with one structural defect on which read_from_file raises"""
    ports = iter(rng.sample(range(8000, 8040), 40))
    d = {}
    for net in rng.sample(["default", "n1", "n2"], rng.randint(0, 3)):
        names = rng.sample(NAMES, rng.randint(0, 4))
        nodes = {x: shuffled_dict(rng, {k: [rng.choice(["localhost", "127.0.0.1", "127.0.0.2"]), next(ports)] for k in SOCK_KEYS})
                 for x in names}
        topo = None if rng.random() < 0.5 else {x: rng.sample(NAMES, rng.randint(0, 2)) for x in names if rng.random() < 0.8}
        d[net] = shuffled_dict(rng, {"nodes": nodes, "topology": topo})
    if rng.random() < 0.3:
        junk = lambda: rng.choice([[], None, 7])
        nets = list(d)
        withnodes = [n for n in nets if d[n]["nodes"]]
        kind = rng.randint(1, 7)
        if kind == 1 or not nets:
            d = junk()
        elif kind == 2:
            d[rng.choice(nets)] = rng.choice([[], None, 7, "x"])
        elif kind == 3:
            del d[rng.choice(nets)][rng.choice(["nodes", "topology"])]
        elif kind == 4:
            d[rng.choice(nets)]["nodes"] = rng.choice([[], None, 3, "ab"])
        elif not withnodes:
            d = junk()
        else:
            nodes = d[rng.choice(withnodes)]["nodes"]
            x = rng.choice(list(nodes))
            if kind == 5:
                nodes[x] = junk()
            elif kind == 6:
                del nodes[x][rng.choice(SOCK_KEYS)]
            else:
                k = rng.choice(SOCK_KEYS)
                nodes[x][k] = rng.choice([[nodes[x][k][0]], nodes[x][k] + [1], None, 5, []])
    return d


def gen_edit(rng):
    k = rng.random()
    net = rng.choice(NETS)
    if k > 0.94:
        return {"op": "load", "json": gen_file(rng)}
    if k < 0.40:
        if rng.random() < 0.4:
            socks = [[None, None]] * 3
        else:
            socks = [[rng.choice(HOSTS), rng.choice(PORTS) if rng.random() < 0.5 else None] for _ in range(3)]
        nb = None if rng.random() < 0.5 else rng.sample(NAMES, rng.randint(0, 3))
        return {"op": "addnode", "name": rng.choice(NAMES), "net": net, "socks": socks, "nb": nb}
    if k < 0.56:
        return {"op": "rmnode", "name": rng.choice(NAMES), "net": net}
    if k < 0.68:
        names = rng.sample(NAMES, rng.randint(0, 4))
        if names and rng.random() < 0.15:
            names.append(names[0])  # a name listed twice
        topo = None
        if rng.random() < 0.5:
            topo = {x: [y for y in names if y != x and rng.random() < 0.6] for x in dict.fromkeys(names)}
            if topo and rng.random() < 0.2:
                del topo[rng.choice(list(topo))]  # add_network will raise KeyError half-way
        return {"op": "addnet", "net": net, "names": names, "topo": topo}
    if k < 0.76:
        return {"op": "rmnet", "net": net}
    if k < 0.81:
        return {"op": "reset"}
    if k < 0.88:
        return {"op": "reload"}
    if k < 0.91:
        return {"op": "write"}
    return gen_env(rng)


def gen_script(rng, max_edits):
    s = []
    if rng.random() < 0.7:
        s.append(gen_env(rng))
    if rng.random() < 0.5:
        s.append({"op": "bind"})      # one long-lived object bound to its file for the whole script
    n = rng.randint(3, max_edits)
    while sum(1 for e in s if e["op"] != "env") < n:
        s.append(gen_edit(rng))
    return s


A3 = [[None, None]] * 3
FIXED_SCRIPTS = [
    # one long-lived constructor bound to its file: add in a new network; write; remove_network / reset; write;
    # fresh read — the file is exactly the object's networks (a removed network must not come back)
    [{"op": "bind"}, {"op": "addnode", "name": "Alice", "net": "n1", "socks": A3, "nb": None}, {"op": "write"},
     {"op": "rmnet", "net": "n1"}, {"op": "write"}, {"op": "reload"}],
    [{"op": "bind"}, {"op": "addnode", "name": "Alice", "net": "n1", "socks": A3, "nb": None},
     {"op": "addnode", "name": "Bob", "net": "n1", "socks": A3, "nb": ["Alice"]}, {"op": "write"},
     {"op": "reset"}, {"op": "write"}, {"op": "reload"}],
    [{"op": "bind"}, {"op": "reset"}, {"op": "write"}, {"op": "addnet", "net": "n2", "names": ["Eve", "Bob"], "topo": None},
     {"op": "write"}, {"op": "rmnet", "net": "n2"}, {"op": "addnode", "name": "Eve", "net": None, "socks": A3, "nb": None},
     {"op": "write"}, {"op": "reload"}],
    # the same on an object that was loaded from a file (bound by `reload`)
    [{"op": "addnode", "name": "Alice", "net": None, "socks": A3, "nb": None}, {"op": "reload"},
     {"op": "addnode", "name": "Bob", "net": "n1", "socks": A3, "nb": None}, {"op": "write"}, {"op": "rmnet", "net": "n1"},
     {"op": "write"}, {"op": "rmnet", "net": None}, {"op": "write"}, {"op": "reload"}],
    # a hand-made broken file sits at the bound path: the next write simply replaces it
    [{"op": "bind"}, {"op": "addnode", "name": "Alice", "net": None, "socks": A3, "nb": None}, {"op": "write"},
     {"op": "load", "json": 7}, {"op": "write"}, {"op": "reload"}],
    # F9: removal must clean the topology
    [{"op": "addnode", "name": "Alice", "net": None, "socks": [[None, None]] * 3, "nb": []},
     {"op": "addnode", "name": "Bob", "net": None, "socks": [[None, None]] * 3, "nb": ["Alice"]},
     {"op": "addnode", "name": "Eve", "net": None, "socks": [[None, None]] * 3, "nb": ["Alice", "Bob"]},
     {"op": "rmnode", "name": "Alice", "net": None}, {"op": "reload"}],
    # F10 / the default network every application reads
    [{"op": "reset"}, {"op": "rmnode", "name": "Charlie", "net": "default"}, {"op": "reload"}],
    # port exhaustion
    [{"op": "env", "kind": "only", "ports": [8000, 8001, 8002, 8003]},
     {"op": "addnode", "name": "Alice", "net": "n1", "socks": [[None, None]] * 3, "nb": None},
     {"op": "addnode", "name": "Bob", "net": "n1", "socks": [[None, None]] * 3, "nb": None},
     {"op": "addnode", "name": "Bob", "net": "n2", "socks": [[None, None]] * 3, "nb": None}],
    # explicit-port clashes across networks and hosts; overwrite of an existing node
    [{"op": "addnode", "name": "Alice", "net": "n1", "socks": [[None, 8000], ["127.0.0.1", 8000], [None, 8001]], "nb": None},
     {"op": "addnode", "name": "Bob", "net": "n2", "socks": [[None, None], [None, 8001], [None, None]], "nb": None},
     {"op": "addnode", "name": "Bob", "net": "n2", "socks": [["127.0.0.1", 8001], [None, None], ["127.0.0.1", 8001]], "nb": None},
     {"op": "addnode", "name": "Alice", "net": "n1", "socks": [[None, None]] * 3, "nb": ["Bob"]},
     {"op": "reload"},
     {"op": "addnode", "name": "Eve", "net": "n1", "socks": [[None, 8000], [None, None], [None, None]], "nb": None}],
    # a hand-made file, then edits on top of it
    [{"op": "load", "json": {"n1": {"topology": {"Bob": ["Alice"]}, "nodes": {
        "Bob": {"vnode_socket": ["127.0.0.1", 8002], "app_socket": ["localhost", 8000], "qnodeos_socket": ["localhost", 8001]},
        "Alice": {"app_socket": ["localhost", 8010], "qnodeos_socket": ["localhost", 8011], "vnode_socket": ["localhost", 8012]}}}}},
     {"op": "addnode", "name": "Eve", "net": "n1", "socks": [[None, 8001], [None, None], [None, None]], "nb": None},
     {"op": "addnode", "name": "Eve", "net": "n1", "socks": [[None, None]] * 3, "nb": ["Alice"]},
     {"op": "rmnode", "name": "Alice", "net": "n1"},
     {"op": "load", "json": {"n1": {"nodes": {"Bob": {"app_socket": ["localhost", 8000]}}, "topology": None}}}],
]


# --------------------------------------------------------------------------
# entry points
# --------------------------------------------------------------------------

def load_impl():
    d = core.scratch_repo()
    from simulaqron.toolbox.manage_nodes import NetworksConfigConstructor
    from simulaqron.general import host_config
    from simulaqron.settings import simulaqron_settings
    from simulaqron.sdk.connection import SimulaQronNetworkInfo
    mods = {
        "N": NetworksConfigConstructor,
        "SocketsConfig": host_config.SocketsConfig,
        "get_id": host_config.get_node_id_from_net_config,
        "get_name": getattr(host_config, "get_node_name_from_net_config", None),
        "Info": SimulaQronNetworkInfo,
        "settings": simulaqron_settings,
    }
    return mods, os.path.join(d, "c16_network.json")


def run(ctx):
    mods, path = load_impl()
    res = core.Result()
    res.rule = ("random edit scripts of 3..%d edits (add/remove node, add/remove network, reset, reload, load of a hand-made "
                "valid or broken file, probe changes) "
                "over networks default/n1/n2, 6 names, 4 host strings, 11 explicit ports, scripted bind probe incl. "
                "exhausted ranges; plus 10 fixed scripts; non-trivial = some network reached >= 2 nodes and the script "
                "has a removal or a refusal; distinct by script; half of the scripts run on ONE long-lived constructor bound "
                "to its file (`bind`), with explicit `write` edits (object writes itself and lives on) besides the write + "
                "fresh read the oracle performs after every edit; 5 directed long-lived-object histories" % ctx.scale(12, 30))
    if mods["get_name"] is None:
        res.notes.append("host_config.get_node_name_from_net_config missing: id->name compared only through SimulaQronNetworkInfo")
    rng = ctx.rng
    # ---- CLI stage, replay of one of its scripts -------------------------------------------------------------------
    if ctx.replay and ctx.replay["input"].get("cli") == "c16":
        cli.stage_c16(ctx, res, sys.modules[__name__], mods, replay_script=ctx.replay["input"]["script"])
        return res
    # ----------------------------------------------------------------------------------------------------------------
    if ctx.replay:
        scripts = [ctx.replay["input"]["script"]]
    else:
        scripts = [list(s) for s in FIXED_SCRIPTS]
        scripts += [gen_script(rng, ctx.scale(12, 30)) for _ in range(ctx.scale(500, 2500))]

    all_lines, all_expect, owners = [], [], []
    seen_keys = set()
    for si, script in enumerate(scripts):
        viol, lines, expect, stats = execute(mods, path, script, full_ids=ctx.thorough or si < 40)
        for e, o in zip(script, stats["outcomes"]):
            res.count(e["op"])
            if o != "ok":
                res.count("outcome:" + o)
        nontrivial = stats["max_nodes"] >= 2 and (stats["refusals"] > 0 or any(e["op"] == "rmnode" for e in script))
        res.case({"script": [line_of(e) for e in script]}, nontrivial=nontrivial)
        for key, what, idx in viol:
            if key in seen_keys:
                continue
            seen_keys.add(key)
            small = shrink(mods, path, script[:idx + 1], key)
            v2, _, _, _ = execute(mods, path, small, want_lines=False)
            what2 = next((w for k, w, _ in v2 if k == key), what)
            res.violation(key, what2, {"script": small, "lines": [line_of(e) for e in small]})
        all_lines += lines
        all_expect += expect
        owners += [si] * len(lines)

    if ctx.lean_ok and all_lines:
        out = core.lean_run("config", all_lines)
        mask = mods["get_name"] is None
        reported = set()
        for got, want, line, si in zip(out, all_expect, all_lines, owners):
            res.traces += 1
            g, w = got, want
            if mask and line.startswith("ids "):
                g = " ".join(p.split("#")[0] for p in got.split(" "))
                w = " ".join(p.split("#")[0] for p in want.split(" "))
            if g != w and si not in reported:
                reported.add(si)
                res.tie_break("Config model vs NetworksConfigConstructor/SocketsConfig at `%s`" % line,
                              {"script": scripts[si], "lines": [line_of(e) for e in scripts[si]]}, got, want)
    # ---- CLI stage (harness/cli_cases.py): the same oracle and the same model driver behind the real commands ------
    if not ctx.replay:
        cli.stage_c16(ctx, res, sys.modules[__name__], mods)
    # ----------------------------------------------------------------------------------------------------------------
    return res


def search(ctx, res, broken):
    # the oracle ran after every edit of every script; as the targeted search spend the budget on longer scripts
    # around the same generator with the oracle only
    mods, path = load_impl()
    n = 0
    for _ in range(ctx.scale(300, 3000)):
        script = gen_script(ctx.rng, 40)
        viol, _, _, _ = execute(mods, path, script, want_lines=False)
        n += 1
        for key, what, idx in viol:
            small = shrink(mods, path, script[:idx + 1], key)
            res.violation(key, what, {"script": small, "lines": [line_of(e) for e in small]})
            return
    res.notes.append("targeted search: %d further scripts of up to 40 edits, oracle after every edit, no failing input" % n)

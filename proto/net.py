import sys, os, json, tempfile, random, itertools
import twisted.internet
from twisted.internet.testing import MemoryReactorClock
R = MemoryReactorClock()
sys.modules['twisted.internet.reactor'] = R
twisted.internet.reactor = R
from twisted.test import iosim
from twisted.spread import pb
from twisted.internet import defer
from simulaqron.settings import simulaqron_settings
from simulaqron.general.host_config import SocketsConfig
import simulaqron.virtual_node.virtual as V

class Net:
    def __init__(self, names, maxQubits=5, maxRegs=100):
        self.names = names
        cfg = {"default":{"nodes":{n:{"app_socket":["localhost",8000+3*i],"qnodeos_socket":["localhost",8001+3*i],"vnode_socket":["localhost",8002+3*i]} for i,n in enumerate(names)},"topology":None}}
        self.d = tempfile.mkdtemp(); self.fn = os.path.join(self.d,"network.json"); json.dump(cfg,open(self.fn,"w"))
        self.nodes = {}
        del R.tcpClients[:]
        for n in names:
            conf = SocketsConfig(self.fn, network_name="default", config_type="vnode")
            self.nodes[n] = V.virtualNode(conf.hostDict[n], conf, maxQubits=maxQubits, maxRegisters=maxRegs)
        port2name = {8002+3*i:n for i,n in enumerate(names)}
        self.links = []   # (label, transportA, transportB)
        for (host,port,factory,timeout,bind) in list(R.tcpClients):
            self._wire(self.nodes[port2name[port]], factory, "peer")
        self.flush()
    def _wire(self, root, cfactory, label):
        sf = pb.PBServerFactory(root)
        sp = sf.buildProtocol(None); cp = cfactory.buildProtocol(None)
        st = iosim.FakeTransport(sp, isServer=True); ct = iosim.FakeTransport(cp, isServer=False)
        sp.makeConnection(st); cp.makeConnection(ct)
        self.links.append((label, st, cp)); self.links.append((label, ct, sp))
    def pending(self):
        return [i for i,(l,t,p) in enumerate(self.links) if t.stream]
    def deliver(self, i, whole=True):
        l,t,p = self.links[i]
        if not t.stream: return False
        if whole:
            data = b"".join(t.stream); t.stream[:] = []
        else:
            data = t.stream.pop(0)
        p.dataReceived(data); return True
    def flush(self):
        for _ in range(100000):
            pend = self.pending()
            if not pend: return
            for i in pend: self.deliver(i)
    def client(self, nodename):
        cf = pb.PBClientFactory(); self._wire(self.nodes[nodename], cf, "client:"+nodename)
        res=[]; cf.getRootObject().addCallback(res.append); self.flush(); return res[0]
    def run(self, d, maxt=600):
        res=[]; d.addBoth(res.append); t=0
        while not res and t<maxt*10:
            self.flush()
            if res: break
            R.advance(0.1); t+=1
        self.flush()
        if not res: raise RuntimeError("hang")
        return res[0]
    def snap(self):
        out={}
        for n in self.names:
            nd=self.nodes[n]
            out[n]=dict(virt=[(q.num,q.simNode.name,q.active) for q in nd.virtQubits], sim=[(q.simNum,q.register.num,q.num) for q in nd.simQubits], regs={k:(r.activeQubits,r.maxQubits) for k,r in nd.registers.items()}, locked=nd._lock.locked)
        return out

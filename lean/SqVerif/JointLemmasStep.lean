import SqVerif.JointLemmasIdeal
import SqVerif.Props.C01Engine
/-
C01 joint layer, part 8 — one step of the virtual-node model (`VNet.step`, L2) against one
step of the ideal register:

* the engine calls a two-qubit gate emits have the shape  [new register] ++ register-move
  blocks ++ [the gate]  (`stepGate2_shape`), in every placement case;
* `idealQ`: the ideal register's reaction to the token-level reading `C01.absOp` of a step
  (which names tokens and holders only — no simulating node, register or position);
* `step_new`, `step_gate1`, `step_gate2`, `step_send`, `step_measure`: for a well-formed L2
  state coupled to the engines (`Agree`) whose joint group is the ideal group (`Coupled`), the
  emitted calls run through on the engines, the ideal operation succeeds, and the results
  are coupled again; for a measurement, moreover, the engine's outcome has non-zero
  probability in the ideal state.
-/
set_option linter.unusedSimpArgs false
set_option linter.unusedVariables false
namespace SqVerif.Joint
open SqVerif.Stab SqVerif.Stab.Meas SqVerif.VNet SqVerif.VNetEng SqVerif.C01

/-! ### shape of the emitted calls -/

theorem localMerge_moves (s : Net) (n o1 o2 : Nat) : Moves (localMerge s n o1 o2).2 := by
  unfold localMerge
  split
  · split
    · exact .nil
    · next hne =>
      split
      · exact .absorb _ _ _ _ (by simpa using hne) .nil
      · exact .nil
  · exact .nil

theorem mergeFrom_moves (s : Net) (dst src o lr : Nat) : Moves (mergeFrom s dst src o lr).2.2 := by
  unfold mergeFrom
  split
  · split
    · exact .pull _ _ _ _ _ .nil
    · exact .nil
  · exact .nil

theorem gate2Op_tail (s : Net) (g : G2) (oc ot : Nat) :
    (gate2Op s g oc ot).2.2 = [] ∨ ∃ n r c t, (gate2Op s g oc ot).2.2 = [.gate2 g n r c t] := by
  unfold gate2Op
  split
  · split
    · exact .inl rfl
    · exact .inr ⟨_, _, _, _, rfl⟩
  · exact .inl rfl

theorem addRegister_ok {s s0 : Net} {a k : Nat} (h : addRegister s a = .ok (s0, k)) :
    ∃ na, s.nodes[a]? = some na ∧ k = na.nextReg := by
  unfold addRegister at h
  split at h
  · cases h
  · next na hna =>
    split at h
    · cases h
    · cases h; exact ⟨na, hna, rfl⟩

/-- the engine calls of a two-qubit gate: possibly one new register, register moves in blocks,
then at most the gate itself -/
def G2Shape (s : Net) (g : G2) (ops : List EOp) : Prop :=
  ∃ nr pre tail, ops = nr ++ (pre ++ tail) ∧ Moves pre ∧
    (nr = [] ∨ ∃ a na, s.nodes[a]? = some na ∧ nr = [.newReg a na.nextReg]) ∧
    (tail = [] ∨ ∃ n r c t, tail = [.gate2 g n r c t])

theorem g2shape_nil (s : Net) (g : G2) : G2Shape s g [] := ⟨[], [], [], rfl, .nil, .inl rfl, .inl rfl⟩

theorem g2shape_C {s : Net} {g : G2} {a : Nat} {na : Node} {A B C : List EOp} (hna : s.nodes[a]? = some na)
    (hA : Moves A) (hB : Moves B) (hC : C = [] ∨ ∃ n r c t, C = [.gate2 g n r c t]) :
    G2Shape s g ([.newReg a na.nextReg] ++ A ++ B ++ C) :=
  ⟨[.newReg a na.nextReg], A ++ B, C, by simp only [List.append_assoc], hA.append hB, .inr ⟨_, _, hna, rfl⟩, hC⟩

theorem stepGate2_shape (s : Net) (hc ht : Nat) (g : G2) : G2Shape s g (stepGate2 s hc ht g).2.2 := by
  cases hvc : s.vqs[hc]? with
  | none => simp only [stepGate2, hvc]; exact g2shape_nil s g
  | some vc =>
    cases hvt : s.vqs[ht]? with
    | none => simp only [stepGate2, hvc, hvt]; exact g2shape_nil s g
    | some vt =>
      by_cases hsame : vc.virtNode = vt.virtNode
      · cases hac : vc.active with
        | false => simp [stepGate2, hvc, hvt, hsame, hac]; exact g2shape_nil s g
        | true =>
          cases hat : vt.active with
          | false => simp [stepGate2, hvc, hvt, hsame, hac, hat]; exact g2shape_nil s g
          | true =>
            rw [stepGate2_unfold hvc hvt hsame hac hat]
            split
            · exact ⟨[], _, _, rfl, localMerge_moves _ _ _ _, .inl rfl, gate2Op_tail _ _ _ _⟩
            · split
              · split
                · exact g2shape_nil s g
                · exact ⟨[], _, _, rfl, mergeFrom_moves _ _ _ _ _, .inl rfl, gate2Op_tail _ _ _ _⟩
              · split
                · split
                  · exact g2shape_nil s g
                  · exact ⟨[], _, _, rfl, mergeFrom_moves _ _ _ _ _, .inl rfl, gate2Op_tail _ _ _ _⟩
                · split
                  · exact g2shape_nil s g
                  · next s0 k hadd =>
                    obtain ⟨na, hna, rfl⟩ := addRegister_ok hadd
                    dsimp only
                    exact g2shape_C hna (mergeFrom_moves _ _ _ _ _) (mergeFrom_moves _ _ _ _ _) (gate2Op_tail _ _ _ _)
      · have h1 : (vc.virtNode != vt.virtNode) = true := by simp [hsame]
        simp only [stepGate2, hvc, hvt, h1, if_true]; exact g2shape_nil s g

theorem stepSend_ops (s : Net) (h b : Nat) : (stepSend s h b).2.2 = [] := by
  unfold stepSend
  split
  · rfl
  · split
    · rfl
    · split
      · rfl
      · split
        · rfl
        · split <;> rfl

theorem gate1_unit_ops {s : Net} {h : Nat} {g : G1} (hwf : WF s) (hr : (step s (.gate1 h g)).2.1 = .unit) :
    (step s (.gate1 h g)).2.2 ≠ [] := by
  cases hv : s.vqs[h]? with
  | none => simp [step, stepGate1, hv] at hr
  | some vq =>
    cases ha : vq.active with
    | false => simp [step, stepGate1, hv, ha] at hr
    | true =>
      obtain ⟨vq', sq, nd, rg, i⟩ := hwf.info_of_held (hwf.held_of_active hv ha)
      have e := i.hv; rw [hv] at e; cases e
      cases hg : g.supported with
      | false => simp [step, stepGate1, hv, ha, i.hs, i.sact, hg] at hr
      | true => simp [step, stepGate1, hv, ha, i.hs, i.sact, hg]

/-- a list ending in a call that is not a move, decomposed along `G2Shape` -/
theorem split_last {pre nr pre' tail : List EOp} {G : EOp} (h : pre ++ [G] = nr ++ (pre' ++ tail))
    (hmv : ∀ x, x ∈ nr ++ pre' → x.isMove = true) (hG : G.isMove = false)
    (htail : tail = [] ∨ ∃ G', tail = [G']) : pre = nr ++ pre' ∧ tail = [G] := by
  rcases htail with rfl | ⟨G', rfl⟩
  · exfalso
    rw [List.append_nil] at h
    have : G ∈ nr ++ pre' := by rw [← h]; simp
    rw [hmv G this] at hG; cases hG
  · rw [← List.append_assoc] at h
    obtain ⟨h1, h2⟩ := List.append_inj' h rfl
    exact ⟨h1, h2.symm⟩

/-! ### freshness of a new register number -/

theorem reg?_fresh_none {nd : Node} (h : ∀ r, r ∈ nd.regs → r.num < nd.nextReg) : nd.reg? nd.nextReg = none := by
  unfold Node.reg?
  rw [List.find?_eq_none]
  intro r hr
  have := h r hr
  simp; omega

theorem agree_none {s : Net} {e : EngSt} (hA : Agree s e) {n r : Nat} {nd : Node} (hn : s.nodes[n]? = some nd)
    (hr : nd.reg? r = none) : aget e.regs (n, r) = none := by
  have h := hA.lab.regs (n, r)
  rw [labs_regs_get, regMap_node hn, hr] at h
  cases hk : aget e.regs (n, r) with
  | none => rfl
  | some en => rw [hk] at h; cases h

/-! ### the ideal register's step -/

/-- the ideal register performs the token-level reading of a step; the coin of a measurement is
the recorded outcome (as on the engines, `VNetEng.applyEOp`) -/
def idealQ (I : Ideal) : IOp → Option Ideal
  | .nop => some I
  | .new _ t => some (I.new t)
  | .gate1 g t => (g1Gate g).bind fun g' => I.gate1 g' t
  | .gate2 g c t => I.gate2 (g2Gate g) c t
  | .send _ _ _ => some I
  | .measure t _ ip o => (I.measure t ip o).map (·.2)

/-- the ideal register along a program -/
def idealRunQ (s : Net) (I : Ideal) : List Op → Option Ideal
  | [] => some I
  | op :: ops => (idealQ I (absOp s op)).bind fun I' => idealRunQ (step s op).1 I' ops

/-- what one step establishes -/
def StepGoal (rc : Bool) (s : Net) (e : EngSt) (I : Ideal) (op : Op) : Prop :=
  ∃ e' I', runOps rc e (step s op).2.2 = some e' ∧ Agree (step s op).1 e' ∧
    idealQ I (absOp s op) = some I' ∧ Coupled e' I'

theorem step_nop {rc : Bool} {s : Net} {e : EngSt} {I : Ideal} {op : Op} (hwf : WF s) (hA : Agree s e)
    (hC : Coupled e I) (hops : (step s op).2.2 = []) (habs : idealQ I (absOp s op) = some I) :
    StepGoal rc s e I op := by
  obtain ⟨e', h1, a1⟩ := engine_ops_succeed rc hwf hA op
  rw [hops] at h1
  have := runOps_nil h1; subst this
  exact ⟨e', I, by rw [hops]; rfl, a1, habs, hC⟩

theorem step_new {rc : Bool} {s : Net} {e : EngSt} {I : Ideal} (a : Nat) (hwf : WF s) (hA : Agree s e)
    (hC : Coupled e I) : StepGoal rc s e I (.new a) := by
  rcases step_cases hwf (.new a) with hin | hout
  · refine step_nop hwf hA hC hin.2 ?_
    cases hr : (step s (.new a)).2.1 with
    | handle k => exact absurd hin.2 (stepNew_handle_ops hr)
    | _ => simp [absOp, hr, idealQ]
  · obtain ⟨e', h1, a1⟩ := engine_ops_succeed rc hwf hA (.new a)
    generalize hst : step s (.new a) = out at hout h1 a1
    cases hout with
    | new _ na hna hq hr =>
      have hnone : aget e.regs (a, na.nextReg) = none :=
        agree_none hA hna (reg?_fresh_none (hwf.nodes _ _ hna).regNumsFresh)
      obtain ⟨hC', _⟩ := cpl_new hC hnone h1
      have hnext : e.next = s.nextTok := hA.lab.next
      refine ⟨e', I.new e.next, by rw [hst]; exact h1, by rw [hst]; exact a1, ?_, hC'⟩
      simp only [absOp, hst, idealQ, hnext]

theorem g1Gate_of_supported {g : G1} (h : g.supported = true) : ∃ g', g1Gate g = some g' := by
  cases g <;> simp [G1.supported] at h <;> exact ⟨_, rfl⟩

theorem step_gate1 {rc : Bool} {s : Net} {e : EngSt} {I : Ideal} (h : Nat) (g : G1) (hwf : WF s) (hA : Agree s e)
    (hC : Coupled e I) : StepGoal rc s e I (.gate1 h g) := by
  rcases step_cases hwf (.gate1 h g) with hin | hout
  · refine step_nop hwf hA hC hin.2 ?_
    cases hr : (step s (.gate1 h g)).2.1 with
    | unit => exact absurd hin.2 (gate1_unit_ops hwf hr)
    | _ => simp [absOp, hr, idealQ]
  · obtain ⟨e', h1, a1⟩ := engine_ops_succeed rc hwf hA (.gate1 h g)
    generalize hst : step s (.gate1 h g) = out at hout h1 a1
    cases hout with
    | gate1 _ _ vq sq nd rg i hg =>
      obtain ⟨e1, happ, h1'⟩ := runOps_cons h1
      have := runOps_nil h1'; subst this
      obtain ⟨en, hk, hs, _⟩ := agree_reg hA i.hn i.hr
      have htok : tokOf s h = some (rg.toks[sq.pos]'i.pos) := i.den.tokOf
      have hj : en.lab.slots[sq.pos]? = some (rg.toks[sq.pos]'i.pos) := by
        rw [hs]; exact List.getElem?_eq_getElem i.pos
      obtain ⟨g', hg'⟩ := g1Gate_of_supported hg
      obtain ⟨I', hI, hC', _⟩ := cpl_gate1 hC hg' hk hj happ
      refine ⟨e', I', by rw [hst]; exact h1, by rw [hst]; exact a1, ?_, hC'⟩
      simp only [absOp, hst, htok, idealQ, hg', Option.bind_some]
      exact hI

theorem step_send {rc : Bool} {s : Net} {e : EngSt} {I : Ideal} (h b : Nat) (hwf : WF s) (hA : Agree s e)
    (hC : Coupled e I) : StepGoal rc s e I (.send h b) := by
  refine step_nop hwf hA hC (stepSend_ops s h b) ?_
  cases hr : (step s (.send h b)).2.1 with
  | num k =>
    simp only [absOp, hr]
    split <;> rfl
  | _ => simp [absOp, hr, idealQ]

theorem step_gate2 {rc : Bool} {s : Net} {e : EngSt} {I : Ideal} (hc ht : Nat) (g : G2) (hwf : WF s)
    (hA : Agree s e) (hC : Coupled e I) : StepGoal rc s e I (.gate2 hc ht g) := by
  by_cases hr : (step s (.gate2 hc ht g)).2.1 = .unit
  · obtain ⟨pre, n, r, c, t, e1, e', en, en', hops, hpre, hrun1, happ, a1, hk, hsc, hst, hic, hit, hct, _, _⟩ :=
      engine_gate2_lands rc hwf hA hr
    obtain ⟨nr, pre', tail, hshape, hmoves, hnr, htail⟩ := stepGate2_shape s hc ht g
    have hshape' : (step s (.gate2 hc ht g)).2.2 = nr ++ (pre' ++ tail) := hshape
    rw [hops] at hshape'
    have hnrmv : ∀ x, x ∈ nr → x.isMove = true := by
      rcases hnr with rfl | ⟨a, na, _, rfl⟩
      · intro x hx; cases hx
      · intro x hx; rw [List.mem_singleton] at hx; subst hx; rfl
    obtain ⟨hpre_eq, _⟩ := split_last hshape' (fun x hx => by
        rcases List.mem_append.1 hx with hx | hx
        · exact hnrmv x hx
        · exact hmoves.isMove x hx) rfl
      (by rcases htail with h | ⟨n', r', c', t', h⟩
          · exact .inl h
          · exact .inr ⟨_, h⟩)
    subst hpre_eq
    rw [runOps_append] at hrun1
    cases hrun0 : runOps rc e nr with
    | none => rw [hrun0] at hrun1; cases hrun1
    | some e0 =>
      rw [hrun0] at hrun1
      simp only [Option.bind_some] at hrun1
      have hC0 : Coupled e0 I := by
        rcases hnr with rfl | ⟨a, na, hna, rfl⟩
        · have := runOps_nil hrun0; subst this; exact hC
        · obtain ⟨e0', happ0, h0⟩ := runOps_cons hrun0
          have := runOps_nil h0; subst this
          exact (cpl_newReg hC (agree_none hA hna (reg?_fresh_none (hwf.nodes _ _ hna).regNumsFresh)) happ0).1
      obtain ⟨hC1, _⟩ := cpl_moves hmoves hC0 hrun1
      cases htc : tokOf s hc with
      | none => rw [htc] at hic; cases hic
      | some tc =>
        cases htt : tokOf s ht with
        | none => rw [htt] at hit; cases hit
        | some tt =>
          rw [htc] at hsc; rw [htt] at hst
          obtain ⟨I', hI, hC', _⟩ := cpl_gate2 hC1 hk hsc hst hct happ
          refine ⟨e', I', ?_, a1, ?_, hC'⟩
          · rw [hops, runOps_append, runOps_append, hrun0]
            simp only [Option.bind_some, hrun1, runOps, happ]
          · simp only [absOp, hr, htc, htt, idealQ]
            exact hI
  · have hops : (step s (.gate2 hc ht g)).2.2 = [] := by
      rcases step_cases hwf (.gate2 hc ht g) with hin | hout
      · exact hin.2
      · exfalso
        generalize hst : step s (.gate2 hc ht g) = out at hout hr
        cases hout with
        | gate2 _ _ _ hne hhc hht out =>
          obtain ⟨_, _, _, _, _, _, _, _, _, hres, _⟩ := out
          exact hr hres
    refine step_nop hwf hA hC hops ?_
    cases hr' : (step s (.gate2 hc ht g)).2.1 with
    | unit => exact absurd hr' hr
    | _ => simp [absOp, hr', idealQ]

/-- what a measurement step establishes in addition: the bit the engine returns for the emitted
`measure_qubit_inplace` has non-zero probability in the ideal state, and it is the bit the ideal
register reports when measured with the same coin -/
def MeasGoal (s : Net) (e : EngSt) (I : Ideal) (h : Nat) (ip oc : Bool) : Prop :=
  ∃ o t j, ((step s (.measure h ip oc)).2.2.head?.bind (engOutcome e)) = some o ∧ tokOf s h = some t ∧
    pos I.toks t = some j ∧ ¬ InGroup I.st.n I.st.rows (zAt I.st.n j (!o)) ∧
    (I.measure t ip oc).map (·.1) = some o

theorem step_measure {rc : Bool} {s : Net} {e : EngSt} {I : Ideal} (h : Nat) (ip oc : Bool) (hwf : WF s)
    (hA : Agree s e) (hC : Coupled e I) :
    StepGoal rc s e I (.measure h ip oc) ∧
      (∀ x, (step s (.measure h ip oc)).2.1 = .outcome x → MeasGoal s e I h ip oc) := by
  rcases step_cases hwf (.measure h ip oc) with hin | hout
  · have hno : ∀ x, (step s (.measure h ip oc)).2.1 ≠ .outcome x :=
      fun x hx => stepMeasure_outcome_ops hx hin.2
    refine ⟨step_nop hwf hA hC hin.2 ?_, fun x hx => absurd hx (hno x)⟩
    cases hr : (step s (.measure h ip oc)).2.1 with
    | outcome x => exact absurd hr (hno x)
    | _ => simp [absOp, hr, idealQ]
  · obtain ⟨e', h1, a1⟩ := engine_ops_succeed rc hwf hA (.measure h ip oc)
    generalize hst : step s (.measure h ip oc) = out at hout h1 a1
    cases hout with
    | measInplace _ _ vq sq nd rg i =>
      obtain ⟨e1, happ, h1'⟩ := runOps_cons h1
      have := runOps_nil h1'; subst this
      obtain ⟨en, hk, hs, _⟩ := agree_reg hA i.hn i.hr
      have htok : tokOf s h = some (rg.toks[sq.pos]'i.pos) := i.den.tokOf
      have hj : en.lab.slots[sq.pos]? = some (rg.toks[sq.pos]'i.pos) := by
        rw [hs]; exact List.getElem?_eq_getElem i.pos
      obtain ⟨o, I', j, hout, hI, hjI, hposs, hC', _⟩ := cpl_measInplace hC hk hj happ
      refine ⟨⟨e', I', by rw [hst]; exact h1, by rw [hst]; exact a1, ?_, hC'⟩, fun x _ => ?_⟩
      · simp only [absOp, hst, htok, i.hv, idealQ, hI, Option.map_some]
      · refine ⟨o, _, j, ?_, htok, pos_of_get _ _ _ hC.iok.nodup hjI, hposs, by rw [hI]; rfl⟩
        rw [hst]; exact hout
    | measDestr _ _ vq sq nd rg i =>
      obtain ⟨en, hk, hs, _⟩ := agree_reg hA i.hn i.hr
      have htok : tokOf s h = some (rg.toks[sq.pos]'i.pos) := i.den.tokOf
      have hj : en.lab.slots[sq.pos]? = some (rg.toks[sq.pos]'i.pos) := by
        rw [hs]; exact List.getElem?_eq_getElem i.pos
      rw [← hs] at h1
      obtain ⟨o, I', j, hout, hI, hjI, hposs, hC', _⟩ := cpl_measDestr hC hk hj h1
      refine ⟨⟨e', I', by rw [hst, ← hs]; exact h1, by rw [hst]; exact a1, ?_, hC'⟩, fun x _ => ?_⟩
      · simp only [absOp, hst, htok, i.hv, idealQ, hI, Option.map_some]
      · refine ⟨o, _, j, ?_, htok, pos_of_get _ _ _ hC.iok.nodup hjI, hposs, by rw [hI]; rfl⟩
        rw [hst]; exact hout

/-- one step, any operation -/
theorem step_any {rc : Bool} {s : Net} {e : EngSt} {I : Ideal} (op : Op) (hwf : WF s) (hA : Agree s e)
    (hC : Coupled e I) : StepGoal rc s e I op := by
  cases op with
  | new a => exact step_new a hwf hA hC
  | gate1 h g => exact step_gate1 h g hwf hA hC
  | gate2 hc ht g => exact step_gate2 hc ht g hwf hA hC
  | send h b => exact step_send h b hwf hA hC
  | measure h ip oc => exact (step_measure h ip oc hwf hA hC).1

end SqVerif.Joint

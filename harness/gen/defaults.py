"""AST translator for C18: simulaqron/settings.py  ->  lean/SqVerif/Gen/Defaults.lean

Extracts, with Python's `ast` only (the module is never imported here):

  * `defaults`      the `_default_config` table of the settings class (the class
                    of the module-level `simulaqron_settings` object), in source
                    order, each value rendered as a token (see `enc_value`);
  * `untranslated`  every construct the translator did not understand (any
                    entry makes the `translated_completely` obligation of
                    Props/C18 fail: an unknown construct never passes silently).

Only the table is extracted.  How `update_settings`, `_set_setting` and
`default_settings` use it is not read off the syntax (a harmless restructuring
must not raise an alarm); their behaviour is tied to the model by executing
them (harness/props/c18.py).

Value rendering: the canonical JSON text `json.dumps(v, sort_keys=True,
separators=(",", ":"))` with `%` and ` ` percent-encoded, so that a value is one
blank-free word of the driver's line protocol.  A default that is computed from
the installation directory (`os.path.join(config_folder, "network.json")`) is
rendered symbolically as the JSON string `"<config_folder>/network.json"`; the
harness maps the concrete path of the interpreter under test to the same token
(`symbolic_paths`)."""
import ast
import json
import logging
import os

SAFE_KEY = set("abcdefghijklmnopqrstuvwxyzABCDEFGHIJKLMNOPQRSTUVWXYZ0123456789_.-")


def enc_value(v):
    s = json.dumps(v, sort_keys=True, separators=(",", ":"))
    return s.replace("%", "%25").replace(" ", "%20")


def enc_key(k):
    out = []
    for ch in k:
        if ch in SAFE_KEY:
            out.append(ch)
        else:
            out.append("".join("%%%02X" % b for b in ch.encode("utf-8", "surrogatepass")))
    return "".join(out) or "%"          # the empty key is the single word `%`


def lean_str(s):
    assert all(32 <= ord(c) < 127 for c in s), s
    return '"' + s.replace("\\", "\\\\").replace('"', '\\"') + '"'


class Opaque(Exception):
    pass


def _enum_tables(tree):
    enums = {}
    for node in tree.body:
        if isinstance(node, ast.ClassDef) and any(
                (isinstance(b, ast.Name) and b.id == "Enum") or (isinstance(b, ast.Attribute) and b.attr == "Enum")
                for b in node.bases):
            members = {}
            for st in node.body:
                if isinstance(st, ast.Assign) and len(st.targets) == 1 and isinstance(st.targets[0], ast.Name) \
                        and isinstance(st.value, ast.Constant):
                    members[st.targets[0].id] = st.value.value
            enums[node.name] = members
    return enums


def _resolve(node, enums):
    """python value of a default expression, or ("path", text) for an installation-relative path"""
    if isinstance(node, ast.Constant):
        if node.value is None or isinstance(node.value, (bool, int, float, str)):
            return node.value
        raise Opaque(ast.unparse(node))
    if isinstance(node, ast.UnaryOp) and isinstance(node.op, ast.USub) and isinstance(node.operand, ast.Constant) \
            and isinstance(node.operand.value, (int, float)) and not isinstance(node.operand.value, bool):
        return -node.operand.value
    if isinstance(node, (ast.List, ast.Tuple)):
        return [_plain(_resolve(e, enums), e) for e in node.elts]
    if isinstance(node, ast.Dict):
        out = {}
        for k, v in zip(node.keys, node.values):
            if not (isinstance(k, ast.Constant) and isinstance(k.value, str)):
                raise Opaque(ast.unparse(node))
            out[k.value] = _plain(_resolve(v, enums), v)
        return out
    # SimBackend.STABILIZER.value
    if isinstance(node, ast.Attribute) and node.attr == "value" and isinstance(node.value, ast.Attribute) \
            and isinstance(node.value.value, ast.Name) and node.value.value.id in enums \
            and node.value.attr in enums[node.value.value.id]:
        return enums[node.value.value.id][node.value.attr]
    # logging.WARNING
    if isinstance(node, ast.Attribute) and isinstance(node.value, ast.Name) and node.value.id == "logging" \
            and isinstance(getattr(logging, node.attr, None), int) and node.attr.isupper():
        return getattr(logging, node.attr)
    # os.path.join(config_folder, "network.json")
    if isinstance(node, ast.Call) and ast.unparse(node.func) == "os.path.join" and not node.keywords and node.args:
        parts = []
        for a in node.args:
            if isinstance(a, ast.Name):
                parts.append("<%s>" % a.id)
            elif isinstance(a, ast.Constant) and isinstance(a.value, str) and "/" not in a.value and a.value:
                parts.append(a.value)
            else:
                raise Opaque(ast.unparse(node))
        if not parts[0].startswith("<"):
            raise Opaque(ast.unparse(node))
        return ("path", "/".join(parts))
    raise Opaque(ast.unparse(node))


def _plain(v, node):
    if isinstance(v, tuple):
        raise Opaque(ast.unparse(node))
    return v


def extract(settings_py):
    """facts of settings.py as a dict (see module doc)"""
    src = open(settings_py).read()
    tree = ast.parse(src)
    opaque = []
    enums = _enum_tables(tree)
    # the class of the module-level settings object
    cls_name = None
    for node in tree.body:
        if isinstance(node, ast.Assign) and len(node.targets) == 1 and isinstance(node.targets[0], ast.Name) \
                and node.targets[0].id == "simulaqron_settings" and isinstance(node.value, ast.Call) \
                and isinstance(node.value.func, ast.Name):
            cls_name = node.value.func.id
    cls = next((n for n in tree.body if isinstance(n, ast.ClassDef) and n.name == cls_name), None)
    facts = {"class": cls_name, "defaults": [], "symbolic": {}, "opaque": opaque}
    if cls is None:
        opaque.append("settings-class-not-found")
        return facts
    table = None
    for st in cls.body:
        if isinstance(st, ast.Assign) and any(isinstance(t, ast.Name) and t.id == "_default_config" for t in st.targets):
            table = st.value
    if not isinstance(table, ast.Dict):
        opaque.append("_default_config:" + (ast.unparse(table) if table is not None else "missing"))
    else:
        for k, v in zip(table.keys, table.values):
            if not (isinstance(k, ast.Constant) and isinstance(k.value, str)):
                opaque.append("key:" + (ast.unparse(k) if k is not None else "**"))
                continue
            try:
                val = _resolve(v, enums)
            except Opaque as e:
                opaque.append("value:%s=%s" % (k.value, e))
                continue
            if isinstance(val, tuple):
                facts["symbolic"][k.value] = val[1]
                tok = enc_value(val[1])
            else:
                tok = enc_value(val)
            facts["defaults"].append((enc_key(k.value), tok))
    return facts


def symbolic_paths(facts, config_folder):
    """{concrete path: symbolic text} for the installation-relative defaults"""
    out = {}
    for key, text in facts["symbolic"].items():
        parts = text.split("/")
        concrete = os.path.join(*[config_folder if p == "<config_folder>" else p for p in parts])
        out[concrete] = text
    return out


def render(facts):
    def lst(items):
        return "[" + ", ".join(items) + "]"

    lines = [
        "/- GENERATED on every run by harness/gen/defaults.py from simulaqron/settings.py (Python `ast`).",
        "   Do not edit.  Values are canonical JSON words (see the generator's doc). -/",
        "namespace SqVerif.Gen.Defaults",
        "",
        "/-- `%s._default_config`, in source order -/" % facts["class"],
        "def defaults : List (String × String) :=",
        "  " + lst("(%s, %s)" % (lean_str(k), lean_str(v)) for k, v in facts["defaults"]),
        "",
        "/-- constructs the translator did not understand (must be empty) -/",
        "def untranslated : List String := " + lst(lean_str(enc_key(s)) for s in facts["opaque"]),
        "",
        "end SqVerif.Gen.Defaults",
        "",
    ]
    return "\n".join(lines)


def generate(settings_py, out_path):
    facts = extract(settings_py)
    text = render(facts)
    old = None
    if os.path.exists(out_path):
        old = open(out_path).read()
    if old != text:                      # leave the mtime alone when nothing changed (no rebuild)
        os.makedirs(os.path.dirname(out_path), exist_ok=True)
        tmp = out_path + ".tmp%d" % os.getpid()
        with open(tmp, "w") as f:
            f.write(text)
        os.replace(tmp, out_path)
    return facts, old != text


if __name__ == "__main__":
    import sys
    f, changed = generate(sys.argv[1], sys.argv[2])
    print(json.dumps(f, indent=1), "changed" if changed else "unchanged")

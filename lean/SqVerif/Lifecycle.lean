/-
L10 — network life cycle (C20).  Core Lean only.

Two small models, both executable, both tied to the real code by
`harness/props/c20.py`:

* `St` / `Ev` / `step`: bring-up of ONE incarnation of the node processes.
  Mirrors `simulaqron/virtual_node/virtual.py:203-278` (`connectNet`,
  `connect_to_node`, `handle_connection`, `handle_connection_error`,
  `remote_check_connections`), `simulaqron/start/start_vnode.py:48-60`
  (`Backend.start`: construct the node -- which issues the connects -- then
  `listenTCP`, then `reactor.run`) and `simulaqron/start/start_qnodeos.py:24-103`
  (`connect_to_virtNode`, `handle_connection_error`, `init_register`,
  `setup_netqasm_server`).
  The schedule is adversarial: a list of events `startV i | startQ i |
  resolve key | tick d` in any order and spacing.

* `Table` / `start` / `stop` / `die`: the process table of
  `simulaqron/network.py:152-201` (`Network._setup_processes`, `start`, `stop`).
  `start` mirrors the FIXED code (branch fix-c20: a process that ran before is
  replaced by a fresh `mp.Process`); `startUnfixed` mirrors the code as it was
  (`p.start()` on a `Process` object that already ran raises AssertionError).

* `World`: both together with the `running` flag (`network.py:124-147`), as the
  driver and the restart theorem use them.

What is NOT here (cannot be): OS process creation/termination, TCP, port release.
A connect attempt has exactly two outcomes in the model -- accepted iff the
target virtual node is listening, else refused (`ConnectionRefusedError`) --
which is what localhost TCP does; time-outs and lost connections (on which the
real code calls `reactor.stop()`) are outside the model.
-/
namespace SqVerif.Lifecycle

/-! ## connection bring-up -/

/-- Who connects to whom.  `q = false`: the virtual node of `src` connects to
the virtual node of `dst` (`virtual.py:241 connect_to_node`).  `q = true`: the
QNodeOS process of `src` connects to its own virtual node (`dst = src`,
`start_qnodeos.py:33 connect_to_virtNode`). -/
structure Key where
  src : Nat
  dst : Nat
  q : Bool
deriving DecidableEq, Repr

/-- A connect attempt that has not succeeded yet.  `due = none`:
`reactor.connectTCP` was called, the outcome is still open.  `due = some t`: it
was refused and `reactor.callLater(conn_retry_time, connect_…)` is armed for
time `t` (`virtual.py:275`, `start_qnodeos.py:61`). -/
structure Attempt where
  key : Key
  due : Option Nat
deriving DecidableEq, Repr

structure St where
  n : Nat                      -- number of configured nodes (names 0..n-1 in config order)
  retry : Nat                  -- simulaqron_settings.conn_retry_time, in clock units
  now : Nat
  vUp : Nat → Bool             -- virtual node i constructed and listening (start_vnode / Backend.start)
  qUp : Nat → Bool             -- QNodeOS process i running its main()
  conn : Nat → Nat → Bool      -- j ∈ virtualNode(i).conn  (virtual.py:168, 214, 261)
  qListen : Nat → Bool         -- QNodeOS i listens for hosts (start_qnodeos.py:88)
  pend : List Attempt

def init (n retry : Nat) : St :=
  { n := n, retry := retry, now := 0, vUp := fun _ => false, qUp := fun _ => false,
    conn := fun _ _ => false, qListen := fun _ => false, pend := [] }

def set1 (f : Nat → Bool) (i : Nat) : Nat → Bool := fun k => if k = i then true else f k

def set2 (f : Nat → Nat → Bool) (i j : Nat) : Nat → Nat → Bool :=
  fun a b => if a = i ∧ b = j then true else f a b

/-- the other configured nodes, in config order (`connectNet` loops over `hostDict`) -/
def peers (n i : Nat) : List Nat := (List.range n).filter (fun j => j ≠ i)

inductive Ev where
  | startV (i : Nat)      -- the virtual-node process of node i reaches Backend.start
  | startQ (i : Nat)      -- the QNodeOS process of node i reaches connect_to_virtNode
  | resolve (k : Key)     -- the network decides the open attempt with this key
  | tick (d : Nat)        -- d units of time pass; every armed retry that is due fires
deriving DecidableEq, Repr

/-- `virtualNode.__init__` → `connectNet` (own name into `conn`, one
`connect_to_node` per peer), then `reactor.listenTCP` (`virtual.py:125-126`). -/
def startV (s : St) (i : Nat) : St :=
  if i < s.n ∧ s.vUp i = false then
    { s with vUp := set1 s.vUp i, conn := set2 s.conn i i,
             pend := s.pend ++ (peers s.n i).map fun j => ⟨⟨i, j, false⟩, none⟩ }
  else s

/-- `start_qnodeos.main` → `connect_to_virtNode` (`start_qnodeos.py:141`). -/
def startQ (s : St) (i : Nat) : St :=
  if i < s.n ∧ s.qUp i = false then
    { s with qUp := set1 s.qUp i, pend := s.pend ++ [⟨⟨i, i, true⟩, none⟩] }
  else s

def isOpen (k : Key) (a : Attempt) : Bool := decide (a.key = k) && a.due.isNone

def inFlight (s : St) (k : Key) : Bool := s.pend.any (isOpen k)

/-- The outcome of an open attempt.  Target listening: the root object arrives,
`handle_connection` stores the peer (`virtual.py:261`) resp. `init_register`
sets the virtual node and `setup_netqasm_server` listens
(`start_qnodeos.py:24-31, 88`).  Otherwise `ConnectionRefusedError`: re-armed
after `conn_retry_time` (`virtual.py:273-275`, `start_qnodeos.py:59-67`). -/
def resolve (s : St) (k : Key) : St :=
  if inFlight s k then
    if s.vUp k.dst then
      let pend' := s.pend.filter fun a => !isOpen k a
      if k.q then { s with qListen := set1 s.qListen k.src, pend := pend' }
      else { s with conn := set2 s.conn k.src k.dst, pend := pend' }
    else
      { s with pend := s.pend.map fun a => if isOpen k a then ⟨a.key, some (s.now + s.retry)⟩ else a }
  else s

def fire (now : Nat) (a : Attempt) : Attempt :=
  match a.due with
  | some t => if t ≤ now then ⟨a.key, none⟩ else a
  | none => a

/-- time passes: a due `callLater` calls `connect_to_node` / `connect_to_virtNode` again -/
def tick (s : St) (d : Nat) : St :=
  { s with now := s.now + d, pend := s.pend.map (fire (s.now + d)) }

def step (s : St) : Ev → St
  | .startV i => startV s i
  | .startQ i => startQ s i
  | .resolve k => resolve s k
  | .tick d => tick s d

def run (s : St) (evs : List Ev) : St := evs.foldl step s

/-- an event that changes nothing because it is not possible now (the driver answers `bad-event`) -/
def enabled (s : St) : Ev → Bool
  | .startV i => decide (i < s.n) && !s.vUp i
  | .startQ i => decide (i < s.n) && !s.qUp i
  | .resolve k => inFlight s k
  | .tick _ => true

/-- `remote_check_connections` (`virtual.py:216-221`): `len(self.conn) == len(hostDict)` -/
def connCount (s : St) (i : Nat) : Nat := ((List.range s.n).filter (s.conn i)).length

def checkConnections (s : St) (i : Nat) : Bool := connCount s i == s.n

/-- resolve every attempt that is pending now, in list order -/
def resolveAll (s : St) : St := (s.pend.map (·.key)).foldl resolve s

/-- "each pending attempt fires once more": the retry time passes (every armed
attempt becomes due and is issued again), then every open attempt is decided. -/
def flush (s : St) : St := resolveAll (tick s s.retry)

/-- what `Network.running` probes: every QNodeOS port accepts -/
def allQListen (s : St) : Bool := (List.range s.n).all s.qListen

def allVUp (s : St) : Bool := (List.range s.n).all s.vUp

def fullConn (s : St) : Bool := (List.range s.n).all fun i => checkConnections s i

/-! ## process table of `Network` -/

structure Proc where
  alive : Bool
  launches : Nat        -- OS processes launched for this slot so far (0 ⇔ `p.pid is None`)
deriving DecidableEq, Repr

abbrev Table := List Proc

/-- `_setup_processes`: per node a virtual-node process and a QNodeOS process, none started -/
def mkTable (n : Nat) : Table := List.replicate (2 * n) ⟨false, 0⟩

/-- fixed `start` loop body (`network.py`, branch fix-c20): alive → untouched;
otherwise a process object that can be started exists (a fresh one if this one
ran before) and is started. -/
def startProc (p : Proc) : Proc := if p.alive then p else ⟨true, p.launches + 1⟩

def start (t : Table) : Table := t.map startProc

/-- `stop`: `while p.is_alive(): p.terminate()` for every process -/
def stop (t : Table) : Table := t.map fun p => ⟨false, p.launches⟩

/-- process k ends by itself (crash, `reactor.stop()` on an error path, a host's STOP signal) -/
def die (t : Table) (k : Nat) : Table := t.modify k fun p => ⟨false, p.launches⟩

inductive StartResult where
  | ok (t : Table)
  | assertionError (t : Table)      -- 'cannot start a process twice'; t = table at the raise
deriving DecidableEq, Repr

/-- the loop of `Network.start` as it was before the fix (`network.py:174-178` at
6e2e627): `p.start()` on a `Process` object that has run raises AssertionError
and leaves the remaining processes untouched. -/
def startUnfixedAux : Table → Table → StartResult
  | [], acc => .ok acc.reverse
  | p :: ps, acc =>
    if p.alive then startUnfixedAux ps (p :: acc)
    else if p.launches = 0 then startUnfixedAux ps (⟨true, 1⟩ :: acc)
    else .assertionError (acc.reverse ++ p :: ps)

def startUnfixed (t : Table) : StartResult := startUnfixedAux t []

def allAlive (t : Table) : Bool := t.all (·.alive)
def noneAlive (t : Table) : Bool := t.all (!·.alive)

/-! ## both together -/

structure World where
  tab : Table
  cs : St
  runFlag : Bool          -- Network._running (cached positive answer)

def World.init (n retry : Nat) : World := ⟨mkTable n, Lifecycle.init n retry, false⟩

def aliveAt (t : Table) (k : Nat) : Bool :=
  match t[k]? with
  | some p => p.alive
  | none => false

inductive Op where
  | netStart
  | netStop
  | ev (e : Ev)
  | queryRunning
deriving DecidableEq, Repr

/-- is the event possible in this world: the process concerned must have been launched -/
def World.enabled (w : World) : Ev → Bool
  | .startV i => aliveAt w.tab (2 * i) && Lifecycle.enabled w.cs (.startV i)
  | .startQ i => aliveAt w.tab (2 * i + 1) && Lifecycle.enabled w.cs (.startQ i)
  | e => Lifecycle.enabled w.cs e

/-- `Network.running` (`network.py:124-147`): a cached `True`, else probe every node -/
def World.queryRunning (w : World) : World × Bool :=
  if w.runFlag then (w, true)
  else
    let r := allQListen w.cs
    ({ w with runFlag := r }, r)

def World.step (w : World) : Op → World
  | .netStart => { w with tab := start w.tab }
  | .netStop =>
    -- every process is terminated: nothing listens, no connection, no timer survives
    { tab := stop w.tab, cs := Lifecycle.init w.cs.n w.cs.retry, runFlag := false }
  | .ev e => if w.enabled e then { w with cs := Lifecycle.step w.cs e } else w
  | .queryRunning => w.queryRunning.1

def World.run (w : World) (ops : List Op) : World := ops.foldl World.step w

end SqVerif.Lifecycle

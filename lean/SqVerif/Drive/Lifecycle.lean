import SqVerif.Lifecycle
import SqVerif.Drive.Util
/- driver for the life-cycle model (stateful).
   in : `world N RETRY`            fresh world: N nodes, retry time in clock units (1 unit = 1/16 s in the harness)
        `netstart` | `netstop` | `running`
        `startV I` | `startQ I` | `resolveP I J` | `resolveQ I` | `tick D`
        `flush`                    tick RETRY then resolve every pending attempt (the model's `flush`)
        `tab N` | `tstart` | `tstop` | `tdie K` | `tstart-unfixed`      process table alone
   out: world ops →
          `t=<now> alive=<bits> v=<bits> q=<bits> ql=<bits> conn=<i:j,j;i:j> open=<src>dst[q],.. due=<t,t,..> run=<0|1> cc=<bits>`
          (`open` = undecided attempts, sorted; `due` = deadlines of the armed retries, sorted -- which retry
           belongs to which pair shows when it fires and becomes open; `running` appends ` ans=<0|1>`;
           an event that is not possible now → `bad-event` and nothing changes)
        table ops → `alive=<bits> launches=<n,n,..>` | `AssertionError alive=.. launches=..`
        anything else → `bad-op` -/
namespace SqVerif.Drive.Lifecycle
open SqVerif.Lifecycle SqVerif.Drive

def bit (b : Bool) : String := if b then "1" else "0"

def bits (n : Nat) (f : Nat → Bool) : String := String.join ((List.range n).map fun i => bit (f i))

def showAtt (a : Attempt) : String :=
  toString a.key.src ++ ">" ++ toString a.key.dst ++ (if a.key.q then "q" else "")

def attLt (a b : Attempt) : Bool :=
  a.key.src < b.key.src || (a.key.src == b.key.src &&
    (a.key.dst < b.key.dst || (a.key.dst == b.key.dst && (!a.key.q && b.key.q))))

def showConn (s : St) : String :=
  ";".intercalate ((List.range s.n).map fun i =>
    toString i ++ ":" ++ ",".intercalate (((List.range s.n).filter (s.conn i)).map toString))

def showTab (t : Table) : String :=
  "alive=" ++ String.join (t.map fun p => bit p.alive) ++ " launches=" ++ ",".intercalate (t.map fun p => toString p.launches)

def showWorld (w : World) : String :=
  let s := w.cs
  "t=" ++ toString s.now ++ " alive=" ++ String.join (w.tab.map fun p => bit p.alive) ++
  " v=" ++ bits s.n s.vUp ++ " q=" ++ bits s.n s.qUp ++ " ql=" ++ bits s.n s.qListen ++
  " conn=" ++ showConn s ++
  " open=" ++ ",".intercalate ((sortBy attLt (s.pend.filter (·.due.isNone))).map showAtt) ++
  " due=" ++ ",".intercalate ((sortBy (· < ·) (s.pend.filterMap (·.due))).map toString) ++
  " run=" ++ bit w.runFlag ++ " cc=" ++ bits s.n (checkConnections s)

structure DSt where
  w : Option World
  t : Option Table

def parseEv : List String → Option Ev
  | ["startV", i] => i.toNat?.map .startV
  | ["startQ", i] => i.toNat?.map .startQ
  | ["resolveP", i, j] => do let a ← i.toNat?; let b ← j.toNat?; pure (.resolve ⟨a, b, false⟩)
  | ["resolveQ", i] => i.toNat?.map fun a => .resolve ⟨a, a, true⟩
  | ["tick", d] => d.toNat?.map .tick
  | _ => none

def handle (st : DSt) (line : String) : DSt × String :=
  match words line with
  | ["world", n, r] =>
    match n.toNat?, r.toNat? with
    | some n, some r => let w := World.init n r; ({ st with w := some w }, showWorld w)
    | _, _ => (st, "bad-op")
  | ["tab", n] =>
    match n.toNat? with
    | some n => let t := mkTable n; ({ st with t := some t }, showTab t)
    | none => (st, "bad-op")
  | ["tstart"] =>
    match st.t with
    | some t => let t' := start t; ({ st with t := some t' }, showTab t')
    | none => (st, "bad-op")
  | ["tstart-unfixed"] =>
    match st.t with
    | some t =>
      match startUnfixed t with
      | .ok t' => ({ st with t := some t' }, showTab t')
      | .assertionError t' => ({ st with t := some t' }, "AssertionError " ++ showTab t')
    | none => (st, "bad-op")
  | ["tstop"] =>
    match st.t with
    | some t => let t' := stop t; ({ st with t := some t' }, showTab t')
    | none => (st, "bad-op")
  | ["tdie", k] =>
    match st.t, k.toNat? with
    | some t, some k => let t' := die t k; ({ st with t := some t' }, showTab t')
    | _, _ => (st, "bad-op")
  | ws =>
    match st.w with
    | none => (st, "bad-op")
    | some w =>
      match ws with
      | ["netstart"] => let w' := w.step .netStart; ({ st with w := some w' }, showWorld w')
      | ["netstop"] => let w' := w.step .netStop; ({ st with w := some w' }, showWorld w')
      | ["running"] =>
        let r := w.queryRunning
        ({ st with w := some r.1 }, showWorld r.1 ++ " ans=" ++ bit r.2)
      | ["flush"] => let w' := { w with cs := flush w.cs }; ({ st with w := some w' }, showWorld w')
      | _ =>
        match parseEv ws with
        | some e =>
          if w.enabled e then let w' := w.step (.ev e); ({ st with w := some w' }, showWorld w')
          else (st, "bad-event")
        | none => (st, "bad-op")

end SqVerif.Drive.Lifecycle

"""simnet -- a deterministic in-process SimulaQron network (DESIGN section 1.4).

The REAL `virtualNode` / `virtualQubit` / `simulatedQubit` objects (and, with
`NqNet`, the real `NetQASMFactory` / `SubroutineHandler` / executioner) run
unmodified inside one Python process:

* `twisted.internet.reactor` is replaced BEFORE simulaqron is imported by one
  `MemoryReactorClock` (`install_reactor`), so `deferLater`/`callLater` live on
  a fake clock and `reactor.connectTCP` merely records the request;
* every recorded connection is completed by the harness with real Perspective
  Broker client/server protocols joined by `twisted.test.iosim.FakeTransport`
  subclasses (`_Pipe`), so every inter-node call really crosses PB (remote
  references, `RemoteError`/`CopiedFailure`, copy semantics);
* the harness owns message delivery, time and randomness.

Granularity of delivery (checked against twisted 26.4): `Banana.sendEncoded`
serialises one PB message (`message` = a call, `answer`, `error`, `decref`,
`version`, dialect negotiation) and hands it to `transport.write` in ONE call;
`_Pipe.write` queues each write separately, therefore

    one schedulable event  ==  one `transport.write`  ==  one PB message.

Exception, deliberately: `decref` messages (sent from `RemoteReference.__del__`,
i.e. at the whim of the Python garbage collector) are NOT events.  They stay in
their FIFO position and are delivered silently immediately before the next real
message of the same directed connection (or by `flush_decrefs()`); they only
touch the receiving broker's reference-count table, which is private to that
connection, so their timing relative to other connections is unobservable.
This keeps recorded schedules replayable although GC timing is not.

Process-global side effects of using this module (all outside /repo): the
twisted log and the "NetQASM" logger are redirected into lists (`SimNet.log`,
`SimNet.pylog`) instead of stderr; `sys.unraisablehook` swallows the
"generator ignored GeneratorExit" complaints of operations abandoned in flight
(counted in `simnet._UNRAISABLE`); `Host.__hash__` is pinned (see
`SimNet.set_host_order`: the code under test iterates a set of Host objects,
whose order would otherwise depend on memory addresses); module attributes
`stabilizer_states.randint`, `virtual.random`, and with NqNet
`executioner.random` / `executioner.time` are replaced by scripted sources.

Only ONE SimNet may be live per process at a time (they share the reactor and
the patched module attributes); constructing a new one retires the previous.

Import discipline: nothing from simulaqron is imported at module import time.
`SimNet.__init__` calls `core.scratch_repo()` (scratch copy of
$VERIF_REPO/simulaqron on sys.path, HOME redirected), installs the reactor,
forces the stabilizer backend without write-through and only then imports
simulaqron.  Nothing is ever written under /repo or /verif.

Public API (see the individual docstrings):

    install_reactor() -> MemoryReactorClock
    SimNet(names, max_qubits=5, max_regs=100, topology=None, rng=None, host_order=None, bringup=None)
        .nodes .clock .rng .trace .last_schedule .log
        bring-up mode only (see `SimNet._bring_up`): .run_until(t) .missing_connections()
        .retry_deadlines() .fire_next_retry() .connection_log;  bringing_up(spec) = context manager
        .client(name) -> RemoteReference            .label(cid) .head(cid)
        .pending(detail=False) .deliver(cid) .timers() .fire_next_timer(i=0)
        .advance(dt) .flush_decrefs()
        .run(d_or_list, scheduler=None, max_virtual_time=600.0)
        .settle(scheduler=None, max_virtual_time=600.0, fire_timers=True)
        .set_coins(x) .set_backoff(x) .coin_log .backoff_log .set_host_order(names)
        .snapshot() .joint_state() .lock_flags() .all_locks_free()
        .resolve(ref) .close()
    FifoScheduler() RandomScheduler(rng, timer_prob=0.0)
    DelayInjection(hold_label_pred, k, until_count, base=None, detail=False,
                   timers_while_held=False)
    PCTScheduler(rng, depth=2, est_len=200)
    Replay(actions, then=None)
    error_class(result) error_text(result) Hang ReplayDivergence
    NqNet(SimNet): .facs .host(name) .feed(p, data) .settle() .program(...)
    frame(msg_id, raw) parse_replies(data) program(name, fn, epr_sockets, **kw)
"""
import atexit
import collections
import json
import logging
import os
import random
import shutil
import sys
import tempfile

__all__ = [
    "install_reactor", "SimNet", "NqNet", "FifoScheduler", "RandomScheduler", "DelayInjection", "PCTScheduler",
    "Replay", "Hang", "ReplayDivergence", "error_class", "error_text", "frame", "parse_replies", "program",
    "bringing_up",
]

_REACTOR = None
_LOG = []            # twisted log events (level name, text) since the last SimNet was built
_PYLOG = []          # NetQASM/SimulaQron `logging` records >= WARNING, as (level name, logger, text)
_UNRAISABLE = []     # generators of abandoned operations that ignored GeneratorExit when collected
_LIVE = None         # the live SimNet
_CFG_DIR = None
_CFG_PID = None
_CFG_CACHE = {}
_UNSET = object()


# ---------------------------------------------------------------------------
# reactor, boot
# ---------------------------------------------------------------------------

def install_reactor():
    """Replace `twisted.internet.reactor` (sys.modules entry and package
    attribute) by a `MemoryReactorClock` and return it.  Idempotent.  Must run
    before any simulaqron module that does `from twisted.internet import
    reactor` is imported; raises RuntimeError if such a module already holds a
    different reactor.  Also routes the twisted log (where PB reports
    server-side tracebacks and "Unhandled error in Deferred") into a list
    instead of stderr (`SimNet.log`)."""
    global _REACTOR
    if _REACTOR is not None:
        return _REACTOR
    import twisted.internet
    from twisted.internet.testing import MemoryReactorClock
    cur = sys.modules.get("twisted.internet.reactor")
    if isinstance(cur, MemoryReactorClock):
        R = cur
    else:
        R = MemoryReactorClock()
    for name, mod in list(sys.modules.items()):
        if name.startswith("simulaqron") and mod is not None and getattr(mod, "reactor", R) is not R:
            raise RuntimeError("%s was imported before install_reactor() and holds a real reactor" % name)
    sys.modules["twisted.internet.reactor"] = R
    twisted.internet.reactor = R
    try:
        from twisted.logger import globalLogBeginner, formatEvent

        def observer(event):
            try:
                text = formatEvent(event)
                f = event.get("log_failure")
                if f is not None:
                    text = "%s | %s: %s" % (text, getattr(f.type, "__name__", f.type), f.getErrorMessage())
                _LOG.append((event["log_level"].name, text))
            except Exception as e:  # never let logging break a run
                _LOG.append(("error", "unformattable log event: %r" % (e,)))
            if len(_LOG) > 20000:
                del _LOG[:10000]

        globalLogBeginner.beginLoggingTo([observer], discardBuffer=True, redirectStandardIO=False)
    except Exception:
        pass
    prev_hook = sys.unraisablehook

    def hook(u):
        # a network dropped with operations in flight: their inlineCallbacks
        # generators sit in `finally: yield ...` and complain when collected
        if u.exc_type is RuntimeError and "generator ignored GeneratorExit" in str(u.exc_value):
            _UNRAISABLE.append(repr(u.object))
            if len(_UNRAISABLE) > 1000:
                del _UNRAISABLE[:500]
            return
        prev_hook(u)
    sys.unraisablehook = hook
    _REACTOR = R
    return R


class _ListHandler(logging.Handler):
    def emit(self, record):
        try:
            _PYLOG.append((record.levelname, record.name, record.getMessage()))
        except Exception:
            _PYLOG.append((record.levelname, record.name, str(record.msg)))
        if len(_PYLOG) > 20000:
            del _PYLOG[:10000]


_booted = None


def _boot():
    """scratch copy -> fake reactor -> settings pinned (no write-through) ->
    import simulaqron.  Returns a namespace of the imported pieces."""
    global _booted
    if _booted is not None:
        return _booted
    try:
        from . import core
    except ImportError:  # imported as a top-level module
        import core
    core.scratch_repo()
    R = install_reactor()
    from simulaqron.settings import simulaqron_settings
    cfg = simulaqron_settings._config
    cfg["sim_backend"] = "stabilizer"       # BEFORE virtual.py is imported
    cfg["noisy_qubits"] = False
    cfg["t1"] = 1.0
    cfg["conn_retry_time"] = 0.5
    cfg["recv_timeout"] = 100
    cfg["recv_retry_time"] = 0.1
    import simulaqron.toolbox.stabilizer_states as SS
    import simulaqron.virtual_node.virtual as V
    import simulaqron.virtual_node.quantum as Q
    from simulaqron.general.host_config import SocketsConfig
    if V.reactor is not R or Q.reactor is not R:
        raise RuntimeError("simulaqron was imported with a real reactor")
    import simulaqron.general.host_config as HC
    # see SimNet.set_host_order: deterministic hash for Host (equality stays identity)

    def _host_hash(self):
        r = self.__dict__.get("_sn_rank")
        return r if r is not None else id(self) >> 4
    HC.Host.__hash__ = _host_hash
    # SimulaQron logs through the NetQASM logger (stderr handler): keep stderr
    # quiet, keep WARNING+ records for the checks.
    lg = logging.getLogger("NetQASM")
    for h in list(lg.handlers):
        lg.removeHandler(h)
    h = _ListHandler()
    h.setLevel(logging.WARNING)
    lg.addHandler(h)
    lg.setLevel(logging.WARNING)
    lg.propagate = False

    class NS:
        pass
    ns = NS()
    ns.R, ns.V, ns.Q, ns.SS, ns.SocketsConfig, ns.settings = R, V, Q, SS, SocketsConfig, simulaqron_settings
    ns.orig_randint = SS.randint
    ns.orig_vrandom = V.random
    _booted = ns
    return ns


def _config_file(names, topology, network_name="default", extra_networks=None):
    """network.json for these node names (cached per process, in a temp dir
    outside /repo and /verif).  The nodes form the network `network_name`;
    extra_networks = {name: {"nodes": [names], "topology": ...}} adds further
    networks to the same file (written after it, own port ranges)."""
    global _CFG_DIR, _CFG_PID
    if _CFG_PID != os.getpid():
        # forked worker (process pools): never share file names with the parent or siblings
        _CFG_DIR, _CFG_PID = None, os.getpid()
        _CFG_CACHE.clear()
    key = json.dumps([list(names), topology], sort_keys=True)
    if network_name != "default" or extra_networks:
        # (json.dumps without sort_keys: the order of the extra networks and of their nodes is part of the file)
        key = json.dumps([list(names), topology, network_name, extra_networks])
    fn = _CFG_CACHE.get(key)
    if fn and os.path.exists(fn):
        return fn
    if _CFG_DIR is None:
        base = os.environ.get("VERIF_TMP") or tempfile.gettempdir()
        _CFG_DIR = tempfile.mkdtemp(prefix="sqv_net_", dir=base)
        atexit.register(shutil.rmtree, _CFG_DIR, True)
    real = os.path.realpath(_CFG_DIR)
    if real.startswith("/repo/") or real.startswith("/verif/"):
        raise RuntimeError("refusing to write network config under %s" % real)
    cfg = {network_name: {"nodes": {n: {"app_socket": ["localhost", 8000 + 3 * i],
                                         "qnodeos_socket": ["localhost", 8001 + 3 * i],
                                         "vnode_socket": ["localhost", 8002 + 3 * i]}
                                     for i, n in enumerate(names)},
                          "topology": topology}}
    for j, (xname, x) in enumerate((extra_networks or {}).items()):
        if xname in cfg:
            raise ValueError("duplicate network name %r" % (xname,))
        base = 8000 + 300 * (j + 1)
        cfg[xname] = {"nodes": {n: {"app_socket": ["localhost", base + 3 * i],
                                    "qnodeos_socket": ["localhost", base + 1 + 3 * i],
                                    "vnode_socket": ["localhost", base + 2 + 3 * i]}
                                for i, n in enumerate(x["nodes"])},
                      "topology": x.get("topology")}
    fn = os.path.join(_CFG_DIR, "network_%d.json" % len(_CFG_CACHE))
    with open(fn + ".tmp", "w") as f:
        json.dump(cfg, f)
    os.replace(fn + ".tmp", fn)
    _CFG_CACHE[key] = fn
    return fn


# ---------------------------------------------------------------------------
# staggered bring-up (optional; nothing here changes a SimNet built without it)
# ---------------------------------------------------------------------------

_BRINGUP_DEFAULT = None


class bringing_up:
    """`with bringing_up(spec): ...` -- every SimNet constructed inside the
    block WITHOUT an explicit `bringup=` argument is built with `bringup=spec`
    (for code that constructs its SimNet itself, e.g. `vnetcase.Exec`)."""

    def __init__(self, spec):
        self.spec, self.prev = spec, None

    def __enter__(self):
        global _BRINGUP_DEFAULT
        self.prev, _BRINGUP_DEFAULT = _BRINGUP_DEFAULT, self.spec
        return self

    def __exit__(self, *exc):
        global _BRINGUP_DEFAULT
        _BRINGUP_DEFAULT = self.prev
        return False


# ---------------------------------------------------------------------------
# results
# ---------------------------------------------------------------------------

def error_class(result):
    """Short class name of the error a `run()` result carries, or None if the
    result is not a Failure.  Works for PB `CopiedFailure`s (whose `.type` is
    the dotted name as bytes/str, e.g. b'simulaqron.virtual_node.basics.
    noQubitError'), for `RemoteError` values (`.remoteType`) and for local
    exceptions."""
    from twisted.python.failure import Failure
    if not isinstance(result, Failure):
        return None
    t = getattr(result.value, "remoteType", None)
    if t is None:
        t = result.type
    if isinstance(t, bytes):
        t = t.decode("utf8", "replace")
    if isinstance(t, str):
        return t.rsplit(".", 1)[-1]
    return getattr(t, "__name__", str(t))


def error_text(result):
    """Message of the error a `run()` result carries ('' if none)."""
    from twisted.python.failure import Failure
    if not isinstance(result, Failure):
        return ""
    try:
        return result.getErrorMessage()
    except Exception:
        return str(result.value)


class Hang(Exception):
    """`run()` exceeded its virtual-time budget, or nothing can happen any
    more while a deferred is unfired.  Attributes: reason, unfired (indices
    into the list given to run), results (partial; unfired entries None),
    timers (as `SimNet.timers()`), locks (as `SimNet.lock_flags()`),
    schedule (actions executed by this run), virtual_time."""

    def __init__(self, reason, unfired, results, timers, locks, schedule, virtual_time):
        self.reason, self.unfired, self.results = reason, unfired, results
        self.timers, self.locks, self.schedule, self.virtual_time = timers, locks, schedule, virtual_time
        held = {n: f for n, f in locks.items() if f["node"] or f["qubits"]}
        Exception.__init__(self, "%s after %.1f virtual s; unfired=%s; %d timers; held locks=%s" % (
            reason, virtual_time, unfired, len(timers), held))


class ReplayDivergence(Exception):
    """A `Replay` scheduler met a state in which its next recorded action is
    impossible (or it ran out of actions with no fallback)."""


# ---------------------------------------------------------------------------
# transport
# ---------------------------------------------------------------------------

def _make_pipe_class():
    from twisted.test import iosim
    from twisted.spread import banana
    decref_prefix = b"\x02" + banana.LIST + bytes([banana.Banana.outgoingVocabulary[b"decref"]]) + banana.VOCAB

    class _Pipe(iosim.FakeTransport):
        """One directed half of a connection: what `protocol` writes is queued
        chunk by chunk and later handed to `dest.dataReceived`."""

        def __init__(self, protocol, isServer, net, cid, label, dest):
            iosim.FakeTransport.__init__(self, protocol, isServer)
            self.net, self.cid, self.label, self.dest = net, cid, label, dest
            self.q = collections.deque()   # [serial, data, is_decref, description-or-None]
            self.nreal = 0

        def write(self, data):
            if self.disconnecting:
                return
            net = self.net
            net._serial += 1
            dec = data.startswith(decref_prefix)
            self.q.append([net._serial, data, dec, None])
            if not dec:
                self.nreal += 1

        def head(self):
            for e in self.q:
                if not e[2]:
                    return e
            return None

    return _Pipe


_Pipe = None


def _describe(data):
    """Human-readable description of one PB chunk."""
    from twisted.spread import banana
    out = []
    b = banana.Banana()
    b.setPrefixLimit(64)
    b.currentDialect = b"pb"
    b.expressionReceived = out.append
    try:
        b.dataReceived(data)
    except Exception:
        return "raw[%d]" % len(data)
    if len(out) != 1:
        return "raw[%d]x%d" % (len(data), len(out))
    e = out[0]
    if isinstance(e, bytes):
        return "dialect"
    if not isinstance(e, list) or not e:
        return "raw"
    k = e[0]
    if k == b"message" and len(e) >= 4:
        name = e[3].decode("utf8", "replace") if isinstance(e[3], bytes) else str(e[3])
        return "call:%s#%s" % (name, e[1])
    if k == b"answer":
        return "answer#%s" % (e[1],)
    if k == b"error":
        return "error#%s" % (e[1],)
    if k == b"version":
        return "version"
    if k == b"decref":
        return "decref"
    if k in (b"pb", b"none"):
        return "dialects"
    return k.decode("utf8", "replace") if isinstance(k, bytes) else "raw"


# ---------------------------------------------------------------------------
# schedulers:  callable (simnet, pending, timers) -> action
#   pending = [(cid, label), ...] in cid order (only connections whose queue
#             holds a real message); timers = [(time, description), ...] sorted
#   action  = ("d", cid)  deliver the head message of connection cid
#             ("t", i)    fire timer i of `timers` (i must be tied with timer 0)
# ---------------------------------------------------------------------------

class FifoScheduler:
    """Deterministic round-robin over the connections (next pending cid after
    the one served last, wrapping), one message each; a timer only when no
    message is pending (then the earliest)."""

    def __init__(self):
        self.last = -1

    def __call__(self, net, pending, timers):
        if pending:
            for cid, _ in pending:
                if cid > self.last:
                    break
            else:
                cid = pending[0][0]
            self.last = cid
            return ("d", cid)
        return ("t", 0)


class RandomScheduler:
    """Uniform choice among the pending messages, drawn from `rng`; timers
    fire only when nothing is pending, or -- if timer_prob > 0 -- with that
    probability when both exist."""

    def __init__(self, rng, timer_prob=0.0):
        self.rng, self.timer_prob = rng, timer_prob

    def __call__(self, net, pending, timers):
        if pending and timers and self.timer_prob > 0 and self.rng.random() < self.timer_prob:
            return ("t", 0)
        if pending:
            return ("d", pending[self.rng.randrange(len(pending))][0])
        return ("t", 0)


class DelayInjection:
    """Hold back ONE message: the k-th (k = 0, 1, ...; counted in order of
    first appearance at the head of a connection, ties by cid) message whose
    text satisfies `hold_label_pred` is withheld -- and with it everything
    behind it on the same directed connection -- until `until_count` OTHER
    actions (deliveries on other connections; timer firings count too) have
    been executed; then it is delivered at once.  All other choices are made
    by `base` (default: a fresh FifoScheduler).

    The text given to the predicate is the connection label ("Alice->Bob");
    with detail=True it is label + " " + head description, e.g.
    "Alice->Bob call:get_global_lock#7", "Alice<-Bob answer#7".

    If nothing else can be delivered while holding: with
    timers_while_held=True pending timers are fired (each counts as one other
    action; this yields timer-versus-message races); otherwise, or when there
    is no timer either, the message is released early (`released_early`).
    Attributes after a run: held (cid or None), held_text, released_early,
    matched (number of matching messages seen)."""

    def __init__(self, hold_label_pred, k, until_count, base=None, detail=False, timers_while_held=False):
        self.pred, self.k, self.until_count = hold_label_pred, k, until_count
        self.base = base if base is not None else FifoScheduler()
        self.detail, self.twh = detail, timers_while_held
        self.state = 0          # 0 looking, 1 holding, 2 done
        self.judged = set()     # serials already shown to the predicate
        self.matched = 0
        self.others = 0
        self.held = None
        self.held_text = None
        self.released_early = False

    def __call__(self, net, pending, timers):
        if self.state == 0:
            for cid, label in pending:
                ser = net._pipes[cid].head()[0]
                if ser in self.judged:
                    continue
                self.judged.add(ser)
                text = label + " " + net.head(cid) if self.detail else label
                if self.pred(text):
                    self.matched += 1
                    if self.matched - 1 == self.k:
                        self.state, self.held, self.held_text = 1, cid, text
                        break
        if self.state == 1:
            if self.others >= self.until_count:
                self.state = 2
                return ("d", self.held)
            rest = [p for p in pending if p[0] != self.held]
            if rest:
                self.others += 1
                return self.base(net, rest, timers)
            if timers and self.twh:
                self.others += 1
                return ("t", 0)
            self.state, self.released_early = 2, True
            return ("d", self.held)
        return self.base(net, pending, timers)


class PCTScheduler:
    """PCT-style priorities: every directed connection gets a random priority
    on first sight; the pending connection of highest priority is always
    served; at `depth`-1 random step numbers in [0, est_len) the connection
    just chosen drops below all others.  Timers only when nothing is pending."""

    def __init__(self, rng, depth=2, est_len=200):
        self.rng = rng
        self.prio = {}
        self.change = set(rng.randrange(est_len) for _ in range(max(0, depth - 1)))
        self.step = 0
        self.low = 0.0

    def __call__(self, net, pending, timers):
        if not pending:
            return ("t", 0)
        for cid, _ in pending:
            if cid not in self.prio:
                self.prio[cid] = 1.0 + self.rng.random()
        cid = max(pending, key=lambda p: self.prio[p[0]])[0]
        if self.step in self.change:
            self.low -= 1.0
            self.prio[cid] = self.low
        self.step += 1
        return ("d", cid)


class Replay:
    """Re-execute a recorded list of actions (`SimNet.last_schedule`, or a
    slice of `SimNet.trace`; tuples or JSON lists).  One Replay object may be
    passed to several consecutive `run()` calls; it keeps its cursor.  When
    the actions are used up, `then` (a scheduler) takes over if given,
    otherwise ReplayDivergence is raised."""

    def __init__(self, actions, then=None):
        self.actions = [tuple(a) for a in actions]
        self.pos = 0
        self.then = then

    @property
    def exhausted(self):
        return self.pos >= len(self.actions)

    def __call__(self, net, pending, timers):
        if self.pos >= len(self.actions):
            if self.then is None:
                raise ReplayDivergence("recorded schedule exhausted after %d actions" % self.pos)
            return self.then(net, pending, timers)
        a = self.actions[self.pos]
        if a[0] == "d":
            if a[1] not in [c for c, _ in pending]:
                raise ReplayDivergence("action %d %r: nothing pending on %s (pending: %s)" % (
                    self.pos, a, net.label(a[1]) if a[1] < len(net._pipes) else "?", [l for _, l in pending]))
        elif a[0] == "t":
            if not timers:
                raise ReplayDivergence("action %d %r: no timer pending" % (self.pos, a))
        else:
            raise ReplayDivergence("action %d %r: unknown kind" % (self.pos, a))
        self.pos += 1
        return a


# ---------------------------------------------------------------------------
# scripted randomness
# ---------------------------------------------------------------------------

class _Script:
    """list -> consumed in order, then the fallback; callable -> called."""

    def __init__(self, src, fallback, log):
        self.src, self.fallback, self.log = src, fallback, log
        self.it = None if (src is None or callable(src)) else iter(list(src))

    def draw(self, a, b):
        if self.src is None:
            v = self.fallback(a, b)
        elif self.it is None:
            v = self.src(a, b)
        else:
            try:
                v = next(self.it)
            except StopIteration:
                v = self.fallback(a, b)
        self.log.append(v)
        return v


class _RandomProxy:
    """Stands in for the `random` MODULE inside one simulaqron module.
    `uniform` is scripted; everything else comes from the SimNet's rng (never
    from the global `random` module)."""

    def __init__(self, rng, uniform=None, choices=None):
        self._rng = rng
        if uniform is not None:
            self.uniform = uniform
        if choices is not None:
            self.choices = choices

    def __getattr__(self, name):
        return getattr(self._rng, name)


class _TimeProxy:
    """Stands in for the `time` module: time() is the virtual clock."""

    def __init__(self, clock):
        self._clock = clock

    def time(self):
        return 1.0e9 + self._clock.seconds()

    def __getattr__(self, name):
        import time as _t
        return getattr(_t, name)


# ---------------------------------------------------------------------------
# SimNet
# ---------------------------------------------------------------------------

def _setup_failure(layer, node, exc, names, topology, network_name, config_file):
    """the real code refuses to build a node of a VALID network configuration: a verdict, not a tool failure"""
    from . import core
    try:
        cfg = json.load(open(config_file))
    except Exception:
        cfg = None
    raise core.ImplementationFailure(
        "setup:%s:%s" % (layer, type(exc).__name__),
        "the %s of node %s of network %r cannot be built from a valid configuration (nodes %s, topology %s): %s: %s"
        % (layer, node, network_name, list(names), topology, type(exc).__name__, exc),
        {"kind": "setup", "layer": layer, "node": node, "names": list(names), "topology": topology,
         "network_name": network_name, "config": cfg, "exception": "%s: %s" % (type(exc).__name__, exc)})


class SimNet:
    """A network of real virtual nodes, one per name, fully connected by PB
    over scheduled in-memory pipes.

    names       node names (any order; kept).  max_qubits / max_regs are
                passed to every virtualNode.  topology: None or {name: [names]}
                (only NetQASM's create_epr looks at it).  rng: random.Random
                from which EVERY random draw derives unless scripted
                (default Random(0)).  network_name: the network of the
                config file the nodes belong to (default "default");
                extra_networks {name: {"nodes": [...], "topology": ...}}:
                further networks written to the same file (not started).
                bringup: None (default: all nodes exist and are fully
                connected before the constructor returns) or a dict -- the
                nodes come up one after the other and connections to peers
                that are not listening yet are refused and retried by the
                node's own retry logic; see `_bring_up`.

    Attributes: nodes {name: virtualNode}, clock (the MemoryReactorClock),
    rng, config_file, trace (every action executed so far, incl. connection
    set-up), last_schedule (actions of the latest run()/settle()), log
    (twisted log events), pylog (NetQASM logger records >= WARNING),
    coin_log / backoff_log (every scripted-or-not draw, in order).

    Connections ("cid" = small int, stable for identical construction order):
      "A->B"  requests written by A's broker on the connection A opened to B
      "A<-B"  what B's broker writes on that same connection (answers, and
              calls on references A passed to B)
      "cli:A->A" / "cli:A<-A"   a client connection from `client("A")`
      (a second client of the same node is "cli2:A->A", ...)."""

    def __init__(self, names, max_qubits=5, max_regs=100, topology=None, rng=None, host_order=None,
                 network_name="default", extra_networks=None, bringup=None):
        global _LIVE, _Pipe
        ns = _boot()
        self._ns = ns
        if _Pipe is None:
            _Pipe = _make_pipe_class()
        if _LIVE is not None:
            _LIVE._retire()
        _LIVE = self
        R = ns.R
        self.clock = R
        for c in list(R.getDelayedCalls()):
            c.cancel()
        R.rightNow = 0.0
        R.hasStopped = False
        del R.tcpClients[:]
        del R.connectors[:]
        del _LOG[:]
        del _PYLOG[:]
        self.log, self.pylog = _LOG, _PYLOG
        self.names = list(names)
        if len(set(self.names)) != len(self.names):
            raise ValueError("duplicate node names")
        self.rng = rng if rng is not None else random.Random(0)
        self.max_qubits, self.max_regs, self.topology = max_qubits, max_regs, topology
        self.network_name = network_name
        self.config_file = _config_file(self.names, topology, network_name, extra_networks)
        ns.settings._config["network_config_file"] = self.config_file   # no write-through
        self.closed = False
        self._serial = 0
        self._pipes = []
        self._peer = {}           # broker -> peer broker
        self._broker_owner = {}   # broker -> node name whose objects it serves ("cli..." for clients)
        self._nclients = collections.Counter()
        self.trace = []
        self.last_schedule = []
        self._fifo = FifoScheduler()
        self.coin_log, self.backoff_log = [], []
        self.set_coins(None)
        self.set_backoff(None)
        from twisted.spread import pb
        self._pb = pb
        self.nodes = {}
        self._sfac = {}
        self._bringup = None
        if bringup is None:
            bringup = _BRINGUP_DEFAULT
        if bringup is not None:
            self._bring_up(bringup, host_order)
            return
        for n in self.names:
            try:
                conf = ns.SocketsConfig(self.config_file, network_name=network_name, config_type="vnode")
                self.nodes[n] = ns.V.virtualNode(conf.hostDict[n], conf, maxQubits=max_qubits, maxRegisters=max_regs)
            except Exception as e:      # the real configuration parser / node constructor refuses a valid network
                _setup_failure("vnode", n, e, self.names, topology, network_name, self.config_file)
            self._sfac[n] = pb.PBServerFactory(self.nodes[n])
        self.set_host_order(host_order if host_order is not None else self.names)
        fac2edge = {}
        for n in self.names:
            for h in self.nodes[n].config.hostDict.values():
                if h.name != n:
                    fac2edge[id(h.factory)] = (n, h.name)
        for (_host, _port, factory, _timeout, _bind) in list(R.tcpClients):
            a, b = fac2edge[id(factory)]
            self._wire(b, factory, "%s->%s" % (a, b), "%s<-%s" % (a, b), a)
        del R.tcpClients[:]
        del R.connectors[:]
        self.settle(fire_timers=False)
        for n in self.names:
            if not self.nodes[n].remote_check_connections():
                raise RuntimeError("node %s did not obtain all its connections" % n)

    # -- staggered bring-up ------------------------------------------------

    def _bring_up(self, spec, host_order):
        """Bring-up mode (constructor argument `bringup`, a dict):

          "start"  {name: virtual time (s) at which that node's process body
                   runs}, default 0.0 each; ties and the default: in `names`
                   order.  A node LISTENS from that moment on.
          "at"     virtual time at which the constructor returns (default: the
                   latest start time); programs are then run against a
                   network some of whose directed connections may still be
                   missing (`missing_connections()`).
          "retry"  simulaqron_settings.conn_retry_time in seconds (written to
                   the in-memory settings, no write-through; default: left as
                   it is)
          "main"   True: each node is started by the REAL process body
                   `simulaqron.start.start_vnode.main(name, network_name)`
                   (signal handlers stubbed from outside; Backend.start ->
                   virtualNode(...) + reactor.listenTCP + reactor.run on the
                   fake reactor; max_qubits / max_regs go through the
                   in-memory settings); default False: `virtualNode(...)` is
                   constructed directly, as in the default mode.

        Every connect attempt the code under test makes (`reactor.connectTCP`,
        recorded by the fake reactor) is decided at the virtual time it is
        made: target listening -> a real PB connection over scheduled pipes
        "A->B"/"A<-B" (as in the default mode); else
        `clientConnectionFailed(ConnectionRefusedError)`, on which the node's
        own `handle_connection_error` arms its retry timer.

        The retry timers (`reactor.callLater(conn_retry_time,
        self.connect_to_node, node)`) are BACKGROUND timers: they are not
        offered to schedulers, not listed by `timers()` and not fired by
        `settle()` -- they fire by themselves, in deadline order, whenever
        the virtual clock passes their deadline because `run()` / `settle()`
        / `fire_next_timer()` fires a later (ordinary) timer or `run_until(t)`
        is called.  So virtual time stands still while a program only does
        things that need no waiting, an operation that waits for a missing
        connection (the polling `get_connection`) moves the clock until the
        node's retry has succeeded, and `run_until` lets time pass between
        operations.  `connection_log` lists (time, from, to, accepted?) of
        every decided attempt."""
        ns, R = self._ns, self.clock
        start = {n: float((spec.get("start") or {}).get(n, 0.0)) for n in self.names}
        if spec.get("retry") is not None:
            ns.settings._config["conn_retry_time"] = float(spec["retry"])
        via_main = bool(spec.get("main"))
        del R.tcpServers[:]
        self.connection_log = []
        self._bringup = {"listening": set(), "seen": 0, "start": start, "main": via_main}
        order = sorted(self.names, key=lambda n: (start[n], self.names.index(n)))
        self.start_order = order
        if via_main:
            SV = sys.modules.get("simulaqron.start.start_vnode")
            if SV is None:
                import simulaqron.start  # noqa: F401  (its __init__ rebinds the names to the main() functions)
                SV = sys.modules["simulaqron.start.start_vnode"]
            if SV.reactor is not R:
                raise RuntimeError("start_vnode holds a real reactor")

            import signal as _signal

            class _Sig:
                SIGTERM, SIGINT = _signal.SIGTERM, _signal.SIGINT

                @staticmethod
                def signal(*a):
                    return None
            SV.signal = _Sig
            ns.settings._config["max_qubits"] = self.max_qubits
            ns.settings._config["max_registers"] = self.max_regs
        for n in order:
            self.run_until(start[n])
            if via_main:
                before = len(R.tcpServers)
                R.running = False
                SV.main(n, self.network_name, "WARNING")
                R.hasStopped = False
                R.running = False
                made = [e[1] for e in R.tcpServers[before:]]
                if len(made) != 1 or not isinstance(getattr(made[0], "root", None), ns.V.virtualNode):
                    raise RuntimeError("start_vnode.main(%s) did not leave one listening virtual node: %r" % (n, made))
                self.nodes[n] = made[0].root
                self._sfac[n] = made[0]
            else:
                conf = ns.SocketsConfig(self.config_file, network_name=self.network_name, config_type="vnode")
                self.nodes[n] = ns.V.virtualNode(conf.hostDict[n], conf, maxQubits=self.max_qubits,
                                                 maxRegisters=self.max_regs)
                self._sfac[n] = self._pb.PBServerFactory(self.nodes[n])
            self._bringup["listening"].add(n)
            self.set_host_order(host_order if host_order is not None else self.names)
            self._connects()
            self.settle(fire_timers=False)
        self.nodes = {n: self.nodes[n] for n in self.names}
        self.run_until(float(spec.get("at", max(start.values()))))

    @staticmethod
    def _is_retry(call):
        f = getattr(call, "func", None)
        return getattr(getattr(f, "__func__", None), "__name__", None) == "connect_to_node"

    def _connects(self):
        """bring-up mode: decide every connect attempt recorded since the last call"""
        b, R = self._bringup, self.clock
        from twisted.internet.error import ConnectionRefusedError as _Refused
        from twisted.python.failure import Failure
        while b["seen"] < len(R.tcpClients):
            idx = b["seen"]
            b["seen"] += 1
            factory = R.tcpClients[idx][2]
            edge = None
            for n, nd in self.nodes.items():
                for h in nd.config.hostDict.values():
                    if h.name != n and getattr(h, "factory", None) is factory:
                        edge = (n, h.name)
            if edge is None:
                raise RuntimeError("connect attempt to port %s by an unknown party" % (R.tcpClients[idx][1],))
            a, t = edge
            ok = t in b["listening"]
            self.connection_log.append((R.seconds(), a, t, ok))
            if ok:
                self._wire(t, factory, "%s->%s" % (a, t), "%s<-%s" % (a, t), a)
                mine = self._pipes[-2:]
                while any(p.nreal for p in mine):       # the handshake completes at this instant (as in client())
                    for p in mine:
                        if p.nreal:
                            self.deliver(p.cid)
            else:
                factory.clientConnectionFailed(R.connectors[idx], Failure(_Refused()))

    def _fire_call(self, call):
        if call.getTime() > self.clock.rightNow:
            self.clock.rightNow = call.getTime()
        self.clock.calls.remove(call)
        call.called = 1
        call.func(*call.args, **call.kw)

    def _fire_retries(self, upto):
        """bring-up mode: the background (connection retry) timers due by `upto` fire, in deadline order"""
        while True:
            self.clock._sortCalls()
            due = [c for c in self.clock.calls if self._is_retry(c) and c.getTime() <= upto]
            if not due:
                return
            self._fire_call(due[0])
            self._connects()

    def run_until(self, t):
        """bring-up mode: let virtual time pass until `t` -- every timer due by
        then (background or not) fires in deadline order, connect attempts are
        decided, all messages are delivered (FIFO) in between.  Not recorded in
        `trace`."""
        self._check_live()
        if self._bringup is None:
            raise RuntimeError("run_until() needs a SimNet built with bringup=...")
        while True:
            self.settle(fire_timers=False)
            self.clock._sortCalls()
            calls = self.clock.calls
            if not calls or calls[0].getTime() > t:
                break
            self._fire_call(calls[0])
            self._connects()
        if t > self.clock.rightNow:
            self.clock.rightNow = t

    def missing_connections(self):
        """[(a, b)]: node a has (not yet) a connection to node b, in names order"""
        return [(a, b) for a in self.names if a in self.nodes for b in self.names
                if b != a and b not in self.nodes[a].conn]

    def retry_deadlines(self):
        """bring-up mode: sorted deadlines (virtual time) of the armed connection retry timers"""
        return sorted(c.getTime() for c in self.clock.calls if self._is_retry(c))

    def fire_next_retry(self):
        """bring-up mode: virtual time passes until the earliest armed connection retry timer, which fires (with
        every other retry due at that instant; connect attempts are decided, an accepted one completes its
        handshake at once).  For a driver whose `run()` reported "dead" (no message, no ordinary timer) while an
        operation waits for a missing connection WITHOUT polling: the background timers alone make the connection
        come up.  Returns the deadline, or None if no retry is armed.  Not recorded in `trace` (it is forced: the
        only thing that can happen)."""
        self._check_live()
        if self._bringup is None:
            raise RuntimeError("fire_next_retry() needs a SimNet built with bringup=...")
        dl = self.retry_deadlines()
        if not dl:
            return None
        self._fire_retries(dl[0])
        return dl[0]

    # -- wiring ------------------------------------------------------------

    def _wire(self, server_name, client_factory, fwd_label, back_label, client_owner):
        sp = self._sfac[server_name].buildProtocol(None)
        cp = client_factory.buildProtocol(None)
        ct = _Pipe(cp, False, self, len(self._pipes), fwd_label, sp)
        self._pipes.append(ct)
        st = _Pipe(sp, True, self, len(self._pipes), back_label, cp)
        self._pipes.append(st)
        self._peer[cp], self._peer[sp] = sp, cp
        self._broker_owner[sp], self._broker_owner[cp] = server_name, client_owner
        sp.makeConnection(st)
        cp.makeConnection(ct)
        return cp, sp

    def client(self, name):
        """A PB RemoteReference to node `name`'s root over a NEW fake client
        connection (how an application / QNodeOS talks to its node).  Runs the
        network (FIFO) until the connection is up."""
        self._check_live()
        self._nclients[name] += 1
        k = self._nclients[name]
        tag = "cli:%s" % name if k == 1 else "cli%d:%s" % (k, name)
        cf = self._pb.PBClientFactory()
        cp, _sp = self._wire(name, cf, "%s->%s" % (tag, name), "%s<-%s" % (tag, name), tag)
        box = []
        cf.getRootObject().addBoth(box.append)
        mine = self._pipes[-2:]
        while any(p.nreal for p in mine):       # complete the handshake on this connection only
            for p in mine:
                if p.nreal:
                    self.deliver(p.cid)
        if not box or not isinstance(box[0], self._pb.RemoteReference):
            raise RuntimeError("client connection to %s failed: %r" % (name, box))
        return box[0]

    def resolve(self, obj):
        """The actual local object a RemoteReference denotes (looked up in the
        peer broker's local-object table); any other object is returned
        unchanged; None if the peer no longer knows the id."""
        if isinstance(obj, self._pb.RemoteReference):
            peer = self._peer.get(obj.broker)
            if peer is None:
                return None
            return peer.localObjectForID(obj.luid)
        return obj

    def _check_live(self):
        if self.closed:
            raise RuntimeError("this SimNet was retired (a newer one was built, or close() was called)")

    def _retire(self):
        self.closed = True

    def close(self):
        """Cancel every timer and retire the network."""
        global _LIVE
        for c in list(self.clock.getDelayedCalls()):
            c.cancel()
        self.closed = True
        if _LIVE is self:
            _LIVE = None

    # -- messages ----------------------------------------------------------

    def label(self, cid):
        return self._pipes[cid].label

    def head(self, cid):
        """Description of the message `deliver(cid)` would deliver:
        "call:<method>#<request id>", "answer#<id>", "error#<id>", "version",
        "dialects", "dialect"; None if nothing is pending."""
        e = self._pipes[cid].head()
        if e is None:
            return None
        if e[3] is None:
            e[3] = _describe(e[1])
        return e[3]

    def pending(self, detail=False):
        """[(cid, label)] for every directed connection with at least one
        real (non-decref) message queued, in cid order.  detail=True gives
        (cid, label, head description)."""
        if detail:
            return [(p.cid, p.label, self.head(p.cid)) for p in self._pipes if p.nreal]
        return [(p.cid, p.label) for p in self._pipes if p.nreal]

    def deliver(self, cid):
        """Deliver exactly one PB message (one `transport.write` chunk) of
        connection `cid` to the receiving broker, preceded by any decrefs
        queued before it.  Returns the chunk's serial number."""
        self._check_live()
        p = self._pipes[cid]
        if not p.nreal:
            raise ValueError("nothing pending on %s" % p.label)
        self.trace.append(("d", cid))
        q, recv = p.q, p.dest.dataReceived
        while True:
            e = q.popleft()
            if e[2]:
                recv(e[1])
                continue
            p.nreal -= 1
            recv(e[1])
            return e[0]

    def flush_decrefs(self):
        """Deliver queued decref messages that no real message follows."""
        for p in self._pipes:
            if p.q and not p.nreal:
                while p.q:
                    p.dest.dataReceived(p.q.popleft()[1])

    # -- time --------------------------------------------------------------

    @staticmethod
    def _timer_desc(call):
        f = call.func
        d = getattr(f, "__self__", None)
        try:
            if d is not None and hasattr(d, "callbacks") and d.callbacks:
                cb = d.callbacks[0][0][0]
                for cell, nm in zip(cb.__closure__ or (), cb.__code__.co_freevars):
                    if nm == "callable":
                        f = cell.cell_contents
                        break
        except Exception:
            pass
        code = getattr(f, "__code__", None)
        if code is not None:
            return "%s:%s" % (os.path.basename(code.co_filename), getattr(code, "co_qualname", code.co_name))
        return getattr(f, "__qualname__", None) or repr(f)

    def _calls(self):
        self.clock._sortCalls()
        if self._bringup is not None:
            return [c for c in self.clock.calls if not self._is_retry(c)]      # see _bring_up: background timers
        return self.clock.calls

    def timers(self):
        """[(absolute virtual time, description)] of the pending delayed
        calls, sorted by time (ties: creation order).  The description names
        the function a deferLater will call, e.g.
        "virtual.py:virtualQubit._lock_nodes.<locals>.<lambda>"."""
        out = []
        for c in self._calls():
            d = getattr(c, "_sn_desc", None)
            if d is None:
                d = c._sn_desc = self._timer_desc(c)
            out.append((c.getTime(), d))
        return out

    def fire_next_timer(self, i=0):
        """Advance the clock to the earliest deadline and fire exactly ONE
        delayed call: entry i of `timers()`, which must have that earliest
        deadline (ties may fire in any order)."""
        self._check_live()
        calls = self._calls()
        if not calls:
            raise ValueError("no timer pending")
        call = calls[i]
        t0 = calls[0].getTime()
        if call.getTime() != t0:
            raise ValueError("timer %d is not due first" % i)
        self.trace.append(("t", i))
        if self._bringup is not None:
            self._fire_retries(t0)
            self._fire_call(call)
            self._connects()
            return
        if t0 > self.clock.rightNow:
            self.clock.rightNow = t0
        calls.remove(call)
        call.called = 1
        call.func(*call.args, **call.kw)

    def advance(self, dt):
        """`clock.advance(dt)`: move virtual time and fire everything due,
        in deadline order, without delivering messages in between.  (Not
        recorded in the trace; use fire_next_timer for replayable runs.)"""
        self._check_live()
        self.clock.advance(dt)

    # -- driving -----------------------------------------------------------

    def _act(self, action):
        if action[0] == "d":
            self.deliver(action[1])
        elif action[0] == "t":
            self.fire_next_timer(action[1] if len(action) > 1 else 0)
        else:
            raise ValueError("bad action %r" % (action,))

    def run(self, deferred_or_list, scheduler=None, max_virtual_time=600.0):
        """Drive deliveries and timers until the given Deferred (or every
        Deferred of the given list) has fired.  Returns its result (or the
        list of results); an error is returned as a
        `twisted.python.failure.Failure` (see `error_class`).  The failure is
        consumed, so nothing is logged as unhandled.

        scheduler: callable (simnet, pending, timers) -> action, default the
        network's own FifoScheduler.  The executed actions are appended to
        `trace` and stored in `last_schedule`.

        Raises Hang when more than `max_virtual_time` seconds of virtual time
        would pass, or when neither a message nor a timer is pending."""
        self._check_live()
        from twisted.internet.defer import Deferred
        single = isinstance(deferred_or_list, Deferred)
        ds = [deferred_or_list] if single else list(deferred_or_list)
        box = [_UNSET] * len(ds)
        left = [len(ds)]

        def got(r, i):
            if box[i] is _UNSET:
                left[0] -= 1
            box[i] = r
            return None
        for i, d in enumerate(ds):
            if not isinstance(d, Deferred):
                raise TypeError("run() needs Deferreds, got %r" % (d,))
            d.addBoth(got, i)
        sched = scheduler if scheduler is not None else self._fifo
        mark = len(self.trace)
        t0 = self.clock.seconds()
        pipes = self._pipes
        while left[0]:
            pend = [(p.cid, p.label) for p in pipes if p.nreal]
            tim = self.timers() if self.clock.calls else []
            reason = None
            if not pend and not tim:
                reason = "dead: no message and no timer pending"
            else:
                action = sched(self, pend, tim)
                if action[0] == "t":
                    if not tim:
                        raise ValueError("scheduler chose a timer but none is pending")
                    if tim[0][0] - t0 > max_virtual_time:
                        reason = "virtual-time budget of %.0f s exhausted" % max_virtual_time
            if reason:
                self.last_schedule = self.trace[mark:]
                raise Hang(reason, [i for i, b in enumerate(box) if b is _UNSET],
                           [None if b is _UNSET else b for b in box], tim, self.lock_flags(),
                           self.last_schedule, self.clock.seconds() - t0)
            self._act(action)
        self.last_schedule = self.trace[mark:]
        return box[0] if single else box

    def settle(self, scheduler=None, max_virtual_time=600.0, fire_timers=None):
        """Run until quiescent: no message pending and (fire_timers=True) no
        timer pending.  Returns True if quiescence was reached, False if the
        virtual-time budget ran out first (timers that re-arm forever).
        Trailing decrefs are flushed.  fire_timers=None (default) means True,
        except in bring-up mode (see `_bring_up`), where it means False: there
        virtual time passes only when an operation waits (`run`) or on
        `run_until`, so the idle timers an operation leaves behind (the
        1..4 s lock time-out of `_lock_nodes`, which is never cancelled) do
        not make the connection retries fire."""
        self._check_live()
        if fire_timers is None:
            fire_timers = self._bringup is None
        sched = scheduler if scheduler is not None else self._fifo
        mark = len(self.trace)
        t0 = self.clock.seconds()
        ok = True
        while True:
            pend = self.pending()
            tim = self.timers() if (fire_timers and self.clock.calls) else []
            if not pend and not tim:
                break
            action = sched(self, pend, tim)
            if action[0] == "t" and tim[0][0] - t0 > max_virtual_time:
                ok = False
                break
            self._act(action)
        self.flush_decrefs()
        self.last_schedule = self.trace[mark:]
        return ok

    # -- randomness --------------------------------------------------------

    def set_coins(self, src):
        """Measurement outcomes: replaces `simulaqron.toolbox.
        stabilizer_states.randint`.  src: list (consumed in order, afterwards
        rng.randint), callable (a, b) -> int, or None (rng.randint).  Every
        draw is appended to `coin_log`."""
        s = _Script(src, self.rng.randint, self.coin_log)
        self._ns.SS.randint = s.draw

    def set_backoff(self, src):
        """Lock back-off: replaces the name `random` inside
        `simulaqron.virtual_node.virtual` by a proxy whose `uniform(a, b)` is
        scripted (list / callable (a, b) -> float / None = rng.uniform); the
        global `random` module is untouched.  Draws go to `backoff_log`."""
        s = _Script(src, self.rng.uniform, self.backoff_log)
        self._ns.V.random = _RandomProxy(self.rng, uniform=s.draw)

    def set_host_order(self, order):
        """`virtualQubit._lock_nodes` iterates a Python *set* of `Host`
        objects, whose order -- and with it the order in which the node-lock
        requests of a two-qubit gate are issued and the locks released --
        depends on memory addresses (Host has the default id-based hash), i.e.
        differs from run to run.  The harness pins it from outside: every Host
        gets the hash `order.index(name)`, which makes such a set iterate in
        exactly this order (for up to 8 nodes; deterministic beyond).  Default
        order: `names`.  Pass a permutation to explore the other orders."""
        order = list(order)
        if sorted(order) != sorted(self.names):
            raise ValueError("host order must be a permutation of the node names")
        self.host_order = order
        rank = {n: i for i, n in enumerate(order)}
        for nd in self.nodes.values():
            for h in nd.config.hostDict.values():
                h._sn_rank = rank[h.name]

    # -- observation -------------------------------------------------------

    @staticmethod
    def _rows(reg):
        try:
            arr = reg.qubitReg.to_array()
            return ["".join("1" if x else "0" for x in row) for row in arr]
        except Exception as e:  # a broken register is an observation, not a crash
            return ["<%s>" % type(e).__name__]

    def _sim_of(self, vq):
        """(simulating node name, simNum, live?) of a virtual qubit's simQubit
        reference, resolving RemoteReferences; None-s if unresolvable."""
        sq = self.resolve(vq.simQubit)
        if sq is None or not hasattr(sq, "simNum"):
            return None, None, False, sq
        owner = getattr(getattr(sq, "node", None), "name", None)
        node = self.nodes.get(owner)
        live = node is not None and any(x is sq for x in node.simQubits)
        return owner, sq.simNum, live, sq

    def lock_flags(self):
        """{node: {"node": locked?, "waiting": len(lock.waiting), "qubits":
        [simNums whose lock is held]}}"""
        out = {}
        for n in sorted(self.nodes):
            nd = self.nodes[n]
            out[n] = {"node": bool(nd._lock.locked), "waiting": len(nd._lock.waiting),
                      "qubits": [q.simNum for q in nd.simQubits if q._lock.locked]}
        return out

    def all_locks_free(self):
        """True iff no node lock and no simulated-qubit lock is held and no
        acquisition is queued on any of them."""
        for nd in self.nodes.values():
            if nd._lock.locked or nd._lock.waiting:
                return False
            for q in nd.simQubits:
                if q._lock.locked or q._lock.waiting:
                    return False
        return True

    def snapshot(self):
        """Canonical JSON-able dict of the whole object graph, {node name:
        {...}} with
          virt   [ {num, simNode, active, sim: [node, simNum] (the simulated
                   qubit its simQubit reference really denotes, through PB if
                   remote; [None, None] if unresolvable), sim_live (that
                   object is in its node's simQubits list), remote (reference
                   is a RemoteReference), handle, simobj} ]  in list order
          sim    [ {simNum, reg, pos, active, reg_live (registers[reg] is this
                   qubit's register object), obj} ]           in list order
          regs   {str(num): {active, max, state: [bit strings]}}
          numRegs, next_reg_num, node_locked, node_lock_waiting, qubit_locks,
          recv / recv_epr {str(socket id): queue length}, maxQubits, maxRegs
        `handle` / `obj` / `simobj` are canonical object ids: 0, 1, 2, ... by
        first appearance in this walk (nodes sorted by name; sim lists first,
        then virt lists), so equal numbers mean the same Python object and the
        snapshot is a function of the graph alone."""
        ids = {}

        def oid(o):
            if o is None:
                return None
            k = id(o)
            if k not in ids:
                ids[k] = len(ids)
            return ids[k]
        out = {}
        order = sorted(self.nodes)
        for n in order:
            for q in self.nodes[n].simQubits:
                oid(q)
        for n in order:
            nd = self.nodes[n]
            sims = []
            for q in nd.simQubits:
                reg = q.register
                sims.append({"simNum": q.simNum, "reg": reg.num, "pos": q.num, "active": bool(q.active),
                             "reg_live": nd.registers.get(reg.num) is reg, "obj": oid(q)})
            virt = []
            for v in nd.virtQubits:
                owner, simnum, live, sq = self._sim_of(v)
                virt.append({"num": v.num, "simNode": v.simNode.name, "active": v.active,
                             "sim": [owner, simnum], "sim_live": live,
                             "remote": isinstance(v.simQubit, self._pb.RemoteReference),
                             "handle": oid(v), "simobj": oid(sq)})
            regs = {}
            for k in sorted(nd.registers):
                r = nd.registers[k]
                regs[str(k)] = {"active": r.activeQubits, "max": r.maxQubits, "state": self._rows(r)}
            out[n] = {
                "virt": virt, "sim": sims, "regs": regs, "numRegs": nd.numRegs, "next_reg_num": nd._next_reg_num,
                "node_locked": bool(nd._lock.locked), "node_lock_waiting": len(nd._lock.waiting),
                "qubit_locks": [q.simNum for q in nd.simQubits if q._lock.locked],
                "recv": {str(k): len(v) for k, v in sorted(nd.qubit_recv.items())},
                "recv_epr": {str(k): len(v) for k, v in sorted(nd.qubit_recv_epr.items())},
                "maxQubits": nd.maxQubits, "maxRegs": nd.maxRegs,
            }
        return out

    def joint_state(self):
        """For the physical oracle: every register of every node,
          [{node, reg, n, state: [bit strings], holders: [per position:
            [node, virtual qubit num] of the ACTIVE virtual qubit (in some
            node's virtQubits list) whose simQubit reference denotes the
            simulated qubit at that position, or None], anomalies: [...]}]
        sorted by (node, reg).  `anomalies` records anything that makes the
        position -> holder map ill-defined (two holders, two simulated qubits
        claiming one position, a position nobody claims, a simulated qubit
        whose register is not in the node's table)."""
        holders = collections.defaultdict(list)
        for n in sorted(self.nodes):
            for v in self.nodes[n].virtQubits:
                if v.active != 1:
                    continue
                _o, _s, _live, sq = self._sim_of(v)
                if sq is not None:
                    holders[id(sq)].append([n, v.num])
        out = []
        for n in sorted(self.nodes):
            nd = self.nodes[n]
            known = set()
            for k in sorted(nd.registers):
                r = nd.registers[k]
                known.add(id(r))
                size = r.activeQubits
                hs, anomalies = [None] * size, []
                claimed = collections.defaultdict(list)
                for q in nd.simQubits:
                    if q.register is r:
                        claimed[q.num].append(q)
                for pos, qs in sorted(claimed.items()):
                    if pos >= size or pos < 0:
                        anomalies.append("simNum %s claims position %s outside 0..%d" % (
                            [q.simNum for q in qs], pos, size - 1))
                        continue
                    if len(qs) > 1:
                        anomalies.append("position %d claimed by simNums %s" % (pos, [q.simNum for q in qs]))
                    hh = [h for q in qs for h in holders.get(id(q), [])]
                    if len(hh) > 1:
                        anomalies.append("position %d denoted by several handles %s" % (pos, hh))
                    hs[pos] = hh[0] if hh else None
                for pos in range(size):
                    if pos not in claimed:
                        anomalies.append("position %d claimed by no simulated qubit" % pos)
                out.append({"node": n, "reg": k, "n": size, "state": self._rows(r), "holders": hs,
                            "anomalies": anomalies})
            for q in nd.simQubits:
                if id(q.register) not in known:
                    out.append({"node": n, "reg": q.register.num, "n": q.register.activeQubits,
                                "state": self._rows(q.register), "holders": [],
                                "anomalies": ["simNum %d lives in a register missing from the node's table" % q.simNum]})
                    known.add(id(q.register))
        return out


# ---------------------------------------------------------------------------
# NetQASM side
# ---------------------------------------------------------------------------

def frame(msg_id, raw):
    """One host->QNodeOS frame: MessageHeader(id, total length) + raw message
    (an element of `program()`'s result or bytes(<netqasm Message>))."""
    from netqasm.backend.messages import MessageHeader
    raw = bytes(raw)
    return bytes(MessageHeader(id=msg_id, length=MessageHeader.len() + len(raw))) + raw


def parse_replies(data):
    """Split the bytes a host transport received into return messages:
    [(class name, msg_id, values, value, register)] -- msg_id for
    MsgDoneMessage, values (list) for ReturnArrayMessage (with `value` = its
    address), value/register for ReturnRegMessage, all None for ErrorMessage.
    Trailing bytes that do not parse yield a final ("UNPARSED", len, ...)."""
    from netqasm.backend.messages import deserialize_return_msg
    out = []
    data = bytes(data)
    while data:
        try:
            m = deserialize_return_msg(data)
            n = len(m)
        except Exception as e:
            out.append(("UNPARSED", len(data), None, type(e).__name__, None))
            break
        name = type(m).__name__
        values = getattr(m, "values", None)
        value = getattr(m, "value", None)
        reg = None
        if name == "ReturnArrayMessage":
            values, value = list(values), getattr(m, "address", None)
        if name == "ReturnRegMessage":
            r = getattr(m, "register", None)
            try:
                reg = (r.register_name, r.register_index) if r is not None else None
            except Exception:
                reg = repr(r)
        out.append((name, getattr(m, "msg_id", None), values, value, reg))
        if n <= 0:
            break
        data = data[n:]
    return out


def program(name, fn, epr_sockets=None, **kw):
    """Record the exact raw messages an SDK program sends: runs `fn(conn)`
    inside netqasm's `DebugConnection(name, epr_sockets=..., **kw)` and returns
    `conn.storage` (InitNewApp, OpenEPRSocket..., Subroutine..., StopApp,
    each WITHOUT MessageHeader -- wrap with `frame`).  `DebugConnection.
    node_ids` must know the node names (NqNet sets it).  netqasm keeps the
    app-id allocation in class attributes; pass app_id=... for determinism."""
    from netqasm.sdk.connection import DebugConnection
    with DebugConnection(name, epr_sockets=epr_sockets, **kw) as c:
        fn(c)
    return list(c.storage)


class NqNet(SimNet):
    """SimNet plus, per node, one real `NetQASMFactory` whose backend is a
    per-node subclass of `SubroutineHandler` using a per-node subclass of
    `VanillaSimulaQronExecutioner` (so the class-level counters
    `_next_ent_id` / `_next_create_id` are per node and per network), wired to
    its virtual node through `client(name)` exactly like
    `simulaqron/run/run.py` does.

    Constructing an NqNet empties netqasm's process-global shared-memory table
    (see `reset_shared_memory`).

    facs {name: NetQASMFactory}; `reactor_stopped` tells whether the code
    under test called reactor.stop() (factory.stop / protocol error path).
    Inside `executioner.py` the names `random` (basis choice) and `time`
    (goodness_time, timestamps) are replaced by proxies: rng / virtual clock.

    Verified against netqasm 2.3.0: factory + handler + executioner
    construction, InitNewApp / Subroutine / StopApp / OpenEPRSocket handling,
    DebugConnection recording, return-message parsing (see simnet_selftest).
    Not provided: netqasm's own `NetQASMConnection` socket client (the host
    side here is a StringTransport, there is no socket)."""

    def __init__(self, names, max_qubits=5, max_regs=100, topology=None, rng=None, host_order=None,
                 network_name="default", extra_networks=None):
        self.reset_shared_memory()
        SimNet.__init__(self, names, max_qubits=max_qubits, max_regs=max_regs, topology=topology, rng=rng,
                        host_order=host_order, network_name=network_name, extra_networks=extra_networks)
        ns = self._ns
        from simulaqron.netqasm_backend.factory import NetQASMFactory
        from simulaqron.netqasm_backend.qnodeos import SubroutineHandler
        import simulaqron.netqasm_backend.executioner as EX
        from netqasm.sdk.connection import DebugConnection
        if EX.reactor is not ns.R:
            raise RuntimeError("executioner.py holds a real reactor")
        EX.random = _RandomProxy(self.rng)
        EX.time = _TimeProxy(self.clock)
        self._EX = EX
        qn = ns.SocketsConfig(self.config_file, network_name=network_name, config_type="qnodeos")
        self.qnodeos_net = qn
        self.facs, self.roots = {}, {}
        for n in self.names:
            ex = type("Exec_" + n, (EX.VanillaSimulaQronExecutioner,),
                      {"_next_ent_id": collections.defaultdict(int), "_next_create_id": collections.defaultdict(int)})
            sh = type("SH_" + n, (SubroutineHandler,),
                      {"_get_executor_class": classmethod(lambda cls, flavour=None, ex=ex: ex)})
            try:
                f = NetQASMFactory(qn.hostDict[n], n, qn, sh) if network_name == "default" else \
                    NetQASMFactory(qn.hostDict[n], n, qn, sh, network_name=network_name)
            except Exception as e:
                _setup_failure("qnodeos", n, e, self.names, topology, network_name, self.config_file)
            self.roots[n] = self.client(n)
            f.set_virtual_node(self.roots[n])
            self.facs[n] = f
        DebugConnection.node_ids = {n: i for i, n in enumerate(sorted(self.names))}

    @staticmethod
    def reset_shared_memory():
        """netqasm keeps every application's shared memory in the process-global
        table `SharedMemoryManager._MEMORIES`, keyed (node name, app id); the
        backend's StopApp handling pops only the executor's own dict, never this
        table, so a later InitNewApp for the same (node, app id) fails with
        "Shared memory for (node, key): (Alice, 0) already exists".  A backend
        process starts with an empty table, so NqNet.__init__ empties it (a new
        network = freshly started backends).  Within ONE network the table is
        left alone -- re-using an app id on a node after StopApp fails there
        exactly as in a long-lived real backend; call this method between
        applications only if the check deliberately wants to mask that."""
        from netqasm.sdk.shared_memory import SharedMemoryManager
        SharedMemoryManager.reset_memories()

    @property
    def reactor_stopped(self):
        return bool(getattr(self.clock, "hasStopped", False))

    def host(self, name):
        """(NetQASMProtocol, StringTransport) of a NEW host connection to
        node `name`'s QNodeOS.  Note (behaviour of the code under test): the
        factory has ONE backend whose `protocol` attribute is overwritten by
        every new connection, so replies go to the most recent connection."""
        from twisted.internet.testing import StringTransport
        p = self.facs[name].buildProtocol(None)
        t = StringTransport()
        p.makeConnection(t)
        return p, t

    def feed(self, protocol, data):
        """Hand bytes (or each element of a list of chunks) to
        `protocol.dataReceived`.  Does not run the network: call `settle()`.
        Note (behaviour of the code under test): dataReceived handles at most
        ONE complete frame per call; further complete frames stay buffered
        until more data arrives."""
        if isinstance(data, (bytes, bytearray)):
            data = [bytes(data)]
        for chunk in data:
            protocol.dataReceived(chunk)

    def program(self, name, fn, epr_sockets=None, **kw):
        """`program()` with node ids of this network; returns raw messages."""
        from netqasm.sdk.connection import DebugConnection
        DebugConnection.node_ids = {n: i for i, n in enumerate(sorted(self.names))}
        return program(name, fn, epr_sockets, **kw)

    def run_program(self, name, msgs, chunker=None, first_id=0):
        """Convenience: open a host connection, feed the framed messages one
        after the other (settling after each, as a blocking host would), and
        return the parsed replies.  chunker(bytes) -> list of chunks."""
        p, t = self.host(name)
        for i, raw in enumerate(msgs):
            data = frame(first_id + i, raw)
            self.feed(p, chunker(data) if chunker else data)
            self.settle()
        return parse_replies(t.value())

    def all_locks_free(self):
        return SimNet.all_locks_free(self) and not any(f._lock.locked or f._lock.waiting for f in self.facs.values())

    def snapshot(self):
        """SimNet.snapshot() plus, per node, `qubitList`: {str(physical qubit
        id): [node, virtual qubit num] the factory's handle denotes (None if
        the virtual qubit object is no longer in its node's list)} and
        `factory_locked`."""
        out = SimNet.snapshot(self)
        for n, f in self.facs.items():
            ql = {}
            for k in sorted(f.qubitList):
                v = self.resolve(f.qubitList[k].virt)
                where = None
                if v is not None and hasattr(v, "virtNode"):
                    nd = self.nodes.get(v.virtNode.name)
                    if nd is not None and any(x is v for x in nd.virtQubits):
                        where = [v.virtNode.name, v.num]
                ql[str(k)] = where
            out[n]["qubitList"] = ql
            out[n]["factory_locked"] = bool(f._lock.locked)
        return out

from ._gates import (BasicGate, H, X, Y, Z, S, T, Rx, Ry, Rz, CNOT, CX, CZ, C, ControlledGate,  # noqa: F401
                     Measure, MeasureGate, StatePreparation, NOT, FlushGate)

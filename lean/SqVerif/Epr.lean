import SqVerif.Stab
/-
L5 — executable model of entanglement generation in
`simulaqron/netqasm_backend/executioner.py` (`_do_create_epr`, `cmd_epr`,
`_measure_epr_qubit`, `_get_probability_weights`, `_sample_basis_choice`,
`new_ent_id`, `_get_new_create_id`, `send_epr_half`, `send_epr_outcome_half`,
`cmd_epr_recv`, `_unpack_ent_info`, `_update_qubit_id`) and of the per-socket
receive queue `qubit_recv_epr` in `simulaqron/virtual_node/virtual.py`
(`remote_netqasm_send_epr_half`, `remote_netqasm_add_epr_list`,
`remote_netqasm_get_epr_recv`).  Core Lean only (plus the core-only `Stab`).

Granularity.  One event = one call of
  * `_get_new_create_id`                  (`newCreate`, once per request),
  * `cmd_epr`                             (`pair`, once per pair of a request; its
    arguments `create_id`, `remote_epr_socket_id`, `qubit_id` are parameters
    exactly as in the Python signature),
  * one poll of `cmd_epr_recv`            (`recv`: `netqasm_get_epr_recv`; `none`
    when the queue is empty — the Python then sleeps and polls again).
A request of n pairs is one `newCreate` and n `pair` events at the creator and n
successful `recv` events at the receiver, interleaved arbitrarily with the
events of every other request, socket and node.

Errors are explicit (`Err`) and terminal: `run` stops at the first error, the
theorems speak about error-free histories.  What a *failed* `cmd_epr` leaves
behind (the two temporary qubits) is property C11's subject, not modelled here.
Not modelled: capacity of the virtual nodes, topology/adjacency (C12), time
stamps (`goodness_time`, masked by the harness).

Quantum level.  Every `cmd_new` creates a fresh token; `cmd_epr` creates two
(`a` for `qubit_id`, `a+1` for `-(1+qubit_id)`), applies `H a; CNOT a (a+1)` and
thereby forms a fresh two-qubit register whose stabilizer state is computed
with the `Stab` model (`bell?`).  Measure-directly rotates (X: `H`, Y: `K`, Z:
nothing) and measures destructively with `Stab.measure`; the coins stand for
`randint(0, 1)` in `stabilizer_states.py`.
-/
namespace SqVerif.Epr
open SqVerif.Stab (St Gate1 Gate2 applyGate1 applyGate2 addQubit)

/-- `RequestType.K` / `RequestType.M` (`ReturnType.OK_K = 0`, `OK_M = 1`) -/
inductive ReqType where | K | M deriving DecidableEq, Repr
def ReqType.val : ReqType → Nat | .K => 0 | .M => 1

/-- `netqasm.qlink_compat.Basis` -/
inductive Basis where | Z | X | Y | ZPLUSX | ZMINUSX deriving DecidableEq, Repr
def Basis.val : Basis → Nat | .Z => 0 | .X => 1 | .Y => 2 | .ZPLUSX => 3 | .ZMINUSX => 4

/-- `netqasm.qlink_compat.RandomBasis` -/
inductive RandomBasis where | NONE | XZ | XYZ | CHSH deriving DecidableEq, Repr

inductive Err where
  | selfCreate        -- executioner.py:401  "Trying to create EPR from node to itself."
  | notImplemented    -- :539 "Cannot yet measure in basis"
  | valueError        -- :563 / :601 / unpacking of the spec
  | inUse             -- :771 "Qubit with ID … already in use"
  | engine            -- the stabilizer engine refused (never happens, see `EprLemmas.bell_eq`)
  deriving DecidableEq, Repr

/-- `LinkLayerOKTypeK` / `LinkLayerOKTypeM` with the union of their fields
(`qubit` = `logical_qubit_id`, K only; `outcome`/`basis` M only);
`goodness_time` is not modelled. -/
structure EntInfo where
  typ : ReqType
  createId : Nat
  qubit : Int
  outcome : Nat
  basis : Basis
  dir : Nat
  seq : Nat
  purpose : Nat
  remoteNode : Nat
  goodness : Nat
  bell : Nat
  deriving DecidableEq, Repr

/-- the ten array entries in the order of the namedtuple (`goodness_time` as 0) -/
def EntInfo.fields (e : EntInfo) : List Int :=
  match e.typ with
  | .K => [e.typ.val, e.createId, e.qubit, e.dir, e.seq, e.purpose, e.remoteNode, e.goodness, 0, e.bell]
  | .M => [e.typ.val, e.createId, e.outcome, e.basis.val, e.dir, e.seq, e.purpose, e.remoteNode, e.goodness, e.bell]

/-- an entry of `qubit_recv_epr[to_epr_socket_id]` (`QubitNetQASM`, virtual.py:635-644);
`half` = the delivered qubit (token) or `none` for measure-directly -/
structure EntMsg where
  fromNode : Nat
  fromSock : Nat
  toSock : Nat
  half : Option Nat
  info : EntInfo
  deriving DecidableEq, Repr

inductive QOp where
  | new (t : Nat) | H (t : Nat) | K (t : Nat) | CNOT (c t : Nat) | meas (t : Nat)
  deriving DecidableEq, Repr

def QOp.touches (x : Nat) : QOp → Bool
  | .new t | .H t | .K t | .meas t => t == x
  | .CNOT c t => c == x || t == x

/-! ### basis choice (executioner.py:547-603) -/

/-- `[int(p) % num_values for p in spec]` (Python `%`: result in `[0, 256)`) -/
def reduceSpec (spec : List Int) : List Int := spec.map (· % 256)

/-- `_get_probability_weights` (547-565) -/
def weights (spec : List Int) (numChoices : Nat) : Except Err (List Int) :=
  if numChoices = 2 then
    match spec with
    | p :: _ => .ok [p, 256 - p]
    | [] => .error .valueError
  else if numChoices = 3 then
    match spec with
    | p1 :: p2 :: _ => .ok [p1, p2, 256 - (p1 + p2)]
    | _ => .error .valueError
  else .error .valueError

/-- what `_sample_basis_choice` hands to `random.choices` -/
inductive Sample where
  | fixed (b : Basis)
  | choose (population : List Basis) (w : List Int)
  deriving DecidableEq, Repr

/-- `_sample_basis_choice` (568-603) up to the draw itself -/
def sampleSpec (rb : RandomBasis) (spec : List Int) : Except Err Sample :=
  let spec := reduceSpec spec
  match rb with
  | .NONE => .ok (.fixed .Z)
  | .XZ => (weights spec 2).map (Sample.choose [.X, .Z])
  | .XYZ => (weights spec 3).map (Sample.choose [.X, .Y, .Z])
  | .CHSH => (weights spec 2).map (Sample.choose [.ZPLUSX, .ZMINUSX])

/-! ### the pair and its measurement (Stab level) -/

/-- two `cmd_new`, `apply_H` on the first, `cnot_onto` the second (408-428) -/
def bell? : Option St :=
  (applyGate1 .H 0 (addQubit (addQubit Stab.empty))).bind (applyGate2 .CNOT 0 1)

/-- `_measure_epr_qubit` 524-539: Z nothing, X `apply_H`, Y `apply_K`, else NotImplementedError -/
def rotate (b : Basis) (s : St) : Except Err St :=
  match b with
  | .Z => .ok s
  | .X => match applyGate1 .H 0 s with | some s' => .ok s' | none => .error .engine
  | .Y => match applyGate1 .K 0 s with | some s' => .ok s' | none => .error .engine
  | _ => .error .notImplemented

/-- rotate, then `cmd_measure(inplace=False)` of the qubit at position 0 -/
def measureIn (b : Basis) (s : St) (coin : Bool) : Except Err (Bool × St) := do
  let s' ← rotate b s
  match Stab.measure s' 0 false coin with
  | some r => .ok r
  | none => .error .engine

/-- measure-directly of one pair: local half in `bl` (coin `c1`), then the other in `br` (`c2`) -/
def mdOutcomes (bl br : Basis) (c1 c2 : Bool) : Except Err (Bool × Bool) := do
  match bell? with
  | none => .error .engine
  | some s =>
    let (o1, s1) ← measureIn bl s c1
    let (o2, _) ← measureIn br s1 c2
    .ok (o1, o2)

/-! ### state -/

def upd1 {α : Type} (f : Nat → α) (a : Nat) (v : α) : Nat → α := fun x => if x = a then v else f x
def upd2 {α : Type} (f : Nat → Nat → α) (a b : Nat) (v : α) : Nat → Nat → α :=
  fun x y => if x = a ∧ y = b then v else f x y
def upd3 {α : Type} (f : Nat → Nat → Nat → α) (a b c : Nat) (v : α) : Nat → Nat → Nat → α :=
  fun x y z => if x = a ∧ y = b ∧ z = c then v else f x y z
def upd4 {α : Type} (f : Nat → Nat → Nat → Nat → α) (a b c d : Nat) (v : α) : Nat → Nat → Nat → Nat → α :=
  fun x y z w => if x = a ∧ y = b ∧ z = c ∧ w = d then v else f x y z w

/-- python dict assignment / pop on `factory.qubitList` -/
def setKey (l : List (Int × Option Nat)) (k : Int) (v : Option Nat) : List (Int × Option Nat) :=
  (k, v) :: l.filter (·.1 ≠ k)
def delKey (l : List (Int × Option Nat)) (k : Int) : List (Int × Option Nat) := l.filter (·.1 ≠ k)
def hasKey (l : List (Int × Option Nat)) (k : Int) : Bool := l.any (·.1 == k)

/-- history record of one `cmd_epr`: the creator's result, the token it keeps (K) and the message sent -/
structure PairRec where
  info : EntInfo
  tok : Option Nat
  msg : EntMsg
  deriving DecidableEq, Repr

structure State where
  /-- `_next_ent_id[(epr_socket_id, remote_node_id, remote_epr_socket_id)]` of each node's process -/
  nextEntId : Nat → Nat → Nat → Nat → Nat
  /-- `_next_create_id[remote_node_id]` of each node's process -/
  nextCreateId : Nat → Nat → Nat
  /-- `qubit_recv_epr[socket]` of each virtual node -/
  recvEpr : Nat → Nat → List EntMsg
  /-- `factory.qubitList` of each node: physical id ↦ qubit token -/
  qubitList : Nat → List (Int × Option Nat)
  nextTok : Nat
  /-- the two-qubit registers formed by `cmd_epr` that still exist, with their stabilizer state -/
  regs : List (List Nat × St)
  /-- every quantum operation issued, in order -/
  qlog : List QOp
  -- history (ghost) variables, used by the theorems only
  /-- every pair created at (node, socket, remote node, remote socket), in order -/
  pairs : Nat → Nat → Nat → Nat → List PairRec
  /-- messages ever appended to the queue (node, socket), in order -/
  sent : Nat → Nat → List EntMsg
  /-- every successful poll at (node, socket), in order: the popped message and the result -/
  recvLog : Nat → Nat → List (EntMsg × EntInfo)

/-- results handed to `_handle_epr_response` by `cmd_epr` at the creator, with the token it keeps (K) -/
def State.created (st : State) (n s r t : Nat) : List (EntInfo × Option Nat) := (st.pairs n s r t).map fun p => (p.info, p.tok)
/-- the messages those pairs put into the remote queue -/
def State.sentFrom (st : State) (n s r t : Nat) : List EntMsg := (st.pairs n s r t).map (·.msg)
/-- messages ever popped from the queue (node, socket) -/
def State.popped (st : State) (n s : Nat) : List EntMsg := (st.recvLog n s).map (·.1)
/-- results handed to `_handle_epr_response` by `cmd_epr_recv` at the receiver, with the token received (K) -/
def State.received (st : State) (n s : Nat) : List (EntInfo × Option Nat) := (st.recvLog n s).map fun p => (p.2, p.1.half)

def init : State :=
  { nextEntId := fun _ _ _ _ => 0, nextCreateId := fun _ _ => 0, recvEpr := fun _ _ => [],
    qubitList := fun _ => [], nextTok := 0, regs := [], qlog := [],
    pairs := fun _ _ _ _ => [], sent := fun _ _ => [], recvLog := fun _ _ => [] }

/-- randomness of one measure-directly pair: the bases `random.choices` returned
(or Z for `RandomBasis.NONE`) and the two measurement coins -/
structure Rnd where
  bl : Basis := .Z
  br : Basis := .Z
  c1 : Bool := false
  c2 : Bool := false
  deriving DecidableEq, Repr

inductive Ev where
  /-- `_get_new_create_id(remote_node_id)` at `node` -/
  | newCreate (node remote : Nat)
  /-- `cmd_epr(create_id, remote_node_id, epr_socket_id, remote_epr_socket_id, qubit_id, request)` at `node` -/
  | pair (node remote sock rsock : Nat) (typ : ReqType) (cid qid : Nat) (rnd : Rnd)
  /-- one poll of `cmd_epr_recv(epr_socket_id, qubit_id)` at `node` -/
  | recv (node sock qid : Nat)
  deriving DecidableEq, Repr

inductive Obs where
  | createId (n : Nat)
  | created (e : EntInfo)
  | nothing
  | got (e : EntInfo)
  deriving DecidableEq, Repr

/-- `_get_new_create_id` (616-620) -/
def newCreate (st : State) (node remote : Nat) : State × Nat :=
  let c := st.nextCreateId node remote
  ({ st with nextCreateId := upd2 st.nextCreateId node remote (c + 1) }, c)

/-- `_update_qubit_id` (726-730), applied to K results only (751-752) -/
def rebind (e : EntInfo) (qid : Nat) : EntInfo :=
  match e.typ with
  | .K => { e with qubit := qid }
  | .M => e

/-- `cmd_epr` (377-500) -/
def pair (st : State) (node remote sock rsock : Nat) (typ : ReqType) (cid qid : Nat) (rnd : Rnd) :
    Except Err (State × EntInfo) :=
  -- 401
  if node = remote then .error .selfCreate else
  -- 411-415: two cmd_new, ids qid and -(1+qid)
  let a := st.nextTok
  let b := a + 1
  let q2 : Int := -(1 + (qid : Int))
  let ql := setKey (setKey (st.qubitList node) qid (some a)) q2 (some b)
  -- 418-428: H, CNOT; the two fresh one-qubit registers merge into one
  match bell? with
  | none => .error .engine
  | some bs =>
  let ops := [QOp.new a, QOp.new b, QOp.H a, QOp.CNOT a b]
  -- 432-436: new_ent_id
  let seq := st.nextEntId node sock remote rsock
  let nextEnt := upd4 st.nextEntId node sock remote rsock (seq + 1)
  match typ with
  | .K =>
    -- 439-451
    let info : EntInfo := { typ := .K, createId := cid, qubit := qid, outcome := 0, basis := .Z, dir := 0, seq := seq,
                            purpose := sock, remoteNode := remote, goodness := 1, bell := 0 }
    -- send_epr_half 638-650: directionality 1, purpose = remote socket, remote node = this node
    let rinfo : EntInfo := { info with qubit := q2, dir := 1, purpose := rsock, remoteNode := node }
    -- virtual.py:603 send the qubit, 626-644 append to the remote queue
    let msg : EntMsg := { fromNode := node, fromSock := sock, toSock := rsock, half := some b, info := rinfo }
    .ok ({ st with
            nextEntId := nextEnt
            nextTok := a + 2
            -- 666 remove_qubit_id(second)
            qubitList := upd1 st.qubitList node (delKey ql q2)
            regs := st.regs ++ [([a, b], bs)]
            qlog := st.qlog ++ ops
            recvEpr := upd2 st.recvEpr remote rsock (st.recvEpr remote rsock ++ [msg])
            pairs := upd4 st.pairs node sock remote rsock (st.pairs node sock remote rsock ++ [⟨info, some a, msg⟩])
            sent := upd2 st.sent remote rsock (st.sent remote rsock ++ [msg]) }, info)
  | .M =>
    -- 462-471: _measure_epr_qubit local, then remote (each: rotate, measure destructively, remove id)
    match measureIn rnd.bl bs rnd.c1 with
    | .error e => .error e
    | .ok (o1, s1) =>
    match measureIn rnd.br s1 rnd.c2 with
    | .error e => .error e
    | .ok (o2, _) =>
    let rotOps (bz : Basis) (t : Nat) : List QOp :=
      match bz with | .X => [QOp.H t] | .Y => [QOp.K t] | _ => []
    let ops2 := rotOps rnd.bl a ++ [QOp.meas a] ++ rotOps rnd.br b ++ [QOp.meas b]
    -- 473-485
    let info : EntInfo := { typ := .M, createId := cid, qubit := 0, outcome := if o1 then 1 else 0, basis := rnd.bl,
                            dir := 0, seq := seq, purpose := sock, remoteNode := remote, goodness := 1, bell := 0 }
    -- send_epr_outcome_half 683-695
    let rinfo : EntInfo := { info with outcome := if o2 then 1 else 0, basis := rnd.br, dir := 1, purpose := rsock,
                                       remoteNode := node }
    let msg : EntMsg := { fromNode := node, fromSock := sock, toSock := rsock, half := none, info := rinfo }
    .ok ({ st with
            nextEntId := nextEnt
            nextTok := a + 2
            qubitList := upd1 st.qubitList node (delKey (delKey ql qid) q2)
            qlog := st.qlog ++ ops ++ ops2
            recvEpr := upd2 st.recvEpr remote rsock (st.recvEpr remote rsock ++ [msg])
            pairs := upd4 st.pairs node sock remote rsock (st.pairs node sock remote rsock ++ [⟨info, none, msg⟩])
            sent := upd2 st.sent remote rsock (st.sent remote rsock ++ [msg]) }, info)

/-- one poll of `cmd_epr_recv` (746-782) with `remote_netqasm_get_epr_recv` (virtual.py:647-669) -/
def recv (st : State) (node sock qid : Nat) : Except Err (State × Option EntInfo) :=
  match st.recvEpr node sock with
  | [] => .ok (st, none)                      -- no list / empty list: `None`, poll again later
  | m :: rest =>                               -- popleft
    let info := rebind m.info qid              -- 750-752
    let st1 := { st with recvEpr := upd2 st.recvEpr node sock rest
                         recvLog := upd2 st.recvLog node sock (st.recvLog node sock ++ [(m, info)]) }
    match info.typ with
    | .K =>
      -- 770-774
      if hasKey (st.qubitList node) qid then .error .inUse
      else .ok ({ st1 with qubitList := upd1 st.qubitList node (setKey (st.qubitList node) qid m.half) }, some info)
    | .M => .ok (st1, some info)

def step (st : State) : Ev → Except Err (State × Obs)
  | .newCreate node remote => let (s, c) := newCreate st node remote; .ok (s, .createId c)
  | .pair node remote sock rsock typ cid qid rnd =>
    match pair st node remote sock rsock typ cid qid rnd with
    | .ok (s, e) => .ok (s, .created e)
    | .error e => .error e
  | .recv node sock qid =>
    match recv st node sock qid with
    | .ok (s, some e) => .ok (s, .got e)
    | .ok (s, none) => .ok (s, .nothing)
    | .error e => .error e

/-- run a history; the observations in order -/
def run (st : State) : List Ev → Except Err (State × List Obs)
  | [] => .ok (st, [])
  | e :: es =>
    match step st e with
    | .error x => .error x
    | .ok (s, o) =>
      match run s es with
      | .error x => .error x
      | .ok (s', os) => .ok (s', o :: os)

/-- `_do_create_epr` (295-337) run without interruption: one create id, n × `cmd_epr` -/
def doCreate (st : State) (node remote sock rsock : Nat) (typ : ReqType) (qids : List Nat) (rnds : List Rnd) :
    Except Err (State × List Obs) :=
  let (s, c) := newCreate st node remote
  run s ((qids.zip rnds).map fun p => Ev.pair node remote sock rsock typ c p.1 p.2)

/-! ### lock skeleton of `send_epr_half` (liveness caveat: finding F8, property C04)

`cmd_epr` is ONE event of the model above.  For create-and-keep it contains
`remote_send_qubit` (virtual.py:672-735), which takes the sender's node lock
(:694), calls `add_qubit` at the target, which takes the TARGET's node lock
(:791) and releases it (:804), and then releases the sender's (:733).  Two such
sends in opposite directions are therefore not atomic with respect to each
other: the skeleton below (two nodes, one sender each) shows the schedule in
which both block forever. -/
inductive Pc where | idle | holdsOwn | holdsBoth | releasedRemote | done deriving DecidableEq, Repr

structure LockSt where
  lock0 : Bool
  lock1 : Bool
  pc0 : Pc      -- the send from node 0 to node 1
  pc1 : Pc      -- the send from node 1 to node 0
  deriving DecidableEq, Repr

def LockSt.init : LockSt := ⟨false, false, .idle, .idle⟩

/-- one step of sender `who` (`false` = the one at node 0); `none` = blocked or finished -/
def lockStep (who : Bool) (s : LockSt) : Option LockSt :=
  match who with
  | false =>
    match s.pc0 with
    | .idle => if s.lock0 then none else some { s with lock0 := true, pc0 := .holdsOwn }
    | .holdsOwn => if s.lock1 then none else some { s with lock1 := true, pc0 := .holdsBoth }
    | .holdsBoth => some { s with lock1 := false, pc0 := .releasedRemote }
    | .releasedRemote => some { s with lock0 := false, pc0 := .done }
    | .done => none
  | true =>
    match s.pc1 with
    | .idle => if s.lock1 then none else some { s with lock1 := true, pc1 := .holdsOwn }
    | .holdsOwn => if s.lock0 then none else some { s with lock0 := true, pc1 := .holdsBoth }
    | .holdsBoth => some { s with lock0 := false, pc1 := .releasedRemote }
    | .releasedRemote => some { s with lock1 := false, pc1 := .done }
    | .done => none

def lockRun (s : LockSt) : List Bool → Option LockSt
  | [] => some s
  | w :: ws => (lockStep w s).bind (lockRun · ws)

end SqVerif.Epr

import SqVerif.Drive.VNetX
def main : IO Unit := SqVerif.Drive.loopState (SqVerif.VNetX.initX []) SqVerif.Drive.VNetX.stepLine

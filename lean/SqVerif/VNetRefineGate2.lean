import SqVerif.VNetRefineMerge
/-
L2 — the two-qubit gate in all placement cases (behind C01.5/7/8 and the gate2 parts of C05).

`stepGate2_spec`: under `WF s`, for two DIFFERENT ACTIVE handles of one node, unless the
both-remote case hits the register limit, the step returns `.unit`, emits only register
moves followed by ONE `gate2` addressed at the positions holding the control's and the
target's token (in this order), every held handle keeps its token, the lists of held
handles and the multiset of tokens are unchanged.
-/
namespace SqVerif.VNet

/-- engine calls that only move registers / tokens around -/
def EOp.isMove : EOp → Bool
  | .newReg .. | .delReg .. | .absorb .. | .exportDel .. | .absorbParts .. => true
  | _ => false

/-- every held handle of `s` still denotes the same token in `s'` -/
def DenKeep (s s' : Net) : Prop :=
  ∀ h, h ∈ allHeld s → ∀ o n r p t, Den s h o n r p t → ∃ o' n' r' p', Den s' h o' n' r' p' t

theorem DenKeep.refl (s : Net) : DenKeep s s := fun _ _ o n r p _ d => ⟨o, n, r, p, d⟩

theorem DenKeep.trans {s s' s'' : Net} (h1 : DenKeep s s') (hh : allHeld s' = allHeld s)
    (h2 : DenKeep s' s'') : DenKeep s s'' := by
  intro h hm o n r p t d
  obtain ⟨o', n', r', p', d'⟩ := h1 h hm o n r p t d
  exact h2 h (hh ▸ hm) o' n' r' p' t d'

/-- frame of a colocation: held lists, token multiset, fresh-token counter -/
structure Frame (s s' : Net) : Prop where
  keep : DenKeep s s'
  virt : s'.nodes.map (·.virt) = s.nodes.map (·.virt)
  count : ∀ x, (allToks s').count x = (allToks s).count x
  nextTok : s'.nextTok = s.nextTok

theorem Frame.refl (s : Net) : Frame s s := ⟨DenKeep.refl s, rfl, fun _ => rfl, rfl⟩

theorem Frame.allHeld {s s' : Net} (f : Frame s s') : allHeld s' = allHeld s :=
  allHeld_eq_of_virt _ _ f.virt

theorem Frame.trans {s s' s'' : Net} (f1 : Frame s s') (f2 : Frame s' s'') : Frame s s'' :=
  ⟨f1.keep.trans f1.allHeld f2.keep, f2.virt.trans f1.virt, fun x => (f2.count x).trans (f1.count x),
   f2.nextTok.trans f1.nextTok⟩

/-! ### the gate itself -/

theorem gate2Op_den {s : Net} {g : G2} {hc ht oc ot n r c t tc tt : Nat} (dc : Den s hc oc n r c tc)
    (dt : Den s ht ot n r t tt) (hne : tc ≠ tt) :
    gate2Op s g oc ot = (s, .unit, [.gate2 g n r c t]) ∧ c ≠ t := by
  obtain ⟨qc, hqc, hcn, hcr, hcp⟩ := dc.sq
  obtain ⟨qt, hqt, _, _, htp⟩ := dt.sq
  obtain ⟨nd, rg, hn, hr, htc⟩ := dc.reg
  obtain ⟨nd', rg', hn', hr', htt⟩ := dt.reg
  rw [hn] at hn'; cases hn'
  rw [hr] at hr'; cases hr'
  have hct : c ≠ t := by
    intro e; subst e; rw [htc] at htt; exact hne (Option.some.inj htt)
  refine ⟨?_, hct⟩
  have hb : (qc.pos == qt.pos) = false := by
    rw [hcp, htp]; simp [hct]
  simp only [gate2Op, hqc, hqt, hb]
  simp [hcn, hcr, hcp, htp]

/-! ### one pull -/

/-- the lookups that make `mergeFrom s dst src o lr` take its main branch -/
structure Pull (s : Net) (dst src o lr : Nat) (q : SQ) (sn dn : Node) (oldR locR : Reg) : Prop where
  hq : s.sqs[o]? = some q
  hsn : s.nodes[src]? = some sn
  hdn : s.nodes[dst]? = some dn
  hold : sn.reg? q.reg = some oldR
  hloc : dn.reg? lr = some locR
  hne : src ≠ dst

theorem Pull.of_den {s : Net} {dst src lr hx o rq p t : Nat} {dn : Node} {locR : Reg}
    (d : Den s hx o src rq p t) (hdn : s.nodes[dst]? = some dn) (hloc : dn.reg? lr = some locR)
    (hne : src ≠ dst) :
    ∃ q sn oldR, Pull s dst src o lr q sn dn oldR locR ∧ q.reg = rq ∧ q.pos = p ∧ p < oldR.toks.length := by
  obtain ⟨vq, sq, nd, rg, hv, rfl, rfl, hs, hsnode, rfl, rfl, hn, hr, ht⟩ := d
  exact ⟨sq, nd, rg, ⟨hs, hn, hdn, hr, hloc, hne⟩, rfl, rfl, (List.getElem?_eq_some_iff.1 ht).1⟩

section pull
variable {s : Net} {dst src o lr : Nat} {q : SQ} {sn dn : Node} {oldR locR : Reg}

theorem Pull.frame (P : Pull s dst src o lr q sn dn oldR locR)
    (hnd1 : (sn.regs.map (·.num)).Nodup) (hnd2 : (dn.regs.map (·.num)).Nodup) :
    Frame s (mergeFrom s dst src o lr).1 := by
  obtain ⟨f1, f2, _, _⟩ := mergeFrom_frame P.hq P.hsn P.hdn P.hold P.hloc P.hne
  refine ⟨?_, f1, mergeFrom_count P.hq P.hsn P.hdn P.hold P.hloc P.hne hnd1 hnd2, f2⟩
  intro h hm o' n r p t d
  by_cases hc : n = src ∧ r = q.reg
  · obtain ⟨rfl, rfl⟩ := hc
    exact ⟨_, _, _, _, mergeFrom_den_moved P.hq P.hsn P.hdn P.hold P.hloc P.hne d hm⟩
  · exact ⟨_, _, _, _, mergeFrom_den_other P.hq P.hsn P.hdn P.hold P.hloc P.hne d hc⟩

theorem Pull.other (P : Pull s dst src o lr q sn dn oldR locR) {h o' n r p t : Nat}
    (d : Den s h o' n r p t) (hnot : ¬ (n = src ∧ r = q.reg)) :
    Den (mergeFrom s dst src o lr).1 h o' n r p t :=
  mergeFrom_den_other P.hq P.hsn P.hdn P.hold P.hloc P.hne d hnot

theorem Pull.moved (P : Pull s dst src o lr q sn dn oldR locR) {h o' p t : Nat}
    (d : Den s h o' src q.reg p t) (hh : h ∈ allHeld s) :
    Den (mergeFrom s dst src o lr).1 h (s.sqs.length + p) dst lr (locR.toks.length + p) t :=
  mergeFrom_den_moved P.hq P.hsn P.hdn P.hold P.hloc P.hne d hh

theorem Pull.ret (P : Pull s dst src o lr q sn dn oldR locR) (hp : q.pos < oldR.toks.length) :
    (mergeFrom s dst src o lr).2.1 = s.sqs.length + q.pos ∧
    (mergeFrom s dst src o lr).2.2 = [.exportDel src q.reg, .delReg src q.reg, .absorbParts dst lr src q.reg] :=
  mergeFrom_ret P.hq P.hsn P.hdn P.hold P.hloc hp

end pull

/-- after a pull the explicit `simObj` update of the pulled handle is redundant: `repoint` did it -/
theorem setVQ_simObj_self {s : Net} {h o n r p t : Nat} (d : Den s h o n r p t) :
    setVQ s h (fun v => { v with simObj := o }) = s := by
  obtain ⟨vq, hv, ho, _⟩ := d.vq
  apply setVQ_self
  intro v hv'
  rw [hv] at hv'; cases hv'
  subst ho; rfl


/-! ### a new (empty) register -/

def addRegF (nd : Node) : Node :=
  { nd with numRegs := nd.numRegs + 1, nextReg := nd.nextReg + 1,
            regs := nd.regs ++ [{ num := nd.nextReg, max := 10, toks := [] }] }

theorem addRegister_eq {s : Net} {a : Nat} {na : Node} (hna : s.nodes[a]? = some na)
    (hlt : na.numRegs < na.maxRegs) : addRegister s a = .ok (modNode s a addRegF, na.nextReg) := by
  have : ¬ na.numRegs ≥ na.maxRegs := by omega
  simp only [addRegister, hna, this, if_false]
  congr 2
  simp only [modNode]; congr 1
  exact modify_congr' _ _ _ _ na hna rfl

theorem addRegister_limit {s : Net} {a : Nat} {na : Node} (hna : s.nodes[a]? = some na)
    (hge : na.numRegs ≥ na.maxRegs) : addRegister s a = .error .quantum := by
  simp [addRegister, hna, hge]

theorem addReg_den {s : Net} {a : Nat} {h o n r p t : Nat} (d : Den s h o n r p t) :
    Den (modNode s a addRegF) h o n r p t := by
  obtain ⟨vq, sq, nd, rg, hv, rfl, rfl, hs, hsnode, rfl, rfl, hn, hr, ht⟩ := d
  by_cases e : a = vq.simNode
  · refine ⟨vq, sq, addRegF nd, rg, hv, rfl, rfl, hs, hsnode, rfl, rfl, ?_, ?_, ht⟩
    · rw [modNode_get, if_pos e, hn]; rfl
    · unfold addRegF Node.reg?
      simp only [List.find?_append]
      unfold Node.reg? at hr
      rw [hr]; rfl
  · refine ⟨vq, sq, nd, rg, hv, rfl, rfl, hs, hsnode, rfl, rfl, ?_, hr, ht⟩
    rw [modNode_get, if_neg e]; exact hn

theorem addReg_frame {s : Net} {a : Nat} {na : Node} (hna : s.nodes[a]? = some na) :
    Frame s (modNode s a addRegF) := by
  refine ⟨fun h _ o n r p t d => ⟨o, n, r, p, addReg_den d⟩, map_virt_modify _ _ _ (fun _ => rfl), ?_, rfl⟩
  intro x
  have c := count_allToks_modNode s a addRegF na x hna
  have : nodeToks (addRegF na) = nodeToks na := by
    unfold nodeToks addRegF; simp
  rw [this] at c; omega

theorem addReg_reg? {na : Node} (hfresh : ∀ r, r ∈ na.regs → r.num < na.nextReg) :
    (addRegF na).reg? na.nextReg = some { num := na.nextReg, max := 10, toks := [] } := by
  unfold addRegF Node.reg?
  simp only [List.find?_append]
  have : na.regs.find? (fun r => r.num == na.nextReg) = none := by
    apply List.find?_eq_none.2
    intro r hr; have := hfresh r hr; simp; omega
  rw [this]; simp

/-- all nodes have pairwise different register numbers -/
def RegsNodup (s : Net) : Prop := ∀ (j : Nat) (n : Node), s.nodes[j]? = some n → (n.regs.map (·.num)).Nodup

theorem addReg_regsNodup {s : Net} {a : Nat} (h : RegsNodup s)
    (hfresh : ∀ na, s.nodes[a]? = some na → ∀ r, r ∈ na.regs → r.num < na.nextReg) :
    RegsNodup (modNode s a addRegF) := by
  intro j n hn
  rw [modNode_get] at hn
  by_cases e : a = j
  · subst e
    rw [if_pos rfl] at hn
    cases hna : s.nodes[a]? with
    | none => rw [hna] at hn; cases hn
    | some na =>
      rw [hna] at hn; simp only [Option.map_some, Option.some.injEq] at hn
      subst hn
      unfold addRegF
      simp only [List.map_append, List.map_cons, List.map_nil]
      rw [List.nodup_append]
      refine ⟨h a na hna, by simp, ?_⟩
      intro x hx y hy
      simp only [List.mem_singleton] at hy
      subst hy
      obtain ⟨r, hr, rfl⟩ := List.mem_map.1 hx
      have := hfresh na hna r hr; omega
  · rw [if_neg e] at hn; exact h j n hn

theorem Pull.regsNodup {s : Net} {dst src o lr : Nat} {q : SQ} {sn dn : Node} {oldR locR : Reg}
    (P : Pull s dst src o lr q sn dn oldR locR) (h : RegsNodup s) :
    RegsNodup (mergeFrom s dst src o lr).1 := by
  obtain ⟨_, _, f3, _⟩ := mergeFrom_frame P.hq P.hsn P.hdn P.hold P.hloc P.hne
  intro j n hn
  rw [f3] at hn
  by_cases h1 : j = dst
  · rw [if_pos h1] at hn; cases hn
    unfold dstAbsorb
    have := modReg_nums dn lr (fun r => { r with max := r.max + oldR.toks.length, toks := r.toks ++ oldR.toks })
      (fun _ => rfl)
    show ((Node.modReg dn lr _).regs.map (·.num)).Nodup
    rw [this]
    exact h _ _ P.hdn
  · rw [if_neg h1] at hn
    by_cases h2 : j = src
    · rw [if_pos h2] at hn; cases hn
      unfold srcDrop
      exact (h _ _ P.hsn).sublist (delReg_nums_sublist _ _)
    · rw [if_neg h2] at hn; exact h j n hn

/-! ### the result of a successful two-qubit gate -/

/-- what a successful `gate2` guarantees -/
def G2Out (s : Net) (hc ht : Nat) (g : G2) (out : Net × Res × List EOp) : Prop :=
  ∃ pre oc ot n r c t tc tt,
    out.2.1 = .unit ∧ out.2.2 = pre ++ [.gate2 g n r c t] ∧ pre.all EOp.isMove = true ∧
    Den out.1 hc oc n r c tc ∧ Den out.1 ht ot n r t tt ∧
    tokOf s hc = some tc ∧ tokOf s ht = some tt ∧ c ≠ t ∧ Frame s out.1

section gate2
variable {s : Net} {hc ht : Nat} {g : G2} {vc vt : VQ}

theorem stepGate2_unfold (hvc : s.vqs[hc]? = some vc) (hvt : s.vqs[ht]? = some vt)
    (hsame : vc.virtNode = vt.virtNode) (hac : vc.active = true) (hat : vt.active = true) :
    stepGate2 s hc ht g =
      if vc.simNode == vt.simNode then
        ((gate2Op (localMerge s vc.simNode vc.simObj vt.simObj).1 g vc.simObj vt.simObj).1,
         (gate2Op (localMerge s vc.simNode vc.simObj vt.simObj).1 g vc.simObj vt.simObj).2.1,
         (localMerge s vc.simNode vc.simObj vt.simObj).2 ++
           (gate2Op (localMerge s vc.simNode vc.simObj vt.simObj).1 g vc.simObj vt.simObj).2.2)
      else if vc.simNode == vc.virtNode then
        match s.sqs[vc.simObj]? with
        | none => (s, .badCall, [])
        | some qc =>
          let m := mergeFrom s vc.virtNode vt.simNode vt.simObj qc.reg
          let s1' := setVQ m.1 ht fun v => { v with simObj := m.2.1 }
          ((gate2Op s1' g vc.simObj m.2.1).1, (gate2Op s1' g vc.simObj m.2.1).2.1,
            m.2.2 ++ (gate2Op s1' g vc.simObj m.2.1).2.2)
      else if vt.simNode == vc.virtNode then
        match s.sqs[vt.simObj]? with
        | none => (s, .badCall, [])
        | some qt =>
          let m := mergeFrom s vc.virtNode vc.simNode vc.simObj qt.reg
          let s1' := setVQ m.1 hc fun v => { v with simObj := m.2.1 }
          ((gate2Op s1' g m.2.1 vt.simObj).1, (gate2Op s1' g m.2.1 vt.simObj).2.1,
            m.2.2 ++ (gate2Op s1' g m.2.1 vt.simObj).2.2)
      else
        match addRegister s vc.virtNode with
        | .error e => (s, .err e, [])
        | .ok (s0, newReg) =>
          let m1 := mergeFrom s0 vc.virtNode vc.simNode vc.simObj newReg
          let s1' := setVQ m1.1 hc fun v => { v with simObj := m1.2.1 }
          let m2 := mergeFrom s1' vc.virtNode vt.simNode vt.simObj newReg
          let s2' := setVQ m2.1 ht fun v => { v with simObj := m2.2.1 }
          ((gate2Op s2' g m1.2.1 m2.2.1).1, (gate2Op s2' g m1.2.1 m2.2.1).2.1,
            [.newReg vc.virtNode newReg] ++ m1.2.2 ++ m2.2.2 ++ (gate2Op s2' g m1.2.1 m2.2.1).2.2) := by
  have h1 : (vc.virtNode != vt.virtNode) = false := by simp [hsame]
  simp only [stepGate2, hvc, hvt, h1, hac, hat, Bool.not_true, Bool.or_self, Bool.false_eq_true, if_false]
  rfl

variable (hwf : WF s)
include hwf

/-- case A: both simulated at one node -/
theorem stepGate2_caseA (hvc : s.vqs[hc]? = some vc) (hvt : s.vqs[ht]? = some vt)
    (hsame : vc.virtNode = vt.virtNode) (hac : vc.active = true) (hat : vt.active = true)
    (hne : hc ≠ ht) (hsim : vc.simNode = vt.simNode) : G2Out s hc ht g (stepGate2 s hc ht g) := by
  have hhc := hwf.held_of_active hvc hac
  have hht := hwf.held_of_active hvt hat
  obtain ⟨vc', qc, ndc, rgc, ic⟩ := hwf.info_of_held hhc
  obtain ⟨vt', qt, ndt, rgt, it⟩ := hwf.info_of_held hht
  have e1 := ic.hv; rw [hvc] at e1; cases e1
  have e2 := it.hv; rw [hvt] at e2; cases e2
  have dc := ic.den
  have dt := it.den
  have htok : rgc.toks[qc.pos]'ic.pos ≠ rgt.toks[qt.pos]'it.pos := by
    intro e; exact hne (tokOf_inj hwf hhc hht dc.tokOf (e ▸ dt.tokOf))
  have hndt := it.hn; rw [← hsim, ic.hn] at hndt; cases hndt
  rw [stepGate2_unfold hvc hvt hsame hac hat]
  simp only [hsim, beq_self_eq_true, if_true]
  by_cases hreg : qc.reg = qt.reg
  · -- same register: nothing to merge
    have hm : localMerge s vt.simNode vc.simObj vt.simObj = (s, []) :=
      localMerge_same ic.hs it.hs (hsim ▸ ic.hn) hreg
    rw [hm]
    rw [hsim, hreg] at dc
    obtain ⟨hg, hct⟩ := gate2Op_den (g := g) dc dt htok
    rw [hg]
    exact ⟨[], _, _, _, _, _, _, _, _, rfl, rfl, rfl, dc, dt, ic.den.tokOf, dt.tokOf, hct, Frame.refl s⟩
  · -- different registers of one node: the control's register absorbs the target's
    have hnd : s.nodes[vt.simNode]? = some ndc := hsim ▸ ic.hn
    have nwf := hwf.nodes _ _ hnd
    have hsimOK : ∀ o, o ∈ ndc.sim → ∀ sq, s.sqs[o]? = some sq → sq.node = vt.simNode := by
      intro o ho sq hs
      obtain ⟨sq', hs', hnode, _⟩ := nwf.simOK o ho
      rw [hs] at hs'; cases hs'; exact hnode
    have hm := localMerge_eq ic.hs it.hs hnd hreg ic.hr it.hr
    have dc' : Den (localMerge s vt.simNode vc.simObj vt.simObj).1 hc vc.simObj vt.simNode qc.reg qc.pos _ :=
      localMerge_den_other ic.hs it.hs hnd hreg ic.hr it.hr hsimOK (hsim ▸ dc) (fun h => hreg h.2)
    have dt' := localMerge_den_moved ic.hs it.hs hnd hreg ic.hr it.hr dt it.insim
    obtain ⟨hg, hct⟩ := gate2Op_den (g := g) dc' dt' htok
    rw [hg]
    refine ⟨(localMerge s vt.simNode vc.simObj vt.simObj).2, _, _, _, _, _, _, _, _, rfl, rfl, ?_, dc', dt',
      ic.den.tokOf, dt.tokOf, hct, ?_, ?_, ?_, ?_⟩
    · rw [hm]; rfl
    · intro h hm' o n r p t d
      by_cases hcase : n = vt.simNode ∧ r = qt.reg
      · obtain ⟨rfl, rfl⟩ := hcase
        obtain ⟨vq, sq, nd, rg, ih⟩ := hwf.info_of_held hm'
        obtain ⟨e1, e2, _⟩ := d.unique ih.den
        have hn' := ih.hn; rw [← e2, hnd] at hn'; cases hn'
        exact ⟨_, _, _, _, localMerge_den_moved ic.hs it.hs hnd hreg ic.hr it.hr d (e1 ▸ ih.insim)⟩
      · exact ⟨_, _, _, _, localMerge_den_other ic.hs it.hs hnd hreg ic.hr it.hr hsimOK d hcase⟩
    · rw [hm]
      show (s.nodes.modify _ _).map (·.virt) = _
      exact map_virt_modify _ _ _ (fun _ => rfl)
    · exact localMerge_count ic.hs it.hs hnd hreg ic.hr it.hr nwf.regNumsNodup
    · rw [hm]

/-- case B1: control simulated locally, target elsewhere: pull the target's register -/
theorem stepGate2_caseB1 (hvc : s.vqs[hc]? = some vc) (hvt : s.vqs[ht]? = some vt)
    (hsame : vc.virtNode = vt.virtNode) (hac : vc.active = true) (hat : vt.active = true)
    (hne : hc ≠ ht) (hsim : vc.simNode ≠ vt.simNode) (hloc : vc.simNode = vc.virtNode) :
    G2Out s hc ht g (stepGate2 s hc ht g) := by
  have hhc := hwf.held_of_active hvc hac
  have hht := hwf.held_of_active hvt hat
  obtain ⟨vc', qc, ndc, rgc, ic⟩ := hwf.info_of_held hhc
  obtain ⟨vt', qt, ndt, rgt, it⟩ := hwf.info_of_held hht
  have e1 := ic.hv; rw [hvc] at e1; cases e1
  have e2 := it.hv; rw [hvt] at e2; cases e2
  have dc := ic.den
  have dt := it.den
  have htok : rgc.toks[qc.pos]'ic.pos ≠ rgt.toks[qt.pos]'it.pos := by
    intro e; exact hne (tokOf_inj hwf hhc hht dc.tokOf (e ▸ dt.tokOf))
  rw [stepGate2_unfold hvc hvt hsame hac hat]
  rw [if_neg (by simpa using hsim), if_pos (by simpa using hloc)]
  simp only [ic.hs]
  have P : Pull s vc.virtNode vt.simNode vt.simObj qc.reg qt ndt ndc rgt rgc :=
    ⟨it.hs, it.hn, hloc ▸ ic.hn, it.hr, ic.hr, fun e => hsim (hloc.trans e.symm)⟩
  have dc' := P.other dc (fun h => hsim h.1)
  have dt' := P.moved dt hht
  obtain ⟨r1, r2⟩ := P.ret it.pos
  rw [r1, setVQ_simObj_self dt']
  rw [hloc] at dc'
  obtain ⟨hg, hct⟩ := gate2Op_den (g := g) dc' dt' htok
  rw [hg]
  refine ⟨_, _, _, _, _, _, _, _, _, rfl, rfl, ?_, dc', dt', dc.tokOf, dt.tokOf, hct,
    P.frame (hwf.nodes _ _ it.hn).regNumsNodup (hwf.nodes _ _ ic.hn).regNumsNodup⟩
  rw [r2]; rfl

/-- case B2: target simulated locally, control elsewhere: pull the control's register -/
theorem stepGate2_caseB2 (hvc : s.vqs[hc]? = some vc) (hvt : s.vqs[ht]? = some vt)
    (hsame : vc.virtNode = vt.virtNode) (hac : vc.active = true) (hat : vt.active = true)
    (hne : hc ≠ ht) (hsim : vc.simNode ≠ vt.simNode) (hnloc : vc.simNode ≠ vc.virtNode)
    (hloc : vt.simNode = vc.virtNode) :
    G2Out s hc ht g (stepGate2 s hc ht g) := by
  have hhc := hwf.held_of_active hvc hac
  have hht := hwf.held_of_active hvt hat
  obtain ⟨vc', qc, ndc, rgc, ic⟩ := hwf.info_of_held hhc
  obtain ⟨vt', qt, ndt, rgt, it⟩ := hwf.info_of_held hht
  have e1 := ic.hv; rw [hvc] at e1; cases e1
  have e2 := it.hv; rw [hvt] at e2; cases e2
  have dc := ic.den
  have dt := it.den
  have htok : rgc.toks[qc.pos]'ic.pos ≠ rgt.toks[qt.pos]'it.pos := by
    intro e; exact hne (tokOf_inj hwf hhc hht dc.tokOf (e ▸ dt.tokOf))
  rw [stepGate2_unfold hvc hvt hsame hac hat]
  rw [if_neg (by simpa using hsim), if_neg (by simpa using hnloc), if_pos (by simpa using hloc)]
  simp only [it.hs]
  have P : Pull s vc.virtNode vc.simNode vc.simObj qt.reg qc ndc ndt rgc rgt :=
    ⟨ic.hs, ic.hn, hloc ▸ it.hn, ic.hr, it.hr, hnloc⟩
  have dt' := P.other dt (fun h => hsim h.1.symm)
  have dc' := P.moved dc hhc
  obtain ⟨r1, r2⟩ := P.ret ic.pos
  rw [r1, setVQ_simObj_self dc']
  rw [hloc] at dt'
  obtain ⟨hg, hct⟩ := gate2Op_den (g := g) dc' dt' htok
  rw [hg]
  refine ⟨_, _, _, _, _, _, _, _, _, rfl, rfl, ?_, dc', dt', dc.tokOf, dt.tokOf, hct,
    P.frame (hwf.nodes _ _ ic.hn).regNumsNodup (hwf.nodes _ _ it.hn).regNumsNodup⟩
  rw [r2]; rfl

/-- case C: both simulated remotely at two different nodes: new local register, two pulls -/
theorem stepGate2_caseC (hvc : s.vqs[hc]? = some vc) (hvt : s.vqs[ht]? = some vt)
    (hsame : vc.virtNode = vt.virtNode) (hac : vc.active = true) (hat : vt.active = true)
    (hne : hc ≠ ht) (hsim : vc.simNode ≠ vt.simNode) (hnc : vc.simNode ≠ vc.virtNode)
    (hnt : vt.simNode ≠ vc.virtNode) {na : Node} (hna : s.nodes[vc.virtNode]? = some na)
    (hlt : na.numRegs < na.maxRegs) :
    G2Out s hc ht g (stepGate2 s hc ht g) := by
  have hhc := hwf.held_of_active hvc hac
  have hht := hwf.held_of_active hvt hat
  obtain ⟨vc', qc, ndc, rgc, ic⟩ := hwf.info_of_held hhc
  obtain ⟨vt', qt, ndt, rgt, it⟩ := hwf.info_of_held hht
  have e1 := ic.hv; rw [hvc] at e1; cases e1
  have e2 := it.hv; rw [hvt] at e2; cases e2
  have dc := ic.den
  have dt := it.den
  have htok : rgc.toks[qc.pos]'ic.pos ≠ rgt.toks[qt.pos]'it.pos := by
    intro e; exact hne (tokOf_inj hwf hhc hht dc.tokOf (e ▸ dt.tokOf))
  rw [stepGate2_unfold hvc hvt hsame hac hat]
  rw [if_neg (by simpa using hsim), if_neg (by simpa using hnc), if_neg (by simpa using hnt)]
  rw [addRegister_eq hna hlt]
  simp only
  -- the new register
  have nwfa := hwf.nodes _ _ hna
  have F0 : Frame s (modNode s vc.virtNode addRegF) := addReg_frame hna
  have hN0 : RegsNodup (modNode s vc.virtNode addRegF) :=
    addReg_regsNodup (fun j n hn => (hwf.nodes j n hn).regNumsNodup)
      (fun na' hna' => by rw [hna] at hna'; cases hna'; exact nwfa.regNumsFresh)
  have hdn0 : (modNode s vc.virtNode addRegF).nodes[vc.virtNode]? = some (addRegF na) := by
    rw [modNode_get, if_pos rfl, hna]; rfl
  have hsn0 : (modNode s vc.virtNode addRegF).nodes[vc.simNode]? = some ndc := by
    rw [modNode_get, if_neg (Ne.symm hnc)]; exact ic.hn
  -- first pull: the control's register
  have P1 : Pull (modNode s vc.virtNode addRegF) vc.virtNode vc.simNode vc.simObj na.nextReg qc ndc
      (addRegF na) rgc { num := na.nextReg, max := 10, toks := [] } :=
    ⟨ic.hs, hsn0, hdn0, ic.hr, addReg_reg? nwfa.regNumsFresh, hnc⟩
  have dc1 := P1.moved (addReg_den dc) (F0.allHeld ▸ hhc)
  have dt1 := P1.other (addReg_den dt) (fun h => hsim h.1.symm)
  obtain ⟨r1, r1'⟩ := P1.ret ic.pos
  have F1 := P1.frame (hN0 _ _ hsn0) (hN0 _ _ hdn0)
  have hN1 := P1.regsNodup hN0
  rw [r1, setVQ_simObj_self dc1]
  -- second pull: the target's register
  obtain ⟨nd1, rg1, hdn1, hloc1, _⟩ := dc1.reg
  obtain ⟨q2, sn2, oldR2, P2, hq2r, hq2p, hp2⟩ := Pull.of_den dt1 hdn1 hloc1 hnt
  have dc2 := P2.other dc1 (fun h => hnt h.1.symm)
  rw [← hq2r] at dt1
  have dt1' := dt1
  have dt2 := P2.moved dt1' ((F0.trans F1).allHeld ▸ hht)
  obtain ⟨r2, r2'⟩ := P2.ret (hq2p ▸ hp2)
  have F2 := P2.frame (hN1 _ _ P2.hsn) (hN1 _ _ P2.hdn)
  rw [r2, hq2p, setVQ_simObj_self dt2]
  obtain ⟨hg, hct⟩ := gate2Op_den (g := g) dc2 dt2 htok
  rw [hg]
  refine ⟨_, _, _, _, _, _, _, _, _, rfl, rfl, ?_, dc2, dt2, dc.tokOf, dt.tokOf, hct,
    (F0.trans F1).trans F2⟩
  rw [r1', r2']; rfl

omit hwf in
/-- case C at the register limit: refused, nothing changed -/
theorem stepGate2_regLimit (hvc : s.vqs[hc]? = some vc) (hvt : s.vqs[ht]? = some vt)
    (hsame : vc.virtNode = vt.virtNode) (hac : vc.active = true) (hat : vt.active = true)
    (hsim : vc.simNode ≠ vt.simNode) (hnc : vc.simNode ≠ vc.virtNode)
    (hnt : vt.simNode ≠ vc.virtNode) {na : Node} (hna : s.nodes[vc.virtNode]? = some na)
    (hge : na.numRegs ≥ na.maxRegs) :
    stepGate2 s hc ht g = (s, .err .quantum, []) := by
  rw [stepGate2_unfold hvc hvt hsame hac hat]
  rw [if_neg (by simpa using hsim), if_neg (by simpa using hnc), if_neg (by simpa using hnt)]
  rw [addRegister_limit hna hge]

/-- identical control and target: `ValueError`, nothing changed -/
theorem stepGate2_same (hvc : s.vqs[hc]? = some vc) (hac : vc.active = true) :
    stepGate2 s hc hc g = (s, .err .value, []) := by
  have hhc := hwf.held_of_active hvc hac
  obtain ⟨vc', qc, ndc, rgc, ic⟩ := hwf.info_of_held hhc
  have e1 := ic.hv; rw [hvc] at e1; cases e1
  rw [stepGate2_unfold hvc hvc rfl hac hac]
  simp only [beq_self_eq_true, if_true]
  rw [localMerge_same ic.hs ic.hs ic.hn rfl]
  simp [gate2Op, ic.hs]

/-- the both-remote-two-simulators placement with no register left at the issuing node -/
def RegLimit (s : Net) (vc vt : VQ) : Prop :=
  vc.simNode ≠ vt.simNode ∧ vc.simNode ≠ vc.virtNode ∧ vt.simNode ≠ vc.virtNode ∧
    ∃ na, s.nodes[vc.virtNode]? = some na ∧ na.numRegs ≥ na.maxRegs

/-- a two-qubit gate through two different active handles of one node succeeds unless the
register limit binds -/
theorem stepGate2_spec (hvc : s.vqs[hc]? = some vc) (hvt : s.vqs[ht]? = some vt)
    (hsame : vc.virtNode = vt.virtNode) (hac : vc.active = true) (hat : vt.active = true)
    (hne : hc ≠ ht) (hlim : ¬ RegLimit s vc vt) : G2Out s hc ht g (stepGate2 s hc ht g) := by
  by_cases hsim : vc.simNode = vt.simNode
  · exact stepGate2_caseA hwf hvc hvt hsame hac hat hne hsim
  · by_cases hloc : vc.simNode = vc.virtNode
    · exact stepGate2_caseB1 hwf hvc hvt hsame hac hat hne hsim hloc
    · by_cases hloc' : vt.simNode = vc.virtNode
      · exact stepGate2_caseB2 hwf hvc hvt hsame hac hat hne hsim hloc hloc'
      · obtain ⟨_, _, _, _, ic⟩ := hwf.info_of_held (hwf.held_of_active hvc hac)
        have e1 := ic.hv; rw [hvc] at e1; cases e1
        obtain ⟨na, hna, _⟩ := ic.home
        have hlt : na.numRegs < na.maxRegs := by
          apply Classical.byContradiction; intro h
          exact hlim ⟨hsim, hloc, hloc', na, hna, by omega⟩
        exact stepGate2_caseC hwf hvc hvt hsame hac hat hne hsim hloc hloc' hna hlt

/-- complete classification of the two-qubit gate under `WF` -/
theorem stepGate2_classify (hc ht : Nat) (g : G2) :
    (stepGate2 s hc ht g = (s, .badCall, []) ∧
        ¬ ∃ vc vt, s.vqs[hc]? = some vc ∧ s.vqs[ht]? = some vt ∧ vc.virtNode = vt.virtNode) ∨
    (stepGate2 s hc ht g = (s, .none, []) ∧
        ∃ vc vt, s.vqs[hc]? = some vc ∧ s.vqs[ht]? = some vt ∧ vc.virtNode = vt.virtNode ∧
          (vc.active = false ∨ vt.active = false)) ∨
    (stepGate2 s hc ht g = (s, .err .value, []) ∧ hc = ht ∧
        ∃ vc, s.vqs[hc]? = some vc ∧ vc.active = true) ∨
    (stepGate2 s hc ht g = (s, .err .quantum, []) ∧ hc ≠ ht ∧
        ∃ vc vt, s.vqs[hc]? = some vc ∧ s.vqs[ht]? = some vt ∧ vc.virtNode = vt.virtNode ∧
          vc.active = true ∧ vt.active = true ∧ RegLimit s vc vt) ∨
    (G2Out s hc ht g (stepGate2 s hc ht g) ∧ hc ≠ ht ∧
        ∃ vc vt, s.vqs[hc]? = some vc ∧ s.vqs[ht]? = some vt ∧ vc.virtNode = vt.virtNode ∧
          vc.active = true ∧ vt.active = true ∧ ¬ RegLimit s vc vt) := by
  cases hvc : s.vqs[hc]? with
  | none =>
    left; refine ⟨by simp [stepGate2, hvc], ?_⟩
    rintro ⟨vc, vt, h, _⟩; cases h
  | some vc =>
    cases hvt : s.vqs[ht]? with
    | none =>
      left; refine ⟨by simp [stepGate2, hvc, hvt], ?_⟩
      rintro ⟨vc, vt, _, h, _⟩; cases h
    | some vt =>
      by_cases hsame : vc.virtNode = vt.virtNode
      · by_cases hact : vc.active = true ∧ vt.active = true
        · obtain ⟨hac, hat⟩ := hact
          by_cases hne : hc = ht
          · subst hne
            right; right; left
            exact ⟨stepGate2_same hwf hvc hac, rfl, vc, rfl, hac⟩
          · by_cases hlim : RegLimit s vc vt
            · right; right; right; left
              obtain ⟨h1, h2, h3, na, hna, hge⟩ := hlim
              exact ⟨stepGate2_regLimit hvc hvt hsame hac hat h1 h2 h3 hna hge, hne, vc, vt, rfl, rfl,
                hsame, hac, hat, h1, h2, h3, na, hna, hge⟩
            · right; right; right; right
              exact ⟨stepGate2_spec hwf hvc hvt hsame hac hat hne hlim, hne, vc, vt, rfl, rfl, hsame, hac, hat, hlim⟩
        · right; left
          refine ⟨?_, vc, vt, rfl, rfl, hsame, ?_⟩
          · have h1 : (vc.virtNode != vt.virtNode) = false := by simp [hsame]
            have h2 : (!vc.active || !vt.active) = true := by
              cases h : vc.active <;> cases h' : vt.active <;> simp_all
            simp only [stepGate2, hvc, hvt, h1, h2, if_true, Bool.false_eq_true, if_false]
          · cases h : vc.active <;> cases h' : vt.active <;> simp_all
      · left
        refine ⟨?_, ?_⟩
        · have h1 : (vc.virtNode != vt.virtNode) = true := by simp [hsame]
          simp only [stepGate2, hvc, hvt, h1, if_true]
        · rintro ⟨vc', vt', h1, h2, h3⟩
          cases h1; cases h2; exact hsame h3

end gate2

end SqVerif.VNet

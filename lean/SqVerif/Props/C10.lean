import SqVerif.FramingLemmas
/-
C10 — message streams are framed correctly and answered on the right connection.

The models (`SqVerif/Framing.lean`) mirror the repaired code (branch `fix-c10`:
loop + slice in `dataReceived`/`_parse_message`, `current_protocol` routing,
length-prefixed application socket, iterative `_handle_reply`); the namespace
`Framing.Old` mirrors the code before those commits and carries the
counter-examples (F5, F6, F7).  Every positive theorem quantifies over ALL
message lists, ALL cuttings of the byte stream into reads / ALL adversarial
choices of what a `recv` returns, ALL interleavings of connections and handler
completions; nothing is bounded.
-/
namespace SqVerif.C10
open SqVerif.Framing

/-! ## T10.1  server side: handled exactly once, in order, however the stream is cut -/

/-- For every list `ms` of well-formed host messages, every further message `m'` of which only
the first `k` bytes have arrived, and every way `cs` of cutting that byte stream into reads:
the parser hands exactly `ms` to the handler (each once, in order, ids and payloads intact),
keeps exactly the unfinished bytes, and does not fail.  In particular a message is handled
in the read that brings its last byte, however many messages that read carries. -/
theorem server_framing (ok : Bytes → Bool) (ms : List Msg) (hwf : ∀ m ∈ ms, m.WF ok)
    (m' : Msg) (hm' : m'.WF ok) (k : Nat) (hk : k < (encode m').length)
    (cs : List Bytes) (hcs : cs.flatten = encodeAll ms ++ (encode m').take k) :
    (feed srvSize ok [] cs).frames.map msgOf = ms ∧
    (feed srvSize ok [] cs).rest = (encode m').take k ∧
    (feed srvSize ok [] cs).err = false := by
  have hgood : ∀ f ∈ ms.map encode, Good srvSize ok f := by
    intro f hf
    obtain ⟨m, hm, rfl⟩ := List.mem_map.mp hf
    exact good_encode (hwf m hm)
  have htail : Settled srvSize ok ((encode m').take k) :=
    parse_prefix_incomplete srvSize_stable (good_encode hm') _ ((encode m').drop k)
      (List.take_append_drop k _) (by simp only [List.length_take]; omega)
  have h := feed_goods srvSize_stable (ms.map encode) hgood _ htail srv_settled_nil cs hcs
  rw [h]
  refine ⟨?_, rfl, rfl⟩
  simp only [List.map_map]
  conv => rhs; rw [← List.map_id ms]
  apply List.map_congr_left
  intro m hm
  exact msgOf_encode m (hwf m hm).id_lt

/-- the same with nothing unfinished: a stream of whole messages, cut anywhere -/
theorem server_framing_complete (ok : Bytes → Bool) (ms : List Msg) (hwf : ∀ m ∈ ms, m.WF ok)
    (cs : List Bytes) (hcs : cs.flatten = encodeAll ms) :
    (feed srvSize ok [] cs).frames.map msgOf = ms ∧
    (feed srvSize ok [] cs).rest = [] ∧ (feed srvSize ok [] cs).err = false := by
  have hgood : ∀ f ∈ ms.map encode, Good srvSize ok f := by
    intro f hf
    obtain ⟨m, hm, rfl⟩ := List.mem_map.mp hf
    exact good_encode (hwf m hm)
  have h := feed_goods srvSize_stable (ms.map encode) hgood [] srv_settled_nil srv_settled_nil cs
    (by rw [hcs, List.append_nil]; rfl)
  rw [h]
  refine ⟨?_, rfl, rfl⟩
  simp only [List.map_map]
  conv => rhs; rw [← List.map_id ms]
  apply List.map_congr_left
  intro m hm
  exact msgOf_encode m (hwf m hm).id_lt

/-- F5: the code before the fix parses one message per read — two messages arriving in one read
leave the second unhandled.  (Full statement, false of `Old`: for all `ms`, `cs` as above the
ids handed to the handler are `ms.map id`.) -/
theorem server_framing_counterexample :
    ¬ ∀ (ms : List Msg) (cs : List Bytes),
        (∀ m ∈ ms, m.id < 4294967296 ∧ hdrLen + m.payload.length < 4294967296) →
        cs.flatten = encodeAll ms → Old.feedIds [] cs = ms.map (·.id) := by
  intro h
  have := h [⟨1, [3, 0, 0, 0, 0]⟩, ⟨2, [3, 0, 0, 0, 0]⟩]
    [encodeAll [⟨1, [3, 0, 0, 0, 0]⟩, ⟨2, [3, 0, 0, 0, 0]⟩]]
    (by intro m hm; simp only [List.mem_cons, List.mem_nil_iff, or_false] at hm
        rcases hm with rfl | rfl <;> decide)
    (by simp)
  revert this
  decide

/-! ## T10.2 / T10.3  replies: one Done per message, on the connection it arrived on -/

/-- For every sequence of events on a node (connections opening at any time, reads of any size on
any connection in any interleaving, suspended handlers finishing in any order), for every
connection `c` and id `i`:  (Done replies with id `i` written to `c`) + (handlers for a message
`i` of `c` still suspended) = (messages with id `i` handled for `c`).  Hence once its handler has
finished every handled message has exactly one Done carrying its id on its own connection. -/
theorem one_done_per_message (ok async : Bytes → Bool) (evs : List Ev) (c i : Nat) :
    (run ok async {} evs).written.countP (fun w => w.1 == c && w.2.2 == i) +
    (run ok async {} evs).pending.countP (fun p => p.1 == c && (msgOf p.2).id == i) =
    (run ok async {} evs).handled.countP (fun p => p.1 == c && (msgOf p.2).id == i) :=
  run_balanced async evs {} (by intro c i; rfl) c i

/-- Every Done is written to the connection its message arrived on — any number of connections. -/
theorem reply_on_arrival_connection (ok async : Bytes → Bool) (evs : List Ev) :
    ∀ w ∈ (run ok async {} evs).written, w.1 = w.2.1 :=
  run_routed async evs {} (by intro w hw; cases hw)

/-- F6: before the fix replies went to the last connected protocol: two hosts connect, the first
sends one message, its Done is written to the second. -/
theorem reply_on_arrival_connection_counterexample :
    ¬ ∀ evs : List Ev, ∀ w ∈ (Old.run {} evs).written, w.1 = w.2.1 := by
  intro h
  have := h [.connect, .connect, .data 0 (encode ⟨7, [3, 0, 0, 0, 0]⟩)]
  revert this
  decide

/-- Several connections do not disturb each other's framing: take any history `pre`, open a new
connection, and let anything happen afterwards (`post`: other connections' reads, this
connection's reads cut and interleaved arbitrarily, completions).  If the bytes delivered on the
new connection are the encoding of `ms`, then exactly `ms` was handled for it, in order. -/
theorem connection_framing (ok async : Bytes → Bool) (pre post : List Ev) (ms : List Msg)
    (hwf : ∀ m ∈ ms, m.WF ok)
    (hdata : (dataFor (run ok async {} pre).bufs.length post).flatten = encodeAll ms) :
    ((run ok async {} (pre ++ .connect :: post)).handledOn (run ok async {} pre).bufs.length).map msgOf
      = ms := by
  have hin : InRange (run ok async {} pre) := run_inRange async pre {} (by intro p hp; cases hp)
  obtain ⟨hb, hh⟩ := fresh_connection (ok := ok) async _ hin
  have hrun : run ok async {} (pre ++ .connect :: post) =
      run ok async (step ok async (run ok async {} pre) .connect) post := by
    rw [run_append]; rfl
  obtain ⟨h1, _⟩ := run_projection (ok := ok) async post _ _ [] hb
  rw [hrun, h1, hh, List.nil_append]
  exact (server_framing_complete ok ms hwf _ hdata).1

/-- With handlers that never suspend, the Done ids on each connection are the ids of its handled
messages in arrival order (with `connection_framing`: the ids of the messages sent on it). -/
theorem dones_in_arrival_order (ok : Bytes → Bool) (evs : List Ev) (c : Nat) :
    (run ok (fun _ => false) {} evs).donesOn c =
      ((run ok (fun _ => false) {} evs).handledOn c).map (fun f => (msgOf f).id) := by
  obtain ⟨_, h⟩ := run_sync (ok := ok) evs {} ⟨rfl, rfl⟩
  simp [Node.donesOn, Node.handledOn, h, List.filter_map, Function.comp_def]

/-! ## T10.4  host side: replies are reassembled from any chunking -/

/-- One call of `_handle_reply`.  Let the unread reply stream (library buffer + bytes still on the
socket) start with return messages `pre` (returned registers/arrays) followed by a Done or Error
message `d`.  Whatever non-empty prefixes the successive `recv(1024)` calls return (`ch`), the call
processes exactly `pre ++ [d]`, in order, and leaves exactly the rest of the stream — so the next
call starts in the same situation and the n-th call returns the n-th Done. -/
theorem client_reassembly (z : RetSizes) (hz : z.WF) (pre : List Bytes) (d rest buf wire : Bytes)
    (ch : List Nat)
    (hpre : ∀ f ∈ pre, retSize z f = some f.length ∧ isDone f = false ∧ isErr f = false)
    (hd : retSize z d = some d.length) (hstop : isDone d = true ∨ isErr d = true)
    (h : buf ++ wire = (pre ++ [d]).flatten ++ rest) :
    ∃ b w c, handleReply z buf wire ch = .ok (pre ++ [d]) b w c ∧ b ++ w = rest := by
  apply pullUntil_spec (retSize_stable hz) (by decide) _ pre _ ⟨hd, retSize_pos hd, rfl⟩ _ rest buf wire ch h
  · intro f hf
    obtain ⟨h1, h2, h3⟩ := hpre f hf
    exact ⟨⟨h1, retSize_pos h1, rfl⟩, by simp [h2, h3]⟩
  · rcases hstop with h | h <;> simp [h]

/-- the return messages of one host message: returned values, then the Done / Error ending the call -/
def IsGroup (z : RetSizes) (g : List Bytes) : Prop :=
  ∃ pre d, g = pre ++ [d] ∧
    (∀ f ∈ pre, retSize z f = some f.length ∧ isDone f = false ∧ isErr f = false) ∧
    retSize z d = some d.length ∧ (isDone d = true ∨ isErr d = true)

/-- A whole conversation: the node's replies to `groups.length` host messages, delivered in any
chunking; the k-th wait processes exactly the k-th group. -/
theorem client_session (z : RetSizes) (hz : z.WF) (groups : List (List Bytes))
    (hg : ∀ g ∈ groups, IsGroup z g) (rest buf wire : Bytes) (ch : List Nat)
    (h : buf ++ wire = groups.flatten.flatten ++ rest) :
    (session z groups.length buf wire ch).map PullRes.okFrames = groups.map some := by
  induction groups generalizing buf wire ch with
  | nil => rfl
  | cons g groups ih =>
    obtain ⟨pre, d, hgeq, hpre, hd, hstop⟩ := hg g (by simp)
    subst hgeq
    simp only [List.flatten_cons, List.flatten_append, List.append_assoc] at h
    obtain ⟨b, w, c, hr, hbw⟩ := client_reassembly z hz pre d _ buf wire ch hpre hd hstop
      (by simpa [List.append_assoc] using h)
    simp only [List.length_cons, session, hr, List.map_cons, PullRes.okFrames]
    rw [ih (fun g' hg' => hg g' (by simp [hg'])) b w c hbw]

/-! ## T10.5  application sockets: one message per receive, intact, in order -/

/-- Refinement to a FIFO queue of whole messages: for every sequence of sends (plain or structured —
the model sees the serialised bytes — of any length below 4 GiB) and receives in any
interleaving, with any read size >= 1 and any adversarial choice of how much each `recv` returns,
the receives return what a queue would: the next unreceived message, or wait if there is none. -/
theorem socket_stream (ops : List SockOp) (hops : ∀ op ∈ ops, op.Adm) (choices : List Nat) :
    sockRun ⟨[], [], choices⟩ ops = queueRun [] ops :=
  sockRun_refines ops hops _ [] (by simp) rfl

/-- messages sent / number of receives / "a receive is only issued for a message already sent" -/
def sent : List SockOp → List Bytes
  | [] => []
  | .send m :: ops => m :: sent ops
  | .recv _ :: ops => sent ops

def nrecv : List SockOp → Nat
  | [] => 0
  | .send _ :: ops => nrecv ops
  | .recv _ :: ops => nrecv ops + 1

def neverEarly : Nat → List SockOp → Bool
  | _, [] => true
  | n, .send _ :: ops => neverEarly (n + 1) ops
  | 0, .recv _ :: _ => false
  | n + 1, .recv _ :: ops => neverEarly n ops

/-- what the queue means: the i-th receive returns the i-th message sent -/
theorem queue_fifo (ops : List SockOp) (q : List Bytes) (h : neverEarly q.length ops = true) :
    queueRun q ops = ((q ++ sent ops).take (nrecv ops)).map .msg := by
  induction ops generalizing q with
  | nil => simp [queueRun, nrecv]
  | cons op ops ih =>
    cases op with
    | send m =>
      simp only [queueRun, sent, nrecv]
      rw [ih (q ++ [m]) (by simpa [neverEarly] using h)]
      simp
    | recv k =>
      cases q with
      | nil => simp [neverEarly] at h
      | cons m q' =>
        simp only [queueRun, sent, nrecv]
        rw [ih q' (by simpa [neverEarly] using h)]
        simp

/-- T10.5 in the words of the property: the i-th receive returns the i-th message, intact. -/
theorem socket_stream_fifo (ops : List SockOp) (hops : ∀ op ∈ ops, op.Adm) (choices : List Nat)
    (h : neverEarly 0 ops = true) :
    sockRun ⟨[], [], choices⟩ ops = ((sent ops).take (nrecv ops)).map .msg := by
  rw [socket_stream ops hops choices, queue_fifo ops [] h]; simp

/-- F7 (a): before the fix two sends followed by one receive arrive as ONE message. -/
theorem socket_stream_counterexample_merged :
    ¬ ∀ (ops : List SockOp) (choices : List Nat), (∀ op ∈ ops, op.Adm) →
        Old.sockRun ⟨[], [], choices⟩ ops = queueRun [] ops := by
  intro h
  have := h [.send [104], .send [105], .recv 1024, .recv 1024] []
    (by intro op hop; simp only [List.mem_cons, List.mem_nil_iff, or_false] at hop
        rcases hop with rfl | rfl | rfl | rfl <;> simp [SockOp.Adm])
  revert this
  decide

/-- F7 (b): before the fix a 1500-byte message is cut at `maxsize = 1024`. -/
theorem socket_stream_counterexample_truncated :
    ¬ ∀ (ops : List SockOp) (choices : List Nat), (∀ op ∈ ops, op.Adm) →
        Old.sockRun ⟨[], [], choices⟩ ops = queueRun [] ops := by
  intro h
  have := h [.send (List.replicate 1500 7), .recv 1024] []
    (by intro op hop; simp only [List.mem_cons, List.mem_nil_iff, or_false] at hop
        rcases hop with rfl | rfl
        · show (List.replicate 1500 7).length < 4294967296
          rw [List.length_replicate]; omega
        · show (1024 : Nat) ≠ 0
          decide)
  revert this
  decide +kernel

/-! ## non-vacuity: concrete instances satisfy the hypotheses -/

/-- netqasm 2.3.0 on x86-64: Done 8 bytes (id at 4), Error 2, ReturnReg 8, array header 1+8
(length at 5), 8 bytes per entry -/
def z0 : RetSizes := ⟨8, 2, 8, 9, 5, 8, 4⟩

example : z0.WF := ⟨by decide, by decide, by decide, by decide, by decide⟩

/-- InitNewApp(app 0, 5 qubits) with id 1, StopApp with id 2; accepted by the size table of netqasm -/
example : (⟨1, [0, 0, 0, 0, 0, 0, 0, 0, 5, 0, 0, 0]⟩ : Msg).WF (deserOk [12, 24, 1, 8, 2]) ∧
    (⟨2, [3, 0, 0, 0, 0, 0, 0, 0]⟩ : Msg).WF (deserOk [12, 24, 1, 8, 2]) :=
  ⟨⟨by decide, by decide, by decide⟩, ⟨by decide, by decide, by decide⟩⟩

/-- a cutting in the middle of both messages satisfies the hypothesis of `server_framing_complete` -/
example :
    ([[1, 0, 0], [0, 20, 0, 0, 0, 0, 0, 0, 0, 0, 0, 0, 0, 5, 0, 0, 0, 2, 0, 0, 0, 16, 0],
      [0, 0, 3, 0, 0, 0, 0, 0, 0, 0]] : List Bytes).flatten =
    encodeAll [⟨1, [0, 0, 0, 0, 0, 0, 0, 0, 5, 0, 0, 0]⟩, ⟨2, [3, 0, 0, 0, 0, 0, 0, 0]⟩] := by decide

/-- a ReturnReg then a Done with id 7 form a group; an array of 2 entries has size 9 + 16 -/
example : IsGroup z0 [[3, 0, 0, 0, 5, 0, 0, 0], [0, 0, 0, 0, 7, 0, 0, 0]] :=
  ⟨[[3, 0, 0, 0, 5, 0, 0, 0]], [0, 0, 0, 0, 7, 0, 0, 0], rfl,
   by intro f hf; simp only [List.mem_singleton] at hf; subst hf; decide, by decide, by decide⟩

example : retSize z0 ([2, 3, 0, 0, 0, 2, 0, 0, 0] ++ List.replicate 16 1) = some 25 := by decide

example : ∀ op ∈ [SockOp.send [104, 105], .send [1], .recv 1024, .recv 1], op.Adm := by
  intro op hop
  simp only [List.mem_cons, List.mem_nil_iff, or_false] at hop
  rcases hop with rfl | rfl | rfl | rfl <;> simp [SockOp.Adm]

example : neverEarly 0 [SockOp.send [104, 105], .send [1], .recv 1024, .recv 1] = true := by decide

end SqVerif.C10

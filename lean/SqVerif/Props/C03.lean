import SqVerif.Props.C03Skel
/-
C03 — Concurrent operations are serializable.  The property theorems live in
`Props/C03Skel.lean`: the generic two-phase-locking serializability theorem
(`twoPL_serializable`, `sorted_is_serial`, `results_agree`) and the `decide`d
obligations over the lock/effect skeletons regenerated from virtual.py on every
run (`ops_well_formed`, plus the negative facts that delimit the excluded
class: `lock_timeout_breaks_two_phase`, `update_virtual_merge_unguarded`,
`measure_virtlist_unguarded`, `active_pretests_unlocked`).
-/

import SqVerif.VNetWFNew
/-
L2 — `remote_send_qubit` / `remote_add_qubit` preserve well-formedness (C02).
-/
namespace SqVerif.VNet.WFP
open List

/-- the state after a successful `remote_send_qubit` of handle `h` (record `vq`) to node `b` (record `nb`) -/
def sendNet (s : Net) (h b : Nat) (vq : VQ) (nb : Node) : Net :=
  let nv : VQ := { virtNode := b, num := firstFree (virtNums s nb), simNode := vq.simNode,
                   simObj := vq.simObj, active := true }
  let f : Node → Node := fun n => { n with virt := n.virt ++ [s.vqs.length] }
  let g : Node → Node := fun n => { n with virt := n.virt.erase h }
  let d : VQ → VQ := fun v => { v with active := false }
  { nodes := (s.nodes.modify b f).modify vq.virtNode g, sqs := s.sqs, vqs := (s.vqs ++ [nv]).modify h d,
    nextTok := s.nextTok }

theorem stepSend_cases {s : Net} {h b : Nat} {vq : VQ} (hv : s.vqs[h]? = some vq) (hact : vq.active = true)
    {nb : Node} (hb : s.nodes[b]? = some nb) (hne : b ≠ vq.virtNode) :
    (nb.virt.length < nb.maxQubits ∧
      stepSend s h b = (sendNet s h b vq nb, .num (firstFree (virtNums s nb)), [])) ∨
    (nb.maxQubits ≤ nb.virt.length ∧ stepSend s h b = (s, .err .noQubit, [])) := by
  have hlt := lt_length_of_getElem? hb
  unfold stepSend addQubitAt
  simp only [hv, hact, hb, Bool.not_true, Bool.false_eq_true, if_false, ge_iff_le, Nat.not_le.2 hlt]
  have : ¬ (b == vq.virtNode) = true := by simpa using hne
  simp only [this, if_false, Bool.false_eq_true]
  rcases Nat.lt_or_ge nb.virt.length nb.maxQubits with h1 | h1
  · left
    refine ⟨h1, ?_⟩
    simp only [Nat.not_le.2 h1, if_false]
    rfl
  · right
    refine ⟨h1, ?_⟩
    simp only [h1, if_true]

theorem stepSend_other {s : Net} {h b : Nat} :
    (s.vqs[h]? = none → stepSend s h b = (s, .badCall, [])) ∧
    (∀ vq, s.vqs[h]? = some vq → vq.active = false → stepSend s h b = (s, .none, [])) ∧
    (∀ vq, s.vqs[h]? = some vq → vq.active = true → s.nodes.length ≤ b → stepSend s h b = (s, .err .virtNet, [])) ∧
    (∀ vq, s.vqs[h]? = some vq → vq.active = true → b < s.nodes.length → b = vq.virtNode →
        stepSend s h b = (s, .selfSend, [])) := by
  refine ⟨?_, ?_, ?_, ?_⟩
  · intro e; unfold stepSend; simp [e]
  · intro vq e ha; unfold stepSend; simp [e, ha]
  · intro vq e ha hb; unfold stepSend; simp [e, ha, hb]
  · intro vq e ha hb hbe; unfold stepSend; subst hbe; simp [e, ha, Nat.not_le.2 hb]

section
variable {s : Net} {h b : Nat} {vq : VQ} {na nb : Node}

/-- hypotheses of a successful send -/
structure SendCtx (s : Net) (h b : Nat) (vq : VQ) (na nb : Node) : Prop where
  w : WFp none s
  hv : s.vqs[h]? = some vq
  hact : vq.active = true
  ha : s.nodes[vq.virtNode]? = some na
  hh : h ∈ na.virt
  hb : s.nodes[b]? = some nb
  hne : b ≠ vq.virtNode
  hcap : nb.virt.length < nb.maxQubits

namespace SendCtx

def nv (s : Net) (b : Nat) (vq : VQ) (nb : Node) : VQ :=
  { virtNode := b, num := firstFree (virtNums s nb), simNode := vq.simNode, simObj := vq.simObj, active := true }

theorem nodes' (c : SendCtx s h b vq na nb) (i : Nat) : (sendNet s h b vq nb).nodes[i]? =
    if i = vq.virtNode then some { na with virt := na.virt.erase h }
    else if i = b then some { nb with virt := nb.virt ++ [s.vqs.length] }
    else s.nodes[i]? := by
  simp only [sendNet]
  have h1 : (s.nodes.modify b fun n => { n with virt := n.virt ++ [s.vqs.length] })[vq.virtNode]? = some na := by
    rw [getElem?_modify' _ c.hb, if_neg (Ne.symm c.hne)]; exact c.ha
  rw [getElem?_modify' _ h1, getElem?_modify' _ c.hb]

theorem hlt (c : SendCtx s h b vq na nb) : h < s.vqs.length := lt_length_of_getElem? c.hv

theorem vqs_h (c : SendCtx s h b vq na nb) : (sendNet s h b vq nb).vqs[h]? = some { vq with active := false } := by
  simp only [sendNet]
  rw [getElem?_modify' (a := vq)]
  · simp
  · rw [getElem?_append_left c.hlt]; exact c.hv

theorem vqs_new (c : SendCtx s h b vq na nb) : (sendNet s h b vq nb).vqs[s.vqs.length]? = some (nv s b vq nb) := by
  simp only [sendNet]
  rw [getElem?_modify' (a := vq)]
  · have := c.hlt
    rw [if_neg (by omega)]
    exact getElem?_concat_length
  · rw [getElem?_append_left c.hlt]; exact c.hv

theorem vqs_old (c : SendCtx s h b vq na nb) {x : Nat} (hx : x < s.vqs.length) (hne : x ≠ h) :
    (sendNet s h b vq nb).vqs[x]? = s.vqs[x]? := by
  simp only [sendNet]
  rw [getElem?_modify' (a := vq)]
  · rw [if_neg hne, getElem?_append_left hx]
  · rw [getElem?_append_left c.hlt]; exact c.hv

theorem vqs_len (_c : SendCtx s h b vq na nb) : (sendNet s h b vq nb).vqs.length = s.vqs.length + 1 := by
  simp [sendNet]

theorem sim_same (c : SendCtx s h b vq na nb) (i : Nat) :
    ((sendNet s h b vq nb).nodes[i]?).map (·.sim) = (s.nodes[i]?).map (·.sim) := by
  rw [c.nodes']
  by_cases h1 : i = vq.virtNode
  · subst h1; simp [c.ha]
  · by_cases h2 : i = b
    · subst h2; simp [h1, c.hb]
    · simp [h1, h2]

theorem mem_held' (c : SendCtx s h b vq na nb) {x : Nat} :
    x ∈ allHeld (sendNet s h b vq nb) ↔ (x ∈ allHeld s ∧ x ≠ h) ∨ x = s.vqs.length := by
  have wa := c.w.nodes _ _ c.ha
  simp only [mem_allHeld, c.nodes']
  constructor
  · rintro ⟨i, m, e, hm⟩
    by_cases h1 : i = vq.virtNode
    · rw [if_pos h1] at e; cases e
      have := (wa.virtNodup.mem_erase_iff).1 hm
      exact Or.inl ⟨⟨_, na, c.ha, this.2⟩, this.1⟩
    · rw [if_neg h1] at e
      by_cases h2 : i = b
      · rw [if_pos h2] at e; cases e
        rcases mem_append.1 hm with hm | hm
        · refine Or.inl ⟨⟨b, nb, c.hb, hm⟩, ?_⟩
          intro hx; subst hx
          exact c.hne (c.w.held_unique c.hb c.ha hm c.hh)
        · exact Or.inr (by simpa using hm)
      · rw [if_neg h2] at e
        refine Or.inl ⟨⟨i, m, e, hm⟩, ?_⟩
        intro hx; subst hx
        exact h1 (c.w.held_unique e c.ha hm c.hh)
  · rintro (⟨⟨i, m, e, hm⟩, hx⟩ | rfl)
    · by_cases h1 : i = vq.virtNode
      · subst h1; rw [c.ha] at e; cases e
        exact ⟨_, _, by rw [if_pos rfl], (wa.virtNodup.mem_erase_iff).2 ⟨hx, hm⟩⟩
      · by_cases h2 : i = b
        · subst h2; rw [c.hb] at e; cases e
          exact ⟨_, _, by rw [if_neg h1, if_pos rfl], mem_append_left _ hm⟩
        · exact ⟨i, m, by rw [if_neg h1, if_neg h2]; exact e, hm⟩
    · exact ⟨b, _, by rw [if_neg c.hne, if_pos rfl], by simp⟩

theorem simObj_live (c : SendCtx s h b vq na nb) :
    ∃ m, (sendNet s h b vq nb).nodes[vq.simNode]? = some m ∧ vq.simObj ∈ m.sim := by
  obtain ⟨vq', f1, _, _, m, f4, f5⟩ := (c.w.nodes _ _ c.ha).virtOK h c.hh
  rw [c.hv] at f1; cases f1
  have := c.sim_same vq.simNode
  rw [f4] at this
  cases e : (sendNet s h b vq nb).nodes[vq.simNode]? with
  | none => rw [e] at this; cases this
  | some m' =>
    rw [e] at this; simp at this
    exact ⟨m', rfl, this ▸ f5⟩

theorem live_mono (c : SendCtx s h b vq na nb) {j o : Nat} {m : Node} (e : s.nodes[j]? = some m) (ho : o ∈ m.sim) :
    ∃ m', (sendNet s h b vq nb).nodes[j]? = some m' ∧ o ∈ m'.sim := by
  have := c.sim_same j
  rw [e] at this
  cases e' : (sendNet s h b vq nb).nodes[j]? with
  | none => rw [e'] at this; cases this
  | some m' =>
    rw [e'] at this; simp at this
    exact ⟨m', rfl, this ▸ ho⟩

theorem virtP_a (c : SendCtx s h b vq na nb) :
    VirtP (sendNet s h b vq nb) vq.virtNode { na with virt := na.virt.erase h } := by
  have wa := (c.w.nodes _ _ c.ha).virtP
  have hmem : ∀ x, x ∈ na.virt.erase h → x ∈ na.virt ∧ x ≠ h ∧ x < s.vqs.length := by
    intro x hx
    have := (wa.virtNodup.mem_erase_iff).1 hx
    exact ⟨this.2, this.1, (c.w.nodes _ _ c.ha).virt_lt this.2⟩
  refine { virtNodup := wa.virtNodup.erase h, virtNumsInj := ?_, cap := ?_, virtOK := ?_ }
  · intro x x' v v' hx hx' e e'
    obtain ⟨g1, g2, g3⟩ := hmem x hx
    obtain ⟨g1', g2', g3'⟩ := hmem x' hx'
    rw [c.vqs_old g3 g2] at e; rw [c.vqs_old g3' g2'] at e'
    exact wa.virtNumsInj x x' v v' g1 g1' e e'
  · have : (na.virt.erase h).length ≤ na.virt.length := length_erase_le
    exact Nat.le_trans this wa.cap
  · intro x hx
    obtain ⟨g1, g2, g3⟩ := hmem x hx
    obtain ⟨v, e1, e2, e3, m, e4, e5⟩ := wa.virtOK x g1
    exact ⟨v, (c.vqs_old g3 g2).trans e1, e2, e3, c.live_mono e4 e5⟩

theorem mem_virtNums {s : Net} {nd : Node} {x : Nat} :
    x ∈ virtNums s nd ↔ ∃ h v, h ∈ nd.virt ∧ s.vqs[h]? = some v ∧ v.num = x := by
  unfold virtNums
  simp only [mem_filterMap, Option.map_eq_some_iff]
  constructor
  · rintro ⟨o, ho, q, e, rfl⟩; exact ⟨o, q, ho, e, rfl⟩
  · rintro ⟨o, q, ho, e, rfl⟩; exact ⟨o, ho, q, e, rfl⟩

theorem virtP_b (c : SendCtx s h b vq na nb) :
    VirtP (sendNet s h b vq nb) b { nb with virt := nb.virt ++ [s.vqs.length] } := by
  have wb := (c.w.nodes _ _ c.hb).virtP
  have hmem : ∀ x, x ∈ nb.virt → x ≠ h ∧ x < s.vqs.length := by
    intro x hx
    refine ⟨?_, (c.w.nodes _ _ c.hb).virt_lt hx⟩
    intro e; subst e
    exact c.hne (c.w.held_unique c.hb c.ha hx c.hh)
  have hff := firstFree_not_mem (virtNums s nb)
  refine { virtNodup := ?_, virtNumsInj := ?_, cap := ?_, virtOK := ?_ }
  · simp only [nodup_append]
    refine ⟨wb.virtNodup, by simp, ?_⟩
    intro x hx y hy e
    simp only [mem_singleton] at hy
    have := (hmem x hx).2; omega
  · intro x x' v v' hx hx' e e' en
    simp only [mem_append, mem_singleton] at hx hx'
    rcases hx with hx | rfl <;> rcases hx' with hx' | rfl
    · rw [c.vqs_old (hmem x hx).2 (hmem x hx).1] at e
      rw [c.vqs_old (hmem x' hx').2 (hmem x' hx').1] at e'
      exact wb.virtNumsInj x x' v v' hx hx' e e' en
    · rw [c.vqs_old (hmem x hx).2 (hmem x hx).1] at e
      rw [c.vqs_new] at e'; cases e'
      exact absurd (mem_virtNums.2 ⟨x, v, hx, e, en⟩) hff
    · rw [c.vqs_old (hmem x' hx').2 (hmem x' hx').1] at e'
      rw [c.vqs_new] at e; cases e
      exact absurd (mem_virtNums.2 ⟨x', v', hx', e', en.symm⟩) hff
    · rfl
  · simp only [length_append, length_cons, length_nil]
    have := c.hcap; omega
  · intro x hx
    simp only [mem_append, mem_singleton] at hx
    rcases hx with hx | rfl
    · obtain ⟨v, e1, e2, e3, m, e4, e5⟩ := wb.virtOK x hx
      exact ⟨v, (c.vqs_old (hmem x hx).2 (hmem x hx).1).trans e1, e2, e3, c.live_mono e4 e5⟩
    · exact ⟨_, c.vqs_new, rfl, rfl, c.simObj_live⟩

theorem toks_perm (c : SendCtx s h b vq na nb) : (allToks (sendNet s h b vq nb)).Perm (allToks s) := by
  simp only [allToks_eq, sendNet]
  have h1 : (s.nodes.modify b fun n => { n with virt := n.virt ++ [s.vqs.length] })[vq.virtNode]? = some na := by
    rw [getElem?_modify' _ c.hb, if_neg (Ne.symm c.hne)]; exact c.ha
  have p1 := @perm_flatMap_modify _ _ nodeToks na (fun n => { n with virt := n.virt.erase h }) [] [] _ _ h1
    (Perm.refl _)
  have p2 := @perm_flatMap_modify _ _ nodeToks nb (fun n => { n with virt := n.virt ++ [s.vqs.length] }) [] [] _ _ c.hb
    (Perm.refl _)
  simp only [append_nil] at p1 p2
  exact p1.trans p2

theorem wfp' (c : SendCtx s h b vq na nb) : WFp none (sendNet s h b vq nb) := by
  have hsq : (sendNet s h b vq nb).sqs = s.sqs := rfl
  have hheldh : h ∈ allHeld s := mem_allHeld.2 ⟨_, na, c.ha, c.hh⟩
  refine { nodes := ?_, backInj := ?_, backSurj := ?_, staleInactive := ?_,
           toksNodup := c.toks_perm.nodup_iff.2 c.w.toksNodup,
           toksFresh := fun t ht => c.w.toksFresh t (c.toks_perm.mem_iff.1 ht) }
  · intro i m e
    rw [c.nodes'] at e
    by_cases h1 : i = vq.virtNode
    · rw [if_pos h1] at e; cases e; subst h1
      have sp : SimP none (sendNet s h b vq nb) vq.virtNode na :=
        (c.w.nodes _ _ c.ha).simP.frame (s' := sendNet s h b vq nb) (fun _ _ => rfl)
      exact NodeP.ofParts c.virtP_a (sp.of_eq rfl rfl rfl rfl)
    · rw [if_neg h1] at e
      by_cases h2 : i = b
      · rw [if_pos h2] at e; cases e; subst h2
        have sp : SimP none (sendNet s h i vq nb) i nb :=
          (c.w.nodes _ _ c.hb).simP.frame (s' := sendNet s h i vq nb) (fun _ _ => rfl)
        exact NodeP.ofParts c.virtP_b (sp.of_eq rfl rfl rfl rfl)
      · rw [if_neg h2] at e
        have wm := c.w.nodes i m e
        refine NodeP.ofParts (wm.virtP.frame ?_ ?_) (wm.simP.frame (fun _ _ => rfl))
        · intro x hx
          apply c.vqs_old (wm.virt_lt hx)
          intro ex; subst ex
          exact h1 (c.w.held_unique e c.ha hx c.hh)
        · intro x v m0 _ _ e2 e3
          exact c.live_mono e2 e3
  · intro x x' v v' hx hx' e e' eo
    rw [c.mem_held'] at hx hx'
    rcases hx with ⟨hx, hxn⟩ | rfl <;> rcases hx' with ⟨hx', hxn'⟩ | rfl
    · rw [c.vqs_old (c.w.held_lt hx) hxn] at e
      rw [c.vqs_old (c.w.held_lt hx') hxn'] at e'
      exact c.w.backInj x x' v v' hx hx' e e' eo
    · rw [c.vqs_old (c.w.held_lt hx) hxn] at e
      rw [c.vqs_new] at e'; cases e'
      exact absurd (c.w.backInj x h v vq hx hheldh e c.hv eo) hxn
    · rw [c.vqs_old (c.w.held_lt hx') hxn'] at e'
      rw [c.vqs_new] at e; cases e
      exact absurd (c.w.backInj x' h v' vq hx' hheldh e' c.hv eo.symm) hxn'
    · rfl
  · intro o ho
    rw [mem_allSim_congr c.sim_same] at ho
    obtain ⟨x, v, f1, f2, f3⟩ := c.w.backSurj o ho
    by_cases hx : x = h
    · subst hx
      rw [c.hv] at f2; cases f2
      exact ⟨_, _, c.mem_held'.2 (Or.inr rfl), c.vqs_new, f3⟩
    · exact ⟨x, v, c.mem_held'.2 (Or.inl ⟨f1, hx⟩), (c.vqs_old (c.w.held_lt f1) hx).trans f2, f3⟩
  · intro x v e hx
    rw [c.mem_held'] at hx
    have hl := lt_length_of_getElem? e
    rw [c.vqs_len] at hl
    by_cases h1 : x = h
    · subst h1; rw [c.vqs_h] at e; cases e; rfl
    · have h2 : x ≠ s.vqs.length := fun e => hx (Or.inr e)
      have hl' : x < s.vqs.length := by omega
      rw [c.vqs_old hl' h1] at e
      exact c.w.staleInactive x v e (fun hc => hx (Or.inl ⟨hc, h1⟩))

end SendCtx
end

theorem wfp_stepSend {s : Net} (w : WFp none s) (h b : Nat) : WFp none (stepSend s h b).1 := by
  obtain ⟨o1, o2, o3, o4⟩ := @stepSend_other s h b
  cases hv : s.vqs[h]? with
  | none => rw [o1 hv]; exact w
  | some vq =>
    cases hact : vq.active with
    | false => rw [o2 vq hv hact]; exact w
    | true =>
      rcases Nat.lt_or_ge b s.nodes.length with hb | hb
      · by_cases hne : b = vq.virtNode
        · rw [o4 vq hv hact hb hne]; exact w
        · have hnb : s.nodes[b]? = some s.nodes[b] := getElem?_eq_getElem hb
          rcases stepSend_cases hv hact hnb hne with ⟨hcap, e⟩ | ⟨_, e⟩
          · rw [e]
            obtain ⟨na, ha, hh⟩ := w.active_held hv hact
            exact SendCtx.wfp' { w := w, hv := hv, hact := hact, ha := ha, hh := hh, hb := hnb, hne := hne, hcap := hcap }
          · rw [e]; exact w
      · rw [o3 vq hv hact hb]; exact w

end SqVerif.VNet.WFP

import SqVerif.Stab
import SqVerif.StabApi
import SqVerif.Gen.StabGates
/-
C13, Tie B — the hand-written model `Stab.lean` of the stabilizer gate code is EQUAL to
what `harness/gen/stabgates.py` reads off the current source of
`simulaqron/toolbox/stabilizer_states.py` (Gen/StabGates.lean, regenerated on every run).

* `gen_applyX_eq … gen_applyCZ_eq`, `gen_sqrt_gates_eq`: the regenerated one-row functions are the
  model's `Gate1.row` / `Gate2.row` on a one- resp. two-letter row (all 2^3 resp. 2^5 inputs);
* `row_local1`, `row_local2`: the model's row functions touch letter j (letters c, t) and the sign
  only, and compute them from those letters and the sign exactly as on the short row; hence
  `gen_gate1_row`, `gen_gate2_row`, `gen_applyGate1`, `gen_applyGate2`: the regenerated functions
  determine the model on every row of every width and on every state;
* `gen_guards1_eq`, `gen_guards2_eq`, `gen_guards_names`, `gen_guards_exc`, `gen_guards_model1/2`:
  the `if …: raise` prefixes are exactly "position in range" / "both in range and control ≠ target",
  all ValueError, as `applyGate1` / `applyGate2` model them;
* `gen_isI_eq`, `gen_isMinusI_eq`, `gen_hasMinusPhase_eq`, `gen_mulSign_eq`, `gen_mulBit_eq`,
  `gen_mulRow_eq`: the row product;
* `no_unrecognised`: the translator understood every statement of every method.

A source change that alters the row-wise meaning of a gate, a guard, or the sign rule of the
row product makes one of these fail at build time, whether or not a test input reaches it.
-/
namespace SqVerif.C13
open SqVerif.Stab SqVerif.StabGen SqVerif.Gen

/-! ### vocabulary -/

/-- the one-letter row a 1-qubit translation result denotes -/
def toRow1 : Bool × Bool × Bool → Row := fun o => ⟨[(o.1, o.2.1)], o.2.2⟩
/-- the two-letter row (control first) a 2-qubit translation result denotes -/
def toRow2 : (Bool × Bool) × (Bool × Bool) × Bool → Row := fun o => ⟨[o.1, o.2.1], o.2.2⟩

/-- the regenerated function of each gate of the model -/
def genFun1 : Gate1 → Bool → Bool → Bool → Tr (Bool × Bool × Bool)
  | .X => StabGates.applyX | .Y => StabGates.applyY | .Z => StabGates.applyZ
  | .H => StabGates.applyH | .K => StabGates.applyK | .S => StabGates.applyS
def genFun2 : Gate2 → Bool → Bool → Bool → Bool → Bool → Tr ((Bool × Bool) × (Bool × Bool) × Bool)
  | .CNOT => StabGates.applyCNOT | .CZ => StabGates.applyCZ
def genGuards1 : Gate1 → List Guard
  | .X => StabGates.applyXGuards | .Y => StabGates.applyYGuards | .Z => StabGates.applyZGuards
  | .H => StabGates.applyHGuards | .K => StabGates.applyKGuards | .S => StabGates.applySGuards
def genGuards2 : Gate2 → List Guard
  | .CNOT => StabGates.applyCNOTGuards | .CZ => StabGates.applyCZGuards

/-- letter and sign a 1-qubit gate of the model makes of letter `p` and sign `s` -/
def out1 (g : Gate1) (p : P1) (s : Bool) : P1 × Bool :=
  let r := g.row 0 ⟨[p], s⟩; (getP r.ps 0, r.neg)
/-- letters and sign a 2-qubit gate of the model makes of control letter, target letter, sign -/
def out2 (g : Gate2) (pc pt : P1) (s : Bool) : P1 × P1 × Bool :=
  let r := g.row 0 1 ⟨[pc, pt], s⟩; (getP r.ps 0, getP r.ps 1, r.neg)

/-! ### the regenerated gate functions are the model's -/

theorem gen_applyX_eq : ∀ x z s, (StabGates.applyX x z s).map toRow1 = .ok (Gate1.row .X 0 ⟨[(x, z)], s⟩) := by decide
theorem gen_applyY_eq : ∀ x z s, (StabGates.applyY x z s).map toRow1 = .ok (Gate1.row .Y 0 ⟨[(x, z)], s⟩) := by decide
theorem gen_applyZ_eq : ∀ x z s, (StabGates.applyZ x z s).map toRow1 = .ok (Gate1.row .Z 0 ⟨[(x, z)], s⟩) := by decide
theorem gen_applyH_eq : ∀ x z s, (StabGates.applyH x z s).map toRow1 = .ok (Gate1.row .H 0 ⟨[(x, z)], s⟩) := by decide
theorem gen_applyK_eq : ∀ x z s, (StabGates.applyK x z s).map toRow1 = .ok (Gate1.row .K 0 ⟨[(x, z)], s⟩) := by decide
theorem gen_applyS_eq : ∀ x z s, (StabGates.applyS x z s).map toRow1 = .ok (Gate1.row .S 0 ⟨[(x, z)], s⟩) := by decide
theorem gen_applyCNOT_eq : ∀ xc zc xt zt s,
    (StabGates.applyCNOT xc zc xt zt s).map toRow2 = .ok (Gate2.row .CNOT 0 1 ⟨[(xc, zc), (xt, zt)], s⟩) := by decide
theorem gen_applyCZ_eq : ∀ xc zc xt zt s,
    (StabGates.applyCZ xc zc xt zt s).map toRow2 = .ok (Gate2.row .CZ 0 1 ⟨[(xc, zc), (xt, zt)], s⟩) := by decide

example : (StabGates.applyCNOT true false true true false).map toRow2 = .ok ⟨[(true, true), (false, true)], false⟩ := by decide

theorem gen_apply1_eq (g : Gate1) (x z s : Bool) :
    (genFun1 g x z s).map toRow1 = .ok (g.row 0 ⟨[(x, z)], s⟩) := by
  cases g
  · exact gen_applyX_eq x z s
  · exact gen_applyY_eq x z s
  · exact gen_applyZ_eq x z s
  · exact gen_applyH_eq x z s
  · exact gen_applyK_eq x z s
  · exact gen_applyS_eq x z s

theorem gen_apply2_eq (g : Gate2) (xc zc xt zt s : Bool) :
    (genFun2 g xc zc xt zt s).map toRow2 = .ok (g.row 0 1 ⟨[(xc, zc), (xt, zt)], s⟩) := by
  cases g
  · exact gen_applyCNOT_eq xc zc xt zt s
  · exact gen_applyCZ_eq xc zc xt zt s

/-- `apply_sqrt_minIX` = `apply_K` then `apply_Z`, `apply_sqrt_IZ` = `apply_Z` then `apply_S`
(the order `StabApi.sqrtMinIX` / `sqrtIZ` use), as one-row functions -/
theorem gen_sqrt_gates_eq :
    (∀ x z s, (StabGates.applySqrtMinIX x z s).map toRow1 = .ok (rowZ 0 (rowK 0 ⟨[(x, z)], s⟩))) ∧
    (∀ x z s, (StabGates.applySqrtIZ x z s).map toRow1 = .ok (rowS 0 (rowZ 0 ⟨[(x, z)], s⟩))) ∧
    (∀ x z s, StabGates.applySqrtMinIX x z s =
      (StabGates.applyK x z s).bind fun o => StabGates.applyZ o.1 o.2.1 o.2.2) ∧
    (∀ x z s, StabGates.applySqrtIZ x z s =
      (StabGates.applyZ x z s).bind fun o => StabGates.applyS o.1 o.2.1 o.2.2) := by decide

/-! ### lifting: the model's row functions are local -/

theorem row_local1 (g : Gate1) (j : Nat) (r : Row) (hj : j < r.ps.length) :
    g.row j r = ⟨r.ps.set j (out1 g (getP r.ps j) r.neg).1, (out1 g (getP r.ps j) r.neg).2⟩ := by
  rcases r with ⟨ps, neg⟩
  simp only at hj
  cases g <;>
    simp [Gate1.row, rowX, rowY, rowZ, rowH, rowK, rowS, out1, getP, setP, Row.x, Row.z, hj]

example : out1 .H (true, false) true = ((false, true), true) := by decide

theorem row_local2 (g : Gate2) (c t : Nat) (r : Row) (hc : c < r.ps.length) (ht : t < r.ps.length) :
    g.row c t r = ⟨(r.ps.set t (out2 g (getP r.ps c) (getP r.ps t) r.neg).2.1).set c
                     (out2 g (getP r.ps c) (getP r.ps t) r.neg).1,
                   (out2 g (getP r.ps c) (getP r.ps t) r.neg).2.2⟩ := by
  rcases r with ⟨ps, neg⟩
  simp only at hc ht
  cases g <;>
    simp [Gate2.row, rowCNOT, rowCZ, out2, getP, setP, Row.x, Row.z, hc, ht]

example : out2 .CNOT (true, false) (false, false) false = ((true, false), (true, false), false) := by decide

/-- the row the regenerated function of `g` makes of `r` at position `j` -/
def genRow1 (g : Gate1) (j : Nat) (r : Row) : Tr Row :=
  (genFun1 g (r.x j) (r.z j) r.neg).map fun o => ⟨r.ps.set j (o.1, o.2.1), o.2.2⟩
def genRow2 (g : Gate2) (c t : Nat) (r : Row) : Tr Row :=
  (genFun2 g (r.x c) (r.z c) (r.x t) (r.z t) r.neg).map fun o => ⟨(r.ps.set t o.2.1).set c o.1, o.2.2⟩

/-- on every row of every width the regenerated function gives the model's row -/
theorem gen_gate1_row (g : Gate1) (j : Nat) (r : Row) (hj : j < r.ps.length) :
    genRow1 g j r = .ok (g.row j r) := by
  have h := gen_apply1_eq g (r.x j) (r.z j) r.neg
  rw [row_local1 g j r hj]
  unfold genRow1
  cases hf : genFun1 g (r.x j) (r.z j) r.neg with
  | unrecognised m => rw [hf] at h; simp [Tr.map] at h
  | ok o =>
    rw [hf] at h
    simp only [Tr.map, Tr.ok.injEq] at h ⊢
    have hp : getP r.ps j = (r.x j, r.z j) := rfl
    have e : out1 g (r.x j, r.z j) r.neg = ((o.1, o.2.1), o.2.2) := by unfold out1; rw [← h]; rfl
    rw [hp, e]

theorem gen_gate2_row (g : Gate2) (c t : Nat) (r : Row) (hc : c < r.ps.length) (ht : t < r.ps.length) :
    genRow2 g c t r = .ok (g.row c t r) := by
  have h := gen_apply2_eq g (r.x c) (r.z c) (r.x t) (r.z t) r.neg
  rw [row_local2 g c t r hc ht]
  unfold genRow2
  cases hf : genFun2 g (r.x c) (r.z c) (r.x t) (r.z t) r.neg with
  | unrecognised m => rw [hf] at h; simp [Tr.map] at h
  | ok o =>
    rw [hf] at h
    simp only [Tr.map, Tr.ok.injEq] at h ⊢
    have hpc : getP r.ps c = (r.x c, r.z c) := rfl
    have hpt : getP r.ps t = (r.x t, r.z t) := rfl
    have e : out2 g (r.x c, r.z c) (r.x t, r.z t) r.neg = (o.1, o.2.1, o.2.2) := by unfold out2; rw [← h]; rfl
    rw [hpc, hpt, e]

/-! ### the guards -/

theorem gen_guards_names :
    StabGates.gate1Guards.map (·.1) = ["apply_X", "apply_Y", "apply_Z", "apply_H", "apply_K", "apply_S",
                                       "apply_sqrt_minIX", "apply_sqrt_IZ"] ∧
    StabGates.gate2Guards.map (·.1) = ["apply_CNOT", "apply_CZ"] := by decide

/-- every guard raises ValueError (what `none` of `applyGate1` / `applyGate2` stands for) -/
theorem gen_guards_exc :
    ∀ e ∈ StabGates.gate1Guards ++ StabGates.gate2Guards, ∀ g ∈ e.2, g.exc = "ValueError" := by decide

/-- 1-qubit gate methods (the two composite ones included) raise exactly when the position is out of range -/
theorem gen_guards1_eq : ∀ e ∈ StabGates.gate1Guards, ∀ (j : Int) (n : Nat),
    raises e.2 [j] n = true ↔ ¬ (0 ≤ j ∧ j < n) := by
  intro e he j n
  simp only [StabGates.gate1Guards, List.mem_cons, List.not_mem_nil, or_false] at he
  rcases he with rfl | rfl | rfl | rfl | rfl | rfl | rfl | rfl <;>
    simp [raises, StabGates.applyXGuards, StabGates.applyYGuards, StabGates.applyZGuards, StabGates.applyHGuards,
      StabGates.applyKGuards, StabGates.applySGuards, StabGates.applySqrtMinIXGuards, StabGates.applySqrtIZGuards,
      GCond.eval, GTerm.eval] <;> omega

/-- 2-qubit gate methods raise exactly unless both positions are in range and different -/
theorem gen_guards2_eq : ∀ e ∈ StabGates.gate2Guards, ∀ (c t : Int) (n : Nat),
    raises e.2 [c, t] n = true ↔ ¬ (0 ≤ c ∧ c < n ∧ 0 ≤ t ∧ t < n ∧ c ≠ t) := by
  intro e he c t n
  simp only [StabGates.gate2Guards, List.mem_cons, List.not_mem_nil, or_false] at he
  rcases he with rfl | rfl <;>
    simp [raises, StabGates.applyCNOTGuards, StabGates.applyCZGuards, GCond.eval, GTerm.eval] <;> omega

example : raises StabGates.applyCNOTGuards [1, 1] 3 = true := by decide
example : raises StabGates.applyCNOTGuards [2, 0] 3 = false := by decide
example : raises StabGates.applyHGuards [-1] 3 = true := by decide

theorem genGuards1_raises (g : Gate1) (j : Int) (n : Nat) :
    raises (genGuards1 g) [j] n = true ↔ ¬ (0 ≤ j ∧ j < n) := by
  cases g <;>
    simp [genGuards1, raises, StabGates.applyXGuards, StabGates.applyYGuards, StabGates.applyZGuards,
      StabGates.applyHGuards, StabGates.applyKGuards, StabGates.applySGuards, GCond.eval, GTerm.eval] <;> omega

theorem genGuards2_raises (g : Gate2) (c t : Int) (n : Nat) :
    raises (genGuards2 g) [c, t] n = true ↔ ¬ (0 ≤ c ∧ c < n ∧ 0 ≤ t ∧ t < n ∧ c ≠ t) := by
  cases g <;>
    simp [genGuards2, raises, StabGates.applyCNOTGuards, StabGates.applyCZGuards, GCond.eval, GTerm.eval] <;> omega

/-- the model refuses a 1-qubit gate exactly when the regenerated guards raise -/
theorem gen_guards_model1 (g : Gate1) (j : Nat) (s : St) :
    applyGate1 g j s = none ↔ raises (genGuards1 g) [(j : Int)] s.n = true := by
  rw [genGuards1_raises]
  unfold applyGate1
  split <;> simp <;> omega

/-- the model refuses a 2-qubit gate exactly when the regenerated guards raise -/
theorem gen_guards_model2 (g : Gate2) (c t : Nat) (s : St) :
    applyGate2 g c t s = none ↔ raises (genGuards2 g) [(c : Int), (t : Int)] s.n = true := by
  rw [genGuards2_raises]
  unfold applyGate2
  split <;> simp <;> omega

/-! ### whole states -/

def trMapList {α β : Type} (f : α → Tr β) : List α → Tr (List β)
  | [] => .ok []
  | a :: as => (f a).bind fun b => (trMapList f as).bind fun bs => .ok (b :: bs)

theorem trMapList_ok {α β : Type} (f : α → Tr β) (h : α → β) (l : List α) (hf : ∀ a ∈ l, f a = .ok (h a)) :
    trMapList f l = .ok (l.map h) := by
  induction l with
  | nil => rfl
  | cons a as ih =>
    have h1 := hf a (by simp)
    have h2 := ih (fun b hb => hf b (by simp [hb]))
    simp [trMapList, h1, h2, Tr.bind]

/-- a gate method as the regenerated file describes it: the guards, then every row through the
regenerated row function -/
def genApplyGate1 (g : Gate1) (j : Nat) (s : St) : Tr (Option St) :=
  if raises (genGuards1 g) [(j : Int)] s.n then .ok none
  else (trMapList (genRow1 g j) s.rows).map fun rows => some { s with rows := rows }
def genApplyGate2 (g : Gate2) (c t : Nat) (s : St) : Tr (Option St) :=
  if raises (genGuards2 g) [(c : Int), (t : Int)] s.n then .ok none
  else (trMapList (genRow2 g c t) s.rows).map fun rows => some { s with rows := rows }

/-- on every state whose rows have `n` letters the regenerated description IS the model -/
theorem gen_applyGate1 (g : Gate1) (j : Nat) (s : St) (hw : ∀ r ∈ s.rows, r.ps.length = s.n) :
    genApplyGate1 g j s = .ok (applyGate1 g j s) := by
  unfold genApplyGate1
  by_cases hr : raises (genGuards1 g) [(j : Int)] s.n = true
  · rw [if_pos hr, (gen_guards_model1 g j s).2 hr]
  · rw [if_neg hr]
    have hj : j < s.n := by
      have : ¬ ¬ (0 ≤ (j : Int) ∧ (j : Int) < (s.n : Int)) := fun hh => hr ((genGuards1_raises g j s.n).2 hh)
      omega
    rw [trMapList_ok (genRow1 g j) (g.row j) s.rows (fun r hrm => gen_gate1_row g j r (by rw [hw r hrm]; exact hj))]
    simp [Tr.map, applyGate1, hj]

theorem gen_applyGate2 (g : Gate2) (c t : Nat) (s : St) (hw : ∀ r ∈ s.rows, r.ps.length = s.n) :
    genApplyGate2 g c t s = .ok (applyGate2 g c t s) := by
  unfold genApplyGate2
  by_cases hr : raises (genGuards2 g) [(c : Int), (t : Int)] s.n = true
  · rw [if_pos hr, (gen_guards_model2 g c t s).2 hr]
  · rw [if_neg hr]
    have hj : c < s.n ∧ t < s.n ∧ c ≠ t := by
      have : ¬ ¬ (0 ≤ (c : Int) ∧ (c : Int) < (s.n : Int) ∧ 0 ≤ (t : Int) ∧ (t : Int) < (s.n : Int) ∧ (c : Int) ≠ (t : Int)) :=
        fun hh => hr ((genGuards2_raises g c t s.n).2 hh)
      omega
    rw [trMapList_ok (genRow2 g c t) (g.row c t) s.rows
      (fun r hrm => gen_gate2_row g c t r (by rw [hw r hrm]; exact hj.1) (by rw [hw r hrm]; exact hj.2.1))]
    simp [Tr.map, applyGate2, hj]

example : genApplyGate1 .H 0 ⟨1, [⟨[(false, true)], false⟩]⟩ = .ok (some ⟨1, [⟨[(true, false)], false⟩]⟩) := by decide

/-! ### the row product -/

theorem gen_isI_eq (a b : P1) : StabGates.isI a b = .ok (Stab.isI a b) := by
  rcases a with ⟨a1, a2⟩; rcases b with ⟨b1, b2⟩; revert a1 a2 b1 b2; decide
theorem gen_isMinusI_eq (a b : P1) : StabGates.isMinusI a b = .ok (Stab.isMinusI a b) := by
  rcases a with ⟨a1, a2⟩; rcases b with ⟨b1, b2⟩; revert a1 a2 b1 b2; decide
theorem gen_mulBit_eq : ∀ u v : Bool, StabGates.mulBit u v = .ok (u != v) := by decide

/-- the letter pairs the two masks are the union of are the ones of the Pauli table
(`iexp a b = 1` resp. `3`), read through the regenerated `Pauli2bool` -/
theorem gen_pairs_eq :
    StabGates.pauli2bool = [('I', (false, false)), ('X', (true, false)), ('Y', (true, true)), ('Z', (false, true))] ∧
    StabGates.isIPairs = [('X', 'Y'), ('Y', 'Z'), ('Z', 'X')] ∧
    StabGates.isMinusIPairs = [('Y', 'X'), ('Z', 'Y'), ('X', 'Z')] := by decide

/-- sign of a product, for ALL counts: `((num_i - num_minus_i) % 4) / 2` used as a truth value is the
model's `(num_i + 3 * num_minus_i) % 4 != 0` -/
theorem gen_mulSign_eq (s1 s2 : Bool) (ni nmi : Nat) :
    StabGates.mulSign s1 s2 ni nmi = .ok ((s1 != s2) != ((ni + 3 * nmi) % 4 != 0)) := by
  unfold StabGates.mulSign
  dsimp only
  congr 2
  rw [Bool.eq_iff_iff]
  simp only [decide_eq_true_eq, bne_iff_ne, ne_eq]
  omega

theorem gen_hasMinusPhase_eq (ni nmi : Nat) :
    StabGates.hasMinusPhase ni nmi = .ok ((ni + 3 * nmi) % 4 != 0) := by
  unfold StabGates.hasMinusPhase
  rw [gen_mulSign_eq]
  simp

example : StabGates.hasMinusPhase 0 4 = .ok false := by decide
example : StabGates.hasMinusPhase 1 3 = .ok true := by decide

/-- letters of the product and the two counts, as the regenerated functions compute them -/
def genMulL : List P1 → List P1 → Tr (List P1 × Nat × Nat)
  | a :: as, b :: bs =>
    (StabGates.mulBit a.1 b.1).bind fun x => (StabGates.mulBit a.2 b.2).bind fun z =>
    (StabGates.isI a b).bind fun i => (StabGates.isMinusI a b).bind fun m =>
    (genMulL as bs).bind fun o => .ok ((x, z) :: o.1, (if i then 1 else 0) + o.2.1, (if m then 1 else 0) + o.2.2)
  | _, _ => .ok ([], 0, 0)

/-- `_multiply_stabilizers(s1, s2)` as the regenerated file describes it -/
def genMulRow (r1 r2 : Row) : Tr Row :=
  (genMulL r1.ps r2.ps).bind fun o => (StabGates.mulSign r1.neg r2.neg o.2.1 o.2.2).bind fun s => .ok ⟨o.1, s⟩

theorem genMulL_eq (as bs : List P1) : genMulL as bs = .ok (mulL as bs, countI as bs, countMinusI as bs) := by
  induction as generalizing bs with
  | nil => cases bs <;> rfl
  | cons a as ih =>
    cases bs with
    | nil => rfl
    | cons b bs =>
      simp [genMulL, ih, gen_isI_eq, gen_isMinusI_eq, gen_mulBit_eq, Tr.bind, mulL, mul1, countI, countMinusI]

/-- on all rows of all widths the regenerated description of the row product IS the model's `mulRow` -/
theorem gen_mulRow_eq (r1 r2 : Row) : genMulRow r1 r2 = .ok (mulRow r1 r2) := by
  simp [genMulRow, genMulL_eq, gen_mulSign_eq, Tr.bind, mulRow, hasMinusPhase]

example : genMulRow ⟨[(true, false), (true, true)], false⟩ ⟨[(true, true), (true, false)], true⟩
    = .ok ⟨[(false, true), (false, true)], true⟩ := by decide

/-! ### nothing was skipped -/

theorem no_unrecognised : StabGates.unrecognised = [] := by decide

end SqVerif.C13

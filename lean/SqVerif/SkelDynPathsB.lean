import SqVerif.SkelDynLemmasTrans
/-!
# Choosing a path of a pointer skeleton by executable search — layer L3, serves C03 (non-vacuity instances)

`SkelDynLemmas.dAccepts` checks that a GIVEN trace is a path of a regenerated pointer skeleton whatever the shape
of the generated term.  That is not enough for a witness that has to survive behaviour-preserving rewrites of the
Python source: caching `self.simQubit` in a local variable turns four dereferences of the pointer into one, i.e.
four `use` events of `Gen.Q__single_gate` into one — a fixed witness trace with three `use` events is then no
longer a path of the skeleton although nothing observable changed.  So the witness trace itself is read off the
regenerated skeleton:

* `dEnum n s`        every path of `s` (trace, exit) in which each loop runs at most `n` times;
                     `dEnum_sound : o ∈ dEnum n s → DSem s o.1 o.2`.
* `dPick n s e p`    the shortest of them (the first one among equals) that exits by `e` and satisfies the
                     executable specification `p` (e.g. "exactly one failed re-validation"); `dPick_sound`.
* `mem_transD`       every annotated action of a translated trace stems from one event of the trace, at its
                     position — used to prove `AAct.Sound` for assignments that give effects by the KIND of the event
                     instead of by a fixed position.
-/
namespace SqVerif.SkelDyn
open SqVerif.Skel (Handle Exit)

abbrev Path := List DEv × Exit

/-- the paths of a loop whose body has the paths `B`: at most `n` iterations -/
def loopEnum (B : List Path) : Nat → List Path
  | 0 => []
  | n+1 =>
    (B.filter (fun o => o.2 != .cont)).map (fun o => (o.1, o.2.unloop)) ++
    (B.filter (fun o => o.2 == .cont)).flatMap (fun o => (loopEnum B n).map (fun o2 => (o.1 ++ o2.1, o2.2)))

/-- continue the paths `A` selected by `sel` with the paths `K` -/
def thenPaths (sel : Exit → Bool) (A K : List Path) : List Path :=
  (A.filter (fun o => sel o.2)).flatMap (fun o => K.map (fun o2 => (o.1 ++ o2.1, o2.2)))

/-- every path of `s` in which each loop runs at most `n` times -/
def dEnum (n : Nat) : DStmt → List Path
  | .skip => [([], .norm)]
  | .ev x => [([x], .norm)]
  | .raise => [([], .exc)]
  | .ret => [([], .ret)]
  | .brk => [([], .brk)]
  | .cont => [([], .cont)]
  | .seq a b => (dEnum n a).filter (fun o => o.2 != .norm) ++ thenPaths (fun e => e == .norm) (dEnum n a) (dEnum n b)
  | .ite _ a b => dEnum n a ++ dEnum n b
  | .loop b => loopEnum (dEnum n b) n
  | .scope b => (dEnum n b).map (fun o => (o.1, o.2.unscope))
  | .tryFinally b f =>
    (dEnum n b).flatMap (fun o => (dEnum n f).map (fun o2 => (o.1 ++ o2.1, if o2.2 = .norm then o.2 else o2.2)))
  | .tryExcept b h => dEnum n b ++ thenPaths (fun e => e == .exc) (dEnum n b) (dEnum n h)
  | .tryCatch b h => (dEnum n b).filter (fun o => o.2 != .exc) ++ thenPaths (fun e => e == .exc) (dEnum n b) (dEnum n h)
  | .unknown _ => []

theorem mem_thenPaths {sel : Exit → Bool} {A K : List Path} {o : Path} (h : o ∈ thenPaths sel A K) :
    ∃ o1 o2, o1 ∈ A ∧ sel o1.2 = true ∧ o2 ∈ K ∧ o = (o1.1 ++ o2.1, o2.2) := by
  unfold thenPaths at h
  simp only [List.mem_flatMap, List.mem_filter, List.mem_map] at h
  obtain ⟨o1, ⟨h1, hs⟩, o2, h2, rfl⟩ := h
  exact ⟨o1, o2, h1, hs, h2, rfl⟩

theorem loopEnum_sound (B : List Path) (R : DRel) (hB : ∀ o, o ∈ B → R o.1 o.2) :
    ∀ n o, o ∈ loopEnum B n → ∃ e0, DIter R o.1 e0 ∧ o.2 = e0.unloop := by
  intro n
  induction n with
  | zero => intro o h; cases h
  | succ n ih =>
    intro o h
    simp only [loopEnum, List.mem_append, List.mem_map, List.mem_filter, List.mem_flatMap] at h
    rcases h with ⟨o1, ⟨h1, hne⟩, rfl⟩ | ⟨o1, ⟨h1, hc⟩, o2, h2, rfl⟩
    · exact ⟨o1.2, DIter.done (hB o1 h1) (by simpa using hne), rfl⟩
    · obtain ⟨e0, hit, he⟩ := ih o2 h2
      have hc' : o1.2 = .cont := by simpa using hc
      have hb := hB o1 h1
      rw [hc'] at hb
      exact ⟨e0, DIter.again hb hit, he⟩

/-- **the enumerator is sound**: what it lists are paths — whatever the shape of `s` -/
theorem dEnum_sound (n : Nat) : ∀ (s : DStmt) (o : Path), o ∈ dEnum n s → DSem s o.1 o.2 := by
  intro s
  induction s with
  | skip => intro o h; simp only [dEnum, List.mem_singleton] at h; subst h; exact ⟨rfl, rfl⟩
  | ev x => intro o h; simp only [dEnum, List.mem_singleton] at h; subst h; exact ⟨rfl, rfl⟩
  | raise => intro o h; simp only [dEnum, List.mem_singleton] at h; subst h; exact ⟨rfl, rfl⟩
  | ret => intro o h; simp only [dEnum, List.mem_singleton] at h; subst h; exact ⟨rfl, rfl⟩
  | brk => intro o h; simp only [dEnum, List.mem_singleton] at h; subst h; exact ⟨rfl, rfl⟩
  | cont => intro o h; simp only [dEnum, List.mem_singleton] at h; subst h; exact ⟨rfl, rfl⟩
  | unknown w => intro o h; simp [dEnum] at h
  | seq a b iha ihb =>
    intro o h
    simp only [dEnum, List.mem_append, List.mem_filter] at h
    rcases h with ⟨h1, hne⟩ | h
    · exact Or.inl ⟨iha o h1, by simpa using hne⟩
    · obtain ⟨o1, o2, h1, hs, h2, rfl⟩ := mem_thenPaths h
      have hn : o1.2 = .norm := by simpa using hs
      have ha := iha o1 h1
      rw [hn] at ha
      exact Or.inr ⟨o1.1, o2.1, ha, ihb o2 h2, rfl⟩
  | ite c a b iha ihb =>
    intro o h
    simp only [dEnum, List.mem_append] at h
    rcases h with h | h
    · exact Or.inl (iha o h)
    · exact Or.inr (ihb o h)
  | loop b ih =>
    intro o h
    simp only [dEnum] at h
    obtain ⟨e0, hit, he⟩ := loopEnum_sound (dEnum n b) (DSem b) ih n o h
    exact ⟨e0, hit, he⟩
  | scope b ih =>
    intro o h
    simp only [dEnum, List.mem_map] at h
    obtain ⟨o1, h1, rfl⟩ := h
    exact ⟨o1.2, ih o1 h1, rfl⟩
  | tryFinally b f ihb ihf =>
    intro o h
    simp only [dEnum, List.mem_flatMap, List.mem_map] at h
    obtain ⟨o1, h1, o2, h2, rfl⟩ := h
    exact ⟨o1.1, o1.2, o2.1, o2.2, ihb o1 h1, ihf o2 h2, rfl, rfl⟩
  | tryExcept b hd ihb ihh =>
    intro o h
    simp only [dEnum, List.mem_append] at h
    rcases h with h | h
    · exact Or.inl (ihb o h)
    · obtain ⟨o1, o2, h1, hs, h2, rfl⟩ := mem_thenPaths h
      have hx : o1.2 = .exc := by simpa using hs
      have hb := ihb o1 h1
      rw [hx] at hb
      exact Or.inr ⟨o1.1, o2.1, hb, ihh o2 h2, rfl⟩
  | tryCatch b hd ihb ihh =>
    intro o h
    simp only [dEnum, List.mem_append, List.mem_filter] at h
    rcases h with ⟨h1, hne⟩ | h
    · exact Or.inl ⟨ihb o h1, by simpa using hne⟩
    · obtain ⟨o1, o2, h1, hs, h2, rfl⟩ := mem_thenPaths h
      have hx : o1.2 = .exc := by simpa using hs
      have hb := ihb o1 h1
      rw [hx] at hb
      exact Or.inr ⟨o1.1, o2.1, hb, ihh o2 h2, rfl⟩

/-- the shortest element of a list of traces (the first one among equals) -/
def shortest : List (List DEv) → Option (List DEv)
  | [] => none
  | t :: ts =>
    match shortest ts with
    | none => some t
    | some t' => if t'.length < t.length then some t' else some t

theorem shortest_mem : ∀ (l : List (List DEv)) (t : List DEv), shortest l = some t → t ∈ l := by
  intro l
  induction l with
  | nil => intro t h; cases h
  | cons x xs ih =>
    intro t h
    simp only [shortest] at h
    cases hs : shortest xs with
    | none =>
      rw [hs] at h
      simp only [Option.some.injEq] at h
      subst h
      exact List.mem_cons_self
    | some t' =>
      rw [hs] at h
      simp only at h
      split at h
      · simp only [Option.some.injEq] at h
        subst h
        exact List.mem_cons_of_mem _ (ih _ hs)
      · simp only [Option.some.injEq] at h
        subst h
        exact List.mem_cons_self

/-- the traces of the paths of `s` (loops: at most `n` iterations) that exit by `e` and satisfy `p` -/
def dCandidates (n : Nat) (s : DStmt) (e : Exit) (p : List DEv → Bool) : List (List DEv) :=
  ((dEnum n s).filter (fun o => o.2 == e && p o.1)).map (fun o => o.1)

/-- **the chosen path**: the shortest path of `s` that exits by `e` and satisfies the specification `p` -/
def dPick (n : Nat) (s : DStmt) (e : Exit) (p : List DEv → Bool) : Option (List DEv) :=
  shortest (dCandidates n s e p)

theorem dPick_sound (n : Nat) (s : DStmt) (e : Exit) (p : List DEv → Bool) (tr : List DEv)
    (h : dPick n s e p = some tr) : dpaths s tr e ∧ p tr = true := by
  have hm := shortest_mem _ _ h
  unfold dCandidates at hm
  simp only [List.mem_map, List.mem_filter, Bool.and_eq_true, beq_iff_eq] at hm
  obtain ⟨o, ⟨ho, he, hp⟩, rfl⟩ := hm
  have := dEnum_sound n s o ho
  rw [he] at this
  exact ⟨this, hp⟩

/-- the chosen path, with a default for "none" (a use of it must show `(dPick …).isSome`) -/
def dPickD (n : Nat) (s : DStmt) (e : Exit) (p : List DEv → Bool) : List DEv := (dPick n s e p).getD []

theorem dPickD_sound (n : Nat) (s : DStmt) (e : Exit) (p : List DEv → Bool)
    (h : (dPick n s e p).isSome = true) : dpaths s (dPickD n s e p) e ∧ p (dPickD n s e p) = true := by
  unfold dPickD
  cases hp : dPick n s e p with
  | none => rw [hp] at h; cases h
  | some tr => exact dPick_sound n s e p tr hp

/-! ### where the actions of a translated trace come from -/

variable {V : Type}

/-- every annotated action of `transD ρ st ts i tr` is an action of one event `tr[k]`, translated at position
    `i + k` (in the monitor / translation state reached there) -/
theorem mem_transD (ρ : DAsg V) : ∀ (tr : List DEv) (st : DSt) (ts : TS) (i : Nat) (a : AAct V),
    a ∈ transD ρ st ts i tr → ∃ k e st' ts', tr[k]? = some e ∧ a ∈ transActs ρ st' ts' (i + k) e := by
  intro tr
  induction tr with
  | nil => intro st ts i a h; cases h
  | cons e rest ih =>
    intro st ts i a h
    simp only [transD, List.mem_append] at h
    rcases h with h | h
    · exact ⟨0, e, st, ts, rfl, h⟩
    · obtain ⟨k, e', st', ts', hk, ha⟩ := ih _ _ _ a h
      refine ⟨k + 1, e', st', ts', by simpa using hk, ?_⟩
      have : i + (k + 1) = i + 1 + k := by omega
      rw [this]
      exact ha

/-- the shapes of the actions one event can produce: lock operations carry no effect; a validation, a use and a
    re-pointing carry the effect (and a use the data footprint) that `ρ` gives to the position of the event -/
theorem transActs_shape (ρ : DAsg V) (st : DSt) (ts : TS) (j : Nat) (e : DEv) (a : AAct V)
    (h : a ∈ transActs ρ st ts j e) :
    (∃ l, a = .acq l) ∨ (∃ l, a = .rel l) ∨
    (∃ hd lr r l, e = .reval hd lr true ∧ a = .val r l (ρ.F j)) ∨
    (∃ hd p l, e = .use hd ∧ a = .use p (ρ.data j) l (ρ.F j)) ∨
    (∃ hd new r l, e = .repoint hd new ∧ a = .rep r l (ρ.F j)) := by
  cases e with
  | acq ls b =>
    cases b with
    | false =>
      simp only [transActs, List.mem_map] at h
      obtain ⟨l, _, rfl⟩ := h
      exact Or.inl ⟨l, rfl⟩
    | true => simp [transActs] at h
  | rel ls =>
    simp only [transActs] at h
    split at h
    · simp only [List.mem_map] at h
      obtain ⟨l, _, rfl⟩ := h
      exact Or.inr (Or.inl ⟨l, rfl⟩)
    · cases h
  | reval hd lr ok =>
    cases ok with
    | false => simp [transActs] at h
    | true =>
      simp only [transActs] at h
      split at h
      · split at h
        · simp only [List.mem_singleton] at h
          exact Or.inr (Or.inr (Or.inl ⟨hd, lr, _, _, rfl, h⟩))
        · cases h
      · cases h
  | use hd =>
    simp only [transActs] at h
    split at h
    · simp only [List.mem_singleton] at h
      exact Or.inr (Or.inr (Or.inr (Or.inl ⟨hd, _, _, rfl, h⟩)))
    · cases h
  | repoint hd new =>
    simp only [transActs] at h
    split at h
    · split at h
      · simp only [List.mem_singleton] at h
        exact Or.inr (Or.inr (Or.inr (Or.inr ⟨hd, new, _, _, rfl, h⟩)))
      · cases h
    · cases h
  | readPtr hd k => simp [transActs] at h
  | cancel => simp [transActs] at h
  | bind hd => simp [transActs] at h
  | requires l => simp [transActs] at h
  | iter l => simp [transActs] at h

end SqVerif.SkelDyn

import SqVerif.Pauli
/-
L0 — executable model of `simulaqron/toolbox/stabilizer_states.py`
(`StabilizerState`).  Core Lean only.

The NumPy matrix `_group` is n x (2n+1): X part, Z part, sign.  Here a row is
its list of letters `(x,z)` plus the sign bit; column k of the NumPy matrix is
`Row.bit w k` (x_k for k<w, z_(k-w) for w<=k<2w, the sign for k=2w).  All
NumPy column operations act row-wise, so every gate is a `map` over the rows.
-/
namespace SqVerif.Stab

structure Row where
  ps : List P1
  neg : Bool
  deriving DecidableEq, Repr

/-- a stabilizer state: `_nr_rows` and `_group` -/
structure St where
  n : Nat
  rows : List Row
  deriving DecidableEq, Repr

def getP (ps : List P1) (j : Nat) : P1 := ps.getD j (false, false)
def setP (ps : List P1) (j : Nat) (p : P1) : List P1 := ps.set j p

def Row.x (r : Row) (j : Nat) : Bool := (getP r.ps j).1
def Row.z (r : Row) (j : Nat) : Bool := (getP r.ps j).2

/-- column k of the n x (2n+1) matrix, `w` = number of qubits -/
def Row.bit (w : Nat) (r : Row) (k : Nat) : Bool :=
  if k < w then r.x k else if k < 2 * w then r.z (k - w) else if k = 2 * w then r.neg else false

/-! ### gates (stabilizer_states.py:531-701), one row at a time -/

/-- `apply_X`: flip the sign of rows with a Z bit at `j` -/
def rowX (j : Nat) (r : Row) : Row := { r with neg := r.neg != r.z j }
/-- `apply_Y`: flip where x xor z -/
def rowY (j : Nat) (r : Row) : Row := { r with neg := r.neg != (r.x j != r.z j) }
/-- `apply_Z`: flip where x -/
def rowZ (j : Nat) (r : Row) : Row := { r with neg := r.neg != r.x j }
/-- `apply_H`: swap the X and Z columns, then flip where x and z -/
def rowH (j : Nat) (r : Row) : Row :=
  let x := r.x j; let z := r.z j
  { ps := setP r.ps j (z, x), neg := r.neg != (z && x) }
/-- `apply_K`: x ^= z, then flip where x' and not z -/
def rowK (j : Nat) (r : Row) : Row :=
  let x := r.x j; let z := r.z j
  let x' := x != z
  { ps := setP r.ps j (x', z), neg := r.neg != (x' && !z) }
/-- `apply_S`: z ^= x, then flip where x and not z' -/
def rowS (j : Nat) (r : Row) : Row :=
  let x := r.x j; let z := r.z j
  let z' := z != x
  { ps := setP r.ps j (x, z'), neg := r.neg != (x && !z') }
/-- `apply_CNOT c t`: x_t ^= x_c; z_c ^= z_t; flip where x_c & z_t & (z_c' == x_t') -/
def rowCNOT (c t : Nat) (r : Row) : Row :=
  let xc := r.x c; let zc := r.z c; let xt := r.x t; let zt := r.z t
  let xt' := xt != xc
  let zc' := zc != zt
  let flip := (xc && zt) && ((zc' && xt') || (!zc' && !xt'))
  { ps := setP (setP r.ps t (xt', zt)) c (xc, zc'), neg := r.neg != flip }
/-- `apply_CZ c t`: flip where x_c & x_t & (z_c xor z_t); then z_t ^= x_c; z_c ^= x_t -/
def rowCZ (c t : Nat) (r : Row) : Row :=
  let xc := r.x c; let zc := r.z c; let xt := r.x t; let zt := r.z t
  let flip := (xc && xt) && (zc != zt)
  { ps := setP (setP r.ps t (xt, zt != xc)) c (xc, zc != xt), neg := r.neg != flip }

inductive Gate1 where | X | Y | Z | H | K | S deriving DecidableEq, Repr
inductive Gate2 where | CNOT | CZ deriving DecidableEq, Repr

def Gate1.row : Gate1 → Nat → Row → Row
  | .X => rowX | .Y => rowY | .Z => rowZ | .H => rowH | .K => rowK | .S => rowS
def Gate2.row : Gate2 → Nat → Nat → Row → Row
  | .CNOT => rowCNOT | .CZ => rowCZ

/-- `position >= 0 and position < n` else ValueError -/
def applyGate1 (g : Gate1) (j : Nat) (s : St) : Option St :=
  if j < s.n then some { s with rows := s.rows.map (g.row j) } else none

/-- both positions valid and `control != target` else ValueError -/
def applyGate2 (g : Gate2) (c t : Nat) (s : St) : Option St :=
  if c < s.n ∧ t < s.n ∧ c ≠ t then some { s with rows := s.rows.map (g.row c t) } else none

/-! ### tensor product / add_qubit (458-507) -/

def idPad (k : Nat) : List P1 := List.replicate k (false, false)

def tensor (a b : St) : St :=
  if a.n = 0 then b
  else if b.n = 0 then a
  else { n := a.n + b.n,
         rows := a.rows.map (fun r => { r with ps := r.ps ++ idPad b.n })
              ++ b.rows.map (fun r => { r with ps := idPad a.n ++ r.ps }) }

/-- `StabilizerState([[0, 1]])` -/
def zero1 : St := { n := 1, rows := [{ ps := [(false, true)], neg := false }] }
def empty : St := { n := 0, rows := [] }
def addQubit (s : St) : St := tensor s zero1

/-! ### row multiplication (317-374) -/

/-- positions where (s1,s2) is XY, YZ or ZX -/
def isI (a b : P1) : Bool :=
  (a == (true, false) && b == (true, true)) || (a == (true, true) && b == (false, true)) ||
  (a == (false, true) && b == (true, false))
/-- positions where (s1,s2) is YX, ZY or XZ -/
def isMinusI (a b : P1) : Bool :=
  (a == (true, true) && b == (true, false)) || (a == (false, true) && b == (true, true)) ||
  (a == (true, false) && b == (false, true))

def countI : List P1 → List P1 → Nat
  | a :: as, b :: bs => (if isI a b then 1 else 0) + countI as bs
  | _, _ => 0
def countMinusI : List P1 → List P1 → Nat
  | a :: as, b :: bs => (if isMinusI a b then 1 else 0) + countMinusI as bs
  | _, _ => 0

/-- `_multiply_compute_phase`: `((num_i - num_minus_i) % 4) / 2` is a float that
NumPy's `logical_xor` treats as true iff non-zero; `-1 = 3 (mod 4)`. -/
def hasMinusPhase (s1 s2 : List P1) : Bool := (countI s1 s2 + 3 * countMinusI s1 s2) % 4 != 0

/-- `_multiply_stabilizers(s1, s2)` -/
def mulRow (s1 s2 : Row) : Row :=
  { ps := mulL s1.ps s2.ps, neg := (s1.neg != s2.neg) != hasMinusPhase s1.ps s2.ps }

/-! ### boolean Gaussian elimination (262-312) -/

/-- first row index `i >= h` with a 1 in column `k` -/
def firstFrom (w : Nat) (rows : List Row) (h k : Nat) : Option Nat :=
  ((List.range rows.length).filter fun i => h ≤ i && (rows.getD i ⟨[], false⟩).bit w k).head?

def swapRows (rows : List Row) (i j : Nat) : List Row :=
  let ri := rows.getD i ⟨[], false⟩
  let rj := rows.getD j ⟨[], false⟩
  (rows.set i rj).set j ri

/-- one iteration for column `k` with `h` pivots found so far.  After the swap
every row other than the pivot row with a 1 in column `k` is multiplied by the
pivot row (`non_zero_except_i_max`: the indices are taken before the swap, but
the row swapped down had a 0 in column k, so the sets agree). -/
def gaussStep (w : Nat) (rows : List Row) (h k : Nat) : List Row × Nat :=
  match firstFrom w rows h k with
  | none => (rows, h)
  | some i =>
    let rows1 := if i = h then rows else swapRows rows h i
    let piv := rows1.getD h ⟨[], false⟩
    (rows1.mapIdx fun idx r => if idx ≠ h ∧ r.bit w k then mulRow r piv else r, h + 1)

/-- `while h < m and k < n` over the `2w+1` columns, sign column included -/
def gaussLoop (w : Nat) (rows : List Row) (h k : Nat) : Nat → List Row
  | 0 => rows
  | fuel + 1 =>
    if h < rows.length ∧ k < 2 * w + 1 then
      let (rows', h') := gaussStep w rows h k
      gaussLoop w rows' h' (k + 1) fuel
    else rows

def gauss (w : Nat) (rows : List Row) : List Row := gaussLoop w rows 0 0 (2 * w + 1)

/-! ### symplectic check, contains, eq (201-211, 376-445) -/

/-- symplectic product of two rows mod 2 -/
def sympl (a b : Row) : Bool := antiL a.ps b.ps

/-- `M P M^T % 2` has no non-zero entry -/
def isSymplectic (rows : List Row) : Bool := rows.all fun a => rows.all fun b => !sympl a b

def Row.isZero (w : Nat) (r : Row) : Bool := (List.range (2 * w + 1)).all fun k => !r.bit w k

/-- `_contains(matrix, stab)` -/
def contains (w : Nat) (rows : List Row) (stab : Row) : Bool :=
  let ext := rows ++ [stab]
  if !isSymplectic ext then false
  else ((gauss w ext).filter (Row.isZero w)).length == 1

/-- `__eq__` -/
def stEq (a b : St) : Bool :=
  if a.n != b.n then false else decide (gauss a.n a.rows = gauss b.n b.rows)

/-! ### measurement (703-784) -/

/-- column permutation bringing qubit `j` first (`perm`) -/
def toFront (j : Nat) (ps : List P1) : List P1 := getP ps j :: ps.eraseIdx j
/-- `[:, np.argsort(perm)]` -/
def fromFront (j : Nat) (ps : List P1) : List P1 :=
  match ps with
  | [] => []
  | p :: rest => rest.take j ++ p :: rest.drop j

def Row.toFront (j : Nat) (r : Row) : Row := { r with ps := Stab.toFront j r.ps }
def Row.fromFront (j : Nat) (r : Row) : Row := { r with ps := Stab.fromFront j r.ps }

/-- the row `Z I ... I` with sign `neg` -/
def zFirst (w : Nat) (neg : Bool) : Row := { ps := (false, true) :: idPad (w - 1), neg := neg }

/-- `measure(position, inplace)`; `coin` stands for `randint(0, 1)`.  Returns
the outcome and the new state; `none` = ValueError (bad position). -/
def measure (s : St) (j : Nat) (inplace : Bool) (coin : Bool) : Option (Bool × St) :=
  if ¬ j < s.n then none else
  let n := s.n
  let tmp := gauss n (s.rows.map (Row.toFront j))
  let r0 := tmp.getD 0 ⟨[], false⟩
  if r0.x 0 then
    -- random outcome
    let outcome := coin
    let tmp1 := if outcome then tmp.map fun r => if r.z 0 then { r with neg := !r.neg } else r else tmp
    if !inplace then
      some (outcome, { n := n - 1, rows := (tmp1.drop 1).map fun r => { r with ps := r.ps.drop 1 } })
    else
      let r0' : Row := zFirst n outcome
      let rest := (tmp1.drop 1).map fun r => { r with ps := setP r.ps 0 ((getP r.ps 0).1, false) }
      some (outcome, { n := n, rows := (r0' :: rest).map (Row.fromFront j) })
  else
    let outcome := !contains n tmp (zFirst n false)
    if !inplace then
      let back := tmp.map (Row.fromFront j)
      let kept := back.filter fun r => !r.z j
      some (outcome, { n := n - 1, rows := kept.map fun r => { r with ps := r.ps.eraseIdx j } })
    else
      some (outcome, { n := n, rows := tmp.map (Row.fromFront j) })

end SqVerif.Stab

"""MainEngine of the ProjectQ stand-in: a command queue in front of the
simulator.  Every command waits in the queue until `flush()`."""
import weakref

from ..backends import Simulator
from ..types import Qubit, Qureg


class NotYetMeasuredError(Exception):
    pass


class MainEngine:
    def __init__(self, backend=None, engine_list=None, verbose=False):
        self.backend = backend if backend is not None else Simulator()
        self.backend.main_engine = self
        self.main_engine = self
        self.active_qubits = weakref.WeakSet()
        self._measurements = dict()
        self._qubit_idx = 0
        self._queue = []
        self.dirty_qubits = set()

    # -- allocation ----------------------------------------------------------
    def get_new_qubit_id(self):
        self._qubit_idx += 1
        return self._qubit_idx - 1

    def allocate_qubit(self, dirty=False):
        new_id = self.main_engine.get_new_qubit_id()
        qb = Qureg([Qubit(self, new_id)])
        self._queue.append(("allocate", new_id))
        self.main_engine.active_qubits.add(qb[0])
        return qb

    def allocate_qureg(self, n):
        return Qureg([self.allocate_qubit()[0] for _ in range(n)])

    def deallocate_qubit(self, qubit):
        if qubit.id == -1:
            raise ValueError("Already deallocated.")
        self._queue.append(("deallocate", qubit.id))

    # -- commands ------------------------------------------------------------
    def receive_command(self, cmd):
        self._queue.append(cmd)

    def set_measurement_result(self, qubit_id, value):
        self._measurements[qubit_id] = bool(value)

    def get_measurement_result(self, qubit):
        if qubit.id in self.main_engine._measurements:
            return self.main_engine._measurements[qubit.id]
        raise NotYetMeasuredError(
            "\nError: Can't access measurement result for qubit #" + str(qubit.id) + ". The problem may be:\n\t"
            "1. Your code lacks a measurement statement\n\t2. You have not yet called engine.flush() to force "
            "execution of your code\n\t3. The underlying backend failed to register the measurement result\n")

    def flush(self, deallocate_qubits=False):
        sim = self.backend._simulator
        queue, self._queue = self._queue, []
        for cmd in queue:
            kind = cmd[0]
            if kind == "allocate":
                sim.allocate_qubit(cmd[1])
            elif kind == "deallocate":
                sim.deallocate_qubit(cmd[1])
            elif kind == "gate":
                sim.apply_controlled_gate(cmd[1], cmd[2], cmd[3])
            elif kind == "measure":
                out = sim.measure_qubits(cmd[1])
                for i, o in zip(cmd[1], out):
                    self.set_measurement_result(i, o)
            elif kind == "prepare":
                sim.prepare_state(cmd[1], cmd[2])
            else:
                raise RuntimeError("unknown command %r" % (kind,))

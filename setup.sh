#!/bin/bash
# Build the whole Lean development from the files on disk (offline, no Mathlib require).
set -e
cd "$(dirname "$0")/lean"
timeout 3000 lake build SqVerif

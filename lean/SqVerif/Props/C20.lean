import SqVerif.LifecycleLemmas
/-
C20 — A started network comes up completely and stop tears it down completely.

Level: MODEL-proved retry/connection logic and process-table logic (below) +
OBSERVED real deployment (harness/props/c20.py part (b)).  No theorem here
talks about OS processes, TCP or port release; those are observed only.

The bring-up theorems quantify over every number of nodes `n`, every retry
time, and EVERY event list `evs : List Ev` -- i.e. every order and spacing in
which the 2n processes come up, every moment at which the network decides an
open connect attempt (refused while the peer is not yet listening), every
passage of time.  `run (init n retry) evs` is an arbitrary reachable state.
`flush` = "each pending attempt fires once more": the retry time passes and
every open attempt is decided.
-/
namespace SqVerif.C20
open SqVerif.Lifecycle

/-- T20.1  `conn` only grows, along every execution. -/
theorem conn_monotone (s : St) (evs : List Ev) (i j : Nat) (h : s.conn i j = true) :
    (run s evs).conn i j = true :=
  run_conn_mono s evs i j h

/-- T20.1b  a listening virtual node keeps listening, a listening QNodeOS keeps listening (within one
incarnation: nothing in the bring-up logic closes a port). -/
theorem listening_monotone (s : St) (evs : List Ev) (i : Nat) :
    (s.vUp i = true → (run s evs).vUp i = true) ∧ (s.qListen i = true → (run s evs).qListen i = true) :=
  ⟨run_vUp_mono s evs i, run_qListen_mono s evs i⟩

/-- T20.2a  the invariant behind everything: in every reachable state, for every ordered pair of distinct
configured nodes whose first member has started, the peer is in `conn` or a connect attempt to it is
pending (open, or armed for a retry no later than `conn_retry_time` from now). -/
theorem connected_or_pending (n retry : Nat) (evs : List Ev) (i j : Nat) (hi : i < n) (hj : j < n) (hij : i ≠ j) :
    let s := run (init n retry) evs
    s.vUp i = true →
      s.conn i j = true ∨
      ∃ a ∈ s.pend, a.key = ⟨i, j, false⟩ ∧ ∀ t, a.due = some t → t ≤ s.now + s.retry := by
  intro s hv
  have hinv : Inv s := inv_reachable n retry evs
  have hn : s.n = n := by simp [s, run_n, init]
  rcases hinv.peer i j (by omega) (by omega) hij hv with hc | ⟨a, ha, hk⟩
  · exact Or.inl hc
  · exact Or.inr ⟨a, ha, hk, hinv.due a ha⟩

/-- T20.2b  pairwise: as soon as both virtual nodes of a pair listen -- whatever else has or has not
started, in whatever order -- one more firing of the pending attempts connects them. -/
theorem pair_up_then_connected (n retry : Nat) (evs : List Ev) (i j : Nat) (hi : i < n) (hj : j < n) :
    let s := run (init n retry) evs
    s.vUp i = true → s.vUp j = true → (flush s).conn i j = true := by
  intro s hvi hvj
  have hinv : Inv s := inv_reachable n retry evs
  have hn : s.n = n := by simp [s, run_n, init]
  by_cases hij : i = j
  · subst hij; exact flush_conn_mono s i i (hinv.self i hvi)
  · exact flush_pair s hinv i j (by omega) (by omega) hij hvi hvj

/-- T20.2  in every execution (any order, any spacing) in which all virtual-node processes have
started, after each pending attempt has fired once more every `conn` is full and
`remote_check_connections` answers true at every node. -/
theorem all_up_then_connected (n retry : Nat) (evs : List Ev) :
    let s := run (init n retry) evs
    (∀ i, i < n → s.vUp i = true) →
      (∀ i j, i < n → j < n → (flush s).conn i j = true) ∧
      (∀ i, i < n → checkConnections (flush s) i = true) ∧
      fullConn (flush s) = true := by
  intro s hall
  have hn : s.n = n := by simp [s, run_n, init]
  have hpair : ∀ i j, i < n → j < n → (flush s).conn i j = true := fun i j hi hj =>
    pair_up_then_connected n retry evs i j hi hj (hall i hi) (hall j hj)
  have hcc : ∀ i, i < n → checkConnections (flush s) i = true := fun i hi =>
    checkConnections_of_full _ i (fun j hj => hpair i j hi (by rw [flush_n, hn] at hj; exact hj))
  refine ⟨hpair, hcc, ?_⟩
  unfold fullConn
  rw [all_range]
  intro i hi
  rw [flush_n, hn] at hi
  exact hcc i hi

/-- `remote_check_connections` true means exactly: every configured node is in `conn`. -/
theorem check_connections_iff (s : St) (i : Nat) :
    checkConnections s i = true ↔ ∀ j, j < s.n → s.conn i j = true :=
  ⟨full_of_checkConnections s i, checkConnections_of_full s i⟩

/-- T20.3  the actual condition under which a QNodeOS starts to accept hosts (start_qnodeos.py): it
has obtained the root of its OWN virtual node -- nothing more.  Once both processes of node i have
started, one more firing of the pending attempts makes its QNodeOS listen, in every execution. -/
theorem qnodeos_listens_eventually (n retry : Nat) (evs : List Ev) (i : Nat) (hi : i < n) :
    let s := run (init n retry) evs
    s.vUp i = true → s.qUp i = true → (flush s).qListen i = true := by
  intro s hv hq
  have hinv : Inv s := inv_reachable n retry evs
  have hn : s.n = n := by simp [s, run_n, init]
  exact flush_q s hinv i (by omega) hq hv

/-- T20.3b  conversely a QNodeOS never listens before its virtual node does. -/
theorem qnodeos_listens_only_after_vnode (n retry : Nat) (evs : List Ev) (i : Nat) :
    let s := run (init n retry) evs
    s.qListen i = true → s.vUp i = true := by
  intro s h
  exact (inv_reachable n retry evs).qv i h

/-- T20.3c  everything started ⇒ after one more firing `Network.running` would answer true
(every QNodeOS port accepts) AND every virtual node is fully connected. -/
theorem all_started_then_running (n retry : Nat) (evs : List Ev) :
    let s := run (init n retry) evs
    (∀ i, i < n → s.vUp i = true ∧ s.qUp i = true) →
      allQListen (flush s) = true ∧ fullConn (flush s) = true := by
  intro s hall
  have hn : s.n = n := by simp [s, run_n, init]
  refine ⟨?_, (all_up_then_connected n retry evs (fun i hi => (hall i hi).1)).2.2⟩
  unfold allQListen
  rw [all_range]
  intro i hi
  rw [flush_n, hn] at hi
  exact qnodeos_listens_eventually n retry evs i hi (hall i hi).1 (hall i hi).2

/-- What `running` does NOT give (honest limit of `start(wait_until_running=True)`): there is an
execution in which every QNodeOS accepts hosts while a virtual node still lacks a peer -- `running`
is true, `check_connections` is false at node 0 until its retry fires.  (Programs still work:
`get_connection` waits for the peer.) -/
theorem running_does_not_imply_connected :
    ∃ evs, let s := run (init 2 8) evs
      allQListen s = true ∧ checkConnections s 0 = false := by
  refine ⟨[.startV 0, .resolve ⟨0, 1, false⟩, .startV 1, .resolve ⟨1, 0, false⟩,
           .startQ 0, .startQ 1, .resolve ⟨0, 0, true⟩, .resolve ⟨1, 1, true⟩], ?_⟩
  decide

/-! ### process table (`Network.start` / `stop`) -/

/-- T20.4  after `stop` no process is alive, whatever the table was. -/
theorem stop_all_dead (t : Table) : noneAlive (stop t) = true ∧ ∀ p ∈ stop t, p.alive = false := by
  refine ⟨noneAlive_stop t, ?_⟩
  intro p hp
  simp only [stop, List.mem_map] at hp
  obtain ⟨q, _, rfl⟩ := hp
  rfl

/-- T20.5  after `start` every process is alive, whatever the table was (fresh, stopped, partly dead). -/
theorem start_all_alive (t : Table) : allAlive (start t) = true ∧ (start t).length = t.length :=
  ⟨allAlive_start t, length_start t⟩

/-- T20.6  `start` leaves a live process alone (same incarnation) and is idempotent. -/
theorem start_idempotent_on_alive (t : Table) :
    start (start t) = start t ∧
    ∀ (k : Nat) (p : Proc), t[k]? = some p → p.alive = true → (start t)[k]? = some p := by
  constructor
  · simp [start, List.map_map, Function.comp_def, startProc_idem]
  · intro k p hk ha
    simp [start, List.getElem?_map, hk, startProc_of_alive p ha]

/-- T20.7  start → stop → start launches exactly one new OS process per slot, and all are alive. -/
theorem start_stop_start (t : Table) :
    start (stop (start t)) = (start t).map (fun p => ⟨true, p.launches + 1⟩) ∧
    allAlive (start (stop (start t))) = true := by
  refine ⟨?_, allAlive_start _⟩
  simp [start, stop, List.map_map, Function.comp_def, startProc]

/-- a history of the process table -/
inductive TOp where
  | start | stop | die (k : Nat)
deriving DecidableEq, Repr

def tstep (t : Table) : TOp → Table
  | .start => start t
  | .stop => stop t
  | .die k => die t k

def trun (t : Table) (ops : List TOp) : Table := ops.foldl tstep t

theorem trun_length (t : Table) (ops : List TOp) : (trun t ops).length = t.length := by
  induction ops generalizing t with
  | nil => rfl
  | cons o r ih =>
    simp only [trun, List.foldl_cons] at *
    rw [ih]
    cases o <;> simp [tstep, length_start, length_stop, length_die]

/-- T20.8  any start/stop/crash history whatsoever: a final `start` yields 2n live processes, a final
`stop` none. -/
theorem any_history_start_stop (n : Nat) (ops : List TOp) :
    allAlive (start (trun (mkTable n) ops)) = true ∧
    noneAlive (stop (trun (mkTable n) ops)) = true ∧
    (start (trun (mkTable n) ops)).length = 2 * n := by
  refine ⟨allAlive_start _, noneAlive_stop _, ?_⟩
  rw [length_start, trun_length]
  simp [mkTable]

/-- D1 (genuine defect of the code before branch fix-c20): with the old loop, start after stop raises
AssertionError ('cannot start a process twice') already for one node. -/
theorem start_after_stop_unfixed_counterexample :
    ¬ (∀ t : Table, ∃ t', startUnfixed (stop (start t)) = .ok t') := by
  intro h
  obtain ⟨t', ht⟩ := h (mkTable 1)
  have : startUnfixed (stop (start (mkTable 1))) = .assertionError [⟨false, 1⟩, ⟨false, 1⟩] := by decide
  rw [this] at ht
  cases ht

/-- on a table whose dead processes never ran the old loop and the fixed one agree -/
theorem startUnfixed_fresh (n : Nat) : startUnfixed (mkTable n) = .ok (start (mkTable n)) := by
  have aux : ∀ (m : Nat) (acc : Table),
      startUnfixedAux (List.replicate m ⟨false, 0⟩) acc = .ok (acc.reverse ++ List.replicate m ⟨true, 1⟩) := by
    intro m
    induction m with
    | zero => intro acc; simp [startUnfixedAux]
    | succ m ih =>
      intro acc
      simp only [List.replicate_succ, startUnfixedAux]
      simp only [Bool.false_eq_true, if_false, if_true]
      rw [ih]
      simp
  simp [startUnfixed, mkTable, aux, start, startProc]

/-! ### both together: stop frees everything, and the same network comes up again -/

/-- T20.9  after ANY history of the world (starts, stops, events, queries) `netStop` leaves no live
process, no listening port and no connection in the model; `netStart` then launches all 2n
processes; and for every order and spacing `evs` in which they come up, once all have started one
more firing of the pending attempts gives full connections, `running` true, and a second
`queryRunning` agrees. -/
theorem stop_then_start_comes_up (n retry : Nat) (ops : List Op) (evs : List Ev) :
    let w1 := ((World.init n retry).run ops).step .netStop
    let w2 := (w1.step .netStart).run (evs.map .ev)
    (noneAlive w1.tab = true ∧ (∀ i, w1.cs.vUp i = false ∧ w1.cs.qListen i = false ∧ ∀ j, w1.cs.conn i j = false)
      ∧ w1.runFlag = false) ∧
    allAlive w2.tab = true ∧ w2.tab.length = 2 * n ∧
    ((∀ i, i < n → w2.cs.vUp i = true ∧ w2.cs.qUp i = true) →
      fullConn (flush w2.cs) = true ∧
      ({ w2 with cs := flush w2.cs } : World).queryRunning.2 = true) := by
  intro w1 w2
  have hwf0 : World.WF n retry ((World.init n retry).run ops) := World.wf_run n retry _ ops (World.wf_init n retry)
  have hwf1 : World.WF n retry w1 := World.wf_step n retry _ .netStop hwf0
  have hcs1 : w1.cs = Lifecycle.init n retry := by
    show Lifecycle.init _ _ = Lifecycle.init n retry
    rw [hwf0.2.1, hwf0.2.2]
  have hw2 : w2 = { (w1.step .netStart) with cs := Lifecycle.run (w1.step .netStart).cs evs } := by
    apply World.run_evs_allAlive
    · exact allAlive_start _
    · show (start w1.tab).length = 2 * w1.cs.n
      rw [length_start, hwf1.1, hwf1.2.1]
  have hcs2 : w2.cs = Lifecycle.run (Lifecycle.init n retry) evs := by
    rw [hw2]; show Lifecycle.run w1.cs evs = _; rw [hcs1]
  have htab2 : w2.tab = start w1.tab := by rw [hw2]; rfl
  refine ⟨⟨noneAlive_stop _, ?_, rfl⟩, ?_, ?_, ?_⟩
  · intro i; rw [hcs1]; simp [Lifecycle.init]
  · rw [htab2]; exact allAlive_start _
  · rw [htab2, length_start]; exact hwf1.1
  · intro hall
    rw [hcs2] at hall ⊢
    have h := all_started_then_running n retry evs hall
    refine ⟨h.2, ?_⟩
    simp only [World.queryRunning]
    split
    · rfl
    · exact h.1

/-! ### non-vacuity: concrete instances satisfy the hypotheses -/

/-- three nodes come up in a hostile order: node 2 first (both its connects are refused and re-armed),
then node 0 (its connect to 1 refused), QNodeOS 1 before its own virtual node (refused), then the rest. -/
def demo : List Ev :=
  [.startV 2, .resolve ⟨2, 0, false⟩, .resolve ⟨2, 1, false⟩, .tick 3, .startQ 1, .resolve ⟨1, 1, true⟩,
   .startV 0, .resolve ⟨0, 1, false⟩, .resolve ⟨0, 2, false⟩, .tick 5, .startV 1, .startQ 0, .startQ 2]

example : (∀ i, i < 3 → (run (init 3 8) demo).vUp i = true ∧ (run (init 3 8) demo).qUp i = true) := by decide
example : fullConn (run (init 3 8) demo) = false ∧ allQListen (run (init 3 8) demo) = false := by decide
example : fullConn (flush (run (init 3 8) demo)) = true ∧ allQListen (flush (run (init 3 8) demo)) = true := by
  decide
example : (run (init 3 8) demo).pend.length = 8 := by decide
example : (run (init 2 8) [.startV 0]).conn 0 0 = true := by decide
example : allAlive (start (stop (start (mkTable 2)))) = true ∧
    (start (stop (start (mkTable 2)))).map (·.launches) = [2, 2, 2, 2] := by decide
example : trun (mkTable 1) [.start, .die 1, .start] = [⟨true, 1⟩, ⟨true, 2⟩] := by decide
example : let w := ((World.init 2 8).run [.netStart, .ev (.startV 0), .ev (.startV 1), .queryRunning]).step .netStop
    noneAlive w.tab = true := by decide

end SqVerif.C20

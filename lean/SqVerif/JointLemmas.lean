import SqVerif.Joint
import SqVerif.Props.C14
/-
C01 joint layer, part 1 — algebra of token-indexed operators:
`≈ₜ` is an equivalence, `dmul` is commutative / associative / a congruence and IS the
operator product on disjoint supports (`mulOn_eq_dmul`); `lift` through a duplicate-free
slot list is a phase-exact injective map (`lift_inj`) that turns the position-level
transformers `conjAt1`, `conjAt2`, `⋆ zAt`, `restrictOp`, `tensor` into their token-level
readings; `ProdG` is invariant under permutation of the factors (`prodG_perm`), and the
generic "the head factor changes by a relation" lemma `prodG_head_rel`.
-/
set_option linter.unusedSimpArgs false
set_option linter.unusedVariables false
namespace SqVerif.Joint
open SqVerif.Stab SqVerif.Stab.Meas SqVerif.VNet SqVerif.VNetEng

/-! ### letters -/

theorem mul1_I1_right (a : P1) : mul1 a I1 = a := by
  rcases a with ⟨x, z⟩; cases x <;> cases z <;> rfl
theorem mul1_I1_left (a : P1) : mul1 I1 a = a := by
  rcases a with ⟨x, z⟩; cases x <;> cases z <;> rfl
theorem iexp_I1_left (a : P1) : iexp I1 a = 0 := by
  rcases a with ⟨x, z⟩; cases x <;> cases z <;> rfl
theorem iexp_I1_right (a : P1) : iexp a I1 = 0 := by
  rcases a with ⟨x, z⟩; cases x <;> cases z <;> rfl

/-! ### `≈ₜ` -/

theorem teqv_refl (a : TOp) : a ≈ₜ a := ⟨rfl, fun _ => rfl⟩
theorem teqv_symm {a b : TOp} (h : a ≈ₜ b) : b ≈ₜ a := ⟨h.1.symm, fun x => (h.2 x).symm⟩
theorem teqv_trans {a b c : TOp} (h : a ≈ₜ b) (h' : b ≈ₜ c) : a ≈ₜ c :=
  ⟨h.1.trans h'.1, fun x => (h.2 x).trans (h'.2 x)⟩

theorem teqv_f {a b : TOp} (h : a ≈ₜ b) : a.f = b.f := funext h.2

theorem dmul_congr {a a' b b' : TOp} (h : a ≈ₜ a') (h' : b ≈ₜ b') : a.dmul b ≈ₜ a'.dmul b' := by
  refine ⟨?_, fun x => ?_⟩
  · have := h.1; have := h'.1; simp only [TOp.dmul]; omega
  · simp only [TOp.dmul, h.2 x, h'.2 x]

theorem dmul_comm (a b : TOp) : a.dmul b ≈ₜ b.dmul a :=
  ⟨by simp only [TOp.dmul]; omega, fun x => mul1_comm _ _⟩

theorem dmul_assoc (a b c : TOp) : (a.dmul b).dmul c ≈ₜ a.dmul (b.dmul c) :=
  ⟨by simp only [TOp.dmul]; omega, fun x => mul1_assoc _ _ _⟩

theorem dmul_left_comm (a b c : TOp) : a.dmul (b.dmul c) ≈ₜ b.dmul (a.dmul c) :=
  ⟨by simp only [TOp.dmul]; omega, fun x => by
    simp only [TOp.dmul]; rw [← mul1_assoc, mul1_comm (a.f x), mul1_assoc]⟩

theorem dmul_one (a : TOp) : a.dmul TOp.one ≈ₜ a :=
  ⟨by simp [TOp.dmul, TOp.one], fun x => mul1_I1_right _⟩

theorem one_dmul (a : TOp) : TOp.one.dmul a ≈ₜ a :=
  ⟨by simp [TOp.dmul, TOp.one], fun x => mul1_I1_left _⟩

/-- on disjoint supports the general product is `dmul` -/
theorem phT_zero (a b : TOp) (S : List Nat) (h : ∀ x, x ∈ S → a.f x = I1 ∨ b.f x = I1) : phT a b S = 0 := by
  induction S with
  | nil => rfl
  | cons x S ih =>
    simp only [phT]
    rw [ih (fun y hy => h y (List.mem_cons_of_mem _ hy))]
    rcases h x List.mem_cons_self with e | e
    · rw [e, iexp_I1_left]
    · rw [e, iexp_I1_right]

theorem mulOn_eq_dmul (a b : TOp) (S : List Nat) (h : ∀ x, x ∈ S → a.f x = I1 ∨ b.f x = I1) :
    a.mulOn S b ≈ₜ a.dmul b :=
  ⟨by simp only [TOp.mulOn, TOp.dmul, phT_zero a b S h]; omega, fun _ => rfl⟩

/-! ### `upd` -/

theorem upd_same (f : Nat → P1) (x : Nat) (a : P1) : upd f x a x = a := by simp [upd]
theorem upd_other (f : Nat → P1) {x y : Nat} (a : P1) (h : y ≠ x) : upd f x a y = f y := by simp [upd, h]

/-! ### `look` -/

theorem look_nil_left (ps : List P1) (x : Nat) : look [] ps x = I1 := by
  cases ps <;> rfl
theorem look_nil_right (toks : List Nat) (x : Nat) : look toks [] x = I1 := by
  cases toks <;> rfl
theorem look_cons (t : Nat) (ts : List Nat) (a : P1) (as : List P1) (x : Nat) :
    look (t :: ts) (a :: as) x = if x = t then a else look ts as x := rfl

theorem look_notin : ∀ (toks : List Nat) (ps : List P1) (x : Nat), x ∉ toks → look toks ps x = I1
  | [], ps, x, _ => look_nil_left ps x
  | t :: ts, [], x, _ => rfl
  | t :: ts, a :: as, x, h => by
    have h1 : x ≠ t := fun e => h (e ▸ List.mem_cons_self)
    have h2 : x ∉ ts := fun e => h (List.mem_cons_of_mem _ e)
    rw [look_cons, if_neg h1]; exact look_notin ts as x h2

theorem look_eq_getP : ∀ (toks : List Nat) (ps : List P1) (j x : Nat), toks.Nodup → toks[j]? = some x →
    j < ps.length → look toks ps x = getP ps j
  | [], ps, j, x, _, h, _ => by simp at h
  | t :: ts, [], j, x, _, _, hl => by simp at hl
  | t :: ts, a :: as, 0, x, _, h, _ => by
    simp only [List.getElem?_cons_zero, Option.some.injEq] at h
    subst h; rw [look_cons, if_pos rfl]; rfl
  | t :: ts, a :: as, j + 1, x, hn, h, hl => by
    simp only [List.getElem?_cons_succ] at h
    rw [List.nodup_cons] at hn
    have hx : x ∈ ts := List.mem_of_getElem? h
    have h1 : x ≠ t := fun e => hn.1 (e ▸ hx)
    rw [look_cons, if_neg h1]
    exact look_eq_getP ts as j x hn.2 h (by simpa using hl)

theorem look_setP : ∀ (toks : List Nat) (ps : List P1) (j x : Nat) (c : P1) (y : Nat), toks.Nodup →
    toks[j]? = some x → j < ps.length → look toks (setP ps j c) y = if y = x then c else look toks ps y
  | [], ps, j, x, c, y, _, h, _ => by simp at h
  | t :: ts, [], j, x, c, y, _, _, hl => by simp at hl
  | t :: ts, a :: as, 0, x, c, y, _, h, _ => by
    simp only [List.getElem?_cons_zero, Option.some.injEq] at h
    subst h
    show look (t :: ts) (c :: as) y = _
    rw [look_cons, look_cons]
    by_cases e : y = t <;> simp [e]
  | t :: ts, a :: as, j + 1, x, c, y, hn, h, hl => by
    simp only [List.getElem?_cons_succ] at h
    rw [List.nodup_cons] at hn
    have hx : x ∈ ts := List.mem_of_getElem? h
    have h1 : x ≠ t := fun e => hn.1 (e ▸ hx)
    show look (t :: ts) (a :: setP as j c) y = _
    rw [look_cons, look_cons, look_setP ts as j x c y hn.2 h (by simpa using hl)]
    by_cases e : y = t
    · have : y ≠ x := fun e' => h1 (e'.symm.trans e)
      simp [e, this]
      intro e2; exact absurd e2.symm h1
    · simp [e]

theorem look_append : ∀ (ta tb : List Nat) (ps qs : List P1) (x : Nat), ps.length = ta.length →
    look (ta ++ tb) (ps ++ qs) x = if x ∈ ta then look ta ps x else look tb qs x
  | [], tb, [], qs, x, _ => by simp
  | [], tb, a :: as, qs, x, h => by simp at h
  | t :: ts, tb, [], qs, x, h => by simp at h
  | t :: ts, tb, a :: as, qs, x, h => by
    show look (t :: (ts ++ tb)) (a :: (as ++ qs)) x = _
    rw [look_cons, look_cons, look_append ts tb as qs x (by simpa using h)]
    by_cases e : x = t
    · simp [e]
    · simp [e]

theorem look_eraseIdx : ∀ (toks : List Nat) (ps : List P1) (j x y : Nat), toks.Nodup → toks[j]? = some x →
    ps.length = toks.length →
    look (toks.eraseIdx j) (ps.eraseIdx j) y = if y = x then I1 else look toks ps y
  | [], ps, j, x, y, _, h, _ => by simp at h
  | t :: ts, [], j, x, y, _, _, hl => by simp at hl
  | t :: ts, a :: as, 0, x, y, hn, h, _ => by
    simp only [List.getElem?_cons_zero, Option.some.injEq] at h
    subst h
    rw [List.nodup_cons] at hn
    simp only [List.eraseIdx_cons_zero, look_cons]
    by_cases e : y = t
    · subst e; simp [look_notin ts as y hn.1]
    · simp [e]
  | t :: ts, a :: as, j + 1, x, y, hn, h, hl => by
    simp only [List.getElem?_cons_succ] at h
    rw [List.nodup_cons] at hn
    have hx : x ∈ ts := List.mem_of_getElem? h
    have h1 : x ≠ t := fun e => hn.1 (e ▸ hx)
    simp only [List.eraseIdx_cons_succ, look_cons]
    rw [look_eraseIdx ts as j x y hn.2 h (by simpa using hl)]
    by_cases e : y = t
    · have : y ≠ x := fun e' => h1 (e'.symm.trans e)
      simp [e, this]
      intro e2; exact absurd e2.symm h1
    · simp [e]

theorem look_idPad : ∀ (toks : List Nat) (k x : Nat), look toks (idPad k) x = I1
  | [], k, x => look_nil_left _ x
  | t :: ts, 0, x => rfl
  | t :: ts, k + 1, x => by
    show look (t :: ts) ((false, false) :: idPad k) x = I1
    rw [look_cons, look_idPad ts k x]
    by_cases e : x = t <;> simp [e, I1]

/-- through a duplicate-free slot list the letters are determined by the lifted letters -/
theorem look_inj : ∀ (toks : List Nat) (ps qs : List P1), toks.Nodup → ps.length = toks.length →
    qs.length = toks.length → (∀ x, x ∈ toks → look toks ps x = look toks qs x) → ps = qs
  | [], [], [], _, _, _, _ => rfl
  | [], a :: as, _, _, h, _, _ => by simp at h
  | [], [], b :: bs, _, _, h, _ => by simp at h
  | t :: ts, [], _, _, h, _, _ => by simp at h
  | t :: ts, a :: as, [], _, _, h, _ => by simp at h
  | t :: ts, a :: as, b :: bs, hn, h1, h2, h => by
    rw [List.nodup_cons] at hn
    have e0 := h t List.mem_cons_self
    simp only [look_cons, if_true] at e0
    subst e0
    congr 1
    apply look_inj ts as bs hn.2 (by simpa using h1) (by simpa using h2)
    intro x hx
    have hxt : x ≠ t := fun e => hn.1 (e ▸ hx)
    have := h x (List.mem_cons_of_mem _ hx)
    simpa only [look_cons, if_neg hxt] using this

/-! ### `lift` -/

theorem lift_congr (toks : List Nat) {p q : POp} (h : p ≈ₚ q) : lift toks p ≈ₜ lift toks q :=
  ⟨h.2, fun x => by simp only [lift, h.1]⟩

/-- `lift` through a duplicate-free slot list is injective on operators of the register's width -/
theorem lift_inj {toks : List Nat} {p q : POp} (hn : toks.Nodup) (hp : p.ps.length = toks.length)
    (hq : q.ps.length = toks.length) (h : lift toks p ≈ₜ lift toks q) : p ≈ₚ q :=
  ⟨look_inj toks p.ps q.ps hn hp hq (fun x _ => h.2 x), h.1⟩

theorem lift_one (toks : List Nat) (k : Nat) : lift toks (Stab.one k) ≈ₜ TOp.one :=
  ⟨rfl, fun x => look_idPad toks k x⟩

theorem lift_off (toks : List Nat) (p : POp) {x : Nat} (h : x ∉ toks) : (lift toks p).f x = I1 :=
  look_notin toks p.ps x h

theorem lift_nil (p : POp) : lift [] p ≈ₜ ⟨p.ph, fun _ => I1⟩ := ⟨rfl, fun x => look_nil_left p.ps x⟩

/-- `lift` of a tensor product over concatenated, disjoint slot lists is the product of the lifts -/
theorem lift_tensor (ta tb : List Nat) (q r : POp) (hq : q.ps.length = ta.length)
    (hd : ∀ x, x ∈ ta → x ∉ tb) : lift (ta ++ tb) (q.tensor r) ≈ₜ (lift ta q).dmul (lift tb r) := by
  refine ⟨rfl, fun x => ?_⟩
  show look (ta ++ tb) (q.ps ++ r.ps) x = mul1 (look ta q.ps x) (look tb r.ps x)
  rw [look_append ta tb q.ps r.ps x hq]
  by_cases hx : x ∈ ta
  · rw [if_pos hx, look_notin tb r.ps x (hd x hx), mul1_I1_right]
  · rw [if_neg hx, look_notin ta q.ps x hx, mul1_I1_left]

/-! ### conjugation -/

theorem conj1_congr (g : Gate1) (x : Nat) {a b : TOp} (h : a ≈ₜ b) : a.conj1 g x ≈ₜ b.conj1 g x := by
  refine ⟨?_, fun y => ?_⟩
  · have := h.1; simp only [TOp.conj1, h.2 x]; omega
  · simp only [TOp.conj1, upd, h.2 x, h.2 y]

theorem conj2_congr (g : Gate2) (c d : Nat) {a b : TOp} (h : a ≈ₜ b) : a.conj2 g c d ≈ₜ b.conj2 g c d := by
  refine ⟨?_, fun y => ?_⟩
  · have := h.1; simp only [TOp.conj2, h.2 c, h.2 d]; omega
  · simp only [TOp.conj2, upd, h.2 c, h.2 d, h.2 y]

/-- conjugation at a token where the other factor is the identity acts on the first factor only -/
theorem conj1_dmul (g : Gate1) (x : Nat) (a r : TOp) (hr : r.f x = I1) :
    (a.dmul r).conj1 g x ≈ₜ (a.conj1 g x).dmul r := by
  refine ⟨?_, fun y => ?_⟩
  · simp only [TOp.conj1, TOp.dmul, hr, mul1_I1_right]; omega
  · simp only [TOp.conj1, TOp.dmul, upd, hr, mul1_I1_right]
    by_cases e : y = x
    · subst e; simp [hr, mul1_I1_right]
    · simp [e]

theorem conj2_dmul (g : Gate2) (c d : Nat) (a r : TOp) (hc : r.f c = I1) (hd : r.f d = I1) :
    (a.dmul r).conj2 g c d ≈ₜ (a.conj2 g c d).dmul r := by
  refine ⟨?_, fun y => ?_⟩
  · simp only [TOp.conj2, TOp.dmul, hc, hd, mul1_I1_right]; omega
  · simp only [TOp.conj2, TOp.dmul, upd, hc, hd, mul1_I1_right]
    by_cases e : y = c
    · subst e; simp [hc, mul1_I1_right]
    · by_cases e' : y = d
      · subst e'; simp [e, hd, mul1_I1_right]
      · simp [e, e']

theorem lift_conjAt1 (g : Gate1) {toks : List Nat} {j x : Nat} (q : POp) (hn : toks.Nodup)
    (hj : toks[j]? = some x) (hl : j < q.ps.length) :
    (lift toks q).conj1 g x ≈ₜ lift toks (conjAt1 g j q) := by
  have e := look_eq_getP toks q.ps j x hn hj hl
  refine ⟨?_, fun y => ?_⟩
  · simp only [TOp.conj1, lift, conjAt1, e]
  · simp only [TOp.conj1, lift, conjAt1, e, upd]
    rw [look_setP toks q.ps j x _ y hn hj hl]

theorem lift_conjAt2 (g : Gate2) {toks : List Nat} {jc jd c d : Nat} (q : POp) (hn : toks.Nodup)
    (hjc : toks[jc]? = some c) (hjd : toks[jd]? = some d) (hlc : jc < q.ps.length) (hld : jd < q.ps.length) :
    (lift toks q).conj2 g c d ≈ₜ lift toks (conjAt2 g jc jd q) := by
  have ec := look_eq_getP toks q.ps jc c hn hjc hlc
  have ed := look_eq_getP toks q.ps jd d hn hjd hld
  refine ⟨?_, fun y => ?_⟩
  · simp only [TOp.conj2, lift, conjAt2, ec, ed]
  · simp only [TOp.conj2, lift, conjAt2, ec, ed, upd]
    rw [look_setP toks _ jc c _ y hn hjc (by simpa [setP] using hlc),
      look_setP toks q.ps jd d _ y hn hjd hld]

/-! ### multiplication by `±Z`, restriction, a fresh qubit -/

theorem phL_zAt : ∀ (ps : List P1) (k j : Nat), ps.length = k → j < k →
    phL ps (setP (idPad k) j (false, true)) = iexp (getP ps j) (false, true)
  | [], k, j, h, hj => by simp at h; omega
  | a :: as, 0, j, h, hj => by omega
  | a :: as, k + 1, 0, h, _ => by
    show iexp a (false, true) + phL as (idPad k) = _
    rw [show idPad k = List.replicate k I1 from rfl, phL_one_right]; rfl
  | a :: as, k + 1, j + 1, h, hj => by
    show iexp a (false, false) + phL as (setP (idPad k) j (false, true)) = _
    rw [phL_zAt as k j (by simpa using h) (by omega)]
    have : iexp a (false, false) = 0 := iexp_I1_right a
    rw [this]; simp

theorem mulL_zAt : ∀ (ps : List P1) (k j : Nat), ps.length = k → j < k →
    mulL ps (setP (idPad k) j (false, true)) = setP ps j (mul1 (getP ps j) (false, true))
  | [], k, j, h, hj => by simp at h; omega
  | a :: as, 0, j, h, hj => by omega
  | a :: as, k + 1, 0, h, _ => by
    show mul1 a (false, true) :: mulL as (idPad k) = _
    rw [show idPad k = List.replicate k I1 from rfl, mulL_one_right k as (by simpa using h)]; rfl
  | a :: as, k + 1, j + 1, h, hj => by
    show mul1 a (false, false) :: mulL as (setP (idPad k) j (false, true)) = _
    rw [mulL_zAt as k j (by simpa using h) (by omega)]
    have : mul1 a (false, false) = a := mul1_I1_right a
    rw [this]; rfl

theorem mulZ_congr (x : Nat) (o : Bool) {a b : TOp} (h : a ≈ₜ b) : a.mulZ x o ≈ₜ b.mulZ x o := by
  refine ⟨?_, fun y => ?_⟩
  · have := h.1; simp only [TOp.mulZ, h.2 x]; omega
  · simp only [TOp.mulZ, upd, h.2 x, h.2 y]

theorem mulZ_dmul (x : Nat) (o : Bool) (a r : TOp) (hr : r.f x = I1) :
    (a.dmul r).mulZ x o ≈ₜ (a.mulZ x o).dmul r := by
  refine ⟨?_, fun y => ?_⟩
  · simp only [TOp.mulZ, TOp.dmul, hr, mul1_I1_right]; omega
  · simp only [TOp.mulZ, TOp.dmul, upd, hr, mul1_I1_right]
    by_cases e : y = x
    · subst e; simp [hr, mul1_I1_right]
    · simp [e]

theorem lift_mulZ {toks : List Nat} {j x : Nat} (o : Bool) (q : POp) (hn : toks.Nodup)
    (hj : toks[j]? = some x) (hl : q.ps.length = toks.length) :
    lift toks (q ⋆ zAt toks.length j o) ≈ₜ (lift toks q).mulZ x o := by
  have hjl : j < toks.length := (List.getElem?_eq_some_iff.1 hj).1
  have e := look_eq_getP toks q.ps j x hn hj (hl ▸ hjl)
  refine ⟨?_, fun y => ?_⟩
  · simp only [TOp.mulZ, lift, POp.mul, zAt, e, phL_zAt q.ps toks.length j hl hjl]
  · simp only [TOp.mulZ, lift, POp.mul, zAt, e, upd, mulL_zAt q.ps toks.length j hl hjl]
    rw [look_setP toks q.ps j x _ y hn hj (hl ▸ hjl)]

theorem restrict_congr (x : Nat) (o : Bool) {a b : TOp} (h : a ≈ₜ b) : a.restrict x o ≈ₜ b.restrict x o := by
  refine ⟨?_, fun y => ?_⟩
  · have := h.1; simp only [TOp.restrict, h.2 x]; omega
  · simp only [TOp.restrict, upd, h.2 y]

theorem restrict_dmul (x : Nat) (o : Bool) (a r : TOp) (hr : r.f x = I1) :
    (a.dmul r).restrict x o ≈ₜ (a.restrict x o).dmul r := by
  refine ⟨?_, fun y => ?_⟩
  · simp only [TOp.restrict, TOp.dmul, hr, mul1_I1_right]; omega
  · simp only [TOp.restrict, TOp.dmul, upd]
    by_cases e : y = x
    · subst e; simp [hr, mul1_I1_right]
    · simp [e]

theorem lift_restrictOp {toks : List Nat} {j x : Nat} (o : Bool) (q : POp) (hn : toks.Nodup)
    (hj : toks[j]? = some x) (hl : q.ps.length = toks.length) :
    lift (toks.eraseIdx j) (restrictOp j o q) ≈ₜ (lift toks q).restrict x o := by
  have hjl : j < toks.length := (List.getElem?_eq_some_iff.1 hj).1
  have e := look_eq_getP toks q.ps j x hn hj (hl ▸ hjl)
  refine ⟨?_, fun y => ?_⟩
  · simp only [TOp.restrict, lift, restrictOp, e]
  · simp only [TOp.restrict, lift, restrictOp, upd]
    rw [look_eraseIdx toks q.ps j x y hn hj hl]

/-- the letters of a lifted operator extended by one slot with the unused label `x` -/
theorem lift_snoc {toks : List Nat} {x : Nat} (q : POp) (c : P1) (hx : x ∉ toks)
    (hl : q.ps.length = toks.length) :
    lift (toks ++ [x]) ⟨q.ph, q.ps ++ [c]⟩ ≈ₜ ⟨q.ph, upd (lift toks q).f x c⟩ := by
  refine ⟨rfl, fun y => ?_⟩
  show look (toks ++ [x]) (q.ps ++ [c]) y = upd (look toks q.ps) x c y
  rw [look_append toks [x] q.ps [c] y hl]
  by_cases e : y = x
  · subst e; simp [hx, look_cons, upd]
  · by_cases hm : y ∈ toks
    · simp [hm, upd, e]
    · simp [hm, upd, e, look_cons, look_nil_left, look_notin toks q.ps y hm]

theorem upd_dmul (a r : TOp) (x : Nat) (c : P1) (hr : r.f x = I1) (y : Nat) :
    upd (a.dmul r).f x c y = mul1 (upd a.f x c y) (r.f y) := by
  simp only [TOp.dmul, upd]
  by_cases e : y = x
  · subst e; simp [hr, mul1_I1_right]
  · simp [e]

/-! ### `pos` -/

theorem pos_some : ∀ (toks : List Nat) (x j : Nat), pos toks x = some j → toks[j]? = some x
  | [], x, j, h => by simp [pos] at h
  | t :: ts, x, j, h => by
    simp only [pos] at h
    by_cases e : x = t
    · rw [if_pos e] at h; cases h; simp [e]
    · rw [if_neg e] at h
      cases hp : pos ts x with
      | none => rw [hp] at h; cases h
      | some j' =>
        rw [hp] at h; simp only [Option.map_some, Option.some.injEq] at h
        subst h
        simpa using pos_some ts x j' hp

theorem pos_of_get : ∀ (toks : List Nat) (x j : Nat), toks.Nodup → toks[j]? = some x → pos toks x = some j
  | [], x, j, _, h => by simp at h
  | t :: ts, x, 0, _, h => by
    simp only [List.getElem?_cons_zero, Option.some.injEq] at h
    simp [pos, h]
  | t :: ts, x, j + 1, hn, h => by
    simp only [List.getElem?_cons_succ] at h
    rw [List.nodup_cons] at hn
    have hx : x ∈ ts := List.mem_of_getElem? h
    have h1 : x ≠ t := fun e => hn.1 (e ▸ hx)
    simp only [pos, if_neg h1, pos_of_get ts x j hn.2 h, Option.map_some]

theorem pos_of_mem (toks : List Nat) (x : Nat) (hn : toks.Nodup) (hx : x ∈ toks) : ∃ j, pos toks x = some j := by
  obtain ⟨j, hj⟩ := List.mem_iff_getElem?.1 hx
  exact ⟨j, pos_of_get toks x j hn hj⟩

end SqVerif.Joint

"""C05 -- failed operations are atomic and surface as the documented error type
(simulaqron/virtual_node/virtual.py, quantum.py).

Thin module: program generation, execution of the REAL virtual-node code on
harness/simnet.py, the tie against the Lean model `VNet` (driver `vnet`:
result, engine-call trace and object-graph snapshot after EVERY op) and all
oracles live in harness/vnetcase.py.  This check owns the oracle
"deep snapshot unchanged, locks free, documented class, program still matches the reference";
failures of the other L2 oracles (owned by C01/C02/C05/C06/C07) are listed as
notes in the evidence.

Extra stage (harness/vnetx_cases.py, shared with C02): refusals of the
client-visible operations the base programs do not contain -- new_qubit_inreg
(register full while the node has room, node full, register no longer in the
table), the NetQASM send wrappers (full receiver, unknown node / number),
register limits.  Of that stage's oracles this check owns `xatomic` (an op
that returns an error leaves object graph, generator matrices and queues
unchanged, locks free) and `xrefuse` (refusal and error class predicted from
plain counters); the rest are notes (C02 owns them).

Stage "refusals under contention" (harness/vnet_contend.py): every refusal
cause x placement once more while a third party (a separate PB client that
called the node's real `get_global_lock`) holds the global lock of each node
the refused op touches -- issuer / target / simulator, one at a time, all
together, a bystander --, and at random points of random histories: the held
locks stay held and are never released while the op is pending, nothing
changes; after the third party releases, the op completes with the documented
class, all locks are free, the state equals the pre-state and follow-up ops on
every involved node succeed (kinds atomic / typing / followup, keys
`contended:*` / `after-contended-refusal:*`)."""
from .. import core
from .. import vnetcase
from .. import vnetx_cases
from .. import vnet_contend

LEAN_TARGETS = ["SqVerif.Props.C05"]
PROPS_FILE = "SqVerif/Props/C05.lean"
DRIVE_TARGETS = ["SqVerif.Drive.VNet", "SqVerif.Drive.VNetX"]
TRUSTED = [
    "model VNet.lean hand-written from virtual.py / quantum.py (after the repairs F1 F2 F3); tied by differential execution "
    "after every op: result, engine-call trace, object-graph snapshot (this check)",
    "harness/simnet.py: real virtualNode objects over real Perspective Broker on in-memory pipes, FIFO delivery, fake clock",
    "creation-order identities and the engine-call trace are taken by wrapping constructors / engine methods of the scratch "
    "copy from outside",
    "NumPy state-vector reference (complex128, tolerance 1e-8) and the conventions qubit 0 = leftmost factor, "
    "K = [[1,-i],[i,-1]]/sqrt2 (validated against the stabilizer code by C13/C14)",
    "extended stage: model VNetX.lean (theorems in Props/C02X.lean, audited by C02) tied after every op through the driver "
    "`vnetx`; the refusal / atomicity oracle itself is independent of the model",
]
ASSUMPTIONS = [
    "operations are issued one after the other, each to completion (interleavings are C03/C04)",
    "stabilizer backend, noise off; two-qubit gates only between handles held by the same node (the API cannot express more)",
    "no send addressed to the issuing node (deadlocks: known finding under C04)",
]


def run(ctx):
    rp = getattr(ctx, "replay", None)
    if rp and vnet_contend.is_contend(rp):
        core.scratch_repo()
        return vnet_contend.stage(ctx, core.Result())
    if rp and vnetx_cases.is_x(rp):
        core.scratch_repo()
        return vnetx_cases.stage(ctx, core.Result(), prop="C05")
    res = vnetcase.run_check(ctx, "C05")
    if not rp:
        vnetx_cases.stage(ctx, res, prop="C05", n_gen=ctx.scale(40, 2000))
        vnet_contend.stage(ctx, res)
    return res


def search(ctx, res, broken):
    return vnetcase.search(ctx, res, broken, "C05")

/-
L8 — model of `simulaqron/settings.py` (class `Config`, the module-level object
`simulaqron_settings`).  Core Lean only.

A Python `dict` with string keys is an association list (`Store`); a value is
the canonical JSON text of the Python value (`json.dumps(v, sort_keys=True,
separators=(",", ":"))`), which is all the code ever looks at apart from the
truth value of `_read_user` (`truthy`).  The two files are

  * the store  `config/settings.json`   (`World.store`, `none` = file absent),
    written only by the settings object (`_write`, settings.py:114-119);
  * the user's override file `~/.simulaqron.json` (`u : Option Store`), never
    written by the code.

`World.mem` is `Config._config` of one process.  Every function returns the
state it leaves behind *and* an `Outcome`; an exception is an explicit outcome,
never a totalised default.

The model follows the code with the `fix:` commit of branch `fix-c18`
(`_write` serialises before it opens the file, `_set_setting` rejects a value
that cannot be stored before it touches anything): a rejected `set` changes
neither the memory nor the store.  Line numbers are those of the fixed file.
(Before the fix a rejected value stayed in memory and `_write` left
`settings.json` truncated: every later process died in `json.load`.)
-/
namespace SqVerif.Settings

abbrev Key := String
/-- canonical JSON text of a value -/
abbrev Value := String
/-- a Python dict with string keys, in insertion order -/
abbrev Store := List (Key × Value)

/-- `d.get(k)` -/
def lookup (k : Key) : Store → Option Value
  | [] => none
  | (a, b) :: t => if a = k then some b else lookup k t

/-- `d[k] = v` : replace in place, else append -/
def put (k : Key) (v : Value) : Store → Store
  | [] => [(k, v)]
  | (a, b) :: t => if a = k then (k, v) :: t else (a, b) :: put k v t

/-- `d.update(o)` : successive item assignments, in the order of `o` -/
def update (d o : Store) : Store := o.foldl (fun m p => put p.1 p.2 m) d

/-- the dict denoted by a list of items (a dict literal / a parsed JSON object:
a repeated key keeps its last value) -/
def norm (o : Store) : Store := update [] o

/-- "is a dict": no key occurs twice -/
def wf : Store → Bool
  | [] => true
  | (a, _) :: t => (lookup a t).isNone && wf t

/-- Python truth value of a JSON value, from its canonical text
(`if self._read_user:` settings.py:104).  The falsy values are `None`, `False`,
`0`, `0.0`, `-0.0`, `""`, `[]`, `{}`. -/
def truthy (v : Value) : Bool :=
  !(["null", "false", "0", "0.0", "-0.0", "\"\"", "[]", "{}"].contains v)

/-- the key of the switch for the user's override file -/
def readUserKey : Key := "_read_user"

structure World where
  /-- `Config._config` of the process -/
  mem : Store
  /-- `settings.json`; `none` = the file does not exist -/
  store : Option Store
deriving Repr, DecidableEq

inductive Outcome
  | ok
  | keyError    -- `_get_setting` settings.py:121-125
  | typeError   -- `json.dumps(value)` settings.py:130: the value cannot be stored (raised before any change)
deriving Repr, DecidableEq

/-- settings.py:105-108 `if os.path.exists(user file): self._config.update(json.load(f))` -/
def applyUser (u : Option Store) (m : Store) : Store :=
  match u with
  | some uf => update m uf
  | none => m

/-- settings.py:104-108: read the switch (`self._read_user` → `_get_setting`), then the user layer -/
def userLayer (u : Option Store) (m : Store) : Store × Outcome :=
  match lookup readUserKey m with
  | none => (m, .keyError)
  | some f => if truthy f then (applyUser u m, .ok) else (m, .ok)

/-- settings.py:90-108 `update_settings(default)`; `D` is `_default_config`. -/
def updateSettings (D : Store) (u : Option Store) (dflt : Bool) (w : World) : World × Outcome :=
  let m1 := update w.mem D                                     -- :92
  if dflt then ({ w with mem := m1 }, .ok)                     -- :95
  else
    match w.store with
    | some s =>                                                -- :96-99
      let r := userLayer u (update m1 s)
      ({ mem := r.1, store := some s }, r.2)
    | none =>                                                  -- :100-101 `self._write()`
      let r := userLayer u m1
      ({ mem := r.1, store := some m1 }, r.2)

/-- settings.py:110-112 `default_settings()` -/
def defaultSettings (D : Store) (u : Option Store) (w : World) : World × Outcome :=
  let r := updateSettings D u true w
  ({ mem := r.1.mem, store := some r.1.mem }, r.2)             -- :112 `self._write()`

/-- settings.py:128-132 `_set_setting(k, v)` for a value that can be serialised -/
def setSetting (k : Key) (v : Value) (w : World) : World × Outcome :=
  let m := put k v w.mem                                       -- :131
  ({ mem := m, store := some m }, .ok)                         -- :132 `self._write()` dumps ALL of memory

/-- `Config()` in a fresh interpreter: `_config = {}` (settings.py:58), then
`__init__` = `update_settings()` (:87-88) -/
def boot (D : Store) (u : Option Store) (store : Option Store) : World × Outcome :=
  updateSettings D u false { mem := [], store := store }

/-- what one settings object (and its successor processes) can do -/
inductive Op
  | set (k : Key) (v : Value)   -- `simulaqron_settings.k = v`
  | setBad (k : Key)            -- the same with a value `json` cannot serialise
  | reset                       -- `default_settings()`
  | reload                      -- `update_settings()`
  | restart                     -- the process ends, a new one starts (each CLI call is one)
deriving Repr, DecidableEq

def step (D : Store) (u : Option Store) (w : World) : Op → World × Outcome
  | .set k v => setSetting k v w
  | .setBad _ => (w, .typeError)                               -- :130 raises, nothing was touched
  | .reset => defaultSettings D u w
  | .reload => updateSettings D u false w
  | .restart => boot D u w.store

def run (D : Store) (u : Option Store) (w : World) (ops : List Op) : World :=
  ops.foldl (fun w op => (step D u w op).1) w

/-! ### vocabulary of the specification (no reference to `World`) -/

/-- the value the user's override file gives key `k` (`none`: no file, or the file does not set `k`) -/
def userValue (u : Option Store) (k : Key) : Option Value :=
  match u with
  | some uf => lookup k (norm uf)
  | none => none

/-- the documented default of `k` -/
def defaultOf (D : Store) (k : Key) : Option Value := lookup k (norm D)

/-- what a process has in memory after the default and the stored layer -/
def baseMem (D : Store) (store : Option Store) : Store :=
  match store with
  | some s => update (norm D) s
  | none => norm D

/-- "user overrides are enabled": the switch as the defaults and the store give it -/
def enabled (D : Store) (store : Option Store) : Bool :=
  match lookup readUserKey (baseMem D store) with
  | some f => truthy f
  | none => false

/-- last-writer table before anything was done: the value in a store left by
earlier sessions, else the default -/
def initTable (D : Store) (S0 : Option Store) (k : Key) : Option Value :=
  match S0 with
  | some s => (lookup k (norm s)).or (defaultOf D k)
  | none => defaultOf D k

/-- last-writer table: `set` records the value, `reset` records the default of
every documented key, everything else leaves the table alone -/
def specStep (D : Store) (T : Key → Option Value) : Op → (Key → Option Value)
  | .set k v => fun j => if k = j then some v else T j
  | .reset => fun j => (defaultOf D j).or (T j)
  | .setBad _ => T
  | .reload => T
  | .restart => T

def lastWritten (D : Store) (S0 : Option Store) (ops : List Op) : Key → Option Value :=
  ops.foldl (specStep D) (initTable D S0)

end SqVerif.Settings

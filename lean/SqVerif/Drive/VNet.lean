import SqVerif.VNet
import SqVerif.Drive.Util
/- driver for the virtual-node model (stateful).
   in : init <maxQubits>,<maxRegs> ...           one pair per node; resets the state
        new <node> | g1 <hid> <X|Y|Z|H|K|T|Rot> | g2 <hc> <ht> <CNOT|CPHASE>
        send <hid> <node> | meas <hid> <inplace 0/1> <outcome 0/1>
   out: <result> | <engine ops> | <snapshot>
   snapshot: per node `N<i> nr=<numRegs> nx=<nextReg> R[num:max:len ...] V[hid:num:simNode:simObj ...] S[oid:simNum:reg:pos ...]`,
   then `VA[...]` / `SA[...]` = active flags of every handle / simulated-qubit object ever created. -/
namespace SqVerif.Drive.VNet
open SqVerif.VNet SqVerif.Drive

def showErr : Err → String
  | .noQubit => "noQubitError" | .quantum => "quantumError" | .virtNet => "virtNetError"
  | .unsupported => "SimUnsupportedError" | .value => "ValueError"

def showRes : Res → String
  | .handle h => s!"handle {h}" | .num n => s!"num {n}" | .outcome b => s!"outcome {if b then 1 else 0}"
  | .unit => "unit" | .none => "none" | .err e => "err " ++ showErr e | .badCall => "bad-call" | .selfSend => "self-send"

def showG1 : G1 → String
  | .X => "X" | .Y => "Y" | .Z => "Z" | .H => "H" | .K => "K" | .T => "T" | .Rot => "Rot"
def showG2 : G2 → String | .CNOT => "CNOT" | .CPHASE => "CPHASE"

def showEOp : EOp → String
  | .newReg n r => s!"newReg:{n}:{r}" | .delReg n r => s!"delReg:{n}:{r}" | .addFresh n r => s!"addFresh:{n}:{r}"
  | .gate1 g n r p => s!"gate1:{showG1 g}:{n}:{r}:{p}" | .gate2 g n r c t => s!"gate2:{showG2 g}:{n}:{r}:{c}:{t}"
  | .measInplace n r p o => s!"measInplace:{n}:{r}:{p}:{if o then 1 else 0}" | .remove n r p => s!"remove:{n}:{r}:{p}"
  | .absorb n a b => s!"absorb:{n}:{a}:{b}" | .exportDel n r => s!"exportDel:{n}:{r}"
  | .absorbParts n r sn sr => s!"absorbParts:{n}:{r}:{sn}:{sr}"

def b01 (b : Bool) : String := if b then "1" else "0"

def showNode (s : Net) (i : Nat) (n : Node) : String :=
  let regs := " ".intercalate (n.regs.map fun r => s!"{r.num}:{r.max}:{r.toks.length}")
  let virt := " ".intercalate (n.virt.map fun h => match s.vqs[h]? with
    | some v => s!"{h}:{v.num}:{v.simNode}:{v.simObj}" | none => s!"{h}:?")
  let sim := " ".intercalate (n.sim.map fun o => match s.sqs[o]? with
    | some q => s!"{o}:{q.simNum}:{q.reg}:{q.pos}" | none => s!"{o}:?")
  s!"N{i} nr={n.numRegs} nx={n.nextReg} R[{regs}] V[{virt}] S[{sim}]"

def showNet (s : Net) : String :=
  let nodes := " ; ".intercalate (s.nodes.mapIdx fun i n => showNode s i n)
  let va := "".intercalate (s.vqs.map fun v => b01 v.active)
  let sa := "".intercalate (s.sqs.map fun q => b01 q.active)
  s!"{nodes} ; VA[{va}] SA[{sa}]"

def showToks (s : Net) : String :=
  " ; ".intercalate (s.nodes.mapIdx fun i n =>
    s!"N{i} " ++ " ".intercalate (n.regs.map fun r => s!"{r.num}:" ++ ",".intercalate (r.toks.map toString)))

def g1? : String → Option G1
  | "X" => some .X | "Y" => some .Y | "Z" => some .Z | "H" => some .H | "K" => some .K | "T" => some .T
  | "Rot" => some .Rot | _ => none
def g2? : String → Option G2 | "CNOT" => some .CNOT | "CPHASE" => some .CPHASE | _ => none

def parseOp (ws : List String) : Option Op :=
  match ws with
  | ["new", a] => a.toNat?.map Op.new
  | ["g1", h, g] => do let h ← h.toNat?; let g ← g1? g; pure (.gate1 h g)
  | ["g2", hc, ht, g] => do let hc ← hc.toNat?; let ht ← ht.toNat?; let g ← g2? g; pure (.gate2 hc ht g)
  | ["send", h, b] => do let h ← h.toNat?; let b ← b.toNat?; pure (.send h b)
  | ["meas", h, ip, o] => do let h ← h.toNat?; pure (.measure h (ip == "1") (o == "1"))
  | _ => none

def parseCap (w : String) : Option (Nat × Nat) :=
  match w.splitOn "," with
  | [a, b] => do let a ← a.toNat?; let b ← b.toNat?; pure (a, b)
  | _ => none

def stepLine (s : Net) (line : String) : Net × String :=
  match words line with
  | "init" :: caps =>
    match caps.mapM parseCap with
    | some cs => (init cs, "ok")
    | none => (s, "bad-op")
  | ["toks"] => (s, showToks s)
  | ws =>
    match parseOp ws with
    | none => (s, "bad-op")
    | some op =>
      let (s', r, es) := step s op
      (s', showRes r ++ " | " ++ " ".intercalate (es.map showEOp) ++ " | " ++ showNet s')

end SqVerif.Drive.VNet

"""NumPy stand-in for the subset of the QuTiP 4.x API that
`simulaqron/virtual_node/qutip_simulator.py` (and the repo's engine test)
uses.  NOT QuTiP.  It exists because qutip is not installed in the sandbox and
cannot be fetched; it lets the real `qutipEngine` code run.

Conventions reproduced (QuTiP 4.x, stated as an ASSUMPTION of check C15):
  * `Qobj()` with no input is the 1x1 zero operator with dims [[1], [1]];
  * `tensor(a, b)` is the Kronecker product, first argument = leftmost
    (most significant) factor, dims concatenated per side;
  * `Qobj.ptrace(sel)` keeps the subsystems in `sel` (sorted ascending, as
    QuTiP 4 does) and uses `dims[0]` to split the space;
  * `gate_expand_1toN(U, N, target)` = I x ... x U(target) x ... x I and
    `gate_expand_2toN(U, N, control, target)` = U acting with its first factor
    on `control` and its second on `target`, with QuTiP's ValueErrors for
    N too small / index out of range / control == target;
  * `Qobj * Qobj` is the matrix product and raises TypeError when
    `left.dims[1] != right.dims[0]` ("Incompatible Qobj shapes");
  * `==` compares dims and data with absolute tolerance 1e-12.
"""
import numbers

import numpy as np
import scipy.linalg

__version__ = "4.7-standin"
__all__ = ["Qobj", "basis", "tensor", "gate_expand_1toN", "gate_expand_2toN", "sigmax", "sigmay", "sigmaz",
           "qeye", "identity", "cnot", "csign"]

ATOL = 1e-12


class Qobj:
    __array_priority__ = 100

    def __init__(self, inpt=None, dims=None, shape=None, copy=True):
        if isinstance(inpt, Qobj):
            data = np.array(inpt._data, dtype=complex)
            if dims is None:
                dims = [list(inpt.dims[0]), list(inpt.dims[1])]
        elif inpt is None:
            # QuTiP 4: "if no input is given, build empty Qobj" -> 1x1 zero
            if dims is not None and any(dims):
                data = np.zeros((int(np.prod(dims[0])), int(np.prod(dims[1]))), dtype=complex)
            else:
                data = np.zeros((1, 1), dtype=complex)
                dims = [[1], [1]]
        elif isinstance(inpt, numbers.Number):
            data = np.array([[inpt]], dtype=complex)
        else:
            data = np.array(inpt, dtype=complex)
            if data.ndim == 1:
                data = data.reshape((-1, 1))       # QuTiP: a flat list is a ket
            if data.ndim != 2:
                raise TypeError("Qobj input must be a scalar, a vector or a matrix")
        self._data = data
        if dims is None:
            self.dims = [[data.shape[0]], [data.shape[1]]]
        else:
            self.dims = [list(dims[0]), list(dims[1])]
            if int(np.prod(self.dims[0])) != data.shape[0] or int(np.prod(self.dims[1])) != data.shape[1]:
                raise ValueError("Qobj dims %r do not match shape %r" % (dims, data.shape))

    # -- basic properties ---------------------------------------------------
    @property
    def shape(self):
        return self._data.shape

    @property
    def data(self):
        return self._data

    def full(self, order="C", squeeze=False):
        out = np.array(self._data, dtype=complex, order=order)
        return out.squeeze() if squeeze else out

    def copy(self):
        return Qobj(self)

    def dag(self):
        return Qobj(self._data.conj().T, dims=[self.dims[1], self.dims[0]])

    def conj(self):
        return Qobj(self._data.conj(), dims=self.dims)

    def trans(self):
        return Qobj(self._data.T, dims=[self.dims[1], self.dims[0]])

    def tr(self):
        t = complex(np.trace(self._data))
        # QuTiP returns a real number for Hermitian operators
        if self.isherm:
            return float(t.real)
        return t

    @property
    def isherm(self):
        return self._data.shape[0] == self._data.shape[1] and bool(
            np.all(np.abs(self._data - self._data.conj().T) <= ATOL))

    @property
    def isket(self):
        return self._data.shape[1] == 1 and self._data.shape[0] != 1

    @property
    def isoper(self):
        return self._data.shape[0] == self._data.shape[1]

    def norm(self):
        if self.isket:
            return float(np.linalg.norm(self._data))
        return float(np.sum(np.linalg.svd(self._data, compute_uv=False)))

    def unit(self):
        return self / self.norm()

    def expm(self):
        if self._data.shape[0] != self._data.shape[1]:
            raise TypeError("Invalid operand for matrix exponential")
        return Qobj(scipy.linalg.expm(self._data), dims=self.dims)

    # -- arithmetic ---------------------------------------------------------
    def __add__(self, other):
        if isinstance(other, Qobj):
            if self.dims != other.dims:
                raise TypeError("Incompatible quantum object dimensions")
            return Qobj(self._data + other._data, dims=self.dims)
        if isinstance(other, numbers.Number):
            if other == 0:
                return self.copy()
            return Qobj(self._data + other * np.eye(*self._data.shape), dims=self.dims)
        return NotImplemented

    __radd__ = __add__

    def __neg__(self):
        return Qobj(-self._data, dims=self.dims)

    def __sub__(self, other):
        return self + (-other)

    def __rsub__(self, other):
        return (-self) + other

    def __mul__(self, other):
        if isinstance(other, Qobj):
            if self.dims[1] != other.dims[0]:
                raise TypeError("Incompatible Qobj shapes")
            return Qobj(self._data @ other._data, dims=[self.dims[0], other.dims[1]])
        if isinstance(other, (numbers.Number, np.number)):
            return Qobj(self._data * complex(other), dims=self.dims)
        return NotImplemented

    def __rmul__(self, other):
        if isinstance(other, (numbers.Number, np.number)):
            return Qobj(self._data * complex(other), dims=self.dims)
        return NotImplemented

    def __truediv__(self, other):
        if isinstance(other, (numbers.Number, np.number)):
            return Qobj(self._data / complex(other), dims=self.dims)
        raise TypeError("Incompatible object for division")

    def __eq__(self, other):
        if not isinstance(other, Qobj):
            return False
        return self.dims == other.dims and not bool(np.any(np.abs(self._data - other._data) > ATOL))

    def __ne__(self, other):
        return not (self == other)

    __hash__ = None

    def __repr__(self):
        return "Quantum object (stand-in): dims = %r, shape = %r\nQobj data =\n%r" % (
            self.dims, self.shape, self._data)

    # -- subsystems ---------------------------------------------------------
    def ptrace(self, sel):
        """partial trace keeping the subsystems in `sel` (QuTiP 4 sorts them)"""
        if isinstance(sel, numbers.Integral):
            sel = [int(sel)]
        sel = sorted(int(s) for s in sel)
        dl = list(self.dims[0])
        n = len(dl)
        if any(s < 0 or s >= n for s in sel) or len(set(sel)) != len(sel):
            raise TypeError("Invalid selection index in ptrace.")
        if self.isket:
            m = self._data @ self._data.conj().T
        else:
            if self.dims[0] != self.dims[1]:
                raise ValueError("ptrace works on kets and square operators")
            m = self._data
        t = m.reshape(dl + dl)
        rest = [k for k in range(n) if k not in sel]
        # move kept row axes, kept column axes first; trace the others pairwise
        perm = sel + [n + s for s in sel] + rest + [n + r for r in rest]
        t = t.transpose(perm)
        dk = int(np.prod([dl[s] for s in sel])) if sel else 1
        dr = int(np.prod([dl[r] for r in rest])) if rest else 1
        t = t.reshape(dk, dk, dr, dr)
        out = np.einsum("abcc->ab", t)
        kd = [dl[s] for s in sel]
        return Qobj(out, dims=[kd, kd])

    def permute(self, order):
        """returns a NEW Qobj with the subsystems reordered (new[i] = old[order[i]])"""
        order = [int(o) for o in order]
        dl = list(self.dims[0])
        n = len(dl)
        if sorted(order) != list(range(n)):
            raise ValueError("Invalid permutation order")
        if self.isket:
            t = self._data.reshape(dl).transpose(order)
            nd = [dl[o] for o in order]
            return Qobj(t.reshape((-1, 1)), dims=[nd, [1] * n])
        t = self._data.reshape(dl + list(self.dims[1]))
        t = t.transpose(order + [n + o for o in order])
        nd = [dl[o] for o in order]
        return Qobj(t.reshape(self._data.shape), dims=[nd, nd])


def basis(N, n=0):
    if not isinstance(N, numbers.Integral) or N < 0:
        raise ValueError("N must be integer N >= 0")
    if not isinstance(n, numbers.Integral) or n < 0 or n > N - 1:
        raise ValueError("basis vector index need to be in n <= N-1")
    v = np.zeros((N, 1), dtype=complex)
    v[n, 0] = 1
    return Qobj(v, dims=[[N], [1]])


def qeye(N):
    return Qobj(np.eye(int(N), dtype=complex), dims=[[int(N)], [int(N)]])


identity = qeye


def sigmax():
    return Qobj([[0, 1], [1, 0]], dims=[[2], [2]])


def sigmay():
    return Qobj([[0, -1j], [1j, 0]], dims=[[2], [2]])


def sigmaz():
    return Qobj([[1, 0], [0, -1]], dims=[[2], [2]])


def tensor(*args):
    if len(args) == 1 and isinstance(args[0], (list, tuple, np.ndarray)):
        args = tuple(args[0])
    if not args:
        raise TypeError("Requires at least one input argument")
    if not all(isinstance(q, Qobj) for q in args):
        raise TypeError("One of inputs is not a quantum object")
    data = args[0]._data
    d0, d1 = list(args[0].dims[0]), list(args[0].dims[1])
    for q in args[1:]:
        data = np.kron(data, q._data)
        d0 += list(q.dims[0])
        d1 += list(q.dims[1])
    return Qobj(data, dims=[d0, d1])


def cnot(N=None, control=0, target=1):
    g = Qobj([[1, 0, 0, 0], [0, 1, 0, 0], [0, 0, 0, 1], [0, 0, 1, 0]], dims=[[2, 2], [2, 2]])
    if N is not None:
        return gate_expand_2toN(g, N, control, target)
    return g


def csign(N=None, control=0, target=1):
    g = Qobj([[1, 0, 0, 0], [0, 1, 0, 0], [0, 0, 1, 0], [0, 0, 0, -1]], dims=[[2, 2], [2, 2]])
    if N is not None:
        return gate_expand_2toN(g, N, control, target)
    return g


def gate_expand_1toN(U, N, target):
    if N < 1:
        raise ValueError("integer N must be larger or equal to 1")
    if target >= N:
        raise ValueError("target must be integer < integer N")
    if target < 0:
        # QuTiP builds [qeye(2)] * target + ...: a negative target silently gives a wrong-size operator;
        # the stand-in refuses instead (the engine never passes a negative index in check C15)
        raise ValueError("target must be a non-negative integer")
    return tensor([qeye(2)] * target + [U] + [qeye(2)] * (N - target - 1))


def gate_expand_2toN(U, N, control=None, target=None, targets=None):
    if targets is not None:
        control, target = targets
    if control is None or target is None:
        raise ValueError("Specify value of control and target")
    if N < 2:
        raise ValueError("integer N must be larger or equal to 2")
    if control >= N or target >= N:
        raise ValueError("control and not target must be integer < integer N")
    if control == target:
        raise ValueError("target and not control cannot be equal")
    if control < 0 or target < 0:
        raise ValueError("control and target must be non-negative integers")
    u = U._data.reshape(2, 2, 2, 2)                     # [c_out, t_out, c_in, t_in]
    full = np.zeros((2,) * (2 * N), dtype=complex)
    eye = np.eye(2, dtype=complex)
    # build the operator as a rank-2N tensor: out indices 0..N-1, in indices N..2N-1
    letters = "abcdefghijklmnopqrstuvwxyzABCDEFGHIJKLMNOPQRSTUVWXYZ"
    outs = [letters[k] for k in range(N)]
    ins = [letters[N + k] for k in range(N)]
    operands, subs = [u], [outs[control] + outs[target] + ins[control] + ins[target]]
    for k in range(N):
        if k not in (control, target):
            operands.append(eye)
            subs.append(outs[k] + ins[k])
    full = np.einsum(",".join(subs) + "->" + "".join(outs) + "".join(ins), *operands)
    return Qobj(full.reshape(2 ** N, 2 ** N), dims=[[2] * N, [2] * N])

"""Regenerates MANIFEST.json from the table below (run by hand when a check is added)."""
import json, os
V = os.path.dirname(os.path.dirname(os.path.abspath(__file__)))
BASE = "cd /repo && /venv/bin/python -m pytest -ra -q -p no:cacheprovider --timeout=900 --continue-on-collection-errors"
CHECKS = {
 "C17": dict(text="Lean theorems T17.1-5 (complete/ring/path/random_tree/random_connected_k are symmetric simple connected graphs over exactly the given nodes with the defining edge count, for every node list, every tree and every pick sequence; out-of-range k rejected; the executable tree test is sound) about a hand-written model of network.py, tied to the code by differential execution on every run with networkx's tree and random.choice recorded; a model-independent graph oracle judges every real output.",
             note="Trusted: Lean kernel + propext/Classical.choice/Quot.sound; the model Topo.lean mirrors network.py by hand and is compared with the code on a few hundred cases per run (graph-level); networkx's generator is treated as an environment whose output is checked to be a tree by a verified test.",
             technique="Lean 4 proof (induction over node lists / edge lists) + differential correspondence", ref="4 C17"),

 "C13": dict(text="Lean theorems (56): every gate row maps to its conjugate sign included (gate1_row/gate2_row); the conjugation tables equal matrix conjugation over the Gaussian integers (conj1/conj2_is_matrix_conjugation, decide); group-level 'resulting group is exactly the conjugated group' (gate1_group/gate2_group), Valid and ValidMax preserved; tensor/add_qubit give the product group in order; Gaussian elimination preserves the group and yields a unique reduced form, so __eq__ and contains are sound AND complete w.r.t. the group (stEq_sound/complete, contains_sound/complete/neg). Model Stab.lean mirrors stabilizer_states.py statement by statement and is tied on every run: all signed rows and all 1146 states on <=3 qubits x every gate/position/pair exhaustively, random states to 8 (thorough 10) qubits, literal comparison + group-level fallback; a NumPy state-vector oracle independent of the model judges every real execution.",
             note="Trusted: Lean kernel + propext/Classical.choice/Quot.sound; that an n-qubit Pauli string denotes the Kronecker product of its letters and a gate on qubit j acts as I..U..I (standard embedding; cross-checked numerically by the oracle); model tied by differential execution.",
             technique="Lean 4 proof (Pauli group algebra, induction over generator lists, RREF uniqueness) + exhaustive differential correspondence on <=3 qubits", ref="4 C13"),
 "C14": dict(text="Lean theorems (17) for every ValidMax state (and reachable_validMax: every state the engine can produce is ValidMax): measure refuses exactly bad positions; the reported outcome has non-zero Born probability; random branch iff some generator has X/Y at the qubit, then outcome = coin and both occur; otherwise the outcome is the certain one and coin-independent; in-place post-group = <(-1)^o Z_j> . Comm_j(G) exactly; destructive post-group = its restriction to the remaining qubits in order; re-measuring repeats. Model measure in Stab.lean mirrors the code branch by branch; tie: every state on <=3 qubits x position x mode x coin exhaustively + random to 8 qubits + engine wrappers; NumPy projector oracle.",
             note="Trusted: as C13; uniformity of randint is assumed (the theorem is about the decision given the coin).",
             technique="Lean 4 proof (group-level collapse algebra over the Gaussian-elimination interface) + exhaustive differential correspondence on <=3 qubits", ref="4 C14"),
 "C16": dict(text="Lean theorems (22) over all edit histories (add/remove node, add/remove network, reset, reload) with an arbitrary per-edit OS port oracle: endpoints unique; removed node gone from nodes and topology; JSON round trip exact; node id/name lookups are mutual inverses and identical for every participant/role; refusal characterisations; counterexample theorems for the three repaired defects. Model Config.lean tied to NetworksConfigConstructor / SocketsConfig / SimulaQronNetworkInfo by random edit scripts with forced port clashes and a scripted probe; model-independent oracle on the real objects.",
             note="Trusted: Lean kernel + standard axioms; host equality = equality of configured strings; merging two files into one constructor is outside the histories.",
             technique="Lean 4 proof (invariant by induction over edit histories, insertion-sort canonicity) + differential correspondence", ref="4 C16"),
 "C18": dict(text="Lean theorems (15): read_after_write, reset_restores_defaults, user_precedence and the single-writer history theorem by induction over any set/reset/reload/restart sequence, any pre-existing store and any user file; the default table is regenerated from settings.py (AST) on every run and the theorems re-checked on it. Tie: the real Config class with redirected files plus un-patched end-to-end runs; a fresh interpreter reads every key after every step.",
             note="Trusted: Lean kernel + propext/Quot.sound; AST translator of the default table; keys set by the user file are exempt as in the statement (the leak of user values into the store is modelled and reported as a note).",
             technique="Lean 4 proof (single-writer invariant by induction) + AST-generated facts + differential correspondence across processes", ref="4 C18"),
 "C19": dict(text="Lean theorems (16 + 12 generated obligations): noise off => exactly the requested engine call for any clock/draw/history; thresholds over any ordered ring (X iff x<p, Y iff p<=x<2p, Z iff 2p<=x<3p, none otherwise; the intervals partition [0,1) with lengths p,p,p,1-3p); rate (1-exp(-t/T1))/4 in [0,1/4) over Real.exp; only the qubit's own position is touched; every operation method applies noise first (decide over a table regenerated from quantum.py). Tie: real simulatedQubit on a real stabilizer register with time/random scripted, draws at the float thresholds.",
             note="Trusted: Lean kernel + standard axioms; floating-point rounding of np.exp beyond a 1-ulp comparison; 'operation on a qubit' = a method invoked on that simulated qubit (control side of two-qubit gates).",
             technique="Lean 4 proof (order arithmetic, Real.exp bounds) + AST-generated call table + differential correspondence", ref="4 C19"),

 "C10": dict(text="Lean theorems (15), unbounded: server_framing (for all well-formed message lists and all cuttings of the byte stream into reads exactly the messages are handled, once each, in order, payloads intact; leftover = unfinished bytes), one_done_per_message and reply_on_arrival_connection for any number of connections and any interleaving of reads and suspended handlers, client_reassembly/client_session for adversarial recv prefixes, socket_stream (length-prefixed application socket refines a FIFO of whole messages for every send/recv interleaving and prefix choice); counterexample theorems for the pre-fix parser, router and socket. Tie: real NetQASMProtocol / SubroutineHandler / SimulaQronConnection._handle_reply / Socket over all cut positions of short streams and random chunkings, 1-3 connections.",
             note="Trusted: Lean kernel + standard axioms; ctypes message sizes are read at run time and passed to the model as parameters; twisted/netqasm internals and payload codecs.",
             technique="Lean 4 proof (parser-state-as-function-of-prefix induction, queue refinement) + differential correspondence over all chunkings", ref="4 C10"),
}
PENDING = {}
def main():
    props = [json.loads(l)["id"] for l in open(os.path.join(V, "properties.jsonl"))]
    checks = []
    for pid in props:
        if pid not in CHECKS:
            continue
        c = CHECKS[pid]
        checks.append({
            "property_id": pid,
            "quick_cmd": "./check %s --tier quick" % pid,
            "thorough_cmd": "./check %s --tier thorough" % pid,
            "evidence_file": "evidence/%s.json" % pid,
            "replay_cmd_template": "./check %s --replay {path}" % pid,
            "engine": "lean4-proof+correspondence",
            "level_claimed": {"category": "proof", "text": c["text"], "design_ref": c["ref"]},
            "level_note": c["note"],
            "technique": c["technique"],
        })
    na = [{"property_id": p, "reason": PENDING.get(p, "check not built yet in this session (machine-checked proof applies; see DESIGN.md section 4); not claimed until its check runs")}
          for p in props if p not in CHECKS]
    m = {
        "version": 1,
        "setup_cmd": "./setup.sh",
        "hooks": {"guard": "SIMULAQRON_VERIF", "enable": "no source hooks are needed: the harness patches module attributes of a scratch copy of /repo/simulaqron from outside",
                  "baseline_off_cmd": BASE, "source_commits": [], "add_only": True},
        "engines": [{"name": "lean4-proof+correspondence", "path": "lean/ + harness/", "serves_properties": sorted(CHECKS),
                     "kind_free_text": "Lean 4 theorems about executable models; models tied to /repo by differential execution (harness/props) and AST-generated Lean facts (harness/gen)"}],
        "checks": checks,
        "not_applicable": na,
        "notes": "See DESIGN.md. known_findings.json lists repaired (fixed:) and open findings.",
    }
    json.dump(m, open(os.path.join(V, "MANIFEST.json"), "w"), indent=1)
    print("claimed:", [c["property_id"] for c in checks])
main()

/- line-protocol helpers shared by the model drivers (core Lean only) -/
namespace SqVerif.Drive

def words (s : String) : List String := (s.splitOn " ").filter (· ≠ "")

def insertSorted (lt : α → α → Bool) (x : α) : List α → List α
  | [] => [x]
  | y :: ys => if lt x y then x :: y :: ys else y :: insertSorted lt x ys

def sortBy (lt : α → α → Bool) (l : List α) : List α := l.foldr (insertSorted lt) []

def parseNat? (s : String) : Option Nat := s.toNat?

def parsePair? (s : String) : Option (Nat × Nat) :=
  match s.splitOn "-" with
  | [a, b] => do let x ← a.toNat?; let y ← b.toNat?; pure (x, y)
  | _ => none

/-- read lines until EOF, print `f line` for each -/
partial def loopStateless (f : String → String) : IO Unit := do
  let h ← IO.getStdin
  let out ← IO.getStdout
  let rec go : IO Unit := do
    let line ← h.getLine
    if line.isEmpty then return ()
    out.putStrLn (f line.trimAscii.toString)
    go
  go

partial def loopState {σ : Type} (init : σ) (f : σ → String → σ × String) : IO Unit := do
  let h ← IO.getStdin
  let out ← IO.getStdout
  let rec go (s : σ) : IO Unit := do
    let line ← h.getLine
    if line.isEmpty then return ()
    let (s', o) := f s line.trimAscii.toString
    out.putStrLn o
    go s'
  go init

end SqVerif.Drive

import SqVerif.Topo
/-
Lemmas behind C17: every topology shape produced by the model in `Topo.lean`
is a `GoodGraph`.  Core Lean only.

Structure: every shape is `relabel f (idxG n N)` for an index-level neighbour
function `N : Nat → List Nat`; `goodGraph_of_idxGood` transports the index-level
facts (`IdxGood`) through the injective labelling `f i = nodes[i]`.
-/
namespace SqVerif.Topo

variable {α : Type}

/-! ### Reach -/

theorem Reach.trans {g : Adj α} {a b c : α} (h1 : Reach g a b) (h2 : Reach g b c) :
    Reach g a c := by
  induction h2 with
  | refl => exact h1
  | step _ e ih => exact Reach.step ih e

theorem Reach.single {g : Adj α} {a b : α} (e : Edge g a b) : Reach g a b :=
  Reach.step (Reach.refl a) e

theorem Reach.symm {g : Adj α} (hs : ∀ a b, Edge g a b → Edge g b a) {a b : α}
    (h : Reach g a b) : Reach g b a := by
  induction h with
  | refl => exact Reach.refl _
  | step _ e ih => exact Reach.trans (Reach.single (hs _ _ e)) ih

theorem Reach.map {β : Type} {g : Adj α} {g' : Adj β} (φ : α → β)
    (he : ∀ a b, Edge g a b → Edge g' (φ a) (φ b)) {a b : α} (h : Reach g a b) :
    Reach g' (φ a) (φ b) := by
  induction h with
  | refl => exact Reach.refl _
  | step _ e ih => exact Reach.step ih (he _ _ e)

/-! ### index-level graphs -/

/-- the graph on `0..n-1` with neighbour lists `N i` -/
def idxG (n : Nat) (N : Nat → List Nat) : Adj Nat := (List.range n).map fun i => (i, N i)

theorem edge_idxG {n : Nat} {N : Nat → List Nat} {i j : Nat} :
    Edge (idxG n N) i j ↔ i < n ∧ j ∈ N i := by
  unfold Edge idxG
  constructor
  · rintro ⟨l, hl, hj⟩
    simp only [List.mem_map, List.mem_range] at hl
    obtain ⟨v, hv, h⟩ := hl
    cases h
    exact ⟨hv, hj⟩
  · rintro ⟨hi, hj⟩
    exact ⟨N i, List.mem_map.2 ⟨i, List.mem_range.2 hi, rfl⟩, hj⟩

theorem edge_relabel {f : Nat → α} {g : Adj Nat} {a b : α} :
    Edge (relabel f g) a b ↔ ∃ i j, Edge g i j ∧ f i = a ∧ f j = b := by
  unfold Edge relabel
  constructor
  · rintro ⟨l, hl, hb⟩
    simp only [List.mem_map] at hl
    obtain ⟨p, hp, h⟩ := hl
    cases h
    obtain ⟨j, hj, rfl⟩ := List.mem_map.1 hb
    exact ⟨p.1, j, ⟨p.2, hp, hj⟩, rfl, rfl⟩
  · rintro ⟨i, j, ⟨l, hl, hj⟩, rfl, rfl⟩
    exact ⟨l.map f, List.mem_map.2 ⟨(i, l), hl, rfl⟩, List.mem_map.2 ⟨j, hj, rfl⟩⟩

structure IdxGood (n : Nat) (N : Nat → List Nat) (m : Nat) : Prop where
  inRange : ∀ i, i < n → ∀ j ∈ N i, j < n
  symm : ∀ i, i < n → ∀ j ∈ N i, i ∈ N j
  irrefl : ∀ i, i < n → i ∉ N i
  simple : ∀ i, i < n → (N i).Nodup
  connected : ∀ i, i < n → Reach (idxG n N) 0 i
  edges : ((List.range n).map fun i => (N i).length).sum = 2 * m

theorem nodup_map_of_injOn {β : Type} (f : α → β) :
    ∀ (l : List α), (∀ a ∈ l, ∀ b ∈ l, f a = f b → a = b) → l.Nodup → (l.map f).Nodup
  | [], _, _ => List.nodup_nil
  | x :: l, hinj, hnd => by
    rw [List.nodup_cons] at hnd
    rw [List.map_cons, List.nodup_cons]
    constructor
    · intro hx
      obtain ⟨y, hy, hxy⟩ := List.mem_map.1 hx
      have : y = x := hinj y (List.mem_cons_of_mem _ hy) x List.mem_cons_self hxy
      exact hnd.1 (this ▸ hy)
    · exact nodup_map_of_injOn f l
        (fun a ha b hb => hinj a (List.mem_cons_of_mem _ ha) b (List.mem_cons_of_mem _ hb)) hnd.2

theorem goodGraph_of_idxGood (nodes : List α) (hnd : nodes.Nodup) (f : Nat → α)
    (hf : ∀ i, i < nodes.length → nodes[i]? = some (f i)) (N : Nat → List Nat) (m : Nat)
    (h : IdxGood nodes.length N m) :
    GoodGraph nodes (relabel f (idxG nodes.length N)) m := by
  have hinj : ∀ i j, i < nodes.length → j < nodes.length → f i = f j → i = j := by
    intro i j hi hj hij
    exact (List.getElem?_inj hi hnd).1 (by rw [hf i hi, hf j hj, hij])
  have hsymm : ∀ a b, Edge (relabel f (idxG nodes.length N)) a b →
      Edge (relabel f (idxG nodes.length N)) b a := by
    intro a b hab
    obtain ⟨i, j, hij, rfl, rfl⟩ := edge_relabel.1 hab
    obtain ⟨hi, hj⟩ := edge_idxG.1 hij
    exact edge_relabel.2 ⟨j, i, edge_idxG.2 ⟨h.inRange i hi j hj, h.symm i hi j hj⟩, rfl, rfl⟩
  have hmem : ∀ i, i < nodes.length → f i ∈ nodes := by
    intro i hi
    exact List.mem_of_getElem? (hf i hi)
  refine ⟨?_, hsymm, ?_, ?_, ?_, ?_, ?_⟩
  · -- keys
    apply List.ext_getElem?
    intro i
    simp only [relabel, idxG, List.map_map, List.getElem?_map]
    by_cases hi : i < nodes.length
    · rw [hf i hi, List.getElem?_range hi]; rfl
    · rw [List.getElem?_eq_none (Nat.le_of_not_lt hi),
        List.getElem?_eq_none (by simpa using Nat.le_of_not_lt hi)]; rfl
  · -- irrefl
    intro a haa
    obtain ⟨i, j, hij, rfl, hji⟩ := edge_relabel.1 haa
    obtain ⟨hi, hj⟩ := edge_idxG.1 hij
    have := hinj j i (h.inRange i hi j hj) hi hji
    subst this
    exact h.irrefl j hi hj
  · -- simple
    intro p hp
    simp only [relabel, idxG, List.map_map, List.mem_map, List.mem_range] at hp
    obtain ⟨i, hi, rfl⟩ := hp
    exact nodup_map_of_injOn f (N i)
      (fun a ha b hb => hinj a b (h.inRange i hi a ha) (h.inRange i hi b hb)) (h.simple i hi)
  · -- closed
    intro a b hab
    obtain ⟨i, j, hij, rfl, rfl⟩ := edge_relabel.1 hab
    obtain ⟨hi, hj⟩ := edge_idxG.1 hij
    exact hmem j (h.inRange i hi j hj)
  · -- connected
    intro a ha b hb
    obtain ⟨i, hi, hia⟩ := List.getElem_of_mem ha
    obtain ⟨j, hj, hjb⟩ := List.getElem_of_mem hb
    have hfi : f i = a := by
      have := hf i hi
      rw [List.getElem?_eq_getElem hi, hia] at this
      exact (Option.some.inj this).symm
    have hfj : f j = b := by
      have := hf j hj
      rw [List.getElem?_eq_getElem hj, hjb] at this
      exact (Option.some.inj this).symm
    have lift : ∀ k, k < nodes.length → Reach (relabel f (idxG nodes.length N)) (f 0) (f k) :=
      fun k hk => Reach.map f (fun a b e => edge_relabel.2 ⟨a, b, e, rfl, rfl⟩) (h.connected k hk)
    rw [← hfi, ← hfj]
    exact Reach.trans (Reach.symm hsymm (lift i hi)) (lift j hj)
  · -- edges
    rw [← h.edges]
    simp [degSum, relabel, idxG, List.map_map, Function.comp_def]

/-! ### helpers for the deterministic shapes -/

theorem sum_range_const (g : Nat → Nat) (c : Nat) :
    ∀ n, (∀ i, i < n → g i = c) → ((List.range n).map g).sum = n * c
  | 0, _ => by simp
  | n + 1, h => by
    rw [List.range_succ, List.map_append, List.sum_append,
      sum_range_const g c n (fun i hi => h i (Nat.lt_succ_of_lt hi))]
    simp [h n (Nat.lt_succ_self n), Nat.succ_mul]

theorem getD_spec (nodes : List α) (d : α) :
    ∀ i, i < nodes.length → nodes[i]? = some (nodes.getD i d) := by
  intro i hi
  simp [List.getD_eq_getElem?_getD, List.getElem?_eq_getElem hi]

theorem getElem_eq_of_spec {nodes : List α} {f : Nat → α}
    (hf : ∀ i, i < nodes.length → nodes[i]? = some (f i)) (i : Nat) (hi : i < nodes.length) :
    nodes[i] = f i := by
  have := hf i hi
  rw [List.getElem?_eq_getElem hi] at this
  exact Option.some.inj this

theorem mapIdx_eq_relabel (nodes : List α) (f : Nat → α)
    (hf : ∀ i, i < nodes.length → nodes[i]? = some (f i))
    (F : Nat → α → α × List α) (N : Nat → List Nat)
    (h : ∀ i, i < nodes.length → F i (f i) = (f i, (N i).map f)) :
    nodes.mapIdx F = relabel f (idxG nodes.length N) := by
  apply List.ext_getElem
  · simp [relabel, idxG]
  · intro i h1 h2
    have hi : i < nodes.length := by simpa using h1
    simp [relabel, idxG, getElem_eq_of_spec hf i hi, h i hi]

theorem nbr_eq {nodes : List α} {f : Nat → α}
    (hf : ∀ i, i < nodes.length → nodes[i]? = some (f i)) (k : Nat) (hk : k < nodes.length) :
    nbr nodes k = [f k] := by
  unfold nbr
  rw [hf k hk]
  rfl

theorem pred_mod {n i : Nat} (hi : i < n) :
    (i = 0 ∧ (i + n - 1) % n = n - 1) ∨ (i ≠ 0 ∧ (i + n - 1) % n = i - 1) := by
  by_cases h : i = 0
  · left
    refine ⟨h, ?_⟩
    subst h
    rw [Nat.zero_add]
    exact Nat.mod_eq_of_lt (by omega)
  · right
    refine ⟨h, ?_⟩
    have : i + n - 1 = (i - 1) + n := by omega
    rw [this, Nat.add_mod_right, Nat.mod_eq_of_lt (by omega)]

theorem succ_mod {n i : Nat} (hi : i < n) :
    (i + 1 = n ∧ (i + 1) % n = 0) ∨ (i + 1 < n ∧ (i + 1) % n = i + 1) := by
  by_cases h : i + 1 = n
  · left
    refine ⟨h, ?_⟩
    rw [h, Nat.mod_self]
  · right
    exact ⟨by omega, Nat.mod_eq_of_lt (by omega)⟩

theorem reach_all_of_succ {n : Nat} {N : Nat → List Nat}
    (h : ∀ i, i + 1 < n → i + 1 ∈ N i) : ∀ i, i < n → Reach (idxG n N) 0 i
  | 0, _ => Reach.refl 0
  | i + 1, hi =>
    Reach.step (reach_all_of_succ h i (by omega)) (edge_idxG.2 ⟨by omega, h i hi⟩)

theorem goodGraph_nil (m : Nat) (hm : m = 0) : GoodGraph ([] : List α) [] m := by
  subst hm
  refine ⟨rfl, ?_, ?_, ?_, ?_, ?_, rfl⟩
  · rintro a b ⟨l, hl, _⟩; cases hl
  · rintro a ⟨l, hl, _⟩; cases hl
  · intro p hp; cases hp
  · rintro a b ⟨l, hl, _⟩; cases hl
  · intro a ha; cases ha

/-! ### ring -/

def ringN (n i : Nat) : List Nat := [(i + n - 1) % n, (i + 1) % n]

theorem mem_ringN {n i j : Nat} : j ∈ ringN n i ↔ j = (i + n - 1) % n ∨ j = (i + 1) % n := by
  simp [ringN]

theorem ring_eq (nodes : List α) (f : Nat → α)
    (hf : ∀ i, i < nodes.length → nodes[i]? = some (f i)) :
    ring nodes = relabel f (idxG nodes.length (ringN nodes.length)) := by
  unfold ring
  apply mapIdx_eq_relabel nodes f hf
  intro i hi
  have hn : 0 < nodes.length := by omega
  simp only [nbr_eq hf _ (Nat.mod_lt _ hn), ringN]
  rfl

theorem ring_idxGood (n : Nat) (h3 : 3 ≤ n) : IdxGood n (ringN n) n := by
  refine ⟨?_, ?_, ?_, ?_, ?_, ?_⟩
  · intro i hi j hj
    rcases mem_ringN.1 hj with rfl | rfl <;> exact Nat.mod_lt _ (by omega)
  · intro i hi j hj
    have hjn : j < n := by
      rcases mem_ringN.1 hj with rfl | rfl <;> exact Nat.mod_lt _ (by omega)
    rw [mem_ringN] at hj ⊢
    have := pred_mod hi; have := succ_mod hi; have := pred_mod hjn; have := succ_mod hjn
    omega
  · intro i hi hj
    rw [mem_ringN] at hj
    have := pred_mod hi; have := succ_mod hi
    omega
  · intro i hi
    have := pred_mod hi; have := succ_mod hi
    simp only [ringN, List.nodup_cons, List.mem_cons, List.not_mem_nil, or_false, not_false_eq_true,
      List.nodup_nil, and_true]
    omega
  · apply reach_all_of_succ
    intro i hi
    rw [mem_ringN]
    have := succ_mod (show i < n by omega)
    omega
  · rw [sum_range_const (fun i => (ringN n i).length) 2 n (fun i _ => rfl), Nat.mul_comm]

theorem ring_goodGraph (nodes : List α) (hnd : nodes.Nodup) (h3 : 3 ≤ nodes.length) :
    GoodGraph nodes (ring nodes) nodes.length := by
  match nodes, h3 with
  | d :: rest, h3 =>
    rw [ring_eq (d :: rest) _ (getD_spec (d :: rest) d)]
    exact goodGraph_of_idxGood _ hnd _ (getD_spec _ d) _ _ (ring_idxGood _ h3)

/-! ### path -/

def pathN (n i : Nat) : List Nat :=
  if i = 0 then [i + 1] else if i = n - 1 then [i - 1] else [(i + n - 1) % n, (i + 1) % n]

theorem pathN_eq {n i : Nat} (hi : i < n) :
    pathN n i = if i = 0 then [1] else if i = n - 1 then [i - 1] else [i - 1, i + 1] := by
  unfold pathN
  by_cases h0 : i = 0
  · simp [h0]
  · by_cases h1 : i = n - 1
    · rw [if_neg h0, if_neg h0, if_pos h1, if_pos h1]
    · have := pred_mod hi; have := succ_mod hi
      have e1 : (i + n - 1) % n = i - 1 := by omega
      have e2 : (i + 1) % n = i + 1 := by omega
      rw [if_neg h0, if_neg h0, if_neg h1, if_neg h1, e1, e2]

theorem mem_pathN {n i j : Nat} (hi : i < n) (h2 : 2 ≤ n) :
    j ∈ pathN n i ↔ j < n ∧ (j + 1 = i ∨ i + 1 = j) := by
  rw [pathN_eq hi]
  by_cases h0 : i = 0
  · simp only [h0, if_true, List.mem_singleton]; omega
  · by_cases h1 : i = n - 1
    · rw [if_neg h0, if_pos h1, List.mem_singleton]; omega
    · rw [if_neg h0, if_neg h1]
      simp only [List.mem_cons, List.not_mem_nil, or_false]; omega

theorem path_eq (nodes : List α) (h2 : 2 ≤ nodes.length) (f : Nat → α)
    (hf : ∀ i, i < nodes.length → nodes[i]? = some (f i)) :
    path nodes = relabel f (idxG nodes.length (pathN nodes.length)) := by
  unfold path
  apply mapIdx_eq_relabel nodes f hf
  intro i hi
  have hn : 0 < nodes.length := by omega
  unfold pathN
  by_cases h0 : i = 0
  · subst h0
    simp only [if_true, nbr_eq hf _ (show 0 + 1 < nodes.length by omega)]
    rfl
  · by_cases h1 : i = nodes.length - 1
    · simp only [h0, if_false]
      rw [if_pos h1, if_pos h1, nbr_eq hf _ (show i - 1 < nodes.length by omega)]
      rfl
    · simp only [h0, h1, if_false, nbr_eq hf _ (Nat.mod_lt _ hn)]
      rfl

theorem path_sum_aux (n : Nat) :
    ∀ k, k + 1 < n → ((List.range (k + 1)).map fun i => (pathN n i).length).sum = 2 * k + 1
  | 0, h => by
    simp [pathN_eq (show 0 < n by omega)]
  | k + 1, h => by
    rw [List.range_succ, List.map_append, List.sum_append, path_sum_aux n k (by omega)]
    have h1 : ¬ (k + 1 = n - 1) := by omega
    simp only [List.map_cons, List.map_nil, List.sum_cons, List.sum_nil,
      pathN_eq (show k + 1 < n by omega)]
    rw [if_neg (by omega), if_neg h1]
    simp only [List.length_cons, List.length_nil]
    omega

theorem path_idxGood (n : Nat) (h2 : 2 ≤ n) : IdxGood n (pathN n) (n - 1) := by
  refine ⟨?_, ?_, ?_, ?_, ?_, ?_⟩
  · intro i hi j hj
    exact ((mem_pathN hi h2).1 hj).1
  · intro i hi j hj
    have := (mem_pathN hi h2).1 hj
    rw [mem_pathN this.1 h2]
    omega
  · intro i hi hj
    have := (mem_pathN hi h2).1 hj
    omega
  · intro i hi
    rw [pathN_eq hi]
    by_cases h0 : i = 0
    · simp [h0]
    · by_cases h1 : i = n - 1
      · rw [if_neg h0, if_pos h1]; simp
      · rw [if_neg h0, if_neg h1]
        simp only [List.nodup_cons, List.mem_cons, List.not_mem_nil, or_false,
          not_false_eq_true, List.nodup_nil, and_true]
        omega
  · apply reach_all_of_succ
    intro i hi
    rw [mem_pathN (by omega) h2]
    omega
  · obtain ⟨k, rfl⟩ : ∃ k, n = k + 2 := ⟨n - 2, by omega⟩
    rw [List.range_succ, List.map_append, List.sum_append, path_sum_aux (k + 2) k (by omega)]
    simp only [List.map_cons, List.map_nil, List.sum_cons, List.sum_nil,
      pathN_eq (show k + 1 < k + 2 by omega)]
    rw [if_neg (by omega), if_pos (by omega)]
    simp only [List.length_cons, List.length_nil]
    omega

theorem path_goodGraph (nodes : List α) (hnd : nodes.Nodup) (h2 : 2 ≤ nodes.length) :
    GoodGraph nodes (path nodes) (nodes.length - 1) := by
  match nodes, h2 with
  | d :: rest, h2 =>
    rw [path_eq (d :: rest) h2 _ (getD_spec (d :: rest) d)]
    exact goodGraph_of_idxGood _ hnd _ (getD_spec _ d) _ _ (path_idxGood _ h2)

/-! ### complete -/

def completeN (n i : Nat) : List Nat := List.range i ++ List.range' (i + 1) (n - (i + 1))

theorem mem_completeN {n i j : Nat} (hi : i < n) : j ∈ completeN n i ↔ j < n ∧ j ≠ i := by
  simp only [completeN, List.mem_append, List.mem_range, List.mem_range'_1]
  omega

theorem take_eq_map_range {nodes : List α} {f : Nat → α}
    (hf : ∀ i, i < nodes.length → nodes[i]? = some (f i)) (i : Nat) (hi : i ≤ nodes.length) :
    nodes.take i = (List.range i).map f := by
  apply List.ext_getElem
  · simp; omega
  · intro k h1 h2
    have hk : k < nodes.length := by
      have : k < i := by simpa using h2
      omega
    simp [getElem_eq_of_spec hf k hk]

theorem drop_eq_map_range' {nodes : List α} {f : Nat → α}
    (hf : ∀ i, i < nodes.length → nodes[i]? = some (f i)) (j : Nat) :
    nodes.drop j = (List.range' j (nodes.length - j)).map f := by
  apply List.ext_getElem
  · simp
  · intro k h1 h2
    have hk : j + k < nodes.length := by
      have : k < nodes.length - j := by simpa using h1
      omega
    simp [getElem_eq_of_spec hf (j + k) hk]

theorem complete_eq (nodes : List α) (f : Nat → α)
    (hf : ∀ i, i < nodes.length → nodes[i]? = some (f i)) :
    complete nodes = relabel f (idxG nodes.length (completeN nodes.length)) := by
  unfold complete
  apply mapIdx_eq_relabel nodes f hf
  intro i hi
  rw [take_eq_map_range hf i (by omega), drop_eq_map_range' hf (i + 1), completeN, List.map_append]

theorem complete_idxGood (n m : Nat) (hm : 2 * m = n * (n - 1)) : IdxGood n (completeN n) m := by
  refine ⟨?_, ?_, ?_, ?_, ?_, ?_⟩
  · intro i hi j hj
    exact ((mem_completeN hi).1 hj).1
  · intro i hi j hj
    have := (mem_completeN hi).1 hj
    rw [mem_completeN this.1]
    omega
  · intro i hi hj
    have := (mem_completeN hi).1 hj
    omega
  · intro i hi
    unfold completeN
    rw [List.nodup_append]
    refine ⟨List.nodup_range, List.nodup_range', ?_⟩
    intro a ha b hb
    rw [List.mem_range] at ha
    rw [List.mem_range'_1] at hb
    omega
  · intro i hi
    by_cases h0 : i = 0
    · subst h0; exact Reach.refl 0
    · exact Reach.single (edge_idxG.2 ⟨by omega, (mem_completeN (by omega)).2 ⟨hi, h0⟩⟩)
  · rw [sum_range_const (fun i => (completeN n i).length) (n - 1) n, hm]
    intro i hi
    simp only [completeN, List.length_append, List.length_range, List.length_range']
    omega

theorem complete_goodGraph (nodes : List α) (hnd : nodes.Nodup) (m : Nat)
    (hm : 2 * m = nodes.length * (nodes.length - 1)) :
    GoodGraph nodes (complete nodes) m := by
  match nodes, hnd, hm with
  | [], _, hm => exact goodGraph_nil m (by simp at hm; omega)
  | d :: rest, hnd, hm =>
    rw [complete_eq (d :: rest) _ (getD_spec (d :: rest) d)]
    exact goodGraph_of_idxGood _ hnd _ (getD_spec _ d) _ _ (complete_idxGood _ m hm)

/-! ### random shapes -/

/-- neighbour list of `v` in `toDict` -/
def nbrs (es : Edges) (v : Nat) : List Nat :=
  es.filterMap fun e => if e.1 = v then some e.2 else if e.2 = v then some e.1 else none

theorem toDict_eq (n : Nat) (es : Edges) : toDict n es = idxG n (nbrs es) := rfl

theorem nbrs_cons (e : Nat × Nat) (es : Edges) (v : Nat) :
    nbrs (e :: es) v
      = (if e.1 = v then [e.2] else if e.2 = v then [e.1] else []) ++ nbrs es v := by
  unfold nbrs
  by_cases h1 : e.1 = v
  · simp [h1]
  · by_cases h2 : e.2 = v
    · simp [h1, h2]
    · simp [h1, h2]

theorem mem_nbrs {es : Edges} {v j : Nat} :
    j ∈ nbrs es v ↔ (v, j) ∈ es ∨ (j ≠ v ∧ (j, v) ∈ es) := by
  induction es with
  | nil => simp [nbrs]
  | cons e es ih =>
    obtain ⟨a, b⟩ := e
    rw [nbrs_cons, List.mem_append, ih]
    simp only [List.mem_cons, Prod.mk.injEq]
    by_cases h1 : a = v
    · rw [if_pos h1, List.mem_singleton]
      constructor
      · rintro (h | h | h)
        · exact Or.inl (Or.inl ⟨h1.symm, h⟩)
        · exact Or.inl (Or.inr h)
        · exact Or.inr ⟨h.1, Or.inr h.2⟩
      · rintro (h | h)
        · rcases h with h | h
          · exact Or.inl h.2
          · exact Or.inr (Or.inl h)
        · rcases h with ⟨hne, h | h⟩
          · exact absurd (h.1.trans h1) hne
          · exact Or.inr (Or.inr ⟨hne, h⟩)
    · rw [if_neg h1]
      by_cases h2 : b = v
      · rw [if_pos h2, List.mem_singleton]
        constructor
        · rintro (h | h | h)
          · exact Or.inr ⟨by rw [h]; exact h1, Or.inl ⟨h, h2.symm⟩⟩
          · exact Or.inl (Or.inr h)
          · exact Or.inr ⟨h.1, Or.inr h.2⟩
        · rintro (h | h)
          · rcases h with h | h
            · exact absurd h.1.symm h1
            · exact Or.inr (Or.inl h)
          · rcases h with ⟨hne, h | h⟩
            · exact Or.inl h.1
            · exact Or.inr (Or.inr ⟨hne, h⟩)
      · rw [if_neg h2]
        constructor
        · rintro (h | h | h)
          · cases h
          · exact Or.inl (Or.inr h)
          · exact Or.inr ⟨h.1, Or.inr h.2⟩
        · rintro (h | h)
          · rcases h with h | h
            · exact absurd h.1.symm h1
            · exact Or.inr (Or.inl h)
          · rcases h with ⟨hne, h | h⟩
            · exact absurd h.2.symm h2
            · exact Or.inr (Or.inr ⟨hne, h⟩)

/-- the invariant of the edge list while picks are added -/
structure EInv (n : Nat) (es : Edges) : Prop where
  inRange : ∀ e ∈ es, e.1 < n ∧ e.2 < n ∧ e.1 ≠ e.2
  noDup : es.Pairwise fun e f => ¬ ((e.1 = f.1 ∧ e.2 = f.2) ∨ (e.1 = f.2 ∧ e.2 = f.1))

theorem nodup_nbrs (v : Nat) : ∀ es : Edges,
    (es.Pairwise fun e f => ¬ ((e.1 = f.1 ∧ e.2 = f.2) ∨ (e.1 = f.2 ∧ e.2 = f.1))) →
    (nbrs es v).Nodup
  | [], _ => by simp [nbrs]
  | e :: es, hp => by
    rw [List.pairwise_cons] at hp
    have ih := nodup_nbrs v es hp.2
    rw [nbrs_cons]
    by_cases h1 : e.1 = v
    · rw [if_pos h1, List.singleton_append, List.nodup_cons]
      refine ⟨?_, ih⟩
      intro hm
      rcases mem_nbrs.1 hm with h | ⟨_, h⟩
      · exact hp.1 _ h (Or.inl ⟨h1, rfl⟩)
      · exact hp.1 _ h (Or.inr ⟨h1, rfl⟩)
    · rw [if_neg h1]
      by_cases h2 : e.2 = v
      · rw [if_pos h2, List.singleton_append, List.nodup_cons]
        refine ⟨?_, ih⟩
        intro hm
        rcases mem_nbrs.1 hm with h | ⟨_, h⟩
        · exact hp.1 _ h (Or.inr ⟨rfl, h2⟩)
        · exact hp.1 _ h (Or.inl ⟨rfl, h2⟩)
      · rw [if_neg h2, List.nil_append]
        exact ih

theorem sum_map_add (a b : Nat → Nat) : ∀ l : List Nat,
    (l.map fun v => a v + b v).sum = (l.map a).sum + (l.map b).sum
  | [] => rfl
  | x :: l => by
    simp only [List.map_cons, List.sum_cons, sum_map_add a b l]
    omega

theorem sum_range_indicator (a : Nat) : ∀ n,
    ((List.range n).map fun v => if a = v then 1 else 0).sum = if a < n then 1 else 0
  | 0 => by simp
  | n + 1 => by
    rw [List.range_succ, List.map_append, List.sum_append, sum_range_indicator a n]
    simp only [List.map_cons, List.map_nil, List.sum_cons, List.sum_nil]
    by_cases h1 : a < n
    · rw [if_pos h1, if_neg (by omega), if_pos (by omega)]; rfl
    · rw [if_neg h1]
      by_cases h2 : a = n
      · rw [if_pos h2, if_pos (by omega)]; rfl
      · rw [if_neg h2, if_neg (by omega)]; rfl

theorem sum_nbrs_length (n : Nat) : ∀ es : Edges,
    (∀ e ∈ es, e.1 < n ∧ e.2 < n ∧ e.1 ≠ e.2) →
    ((List.range n).map fun v => (nbrs es v).length).sum = 2 * es.length
  | [], _ => by
    rw [sum_range_const (fun v => (nbrs [] v).length) 0 n (fun _ _ => rfl)]
    simp
  | e :: es, h => by
    have ih := sum_nbrs_length n es (fun e he => h e (List.mem_cons_of_mem _ he))
    obtain ⟨h1, h2, h3⟩ := h e List.mem_cons_self
    have hpt : ∀ v, (nbrs (e :: es) v).length
        = ((if e.1 = v then 1 else 0) + (if e.2 = v then 1 else 0)) + (nbrs es v).length := by
      intro v
      rw [nbrs_cons, List.length_append]
      by_cases c1 : e.1 = v
      · rw [if_pos c1, if_pos c1, if_neg (by omega)]; rfl
      · by_cases c2 : e.2 = v
        · rw [if_neg c1, if_pos c2, if_neg c1, if_pos c2]; rfl
        · rw [if_neg c1, if_neg c2, if_neg c1, if_neg c2]; rfl
    rw [List.map_congr_left (fun v _ => hpt v),
      sum_map_add (fun v => (if e.1 = v then 1 else 0) + (if e.2 = v then 1 else 0))
        (fun v => (nbrs es v).length),
      sum_map_add (fun v => if e.1 = v then 1 else 0) (fun v => if e.2 = v then 1 else 0),
      sum_range_indicator, sum_range_indicator, ih, if_pos h1, if_pos h2, List.length_cons]
    omega

theorem edge_toDict {n : Nat} {es : Edges} {i j : Nat} :
    Edge (toDict n es) i j ↔ i < n ∧ ((i, j) ∈ es ∨ (j ≠ i ∧ (j, i) ∈ es)) := by
  rw [toDict_eq, edge_idxG, mem_nbrs]

theorem edge_toDict_mono {n : Nat} {es es' : Edges} (hsub : ∀ e ∈ es, e ∈ es') {i j : Nat}
    (h : Edge (toDict n es) i j) : Edge (toDict n es') i j := by
  rw [edge_toDict] at h ⊢
  obtain ⟨hi, h | ⟨hne, h⟩⟩ := h
  · exact ⟨hi, Or.inl (hsub _ h)⟩
  · exact ⟨hi, Or.inr ⟨hne, hsub _ h⟩⟩

theorem einv_idxGood (n : Nat) (es : Edges) (h : EInv n es)
    (hc : ∀ i, i < n → Reach (toDict n es) 0 i) : IdxGood n (nbrs es) es.length := by
  refine ⟨?_, ?_, ?_, ?_, hc, sum_nbrs_length n es h.inRange⟩
  · intro i hi j hj
    rcases mem_nbrs.1 hj with h' | ⟨_, h'⟩
    · exact (h.inRange _ h').2.1
    · exact (h.inRange _ h').1
  · intro i hi j hj
    rcases mem_nbrs.1 hj with h' | ⟨hne, h'⟩
    · exact mem_nbrs.2 (Or.inr ⟨(h.inRange _ h').2.2, h'⟩)
    · exact mem_nbrs.2 (Or.inl h')
  · intro i hi hj
    rcases mem_nbrs.1 hj with h' | ⟨hne, _⟩
    · exact (h.inRange _ h').2.2 rfl
    · exact hne rfl
  · intro i _
    exact nodup_nbrs i es h.noDup

theorem hasEdge_eq_true {es : Edges} {u v : Nat} :
    hasEdge es u v = true ↔ ∃ e ∈ es, (e.1 = u ∧ e.2 = v) ∨ (e.1 = v ∧ e.2 = u) := by
  simp [hasEdge, List.any_eq_true]

theorem hasEdge_eq_false {es : Edges} {u v : Nat} (h : hasEdge es u v = false) :
    ∀ e ∈ es, ¬ ((e.1 = u ∧ e.2 = v) ∨ (e.1 = v ∧ e.2 = u)) := by
  intro e he hc
  have : hasEdge es u v = true := hasEdge_eq_true.2 ⟨e, he, hc⟩
  rw [h] at this
  cases this

theorem validPick_spec {n : Nat} {es : Edges} {p : Nat × Nat} (h : validPick n es p = true) :
    p.1 < n ∧ p.2 < n ∧ p.1 ≠ p.2 ∧ hasEdge es p.1 p.2 = false := by
  simpa [validPick, and_assoc] using h

theorem addPicks_spec (n : Nat) : ∀ (picks : List (Nat × Nat)) (es es' : Edges),
    addPicks n es picks = some es' → EInv n es →
    EInv n es' ∧ (∀ e ∈ es, e ∈ es') ∧ es'.length = es.length + picks.length
  | [], es, es', h, hinv => by
    simp only [addPicks, Option.some.injEq] at h
    subst h
    exact ⟨hinv, fun _ he => he, rfl⟩
  | p :: ps, es, es', h, hinv => by
    unfold addPicks at h
    by_cases hv : validPick n es p = true
    · rw [if_pos hv] at h
      obtain ⟨p1, p2, p3, p4⟩ := validPick_spec hv
      have hinv' : EInv n (es ++ [p]) := by
        constructor
        · intro e he
          rcases List.mem_append.1 he with he | he
          · exact hinv.inRange e he
          · rw [List.mem_singleton] at he
            subst he
            exact ⟨p1, p2, p3⟩
        · rw [List.pairwise_append]
          refine ⟨hinv.noDup, List.pairwise_singleton _ _, ?_⟩
          intro a ha b hb
          rw [List.mem_singleton] at hb
          subst hb
          exact hasEdge_eq_false p4 a ha
      obtain ⟨r1, r2, r3⟩ := addPicks_spec n ps (es ++ [p]) es' h hinv'
      refine ⟨r1, fun e he => r2 e (List.mem_append_left _ he), ?_⟩
      rw [r3, List.length_append, List.length_cons, List.length_cons, List.length_nil]
      omega
    · rw [if_neg hv] at h
      cases h

theorem isTree_einv {n : Nat} {t : Edges} (ht : IsTree n t) : EInv n t :=
  ⟨ht.inRange, ht.noDup⟩

theorem randomConnected_goodGraph (nodes : List α) (hnd : nodes.Nodup) (d : α) (k : Nat)
    (t : Edges) (picks : List (Nat × Nat)) (ht : IsTree nodes.length t)
    (hlen : picks.length + (nodes.length - 1) = k) (g : Adj α)
    (h : randomConnected (fun i => nodes.getD i d) nodes.length k t picks = .ok g) :
    GoodGraph nodes g k ∧ ∀ e ∈ t, Edge g (nodes.getD e.1 d) (nodes.getD e.2 d) := by
  unfold randomConnected at h
  split at h
  · cases h
  · split at h
    · next es hes =>
      obtain ⟨r1, r2, r3⟩ := addPicks_spec _ picks t es hes (isTree_einv ht)
      have hk : es.length = k := by
        have := ht.size
        omega
      have hg := Outcome.ok.inj h
      subst hg
      constructor
      · rw [toDict_eq, ← hk]
        apply goodGraph_of_idxGood nodes hnd _ (getD_spec nodes d)
        apply einv_idxGood _ _ r1
        intro i hi
        exact Reach.map id (fun a b e => edge_toDict_mono r2 e)
          (ht.connected 0 (by omega) i hi)
      · intro e he
        apply edge_relabel.2
        refine ⟨e.1, e.2, edge_toDict.2 ⟨(ht.inRange e he).1, Or.inl (r2 e he)⟩, rfl, rfl⟩
    · cases h

theorem randomTree_goodGraph (nodes : List α) (hnd : nodes.Nodup) (d : α) (t : Edges)
    (ht : IsTree nodes.length t) :
    GoodGraph nodes (randomTree (fun i => nodes.getD i d) nodes.length t) (nodes.length - 1) := by
  unfold randomTree
  have hk : nodes.length - 1 = t.length := by
    have := ht.size
    omega
  rw [toDict_eq, hk]
  apply goodGraph_of_idxGood nodes hnd _ (getD_spec nodes d)
  apply einv_idxGood _ _ (isTree_einv ht)
  intro i hi
  exact ht.connected 0 (by omega) i hi

/-! ### the executable tree test -/

theorem noDupB_pairwise : ∀ t : Edges, noDupB t = true →
    t.Pairwise fun e f => ¬ ((e.1 = f.1 ∧ e.2 = f.2) ∨ (e.1 = f.2 ∧ e.2 = f.1))
  | [], _ => List.Pairwise.nil
  | e :: es, h => by
    simp only [noDupB, Bool.and_eq_true, Bool.not_eq_true'] at h
    rw [List.pairwise_cons]
    refine ⟨?_, noDupB_pairwise es h.2⟩
    intro f hf hc
    apply hasEdge_eq_false h.1 f hf
    rcases hc with ⟨a, b⟩ | ⟨a, b⟩
    · exact Or.inl ⟨a.symm, b.symm⟩
    · exact Or.inr ⟨b.symm, a.symm⟩

theorem reachSet_sound (n : Nat) (es : Edges) : ∀ (fuel : Nat) (s : List Nat),
    (∀ v ∈ s, v < n ∧ Reach (toDict n es) 0 v) →
    ∀ v ∈ reachSet n es fuel s, v < n ∧ Reach (toDict n es) 0 v
  | 0, s, hs => hs
  | fuel + 1, s, hs => by
    unfold reachSet
    apply reachSet_sound n es fuel
    intro v hv
    rw [List.mem_filter, List.mem_range] at hv
    obtain ⟨hvn, hv⟩ := hv
    refine ⟨hvn, ?_⟩
    rw [Bool.or_eq_true] at hv
    rcases hv with hv | hv
    · exact (hs v (List.contains_iff_mem.1 hv)).2
    · rw [List.any_eq_true] at hv
      obtain ⟨u, hu, he⟩ := hv
      obtain ⟨hun, hru⟩ := hs u hu
      refine Reach.step hru (edge_toDict.2 ⟨hun, ?_⟩)
      obtain ⟨e, hee, h⟩ := hasEdge_eq_true.1 he
      obtain ⟨e1, e2⟩ := e
      rcases h with ⟨h1, h2⟩ | ⟨h1, h2⟩
      · simp only at h1 h2
        subst h1 h2
        exact Or.inl hee
      · simp only at h1 h2
        subst h1 h2
        by_cases huv : e1 = e2
        · subst huv
          exact Or.inl hee
        · exact Or.inr ⟨huv, hee⟩

theorem reachSet_sublist (n : Nat) (es : Edges) : ∀ (fuel : Nat) (s : List Nat),
    s.Sublist (List.range n) → (reachSet n es fuel s).Sublist (List.range n)
  | 0, _, h => h
  | fuel + 1, _, _ => by
    unfold reachSet
    exact reachSet_sublist n es fuel _ List.filter_sublist

theorem isTree_of_isTreeB (n : Nat) (t : Edges) (h : isTreeB n t = true) : IsTree n t := by
  simp only [isTreeB, Bool.and_eq_true, beq_iff_eq, List.all_eq_true, bne_iff_ne,
    decide_eq_true_eq] at h
  obtain ⟨⟨⟨h1, h2⟩, h3⟩, h4⟩ := h
  have hn : 0 < n := by omega
  have hr : ∀ e ∈ t, e.1 < n ∧ e.2 < n ∧ e.1 ≠ e.2 := by
    intro e he
    have := h2 e he
    exact ⟨this.1.1, this.1.2, this.2⟩
  have hinv : EInv n t := ⟨hr, noDupB_pairwise t h3⟩
  have hsub : (reachSet n t n [0]).Sublist (List.range n) :=
    reachSet_sublist n t n [0] (List.singleton_sublist.2 (List.mem_range.2 hn))
  have heq : reachSet n t n [0] = List.range n :=
    hsub.eq_of_length (by rw [h4, List.length_range])
  have h0 : ∀ v, v < n → Reach (toDict n t) 0 v := by
    intro v hv
    have hm : v ∈ reachSet n t n [0] := by rw [heq]; exact List.mem_range.2 hv
    refine (reachSet_sound n t n [0] ?_ v hm).2
    intro w hw
    rw [List.mem_singleton] at hw
    subst hw
    exact ⟨hn, Reach.refl 0⟩
  have hsymm : ∀ a b, Edge (toDict n t) a b → Edge (toDict n t) b a := by
    intro a b hab
    have hg := einv_idxGood n t hinv h0
    rw [toDict_eq] at hab ⊢
    obtain ⟨ha, hb⟩ := edge_idxG.1 hab
    exact edge_idxG.2 ⟨hg.inRange a ha b hb, hg.symm a ha b hb⟩
  exact ⟨h1, hr, hinv.noDup, fun a ha b hb => Reach.trans (Reach.symm hsymm (h0 a ha)) (h0 b hb)⟩

end SqVerif.Topo

import SqVerif.EprLemmas
import SqVerif.StabSpec
/-
C08 — Entanglement generation delivers matched halves of one Bell pair per request.

"For every entanglement request of n pairs between two adjacent nodes, creator
and receiver each obtain exactly n results; the i-th results on both sides
carry the same sequence number (distinct from every other pair on that socket
pair), name each other as remote node and have opposite directionality.  For
create-and-keep the two delivered qubits are the two halves of one |Phi+> pair
entangled with nothing else, and for measure-directly the reported outcomes are
possible for |Phi+> in the reported bases."  Quantifier: all n, both request
types, every basis-choice distribution, any number of sockets and node pairs,
simultaneous requests in both directions, every interleaving of creator and
receiver subroutines.

Model: `SqVerif/Epr.lean` (events `newCreate` = `_get_new_create_id`, `pair` =
one `cmd_epr`, `recv` = one poll of `cmd_epr_recv`; a request of n pairs = one
`newCreate` + n `pair` events at the creator, n successful `recv` events at the
receiver).  A history is ANY list of events over any nodes and sockets; the
theorems hold for every history on which the model reports no error
(`run init evs = .ok (st, obs)`), so every interleaving is covered by the
induction over the event list.  `cfg` is the socket table; `Matched cfg` (socket
s at a names (b, t) iff socket t at b names (a, s)) and `EvOK cfg` (a `cmd_epr`
is addressed to what its socket is bound to) are the SDK's contract.

History variables of the model state: `created a s b t` = the results `cmd_epr`
handed to the creator a on socket s for (b, t), in order, with the qubit token
it keeps; `received b t` = the results `cmd_epr_recv` handed to the receiver on
socket t, in order, with the token received; `sent` / `popped` = what was ever
appended to / popped from a queue.

What is NOT claimed (and is false of the code): liveness when two
create-and-keep requests cross.  `cmd_epr` is one atomic event here; in the code
its `send_epr_half` holds the sender's node lock while waiting for the
receiver's, so two opposite sends can block each other forever (finding F8 of
property C04; `crossing_sends_deadlock` below on the lock skeleton, replayed on
the implementation by the harness under the key `crossing-sends-deadlock`).
The theorems are the safety part: whatever results are obtained are matched,
and nothing but the crossing of two sends (or an error result) stops a request.
-/
namespace SqVerif.C08
open SqVerif.Epr SqVerif.Stab

/-! ## T08.3  FIFO pairing (queue refinement) -/

/-- For ANY interleaving of creates and polls on any number of sockets and node
pairs (both directions at once included): everything ever appended to a queue
is what was popped from it, in order, followed by what is still queued; hence
the i-th entry popped on a socket is the i-th half sent on it, and the i-th
result of the receiver is that entry with only the qubit id rebound. -/
theorem fifo_pairing (evs : List Ev) (st : State) (obs : List Obs) (h : run init evs = .ok (st, obs)) (n s : Nat) :
    st.sent n s = st.popped n s ++ st.recvEpr n s ∧
    (∀ (i : Nat) (m : EntMsg), (st.popped n s)[i]? = some m → (st.sent n s)[i]? = some m) ∧
    (∀ (i : Nat) (r : EntInfo × Option Nat), (st.received n s)[i]? = some r →
      ∃ (m : EntMsg) (qid : Nat), (st.sent n s)[i]? = some m ∧ r = (rebind m.info qid, m.half)) := by
  have hi := inv_run inv_init h
  have hpre : ∀ (i : Nat) (m : EntMsg), (st.popped n s)[i]? = some m → (st.sent n s)[i]? = some m := by
    intro i m hm
    rw [hi.fifo n s, List.getElem?_append_left (List.getElem?_eq_some_iff.mp hm).1]
    exact hm
  refine ⟨hi.fifo n s, hpre, ?_⟩
  intro i r hr
  simp only [State.received, List.getElem?_map, Option.map_eq_some_iff] at hr
  obtain ⟨x, hx, rfl⟩ := hr
  obtain ⟨qid, hq⟩ := hi.recvd n s x (List.mem_of_getElem? hx)
  refine ⟨x.1, qid, hpre i x.1 (by simp [State.popped, hx]), ?_⟩
  rw [hq]

/-- a poll on an empty queue yields nothing and changes nothing -/
theorem recv_on_empty_queue (st : State) (n s qid : Nat) (h : st.recvEpr n s = []) :
    step st (.recv n s qid) = .ok (st, .nothing) := by
  simp [step, recv_empty h]

/-- a poll on a non-empty queue with an unused qubit id yields the head of the queue -/
theorem recv_progress (st : State) (n s qid : Nat) (m : EntMsg) (rest : List EntMsg)
    (hq : st.recvEpr n s = m :: rest) (hfree : hasKey (st.qubitList n) qid = false) :
    ∃ st', step st (.recv n s qid) = .ok (st', .got (rebind m.info qid)) ∧ st'.recvEpr n s = rest := by
  simp only [step, recv, hq, hfree]
  cases h : (rebind m.info qid).typ <;> simp

example : ∃ st obs, run init [.pair 0 1 0 0 .K 0 0 {}, .recv 1 0 5, .recv 1 0 6] = .ok (st, obs) ∧
    obs.length = 3 ∧ obs[2]? = some .nothing := ⟨_, _, rfl, by decide⟩

/-! ## T08.1  counts -/

/-- FULL STATEMENT (T08.1): "every request of n pairs yields exactly n results on each side" — i.e. the counting
below AND termination of every request.  Termination is FALSE of the code when two create-and-keep requests
cross (`crossing_sends_deadlock` at the end of this file, finding F8; replayed on the implementation on every run
under the key `crossing-sends-deadlock`), so what is proved is the counting (safety) part, for every history:
the creator's result list for a key grows by exactly one per `cmd_epr`, the receiver's by exactly one per
successful poll; with matched sockets the polls that found something never outnumber the pairs created for that
socket, and the difference is exactly what is still queued.  Hence a request of n pairs (n `cmd_epr` at the
creator, n successful polls at the receiver) yields exactly n results on each side and leaves the queue as it
found it; and by `create_never_blocks` / `recv_progress` nothing inside the model stops a request short of n.
Missing for the full statement: atomicity of `send_epr_half` with respect to a send in the opposite direction. -/
theorem counts_partial (cfg : Cfg) (hm : Matched cfg) (evs : List Ev) (st : State) (obs : List Obs)
    (hq : ∀ e, e ∈ evs → EvOK cfg e) (h : run init evs = .ok (st, obs)) (a s b t : Nat) (hc : cfg a s = some (b, t)) :
    (st.created a s b t).length = nPairs a s b t evs ∧
    (st.received b t).length = nGot b t evs obs ∧
    nGot b t evs obs + (st.recvEpr b t).length = nPairs a s b t evs := by
  have hi := inv_run inv_init h
  have hs := oneSource_run hm hq h
  obtain ⟨c1, _⟩ := run_counts h a s b t
  obtain ⟨_, c2⟩ := run_counts h b t 0 0
  have hf := congrArg List.length (hi.fifo b t)
  rw [hs a s b t hc] at hf
  simp only [State.sentFrom, State.popped, List.length_map, List.length_append] at hf
  simp only [init, List.length_nil, Nat.zero_add] at c1 c2
  refine ⟨by simp [State.created, c1], by simp [State.received, c2], ?_⟩
  omega

/-- `_do_create_epr` run on its own: one create id, then exactly one result per requested pair, all carrying
that create id and the requested type -/
theorem request_yields_n (st st' : State) (a b s t : Nat) (typ : ReqType) (qids : List Nat) (rnds : List Rnd)
    (obs : List Obs) (hl : qids.length = rnds.length) (h : doCreate st a b s t typ qids rnds = .ok (st', obs)) :
    obs.length = qids.length ∧
    (st'.created a s b t).length = (st.created a s b t).length + qids.length ∧
    ∀ o, o ∈ obs → ∃ e, o = .created e ∧ e.createId = st.nextCreateId a b ∧ e.typ = typ := by
  simp only [doCreate, newCreate] at h
  have hlen := run_obs_length h
  simp only [List.length_map, List.length_zip, hl, Nat.min_self] at hlen
  obtain ⟨c1, _⟩ := run_counts h a s b t
  refine ⟨by omega, ?_, ?_⟩
  · simp only [State.created, List.length_map]
    rw [c1]
    congr 1
    simp only [nPairs]
    rw [List.filter_eq_self.mpr]
    · simp [hl]
    · intro e he
      simp only [List.mem_map] at he
      obtain ⟨p, _, rfl⟩ := he
      simp [isPair]
  · exact run_pairs_obs (fun e he => by
      simp only [List.mem_map] at he
      obtain ⟨p, _, rfl⟩ := he
      exact ⟨_, _, rfl⟩) h

example : ∃ st obs, doCreate init 0 1 0 0 .M [0, 1, 2] [{ bl := .Y, br := .Y, c1 := true }, {}, { bl := .X }]
    = .ok (st, obs) ∧ obs.length = 3 := ⟨_, _, rfl, rfl⟩

/-! ## T08.2  matched information -/

/-- The i-th result of the creator on socket s and the i-th result of the
receiver on the matched socket t describe the same pair: same sequence number
(which is i: the counter of the key (s, b, t) at a is strictly increasing),
same create id and type, each names the other node, directionality 0 / 1,
purpose id = own socket, Bell state Phi+. -/
theorem matched_info (cfg : Cfg) (hm : Matched cfg) (evs : List Ev) (st : State) (obs : List Obs)
    (hq : ∀ e, e ∈ evs → EvOK cfg e) (h : run init evs = .ok (st, obs)) (a s b t : Nat) (hc : cfg a s = some (b, t))
    (i : Nat) (c r : EntInfo × Option Nat) (hci : (st.created a s b t)[i]? = some c)
    (hri : (st.received b t)[i]? = some r) :
    c.1.seq = i ∧ r.1.seq = i ∧ c.1.createId = r.1.createId ∧ c.1.typ = r.1.typ ∧
    c.1.remoteNode = b ∧ r.1.remoteNode = a ∧ c.1.dir = 0 ∧ r.1.dir = 1 ∧
    c.1.purpose = s ∧ r.1.purpose = t ∧ c.1.bell = 0 ∧ r.1.bell = 0 ∧ c.1.goodness = r.1.goodness := by
  obtain ⟨p, qid, _, rfl, rfl, hseq, ⟨typ, cid, q, x, hok⟩⟩ := matched_core hm hq h hc hci hri
  obtain ⟨f1, f2, _, _, f5, f6, f7, f8, f9, f10, _⟩ := rebind_fields p.msg.info qid
  simp only
  rw [f1, f2, f5, f6, f7, f8, f9, f10]
  exact ⟨hseq, hok.seq_r.trans hseq, hok.cid_c.trans hok.cid_r.symm, hok.typ_c.trans hok.typ_r.symm, hok.remote_c,
    hok.remote_r, hok.dir_c, hok.dir_r, hok.purpose_c, hok.purpose_r, hok.bell_c, hok.bell_r,
    hok.good_c.trans hok.good_r.symm⟩

/-- sequence numbers of the pairs one creator makes for one (socket, remote node, remote socket) are their
positions, hence pairwise distinct — in every history, with no assumption on the socket table -/
theorem seq_distinct (evs : List Ev) (st : State) (obs : List Obs) (h : run init evs = .ok (st, obs)) (a s b t : Nat)
    (i j : Nat) (c d : EntInfo × Option Nat) (hi : (st.created a s b t)[i]? = some c)
    (hj : (st.created a s b t)[j]? = some d) (hij : i ≠ j) : c.1.seq = i ∧ d.1.seq = j ∧ c.1.seq ≠ d.1.seq := by
  have hinv := inv_run inv_init h
  simp only [State.created, List.getElem?_map, Option.map_eq_some_iff] at hi hj
  obtain ⟨p, hp, rfl⟩ := hi
  obtain ⟨q, hq, rfl⟩ := hj
  have h1 := seq_of_index hinv a s b t i p hp
  have h2 := seq_of_index hinv a s b t j q hq
  exact ⟨h1, h2, by simp only; omega⟩

/-- Across the two directions of one socket pair sequence numbers are NOT distinct: the counter lives in the
creator's process, so the first pair a → b and the first pair b → a both carry sequence number 0; the two
results a node sees on that socket differ in the directionality flag only. -/
theorem seq_shared_across_directions :
    ∃ st obs, run init [.pair 0 1 0 0 .K 0 0 {}, .pair 1 0 0 0 .K 0 0 {}, .recv 0 0 1, .recv 1 0 1] = .ok (st, obs) ∧
      (st.created 0 0 1 0).map (fun c => (c.1.seq, c.1.dir)) = [(0, 0)] ∧
      (st.received 0 0).map (fun c => (c.1.seq, c.1.dir)) = [(0, 1)] := ⟨_, _, rfl, by decide⟩

/-! ## T08.4  the two delivered halves are one Bell pair -/

/-- Stabilizer level: two fresh qubits, `H` on the first, `CNOT` onto the second give (in the `Stab` model of the
engine) the generators XX, ZZ, and the group they generate is exactly {II, XX, ZZ, −YY}: the state Phi+. -/
theorem bell_state_group :
    (applyGate1 .H 0 (addQubit (addQubit Stab.empty))).bind (applyGate2 .CNOT 0 1) = some bellSt ∧
    ∀ p : POp, InGroup 2 bellSt.rows p ↔ (opII ≈ₚ p ∨ opXX ≈ₚ p ∨ opZZ ≈ₚ p ∨ opMinusYY ≈ₚ p) := by
  refine ⟨bell_eq, fun p => ⟨?_, ?_⟩⟩
  · rintro ⟨c, hlen, hc⟩
    match c, hlen with
    | [false, false], _ => exact Or.inl (eqv_trans ⟨by decide, by decide⟩ hc)
    | [true, false], _ => exact Or.inr (Or.inl (eqv_trans ⟨by decide, by decide⟩ hc))
    | [false, true], _ => exact Or.inr (Or.inr (Or.inl (eqv_trans ⟨by decide, by decide⟩ hc)))
    | [true, true], _ => exact Or.inr (Or.inr (Or.inr (eqv_trans ⟨by decide, by decide⟩ hc)))
  · rintro (h | h | h | h)
    · exact ⟨[false, false], rfl, eqv_trans ⟨by decide, by decide⟩ h⟩
    · exact ⟨[true, false], rfl, eqv_trans ⟨by decide, by decide⟩ h⟩
    · exact ⟨[false, true], rfl, eqv_trans ⟨by decide, by decide⟩ h⟩
    · exact ⟨[true, true], rfl, eqv_trans ⟨by decide, by decide⟩ h⟩

/-- Token level: for a create-and-keep pair, the qubit the creator keeps (x) and the qubit the receiver obtains
(y) are the two qubits of ONE register that holds nothing else and is in the state of `bell_state_group`; no other
register contains either of them; and the operations they ever received are exactly
`new x; new y; H x; CNOT x y`. -/
theorem halves_are_one_bell_pair (cfg : Cfg) (hm : Matched cfg) (evs : List Ev) (st : State) (obs : List Obs)
    (hq : ∀ e, e ∈ evs → EvOK cfg e) (h : run init evs = .ok (st, obs)) (a s b t : Nat) (hc : cfg a s = some (b, t))
    (i : Nat) (c r : EntInfo × Option Nat) (hci : (st.created a s b t)[i]? = some c)
    (hri : (st.received b t)[i]? = some r) (hK : c.1.typ = .K) :
    ∃ x y, c.2 = some x ∧ r.2 = some y ∧ x ≠ y ∧
      ([x, y], bellSt) ∈ st.regs ∧
      (∀ reg, reg ∈ st.regs → (x ∈ reg.1 ∨ y ∈ reg.1) → reg = ([x, y], bellSt)) ∧
      st.qlog.filter (fun op => op.touches x || op.touches y) = [.new x, .new y, .H x, .CNOT x y] := by
  obtain ⟨p, qid, hp, rfl, rfl, _, ⟨typ, cid, q, x, hok⟩⟩ := matched_core hm hq h hc hci hri
  have hiq := invQ_run invQ_init h
  simp only at hK
  have htyp : typ = .K := hok.typ_c.symm.trans hK
  obtain ⟨_, htok, _⟩ := hok.keep htyp
  obtain ⟨hev, hhalf, hreg, hlog⟩ := hiq.kept a s b t p x (List.mem_of_getElem? hp) htok
  refine ⟨x, x + 1, htok, hhalf, by omega, hreg, ?_, hlog⟩
  intro reg hr hmem
  obtain ⟨x', rfl, hev', _⟩ := hiq.regsOK reg hr
  simp only [List.mem_cons, List.not_mem_nil, or_false] at hmem
  have : x' = x := by omega
  rw [this]

example : ∃ st obs, run init [.pair 0 1 0 0 .K 0 0 {}, .pair 2 1 1 1 .K 0 0 {}, .recv 1 1 0, .recv 1 0 1] = .ok (st, obs) ∧
    st.regs.map (·.1) = [[0, 1], [2, 3]] ∧ (st.received 1 0).map (·.2) = [some 1] := ⟨_, _, rfl, by decide⟩

/-! ## T08.5  measure-directly outcomes -/

/-- The outcome table of the model: measuring the halves of the pair in bases (b1, b2) ∈ {X, Y, Z}² — X by
`H`, Y by `K` (the code's convention), then a Z measurement — never fails, gives equal outcomes for Z/Z and X/X,
DIFFERENT outcomes for Y/Y, and for every pair of coins an outcome pair the table allows; conversely every
allowed outcome pair is produced by some coins (the table is tight). -/
theorem md_outcome_table (b1 b2 : Basis) (h1 : b1 = .Z ∨ b1 = .X ∨ b1 = .Y) (h2 : b2 = .Z ∨ b2 = .X ∨ b2 = .Y) :
    (∀ c1 c2, ∃ o1 o2, mdOutcomes b1 b2 c1 c2 = .ok (o1, o2) ∧ allowedB b1 b2 o1 o2 = true) ∧
    (∀ o1 o2, allowedB b1 b2 o1 o2 = true → ∃ c1 c2, mdOutcomes b1 b2 c1 c2 = .ok (o1, o2)) := by
  rcases h1 with rfl | rfl | rfl <;> rcases h2 with rfl | rfl | rfl <;>
    refine ⟨fun c1 c2 => ?_, fun o1 o2 h => ?_⟩
  all_goals first
    | (cases c1 <;> cases c2 <;> exact ⟨_, _, rfl, rfl⟩)
    | (cases o1 <;> cases o2 <;>
        first
          | exact absurd h (by decide)
          | exact ⟨false, false, rfl⟩
          | exact ⟨true, false, rfl⟩
          | exact ⟨false, true, rfl⟩
          | exact ⟨true, true, rfl⟩)

/-- the table is the physics of Phi+: an outcome pair (o1, o2) in bases (P, Q) has probability zero exactly when
`−(−1)^(o1+o2) P⊗Q` is in the stabilizer group of the pair (`letter` maps a basis to its Pauli letter) -/
theorem md_table_is_phi_plus (b1 b2 : Basis) (h1 : b1 = .Z ∨ b1 = .X ∨ b1 = .Y) (h2 : b2 = .Z ∨ b2 = .X ∨ b2 = .Y)
    (o1 o2 : Bool) :
    allowedB b1 b2 o1 o2 = false ↔ InGroup 2 bellSt.rows ⟨if o1 == o2 then 2 else 0, [letter b1, letter b2]⟩ := by
  rw [bell_state_group.2]
  rcases h1 with rfl | rfl | rfl <;> rcases h2 with rfl | rfl | rfl <;> cases o1 <;> cases o2 <;>
    simp [allowedB, letter, POp.eqv, opII, opXX, opZZ, opMinusYY]

/-- In every history, the i-th measure-directly results of creator and receiver report outcomes that are
possible for Phi+ in the reported bases. -/
theorem md_outcomes_possible (cfg : Cfg) (hm : Matched cfg) (evs : List Ev) (st : State) (obs : List Obs)
    (hq : ∀ e, e ∈ evs → EvOK cfg e) (h : run init evs = .ok (st, obs)) (a s b t : Nat) (hc : cfg a s = some (b, t))
    (i : Nat) (c r : EntInfo × Option Nat) (hci : (st.created a s b t)[i]? = some c)
    (hri : (st.received b t)[i]? = some r) (hM : c.1.typ = .M) :
    Allowed c.1.basis r.1.basis c.1.outcome r.1.outcome ∧ c.2 = none ∧ r.2 = none := by
  obtain ⟨p, qid, _, rfl, rfl, _, ⟨typ, cid, q, x, hok⟩⟩ := matched_core hm hq h hc hci hri
  simp only at hM
  have htyp : typ = .M := hok.typ_c.symm.trans hM
  obtain ⟨h1, h2, h3⟩ := hok.meas htyp
  obtain ⟨_, _, f3, f4, _⟩ := rebind_fields p.msg.info qid
  simp only
  rw [f3, f4]
  exact ⟨h3, h1, h2⟩

/-! ## T08.6  basis weights -/

/-- `_get_probability_weights` on a spec reduced `% 256` (as `_sample_basis_choice` does): for two choices the
weights are non-negative and sum to 256, always; for three choices they sum to 256, always, and are all
non-negative exactly when `p1 + p2 ≤ 256`. -/
theorem basis_weights (p1 p2 : Int) :
    (∃ w1 w2, weights (reduceSpec [p1, p2]) 2 = .ok [w1, w2] ∧ 0 ≤ w1 ∧ 0 ≤ w2 ∧ w1 + w2 = 256) ∧
    (∃ w1 w2 w3, weights (reduceSpec [p1, p2]) 3 = .ok [w1, w2, w3] ∧ w1 + w2 + w3 = 256 ∧ 0 ≤ w1 ∧ 0 ≤ w2 ∧
      (0 ≤ w3 ↔ p1 % 256 + p2 % 256 ≤ 256)) := by
  have a1 := Int.emod_nonneg p1 (by decide : (256 : Int) ≠ 0)
  have a2 := Int.emod_lt_of_pos p1 (by decide : (0 : Int) < 256)
  have b1 := Int.emod_nonneg p2 (by decide : (256 : Int) ≠ 0)
  refine ⟨⟨p1 % 256, 256 - p1 % 256, rfl, a1, by omega, by omega⟩,
    ⟨p1 % 256, p2 % 256, 256 - (p1 % 256 + p2 % 256), rfl, by omega, a1, b1, by omega⟩⟩

/-- The third weight CAN be negative: the spec (200, 200) — host-controlled entries of the request array —
reaches `random.choices` as [200, 200, −144].  (Python then never picks Z and picks X with 200/256; no error.
The pairing and outcome statements above hold for whichever basis is picked.) -/
theorem basis_weights_three_negative : sampleSpec .XYZ [200, 200] = .ok (.choose [.X, .Y, .Z] [200, 200, -144]) := rfl

/-- so "non-negative weights for every spec" (T08.6 as first drafted) is false for three choices -/
theorem basis_weights_nonneg_counterexample :
    ¬ (∀ p1 p2 : Int, ∀ w, weights (reduceSpec [p1, p2]) 3 = .ok w → ∀ x, x ∈ w → 0 ≤ x) := by
  intro h
  have := h 200 200 [200, 200, -144] rfl (-144) (by simp)
  omega

example : sampleSpec .XZ [300, 7] = .ok (.choose [.X, .Z] [44, 212]) := rfl

/-! ## progress of the model, and where the code falls short of it -/

/-- In the model a `cmd_epr` towards another node in supported bases never blocks and never fails … -/
theorem create_never_blocks (st : State) (a b s t : Nat) (typ : ReqType) (cid qid : Nat) (rnd : Rnd) (hne : a ≠ b)
    (h1 : rnd.bl = .Z ∨ rnd.bl = .X ∨ rnd.bl = .Y) (h2 : rnd.br = .Z ∨ rnd.br = .X ∨ rnd.br = .Y) :
    ∃ st' e, pair st a b s t typ cid qid rnd = .ok (st', e) := by
  obtain ⟨bl, br, c1, c2⟩ := rnd
  simp only at h1 h2
  unfold pair
  simp only [hne, if_false, bell_eq]
  cases typ with
  | K => exact ⟨_, _, rfl⟩
  | M =>
    rcases h1 with rfl | rfl | rfl <;> rcases h2 with rfl | rfl | rfl <;> cases c1 <;> cases c2 <;>
      exact ⟨_, _, rfl⟩

/-- … but the code's `cmd_epr` is not atomic: the lock skeleton of two `send_epr_half` in opposite directions
reaches, after each sender took its own node lock, a state in which neither is finished and neither can move. -/
theorem crossing_sends_deadlock :
    ∃ s, lockRun LockSt.init [false, true] = some s ∧ s.pc0 ≠ .done ∧ s.pc1 ≠ .done ∧
      lockStep false s = none ∧ lockStep true s = none := ⟨_, rfl, by decide⟩

/-- one after the other they complete and leave both locks free -/
theorem sends_in_turn_complete :
    lockRun LockSt.init [false, false, false, false, true, true, true, true] = some ⟨false, false, .done, .done⟩ := by
  decide

end SqVerif.C08

import SqVerif.NoiseLemmas
import SqVerif.Gen.NoiseCalls
/-
C19 — Noise is absent unless enabled and depolarizing at the documented rate.

"With noisy qubits disabled, idle time never changes any state.  With them
enabled, immediately before each operation on a qubit that was idle for t
seconds exactly one of X, Y, Z is applied with probability (1 - exp(-t/T1))/4
each and nothing otherwise, to that qubit only."

Reading.  "An operation on a qubit" = a method invoked on that simulated qubit
(`Op`: the seven single-qubit gates, both measurements, and the control side of
CNOT / CPHASE); the target of a two-qubit gate is not clocked by that call.
"Idle for t seconds" = the clock reading at the operation minus the reading
stored by the previous operation on the same simulated qubit (at first: its
creation).  "With probability q" = the draw `x` of `random.random()`, uniform on
[0,1), falls into an interval of length q; the theorems are about the decision
rule given the draw.

The model (`Noise.lean`) is generic in the number type.  Theorems that do not
need arithmetic hold for every number type (so also for the IEEE doubles the
driver runs it on); `thresholds*` hold over every linearly ordered commutative
ring (ℤ — the driver's exact instantiation —, ℚ, ℝ, every ordered field);
`rate_in_range`, `noise_law`, `history_law` are over ℝ with `Real.exp`.
-/
namespace SqVerif.C19
open SqVerif.Noise

/-! ## T19.1 switch off ⇒ nothing but the requested call, whatever the idle time -/

section Generic
variable {α : Type} [LT α] [DecidableLT α] [BEq α] [Sub α] [Neg α] [Mul α] [Div α]
  [OfNat α 0] [OfNat α 1] [OfNat α 2] [OfNat α 3] [OfNat α 4]

/-- T19.1 one operation, noise disabled: for every clock reading, draw, `T1`
(including 0) and `exp`, the only engine call is the requested one and the
qubit record (including its idle clock) is unchanged. -/
theorem disabled_is_identity (exp : α → α) (q : Qubit α) (e : Env α) (o : Op) (h : q.noisy = false) :
    step exp q e o = (q, .done [.req o q.num]) :=
  step_disabled exp q e o h

/-- T19.1 over histories: any sequence of operations at any times. -/
theorem disabled_history (exp : α → α) (q : Qubit α) (h : q.noisy = false) (steps : List (Env α × Op)) :
    run exp q steps = (q, steps.map fun s => .done [.req s.2 q.num]) :=
  run_disabled exp q h steps

/-! ## T19.4 the Pauli goes to the qubit's own position, at most one, before the operation -/

/-- T19.4 one operation: either the noise step raised (only `T1 == 0`, no engine
call at all), or the calls are the requested one alone, or exactly one Pauli at
`q.num` followed by the requested one. -/
theorem only_that_qubit (exp : α → α) (q : Qubit α) (e : Env α) (o : Op) :
    (step exp q e o).2 = .zeroDivision ∨
    (step exp q e o).2 = .done [.req o q.num] ∨
    ∃ P, (step exp q e o).2 = .done [.pauli P q.num, .req o q.num] :=
  step_shape exp q e o

/-- T19.4 over histories: every engine call of every operation acts at `q.num`. -/
theorem only_that_qubit_history (exp : α → α) (q : Qubit α) (steps : List (Env α × Op)) :
    ∀ obs ∈ (run exp q steps).2, ∀ calls, obs = .done calls → ∀ c ∈ calls, c.pos = q.num :=
  run_positions exp q steps

/-- the idle clock: with noise enabled (and `T1 ≠ 0`) a history behaves as the
specification `specRun`, in which the idle time of every operation is counted
from the reading stored by the previous operation on this qubit. -/
theorem idle_clock (exp : α → α) (q : Qubit α) (h : q.noisy = true) (hT : (q.T1 == 0) = false)
    (steps : List (Env α × Op)) :
    (run exp q steps).2 = specRun exp q.T1 q.num q.lastAccessed steps :=
  run_enabled exp q h hT steps

end Generic

/-! ## T19.2 the thresholds -/

section Rule
variable {α : Type} [CommRing α] [LinearOrder α] [IsStrictOrderedRing α]

/-- T19.2 for `0 ≤ p`: X iff `x < p`, Y iff `p ≤ x < 2p`, Z iff `2p ≤ x < 3p`,
nothing iff `3p ≤ x`. -/
theorem thresholds (p x : α) (hp : 0 ≤ p) :
    (select p x = some .X ↔ x < p) ∧
    (select p x = some .Y ↔ p ≤ x ∧ x < 2 * p) ∧
    (select p x = some .Z ↔ 2 * p ≤ x ∧ x < 3 * p) ∧
    (select p x = none ↔ 3 * p ≤ x) :=
  ⟨select_X_iff p x, select_Y_iff p x, select_Z_iff p x hp, select_none_iff p x hp⟩

/-- T19.2 for `0 ≤ p`, `3p ≤ 1` and a draw in [0,1): the four outcomes are the
four consecutive intervals [0,p), [p,2p), [2p,3p), [3p,1), whose end points are
ordered and whose lengths are p, p, p and 1-3p (summing to 1). -/
theorem thresholds_partition (p x : α) (hp : 0 ≤ p) (h3 : 3 * p ≤ 1) (hx0 : 0 ≤ x) (hx1 : x < 1) :
    ((select p x = some .X ↔ 0 ≤ x ∧ x < p) ∧
     (select p x = some .Y ↔ p ≤ x ∧ x < 2 * p) ∧
     (select p x = some .Z ↔ 2 * p ≤ x ∧ x < 3 * p) ∧
     (select p x = none ↔ 3 * p ≤ x ∧ x < 1)) ∧
    (0 ≤ p ∧ p ≤ 2 * p ∧ 2 * p ≤ 3 * p ∧ 3 * p ≤ 1) ∧
    (p - 0 = p ∧ 2 * p - p = p ∧ 3 * p - 2 * p = p ∧ p + p + p + (1 - 3 * p) = 1) := by
  refine ⟨⟨?_, select_Y_iff p x, select_Z_iff p x hp, ?_⟩, ⟨hp, by linarith, by linarith, h3⟩,
    ⟨by ring, by ring, by ring, by ring⟩⟩
  · rw [select_X_iff]; exact ⟨fun h => ⟨hx0, h⟩, fun h => h.2⟩
  · rw [select_none_iff p x hp]; exact ⟨fun h => ⟨h, hx1⟩, fun h => h.1⟩

/-- a rate that is not positive (clock stepped backwards, negative `T1`) never fires -/
theorem no_noise_when_rate_nonpos (p x : α) (hp : p ≤ 0) (hx : 0 ≤ x) : select p x = none :=
  select_none_of_nonpos p x hp hx

end Rule

/-! ## T19.3 the rate -/

/-- T19.3 for `t ≥ 0`, `T1 > 0` the rate `p = (1 - exp(-t/T1))/4` satisfies
`0 ≤ p < 1/4`, hence `3p < 1`. -/
theorem rate_in_range (t T1 : ℝ) (ht : 0 ≤ t) (hT : 0 < T1) :
    rate Real.exp t T1 = (1 - Real.exp (-t / T1)) / 4 ∧
    0 ≤ rate Real.exp t T1 ∧ rate Real.exp t T1 < 1 / 4 ∧ 3 * rate Real.exp t T1 < 1 := by
  have h1 := rate_nonneg t T1 ht hT
  have h2 := rate_lt_quarter t T1
  exact ⟨rfl, h1, h2, by linarith⟩

/-- the rate is 0 at `t = 0` and strictly increasing in the idle time -/
theorem rate_monotone (t t' T1 : ℝ) (hT : 0 < T1) :
    rate Real.exp 0 T1 = 0 ∧ (t < t' → rate Real.exp t T1 < rate Real.exp t' T1) :=
  ⟨rate_zero T1, fun h => rate_strictMono t t' T1 h hT⟩

/-! ## the property for one operation and for histories, over ℝ -/

/-- what the statement demands of one operation on a qubit at position `num`
whose idle clock reads `last`: with `p` the documented rate for the idle time
`e.now1 - last`, the register receives `pick ++ [requested call]` where `pick`
is X / Y / Z at `num` exactly when the draw lies in the first / second / third
interval of length `p`, and empty exactly when it lies beyond `3p`. -/
def StepLaw (T1 : ℝ) (num : Nat) (last : ℝ) (e : Env ℝ) (o : Op) (obs : StepObs) : Prop :=
  let p := (1 - Real.exp (-(e.now1 - last) / T1)) / 4
  0 ≤ p ∧ 3 * p < 1 ∧
  ∃ pick : List Call, obs = .done (pick ++ [.req o num]) ∧
    (pick = [.pauli .X num] ↔ e.x < p) ∧
    (pick = [.pauli .Y num] ↔ p ≤ e.x ∧ e.x < 2 * p) ∧
    (pick = [.pauli .Z num] ↔ 2 * p ≤ e.x ∧ e.x < 3 * p) ∧
    (pick = [] ↔ 3 * p ≤ e.x)

/-- T19.2+3+4 combined, one operation: noise enabled, `T1 > 0`, clock not behind
the stored reading.  Holds for every operation kind, every draw, every idle time. -/
theorem noise_law (q : Qubit ℝ) (e : Env ℝ) (o : Op) (hn : q.noisy = true) (hT : 0 < q.T1)
    (ht : q.lastAccessed ≤ e.now1) :
    StepLaw q.T1 q.num q.lastAccessed e o (step Real.exp q e o).2 ∧
    (step Real.exp q e o).1 = { q with lastAccessed := e.now2 } := by
  have hT0 : (q.T1 == 0) = false := beq_eq_false_iff_ne.mpr (ne_of_gt hT)
  rw [step_enabled Real.exp q e o hn hT0]
  refine ⟨?_, rfl⟩
  have hr := rate_in_range (e.now1 - q.lastAccessed) q.T1 (by linarith) hT
  obtain ⟨_, hp0, _, hp3⟩ := hr
  rw [rate_real] at hp0 hp3
  refine ⟨hp0, hp3, _, rfl, ?_, ?_, ?_, ?_⟩
  · rw [noiseCalls_pauli_iff]; exact select_X_iff _ _
  · rw [noiseCalls_pauli_iff]; exact select_Y_iff _ _
  · rw [noiseCalls_pauli_iff]; exact select_Z_iff _ _ hp0
  · rw [noiseCalls_nil_iff]; exact select_none_iff _ _ hp0

/-- a history whose clock readings never run backwards relative to the stored reading -/
def Admissible : ℝ → List (Env ℝ × Op) → Prop
  | _, [] => True
  | last, (e, _) :: rest => last ≤ e.now1 ∧ Admissible e.now2 rest

/-- `StepLaw` at every operation of a history, the idle time of each counted from
the reading stored by the previous one -/
def HistoryLaw (T1 : ℝ) (num : Nat) : ℝ → List (Env ℝ × Op) → List StepObs → Prop
  | _, [], [] => True
  | last, (e, o) :: rest, obs :: more => StepLaw T1 num last e o obs ∧ HistoryLaw T1 num e.now2 rest more
  | _, _, _ => False

/-- the property over all histories of operations on a simulated qubit -/
theorem history_law (q : Qubit ℝ) (steps : List (Env ℝ × Op)) (hn : q.noisy = true) (hT : 0 < q.T1)
    (ha : Admissible q.lastAccessed steps) :
    HistoryLaw q.T1 q.num q.lastAccessed steps (run Real.exp q steps).2 := by
  induction steps generalizing q with
  | nil => simp [run, HistoryLaw]
  | cons s rest ih =>
    obtain ⟨e, o⟩ := s
    obtain ⟨h1, h2⟩ := ha
    rw [run_cons]
    obtain ⟨law, hq⟩ := noise_law q e o hn hT h1
    refine ⟨law, ?_⟩
    rw [hq]
    exact ih { q with lastAccessed := e.now2 } hn hT h2

/-! ## facts regenerated from the source on every run (`Gen/NoiseCalls.lean`) -/

open SqVerif.Gen.NoiseCalls

/-- every method of `simulatedQubit` that calls a state-acting engine method
calls `self._apply_random_pauli_noise()` exactly once, unconditionally, before
its first engine call, and all its engine calls are on `self.num` -/
theorem every_operation_applies_noise_first :
    ∀ m ∈ opMethods, m.noiseFirst = true ∧ m.noiseCalls = 1 ∧ m.unrecognised = false ∧
      ∀ c ∈ m.engineCalls, c.2 = true := by
  decide

/-- `_apply_random_pauli_noise` starts with the `if not self.noisy: return`
guard, calls the engine only as `apply_X/Y/Z(self.num)` and assigns nothing but
`self.last_accessed` -/
theorem noise_touches_own_qubit_only :
    noiseMethod.present = true ∧ noiseMethod.guardFirst = true ∧ noiseMethod.unrecognised = false ∧
    (∀ c ∈ noiseMethod.engineCalls, c.2 = true ∧ c.1 ∈ ["apply_X", "apply_Y", "apply_Z"]) ∧
    (∀ a ∈ noiseMethod.assigns, a = "last_accessed") := by
  decide

/-- every operation kind of the model is a method of the source with exactly the
engine call the model issues for it -/
theorem model_ops_are_source_methods :
    ∀ o ∈ Op.kinds, ∃ m ∈ opMethods, m.name = o.method ∧
      m.engineCalls = [((Call.engine (.req o 0)).1, true)] := by
  decide

/-- `Op.kinds` has a representative of every constructor of `Op` -/
theorem kinds_complete (o : Op) : ∃ k ∈ Op.kinds, k.method = o.method := by
  cases o <;> simp [Op.kinds, Op.method]

/-! ## non-vacuity: concrete instances satisfy the hypotheses -/

-- T19.1: a disabled qubit with T1 = 0, two operations far apart in time (ℤ as number type)
example : run (fun _ => (0 : Int)) ⟨false, 0, 5, 2⟩ [(⟨1000, 1000, 0⟩, .H), (⟨99999, 99999, 0⟩, .cnot 1)]
    = (⟨false, 0, 5, 2⟩, [.done [.req .H 2], .done [.req (.cnot 1) 2]]) := by decide
-- T19.2 over ℤ (thresholds scaled by 1000): p = 0.2, draws 0.1 / 0.3 / 0.5 / 0.6 / 0.9
example : (0 : Int) ≤ 200 ∧ 3 * (200 : Int) ≤ 1000 := by decide
example : select (200 : Int) 100 = some .X ∧ select (200 : Int) 300 = some .Y ∧
    select (200 : Int) 500 = some .Z ∧ select (200 : Int) 600 = none ∧ select (200 : Int) 900 = none := by decide
-- T19.3 / noise_law / history_law: t = 1, T1 = 1; a noisy qubit created at time 0, operated at times 1 and 3
example : (0 : ℝ) ≤ 1 ∧ (0 : ℝ) < 1 := ⟨by norm_num, by norm_num⟩
example : Admissible (0 : ℝ) [(⟨1, 1, 0.5⟩, .X), (⟨3, 3, 0.1⟩, .meas)] := by
  simp [Admissible]
-- T19.4 / idle_clock: an enabled step over ℚ with exp(-t/T1) = 1/2, i.e. p = 1/8: draw 1/10 → X, 3/10 → Z, 1/2 → nothing
example : (step (fun _ => (1 / 2 : Rat)) ⟨true, 1, 0, 3⟩ ⟨7, 7, 1 / 10⟩ .Z).2 = .done [.pauli .X 3, .req .Z 3] := by decide +kernel
example : (step (fun _ => (1 / 2 : Rat)) ⟨true, 1, 0, 3⟩ ⟨7, 7, 3 / 10⟩ .Z).2 = .done [.pauli .Z 3, .req .Z 3] := by decide +kernel
example : (step (fun _ => (1 / 2 : Rat)) ⟨true, 1, 0, 3⟩ ⟨7, 7, 1 / 2⟩ .H).2 = .done [.req .H 3] := by decide +kernel

end SqVerif.C19
